#!/bin/sh
# Builds the framework from files on disk only (offline).
set -e
cd /verif/lean && lake build Rustemo rustemo_model
cd /verif/harness/dyn && cp -n /repo/Cargo.lock Cargo.lock 2>/dev/null || true
CARGO_NET_OFFLINE=true cargo build --offline
