#!/bin/sh
# Builds the framework from files on disk only (offline).
set -e
cd /verif/lean && lake build Rustemo rustemo_model
for h in dyn regen cli gen astgen; do
  if [ -f /verif/harness/$h/Cargo.toml ]; then
    cd /verif/harness/$h && (cp -n /repo/Cargo.lock Cargo.lock 2>/dev/null || true)
    CARGO_NET_OFFLINE=true cargo build --offline
  fi
done
