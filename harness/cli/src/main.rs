//! vcli: drives the REAL `rcomp` binary and the REAL `rustemo_compiler::Settings` API for C17.
//!
//! usage: vcli <jobs-file> <out-file>            (env VCLI_RCOMP = path of the rcomp binary)
//!        vcli --child-api  <settings-out> <mode> <target-hex> <k=v>...     (internal, fresh process)
//!        vcli --child-multi <settings-out> <targets-hex,comma> <k=v>...    (internal, fresh process)
//!
//! One job per line, one answer line per job (`<jobno> <answer>`). Strings are hex (`=` empty, `-` none).
//!
//!  cli   <tpl-dir> <run-dir> <OUT_DIR> <CARGO_MANIFEST_DIR> <RUSTEMO_TRACE 0/1> <argv token hex>*
//!        copy tpl-dir to run-dir, run `rcomp <argv>` there with exactly that environment
//!  api   <tpl-dir> <run-dir> <OUT_DIR> <CARGO_MANIFEST_DIR> <RUSTEMO_TRACE 0/1> <file|dir> <target hex> <k=v>*
//!        same, but a fresh vcli process configures `Settings` through the builder API from the
//!        canonical settings line (the Lean driver's answer) and calls process_grammar / process_dir
//!  multi <tpl-dir> <run-dir> <OUT_DIR> <CARGO_MANIFEST_DIR> <RUSTEMO_TRACE 0/1> <targets hex,…> <k=v>*
//!        one fresh process, one Settings value, the grammar files processed in the given order
//!  defaults <OUT_DIR> <CARGO_MANIFEST_DIR> <RUSTEMO_TRACE 0/1>
//!        canonical settings line of `Settings::new()` in a fresh process with that environment
//!  choices <grammar-file>
//!        the `cli names …` request line for the Lean driver, from the hook's grammar dump
//!
//! Answer of cli/api/multi:
//!   rc=<exit code> class=<ok|err|usage|panic:<site>> gen=<0/1> table=<0/1> trace=<0/1> out=<stdout hash>
//!   selfcheck=<ok|-|DIFF:<hex of the line the API produced>> files=<relpath hex>:<len>:<hash128>,…
//! Answer of defaults: the settings line. Answer of choices: the request line (or `err <hex>`).
use rustemo_compiler::{
    BuilderType, GeneratorTableType, LexerType, ParserAlgo, Settings, TableType,
};
use std::collections::BTreeMap;
use std::io::{BufRead, Write};
use std::path::{Path, PathBuf};
use std::process::{Command, Stdio};

// ------------------------------------------------------------------------------------------------
// small helpers
// ------------------------------------------------------------------------------------------------

fn hx(s: &str) -> String {
    if s.is_empty() {
        return "=".into();
    }
    s.bytes().map(|b| format!("{b:02x}")).collect()
}

fn unhx(s: &str) -> String {
    if s == "=" {
        return String::new();
    }
    let b: Vec<u8> = (0..s.len() / 2)
        .map(|i| u8::from_str_radix(&s[2 * i..2 * i + 2], 16).unwrap_or(b'?'))
        .collect();
    String::from_utf8_lossy(&b).into_owned()
}

fn opt_unhx(s: &str) -> Option<String> {
    if s == "-" {
        None
    } else {
        Some(unhx(s))
    }
}

/// 128 bits from two independent 64-bit multiplicative hashes (no hash crate is available offline).
fn hash128(data: &[u8]) -> String {
    let mut a: u64 = 0xcbf29ce484222325;
    let mut b: u64 = 0x9e3779b97f4a7c15;
    for &x in data {
        a ^= x as u64;
        a = a.wrapping_mul(0x100000001b3);
        b = (b ^ (x as u64 + 1)).wrapping_mul(0xff51afd7ed558ccd).rotate_left(29);
    }
    format!("{a:016x}{b:016x}")
}

fn copy_dir(src: &Path, dst: &Path) -> std::io::Result<()> {
    std::fs::create_dir_all(dst)?;
    for e in std::fs::read_dir(src)? {
        let e = e?;
        let p = e.path();
        let d = dst.join(e.file_name());
        if p.is_dir() {
            copy_dir(&p, &d)?;
        } else {
            std::fs::copy(&p, &d)?;
        }
    }
    Ok(())
}

fn list_files(root: &Path, dir: &Path, out: &mut Vec<(String, usize, String)>) {
    if let Ok(rd) = std::fs::read_dir(dir) {
        for e in rd.flatten() {
            let p = e.path();
            if p.is_dir() {
                list_files(root, &p, out);
            } else if let Ok(data) = std::fs::read(&p) {
                let rel = p.strip_prefix(root).unwrap_or(&p).to_string_lossy().to_string();
                out.push((rel, data.len(), hash128(&data)));
            }
        }
    }
}

// ------------------------------------------------------------------------------------------------
// canonical settings line  <->  real Settings
// ------------------------------------------------------------------------------------------------

const FIELDS: [&str; 25] = [
    "out_dir_root",
    "out_dir_actions_root",
    "root_dir",
    "prefer_shifts",
    "prefer_shifts_over_empty",
    "table_type",
    "parser_algo",
    "print_table",
    "exclude",
    "actions",
    "trace",
    "lexer_type",
    "builder_type",
    "builder_loc_info",
    "generator_table_type",
    "input_type",
    "lexical_disamb_most_specific",
    "lexical_disamb_longest_match",
    "lexical_disamb_grammar_order",
    "partial_parse",
    "skip_ws",
    "force",
    "force_explicit",
    "dot",
    "fancy_regex",
];

fn unquote(s: &str) -> String {
    // Rust Debug string literal -> content (only the escapes Debug produces for printable ASCII)
    let s = s.trim();
    let inner = s.strip_prefix('"').and_then(|x| x.strip_suffix('"')).unwrap_or(s);
    let mut out = String::new();
    let mut it = inner.chars();
    while let Some(c) = it.next() {
        if c == '\\' {
            match it.next() {
                Some('n') => out.push('\n'),
                Some('t') => out.push('\t'),
                Some(x) => out.push(x),
                None => {}
            }
        } else {
            out.push(c);
        }
    }
    out
}

/// `{:?}` of the real `Settings` → canonical line. Fields are located by NAME (not position), so
/// reordering the struct does not matter; a value ends where the next `, <known field>: ` begins.
fn settings_line(s: &Settings) -> String {
    let dbg = format!("{s:?}");
    let body = dbg
        .strip_prefix("Settings { ")
        .and_then(|x| x.strip_suffix(" }"))
        .unwrap_or(&dbg)
        .to_string();
    // positions of every known field
    let mut starts: Vec<(usize, usize, &str)> = vec![]; // (start of name, start of value, name)
    for f in FIELDS {
        let pat = format!("{f}: ");
        let mut from = 0;
        while let Some(i) = body[from..].find(&pat) {
            let at = from + i;
            let boundary = at == 0 || body[..at].ends_with(", ");
            if boundary {
                starts.push((at, at + pat.len(), f));
                break;
            }
            from = at + pat.len();
        }
    }
    starts.sort();
    let mut vals: BTreeMap<&str, String> = BTreeMap::new();
    for (k, (_, vstart, name)) in starts.iter().enumerate() {
        let vend = if k + 1 < starts.len() {
            starts[k + 1].0.saturating_sub(2)
        } else {
            body.len()
        };
        vals.insert(name, body[*vstart..vend].to_string());
    }
    let mut out = vec![];
    for f in FIELDS {
        let raw = vals.get(f).cloned().unwrap_or_else(|| "?".into());
        let v = match f {
            "out_dir_root" | "out_dir_actions_root" | "root_dir" => {
                if raw == "None" {
                    "-".to_string()
                } else {
                    let inner = raw
                        .strip_prefix("Some(")
                        .and_then(|x| x.strip_suffix(')'))
                        .unwrap_or(&raw);
                    hx(&unquote(inner))
                }
            }
            "input_type" => hx(&unquote(&raw)),
            "exclude" => {
                let inner = raw
                    .strip_prefix('[')
                    .and_then(|x| x.strip_suffix(']'))
                    .unwrap_or(&raw);
                if inner.trim().is_empty() {
                    "-".to_string()
                } else {
                    inner
                        .split("\", \"")
                        .map(|x| {
                            let x = x.trim_start_matches('"').trim_end_matches('"');
                            hx(&unquote(&format!("\"{x}\"")))
                        })
                        .collect::<Vec<_>>()
                        .join(",")
                }
            }
            "table_type" | "parser_algo" | "lexer_type" | "builder_type" | "generator_table_type" => raw,
            _ => match raw.as_str() {
                "true" => "1".to_string(),
                "false" => "0".to_string(),
                other => format!("?{other}"),
            },
        };
        out.push(format!("{f}={v}"));
    }
    out.join(" ")
}

fn kv(args: &[String]) -> BTreeMap<String, String> {
    args.iter()
        .filter_map(|a| a.split_once('=').map(|(k, v)| (k.to_string(), v.to_string())))
        .collect()
}

fn b(m: &BTreeMap<String, String>, k: &str) -> bool {
    m.get(k).map(|v| v == "1").unwrap_or(false)
}

/// Configure the real `Settings` through its public builder API so that it equals the vector.
/// `parser_algo` goes first because it overrides four other settings; a builder that has no
/// "unset" direction is only called when the value differs from what `Settings::new()` gave.
fn settings_from(m: &BTreeMap<String, String>) -> Result<Settings, String> {
    let dflt = settings_line(&Settings::new());
    let d = kv(&dflt.split(' ').map(|x| x.to_string()).collect::<Vec<_>>());
    let get = |k: &str| m.get(k).cloned().unwrap_or_default();
    let mut s = Settings::new();
    s = s.parser_algo(match get("parser_algo").as_str() {
        "LR" => ParserAlgo::LR,
        "GLR" => ParserAlgo::GLR,
        x => return Err(format!("parser_algo {x}")),
    });
    s = s.table_type(match get("table_type").as_str() {
        "LALR" => TableType::LALR,
        "LALR_PAGER" => TableType::LALR_PAGER,
        "LALR_RN" => TableType::LALR_RN,
        x => return Err(format!("table_type {x}")),
    });
    s = s
        .prefer_shifts(b(m, "prefer_shifts"))
        .prefer_shifts_over_empty(b(m, "prefer_shifts_over_empty"))
        .print_table(b(m, "print_table"))
        .actions(b(m, "actions"))
        .trace(b(m, "trace"))
        .builder_loc_info(b(m, "builder_loc_info"))
        .lexical_disamb_most_specific(b(m, "lexical_disamb_most_specific"))
        .lexical_disamb_longest_match(b(m, "lexical_disamb_longest_match"))
        .lexical_disamb_grammar_order(b(m, "lexical_disamb_grammar_order"))
        .partial_parse(b(m, "partial_parse"))
        .skip_ws(b(m, "skip_ws"))
        .dot(b(m, "dot"))
        .fancy_regex(b(m, "fancy_regex"))
        .input_type(unhx(&get("input_type")));
    s = s.lexer_type(match get("lexer_type").as_str() {
        "Default" => LexerType::Default,
        "Custom" => LexerType::Custom,
        x => return Err(format!("lexer_type {x}")),
    });
    s = s.builder_type(match get("builder_type").as_str() {
        "Default" => BuilderType::Default,
        "Generic" => BuilderType::Generic,
        "Custom" => BuilderType::Custom,
        x => return Err(format!("builder_type {x}")),
    });
    s = s.generator_table_type(match get("generator_table_type").as_str() {
        "Arrays" => GeneratorTableType::Arrays,
        "Functions" => GeneratorTableType::Functions,
        x => return Err(format!("generator_table_type {x}")),
    });
    let ex = get("exclude");
    s = s.exclude(if ex == "-" {
        vec![]
    } else {
        ex.split(',').map(unhx).collect()
    });
    if b(m, "force_explicit") {
        s = s.force(b(m, "force"));
    } else if get("force") != *d.get("force").unwrap_or(&"1".to_string()) {
        return Err("force differs from the default but is not explicit".into());
    }
    for (k, which) in [("out_dir_root", 0), ("out_dir_actions_root", 1), ("root_dir", 2)] {
        let want = get(k);
        if Some(&want) != d.get(k) {
            match opt_unhx(&want) {
                Some(p) => {
                    s = match which {
                        0 => s.out_dir_root(PathBuf::from(p)),
                        1 => s.out_dir_actions_root(PathBuf::from(p)),
                        _ => s.root_dir(PathBuf::from(p)),
                    }
                }
                None => return Err(format!("{k} cannot be unset through the API")),
            }
        }
    }
    Ok(s)
}

// ------------------------------------------------------------------------------------------------
// child modes (fresh process: fresh hash seeds, fresh globals)
// ------------------------------------------------------------------------------------------------

fn finish_like_main(result: rustemo_compiler::Result<()>) {
    // mirrors the tail of rcomp's main (colours are off because stdout is not a tty)
    if let Err(e) = result {
        println!("{e}");
        println!("Parser(s) not generated.");
    }
}

fn child_api(args: &[String]) {
    // <settings-out> <mode> <target-hex> <k=v>...
    let m = kv(&args[3..]);
    let s = match settings_from(&m) {
        Ok(s) => s,
        Err(e) => {
            let _ = std::fs::write(&args[0], format!("unrealisable: {e}"));
            std::process::exit(3);
        }
    };
    let _ = std::fs::write(&args[0], settings_line(&s));
    let target = PathBuf::from(unhx(&args[2]));
    let result = if args[1] == "file" {
        s.process_grammar(&target)
    } else {
        s.process_dir()
    };
    finish_like_main(result);
}

fn child_multi(args: &[String]) {
    // <settings-out> <targets-hex,comma> <k=v>...
    let m = kv(&args[2..]);
    let s = match settings_from(&m) {
        Ok(s) => s,
        Err(e) => {
            let _ = std::fs::write(&args[0], format!("unrealisable: {e}"));
            std::process::exit(3);
        }
    };
    let _ = std::fs::write(&args[0], settings_line(&s));
    // a compiler panic on one grammar (a C16 matter) must not hide the others: keep going
    let mut panicked = false;
    for t in args[1].split(',') {
        let target = PathBuf::from(unhx(t));
        match std::panic::catch_unwind(std::panic::AssertUnwindSafe(|| s.process_grammar(&target))) {
            Ok(r) => finish_like_main(r),
            Err(_) => panicked = true,
        }
    }
    if panicked {
        std::process::exit(101);
    }
}

// ------------------------------------------------------------------------------------------------
// parent: run one job
// ------------------------------------------------------------------------------------------------

fn controlled(cmd: &mut Command, o: &str, m: &str, t: &str) {
    cmd.env_remove("OUT_DIR")
        .env_remove("CARGO_MANIFEST_DIR")
        .env_remove("RUSTEMO_TRACE")
        .env_remove("CARGO_WORKSPACE_DIR")
        .env("RUST_BACKTRACE", "0")
        .env("NO_COLOR", "1");
    if let Some(v) = opt_unhx(o) {
        cmd.env("OUT_DIR", v);
    }
    if let Some(v) = opt_unhx(m) {
        cmd.env("CARGO_MANIFEST_DIR", v);
    }
    if t == "1" {
        cmd.env("RUSTEMO_TRACE", "1");
    }
}

fn classify(rc: i32, stdout: &str, stderr: &str) -> String {
    if rc == 2 {
        return "usage".into();
    }
    if rc == 3 {
        return "unrealisable".into();
    }
    if rc != 0 {
        if stderr.contains("Can't disable grammar order strategy for LR") {
            return "panic:grammarOrderLR".into();
        }
        if stderr.contains("'root_dir' must be set!") {
            return "panic:rootDirUnset".into();
        }
        if stderr.contains("only available for the default builder type") {
            return "panic:actionsInSourceTreeNonDefault".into();
        }
        // the message line follows the "thread '…' panicked at …" line
        let mut lines = stderr.lines().skip_while(|l| !l.starts_with("thread '"));
        let _ = lines.next();
        let first = lines.find(|l| !l.trim().is_empty()).unwrap_or("");
        return format!("panic:other:{}", hx(first));
    }
    if stdout.contains("Parser(s) not generated.") {
        "err".into()
    } else {
        "ok".into()
    }
}

fn run_and_report(mut cmd: Command, run_dir: &Path, settings_out: Option<(&Path, String)>) -> String {
    cmd.current_dir(run_dir)
        .stdin(Stdio::null())
        .stdout(Stdio::piped())
        .stderr(Stdio::piped());
    let out = match cmd.output() {
        Ok(o) => o,
        Err(e) => return format!("spawn-failed {}", hx(&e.to_string())),
    };
    let stdout = String::from_utf8_lossy(&out.stdout).to_string();
    let stderr = String::from_utf8_lossy(&out.stderr).to_string();
    let rc = out.status.code().unwrap_or(-1);
    let mut side = run_dir.as_os_str().to_owned();
    side.push(".stdout");
    let _ = std::fs::write(PathBuf::from(&side), &stdout);
    let mut side = run_dir.as_os_str().to_owned();
    side.push(".stderr");
    let _ = std::fs::write(PathBuf::from(&side), &stderr);
    let selfcheck = match settings_out {
        None => "-".to_string(),
        Some((p, want)) => match std::fs::read_to_string(p) {
            Ok(got) if got == want => "ok".to_string(),
            Ok(got) => format!("DIFF:{}", hx(&got)),
            Err(_) => "DIFF:=".to_string(),
        },
    };
    let mut files = vec![];
    list_files(run_dir, run_dir, &mut files);
    files.sort();
    format!(
        "rc={rc} class={} gen={} table={} trace={} out={} selfcheck={selfcheck} files={}",
        classify(rc, &stdout, &stderr),
        stdout.contains("Generating parser for grammar") as u8,
        stdout.contains("LR TABLE:") as u8,
        stderr.contains("Sort terminals for lexical disambiguation") as u8,
        hash128(stdout.as_bytes()),
        if files.is_empty() {
            "-".to_string()
        } else {
            files
                .iter()
                .map(|(p, l, h)| format!("{}:{l}:{h}", hx(p)))
                .collect::<Vec<_>>()
                .join(",")
        }
    )
}

fn prepare(tpl: &str, run: &str) -> Result<PathBuf, String> {
    let run_dir = PathBuf::from(run);
    let _ = std::fs::remove_dir_all(&run_dir);
    copy_dir(Path::new(tpl), &run_dir).map_err(|e| format!("copy-failed {}", hx(&e.to_string())))?;
    Ok(run_dir)
}

fn job(f: &[&str], rcomp: &str, me: &Path) -> String {
    match f[0] {
        "cli" if f.len() >= 6 => {
            let run_dir = match prepare(f[1], f[2]) {
                Ok(d) => d,
                Err(e) => return e,
            };
            let mut cmd = Command::new(rcomp);
            controlled(&mut cmd, f[3], f[4], f[5]);
            for t in &f[6..] {
                cmd.arg(unhx(t));
            }
            run_and_report(cmd, &run_dir, None)
        }
        "api" | "multi" if f.len() >= 8 => {
            let run_dir = match prepare(f[1], f[2]) {
                Ok(d) => d,
                Err(e) => return e,
            };
            let sout = PathBuf::from(format!("{}.settings", f[2]));
            let _ = std::fs::remove_file(&sout);
            let mut cmd = Command::new(me);
            controlled(&mut cmd, f[3], f[4], f[5]);
            let rest: &[&str];
            if f[0] == "api" {
                cmd.arg("--child-api").arg(&sout).arg(f[6]).arg(f[7]);
                rest = &f[8..];
            } else {
                cmd.arg("--child-multi").arg(&sout).arg(f[6]);
                rest = &f[7..];
            }
            for a in rest {
                cmd.arg(a);
            }
            run_and_report(cmd, &run_dir, Some((&sout, rest.join(" "))))
        }
        "defaults" if f.len() == 4 => {
            let mut cmd = Command::new(me);
            controlled(&mut cmd, f[1], f[2], f[3]);
            cmd.arg("--child-defaults");
            match cmd.output() {
                Ok(o) => String::from_utf8_lossy(&o.stdout).trim().to_string(),
                Err(e) => format!("spawn-failed {}", hx(&e.to_string())),
            }
        }
        "choices" if f.len() == 2 => match std::fs::read_to_string(f[1]) {
            Ok(text) => choices(&text),
            Err(e) => format!("err {}", hx(&e.to_string())),
        },
        _ => "bad-job".into(),
    }
}

// ------------------------------------------------------------------------------------------------
// choice-name inputs from the hook's grammar dump
// ------------------------------------------------------------------------------------------------

fn choices(text: &str) -> String {
    let dump = match std::panic::catch_unwind(|| rustemo_compiler::verif::dump_grammar_only(text)) {
        Ok(Ok(d)) => d,
        Ok(Err(e)) => return format!("err {}", hx(&e.to_string())),
        Err(_) => return "err panic".into(),
    };
    let mut nterms = 0usize;
    let mut empty = usize::MAX;
    let mut term_names: Vec<String> = vec![];
    let mut term_content: Vec<bool> = vec![];
    let mut nt_names: Vec<String> = vec![];
    let mut nt_prods: Vec<Vec<usize>> = vec![];
    // prod: (kind, ntidx, rhs [(sym, named)])
    let mut prods: Vec<(String, usize, Vec<(usize, bool)>)> = vec![];
    for line in dump.lines() {
        let f: Vec<&str> = line.split(' ').collect();
        match f[0] {
            "grammar" => {
                nterms = f[1].parse().unwrap_or(0);
                empty = f[4].parse().unwrap_or(usize::MAX);
            }
            "term" => {
                term_names.push(f[2].to_string());
                term_content.push(f[6] == "1");
            }
            "nonterm" => {
                nt_names.push(f[2].to_string());
                let n: usize = f[5].parse().unwrap_or(0);
                nt_prods.push(f[6..6 + n].iter().filter_map(|x| x.parse().ok()).collect());
            }
            "prod" => {
                let n: usize = f[10].parse().unwrap_or(0);
                let rhs = f[11..11 + n]
                    .iter()
                    .map(|x| {
                        let p: Vec<&str> = x.split(':').collect();
                        (p[0].parse().unwrap_or(0), p[1] != "-")
                    })
                    .collect();
                prods.push((f[4].to_string(), f[3].parse().unwrap_or(0), rhs));
            }
            _ => {}
        }
    }
    let sym_name = |s: usize| -> String {
        if s < nterms {
            term_names.get(s).cloned().unwrap_or_default()
        } else {
            nt_names.get(s - nterms).cloned().unwrap_or_default()
        }
    };
    let has_content = |s: usize| -> bool {
        s != empty && (s >= nterms || term_content.get(s).copied().unwrap_or(false))
    };
    let mut out = vec!["cli".to_string(), "names".to_string()];
    for (i, name) in nt_names.iter().enumerate() {
        let mut rec = vec![name.clone()];
        for &p in &nt_prods[i] {
            let (kind, ntidx, rhs) = &prods[p];
            let names: Vec<String> = rhs.iter().map(|(s, _)| sym_name(*s)).collect();
            let content: Vec<String> = rhs
                .iter()
                .filter(|(s, _)| has_content(*s))
                .map(|(s, named)| format!("{}:{}", sym_name(*s), *named as u8))
                .collect();
            rec.push(format!(
                "{kind},{},{ntidx},{},{}",
                rhs.len(),
                names.join("."),
                content.join(".")
            ));
        }
        out.push(rec.join("|"));
    }
    out.join(" ")
}

fn main() {
    let args: Vec<String> = std::env::args().collect();
    if args.len() >= 2 && args[1] == "--child-api" {
        child_api(&args[2..]);
        return;
    }
    if args.len() >= 2 && args[1] == "--child-multi" {
        child_multi(&args[2..]);
        return;
    }
    if args.len() >= 2 && args[1] == "--child-defaults" {
        println!("{}", settings_line(&Settings::new()));
        return;
    }
    if args.len() != 3 {
        eprintln!("usage: vcli <jobs-file> <out-file>");
        std::process::exit(2);
    }
    let rcomp = std::env::var("VCLI_RCOMP").unwrap_or_else(|_| "/verif/harness/target/debug/rcomp".into());
    let me = std::env::current_exe().expect("current_exe");
    let jobs = std::io::BufReader::new(std::fs::File::open(&args[1]).expect("jobs file"));
    let mut out = std::io::BufWriter::new(std::fs::File::create(&args[2]).expect("out file"));
    for line in jobs.lines() {
        let line = line.unwrap_or_default();
        let f: Vec<&str> = line.split(' ').filter(|x| !x.is_empty()).collect();
        if f.len() < 2 {
            continue;
        }
        let ans = job(&f[1..], &rcomp, &me);
        let _ = writeln!(out, "{} {}", f[0], ans);
        let _ = out.flush();
    }
}
