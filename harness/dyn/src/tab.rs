//! Table loaded from the hook's dump; implements `ParserDefinition` for the real runtime.
use rustemo::*;
use std::fmt;
use std::sync::atomic::{AtomicPtr, Ordering};

#[derive(Default, Clone, Copy, PartialEq, Eq, PartialOrd, Ord, Hash)]
pub struct St(pub usize);
#[derive(Default, Clone, Copy, PartialEq, Eq, PartialOrd, Ord, Hash)]
pub struct Tk(pub usize);
#[derive(Clone, Copy, PartialEq)]
pub struct Pk(pub usize);
#[derive(Clone, Copy)]
pub struct Nk(pub usize);

impl fmt::Debug for St {
    fn fmt(&self, f: &mut fmt::Formatter<'_>) -> fmt::Result {
        write!(f, "{}", self.0)
    }
}
impl fmt::Debug for Tk {
    fn fmt(&self, f: &mut fmt::Formatter<'_>) -> fmt::Result {
        write!(f, "{}", self.0)
    }
}
impl fmt::Debug for Pk {
    fn fmt(&self, f: &mut fmt::Formatter<'_>) -> fmt::Result {
        write!(f, "{}", self.0)
    }
}
impl fmt::Debug for Nk {
    fn fmt(&self, f: &mut fmt::Formatter<'_>) -> fmt::Result {
        write!(f, "{}", self.0)
    }
}

pub enum Rec {
    Stop,
    None,
    Str(String),
    Re(regex::Regex),
    Fancy(fancy_regex::Regex),
}

pub struct Tab {
    pub nterms: usize,
    pub nnonterms: usize,
    pub actions: Vec<Vec<Vec<Action<St, Pk>>>>, // state x term
    pub gotos: Vec<Vec<Option<St>>>,            // state x nonterm
    pub expected: Vec<Vec<(Tk, bool)>>,
    pub prod_nt: Vec<usize>,
    pub layout: Option<St>,
    pub longest: bool,
    pub order: bool,
    pub skip_ws: bool,
    pub partial: bool,
    pub recs: Vec<Rec>,
    pub term_names: Vec<String>,
    pub conflicts: usize,
}

static TAB: AtomicPtr<Tab> = AtomicPtr::new(std::ptr::null_mut());

pub fn set_tab(t: Tab) {
    // Leaked on purpose: a watchdog-abandoned parse thread may still read it.
    let p = Box::leak(Box::new(t));
    TAB.store(p as *mut Tab, Ordering::SeqCst);
}
pub fn tab() -> &'static Tab {
    let p = TAB.load(Ordering::SeqCst);
    assert!(!p.is_null(), "no table loaded");
    unsafe { &*p }
}

impl State for St {
    fn default_layout() -> Option<Self> {
        tab().layout
    }
}
impl From<St> for usize {
    fn from(s: St) -> usize {
        s.0
    }
}
impl From<Tk> for usize {
    fn from(s: Tk) -> usize {
        s.0
    }
}
impl From<Pk> for Nk {
    fn from(p: Pk) -> Nk {
        Nk(tab().prod_nt[p.0])
    }
}

pub struct Def;
pub static DEF: Def = Def;
impl ParserDefinition<St, Pk, Tk, Nk> for Def {
    fn actions(&self, s: St, t: Tk) -> Vec<Action<St, Pk>> {
        tab().actions[s.0][t.0].clone()
    }
    fn goto(&self, s: St, n: Nk) -> St {
        // same failure mode as the generated code: invalid goto panics
        tab().gotos[s.0][n.0].expect("Invalid GOTO")
    }
    fn expected_token_kinds(&self, s: St) -> Vec<(Tk, bool)> {
        tab().expected[s.0].clone()
    }
    fn longest_match() -> bool {
        tab().longest
    }
    fn grammar_order() -> bool {
        tab().order
    }
}

pub fn unhex(s: &str) -> String {
    if s == "=" {
        return String::new();
    }
    let bytes: Vec<u8> = (0..s.len() / 2)
        .map(|i| u8::from_str_radix(&s[2 * i..2 * i + 2], 16).unwrap())
        .collect();
    String::from_utf8(bytes).unwrap()
}

pub fn hex(s: &[u8]) -> String {
    if s.is_empty() {
        return "=".into();
    }
    s.iter().map(|b| format!("{b:02x}")).collect()
}

/// The same recognizer semantics as the generated `TokenRecognizer`
/// (generator/base.rs): starts_with for strings, `^`-anchored regex, STOP at end.
pub fn recognize(t: &Tab, term: usize, input: &str) -> Option<usize> {
    match &t.recs[term] {
        Rec::Stop => {
            if input.is_empty() {
                Some(0)
            } else {
                None
            }
        }
        Rec::None => None,
        Rec::Str(s) => {
            if input.starts_with(s.as_str()) {
                Some(s.len())
            } else {
                None
            }
        }
        Rec::Re(r) => r.find(input).map(|m| m.as_str().len()),
        Rec::Fancy(r) => match r.find(input) {
            Ok(Some(m)) => Some(m.as_str().len()),
            _ => None,
        },
    }
}

pub struct TR(pub usize);
impl<'i> TokenRecognizer<'i> for TR {
    fn recognize(&self, input: &'i str) -> Option<&'i str> {
        recognize(tab(), self.0, input).map(|l| &input[..l])
    }
}

pub const NREC: usize = 96;

/// Parses the hook's dump (lines) into a `Tab`.
pub fn load(dump: &str, fancy: bool) -> std::result::Result<Tab, String> {
    let mut t = Tab {
        nterms: 0,
        nnonterms: 0,
        actions: vec![],
        gotos: vec![],
        expected: vec![],
        prod_nt: vec![],
        layout: None,
        longest: true,
        order: true,
        skip_ws: true,
        partial: false,
        recs: vec![],
        term_names: vec![],
        conflicts: 0,
    };
    let mut cur: usize = 0;
    for line in dump.lines() {
        let f: Vec<&str> = line.split(' ').filter(|x| !x.is_empty()).collect();
        if f.is_empty() {
            continue;
        }
        match f[0] {
            "settings" => {
                t.longest = f[6] == "1";
                t.order = f[7] == "1";
                t.partial = f[8] == "1";
                t.skip_ws = f[9] == "1";
            }
            "grammar" => {
                t.nterms = f[1].parse().unwrap();
                t.nnonterms = f[2].parse().unwrap();
                if t.nterms > NREC {
                    return Err("too many terminals".into());
                }
            }
            "term" => {
                let idx: usize = f[1].parse().unwrap();
                t.term_names.push(unhex(f[2]));
                let rec = if idx == 0 {
                    Rec::Stop
                } else if f[5] == "-" {
                    Rec::None
                } else if let Some(s) = f[5].strip_prefix("S:") {
                    Rec::Str(unhex(s))
                } else if let Some(r) = f[5].strip_prefix("R:") {
                    let src = format!("^(?:{})", unhex(r));
                    if fancy {
                        Rec::Fancy(
                            fancy_regex::Regex::new(&src).map_err(|e| format!("regex: {e}"))?,
                        )
                    } else {
                        Rec::Re(regex::Regex::new(&src).map_err(|e| format!("regex: {e}"))?)
                    }
                } else {
                    return Err(format!("bad recognizer {}", f[5]));
                };
                t.recs.push(rec);
            }
            "prod" => {
                t.prod_nt.push(f[2].parse().unwrap());
            }
            "table" => {
                let n: usize = f[1].parse().unwrap();
                t.actions = vec![vec![vec![]; t.nterms]; n];
                t.gotos = vec![vec![None; t.nnonterms]; n];
                t.expected = vec![vec![]; n];
                t.layout = if f[2] == "-" {
                    None
                } else {
                    Some(St(f[2].parse().unwrap()))
                };
            }
            "state" => cur = f[1].parse().unwrap(),
            "act" => {
                let term: usize = f[1].parse().unwrap();
                let n: usize = f[2].parse().unwrap();
                let mut i = 3;
                for _ in 0..n {
                    match f[i] {
                        "S" => {
                            t.actions[cur][term].push(Action::Shift(St(f[i + 1].parse().unwrap())));
                            i += 2;
                        }
                        "R" => {
                            t.actions[cur][term].push(Action::Reduce(
                                Pk(f[i + 1].parse().unwrap()),
                                f[i + 2].parse().unwrap(),
                            ));
                            i += 3;
                        }
                        "A" => {
                            t.actions[cur][term].push(Action::Accept);
                            i += 1;
                        }
                        x => return Err(format!("bad action {x}")),
                    }
                }
            }
            "goto" => {
                t.gotos[cur][f[1].parse::<usize>().unwrap()] = Some(St(f[2].parse().unwrap()));
            }
            "conflicts" => t.conflicts = f[1].parse().unwrap(),
            "sorted" => {
                let n: usize = f[1].parse().unwrap();
                for k in 0..n {
                    t.expected[cur]
                        .push((Tk(f[2 + 2 * k].parse().unwrap()), f[3 + 2 * k] == "1"));
                }
            }
            _ => {}
        }
    }
    Ok(t)
}
