//! Drives the real `LRParser` / `GlrParser` over the loaded table and prints canonical results.
use crate::tab::*;
use rustemo::*;
use std::fmt::Write;

pub type LCtx<'i> = LRContext<'i, str, St, Tk>;
pub type GCtx<'i> = GssHead<'i, str, St, Tk>;
pub type TN<'i> = TreeNode<'i, str, Pk, Tk>;

fn pos(p: &Position) -> String {
    match p.line_col {
        Some(lc) => format!("{}:{}:{}", p.pos, lc.line, lc.column),
        None => format!("{}:-:-", p.pos),
    }
}
fn span(s: &SourceSpan) -> String {
    format!("{}-{}", pos(&s.start), pos(&s.end))
}
fn slice_ref(input: &str, s: &str) -> String {
    let base = input.as_ptr() as usize;
    let p = s.as_ptr() as usize;
    if p >= base && p + s.len() <= base + input.len() {
        format!("{}+{}", p - base, s.len())
    } else {
        format!("ext:{}", hex(s.as_bytes()))
    }
}
fn lay(input: &str, l: &Option<&str>) -> String {
    match l {
        Some(s) => slice_ref(input, s),
        None => "-".into(),
    }
}

pub fn tree(input: &str, n: &TN, out: &mut String) {
    match n {
        TreeNode::TermNode { token, layout } => {
            let _ = write!(
                out,
                "(T {} {} {} {})",
                token.kind.0,
                span(&token.span),
                slice_ref(input, token.value),
                lay(input, layout)
            );
        }
        TreeNode::NonTermNode {
            prod,
            span: sp,
            children,
            layout,
        } => {
            let _ = write!(out, "(N {} {} {}", prod.0, span(sp), lay(input, layout));
            for c in children {
                out.push(' ');
                tree(input, c, out);
            }
            out.push(')');
        }
    }
}

/// tree with token / layout values by CONTENT (hex) instead of by offset into the caller's buffer
fn tree_by_text(n: &TN, out: &mut String) {
    let l = |l: &Option<&str>| l.map_or("-".to_string(), |s| hex(s.as_bytes()));
    match n {
        TreeNode::TermNode { token, layout } => {
            let _ = write!(out, "(T {} {} {} {})", token.kind.0, span(&token.span), hex(token.value.as_bytes()), l(layout));
        }
        TreeNode::NonTermNode { prod, span: sp, children, layout } => {
            let _ = write!(out, "(N {} {} {}", prod.0, span(sp), l(layout));
            for c in children {
                out.push(' ');
                tree_by_text(c, out);
            }
            out.push(')');
        }
    }
}

fn temp_input_file(input: &str) -> std::path::PathBuf {
    let p = std::path::PathBuf::from(format!(
        "/verif/work/pf-{}-{:?}.txt",
        std::process::id(),
        std::thread::current().id()
    ));
    std::fs::write(&p, input.as_bytes()).unwrap();
    p
}

fn perr(e: rustemo::Error) -> String {
    match e {
        rustemo::Error::ParseError(pe) => {
            let p = match pe.span {
                Some(s) => format!("{}", span(&s)),
                None => "-".into(),
            };
            let msg = pe.message.clone();
            // "Expected one of a, b." / "Expected a."  (kinds print as indices; strip ANSI)
            let clean: String = strip_ansi(&msg);
            if let Some(rest) = clean.strip_prefix("Expected ") {
                let rest = rest.trim_end_matches('.');
                let rest = rest.strip_prefix("one of ").unwrap_or(rest);
                let kinds: Vec<&str> = rest.split(", ").collect();
                format!("err expected {} {}", p, kinds.join(","))
            } else if clean.starts_with("Can't continue") {
                format!("err noaction {}", p)
            } else {
                format!("err other {} {}", p, hex(clean.as_bytes()))
            }
        }
        rustemo::Error::IOError(_) => "err io".into(),
    }
}

fn strip_ansi(s: &str) -> String {
    let mut out = String::new();
    let mut it = s.chars().peekable();
    while let Some(c) = it.next() {
        if c == '\u{1b}' {
            for d in it.by_ref() {
                if d == 'm' {
                    break;
                }
            }
        } else {
            out.push(c);
        }
    }
    out
}

fn recs() -> &'static [TR; NREC] {
    Box::leak(Box::new(std::array::from_fn(|i| TR(i))))
}

/// Adversarial user lexers that ignore the expected set (C15).
///  mode 0: always a zero-width STOP; mode 1: kind derived from the position, one char long, STOP at
///  the end; mode 2: like 1 but nothing at the end; mode 3: like 1 with the rest of the input as one long token.
pub struct CustomLexer {
    pub mode: usize,
    pub seed: usize,
}

pub fn custom_tokens<'i>(
    mode: usize,
    seed: usize,
    nterms: usize,
    input: &'i str,
    position: Position,
) -> Vec<Token<'i, str, Tk>> {
    let p = position.pos;
    let stop = || Token {
        kind: Tk(0),
        value: &input[p..p],
        span: (&input[p..p]).span_from(position),
    };
    if mode == 0 {
        return vec![stop()];
    }
    if p >= input.len() {
        return if mode == 1 { vec![stop()] } else { vec![] };
    }
    let ch = input[p..].chars().next().unwrap();
    // mode 3: like 1, but the whole rest of the input is ONE token
    let v = if mode == 3 { &input[p..] } else { &input[p..p + ch.len_utf8()] };
    let kind = if nterms > 1 {
        1 + ((p * 7 + seed) % (nterms - 1))
    } else {
        0
    };
    vec![Token {
        kind: Tk(kind),
        value: v,
        span: v.span_from(position),
    }]
}

impl<'i, C: Context<'i, str, St, Tk>> Lexer<'i, C, St, Tk> for CustomLexer {
    type Input = str;
    fn next_tokens(
        &self,
        context: &mut C,
        input: &'i str,
        _expected: Vec<(Tk, bool)>,
    ) -> Box<dyn Iterator<Item = Token<'i, str, Tk>> + 'i> {
        Box::new(
            custom_tokens(self.mode, self.seed, tab().nterms, input, context.position()).into_iter(),
        )
    }
}

fn lr_result(input: &str, r: rustemo::Result<TN>) -> String {
    match r {
        Ok(n) => {
            let mut s = String::from("ok ");
            tree(input, &n, &mut s);
            s
        }
        Err(e) => perr(e),
    }
}

pub static PREV_DONE: std::sync::atomic::AtomicBool = std::sync::atomic::AtomicBool::new(true);

pub fn run_lr_custom(input: &str, partial: bool, mode: usize, seed: usize, prev: Option<&str>) -> String {
    let t = tab();
    let p: LRParser<LCtx, St, Pk, Tk, Nk, Def, _, TreeBuilder<str, Pk, Tk>, str> = LRParser::new(
        &DEF,
        St(0),
        partial,
        t.layout.is_some(),
        CustomLexer { mode, seed },
        TreeBuilder::new(),
    );
    if let Some(h) = prev {
        let _ = p.parse(h);
        PREV_DONE.store(true, std::sync::atomic::Ordering::SeqCst);
    }
    lr_result(input, p.parse(input))
}

pub fn run_lr(input: &'static str, partial: bool, prev: Option<&str>, via_file: bool) -> String {
    if via_file {
        // `parse_file` must give what `parse` gives on the file's content (tree with values by content, or the same error)
        let t = tab();
        let lexer: StringLexer<LCtx, St, Tk, TR, NREC> = StringLexer::new(t.skip_ws && t.layout.is_none(), recs());
        let pf: &'static mut LRParser<LCtx, St, Pk, Tk, Nk, Def, _, TreeBuilder<str, Pk, Tk>, str> =
            Box::leak(Box::new(LRParser::new(&DEF, St(0), partial, t.layout.is_some(), lexer, TreeBuilder::new())));
        let path = temp_input_file(input);
        let by_file = match pf.parse_file(&path) {
            Ok(n) => {
                let mut s = String::from("ok ");
                tree_by_text(&n, &mut s);
                s
            }
            Err(e) => perr(e),
        };
        let _ = std::fs::remove_file(&path);
        let lexer2: StringLexer<LCtx, St, Tk, TR, NREC> = StringLexer::new(t.skip_ws && t.layout.is_none(), recs());
        let p2: LRParser<LCtx, St, Pk, Tk, Nk, Def, _, TreeBuilder<str, Pk, Tk>, str> =
            LRParser::new(&DEF, St(0), partial, t.layout.is_some(), lexer2, TreeBuilder::new());
        let by_str = match p2.parse(input) {
            Ok(n) => {
                let mut s = String::from("ok ");
                tree_by_text(&n, &mut s);
                s
            }
            Err(e) => perr(e),
        };
        if by_file != by_str {
            return format!("ok FILE-MISMATCH parse_file={} parse={}", by_file.replace(' ', "_"), by_str.replace(' ', "_"));
        }
    }
    let t = tab();
    let lexer: StringLexer<LCtx, St, Tk, TR, NREC> = StringLexer::new(t.skip_ws && t.layout.is_none(), recs());
    let p: LRParser<LCtx, St, Pk, Tk, Nk, Def, _, TreeBuilder<str, Pk, Tk>, str> = LRParser::new(
        &DEF,
        St(0),
        partial,
        t.layout.is_some(),
        lexer,
        TreeBuilder::new(),
    );
    if let Some(h) = prev {
        let _ = p.parse(h);
        PREV_DONE.store(true, std::sync::atomic::Ordering::SeqCst);
    }
    match p.parse(input) {
        Ok(n) => {
            let mut s = String::from("ok ");
            tree(input, &n, &mut s);
            s
        }
        Err(e) => perr(e),
    }
}

/// GLR: `ok <solutions> <ntrees printed> <tree>;<tree>...  iter=<same?> beyond=<none?>`
pub fn run_glr(input: &'static str, partial: bool, max_trees: usize, prev: Option<&str>, via_file: bool) -> String {
    if via_file {
        let t = tab();
        let first = |r: rustemo::Result<Forest<'_, str, Pk, Tk>>| -> String {
            match r {
                // parse-only mode: counting / extracting trees of a highly ambiguous forest is exponential in the
                // implementation (Forest::solutions is not memoised) and is not what the comparison is about
                Ok(_) if max_trees == 0 => "ok parse-only".into(),
                Ok(f) => match f.get_first_tree() {
                    Some(tr) => {
                        let mut b = TreeBuilder::new();
                        let tn: TN = tr.build::<_, St>(&mut b);
                        let mut s = String::from("ok ");
                        tree_by_text(&tn, &mut s);
                        s
                    }
                    None => "ok none".into(),
                },
                Err(e) => perr(e),
            }
        };
        let lexer: StringLexer<GCtx, St, Tk, TR, NREC> = StringLexer::new(t.skip_ws && t.layout.is_none(), recs());
        let gf: &'static mut GlrParser<St, _, Pk, Tk, Nk, Def, str, TreeBuilder<str, Pk, Tk>> =
            Box::leak(Box::new(GlrParser::new(&DEF, partial, t.layout.is_some(), lexer)));
        let path = temp_input_file(input);
        let by_file = first(gf.parse_file(&path));
        let _ = std::fs::remove_file(&path);
        let lexer2: StringLexer<GCtx, St, Tk, TR, NREC> = StringLexer::new(t.skip_ws && t.layout.is_none(), recs());
        let g2: GlrParser<St, _, Pk, Tk, Nk, Def, str, TreeBuilder<str, Pk, Tk>> =
            GlrParser::new(&DEF, partial, t.layout.is_some(), lexer2);
        let by_str = first(g2.parse(input));
        if by_file != by_str {
            return format!("ok FILE-MISMATCH parse_file={} parse={}", by_file.replace(' ', "_"), by_str.replace(' ', "_"));
        }
    }
    let t = tab();
    let lexer: StringLexer<GCtx, St, Tk, TR, NREC> = StringLexer::new(t.skip_ws && t.layout.is_none(), recs());
    let g: GlrParser<St, _, Pk, Tk, Nk, Def, str, TreeBuilder<str, Pk, Tk>> =
        GlrParser::new(&DEF, partial, t.layout.is_some(), lexer);
    if let Some(h) = prev {
        let _ = g.parse(h);
        PREV_DONE.store(true, std::sync::atomic::Ordering::SeqCst);
    }
    match g.parse(input) {
        Ok(f) => {
            if max_trees == 99999 {
                // forest structure for the enumeration model (C03)
                let n = f.solutions();
                let mut s = format!("ok {} forest {}", n, f.verif_dump());
                let k = n.min(40);
                s.push_str(" @trees");
                for i in 0..k + 2 {
                    let idx = if i < k { i } else { n + (i - k) };
                    match f.get_tree(idx) {
                        Some(tr) => {
                            let mut b = TreeBuilder::new();
                            let tn: TN = tr.build::<_, St>(&mut b);
                            let mut ts = String::new();
                            tree(input, &tn, &mut ts);
                            let _ = write!(s, " {idx}={}", shape_only(&ts));
                        }
                        None => {
                            let _ = write!(s, " {idx}=none");
                        }
                    }
                    s.push_str(" ;");
                }
                return s;
            }
            if max_trees == 0 {
                // C15: only the outcome of parse() itself is of interest (counting solutions of a
                // highly ambiguous forest is exponential in the implementation)
                return "ok parse-only".into();
            }
            let n = f.solutions();
            let mut s = format!("ok {}", n);
            let k = n.min(max_trees);
            let mut by_index = vec![];
            for i in 0..k {
                match f.get_tree(i) {
                    Some(tr) => {
                        let mut b = TreeBuilder::new();
                        let tn: TN = tr.build::<_, St>(&mut b);
                        let mut ts = String::new();
                        tree(input, &tn, &mut ts);
                        by_index.push(ts);
                    }
                    None => by_index.push("none".into()),
                }
            }
            // iteration must give the same sequence
            let mut by_iter = vec![];
            for tr in f.iter().take(k) {
                let mut b = TreeBuilder::new();
                let tn: TN = tr.build::<_, St>(&mut b);
                let mut ts = String::new();
                tree(input, &tn, &mut ts);
                by_iter.push(ts);
            }
            let iter_count = if n <= 5000 { f.iter().count() } else { n };
            let beyond = f.get_tree(n).is_none() && f.get_tree(n + 1).is_none();
            let _ = write!(
                s,
                " iter_same={} iter_count={} beyond_none={} trees",
                (by_iter == by_index) as u8,
                iter_count,
                beyond as u8
            );
            for ts in by_index {
                s.push(' ');
                s.push_str(&ts);
                s.push_str(" ;");
            }
            s
        }
        Err(e) => perr(e),
    }
}

/// Match matrix: for every terminal and every char-boundary byte position the recognised length.
/// Printed sparsely: `<term>@<pos>=<len>` for matches only.
pub fn matrix(input: &str) -> String {
    let t = tab();
    let mut out = String::new();
    let mut positions: Vec<usize> = input.char_indices().map(|(i, _)| i).collect();
    positions.push(input.len());
    for term in 0..t.nterms {
        for &p in &positions {
            if let Some(l) = recognize(t, term, &input[p..]) {
                let _ = write!(out, " {}@{}={}", term, p, l);
            }
        }
    }
    out
}

/// tree text reduced to its shape: `(N prod child*)` / `(T kind start)`
fn shape_only(ts: &str) -> String {
    // tokens: "(N", prod, span, lay, ... ; "(T", kind, span, val, lay
    let toks: Vec<&str> = ts.split(' ').collect();
    let mut out = String::new();
    let mut i = 0;
    while i < toks.len() {
        let t = toks[i];
        if t.ends_with("(N") || t == "(N" {
            out.push_str("(N");
            out.push_str(toks[i + 1]);
            i += 4; // (N prod span lay
            // the lay token may carry closing parens
            let lay = toks[i - 1];
            let closes = lay.chars().rev().take_while(|c| *c == ')').count();
            for _ in 0..closes {
                out.push(')');
            }
        } else if t == "(T" {
            let start = toks[i + 2].split(':').next().unwrap();
            out.push_str(&format!("(T{}@{}", toks[i + 1], start));
            i += 5; // (T kind span val lay)
            let lay = toks[i - 1];
            let closes = lay.chars().rev().take_while(|c| *c == ')').count();
            for _ in 0..closes {
                out.push(')');
            }
        } else {
            i += 1;
        }
    }
    out
}
