//! vdyn: in-process driver of the real rustemo compiler (hook `verif`) and runtime.
//!
//! usage: vdyn <jobs-file> <out-file>
//! One job per line, one answer line per job (`<jobno> <answer>`).
//!
//!  G <algo> <tt> <ps> <pse> <ms> <lm> <go> <partial> <skipws> <fancy> <grammar-hex>
//!      compile through the hook, load the table for the following P jobs
//!  P <LR|GLR> <partial> <max_trees> <input-hex>     parse with the loaded table
//!  X <...>  see cmds in other modules
mod front;
mod run;
mod tab;

use rustemo_compiler::{ParserAlgo, Settings, TableType};
use std::io::{BufRead, Write};
use std::sync::mpsc;
use std::sync::Mutex;
use std::time::Duration;
use tab::*;

static LAST_PANIC: Mutex<String> = Mutex::new(String::new());

fn opt(s: &str) -> Option<bool> {
    match s {
        "1" => Some(true),
        "0" => Some(false),
        _ => None,
    }
}

pub fn settings_from(f: &[&str]) -> Settings {
    // f: algo tt ps pse ms lm go partial skipws fancy
    let mut s = Settings::new();
    s = s.parser_algo(match f[0] {
        "GLR" => ParserAlgo::GLR,
        _ => ParserAlgo::LR,
    });
    match f[1] {
        "LALR" => s = s.table_type(TableType::LALR),
        "LALR_PAGER" => s = s.table_type(TableType::LALR_PAGER),
        "LALR_RN" => s = s.table_type(TableType::LALR_RN),
        _ => {}
    }
    // the two shift preferences are independent setters: they are applied in either order (chosen by the grammar text), so
    // that a setter that touches the other field shows as a table that differs from the requested settings
    let pse_first = f.get(10).map_or(false, |t| (t.len() / 2) % 2 == 1);
    if pse_first {
        if let Some(b) = opt(f[3]) {
            s = s.prefer_shifts_over_empty(b);
        }
    }
    if let Some(b) = opt(f[2]) {
        s = s.prefer_shifts(b);
    }
    if !pse_first {
        if let Some(b) = opt(f[3]) {
            s = s.prefer_shifts_over_empty(b);
        }
    }
    if let Some(b) = opt(f[4]) {
        s = s.lexical_disamb_most_specific(b);
    }
    if let Some(b) = opt(f[5]) {
        s = s.lexical_disamb_longest_match(b);
    }
    if let Some(b) = opt(f[6]) {
        if !(f[0] != "GLR" && !b) {
            s = s.lexical_disamb_grammar_order(b);
        }
    }
    if let Some(b) = opt(f[7]) {
        s = s.partial_parse(b);
    }
    if let Some(b) = opt(f[8]) {
        s = s.skip_ws(b);
    }
    if let Some(b) = opt(f[9]) {
        s = s.fancy_regex(b);
    }
    s
}

/// watchdog of one parse job: 3 s, or `VDYN_TIMEOUT_MS` (used to tell a slow parse from a hang)
fn parse_timeout_ms() -> u64 {
    std::env::var("VDYN_TIMEOUT_MS").ok().and_then(|v| v.parse().ok()).unwrap_or(3000)
}

fn with_watchdog<F: FnOnce() -> String + Send + 'static>(f: F, ms: u64) -> String {
    let (tx, rx) = mpsc::channel();
    let h = std::thread::Builder::new()
        .stack_size(64 << 20)
        .spawn(move || {
            let r = std::panic::catch_unwind(std::panic::AssertUnwindSafe(f));
            let _ = tx.send(match r {
                Ok(s) => s,
                Err(_) => format!(
                    "panic {}",
                    hex(LAST_PANIC.lock().unwrap().as_bytes())
                ),
            });
        })
        .unwrap();
    match rx.recv_timeout(Duration::from_millis(ms)) {
        Ok(s) => {
            let _ = h.join();
            s
        }
        Err(_) => "timeout".into(), // thread abandoned
    }
}

fn err_class(e: &rustemo_compiler::Error) -> String {
    let s = e.to_locfile_str();
    let class = if s.starts_with("Error at") {
        "syntax"
    } else if s.contains("First set empty") {
        "infinite-recursion"
    } else if s.contains("Recognizer not defined") {
        "no-recognizer"
    } else if s.contains("not defined") || s.contains("Unexisting") || s.contains("undefined") {
        "undefined"
    } else if s.contains("not deterministic") {
        "conflicts"
    } else {
        "other"
    };
    format!("{} {}", class, hex(s.as_bytes()))
}

fn main() {
    let args: Vec<String> = std::env::args().collect();
    let jobs = std::fs::File::open(&args[1]).expect("jobs file");
    // `vdyn jobs out [resume-index]`: after a hung parse the process re-executes itself (which
    // kills the abandoned, spinning parse thread) and resumes after the hung grammar's jobs.
    let resume: usize = args.get(3).map(|s| s.parse().unwrap()).unwrap_or(0);
    let mut out = std::io::BufWriter::new(if resume > 0 {
        std::fs::OpenOptions::new().append(true).open(&args[2]).expect("out file")
    } else {
        std::fs::File::create(&args[2]).expect("out file")
    });
    let mut skipping = resume > 0;
    std::panic::set_hook(Box::new(|info| {
        let msg = format!("{info}");
        *LAST_PANIC.lock().unwrap() = msg;
    }));
    let mut loaded = false;
    for (no, line) in std::io::BufReader::new(jobs).lines().enumerate() {
        let line = line.unwrap();
        if no < resume {
            continue;
        }
        let f: Vec<&str> = line.split(' ').collect();
        if skipping {
            if f[0] == "G" {
                skipping = false;
            } else {
                writeln!(out, "{no} skipped-after-hang").unwrap();
                continue;
            }
        }
        let mut rehang = false;
        let ans = match f[0] {
            "F" => front::job(&f[1..]),
            "G" => {
                let owned: Vec<String> = f[1..].iter().map(|s| s.to_string()).collect();
                let fancy = f[10] == "1";
                let r = with_watchdog(
                    move || {
                        let refs: Vec<&str> = owned.iter().map(|s| s.as_str()).collect();
                        let settings = settings_from(&refs);
                        let text = unhex(refs[10]);
                        match rustemo_compiler::verif::dump(&text, &settings) {
                            Ok(d) => format!("ok {}", d.trim_end().replace('\n', " | ")),
                            Err(e) => format!("err {}", err_class(&e)),
                        }
                    },
                    20000,
                );
                loaded = false;
                if let Some(d) = r.strip_prefix("ok ") {
                    match load(&d.replace(" | ", "\n"), fancy) {
                        Ok(t) => {
                            set_tab(t);
                            loaded = true;
                            format!("dump {r}")
                        }
                        Err(e) => format!("dump loaderr {} {}", hex(e.as_bytes()), r),
                    }
                } else {
                    format!("dump {r}")
                }
            }
            "C" => {
                // whole compiler through the public API: C <builder D|G> <gentable F|A> <settings x10> <hex>
                let owned: Vec<String> = f[1..].iter().map(|s| s.to_string()).collect();
                let r = with_watchdog(
                    move || {
                        let refs: Vec<&str> = owned.iter().map(|s| s.as_str()).collect();
                        let mut settings = settings_from(&refs[2..]);
                        settings = settings.builder_type(match refs[0] {
                            "G" => rustemo_compiler::BuilderType::Generic,
                            _ => rustemo_compiler::BuilderType::Default,
                        });
                        settings = settings.generator_table_type(match refs[1] {
                            "A" => rustemo_compiler::GeneratorTableType::Arrays,
                            _ => rustemo_compiler::GeneratorTableType::Functions,
                        });
                        let text = unhex(refs[12]);
                        let dir = std::path::PathBuf::from(format!(
                            "/verif/work/c16-{}-{:?}",
                            std::process::id(),
                            std::thread::current().id()
                        ));
                        let _ = std::fs::remove_dir_all(&dir);
                        std::fs::create_dir_all(&dir).unwrap();
                        let gp = dir.join("g.rustemo");
                        std::fs::write(&gp, text).unwrap();
                        let settings = settings
                            .force(true)
                            .out_dir_root(dir.clone())
                            .out_dir_actions_root(dir.clone())
                            .root_dir(dir.clone());
                        let res = settings.process_grammar(&gp);
                        let generated = dir.join("g.rs").exists();
                        let _ = std::fs::remove_dir_all(&dir);
                        match res {
                            Ok(()) => format!("ok generated={}", generated as u8),
                            Err(e) => {
                                // a diagnostic is only one if it can be SHOWN: rcomp and build scripts print it with `{}`
                                // (codesnake rendering of the location for syntax errors), which must not panic either
                                let shown = format!("{e}");
                                let _ = shown.len();
                                format!("err {}", err_class(&e))
                            }
                        }
                    },
                    30000,
                );
                format!("compile {r}")
            }
            "P" => {
                if !loaded {
                    "parse notable".to_string()
                } else if f[1].starts_with("LR") && tab().conflicts > 0 {
                    // the compiler rejects such a table in LR mode; never driven
                    "parse skipped-conflicts".to_string()
                } else {
                    let glr = f[1].starts_with("GLR");
                    // optional custom lexer: LR@<mode>,<seed>
                    let custom: Option<(usize, usize)> = f[1].split_once('@').map(|(_, ms)| {
                        let (m, sd) = ms.split_once(',').unwrap();
                        (m.parse().unwrap(), sd.parse().unwrap())
                    });
                    let partial = f[2] == "1";
                    let max_trees: usize = f[3].parse().unwrap();
                    let input = unhex(f[4]);
                    let input: &'static str = Box::leak(input.into_boxed_str());
                    let m = run::matrix(input);
                    // optional history: an input parsed first with the SAME parser object (result dropped)
                    let prev: Option<&'static str> = f
                        .get(5)
                        .filter(|h| **h != "-")
                        .map(|h| &*Box::leak(unhex(h).into_boxed_str()));
                    // optional: also parse the input through `parse_file` and compare (field 7 = "F")
                    let via_file = f.get(6).map_or(false, |x| *x == "F");
                    run::PREV_DONE.store(prev.is_none(), std::sync::atomic::Ordering::SeqCst);
                    let r = with_watchdog(
                        move || {
                            if glr {
                                run::run_glr(input, partial, max_trees, prev, via_file)
                            } else if let Some((m, sd)) = custom {
                                run::run_lr_custom(input, partial, m, sd, prev)
                            } else {
                                run::run_lr(input, partial, prev, via_file)
                            }
                        },
                        parse_timeout_ms(),
                    );
                    if r == "timeout" && !run::PREV_DONE.load(std::sync::atomic::Ordering::SeqCst) {
                        // the history parse itself hangs: that is its own input's finding, not this one's
                        rehang = true;
                        format!("parse skipped-prev-hang #{m}")
                    } else {
                        format!("parse {r} #{m}")
                    }
                }
            }
            _ => "unknown-job".to_string(),
        };
        writeln!(out, "{no} {ans}").unwrap();
        if rehang || ans.contains("timeout") && (ans.starts_with("parse timeout") || ans.starts_with("dump timeout") || ans.starts_with("compile timeout")) {
            out.flush().unwrap();
            drop(out);
            use std::os::unix::process::CommandExt;
            let e = std::process::Command::new(std::env::current_exe().unwrap())
                .arg(&args[1])
                .arg(&args[2])
                .arg(format!("{}", no + 1))
                .exec();
            panic!("exec failed: {e}");
        }
    }
    out.flush().unwrap();
    // abandoned (hung) parse threads must not keep the process alive
    std::process::exit(0);
}
