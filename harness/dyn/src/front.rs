//! Front-end job of vdyn (property C09 / C16): grammar text -> File AST -> Grammar through the real
//! `RustemoParser` + `GrammarBuilder`, WITHOUT table construction (hook `verif::dump_grammar_only`),
//! so that grammars with conflicts / table-level errors still dump.
//!
//!  F <grammar-hex>   ->  front ok <grammar records joined by ' | '>
//!                        front err <hex of Error::to_locfile_str()>
//!                        front panic <hex of panic message incl. location>
//!                        front timeout
//!
//! Dispatch line for main.rs (`mod front;` + in the match):  "F" => front::job(&f[1..]),
use crate::tab::{hex, unhex};

pub fn job(args: &[&str]) -> String {
    if args.is_empty() {
        return "front bad-request".into();
    }
    let text = unhex(args[0]);
    let r = crate::with_watchdog(
        move || match rustemo_compiler::verif::dump_grammar_only(&text) {
            Ok(d) => format!("ok {}", d.trim_end().replace('\n', " | ")),
            Err(e) => format!("err {}", hex(e.to_locfile_str().as_bytes())),
        },
        20000,
    );
    format!("front {r}")
}
