//! vregen — harness of property C18 (regenerating actions preserves user edits).
//!
//! usage: vregen <jobs file> <out file> <work dir>
//!
//! One job per line:
//!     <id> <grammar text, hex> <builder_loc_info 0|1> <settings ops> <comments 0|1> <edit script>
//! * settings ops: comma separated builder calls applied, in order, to `Settings::new()` for the two
//!   regenerations: `f0` `.force(false)`, `f1` `.force(true)`, `ast` `.actions_in_source_tree()`,
//!   `ist` `.in_source_tree()`, `a0`/`a1` `.actions(false/true)`; `-` for none.
//! * edit script: comma separated edit operations (see `apply_edit`), `-` for none.
//!
//! Per job the harness, in a fresh directory, (1) writes the grammar and lets the REAL compiler
//! generate the pristine `<g>_actions.rs` (`force(true)`), (2) parses it with syn, derives the
//! description of what the generator wants to exist (`needed`: header items + guarded groups) from the
//! pristine file and the grammar dump of the `verif` hook, (3) applies the edit script to the syn
//! items and writes the edited file, (4) runs the real `process_grammar` with the job's settings,
//! reads the file back, (5) runs it a second time, reads the file back again.
//!
//! Output lines (`<id> <key> <value>`): `status`, `pristine`, `edited`, `after1`, `after2`, `same2`
//! (bytes of the file equal after the 1st and 2nd regeneration), `attrs` (inner attributes hashes
//! before/after1/after2), `request` (the line for the Lean driver) and `answer` (the implementation's
//! answer in the Lean driver's answer format).
//!
//! Canonical item: `<k>.<name hex>.<fnv64 of the item's token stream>` with k = e|s|t|f|o
//! (enum, struct, type alias, fn, anything else; the name of `o` items is empty).
use std::{
    fs,
    io::Write,
    panic,
    path::{Path, PathBuf},
};

use quote::ToTokens;
use rustemo_compiler::Settings;
use syn::parse_quote;

fn hex(s: &str) -> String {
    if s.is_empty() {
        return "=".into();
    }
    s.bytes().map(|b| format!("{b:02x}")).collect()
}

fn unhex(s: &str) -> String {
    if s == "=" {
        return String::new();
    }
    let b: Vec<u8> = (0..s.len() / 2)
        .map(|i| u8::from_str_radix(&s[2 * i..2 * i + 2], 16).unwrap_or(b'?'))
        .collect();
    String::from_utf8_lossy(&b).to_string()
}

fn fnv(s: &str) -> String {
    let mut h: u64 = 0xcbf29ce484222325;
    for b in s.bytes() {
        h ^= b as u64;
        h = h.wrapping_mul(0x100000001b3);
    }
    format!("{h:016x}")
}

#[derive(Clone, Debug, PartialEq)]
struct CItem {
    kind: char,
    name: String,
    hash: String,
}

fn kind_name(item: &syn::Item) -> (char, String) {
    match item {
        syn::Item::Enum(e) => ('e', e.ident.to_string()),
        syn::Item::Struct(e) => ('s', e.ident.to_string()),
        syn::Item::Type(e) => ('t', e.ident.to_string()),
        syn::Item::Fn(e) => ('f', e.sig.ident.to_string()),
        _ => ('o', String::new()),
    }
}

fn canon(item: &syn::Item) -> CItem {
    let (kind, name) = kind_name(item);
    CItem {
        kind,
        name,
        hash: fnv(&item.to_token_stream().to_string()),
    }
}

fn show_item(i: &CItem) -> String {
    format!("{}.{}.{}", i.kind, hex(&i.name), i.hash)
}

fn show(items: &[CItem]) -> String {
    if items.is_empty() {
        return "-".into();
    }
    items.iter().map(show_item).collect::<Vec<_>>().join(",")
}

fn is_type(k: char) -> bool {
    k == 'e' || k == 's' || k == 't'
}

enum FState {
    Absent,
    Unparsable,
    Parsed(Vec<CItem>, String),
}

fn read_state(p: &Path) -> FState {
    match fs::read_to_string(p) {
        Err(_) => FState::Absent,
        Ok(text) => match syn::parse_file(&text) {
            Err(_) => FState::Unparsable,
            Ok(f) => {
                let attrs = f
                    .attrs
                    .iter()
                    .map(|a| a.to_token_stream().to_string())
                    .collect::<Vec<_>>()
                    .join(" ");
                FState::Parsed(
                    f.items.iter().map(canon).collect(),
                    fnv(&format!("{:?}|{}", f.shebang, attrs)),
                )
            }
        },
    }
}

fn show_state(s: &FState) -> String {
    match s {
        FState::Absent => "A".into(),
        FState::Unparsable => "X".into(),
        FState::Parsed(items, _) => format!("P:{}", show(items)),
    }
}

fn attrs_of(s: &FState) -> String {
    match s {
        FState::Parsed(_, a) => a.clone(),
        _ => "-".into(),
    }
}

// ------------------------------------------------------------------------------------------------
// what the generator wants to exist: header + guarded groups, from the pristine file + grammar dump
// ------------------------------------------------------------------------------------------------

enum Group {
    /// terminal type, guarded by its own name in `type_names` (mod.rs:151-156)
    Ty(usize),
    /// terminal action / nonterminal action, guarded by its own name in `action_names`
    Act(usize),
    /// all types of one nonterminal, guarded by the nonterminal's name only (mod.rs:174-179)
    Nt { guard: String, idx: Vec<usize> },
}

struct Needed {
    hdr_len: usize,
    groups: Vec<Group>,
}

enum Want {
    Term(String),
    NonTerm(String),
}

/// The guards, in generation order, read off the grammar dump (terminals with content that are
/// reachable, then reachable nonterminals except EMPTY/AUG/AUGL — mod.rs:144-148, 167-171).
fn wants(dump: &str) -> Result<Vec<Want>, String> {
    let mut nterm = 0usize;
    let mut special: Vec<usize> = vec![];
    let mut out = vec![];
    for line in dump.lines() {
        let f: Vec<&str> = line.split(' ').collect();
        match f[0] {
            "grammar" => {
                nterm = f[1].parse().map_err(|_| "dump: grammar line")?;
                for k in [4usize, 6, 7] {
                    if let Ok(i) = f[k].parse::<usize>() {
                        special.push(i);
                    }
                }
            }
            "term" => {
                if f[6] == "1" && f[7] == "1" {
                    out.push(Want::Term(unhex(f[2])));
                }
            }
            "nonterm" => {
                let idx: usize = f[1].parse().map_err(|_| "dump: nonterm line")?;
                if f[3] == "1" && !special.contains(&(nterm + idx)) {
                    out.push(Want::NonTerm(unhex(f[2])));
                }
            }
            _ => (),
        }
    }
    Ok(out)
}

fn derive_needed(pristine: &[CItem], dump: &str) -> Result<Needed, String> {
    let hdr_len = pristine
        .iter()
        .position(|i| i.kind == 't' && i.name == "Token")
        .ok_or("no `Token` type in the pristine file")?
        + 1;
    let mut pos = hdr_len;
    let mut groups = vec![];
    let at = |p: usize| pristine.get(p);
    for w in wants(dump)? {
        match w {
            Want::Term(name) => {
                match at(pos) {
                    Some(i) if is_type(i.kind) && i.name == name => groups.push(Group::Ty(pos)),
                    _ => return Err(format!("terminal {name}: type item expected at {pos}")),
                }
                match at(pos + 1) {
                    Some(i) if i.kind == 'f' => groups.push(Group::Act(pos + 1)),
                    _ => return Err(format!("terminal {name}: fn item expected at {}", pos + 1)),
                }
                pos += 2;
            }
            Want::NonTerm(name) => {
                let mut idx = vec![];
                while let Some(i) = at(pos) {
                    if !is_type(i.kind) {
                        break;
                    }
                    idx.push(pos);
                    pos += 1;
                }
                if idx.is_empty() {
                    return Err(format!("nonterminal {name}: no type item at {pos}"));
                }
                if !idx.iter().any(|&k| pristine[k].name == name) {
                    return Err(format!("nonterminal {name}: no type of that name in its group"));
                }
                groups.push(Group::Nt { guard: name.clone(), idx });
                let start = pos;
                while let Some(i) = at(pos) {
                    if i.kind != 'f' {
                        break;
                    }
                    groups.push(Group::Act(pos));
                    pos += 1;
                }
                if pos == start {
                    return Err(format!("nonterminal {name}: no action fn at {pos}"));
                }
            }
        }
    }
    if pos != pristine.len() {
        return Err(format!("{} trailing items not accounted for", pristine.len() - pos));
    }
    Ok(Needed { hdr_len, groups })
}

fn show_needed(n: &Needed, pristine: &[CItem]) -> String {
    let groups: Vec<String> = n
        .groups
        .iter()
        .map(|g| match g {
            Group::Ty(i) => format!("y:{}", show_item(&pristine[*i])),
            Group::Act(i) => format!("a:{}", show_item(&pristine[*i])),
            Group::Nt { guard, idx } => format!(
                "n:{}:{}",
                hex(guard),
                idx.iter().map(|i| show_item(&pristine[*i])).collect::<Vec<_>>().join(";")
            ),
        })
        .collect();
    format!(
        "{} | {}",
        show(&pristine[..n.hdr_len]),
        if groups.is_empty() { "-".to_string() } else { groups.join(" ") }
    )
}

// ------------------------------------------------------------------------------------------------
// edit scripts
// ------------------------------------------------------------------------------------------------

struct Slot {
    /// index in the pristine file, None for user items
    p: Option<usize>,
    item: syn::Item,
}

fn attrs_mut(item: &mut syn::Item) -> Option<&mut Vec<syn::Attribute>> {
    Some(match item {
        syn::Item::Enum(e) => &mut e.attrs,
        syn::Item::Struct(e) => &mut e.attrs,
        syn::Item::Type(e) => &mut e.attrs,
        syn::Item::Fn(e) => &mut e.attrs,
        syn::Item::Use(e) => &mut e.attrs,
        syn::Item::Const(e) => &mut e.attrs,
        _ => return None,
    })
}

fn user_item(kind: &str, n: usize) -> Option<syn::Item> {
    let id = |s: &str| quote::format_ident!("{}{}", s, n);
    Some(match kind {
        "use" => {
            let a = id("UserMap");
            parse_quote! { use std::collections::HashMap as #a; }
        }
        "text" => {
            // a multi-line string literal whose lines END in blanks / tabs, and a doc line with trailing blanks: the file is
            // text, "kept token-for-token" includes the value of such a literal
            let a = id("USER_TEXT_");
            let src = format!(
                "/// help text  \npub static {a}: &str = \"Usage: calc EXPR  \n  second line\t\n\n   \n end \";"
            );
            syn::parse_str::<syn::Item>(&src).ok()?
        }
        "const" => {
            let a = id("USER_CONST_");
            parse_quote! { pub const #a: usize = #n; }
        }
        "static" => {
            let a = id("USER_STATIC_");
            parse_quote! { pub static #a: &str = "user"; }
        }
        "impl" => {
            let a = id("UserTrait");
            parse_quote! { impl #a for u8 { fn user(&self) -> u8 { *self } } }
        }
        "trait" => {
            let a = id("UserTrait");
            parse_quote! { pub trait #a { fn user(&self) -> u8; } }
        }
        "helper" => {
            let a = id("user_helper_");
            parse_quote! { fn #a(x: u32) -> u32 { x + 1 } }
        }
        "ustruct" => {
            let a = id("UserStruct");
            parse_quote! { #[derive(Debug)] pub struct #a { pub a: u8, pub b: Vec<String> } }
        }
        "uenum" => {
            let a = id("UserEnum");
            parse_quote! { pub enum #a { One, Two(u8) } }
        }
        "utype" => {
            let a = id("UserType");
            parse_quote! { pub type #a = std::collections::BTreeMap<String, u64>; }
        }
        "mod" => {
            let a = id("user_mod_");
            parse_quote! { mod #a { pub fn inner() {} pub struct Inner; } }
        }
        "macro" => {
            let a = id("user_macro_");
            parse_quote! { macro_rules! #a { () => { 1 + 1 }; } }
        }
        _ => return None,
    })
}

fn nth_where<F: Fn(&Slot) -> bool>(slots: &[Slot], k: usize, f: F) -> Option<usize> {
    let c: Vec<usize> = slots.iter().enumerate().filter(|(_, s)| f(s)).map(|(i, _)| i).collect();
    if c.is_empty() {
        None
    } else {
        Some(c[k % c.len()])
    }
}

fn remove_pristine(slots: &mut Vec<Slot>, p: usize) {
    slots.retain(|s| s.p != Some(p));
}

/// Applies one edit operation. Unknown/inapplicable operations are no-ops (returns false).
fn apply_edit(
    op: &str,
    slots: &mut Vec<Slot>,
    inner_attrs: &mut Vec<syn::Attribute>,
    needed: &Needed,
    pristine: &[CItem],
) -> bool {
    let f: Vec<&str> = op.split(':').collect();
    let num = |i: usize| f.get(i).and_then(|s| s.parse::<usize>().ok()).unwrap_or(0);
    let nts: Vec<(&String, &Vec<usize>)> = needed
        .groups
        .iter()
        .filter_map(|g| match g {
            Group::Nt { guard, idx } => Some((guard, idx)),
            _ => None,
        })
        .collect();
    let multi: Vec<(&String, &Vec<usize>)> = nts.iter().filter(|(_, i)| i.len() > 1).cloned().collect();
    let pick_multi = |k: usize| -> Option<(&String, &Vec<usize>)> {
        if !multi.is_empty() {
            Some(multi[k % multi.len()])
        } else if !nts.is_empty() {
            Some(nts[k % nts.len()])
        } else {
            None
        }
    };
    match f[0] {
        // delete the item at the current position K (anything, also header and user items)
        "del" => {
            if slots.is_empty() {
                return false;
            }
            let k = num(1) % slots.len();
            slots.remove(k);
            true
        }
        // delete the K-th generated (non-header) pristine item, if still there
        "delp" => {
            let n = pristine.len() - needed.hdr_len;
            if n == 0 {
                return false;
            }
            remove_pristine(slots, needed.hdr_len + num(1) % n);
            true
        }
        // delete only the item carrying the guard name of a (preferably multi-item) type group
        "delguard" => match pick_multi(num(1)) {
            Some((guard, idx)) => {
                for &p in idx {
                    if pristine[p].name == *guard {
                        remove_pristine(slots, p);
                    }
                }
                true
            }
            None => false,
        },
        // delete one auxiliary (non guard) item of a multi-item type group
        "delaux" => match pick_multi(num(1)) {
            Some((guard, idx)) => {
                let aux: Vec<usize> = idx.iter().cloned().filter(|&p| pristine[p].name != *guard).collect();
                if aux.is_empty() {
                    return false;
                }
                remove_pristine(slots, aux[num(2) % aux.len()]);
                true
            }
            None => false,
        },
        // delete all types of one nonterminal
        "delgroup" => {
            if nts.is_empty() {
                return false;
            }
            let (_, idx) = nts[num(1) % nts.len()];
            for &p in idx {
                remove_pristine(slots, p);
            }
            true
        }
        // the tutorial edit: replace all types of a nonterminal by the user's own `type <Guard> = f32;`
        "retype" => match pick_multi(num(1)) {
            Some((guard, idx)) => {
                let mut done = false;
                for &p in idx {
                    if pristine[p].name == *guard && !done {
                        if let Some(s) = slots.iter_mut().find(|s| s.p == Some(p)) {
                            let g = quote::format_ident!("{}", guard);
                            s.item = parse_quote! { pub type #g = f32; };
                            done = true;
                            continue;
                        }
                    }
                    remove_pristine(slots, p);
                }
                true
            }
            None => false,
        },
        "delallfn" => {
            slots.retain(|s| !(s.p.is_some() && matches!(s.item, syn::Item::Fn(_))));
            true
        }
        "delalltypes" => {
            slots.retain(|s| !(s.p.map_or(false, |p| p >= needed.hdr_len) && !matches!(s.item, syn::Item::Fn(_))));
            true
        }
        "delall" => {
            slots.retain(|s| !s.p.map_or(false, |p| p >= needed.hdr_len));
            true
        }
        "delhdr" => {
            if needed.hdr_len == 0 {
                return false;
            }
            remove_pristine(slots, num(1) % needed.hdr_len);
            true
        }
        // rewrite the body of the K-th fn
        "body" => match nth_where(slots, num(1), |s| matches!(s.item, syn::Item::Fn(_))) {
            Some(i) => {
                if let syn::Item::Fn(func) = &mut slots[i].item {
                    let msg = format!("edited {}", num(1));
                    func.block = parse_quote!({
                        let _user = 1 + 2;
                        todo!(#msg)
                    });
                }
                true
            }
            None => false,
        },
        // replace the field list of the K-th struct
        "fields" => match nth_where(slots, num(1), |s| matches!(s.item, syn::Item::Struct(_))) {
            Some(i) => {
                if let syn::Item::Struct(st) = &mut slots[i].item {
                    st.fields = syn::Fields::Named(parse_quote!({ pub edited: u32, pub more: Vec<String> }));
                }
                true
            }
            None => false,
        },
        "variant" => match nth_where(slots, num(1), |s| matches!(s.item, syn::Item::Enum(_))) {
            Some(i) => {
                if let syn::Item::Enum(e) = &mut slots[i].item {
                    e.variants.push(parse_quote!(UserVariant(u8)));
                }
                true
            }
            None => false,
        },
        "alias" => match nth_where(slots, num(1), |s| matches!(s.item, syn::Item::Type(_))) {
            Some(i) => {
                if let syn::Item::Type(t) = &mut slots[i].item {
                    t.ty = parse_quote!(Vec<u8>);
                }
                true
            }
            None => false,
        },
        // rename the second parameter of the K-th fn
        // change the visibility of the K-th fn / struct / enum / type (the user narrows what the generator made `pub`)
        "vis" => match nth_where(slots, num(1), |s| {
            matches!(s.item, syn::Item::Fn(_) | syn::Item::Struct(_) | syn::Item::Enum(_) | syn::Item::Type(_))
        }) {
            Some(i) => {
                let v: syn::Visibility = match num(2) % 3 {
                    0 => syn::Visibility::Inherited,
                    1 => parse_quote!(pub(crate)),
                    _ => parse_quote!(pub(super)),
                };
                match &mut slots[i].item {
                    syn::Item::Fn(x) => x.vis = v,
                    syn::Item::Struct(x) => x.vis = v,
                    syn::Item::Enum(x) => x.vis = v,
                    syn::Item::Type(x) => x.vis = v,
                    _ => {}
                }
                true
            }
            None => false,
        },
        "param" => match nth_where(slots, num(1), |s| matches!(s.item, syn::Item::Fn(_))) {
            Some(i) => {
                if let syn::Item::Fn(func) = &mut slots[i].item {
                    if let Some(syn::FnArg::Typed(pt)) = func.sig.inputs.iter_mut().nth(1) {
                        pt.pat = parse_quote!(renamed_by_user);
                        return true;
                    }
                }
                false
            }
            None => false,
        },
        // rename the K-th generated fn/type that is still there (the generator no longer finds it)
        "rename" => match nth_where(slots, num(1), |s| s.p.map_or(false, |p| p >= needed.hdr_len)) {
            Some(i) => {
                match &mut slots[i].item {
                    syn::Item::Fn(x) => x.sig.ident = quote::format_ident!("{}_user", x.sig.ident),
                    syn::Item::Struct(x) => x.ident = quote::format_ident!("{}User", x.ident),
                    syn::Item::Enum(x) => x.ident = quote::format_ident!("{}User", x.ident),
                    syn::Item::Type(x) => x.ident = quote::format_ident!("{}User", x.ident),
                    _ => return false,
                }
                true
            }
            None => false,
        },
        // replace the K-th generated item that is still there by a user item of the same name in the OTHER
        // namespace (fn <-> type); the generator must not be fooled by it
        "crossns" => match nth_where(slots, num(1), |s| s.p.map_or(false, |p| p >= needed.hdr_len)) {
            Some(i) => {
                let (k, name) = kind_name(&slots[i].item);
                let id = quote::format_ident!("{}", name);
                let item: syn::Item = if k == 'f' {
                    parse_quote! { #[allow(non_camel_case_types)] pub struct #id; }
                } else if is_type(k) {
                    parse_quote! { #[allow(non_snake_case)] pub fn #id() {} }
                } else {
                    return false;
                };
                slots[i] = Slot { p: None, item };
                true
            }
            None => false,
        },
        // insert a user item: ins:<pos>:<kind>:<n>
        "ins" => match user_item(f.get(2).unwrap_or(&""), num(3)) {
            Some(item) => {
                let pos = num(1) % (slots.len() + 1);
                slots.insert(pos, Slot { p: None, item });
                true
            }
            None => false,
        },
        // duplicate the item at position K, insert the copy at position P
        "dup" => {
            if slots.is_empty() {
                return false;
            }
            let k = num(1) % slots.len();
            let item = slots[k].item.clone();
            let pos = num(2) % (slots.len() + 1);
            slots.insert(pos, Slot { p: None, item });
            true
        }
        "swap" => {
            if slots.is_empty() {
                return false;
            }
            let (a, b) = (num(1) % slots.len(), num(2) % slots.len());
            slots.swap(a, b);
            true
        }
        "doc" => {
            if slots.is_empty() {
                return false;
            }
            let k = num(1) % slots.len();
            match attrs_mut(&mut slots[k].item) {
                Some(a) => {
                    a.push(parse_quote!(#[doc = " documented by the user"]));
                    true
                }
                None => false,
            }
        }
        "innerattr" => {
            inner_attrs.push(parse_quote!(#![allow(dead_code)]));
            true
        }
        _ => false,
    }
}

/// Sprinkles non-doc comments and blank lines over the file text (documented as not preserved).
fn add_comments(text: &str) -> String {
    let mut out = String::new();
    for (n, line) in text.lines().enumerate() {
        if line.starts_with("pub fn") || line.starts_with("#[derive") || line.starts_with("pub type") {
            out.push_str(&format!("\n// user comment {n}\n\n"));
        }
        out.push_str(line);
        if line.ends_with('{') {
            out.push_str(" /* user block comment */");
        }
        out.push('\n');
    }
    out
}

// ------------------------------------------------------------------------------------------------
// running the real compiler
// ------------------------------------------------------------------------------------------------

fn settings(loc: bool, ops: &str, dir: &Path) -> Result<Settings, String> {
    let mut s = Settings::new().builder_loc_info(loc);
    for op in ops.split(',') {
        s = match op {
            "-" | "" => s,
            // harness-only op (not sent to the model, which is about force/actions): the PARSER goes to a separate output
            // root (as with cargo's OUT_DIR); where the actions go is still decided by ast / ist / default
            "odr" => s.root_dir(dir.to_path_buf()).out_dir_root(dir.join("out")),
            "f0" => s.force(false),
            "f1" => s.force(true),
            "ast" => s.actions_in_source_tree(),
            "ist" => s.in_source_tree(),
            "a0" => s.actions(false),
            "a1" => s.actions(true),
            _ => return Err(format!("unknown settings op {op}")),
        };
    }
    Ok(s)
}

/// "ok" | "err" | "panic"
fn compile(s: &Settings, grammar: &Path) -> (String, String) {
    let r = panic::catch_unwind(panic::AssertUnwindSafe(|| s.process_grammar(grammar)));
    match r {
        Ok(Ok(())) => ("ok".into(), String::new()),
        Ok(Err(e)) => ("err".into(), format!("{e}")),
        Err(_) => ("panic".into(), String::new()),
    }
}

fn classify_reject(msg: &str) -> &'static str {
    if msg.contains("conflicts") {
        "conflicts"
    } else if msg.contains("Recognizer not defined") {
        "no-recognizer"
    } else if msg.contains("Syntax") || msg.contains("expected") {
        "syntax"
    } else {
        "other"
    }
}

fn job(line: &str, work: &Path, out: &mut Vec<String>) {
    let f: Vec<&str> = line.split(' ').collect();
    let id = f[0];
    macro_rules! put { ($k:expr, $v:expr) => { out.push(format!("{} {} {}", id, $k, $v)) }; }
    if f.len() < 6 {
        put!("status", "bad-job");
        return;
    }
    let grammar_text = unhex(f[1]);
    let loc = f[2] == "1";
    let ops = f[3];
    let comments = f[4] == "1";
    let edits = f[5];

    let dir = work.join(format!("j{id}"));
    let _ = fs::remove_dir_all(&dir);
    fs::create_dir_all(&dir).unwrap();
    let gpath = dir.join("g.rustemo");
    fs::write(&gpath, &grammar_text).unwrap();
    let apath = dir.join("g_actions.rs");
    let keep = std::env::var("VREGEN_KEEP").is_ok();
    let cleanup = |dir: &PathBuf| {
        if !keep {
            let _ = fs::remove_dir_all(dir);
        }
    };

    // 1. pristine generation by the real compiler
    let pristine_settings = Settings::new().force(true).builder_loc_info(loc);
    let (st, msg) = compile(&pristine_settings, &gpath);
    if st != "ok" {
        put!("status", format!("rejected:{}:{}", st, classify_reject(&msg)));
        cleanup(&dir);
        return;
    }
    let pristine_text = match fs::read_to_string(&apath) {
        Ok(t) => t,
        Err(_) => {
            put!("status", "error:no-actions-file");
            cleanup(&dir);
            return;
        }
    };
    let pristine_file = match syn::parse_file(&pristine_text) {
        Ok(f) => f,
        Err(_) => {
            put!("status", "error:pristine-unparsable");
            cleanup(&dir);
            return;
        }
    };
    let pristine: Vec<CItem> = pristine_file.items.iter().map(canon).collect();
    put!("pristine", show(&pristine));

    // 2. needed = header + guarded groups
    let dump = match panic::catch_unwind(|| rustemo_compiler::verif::dump_grammar_only(&grammar_text)) {
        Ok(Ok(d)) => d,
        _ => {
            put!("status", "error:dump-failed");
            cleanup(&dir);
            return;
        }
    };
    let needed = match derive_needed(&pristine, &dump) {
        Ok(n) => n,
        Err(e) => {
            put!("status", format!("needed-mismatch:{}", hex(&e)));
            cleanup(&dir);
            return;
        }
    };
    let needed_txt = show_needed(&needed, &pristine);
    put!("needed", &needed_txt);

    // 3. edit
    let mut slots: Vec<Slot> = pristine_file
        .items
        .iter()
        .cloned()
        .enumerate()
        .map(|(p, item)| Slot { p: Some(p), item })
        .collect();
    let mut inner = pristine_file.attrs.clone();
    let mut absent = false;
    let mut garbage = false;
    let mut applied = vec![];
    for op in edits.split(',') {
        match op {
            "-" | "" => (),
            "absent" => absent = true,
            "garbage" => garbage = true,
            _ => {
                if apply_edit(op, &mut slots, &mut inner, &needed, &pristine) {
                    applied.push(op.split(':').next().unwrap_or("").to_string());
                }
            }
        }
    }
    put!("applied", if applied.is_empty() { "-".to_string() } else { applied.join(",") });
    if absent {
        let _ = fs::remove_file(&apath);
    } else {
        let file = syn::File {
            shebang: None,
            attrs: inner,
            items: slots.into_iter().map(|s| s.item).collect(),
        };
        let mut text = prettyplease::unparse(&file);
        if comments {
            text = add_comments(&text);
        }
        if garbage {
            text.push_str("\npub fn broken( { \n");
        }
        fs::write(&apath, text).unwrap();
    }
    // the parser file of the pristine run is removed so that each run has to write it again
    let _ = fs::remove_file(dir.join("g.rs"));
    let before = read_state(&apath);
    let before_bytes = fs::read(&apath).ok();
    put!("edited", show_state(&before));

    // 4./5. two regenerations with the job's settings
    let s = match settings(loc, ops, &dir) {
        Ok(s) => s,
        Err(e) => {
            put!("status", format!("bad-job:{}", hex(&e)));
            cleanup(&dir);
            return;
        }
    };
    let (r1, _) = compile(&s, &gpath);
    let after1 = read_state(&apath);
    let bytes1 = fs::read(&apath).ok();
    let (r2, _) = compile(&s, &gpath);
    let after2 = read_state(&apath);
    let bytes2 = fs::read(&apath).ok();
    put!("after1", format!("{} {}", r1, show_state(&after1)));
    put!("after2", format!("{} {}", r2, show_state(&after2)));
    put!("same1", (before_bytes == bytes1) as u8);
    put!("same2", (bytes1 == bytes2) as u8);
    put!("attrs", format!("{} {} {}", attrs_of(&before), attrs_of(&after1), attrs_of(&after2)));
    if std::env::var("VREGEN_TEXT").is_ok() {
        put!("text0", hex(&String::from_utf8_lossy(before_bytes.as_deref().unwrap_or(b""))));
        put!("text1", hex(&String::from_utf8_lossy(bytes1.as_deref().unwrap_or(b""))));
    }
    put!(
        "request",
        format!(
            "run {} | {} | {}",
            {
                let m: Vec<&str> = ops.split(',').filter(|o| *o != "odr" && !o.is_empty()).collect();
                if m.is_empty() { "-".to_string() } else { m.join(",") }
            },
            needed_txt,
            show_state(&before)
        )
    );
    put!(
        "answer",
        format!("{} {} {} {}", r1, show_state(&after1), r2, show_state(&after2))
    );
    put!("status", "ok");
    cleanup(&dir);
}

fn main() {
    // not a cargo build script: the output directories default to "next to the grammar"
    std::env::remove_var("OUT_DIR");
    std::env::remove_var("CARGO_MANIFEST_DIR");
    panic::set_hook(Box::new(|_| {}));
    let args: Vec<String> = std::env::args().collect();
    if args.len() < 4 {
        eprintln!("usage: vregen <jobs> <out> <workdir>");
        std::process::exit(2);
    }
    let jobs = fs::read_to_string(&args[1]).expect("jobs file");
    let mut outf = fs::File::create(&args[2]).expect("out file");
    let work = PathBuf::from(&args[3]);
    fs::create_dir_all(&work).unwrap();
    for line in jobs.lines() {
        if line.trim().is_empty() {
            continue;
        }
        let mut out = vec![];
        job(line, &work, &mut out);
        for l in out {
            writeln!(outf, "{l}").unwrap();
        }
        outf.flush().unwrap();
    }
}
