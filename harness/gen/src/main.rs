//! vgen — drives the REAL parser generator of rustemo-compiler (`Settings::process_grammar`) and
//! turns the table-bearing part of the generated `<stem>.rs` into a canonical one-line text.
//!
//! usage: vgen <jobs file> <out file> <work dir>
//!
//! One job per line, fields separated by single blanks:
//!     <id> <A|F> <algo> <tt> <ps> <pse> <ms> <lm> <go> <partial> <skipws> <fancy> <grammar text hex>
//! `A|F` = `GeneratorTableType::Arrays | Functions`; the ten settings fields are the argument slice
//! of `settings_from` (the same function as in harness/dyn); grammar: lowercase hex of the UTF-8
//! bytes, `=` for the empty text.
//!
//! Per job, in the fresh directory `<work dir>/j<id>/`: the grammar is written to `gram.rustemo`,
//! the real `process_grammar` generates `gram.rs` (generic builder, in source tree), the `verif`
//! hook dumps grammar and table, `gram.rs` is parsed with syn and canonicalised.
//!
//! Output lines (`<id> <key> <value>`):
//!     status ok | status err <class> <msg hex> | status panic <msg hex> | status extract-error <msg hex>
//!     src <absolute path of gram.rs>        (only when generated)
//!     request <hook dump, '\n' -> " | ">    (only when the dump is Ok)
//!     code <canonical code text>            (only when generated and parsed)
//!     impltext <constant text, not hex>     (only when generated and parsed)
//!
//! Unknown shapes in the generated file never abort a job: they become `?…` tokens inside the
//! canonical text (`?` + hex of the offending token string, or `?word`).
use std::{
    collections::HashMap,
    fs,
    io::Write,
    panic,
    path::{Path, PathBuf},
    sync::Mutex,
};

use quote::ToTokens;
use rustemo_compiler::{BuilderType, GeneratorTableType, ParserAlgo, Settings, TableType};
use syn::{Expr, Item, Pat, Stmt};

static LAST_PANIC: Mutex<String> = Mutex::new(String::new());

// ---------------------------------------------------------------------------------------------
// helpers shared (verbatim) with harness/dyn
// ---------------------------------------------------------------------------------------------

fn hex(s: &[u8]) -> String {
    if s.is_empty() {
        return "=".into();
    }
    s.iter().map(|b| format!("{b:02x}")).collect()
}

fn unhex(s: &str) -> String {
    if s == "=" {
        return String::new();
    }
    let bytes: Vec<u8> = (0..s.len() / 2)
        .map(|i| u8::from_str_radix(&s[2 * i..2 * i + 2], 16).unwrap())
        .collect();
    String::from_utf8(bytes).unwrap()
}

fn opt(s: &str) -> Option<bool> {
    match s {
        "1" => Some(true),
        "0" => Some(false),
        _ => None,
    }
}

pub fn settings_from(f: &[&str]) -> Settings {
    // f: algo tt ps pse ms lm go partial skipws fancy
    let mut s = Settings::new();
    s = s.parser_algo(match f[0] {
        "GLR" => ParserAlgo::GLR,
        _ => ParserAlgo::LR,
    });
    match f[1] {
        "LALR" => s = s.table_type(TableType::LALR),
        "LALR_PAGER" => s = s.table_type(TableType::LALR_PAGER),
        "LALR_RN" => s = s.table_type(TableType::LALR_RN),
        _ => {}
    }
    if let Some(b) = opt(f[2]) {
        s = s.prefer_shifts(b);
    }
    if let Some(b) = opt(f[3]) {
        s = s.prefer_shifts_over_empty(b);
    }
    if let Some(b) = opt(f[4]) {
        s = s.lexical_disamb_most_specific(b);
    }
    if let Some(b) = opt(f[5]) {
        s = s.lexical_disamb_longest_match(b);
    }
    if let Some(b) = opt(f[6]) {
        if !(f[0] != "GLR" && !b) {
            s = s.lexical_disamb_grammar_order(b);
        }
    }
    if let Some(b) = opt(f[7]) {
        s = s.partial_parse(b);
    }
    if let Some(b) = opt(f[8]) {
        s = s.skip_ws(b);
    }
    if let Some(b) = opt(f[9]) {
        s = s.fancy_regex(b);
    }
    s
}

fn err_class(e: &rustemo_compiler::Error) -> String {
    let s = e.to_locfile_str();
    let class = if s.starts_with("Error at") {
        "syntax"
    } else if s.contains("First set empty") {
        "infinite-recursion"
    } else if s.contains("Recognizer not defined") {
        "no-recognizer"
    } else if s.contains("not defined") || s.contains("Unexisting") || s.contains("undefined") {
        "undefined"
    } else if s.contains("not deterministic") {
        "conflicts"
    } else {
        "other"
    };
    format!("{} {}", class, hex(s.as_bytes()))
}

// ---------------------------------------------------------------------------------------------
// syn helpers
// ---------------------------------------------------------------------------------------------

fn toks<T: ToTokens>(t: &T) -> String {
    t.to_token_stream().to_string()
}

/// `?` + hex of the token string: the marker of an unexpected shape.
fn q<T: ToTokens>(t: &T) -> String {
    format!("?{}", hex(toks(t).as_bytes()))
}

/// `a::b::c` for a plain path (no leading `::`, no generic arguments).
fn pstr(p: &syn::Path) -> Option<String> {
    if p.leading_colon.is_some() {
        return None;
    }
    let mut v = vec![];
    for s in &p.segments {
        if !matches!(s.arguments, syn::PathArguments::None) {
            return None;
        }
        v.push(s.ident.to_string());
    }
    Some(v.join("::"))
}

fn epath(e: &Expr) -> Option<String> {
    match e {
        Expr::Path(p) if p.qself.is_none() && p.attrs.is_empty() => pstr(&p.path),
        _ => None,
    }
}

/// `x` for the two-segment path `<prefix>::x`.
fn strip_variant(p: Option<String>, prefix: &str) -> Option<String> {
    let p = p?;
    let rest = p.strip_prefix(prefix)?.strip_prefix("::")?;
    if rest.is_empty() || rest.contains("::") {
        None
    } else {
        Some(rest.to_string())
    }
}

fn evariant(e: &Expr, prefix: &str) -> Option<String> {
    strip_variant(epath(e), prefix)
}

fn pvariant(p: &Pat, prefix: &str) -> Option<String> {
    match p {
        Pat::Path(pp) if pp.qself.is_none() && pp.attrs.is_empty() => {
            strip_variant(pstr(&pp.path), prefix)
        }
        _ => None,
    }
}

/// The single expression of a block `{ e }`.
fn block_expr(b: &syn::Block) -> Option<&Expr> {
    match b.stmts.as_slice() {
        [Stmt::Expr(e)] => Some(e),
        _ => None,
    }
}

/// prettyplease wraps a long arm body in a block: `{ e }` → `e`.
fn unblock(e: &Expr) -> &Expr {
    match e {
        Expr::Block(b) if b.label.is_none() && b.attrs.is_empty() => match block_expr(&b.block) {
            Some(inner) => inner,
            None => e,
        },
        _ => e,
    }
}

fn trait_last(i: &syn::ItemImpl) -> Option<&syn::PathSegment> {
    i.trait_.as_ref().and_then(|(_, p, _)| p.segments.last())
}

fn find_method<'a>(i: &'a syn::ItemImpl, name: &str) -> Option<&'a syn::ImplItemMethod> {
    i.items.iter().find_map(|it| match it {
        syn::ImplItem::Method(m) if m.sig.ident == name => Some(m),
        _ => None,
    })
}

// ---------------------------------------------------------------------------------------------
// canonical forms of the table entries
// ---------------------------------------------------------------------------------------------

/// `Shift(State::x)` → `S:x`, `Reduce(PK::x, 3usize)` → `R:x:3`, `Accept` → `A`, `Error` → `E`.
fn action_expr(e: &Expr) -> String {
    match e {
        Expr::Path(_) => match epath(e).as_deref() {
            Some("Accept") => "A".into(),
            Some("Error") => "E".into(),
            _ => q(e),
        },
        Expr::Call(c) if c.attrs.is_empty() => match (epath(&c.func).as_deref(), c.args.len()) {
            (Some("Shift"), 1) => match evariant(&c.args[0], "State") {
                Some(x) => format!("S:{x}"),
                None => q(e),
            },
            (Some("Reduce"), 2) => {
                let len = match &c.args[1] {
                    Expr::Lit(syn::ExprLit {
                        lit: syn::Lit::Int(i),
                        ..
                    }) if i.suffix() == "usize" || i.suffix().is_empty() => {
                        Some(i.base10_digits().to_string())
                    }
                    _ => None,
                };
                match (evariant(&c.args[0], "PK"), len) {
                    (Some(x), Some(l)) => format!("R:{x}:{l}"),
                    _ => q(e),
                }
            }
            _ => q(e),
        },
        _ => q(e),
    }
}

/// `None` → `-`, `Some(State::x)` → `x`.
fn goto_expr(e: &Expr) -> String {
    opt_state(e).unwrap_or_else(|| q(e))
}

fn opt_state(e: &Expr) -> Option<String> {
    match e {
        Expr::Path(_) if epath(e).as_deref() == Some("None") => Some("-".into()),
        Expr::Call(c)
            if c.attrs.is_empty()
                && epath(&c.func).as_deref() == Some("Some")
                && c.args.len() == 1 =>
        {
            evariant(&c.args[0], "State")
        }
        _ => None,
    }
}

/// `None` → `-`, `Some((TK::x, true))` → `x:1`, `Some((TK::x, false))` → `x:0`.
fn tk_expr(e: &Expr) -> String {
    let r = match e {
        Expr::Path(_) if epath(e).as_deref() == Some("None") => Some("-".to_string()),
        Expr::Call(c)
            if c.attrs.is_empty()
                && epath(&c.func).as_deref() == Some("Some")
                && c.args.len() == 1 =>
        {
            match &c.args[0] {
                Expr::Tuple(t) if t.attrs.is_empty() && t.elems.len() == 2 => {
                    let b = match &t.elems[1] {
                        Expr::Lit(syn::ExprLit {
                            lit: syn::Lit::Bool(b),
                            ..
                        }) => Some(b.value),
                        _ => None,
                    };
                    match (evariant(&t.elems[0], "TK"), b) {
                        (Some(x), Some(b)) => Some(format!("{x}:{}", b as u8)),
                        _ => None,
                    }
                }
                _ => None,
            }
        }
        _ => None,
    };
    r.unwrap_or_else(|| q(e))
}

/// The elements of an array literal, canonicalised by `f`, joined by `sep`; `empty` for `[]`.
fn row(e: &Expr, f: &dyn Fn(&Expr) -> String, sep: &str, empty: &str) -> String {
    match e {
        Expr::Array(a) if a.attrs.is_empty() => {
            if a.elems.is_empty() {
                empty.into()
            } else {
                a.elems.iter().map(f).collect::<Vec<_>>().join(sep)
            }
        }
        _ => q(e),
    }
}

/// One record `<name> <s> <f(element s)>` per element of the array literal `field`.
fn field_records(name: &str, field: Option<&Expr>, f: &dyn Fn(&Expr) -> String) -> Vec<String> {
    match field {
        None => vec![format!("{name} ?missing-field")],
        Some(Expr::Array(a)) if a.attrs.is_empty() => a
            .elems
            .iter()
            .enumerate()
            .map(|(s, e)| format!("{name} {s} {}", f(e)))
            .collect(),
        Some(e) => vec![format!("{name} {}", q(e))],
    }
}

// ---------------------------------------------------------------------------------------------
// Functions layout: the per-state functions
// ---------------------------------------------------------------------------------------------

/// The body of `f` iff it is exactly `match <the only parameter> { arms }`.
fn single_match(f: &syn::ItemFn) -> Option<&syn::ExprMatch> {
    if f.sig.inputs.len() != 1 {
        return None;
    }
    let param = match &f.sig.inputs[0] {
        syn::FnArg::Typed(pt) => match &*pt.pat {
            Pat::Ident(pi) if pi.subpat.is_none() && pi.by_ref.is_none() => pi.ident.to_string(),
            _ => return None,
        },
        _ => return None,
    };
    match block_expr(&f.block)? {
        Expr::Match(m) if m.attrs.is_empty() && epath(&m.expr).as_deref() == Some(&param) => {
            Some(m)
        }
        _ => None,
    }
}

fn is_macro(e: &Expr, name: &str) -> Option<proc_macro2::TokenStream> {
    match e {
        Expr::Macro(m) if pstr(&m.mac.path).as_deref() == Some(name) => {
            Some(m.mac.tokens.clone())
        }
        _ => None,
    }
}

/// `panic!(…)` or a block `{ panic!(…) }` / `{ panic!(…); }`.
fn is_panic(e: &Expr) -> bool {
    if is_macro(e, "panic").is_some() {
        return true;
    }
    match e {
        Expr::Block(b) if b.label.is_none() && b.attrs.is_empty() => {
            match b.block.stmts.as_slice() {
                [Stmt::Expr(e)] | [Stmt::Semi(e, _)] => is_macro(e, "panic").is_some(),
                [Stmt::Item(Item::Macro(m))] => {
                    m.ident.is_none() && pstr(&m.mac.path).as_deref() == Some("panic")
                }
                _ => false,
            }
        }
        _ => false,
    }
}

/// `TK::x => Vec::from(&[e1, e2])` → `x=>e1,e2`; `_ => vec![]` → `_`.
fn afn_arm(arm: &syn::Arm) -> String {
    if arm.guard.is_some() || !arm.attrs.is_empty() {
        return q(arm);
    }
    if let Pat::Wild(_) = arm.pat {
        return match is_macro(unblock(&arm.body), "vec") {
            Some(t) if t.is_empty() => "_".into(),
            _ => q(arm),
        };
    }
    let Some(x) = pvariant(&arm.pat, "TK") else {
        return q(arm);
    };
    let list = match unblock(&arm.body) {
        Expr::Call(c)
            if c.attrs.is_empty()
                && epath(&c.func).as_deref() == Some("Vec::from")
                && c.args.len() == 1 =>
        {
            match &c.args[0] {
                Expr::Reference(r) if r.mutability.is_none() && r.attrs.is_empty() => {
                    match &*r.expr {
                        a @ Expr::Array(_) => Some(row(a, &action_expr, ",", ".")),
                        _ => None,
                    }
                }
                _ => None,
            }
        }
        _ => None,
    };
    match list {
        Some(l) => format!("{x}=>{l}"),
        None => q(arm),
    }
}

/// `NonTermKind::x => State::y` → `x>y`; `_ => panic!(…)` → `_!`.
fn gfn_arm(arm: &syn::Arm) -> String {
    if arm.guard.is_some() || !arm.attrs.is_empty() {
        return q(arm);
    }
    if let Pat::Wild(_) = arm.pat {
        return if is_panic(&arm.body) {
            "_!".into()
        } else {
            q(arm)
        };
    }
    match (pvariant(&arm.pat, "NonTermKind"), evariant(unblock(&arm.body), "State")) {
        (Some(x), Some(y)) => format!("{x}>{y}"),
        _ => q(arm),
    }
}

/// Body of an `afn`/`gfn` record: the element `e` of the `actions`/`gotos` array names a function.
fn fn_record(
    e: &Expr,
    fns: &HashMap<String, Vec<&syn::ItemFn>>,
    arm: &dyn Fn(&syn::Arm) -> String,
    invalid: bool,
) -> String {
    let name = match epath(e) {
        Some(n) if !n.contains("::") => n,
        _ => return q(e),
    };
    if invalid && name == "goto_invalid" {
        return "invalid".into();
    }
    match fns.get(&name).map(|v| v.as_slice()) {
        None | Some([]) => format!("?undefined:{name}"),
        Some([f]) => match single_match(f) {
            Some(m) => {
                if m.arms.is_empty() {
                    "~".into()
                } else {
                    m.arms.iter().map(arm).collect::<Vec<_>>().join(";")
                }
            }
            None => q(*f),
        },
        Some(_) => format!("?duplicate:{name}"),
    }
}

// ---------------------------------------------------------------------------------------------
// the records common to both layouts
// ---------------------------------------------------------------------------------------------

fn const_record(file: &syn::File, names: &[&str]) -> String {
    let mut out = String::from("const");
    for n in names {
        let found: Vec<&syn::ItemConst> = file
            .items
            .iter()
            .filter_map(|i| match i {
                Item::Const(c) if c.ident == n => Some(c),
                _ => None,
            })
            .collect();
        let v = match found.as_slice() {
            [] => "?".to_string(),
            [c] => match &*c.expr {
                Expr::Lit(syn::ExprLit {
                    lit: syn::Lit::Int(i),
                    ..
                }) => i.base10_digits().to_string(),
                e => q(e),
            },
            _ => "?duplicate".to_string(),
        };
        out.push_str(&format!(" {n}={v}"));
    }
    out
}

fn enum_record(file: &syn::File, name: &str) -> String {
    let found: Vec<&syn::ItemEnum> = file
        .items
        .iter()
        .filter_map(|i| match i {
            Item::Enum(e) if e.ident == name => Some(e),
            _ => None,
        })
        .collect();
    let body = match found.as_slice() {
        [] => "?missing".to_string(),
        [e] => e
            .variants
            .iter()
            .map(|v| {
                if matches!(v.fields, syn::Fields::Unit) && v.discriminant.is_none() {
                    v.ident.to_string()
                } else {
                    q(v)
                }
            })
            .collect::<Vec<_>>()
            .join(" "),
        _ => "?duplicate".to_string(),
    };
    format!("enum {name} {body}")
}

/// `impl From<ProdKind> for NonTermKind`: the arms `ProdKind::X => NonTermKind::Y` as `X>Y`.
fn from_record(file: &syn::File) -> String {
    let found: Vec<&syn::ItemImpl> = file
        .items
        .iter()
        .filter_map(|i| match i {
            Item::Impl(i)
                if trait_last(i).map_or(false, |s| {
                    s.ident == "From" && toks(&s.arguments).replace(' ', "") == "<ProdKind>"
                }) && toks(&i.self_ty) == "NonTermKind" =>
            {
                Some(i)
            }
            _ => None,
        })
        .collect();
    let body = match found.as_slice() {
        [] => "?missing".to_string(),
        [i] => {
            let m = find_method(i, "from").and_then(|m| match block_expr(&m.block) {
                Some(Expr::Match(mm)) => Some((m, mm)),
                _ => None,
            });
            match m {
                None => q(*i),
                Some((_, mm)) => mm
                    .arms
                    .iter()
                    .map(|a| {
                        if a.guard.is_some() || !a.attrs.is_empty() {
                            return q(a);
                        }
                        match (
                            pvariant(&a.pat, "ProdKind"),
                            evariant(unblock(&a.body), "NonTermKind"),
                        ) {
                            (Some(x), Some(y)) => format!("{x}>{y}"),
                            _ => q(a),
                        }
                    })
                    .collect::<Vec<_>>()
                    .join(" "),
            }
        }
        _ => "?duplicate".to_string(),
    };
    format!("from {body}")
}

/// `impl StateT for State { fn default_layout() -> Option<Self> { … } }`.
fn layout_record(file: &syn::File) -> String {
    let found: Vec<&syn::ItemImpl> = file
        .items
        .iter()
        .filter_map(|i| match i {
            Item::Impl(i)
                if trait_last(i).map_or(false, |s| s.ident == "StateT")
                    && toks(&i.self_ty) == "State" =>
            {
                Some(i)
            }
            _ => None,
        })
        .collect();
    let body = match found.as_slice() {
        [] => "?missing".to_string(),
        [i] => match find_method(i, "default_layout").and_then(|m| block_expr(&m.block)) {
            Some(e) => opt_state(e).unwrap_or_else(|| q(e)),
            None => q(*i),
        },
        _ => "?duplicate".to_string(),
    };
    format!("layout {body}")
}

// ---------------------------------------------------------------------------------------------
// the constant text
// ---------------------------------------------------------------------------------------------

const LM_MARK: &str = "__VGEN_LM__";
const GO_MARK: &str = "__VGEN_GO__";

#[allow(dead_code)]
fn impl_text(file: &syn::File, functions: bool) -> String {
    impl_text_flags(file, functions).0
}

/// the constant text and the two bare `bool` bodies of `longest_match` / `grammar_order`
fn impl_text_flags(file: &syn::File, functions: bool) -> (String, String) {
    let mut lm = "?".to_string();
    let mut go = "?".to_string();
    let def_ident = file.items.iter().find_map(|i| match i {
        Item::Struct(s) if s.ident.to_string().ends_with("Definition") => {
            Some(s.ident.to_string())
        }
        _ => None,
    });
    let mut parts: Vec<String> = vec![];
    for item in &file.items {
        match item {
            Item::Use(u) => {
                let s = toks(u);
                if s.contains("Action") {
                    parts.push(s);
                }
            }
            Item::Type(t) if functions && t.ident == "ActionFn" => parts.push(toks(t)),
            Item::Struct(s) if s.ident.to_string().ends_with("Definition") => {
                parts.push(toks(s))
            }
            Item::Fn(f) if functions && f.sig.ident == "goto_invalid" => parts.push(toks(f)),
            Item::Impl(i) if trait_last(i).map_or(false, |s| s.ident == "ParserDefinition") => {
                let mut i = i.clone();
                for it in i.items.iter_mut() {
                    if let syn::ImplItem::Method(m) = it {
                        let mark = if m.sig.ident == "longest_match" {
                            LM_MARK
                        } else if m.sig.ident == "grammar_order" {
                            GO_MARK
                        } else {
                            continue;
                        };
                        if let [Stmt::Expr(Expr::Lit(syn::ExprLit {
                            lit: syn::Lit::Bool(b),
                            attrs,
                        }))] = m.block.stmts.as_slice()
                        {
                            if attrs.is_empty() {
                                if mark == LM_MARK {
                                    lm = b.value.to_string();
                                } else {
                                    go = b.value.to_string();
                                }
                                m.block.stmts =
                                    vec![Stmt::Expr(syn::parse_str::<Expr>(mark).unwrap())];
                            }
                        }
                    }
                }
                parts.push(toks(&i));
            }
            _ => {}
        }
    }
    let mut text = parts.join(" ## ");
    if let Some(d) = def_ident {
        text = text.replace(&d, "DEF");
    }
    text = text.replace(LM_MARK, "@LM@").replace(GO_MARK, "@GO@");
    (
        text.split_whitespace().collect::<Vec<_>>().join(" "),
        format!("flags lm={lm} go={go}"),
    )
}

// ---------------------------------------------------------------------------------------------
// the canonical code text
// ---------------------------------------------------------------------------------------------

fn extract(file: &syn::File, functions: bool) -> (String, String) {
    let (impltext, flags) = impl_text_flags(file, functions);

    let statics: Vec<&syn::ItemStatic> = file
        .items
        .iter()
        .filter_map(|i| match i {
            Item::Static(s) if s.ident == "PARSER_DEFINITION" => Some(s),
            _ => None,
        })
        .collect();
    let pd = match statics.as_slice() {
        [] => return ("?no-parser-definition".into(), impltext),
        [s] => *s,
        _ => return ("?duplicate-parser-definition".into(), impltext),
    };

    let mut recs: Vec<String> = vec![];
    recs.push(if functions { "F".into() } else { "A".into() });
    recs.push(if functions {
        const_record(file, &["STATE_COUNT", "MAX_RECOGNIZERS", "TERMINAL_COUNT"])
    } else {
        const_record(
            file,
            &[
                "TERMINAL_COUNT",
                "NONTERMINAL_COUNT",
                "STATE_COUNT",
                "MAX_ACTIONS",
                "MAX_RECOGNIZERS",
            ],
        )
    });
    for e in ["State", "TokenKind", "ProdKind", "NonTermKind"] {
        recs.push(enum_record(file, e));
    }
    recs.push(from_record(file));
    recs.push(layout_record(file));

    // the struct literal
    let mut odd: Vec<String> = vec![];
    let lit = match &*pd.expr {
        Expr::Struct(s) => Some(s),
        _ => None,
    };
    let mut fields: HashMap<String, Vec<&Expr>> = HashMap::new();
    match lit {
        None => odd.push(format!("?pd-not-struct-literal:{}", &q(&*pd.expr)[1..])),
        Some(s) => {
            if pd.mutability.is_some() {
                odd.push("?pd-mutable".into());
            }
            if toks(&pd.ty) != toks(&s.path) {
                odd.push(format!(
                    "?pd-type:{}:{}",
                    hex(toks(&pd.ty).as_bytes()),
                    hex(toks(&s.path).as_bytes())
                ));
            }
            if s.rest.is_some() || s.dot2_token.is_some() {
                odd.push("?pd-rest".into());
            }
            for f in &s.fields {
                match &f.member {
                    syn::Member::Named(i) if f.colon_token.is_some() && f.attrs.is_empty() => {
                        fields.entry(i.to_string()).or_default().push(&f.expr)
                    }
                    _ => odd.push(format!("?pd-field:{}", &q(f)[1..])),
                }
            }
            let mut names: Vec<&String> = fields.keys().collect();
            names.sort();
            for n in names {
                if !["actions", "gotos", "token_kinds"].contains(&n.as_str()) {
                    odd.push(format!("?pd-extra-field:{n}"));
                } else if fields[n].len() > 1 {
                    odd.push(format!("?pd-duplicate-field:{n}"));
                }
            }
        }
    }
    let field = |n: &str| fields.get(n).and_then(|v| v.first().copied());

    if functions {
        let mut fns: HashMap<String, Vec<&syn::ItemFn>> = HashMap::new();
        for i in &file.items {
            if let Item::Fn(f) = i {
                fns.entry(f.sig.ident.to_string()).or_default().push(f);
            }
        }
        recs.extend(field_records("afn", field("actions"), &|e| {
            fn_record(e, &fns, &afn_arm, false)
        }));
        recs.extend(field_records("gfn", field("gotos"), &|e| {
            fn_record(e, &fns, &gfn_arm, true)
        }));
    } else {
        recs.extend(field_records("act", field("actions"), &|e| {
            row(e, &|cell| row(cell, &action_expr, ",", "."), ";", "~")
        }));
        recs.extend(field_records("goto", field("gotos"), &|e| {
            row(e, &goto_expr, ",", "~")
        }));
    }
    recs.extend(field_records("tk", field("token_kinds"), &|e| {
        row(e, &tk_expr, ",", "~")
    }));
    recs.extend(odd);
    recs.push(flags);
    recs.push(format!("impl {}", hex(impltext.as_bytes())));
    (recs.join(" | "), impltext)
}

// ---------------------------------------------------------------------------------------------
// jobs
// ---------------------------------------------------------------------------------------------

fn guarded<T>(f: impl FnOnce() -> T) -> Result<T, String> {
    LAST_PANIC.lock().unwrap().clear();
    match panic::catch_unwind(panic::AssertUnwindSafe(f)) {
        Ok(v) => Ok(v),
        Err(_) => Err(LAST_PANIC.lock().unwrap().clone()),
    }
}

fn run_job(id: &str, f: &[&str], work: &Path, out: &mut Vec<String>) {
    if f.len() != 13 || !(f[1] == "A" || f[1] == "F") {
        out.push(format!(
            "{id} status panic {}",
            hex(format!("vgen: malformed job line ({} fields)", f.len()).as_bytes())
        ));
        return;
    }
    let functions = f[1] == "F";

    // 1. fresh directory, grammar file; 2. settings
    let prep = guarded(|| -> Result<(PathBuf, String, Settings), String> {
        let text = unhex(f[12]);
        let dir = work.join(format!("j{id}"));
        if dir.exists() {
            fs::remove_dir_all(&dir).map_err(|e| format!("vgen: remove {dir:?}: {e}"))?;
        }
        fs::create_dir_all(&dir).map_err(|e| format!("vgen: create {dir:?}: {e}"))?;
        let dir = dir
            .canonicalize()
            .map_err(|e| format!("vgen: canonicalize {dir:?}: {e}"))?;
        fs::write(dir.join("gram.rustemo"), &text).map_err(|e| format!("vgen: write: {e}"))?;
        let settings = settings_from(&f[2..12])
            .builder_type(BuilderType::Generic)
            .generator_table_type(if functions {
                GeneratorTableType::Functions
            } else {
                GeneratorTableType::Arrays
            })
            .in_source_tree();
        Ok((dir, text, settings))
    });
    let (dir, text, settings) = match prep {
        Ok(Ok(x)) => x,
        Ok(Err(m)) | Err(m) => {
            out.push(format!("{id} status panic {}", hex(m.as_bytes())));
            return;
        }
    };
    let src = dir.join("gram.rs");

    // 2. the real generator
    let gen = guarded(|| settings.process_grammar(&dir.join("gram.rustemo")));
    // 3. the hook
    let dump = guarded(|| rustemo_compiler::verif::dump(&text, &settings));
    let request = match &dump {
        Ok(Ok(d)) => Some(format!("{id} request {}", d.trim_end().replace('\n', " | "))),
        _ => None,
    };

    let generated = match &gen {
        Err(m) => {
            out.push(format!("{id} status panic {}", hex(m.as_bytes())));
            false
        }
        Ok(Err(e)) => {
            out.push(format!("{id} status err {}", err_class(e)));
            false
        }
        Ok(Ok(())) => true,
    };
    if !generated {
        out.extend(request);
        return;
    }

    // 4. read back, parse, canonicalise
    let extracted = guarded(|| -> Result<(String, String), String> {
        let code = fs::read_to_string(&src).map_err(|e| format!("cannot read {src:?}: {e}"))?;
        let file = syn::parse_file(&code).map_err(|e| format!("syn: {e}"))?;
        Ok(extract(&file, functions))
    });
    let extracted = match extracted {
        Ok(r) => r,
        Err(m) => Err(format!("panic: {m}")),
    };
    match (&extracted, &dump) {
        (Err(m), _) => out.push(format!("{id} status extract-error {}", hex(m.as_bytes()))),
        (Ok(_), Err(m)) => out.push(format!(
            "{id} status panic {}",
            hex(format!("verif::dump: {m}").as_bytes())
        )),
        (Ok(_), _) => out.push(format!("{id} status ok")),
    }
    if src.exists() {
        out.push(format!("{id} src {}", src.display()));
    }
    out.extend(request);
    if let Ok((code, impltext)) = extracted {
        out.push(format!("{id} code {code}"));
        out.push(format!("{id} impltext {impltext}"));
    }
}

fn real_main() {
    let args: Vec<String> = std::env::args().collect();
    if args.len() != 4 {
        eprintln!("usage: vgen <jobs file> <out file> <work dir>");
        std::process::exit(2);
    }
    // `Settings::default` looks at these; the harness must behave the same under `cargo run`.
    std::env::remove_var("OUT_DIR");
    std::env::remove_var("CARGO_MANIFEST_DIR");

    let jobs = fs::read_to_string(&args[1]).expect("jobs file");
    let mut out = std::io::BufWriter::new(fs::File::create(&args[2]).expect("out file"));
    let work = PathBuf::from(&args[3]);
    fs::create_dir_all(&work).expect("work dir");

    panic::set_hook(Box::new(|info| {
        *LAST_PANIC.lock().unwrap() = format!("{info}");
    }));

    for line in jobs.lines() {
        if line.is_empty() {
            continue;
        }
        let f: Vec<&str> = line.split(' ').collect();
        let id = f[0];
        let mut lines: Vec<String> = vec![];
        if let Err(m) = guarded(|| run_job(id, &f, &work, &mut lines)) {
            lines.retain(|l| !l.starts_with(&format!("{id} status ")));
            lines.insert(0, format!("{id} status panic {}", hex(m.as_bytes())));
        }
        for l in lines {
            // one line each, whatever the content
            writeln!(out, "{}", l.replace(['\n', '\r'], " ")).unwrap();
        }
        out.flush().unwrap();
    }
    out.flush().unwrap();
}

fn main() {
    // deep grammars recurse deeply in the compiler
    let h = std::thread::Builder::new()
        .stack_size(256 << 20)
        .spawn(real_main)
        .unwrap();
    let _ = h.join();
}

#[cfg(test)]
mod tests {
    use super::*;

    const COMMON: &str = r#"
        use rustemo::Action::{self, Shift, Reduce, Accept};
        pub enum TokenKind { STOP, Ta }
        pub enum ProdKind { SP1 }
        pub enum NonTermKind { EMPTY, AUG, S }
        impl From<ProdKind> for NonTermKind {
            fn from(prod: ProdKind) -> Self { match prod { ProdKind::SP1 => NonTermKind::S, } }
        }
        pub enum State { AUGS0, TaS1 }
        impl StateT for State { fn default_layout() -> Option<Self> { Some(State::TaS1) } }
        impl ParserDefinition<State, ProdKind, TokenKind, NonTermKind> for XParserDefinition {
            fn longest_match() -> bool { true }
            fn grammar_order() -> bool { 1 == 1 }
        }
    "#;

    fn code(src: &str, functions: bool) -> (String, String) {
        let f = syn::parse_file(&format!("{COMMON}{src}")).unwrap();
        extract(&f, functions)
    }

    #[test]
    fn functions_shapes() {
        let (c, t) = code(
            r#"
            const STATE_COUNT: usize = 2usize;
            const TERMINAL_COUNT: usize = 1 + 1;
            type ActionFn = fn(token: TokenKind) -> Vec<Action<State, ProdKind>>;
            pub struct XParserDefinition { actions: [ActionFn; STATE_COUNT] }
            fn a0(token_kind: TokenKind) -> Vec<Action<State, ProdKind>> {
                match token_kind {
                    TK::Ta => Vec::from(&[Shift(State::TaS1), Reduce(PK::SP1, 1usize), Accept, Error, Foo]),
                    TK::STOP => Vec::from(&[]),
                    TK::Ta if true => Vec::from(&[]),
                    TokenKind::Ta => Vec::from(&[]),
                    _ => vec![],
                    _ => vec![1],
                }
            }
            fn dup(t: TokenKind) -> u8 { match t { _ => vec![] } }
            fn dup(t: TokenKind) -> u8 { match t { _ => vec![] } }
            fn other(t: TokenKind) -> u8 { match u { _ => vec![] } }
            fn g0(nonterm_kind: NonTermKind) -> State {
                match nonterm_kind {
                    NonTermKind::S => State::TaS1,
                    _ => { panic!("x {:?}", State::AUGS0) }
                    _ => panic!("y"),
                    _ => { panic!("y"); }
                    _ => State::TaS1,
                }
            }
            fn goto_invalid(_nonterm_kind: NonTermKind) -> State { panic!("Invalid GOTO entry!"); }
            pub(crate) static PARSER_DEFINITION: XParserDefinition = XParserDefinition {
                actions: [a0, missing, dup, other, a::b],
                gotos: [g0, goto_invalid],
                token_kinds: [[Some((TK::Ta, true)), Some((TK::STOP, false)), None, Some(TK::Ta)], []],
            };
            "#,
            true,
        );
        let recs: Vec<&str> = c.split(" | ").collect();
        assert_eq!(recs[0], "F");
        assert_eq!(
            recs[1],
            format!("const STATE_COUNT=2 MAX_RECOGNIZERS=? TERMINAL_COUNT=?{}", hex(b"1 + 1"))
        );
        assert_eq!(recs[2], "enum State AUGS0 TaS1");
        assert_eq!(recs[6], "from SP1>S");
        assert_eq!(recs[7], "layout TaS1");
        let arms: Vec<&str> = recs[8].strip_prefix("afn 0 ").unwrap().split(';').collect();
        assert_eq!(arms[0], format!("Ta=>S:TaS1,R:SP1:1,A,E,?{}", hex(b"Foo")));
        assert_eq!(arms[1], "STOP=>.");
        assert!(arms[2].starts_with('?') && arms[3].starts_with('?'));
        assert_eq!(arms[4], "_");
        assert!(arms[5].starts_with('?'));
        assert_eq!(recs[9], "afn 1 ?undefined:missing");
        assert_eq!(recs[10], "afn 2 ?duplicate:dup");
        assert!(recs[11].starts_with("afn 3 ?") && !recs[11].contains(':'));
        assert_eq!(recs[12], format!("afn 4 ?{}", hex(b"a :: b")));
        let arms: Vec<&str> = recs[13].strip_prefix("gfn 0 ").unwrap().split(';').collect();
        assert_eq!(&arms[..4], &["S>TaS1", "_!", "_!", "_!"]);
        assert!(arms[4].starts_with('?'));
        assert_eq!(recs[14], "gfn 1 invalid");
        assert_eq!(
            recs[15],
            format!("tk 0 Ta:1,STOP:0,-,?{}", hex(b"Some (TK :: Ta)"))
        );
        assert_eq!(recs[16], "tk 1 ~");
        assert_eq!(recs[17], format!("impl {}", hex(t.as_bytes())));
        assert!(t.contains("fn longest_match () -> bool { @LM@ }"));
        assert!(t.contains("fn grammar_order () -> bool { 1 == 1 }"));
        assert!(t.contains("pub struct DEF {") && t.contains("for DEF {"));
        assert!(t.contains(" ## type ActionFn = ") && t.contains(" ## fn goto_invalid ("));
    }

    #[test]
    fn arrays_shapes() {
        let (c, t) = code(
            r#"
            use rustemo::Action::Error;
            const MAX_ACTIONS: usize = 2usize;
            pub struct XParserDefinition { }
            fn goto_invalid(_nonterm_kind: NonTermKind) -> State { panic!("Invalid GOTO entry!"); }
            pub(crate) static PARSER_DEFINITION: XParserDefinition = YParserDefinition {
                actions: [[[Error, Error], [Shift(State::TaS1), Reduce(PK::SP1, 0usize)], []], [], 7],
                gotos: [[None, Some(State::TaS1), Some(TaS1)]],
                more: 1,
            };
            "#,
            false,
        );
        let recs: Vec<&str> = c.split(" | ").collect();
        assert_eq!(
            recs[1],
            "const TERMINAL_COUNT=? NONTERMINAL_COUNT=? STATE_COUNT=? MAX_ACTIONS=2 MAX_RECOGNIZERS=?"
        );
        assert_eq!(recs[8], "act 0 E,E;S:TaS1,R:SP1:0;.");
        assert_eq!(recs[9], "act 1 ~");
        assert_eq!(recs[10], format!("act 2 ?{}", hex(b"7")));
        assert_eq!(recs[11], format!("goto 0 -,TaS1,?{}", hex(b"Some (TaS1)")));
        assert_eq!(recs[12], "tk ?missing-field");
        assert!(recs[13].starts_with("?pd-type:"));
        assert_eq!(recs[14], "?pd-extra-field:more");
        assert!(!t.contains("goto_invalid") && t.contains("use rustemo :: Action :: Error ;"));
    }

    #[test]
    fn no_static() {
        assert_eq!(code("", true).0, "?no-parser-definition");
    }
}
