//! astgen — harness of properties C10 / C11: lets the REAL compiler generate batches of parsers.
//!
//! usage: astgen <jobs file> <out file>
//!
//! One job per line:
//!     <id> <cell dir> <grammar text, hex> <LR|GLR> <D|G|C builder> <A|F table> <loc 0|1> <fancy 0|1> <D|C lexer> [<-|LALR|PAGER|RN table type>]
//!
//! Per job the harness creates `<cell dir>`, writes `<cell dir>/g.rustemo` and runs the real
//! `rustemo_compiler::Settings` chain (`parser_algo`, `builder_type`, `generator_table_type`,
//! `builder_loc_info`, `fancy_regex`, `lexer_type`, `force(true)`, `process_grammar`), so that the
//! compiler writes `g.rs` (and `g_actions.rs` for the default builder) next to the grammar, exactly as
//! a `build.rs` with `in_source_tree` would.
//!
//! Output lines:
//!     <id> status ok | rejected <hex message> | panic <hex message>
//!     <id> dump <grammar part of the verif hook dump, records joined by '|'>      (status ok only)
//!     <id> skel <type and fn items of the generated g_actions.rs, canonical, joined by ';'>   (default builder)
//!     <id> arms <every call `g_actions::f(args)` of the generated g.rs in file order, joined by ';'>
//!
//! Canonical items (no blanks): `T:Name=Type`, `S:Name{field:Type,...}`, `E:Name{Variant(Type),Variant,...}`,
//! `F:name(param:Type,...)->Type` (the leading `_ctx: &Ctx` parameter is dropped; `mut param` for a `mut` binding). The header items
//! `Input`, `Ctx`, `Token` are skipped.
use std::{fs, io::Write, panic, path::PathBuf};

use rustemo_compiler::{BuilderType, GeneratorTableType, LexerType, ParserAlgo, Settings, TableType};

fn hex(s: &str) -> String {
    if s.is_empty() {
        return "=".into();
    }
    s.bytes().map(|b| format!("{b:02x}")).collect()
}

fn unhex(s: &str) -> String {
    if s == "=" {
        return String::new();
    }
    let b: Vec<u8> = (0..s.len() / 2)
        .map(|i| u8::from_str_radix(&s[2 * i..2 * i + 2], 16).unwrap_or(b'?'))
        .collect();
    String::from_utf8_lossy(&b).to_string()
}

fn settings(f: &[&str]) -> Settings {
    let mut s = Settings::new();
    s = s.parser_algo(if f[0] == "GLR" { ParserAlgo::GLR } else { ParserAlgo::LR });
    // explicit LR table type, after `parser_algo` (which selects LALR_RN for GLR): `-` keeps the default
    match f.get(6).copied().unwrap_or("-") {
        "LALR" => s = s.table_type(TableType::LALR),
        "PAGER" => s = s.table_type(TableType::LALR_PAGER),
        "RN" => s = s.table_type(TableType::LALR_RN),
        _ => {}
    }
    s = s.builder_type(match f[1] {
        "G" => BuilderType::Generic,
        "C" => BuilderType::Custom,
        _ => BuilderType::Default,
    });
    s = s.generator_table_type(if f[2] == "A" { GeneratorTableType::Arrays } else { GeneratorTableType::Functions });
    s = s.builder_loc_info(f[3] == "1");
    s = s.fancy_regex(f[4] == "1");
    s = s.lexer_type(if f[5] == "C" { LexerType::Custom } else { LexerType::Default });
    s.force(true)
}

fn panic_text(e: Box<dyn std::any::Any + Send>) -> String {
    if let Some(s) = e.downcast_ref::<&str>() {
        s.to_string()
    } else if let Some(s) = e.downcast_ref::<String>() {
        s.clone()
    } else {
        "?".into()
    }
}

fn ty(t: &syn::Type) -> String {
    quote::ToTokens::to_token_stream(t).to_string().replace(' ', "")
}

/// canonical rendering of the items of the generated actions file
fn skeleton(path: &std::path::Path) -> Option<String> {
    let text = fs::read_to_string(path).ok()?;
    let file = syn::parse_file(&text).ok()?;
    let mut out: Vec<String> = vec![];
    for item in &file.items {
        match item {
            syn::Item::Type(t) => {
                let n = t.ident.to_string();
                if n == "Input" || n == "Ctx" || n == "Token" {
                    continue;
                }
                out.push(format!("T:{}={}", n, ty(&t.ty)));
            }
            syn::Item::Struct(s) => {
                let fields: Vec<String> = s
                    .fields
                    .iter()
                    .map(|f| format!("{}:{}", f.ident.as_ref().map_or("_".to_string(), |i| i.to_string()), ty(&f.ty)))
                    .collect();
                out.push(format!("S:{}{{{}}}", s.ident, fields.join(",")));
            }
            syn::Item::Enum(e) => {
                let vs: Vec<String> = e
                    .variants
                    .iter()
                    .map(|v| {
                        let tys: Vec<String> = v.fields.iter().map(|f| ty(&f.ty)).collect();
                        if tys.is_empty() {
                            v.ident.to_string()
                        } else {
                            format!("{}({})", v.ident, tys.join(","))
                        }
                    })
                    .collect();
                out.push(format!("E:{}{{{}}}", e.ident, vs.join(",")));
            }
            syn::Item::Fn(f) => {
                let mut ps: Vec<String> = vec![];
                for (i, a) in f.sig.inputs.iter().enumerate() {
                    if let syn::FnArg::Typed(p) = a {
                        let (name, mutable) = match &*p.pat {
                            syn::Pat::Ident(pi) => (pi.ident.to_string(), pi.mutability.is_some()),
                            _ => ("_".to_string(), false),
                        };
                        if i == 0 && name == "_ctx" {
                            continue;
                        }
                        let name = if mutable { format!("mut {name}") } else { name };
                        ps.push(format!("{}:{}", name, ty(&p.ty)));
                    }
                }
                let ret = match &f.sig.output {
                    syn::ReturnType::Default => "()".to_string(),
                    syn::ReturnType::Type(_, t) => ty(t),
                };
                out.push(format!("F:{}({})->{}", f.sig.ident, ps.join(","), ret));
            }
            _ => {}
        }
    }
    Some(out.join(";"))
}

/// every `g_actions::name(args)` call of the generated parser, in file order
fn arms(path: &std::path::Path) -> Option<String> {
    let text = fs::read_to_string(path).ok()?;
    let b = text.as_bytes();
    let pat = b"g_actions::";
    let mut out: Vec<String> = vec![];
    let mut i = 0;
    while i + pat.len() < b.len() {
        if &b[i..i + pat.len()] == pat {
            let mut j = i + pat.len();
            let s = j;
            while j < b.len() && (b[j].is_ascii_alphanumeric() || b[j] == b'_') {
                j += 1;
            }
            let name = &text[s..j];
            let mut k = j;
            while k < b.len() && b[k].is_ascii_whitespace() {
                k += 1;
            }
            if k < b.len() && b[k] == b'(' && name.chars().next().map_or(false, |c| c.is_ascii_lowercase() || c == '_') {
                let mut depth = 0;
                let mut e = k;
                while e < b.len() {
                    if b[e] == b'(' {
                        depth += 1;
                    } else if b[e] == b')' {
                        depth -= 1;
                        if depth == 0 {
                            break;
                        }
                    }
                    e += 1;
                }
                let args: String = text[k + 1..e].chars().filter(|c| !c.is_whitespace()).collect();
                let args = args.trim_end_matches(',').to_string();
                out.push(format!("{}({})", name, args));
                i = e;
                continue;
            }
            i = j;
            continue;
        }
        i += 1;
    }
    Some(out.join(";"))
}

fn main() {
    let args: Vec<String> = std::env::args().collect();
    let jobs = fs::read_to_string(&args[1]).expect("jobs file");
    let mut out = fs::File::create(&args[2]).expect("out file");
    panic::set_hook(Box::new(|_| {}));
    for line in jobs.lines() {
        let f: Vec<&str> = line.split(' ').collect();
        if f.len() != 9 && f.len() != 10 {
            continue;
        }
        let id = f[0];
        let dir = PathBuf::from(f[1]);
        let text = unhex(f[2]);
        let _ = fs::create_dir_all(&dir);
        let gpath = dir.join("g.rustemo");
        if fs::write(&gpath, &text).is_err() {
            let _ = writeln!(out, "{id} status panic {}", hex("cannot write grammar"));
            continue;
        }
        let st = settings(&f[3..]);
        let st2 = st.clone();
        let gp = gpath.clone();
        let res = panic::catch_unwind(move || st2.process_grammar(&gp));
        match res {
            Err(e) => {
                let _ = writeln!(out, "{id} status panic {}", hex(&panic_text(e)));
            }
            Ok(Err(e)) => {
                let _ = writeln!(out, "{id} status rejected {}", hex(&format!("{e}")));
            }
            Ok(Ok(())) => {
                let _ = writeln!(out, "{id} status ok");
                let t2 = text.clone();
                let st3 = st.clone();
                if let Ok(Ok(d)) = panic::catch_unwind(move || rustemo_compiler::verif::dump(&t2, &st3)) {
                    let keep: Vec<&str> = d
                        .lines()
                        .filter(|l| {
                            ["settings ", "grammar ", "term ", "nonterm ", "prod ", "rn "].iter().any(|p| l.starts_with(p))
                        })
                        .collect();
                    let _ = writeln!(out, "{id} dump {}", keep.join("|"));
                }
                if f[4] == "D" {
                    if let Some(sk) = skeleton(&dir.join("g_actions.rs")) {
                        let _ = writeln!(out, "{id} skel {}", sk);
                    }
                    if let Some(a) = arms(&dir.join("g.rs")) {
                        let _ = writeln!(out, "{id} arms {}", a);
                    }
                }
            }
        }
    }
}
