//! astgen — harness of properties C10 / C11: lets the REAL compiler generate batches of parsers.
//!
//! usage: astgen <jobs file> <out file>
//!
//! One job per line:
//!     <id> <cell dir> <grammar text, hex> <LR|GLR> <D|G|C builder> <A|F table> <loc 0|1> <fancy 0|1> <D|C lexer>
//!
//! Per job the harness creates `<cell dir>`, writes `<cell dir>/g.rustemo` and runs the real
//! `rustemo_compiler::Settings` chain (`parser_algo`, `builder_type`, `generator_table_type`,
//! `builder_loc_info`, `fancy_regex`, `lexer_type`, `force(true)`, `process_grammar`), so that the
//! compiler writes `g.rs` (and `g_actions.rs` for the default builder) next to the grammar, exactly as
//! a `build.rs` with `in_source_tree` would.
//!
//! Output lines:
//!     <id> status ok | rejected <hex message> | panic <hex message>
//!     <id> dump <grammar part of the verif hook dump, records joined by '|'>      (status ok only)
use std::{fs, io::Write, panic, path::PathBuf};

use rustemo_compiler::{BuilderType, GeneratorTableType, LexerType, ParserAlgo, Settings};

fn hex(s: &str) -> String {
    if s.is_empty() {
        return "=".into();
    }
    s.bytes().map(|b| format!("{b:02x}")).collect()
}

fn unhex(s: &str) -> String {
    if s == "=" {
        return String::new();
    }
    let b: Vec<u8> = (0..s.len() / 2)
        .map(|i| u8::from_str_radix(&s[2 * i..2 * i + 2], 16).unwrap_or(b'?'))
        .collect();
    String::from_utf8_lossy(&b).to_string()
}

fn settings(f: &[&str]) -> Settings {
    let mut s = Settings::new();
    s = s.parser_algo(if f[0] == "GLR" { ParserAlgo::GLR } else { ParserAlgo::LR });
    s = s.builder_type(match f[1] {
        "G" => BuilderType::Generic,
        "C" => BuilderType::Custom,
        _ => BuilderType::Default,
    });
    s = s.generator_table_type(if f[2] == "A" { GeneratorTableType::Arrays } else { GeneratorTableType::Functions });
    s = s.builder_loc_info(f[3] == "1");
    s = s.fancy_regex(f[4] == "1");
    s = s.lexer_type(if f[5] == "C" { LexerType::Custom } else { LexerType::Default });
    s.force(true)
}

fn panic_text(e: Box<dyn std::any::Any + Send>) -> String {
    if let Some(s) = e.downcast_ref::<&str>() {
        s.to_string()
    } else if let Some(s) = e.downcast_ref::<String>() {
        s.clone()
    } else {
        "?".into()
    }
}

fn main() {
    let args: Vec<String> = std::env::args().collect();
    let jobs = fs::read_to_string(&args[1]).expect("jobs file");
    let mut out = fs::File::create(&args[2]).expect("out file");
    panic::set_hook(Box::new(|_| {}));
    for line in jobs.lines() {
        let f: Vec<&str> = line.split(' ').collect();
        if f.len() != 9 {
            continue;
        }
        let id = f[0];
        let dir = PathBuf::from(f[1]);
        let text = unhex(f[2]);
        let _ = fs::create_dir_all(&dir);
        let gpath = dir.join("g.rustemo");
        if fs::write(&gpath, &text).is_err() {
            let _ = writeln!(out, "{id} status panic {}", hex("cannot write grammar"));
            continue;
        }
        let st = settings(&f[3..]);
        let st2 = st.clone();
        let gp = gpath.clone();
        let res = panic::catch_unwind(move || st2.process_grammar(&gp));
        match res {
            Err(e) => {
                let _ = writeln!(out, "{id} status panic {}", hex(&panic_text(e)));
            }
            Ok(Err(e)) => {
                let _ = writeln!(out, "{id} status rejected {}", hex(&format!("{e}")));
            }
            Ok(Ok(())) => {
                let _ = writeln!(out, "{id} status ok");
                let t2 = text.clone();
                let st3 = st.clone();
                if let Ok(Ok(d)) = panic::catch_unwind(move || rustemo_compiler::verif::dump(&t2, &st3)) {
                    let keep: Vec<&str> = d
                        .lines()
                        .filter(|l| {
                            ["settings ", "grammar ", "term ", "nonterm ", "prod ", "rn "].iter().any(|p| l.starts_with(p))
                        })
                        .collect();
                    let _ = writeln!(out, "{id} dump {}", keep.join("|"));
                }
            }
        }
    }
}
