import Rustemo.Model.Basic
import Rustemo.Model.Dump
import Rustemo.Model.LR
import Rustemo.Model.Print
import Rustemo.Model.Cert
