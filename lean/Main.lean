import Rustemo.Model.Dump
import Rustemo.Model.Print
import Rustemo.Model.Cert
import Rustemo.Driver.Regen
import Rustemo.Driver.Cli
import Rustemo.Driver.Resolve
import Rustemo.Driver.Gen
import Rustemo.Driver.Front
import Rustemo.Driver.Ast
import Rustemo.Driver.Glr
import Rustemo.Driver.LayoutRT
import Rustemo.Driver.Table
import Rustemo.Model.CertTerm
import Rustemo.Model.Canon
import Rustemo.Model.CertComplete
import Rustemo.Model.Core
import Rustemo.Model.Lex
import Rustemo.Model.Forest
import Rustemo.Model.CertViable
import Rustemo.Model.LexTok
/-!
Line-protocol driver: one request per line on stdin, one answer per line on stdout.

  load <dump records separated by |>          → loaded <nstates>
  lr <partial 0/1> <input-hex> # <matrix>     → ok <tree> | err … | panic … | timeout
-/
open Rustemo

structure DState where
  dump : Dump := {}

def envOf (d : Dump) (input : List Nat) (m : Nat → Nat → Option Nat) : Env :=
  { g := d.grammar, t := d.table, input := input, recog := m,
    skipWs := d.settings.skipWs && d.table.layoutState.isNone, longest := d.settings.longestMatch,
    grammarOrder := d.settings.grammarOrder }

def handle (st : DState) (line : String) : DState × String :=
  let (cmd, rest) := match line.splitOn " " with
    | c :: r => (c, " ".intercalate r)
    | [] => ("", "")
  match cmd with
  | "load" =>
    let d := Dump.parse rest
    ({ st with dump := d }, s!"loaded {d.table.states.size}")
  | "cert" =>
    match fields rest with
    | ["structural", _, _] =>
      (st, if Cert.structural st.dump.grammar st.dump.table (autosOf st.dump.grammar st.dump.table) then "1" else "0")
    | ["lr-total"] => (st, if Cert.lr st.dump.grammar st.dump.table then "1" else "0")
    | ["lexsorted"] =>
      -- every state's sorted_terminals list is `withFlags` of a key-sorted list (C06 hypotheses)
      let g := st.dump.grammar
      let ms := st.dump.settings.mostSpecific
      let ok := st.dump.table.states.all fun state =>
        let descs : List Lex.TermDesc := state.sorted.map fun (k, _) =>
          match g.terms[k]? with
          | some tm =>
            ⟨k, tm.prio, match tm.recog with
              | some (.str s) => some s.utf8ByteSize
              | _ => none⟩
          | none => ⟨k, 0, none⟩
        let cells := (List.range g.nterms).filter fun a => !(state.actions.getD a []).isEmpty
        Lex.sortedOk ms descs state.sorted &&
          (state.sorted.map (·.1)).all (cells.contains ·) && cells.all ((state.sorted.map (·.1)).contains ·)
      (st, if ok then "1" else "0")
    | ["c01"] =>
      let g := st.dump.grammar
      let t := st.dump.table
      (st, if Cert.structural g t (autosOf g t) && Cert.complete g t && Cert.acceptStop t then "1" else "0")
    | ["complete"] => (st, if Cert.complete st.dump.grammar st.dump.table then "1" else "0")
    | ["complete-parts"] =>
      let g := st.dump.grammar
      let t := st.dump.table
      let c := Canon.mkCtx g
      let b := fun (x : Bool) => if x then "1" else "0"
      (st, s!"first={b (Cert.firstOk g c)} closure={b (Cert.closureOk g c t)} trans={b (Cert.transOk g t)} reduce={b (Cert.reduceOk g t)} det={b (Cert.detOk t)} grammar={b (Cert.grammarOk g t)}")
    | ["noshiftstop"] => (st, if Cert.noShiftStop st.dump.table then "1" else "0")
    | ["terminating"] => (st, if Cert.terminating st.dump.grammar st.dump.table then "1" else "0")
    | ["termbound", n] => (st, toString (Cert.termBound st.dump.grammar st.dump.table (natOf n)))
    | ["productive"] => (st, if Cert.productive st.dump.grammar then "1" else "0")
    | ["viable"] =>
      let g := st.dump.grammar
      let t := st.dump.table
      let b := fun (x : Bool) => if x then "1" else "0"
      (st, s!"productive={b (Cert.productive g)} anchored={b (Cert.anchored g t (autosOf g t))} nonempty={b (Cert.targetsNonEmpty t)}")
    | ["singlechar"] => (st, if Cert.singleCharLexer st.dump.grammar st.dump.table then "1" else "0")
    | _ => (st, "bad-request")
  | "tlr" =>
    -- token-level LR parser (Model/Core.lean `tparse`) on a comma separated list of token kinds
    let w := if rest.trimAscii.toString == "-" then [] else (rest.trimAscii.toString.splitOn ",").map natOf
    let r := tparse st.dump.grammar st.dump.table w (1000 + 50 * w.length)
    (st, match r with
      | .accept _ => "accept"
      | .error k _ => s!"error {w.length - k}"
      | .panic s => "panic " ++ s
      | .fuel => "fuel")
  | "cover" =>
    match fields rest with
    | [s0, aug, rn] =>
      let r := Cover.check st.dump.grammar st.dump.table (natOf s0) (natOf aug) (rn == "1") 5000
      (st, (if r.ok then "ok" else "fail") ++ s!" pairs={r.pairs} canon={r.canonStates} {r.why}")
    | _ => (st, "bad-request")
  | "gen" => (st, Rustemo.Gen.handleGen rest)
  | "resolve" => (st, handleResolve rest)
  | "forest" => (st, Rustemo.Forest.handleForest rest)
  | "cli" => (st, handleCli rest)
  | "regen" => (st, Rustemo.Regen.handleRegen rest)
  | "front" => (st, Rustemo.Front.handleFront rest)
  | "ast" => (st, Rustemo.Ast.handleAst rest)
  | "glr" => (st, Rustemo.Glr.handleGlr st.dump rest)
  | "layoutcert" => (st, Rustemo.LayoutRT.handleLayoutCert st.dump rest)
  | "table" => (st, Rustemo.Table.handleTable st.dump rest)
  | "charenv" =>
    -- hypothesis `CharEnv` of the byte/token simulation for one input: `charenv <input-hex> #<matrix>`
    match rest.splitOn " #" with
    | [inp, mat] =>
      (st, if charEnvOk (envOf st.dump (unhexBytes inp.trimAscii.toString) (parseMatrix mat)) then "1" else "0")
    | _ => (st, "bad-request")
  | "rawdet" => (st, if st.dump.table.rawDeterministic st.dump.grammar then "1" else "0")
  | "lr" =>
    match rest.splitOn " #" with
    | [req, mat] =>
      match fields req with
      | [pp, inp, lexer] =>
        let input := unhexBytes inp
        let custom : Option (Nat × Nat) := match lexer.splitOn "," with
          | [m, sd] => some (natOf m, natOf sd)
          | _ => none
        let env := { envOf st.dump input (parseMatrix mat) with custom := custom }
        let fuel := if Cert.terminating st.dump.grammar st.dump.table then max (2000 + 200 * input.length) (Cert.termBound st.dump.grammar st.dump.table input.length) else 2000 + 200 * input.length
        let (_, o) := parse env (pp == "1") fuel
        (st, renderOutcome o)
      | [pp, inp] =>
        let input := unhexBytes inp
        let env := envOf st.dump input (parseMatrix mat)
        let fuel := if Cert.terminating st.dump.grammar st.dump.table then max (2000 + 200 * input.length) (Cert.termBound st.dump.grammar st.dump.table input.length) else 2000 + 200 * input.length
        let (_, o) := parse env (pp == "1") fuel
        (st, renderOutcome o)
      | _ => (st, "bad-request")
    | _ => (st, "bad-request")
  | _ => (st, "bad-request")

partial def loop (h : IO.FS.Stream) (out : IO.FS.Stream) (st : DState) : IO Unit := do
  let line ← h.getLine
  if line.isEmpty then return ()
  let line := (line.dropEndWhile (fun c => c == '\n' || c == '\r')).toString
  let (st', ans) := handle st line
  out.putStrLn ans
  loop h out st'

def main : IO Unit := do
  let out ← IO.getStdout
  loop (← IO.getStdin) out {}
  out.flush
