import Rustemo.Model.LR
import Rustemo.Model.Cert
/-! A concrete grammar/table/input used by the non-vacuity `example`s next to the property theorems:
`S: 'a' S | EMPTY` hand-compiled (the table is what rustemo builds for it, LALR). -/
namespace Rustemo.Example

/-- terminals STOP(0) a(1); nonterminals EMPTY(2) AUG(3) S(4); prods 0: AUG→S, 1: S→a S, 2: S→ε -/
def g : Grammar :=
  { nterms := 2, nnonterms := 3,
    prods := #[{ lhs := 3, rhs := [4] }, { lhs := 4, rhs := [1, 4] }, { lhs := 4, rhs := [] }],
    emptyIdx := 2, augIdx := 3, startIdx := 4 }

def t : Table :=
  { states := #[
      { symbol := 3, items := [⟨0, 0, [0]⟩, ⟨1, 0, [0]⟩, ⟨2, 0, [0]⟩],
        actions := #[[.reduce 2 0], [.shift 1]], gotos := #[none, none, some 2],
        sorted := [(0, false), (1, true)] },
      { symbol := 1, items := [⟨1, 1, [0]⟩, ⟨1, 0, [0]⟩, ⟨2, 0, [0]⟩],
        actions := #[[.reduce 2 0], [.shift 1]], gotos := #[none, none, some 3],
        sorted := [(0, false), (1, true)] },
      { symbol := 4, items := [⟨0, 1, [0]⟩],
        actions := #[[.accept], []], gotos := #[none, none, none], sorted := [(0, false)] },
      { symbol := 4, items := [⟨1, 2, [0]⟩],
        actions := #[[.reduce 1 2], []], gotos := #[none, none, none], sorted := [(0, false)] }] }

/-- input "a a" (bytes) with the recognizers 'a' and STOP -/
def input : List Nat := [97, 32, 97]
def recog (term pos : Nat) : Option Nat :=
  if term = 1 then (if input[pos]? = some 97 then some 1 else none)
  else if term = 0 then (if pos = input.length then some 0 else none)
  else none

def env : Env := { g := g, t := t, input := input, recog := recog }

def isOk : Outcome ParseResult → Bool
  | .ok _ => true
  | _ => false

end Rustemo.Example
