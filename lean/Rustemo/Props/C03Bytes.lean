import Rustemo.Props.C12Glr
import Rustemo.Props.C01
import Rustemo.Proofs.GlrLexDet
import Rustemo.Proofs.GlrLexDetWs
import Rustemo.Proofs.LexTokExample
/-!
# C03 / C07 / C12 (GLR) at the byte level: the lexer hypothesis `LexDet` discharged

The completeness-type theorems of the GLR engine (`C03_engine_complete`, Props/C07.lean, Props/C12Glr.lean) carry the
token-level lexer HYPOTHESIS `LexDet`.  For the grammars the checks generate — every terminal a string recognizer
of ONE ASCII character, pairwise distinct, no Layout rule — `LexDet` is PROVED of the lexer model
(`Proofs/GlrLexDet.lean::lexDet_bytes`: `find_lookaheads` = `lexNext` + longest-match / grammar-order filters), so
the theorems below have executable hypotheses only:

* table: `Cert.glr`, `Cert.completeRN` (`Cert.viable` for the error theorem) — as before;
* grammar / table: `Cert.singleCharLexer env.g env.t` (the certificate of the LR half, Model/LexTok.lean: one-character
  string terminals, distinct; `sorted_terminals` of a state = its terminals with actions; NO Layout rule);
* run: `charEnvOk env` (default string lexer; recognizer matrix = those recognizers on the input; whitespace skipping
  off, or on with no whitespace byte in the input — the same restriction as `C01_bytes_accept_exactly_checked`),
  `lexUniqueOk env` (grammar-order filter on, or no state lists a terminal twice in `sorted_terminals`) and — only
  where the input is not already assumed to be a sentence — `knownBytes env.g env.input` (every byte is a terminal's
  character).  `glrCharEnvOk env` is the conjunction of the three.
* FULL parse only (`partialParse = false`): with partial parsing `LexDet` is false of the lexer (a state without an
  action on the next token but with one on STOP is offered a synthetic STOP, `stopOrNone`).

The token string is `tokensOf env.g env.input = input.map (charToTerm g)` (one token per byte), the positions are
`bytePos env k` (byte offset `k`).  The second part of the file ("with whitespace between the tokens") drops the
whitespace restriction of `charEnvOk` on the GLR side: hypotheses `charEnvWsOk`, `knownToks`, token string
`tokensOfWs`.  Not claimed: termination (fuel); inputs with a byte that is no terminal's character (for the `ok` /
error theorems), partial parsing, Layout rules, multi-character or regex terminals, user lexers.
-/
namespace Rustemo.Props.C03Bytes
open Rustemo Rustemo.Glr Rustemo.Props.C01 Rustemo.Props.C03 Rustemo.Props.C07 Rustemo.Props.C12Glr

/-- the `LexDet` instance of a byte input, from the executable checks -/
theorem lexDet_checked (env : Env) (hlex : Cert.singleCharLexer env.g env.t = true) (henv : charEnvOk env = true)
    (hknown : knownBytes env.g env.input = true) (huniq : lexUniqueOk env = true) (fuel : Nat) :
    LexDet env false fuel env.input.length (byteTok env) (bytePos env) (bytePos env) ∧
    kinds env.input.length (byteTok env) = tokensOf env.g env.input :=
  ⟨lexDet_bytes env (Cert.singleCharLexer_sound _ _ hlex) (charEnvOk_sound env henv) hknown
    (lexUniqueOk_sound env huniq) fuel, byteTok_kinds env⟩

theorem kinds_bytes_take (env : Env) {k : Nat} (hk : k ≤ env.input.length) :
    kinds k (byteTok env) = (tokensOf env.g env.input).take k := by
  rw [← byteTok_kinds env]
  exact (kinds_take (byteTok env) hk).symm

/-- **C03 (d) at the byte level: completeness of the GLR engine, no lexer hypothesis.**  Certified right-nulled table
    of a single-character grammar, string lexer on the bytes: if the tokens of the input are a sentence with derivation
    tree `full`, `Glr.parse` (full parse, any fuel) does not return an error and every result with an acyclic SPPF
    contains `full` modulo elision. -/
theorem C03_bytes_engine_complete (env : Env) (hcert : Cert.glr env.g env.t = true)
    (hcomp : Cert.completeRN env.g env.t = true) (hlex : Cert.singleCharLexer env.g env.t = true)
    (henv : charEnvOk env = true) (huniq : lexUniqueOk env = true) (fuel : Nat)
    (full : Tree) (hv : full.Valid env.g env.g.startIdx) (hy : full.yield = tokensOf env.g env.input) :
    (∀ e, Glr.parse env false fuel ≠ .err e) ∧
    ∀ r, Glr.parse env false fuel = .ok r → r.droots.hasCut = false →
      ∃ i tr, r.getTree i = some tr ∧ Tree.EqElide full tr := by
  have hknown := knownBytes_of_sentence (g := env.g) (input := env.input) ⟨full, hv, hy⟩
  obtain ⟨hL, hk⟩ := lexDet_checked env hlex henv hknown huniq fuel
  exact C03_engine_complete env hcert hcomp false fuel _ _ _ _ hL full hv (by rw [hy, ← hk]; rfl)

/-- **Sentences never error (GLR, bytes).** -/
theorem C12_glr_bytes_sentences_never_error (env : Env) (hcert : Cert.glr env.g env.t = true)
    (hcomp : Cert.completeRN env.g env.t = true) (hlex : Cert.singleCharLexer env.g env.t = true)
    (henv : charEnvOk env = true) (huniq : lexUniqueOk env = true) (fuel : Nat)
    (hs : Sentence env.g (tokensOf env.g env.input)) : ∀ e, Glr.parse env false fuel ≠ .err e := by
  obtain ⟨full, hv, hy⟩ := hs
  exact (C03_bytes_engine_complete env hcert hcomp hlex henv huniq fuel full hv hy).1

/-- **`ok` only on a sentence, never with an empty forest (GLR, bytes).**  `knownBytes`: every input byte is a
    terminal's character (an input with another byte is outside `LexDet`). -/
theorem C12_glr_bytes_ok_only_on_sentence (env : Env) (hcert : Cert.glr env.g env.t = true)
    (hcomp : Cert.completeRN env.g env.t = true) (hlex : Cert.singleCharLexer env.g env.t = true)
    (henv : charEnvOk env = true) (hknown : knownBytes env.g env.input = true) (huniq : lexUniqueOk env = true)
    (fuel : Nat) (r : GlrResult) (hr : Glr.parse env false fuel = .ok r) :
    Sentence env.g (tokensOf env.g env.input) ∧ r.roots ≠ [] := by
  obtain ⟨hL, hk⟩ := lexDet_checked env hlex henv hknown huniq fuel
  rw [← hk]
  exact C12_glr_ok_only_on_sentence env hcert hcomp false fuel _ _ _ _ hL r hr

/-- a forest from which a tree can be taken ⇒ sentence (GLR, bytes) -/
theorem C12_glr_bytes_nonsentence_not_accepted (env : Env) (hcert : Cert.glr env.g env.t = true)
    (hcomp : Cert.completeRN env.g env.t = true) (hlex : Cert.singleCharLexer env.g env.t = true)
    (henv : charEnvOk env = true) (hknown : knownBytes env.g env.input = true) (huniq : lexUniqueOk env = true)
    (fuel : Nat) (r : GlrResult) (hr : Glr.parse env false fuel = .ok r) (i : Nat) (tr : Tree)
    (_hi : r.getTree i = some tr) : Sentence env.g (tokensOf env.g env.input) :=
  (C12_glr_bytes_ok_only_on_sentence env hcert hcomp hlex henv hknown huniq fuel r hr).1

/-- **A non-sentence is answered with an error (GLR, bytes)** — whenever the run ends (`hterm`; termination is not
    proved).  `Cert.glrLayout` is void here (no Layout rule). -/
theorem C12_glr_bytes_nonsentence_errors (env : Env) (hcert : Cert.glr env.g env.t = true)
    (hcomp : Cert.completeRN env.g env.t = true) (hlex : Cert.singleCharLexer env.g env.t = true)
    (henv : charEnvOk env = true) (hknown : knownBytes env.g env.input = true) (huniq : lexUniqueOk env = true)
    (fuel : Nat) (hns : ¬ Sentence env.g (tokensOf env.g env.input))
    (hterm : Glr.parse env false fuel ≠ .fuel) : ∃ e, Glr.parse env false fuel = .err e := by
  have hnl := (Cert.singleCharLexer_sound _ _ hlex).noLayout
  cases h : Glr.parse env false fuel with
  | ok r => exact absurd (C12_glr_bytes_ok_only_on_sentence env hcert hcomp hlex henv hknown huniq fuel r h).1 hns
  | err e => exact ⟨e, rfl⟩
  | panic s => exact absurd h (C03_engine_no_panic_no_layout env hcert hnl false fuel s)
  | fuel => exact absurd h hterm

/-- **The error points at the first offending byte (GLR, bytes).**  With `Cert.viable` in addition: an error of
    `Glr.parse` is `expected p ks` at the position `p = bytePos env k` of byte `k` (`p.pos = k ≤ |input|`; `k = |input|`:
    end of input), `ks ≠ []`, the tokens of the first `k` bytes are a viable prefix (no late error) and those of the
    first `k + 1` bytes are not (`k < |input|`), resp. the input is not a sentence (`k = |input|`) (no early error) —
    the statement of the LR half (`C12_error_at_first_offending_token`, Props/C12.lean) for the GLR engine. -/
theorem C12_glr_bytes_error_at_first_offending_token (env : Env) (hcert : Cert.glr env.g env.t = true)
    (hcomp : Cert.completeRN env.g env.t = true)
    (hviab : Cert.viable env.g env.t (autosOf env.g env.t) = true)
    (hlex : Cert.singleCharLexer env.g env.t = true)
    (henv : charEnvOk env = true) (hknown : knownBytes env.g env.input = true) (huniq : lexUniqueOk env = true)
    (fuel : Nat) (e : PErr) (he : Glr.parse env false fuel = .err e) :
    ∃ (k : Nat) (ks : List Nat) (p : Pos), k ≤ env.input.length ∧ e = .expected p ks ∧ p = bytePos env k ∧ p.pos = k ∧
      ks ≠ [] ∧
      ViablePrefix env.g ((tokensOf env.g env.input).take k) ∧
      (k < env.input.length → ¬ ViablePrefix env.g ((tokensOf env.g env.input).take (k + 1))) ∧
      (k = env.input.length → ¬ Sentence env.g (tokensOf env.g env.input)) := by
  obtain ⟨hL, hk⟩ := lexDet_checked env hlex henv hknown huniq fuel
  obtain ⟨k, ks, h1, h2, h3, h4, h5, h6⟩ :=
    C12_glr_error_at_first_offending_token env hcert hcomp hviab false fuel _ _ _ _ hL e he
  refine ⟨k, ks, bytePos env k, h1, h2, rfl, bytePos_pos env k h1, h3, ?_, ?_, ?_⟩
  · rw [← kinds_bytes_take env h1]; exact h4
  · intro hlt
    rw [← kinds_bytes_take env (by omega : k + 1 ≤ env.input.length)]
    exact h5 hlt
  · intro heq
    rw [← hk]
    exact h6 heq

/-- hence `k` is THE first offending byte: no longer prefix of the token string is viable -/
theorem C12_glr_bytes_error_index_is_first_offending (env : Env) (k : Nat) (hk : k ≤ env.input.length)
    (hlate : k < env.input.length → ¬ ViablePrefix env.g ((tokensOf env.g env.input).take (k + 1))) :
    ∀ j, j ≤ env.input.length → ViablePrefix env.g ((tokensOf env.g env.input).take j) → j ≤ k := by
  intro j hj hv
  apply C12_glr_error_index_is_first_offending env env.input.length (byteTok env) k hk ?_ j hj
  · rw [kinds_bytes_take env hj]; exact hv
  · intro hlt
    rw [kinds_bytes_take env (by omega : k + 1 ≤ env.input.length)]
    exact hlate hlt

/-- **GLR accepts iff LR accepts (bytes on the GLR side, tokens on the LR side).**  `t_lr`: a table of the same
    grammar passing `certC01`; `tparse` runs on the tokens of the input. -/
theorem C07_bytes_glr_accepts_iff_lr_accepts (g : Grammar) (t_lr : Table) (hlr : certC01 g t_lr = true)
    (env : Env) (hg : env.g = g) (hcert : Cert.glr env.g env.t = true) (hcomp : Cert.completeRN env.g env.t = true)
    (hlex : Cert.singleCharLexer env.g env.t = true)
    (henv : charEnvOk env = true) (hknown : knownBytes env.g env.input = true) (huniq : lexUniqueOk env = true)
    (fuel : Nat) :
    ((∃ r i tr, Glr.parse env false fuel = .ok r ∧ r.getTree i = some tr) →
      ∃ f lt, tparse g t_lr (tokensOf g env.input) f = .accept lt) ∧
    ((∃ f lt, tparse g t_lr (tokensOf g env.input) f = .accept lt) →
      (∀ e, Glr.parse env false fuel ≠ .err e) ∧
      ∀ r, Glr.parse env false fuel = .ok r → r.droots.hasCut = false → ∃ i tr, r.getTree i = some tr) := by
  obtain ⟨hL, hk⟩ := lexDet_checked env hlex henv hknown huniq fuel
  have := C07_glr_accepts_iff_lr_accepts g t_lr hlr env hg hcert hcomp false fuel _ _ _ _ hL
  rw [hk, hg] at this
  exact this

/-- **GLR accepts iff LR accepts, both on the bytes.**  `envLR`: the LR parser's environment on the same grammar and
    input (its own table, passing `certC01` and `Cert.singleCharLexer`, its own recognizer matrix passing `charEnvOk`).
    (→) a GLR forest from which a tree can be taken ⇒ the byte-level LR parser returns `Ok` for some fuel;
    (←) the LR parser returns `Ok` ⇒ the GLR parser (any fuel) does not return an error and every acyclic forest it
    returns yields a tree.  Here `knownBytes` is needed for (→) only and (←) does not need it, so it is dropped from
    (←) by deriving it from the sentence. -/
theorem C07_bytes_glr_accepts_iff_lr_bytes_accepts (envLR : Env)
    (hlr : (certC01 envLR.g envLR.t && Cert.singleCharLexer envLR.g envLR.t && charEnvOk envLR) = true)
    (env : Env) (hg : env.g = envLR.g) (hin : env.input = envLR.input)
    (hcert : Cert.glr env.g env.t = true) (hcomp : Cert.completeRN env.g env.t = true)
    (hlex : Cert.singleCharLexer env.g env.t = true)
    (henv : charEnvOk env = true) (huniq : lexUniqueOk env = true) (fuel : Nat) :
    (knownBytes env.g env.input = true →
      (∃ r i tr, Glr.parse env false fuel = .ok r ∧ r.getTree i = some tr) →
      ∃ f ctx res, Rustemo.parse envLR false f = (ctx, .ok res)) ∧
    ((∃ f ctx res, Rustemo.parse envLR false f = (ctx, .ok res)) →
      (∀ e, Glr.parse env false fuel ≠ .err e) ∧
      ∀ r, Glr.parse env false fuel = .ok r → r.droots.hasCut = false → ∃ i tr, r.getTree i = some tr) := by
  have hiff := Rustemo.Props.C01.C01_bytes_accept_exactly_checked envLR hlr
  constructor
  · intro hknown ⟨r, i, tr, hr, hi⟩
    have hs := C12_glr_bytes_nonsentence_not_accepted env hcert hcomp hlex henv hknown huniq fuel r hr i tr hi
    rw [hg, hin] at hs
    exact hiff.mpr hs
  · intro h
    have hs := hiff.mp h
    rw [← hg, ← hin] at hs
    obtain ⟨full, hv, hy⟩ := hs
    obtain ⟨h1, h2⟩ := C03_bytes_engine_complete env hcert hcomp hlex henv huniq fuel full hv hy
    refine ⟨h1, ?_⟩
    intro r hr hc
    obtain ⟨i, tr, hi, _⟩ := h2 r hr hc
    exact ⟨i, tr, hi⟩

/-! ## with whitespace between the tokens

`charEnvOk` (shared with the LR half) excludes inputs with whitespace when whitespace skipping is on.  For the GLR
engine the restriction is not needed (`Proofs/GlrLexDetWs.lean`): with `charEnvWsOk env` (= `charEnvOk` without that
clause) the token string is `tokensOfWs env.g env.skipWs env.input` — skip whitespace (`StringLexer::skip`), one token
per byte the lexer stops at (Model/GlrLexCert.lean; equal to `tokensOf` when there is nothing to skip,
`tokensOfWs_noskip`) —, token `k` starts at `tokStart env k`, and `knownToks` says that every byte the lexer stops at
is a terminal's character. -/

theorem lexDet_ws_checked (env : Env) (hlex : Cert.singleCharLexer env.g env.t = true) (henv : charEnvWsOk env = true)
    (hknown : knownToks env.g env.skipWs env.input = true) (huniq : lexUniqueOk env = true) (fuel : Nat) :
    LexDet env false fuel (nToks env) (wsTok env) (headPos env) (tokStart env) ∧
    kinds (nToks env) (wsTok env) = tokensOfWs env.g env.skipWs env.input :=
  ⟨lexDet_ws env (Cert.singleCharLexer_sound _ _ hlex) (charEnvWsOk_sound env henv) hknown
    (lexUniqueOk_sound env huniq) fuel, wsTok_kinds env⟩

theorem tokensOfWs_length (env : Env) : (tokensOfWs env.g env.skipWs env.input).length = nToks env := by
  rw [← wsTok_kinds env]; simp

theorem kinds_ws_take (env : Env) {k : Nat} (hk : k ≤ nToks env) :
    kinds k (wsTok env) = (tokensOfWs env.g env.skipWs env.input).take k := by
  rw [← wsTok_kinds env]
  exact (kinds_take (wsTok env) hk).symm

/-- C03 (d), bytes with whitespace -/
theorem C03_bytes_ws_engine_complete (env : Env) (hcert : Cert.glr env.g env.t = true)
    (hcomp : Cert.completeRN env.g env.t = true) (hlex : Cert.singleCharLexer env.g env.t = true)
    (henv : charEnvWsOk env = true) (huniq : lexUniqueOk env = true) (fuel : Nat)
    (full : Tree) (hv : full.Valid env.g env.g.startIdx)
    (hy : full.yield = tokensOfWs env.g env.skipWs env.input) :
    (∀ e, Glr.parse env false fuel ≠ .err e) ∧
    ∀ r, Glr.parse env false fuel = .ok r → r.droots.hasCut = false →
      ∃ i tr, r.getTree i = some tr ∧ Tree.EqElide full tr := by
  have hknown := knownBytes_ws_of_sentence (g := env.g) (b := env.skipWs) (input := env.input) ⟨full, hv, hy⟩
  obtain ⟨hL, hk⟩ := lexDet_ws_checked env hlex henv hknown huniq fuel
  exact C03_engine_complete env hcert hcomp false fuel _ _ _ _ hL full hv (by rw [hy, ← hk]; rfl)

theorem C12_glr_bytes_ws_sentences_never_error (env : Env) (hcert : Cert.glr env.g env.t = true)
    (hcomp : Cert.completeRN env.g env.t = true) (hlex : Cert.singleCharLexer env.g env.t = true)
    (henv : charEnvWsOk env = true) (huniq : lexUniqueOk env = true) (fuel : Nat)
    (hs : Sentence env.g (tokensOfWs env.g env.skipWs env.input)) : ∀ e, Glr.parse env false fuel ≠ .err e := by
  obtain ⟨full, hv, hy⟩ := hs
  exact (C03_bytes_ws_engine_complete env hcert hcomp hlex henv huniq fuel full hv hy).1

theorem C12_glr_bytes_ws_ok_only_on_sentence (env : Env) (hcert : Cert.glr env.g env.t = true)
    (hcomp : Cert.completeRN env.g env.t = true) (hlex : Cert.singleCharLexer env.g env.t = true)
    (henv : charEnvWsOk env = true) (hknown : knownToks env.g env.skipWs env.input = true)
    (huniq : lexUniqueOk env = true) (fuel : Nat) (r : GlrResult) (hr : Glr.parse env false fuel = .ok r) :
    Sentence env.g (tokensOfWs env.g env.skipWs env.input) ∧ r.roots ≠ [] := by
  obtain ⟨hL, hk⟩ := lexDet_ws_checked env hlex henv hknown huniq fuel
  rw [← hk]
  exact C12_glr_ok_only_on_sentence env hcert hcomp false fuel _ _ _ _ hL r hr

theorem C12_glr_bytes_ws_nonsentence_errors (env : Env) (hcert : Cert.glr env.g env.t = true)
    (hcomp : Cert.completeRN env.g env.t = true) (hlex : Cert.singleCharLexer env.g env.t = true)
    (henv : charEnvWsOk env = true) (hknown : knownToks env.g env.skipWs env.input = true)
    (huniq : lexUniqueOk env = true) (fuel : Nat)
    (hns : ¬ Sentence env.g (tokensOfWs env.g env.skipWs env.input))
    (hterm : Glr.parse env false fuel ≠ .fuel) : ∃ e, Glr.parse env false fuel = .err e := by
  have hnl := (Cert.singleCharLexer_sound _ _ hlex).noLayout
  cases h : Glr.parse env false fuel with
  | ok r => exact absurd (C12_glr_bytes_ws_ok_only_on_sentence env hcert hcomp hlex henv hknown huniq fuel r h).1 hns
  | err e => exact ⟨e, rfl⟩
  | panic s => exact absurd h (C03_engine_no_panic_no_layout env hcert hnl false fuel s)
  | fuel => exact absurd h hterm

/-- the error is reported at the START of the first offending token (`tokStart env k`: whitespace in front of it
    skipped; `k` = number of tokens: at the end of the input) -/
theorem C12_glr_bytes_ws_error_at_first_offending_token (env : Env) (hcert : Cert.glr env.g env.t = true)
    (hcomp : Cert.completeRN env.g env.t = true)
    (hviab : Cert.viable env.g env.t (autosOf env.g env.t) = true)
    (hlex : Cert.singleCharLexer env.g env.t = true)
    (henv : charEnvWsOk env = true) (hknown : knownToks env.g env.skipWs env.input = true)
    (huniq : lexUniqueOk env = true) (fuel : Nat) (e : PErr) (he : Glr.parse env false fuel = .err e) :
    ∃ (k : Nat) (ks : List Nat), k ≤ (tokensOfWs env.g env.skipWs env.input).length ∧
      e = .expected (tokStart env k) ks ∧ ks ≠ [] ∧
      ViablePrefix env.g ((tokensOfWs env.g env.skipWs env.input).take k) ∧
      (k < (tokensOfWs env.g env.skipWs env.input).length →
        ¬ ViablePrefix env.g ((tokensOfWs env.g env.skipWs env.input).take (k + 1))) ∧
      (k = (tokensOfWs env.g env.skipWs env.input).length →
        ¬ Sentence env.g (tokensOfWs env.g env.skipWs env.input)) := by
  obtain ⟨hL, hk⟩ := lexDet_ws_checked env hlex henv hknown huniq fuel
  obtain ⟨k, ks, h1, h2, h3, h4, h5, h6⟩ :=
    C12_glr_error_at_first_offending_token env hcert hcomp hviab false fuel _ _ _ _ hL e he
  rw [tokensOfWs_length]
  refine ⟨k, ks, h1, h2, h3, ?_, ?_, ?_⟩
  · rw [← kinds_ws_take env h1]; exact h4
  · intro hlt
    rw [← kinds_ws_take env (by omega : k + 1 ≤ nToks env)]
    exact h5 hlt
  · intro heq
    rw [← hk]
    exact h6 heq

theorem C07_bytes_ws_glr_accepts_iff_lr_accepts (g : Grammar) (t_lr : Table) (hlr : certC01 g t_lr = true)
    (env : Env) (hg : env.g = g) (hcert : Cert.glr env.g env.t = true) (hcomp : Cert.completeRN env.g env.t = true)
    (hlex : Cert.singleCharLexer env.g env.t = true)
    (henv : charEnvWsOk env = true) (hknown : knownToks env.g env.skipWs env.input = true)
    (huniq : lexUniqueOk env = true) (fuel : Nat) :
    ((∃ r i tr, Glr.parse env false fuel = .ok r ∧ r.getTree i = some tr) →
      ∃ f lt, tparse g t_lr (tokensOfWs g env.skipWs env.input) f = .accept lt) ∧
    ((∃ f lt, tparse g t_lr (tokensOfWs g env.skipWs env.input) f = .accept lt) →
      (∀ e, Glr.parse env false fuel ≠ .err e) ∧
      ∀ r, Glr.parse env false fuel = .ok r → r.droots.hasCut = false → ∃ i tr, r.getTree i = some tr) := by
  obtain ⟨hL, hk⟩ := lexDet_ws_checked env hlex henv hknown huniq fuel
  have := C07_glr_accepts_iff_lr_accepts g t_lr hlr env hg hcert hcomp false fuel _ _ _ _ hL
  rw [hk, hg] at this
  exact this

/-! ### non-vacuity -/

/-- terminals STOP, `'a'` -/
def termsA : Array Terminal := #[Example3.mkTerm "STOP" none, Example3.mkTerm "Ta" (some (.str "a"))]

/-- the ambiguous right-nullable grammar `S: 'a' S A | EMPTY; A: 'a' | EMPTY` (real LALR_RN table), terminal records
    added -/
def gAmb : Grammar := { Glr.Example.g with terms := termsA }
/-- its environment on the bytes `aa`, string lexer (`charRecog`), whitespace skipping on -/
def envAmb : Env := Example3.envOf gAmb Glr.Example.t [97, 97] true

/-- `S: Ta A; A: B | C; B: EMPTY; C: EMPTY` (language `{a}`), real LALR_RN table, on `aa` -/
def gErr : Grammar := { Glr.ExampleNul.g with terms := termsA }
def envErr : Env := Example3.envOf gErr Glr.ExampleNul.t [97, 97] true

/-- the deterministic grammar `S: A S | EMPTY; A: 'a'` with both real tables, on `aa` -/
def gDet : Grammar := { Glr.ExampleDet.g with terms := termsA }
def envDetRN : Env := Example3.envOf gDet Glr.ExampleDet.tRN [97, 97] true
def envDetLR : Env := Example3.envOf gDet Glr.ExampleDet.tLR [97, 97] true

/-- every executable hypothesis holds of the three environments -/
example : Cert.glr envAmb.g envAmb.t = true ∧ Cert.completeRN envAmb.g envAmb.t = true ∧
    Cert.singleCharLexer envAmb.g envAmb.t = true ∧ glrCharEnvOk envAmb = true := by decide +kernel
example : Cert.glr envErr.g envErr.t = true ∧ Cert.completeRN envErr.g envErr.t = true ∧
    Cert.viable envErr.g envErr.t (autosOf envErr.g envErr.t) = true ∧
    Cert.singleCharLexer envErr.g envErr.t = true ∧ glrCharEnvOk envErr = true := by decide +kernel
example : Cert.glr envDetRN.g envDetRN.t = true ∧ Cert.completeRN envDetRN.g envDetRN.t = true ∧
    Cert.singleCharLexer envDetRN.g envDetRN.t = true ∧ glrCharEnvOk envDetRN = true ∧
    (certC01 envDetLR.g envDetLR.t && Cert.singleCharLexer envDetLR.g envDetLR.t && charEnvOk envDetLR) = true := by
  decide +kernel

/-- the token string of `aa` is `[1, 1]` -/
example : tokensOf envAmb.g envAmb.input = [1, 1] := by decide

/-- `LexDet` of `aa` from the checks (what `Glr.Example.lexDet_aa` establishes by evaluating all states) -/
example : LexDet envAmb false 9 2 (byteTok envAmb) (bytePos envAmb) (bytePos envAmb) :=
  (lexDet_checked envAmb (by decide +kernel) (by decide +kernel) (by decide +kernel) (by decide +kernel) 9).1

/-- C03: the derivation `fullAA` of `aa` (Props/C03.lean) is in every forest of the byte-level run, and the run does
    return a forest with 2 trees -/
example : (∀ e, Glr.parse envAmb false 9 ≠ .err e) ∧
    ∀ r, Glr.parse envAmb false 9 = .ok r → r.droots.hasCut = false →
      ∃ i tr, r.getTree i = some tr ∧ Tree.EqElide fullAA tr :=
  C03_bytes_engine_complete envAmb (by decide +kernel) (by decide +kernel) (by decide +kernel) (by decide +kernel)
    (by decide +kernel) 9 fullAA (Tree.validB_sound _ _ _ (by decide +kernel)) (by decide +kernel)
example : Glr.Example.solutionsOf (Glr.parse envAmb false 9) = some 2 := by decide +kernel

/-- C12: the run on `aa` of the grammar with language `{a}` ends in an error at byte 1 expecting STOP, and the theorem
    applies: `[1]` is a viable prefix, `[1, 1]` is not -/
example : Glr.ExampleErr.errOf (Glr.parse envErr false 9) = some (1, 1, 1, [0]) := by decide +kernel
example := C12_glr_bytes_error_at_first_offending_token envErr (by decide +kernel) (by decide +kernel)
  (by decide +kernel) (by decide +kernel) (by decide +kernel) (by decide +kernel) (by decide +kernel) 9
example := C12_glr_bytes_ok_only_on_sentence envAmb (by decide +kernel) (by decide +kernel) (by decide +kernel)
  (by decide +kernel) (by decide +kernel) (by decide +kernel) 9
example : ∀ e, Glr.parse envAmb false 9 ≠ .err e :=
  C12_glr_bytes_sentences_never_error envAmb (by decide +kernel) (by decide +kernel) (by decide +kernel)
    (by decide +kernel) (by decide +kernel) 9 ⟨fullAA, Tree.validB_sound _ _ _ (by decide +kernel), by decide +kernel⟩

/-- C07: both byte-level parsers accept `aa` -/
example := C07_bytes_glr_accepts_iff_lr_bytes_accepts envDetLR (by decide +kernel) envDetRN rfl rfl
  (by decide +kernel) (by decide +kernel) (by decide +kernel) (by decide +kernel) (by decide +kernel) 9
example := C07_bytes_glr_accepts_iff_lr_accepts gDet Glr.ExampleDet.tLR (by decide +kernel) envDetRN rfl
  (by decide +kernel) (by decide +kernel) (by decide +kernel) (by decide +kernel) (by decide +kernel)
  (by decide +kernel) 9
example : Glr.Example.solutionsOf (Glr.parse envDetRN false 9) = some 1 ∧
    Example.isOk (Rustemo.parse envDetLR false 50).2 = true := by decide +kernel

/-! non-vacuity of the whitespace versions: `a a\n` (bytes 97 32 97 10), whitespace skipping on -/

def envAmbWs : Env := Example3.envOf gAmb Glr.Example.t [97, 32, 97, 10] true
def envErrWs : Env := Example3.envOf gErr Glr.ExampleNul.t [97, 32, 32, 97] true

example : glrCharEnvWsOk envAmbWs = true ∧ glrCharEnvWsOk envErrWs = true ∧ charEnvOk envAmbWs = false ∧
    tokensOfWs envAmbWs.g envAmbWs.skipWs envAmbWs.input = [1, 1] := by decide +kernel

example : (∀ e, Glr.parse envAmbWs false 9 ≠ .err e) ∧
    ∀ r, Glr.parse envAmbWs false 9 = .ok r → r.droots.hasCut = false →
      ∃ i tr, r.getTree i = some tr ∧ Tree.EqElide fullAA tr :=
  C03_bytes_ws_engine_complete envAmbWs (by decide +kernel) (by decide +kernel) (by decide +kernel) (by decide +kernel)
    (by decide +kernel) 9 fullAA (Tree.validB_sound _ _ _ (by decide +kernel)) (by decide +kernel)
example : Glr.Example.solutionsOf (Glr.parse envAmbWs false 9) = some 2 := by decide +kernel

/-- the error is reported at byte 3 (line 1, column 3): the start of the second `a`, after the two blanks -/
example : Glr.ExampleErr.errOf (Glr.parse envErrWs false 9) = some (3, 1, 3, [0]) ∧
    tokStart envErrWs 1 = ⟨3, 1, 3⟩ := by decide +kernel
example := C12_glr_bytes_ws_error_at_first_offending_token envErrWs (by decide +kernel) (by decide +kernel)
  (by decide +kernel) (by decide +kernel) (by decide +kernel) (by decide +kernel) (by decide +kernel) 9

end Rustemo.Props.C03Bytes
