import Rustemo.Proofs.Cli
import Rustemo.Proofs.CliPlan
import Rustemo.Proofs.CliNames
/-!
# C17 — parser generation is deterministic and the same through CLI and API

A Lean function is deterministic by construction, so the content is in what the model is allowed
*not* to depend on. Two places of the compiler could let something other than (grammar text,
settings, existing actions file) into the output:

* `Choice::make_choices_name_unique` iterates a `HashMap` (per-process random order). The model
  `Types.makeUnique` takes that order as an explicit parameter. The full statement — the result
  does not depend on it — is **false** of the current code (`C17_counterexample_hash_order_leaks`,
  reproduced with the real `rcomp`); it is proved under the exact side condition `clash cs = false`.
* `main` translates the command line into builder calls. `Cli.toSettings` transcribes `main` call
  by call; `Doc.settingsOf` is the documented meaning; they are equal for every command line.

That nothing else leaks (no other hash iteration, environment read, global toggle, clock) is Tie C:
the source inventory `inventory/c17.json`, re-extracted on every run. The byte equality across
processes, orders and CLI/API is checked differentially against the real `rcomp`.

Property theorems only; lemmas are in `Proofs/Cli*.lean`.
-/
namespace Rustemo.Props.C17
open Rustemo Rustemo.Cfg Rustemo.Types

/-! ## CLI = API -/

/-- **Every command line denotes the documented settings.** For every environment (`OUT_DIR`,
`CARGO_MANIFEST_DIR`, `RUSTEMO_TRACE`) and every value of the `Cli` record (every flag, every enum
value, every optional, arbitrary strings for paths / input type / exclude list), the sequence of
builder calls `main` performs yields exactly the documented settings: each flag sets its setting,
`--noactions`, `--no-shifts-over-empty`, `--no-skip-ws` negate, GLR forces the `LALR_RN` table,
switches both shift preferences off and grammar order off unless given explicitly, `--force` is
explicit either way; and it panics exactly on the one combination the documentation excludes. -/
theorem C17_cli_maps_to_settings (env : Env) (cli : Cli) :
    Cli.toSettings env cli = Doc.settingsOf env cli :=
  toSettings_eq_settingsOf env cli

/-- non-vacuity: a command line exercising the GLR overrides and all three negated flags -/
example :
    Cli.toSettings {} { parserAlgo := .glr, tableType := .lalr, preferShifts := true, noSkipWs := true,
                        noactions := true, noShiftsOverEmpty := true, lexGrammarOrder := some true,
                        outdirRoot := some "out" }
      = .ok { Settings.new {} with
                parserAlgo := .glr, tableType := .lalrRn, preferShifts := false,
                preferShiftsOverEmpty := false, grammarOrder := true, skipWs := false, actions := false,
                force := false, forceExplicit := true, outDirRoot := some "out" } := by decide

/-- **The settings do not depend on which grammar is processed** nor on `-v`: two invocations that
differ only in the grammar path and verbosity configure the compiler identically. -/
theorem C17_settings_independent_of_grammar_path (env : Env) (cli : Cli) (path : String) (v : Nat) :
    Cli.toSettings env { cli with grammarFileOrDir := path, verbosity := v } = Cli.toSettings env cli := by
  rw [C17_cli_maps_to_settings, C17_cli_maps_to_settings]; rfl

example : Cli.toSettings {} { grammarFileOrDir := "a.rustemo", verbosity := 2 }
    = Cli.toSettings {} { grammarFileOrDir := "b.rustemo" } := by decide

/-- **Exactly which invocations panic** instead of producing a parser or a diagnostic:
(i) `--lexical-disamb-grammar-order=false` without `-p glr` (`settings.rs:303`);
(ii) a grammar FILE argument while an output root is in force (`-o`, `-a`, or ambient `OUT_DIR`)
and `CARGO_MANIFEST_DIR` is not set (`settings.rs:410`, `'root_dir' must be set!`).
Both are reachable from the command line (findings, reproduced with the real binary). -/
theorem C17_cli_panics_exactly (env : Env) (cli : Cli) (isFile : Bool) (site : PanicSite) :
    Cli.plan env cli isFile = .panic site ↔
      (site = .grammarOrderLR ∧ Doc.rejected cli = true) ∨
      (site = .rootDirUnset ∧ Doc.rejected cli = false ∧ isFile = true ∧ env.manifestDir = none ∧
        (cli.outdirRoot.isSome = true ∨ cli.outdirActionsRoot.isSome = true ∨ env.outDir.isSome = true)) :=
  plan_panic_iff env cli isFile site

/-- witness (i): `rcomp --lexical-disamb-grammar-order=false g.rustemo` -/
theorem C17_witness_panic_grammar_order :
    Cli.run {} ["--lexical-disamb-grammar-order=false", "g.rustemo"] true = .panic .grammarOrderLR := by
  decide

/-- witness (ii): `rcomp -o out g.rustemo` outside cargo -/
theorem C17_witness_panic_root_dir :
    Cli.run {} ["-o", "out", "g.rustemo"] true = .panic .rootDirUnset := by decide

/-- the same command line on a directory is fine -/
example : Cli.run {} ["-o", "out", "-p", "glr", "--lexical-disamb-grammar-order=false", "grammars"] false
    = .plan { mode := .dir, settings := { Settings.new {} with
        parserAlgo := .glr, tableType := .lalrRn, preferShiftsOverEmpty := false, grammarOrder := false,
        force := false, forceExplicit := true, outDirRoot := some "out", rootDir := some "grammars" } } := by
  decide

/-! ## Order of `HashMap` iteration in `make_choices_name_unique` -/

/-- The full statement: the de-duplicated choice names do not depend on the order in which
`name_counts.iter()` yields the keys. -/
def C17_statement : Prop :=
  ∀ (cs σ τ : List String), KeyOrder σ cs → KeyOrder τ cs → makeUnique σ cs = makeUnique τ cs

/-- **Counterexample (finding).** Choices named `A, A, A1, A1` (grammar rule
`S: A | X A | A1 | Y A1;`): processing key `A` first renames the `A`s to `A1, A2`, so that key `A1`
then matches three choices. The two key orders give different enum variant names; the real `rcomp`
writes both outputs from run to run. -/
theorem C17_counterexample_hash_order_leaks :
    KeyOrder ["A", "A1"] ["A", "A", "A1", "A1"] ∧ KeyOrder ["A1", "A"] ["A", "A", "A1", "A1"] ∧
    makeUnique ["A", "A1"] ["A", "A", "A1", "A1"] = ["A11", "A2", "A12", "A13"] ∧
    makeUnique ["A1", "A"] ["A", "A", "A1", "A1"] = ["A1", "A2", "A11", "A12"] := by decide

theorem C17_statement_false : ¬ C17_statement := by
  intro h
  have := h ["A", "A", "A1", "A1"] ["A", "A1"] ["A1", "A"] (by decide) (by decide)
  exact absurd this (by decide)

/-- **Order independence, partial:** proved under the side condition `clash cs = false` — no
duplicated name followed by one of its occurrence indices equals another duplicated name. The
condition is exactly what the counterexample violates, is decidable, and is the class predicate
`DupChoiceNameSuffixClash` of the known finding. What is missing for the full statement is a fix
of the code (e.g. `notes/C17-fix-1.diff`, which computes `closedForm` without iterating the map). -/
theorem C17_unique_names_order_free_partial (cs σ τ : List String)
    (hσ : KeyOrder σ cs) (hτ : KeyOrder τ cs) (h : clash cs = false) :
    makeUnique σ cs = makeUnique τ cs := by
  have hnc := (clash_false_iff cs).mp h
  rw [makeUnique_eq_closedForm σ cs hσ hnc, makeUnique_eq_closedForm τ cs hτ hnc]

/-- non-vacuity: duplicated names that do need renaming, two different key orders -/
example : clash ["A", "B", "A", "Empty", "B", "A"] = false ∧
    KeyOrder ["B", "Empty", "A"] ["A", "B", "A", "Empty", "B", "A"] ∧
    KeyOrder ["A", "B", "Empty"] ["A", "B", "A", "Empty", "B", "A"] ∧
    makeUnique ["B", "Empty", "A"] ["A", "B", "A", "Empty", "B", "A"]
      = ["A1", "B1", "A2", "Empty", "B2", "A3"] := by decide

/-- **The order-free closed form** (append the occurrence index to every duplicated name, once) is
what every iteration order computes whenever the result is order independent at all; the proposed
fix computes it directly, so it changes no output that is deterministic today. -/
theorem C17_closed_form_agrees (cs σ : List String) (hσ : KeyOrder σ cs) (h : clash cs = false) :
    makeUnique σ cs = closedForm cs :=
  makeUnique_eq_closedForm σ cs hσ ((clash_false_iff cs).mp h)

example : closedForm ["A", "A", "A1", "A1"] = ["A1", "A2", "A11", "A12"] := by decide

end Rustemo.Props.C17
