import Rustemo.Proofs.Forest
import Rustemo.Proofs.GlrTop
import Rustemo.Proofs.GlrLayout
import Rustemo.Proofs.GlrEnum
import Rustemo.Proofs.GlrExample
import Rustemo.Proofs.GlrCompleteDefs
import Rustemo.Proofs.GlrPush3
import Rustemo.Proofs.GlrRun10
import Rustemo.Proofs.GlrExampleLex
import Rustemo.Proofs.GlrExampleNul
import Rustemo.Proofs.GlrSameDeriv
import Rustemo.Proofs.GlrNoDup4
import Rustemo.Proofs.Viable
/-!
# C03 — the GLR forest contains exactly the derivation trees of the input

**Full statement** (`C03_statement` below is the part about the forest API; of the claim that the
graph-structured-stack engine puts exactly the derivation trees into the forest, the direction
"every tree of the forest is a derivation tree of the input" and "the engine never panics" ARE proved
of the engine model `Glr.parse` (Model/Glr.lean, tied to `GlrParser::parse` by correspondence on every
input) — see the section "The GSS engine" at the end of this file; completeness and
duplicate-freeness of the engine are stated there in full and are still decided by correspondence
with an independent derivation enumerator on generated grammars and inputs).

Proved here, for every SPPF shape (the SPPF is an inductive value, i.e. acyclic): the weighted
mixed-radix index decoding of `Forest::get_tree` / `Tree::children` / `find_tree_root`
enumerates the canonical enumeration `allTrees` — each tree of the forest exactly once, by index
and by iteration, and `None` from `solutions()` on.
-/
namespace Rustemo.Props.C03
open Rustemo.Forest

/-- `get_tree i` is the i-th tree of the canonical enumeration, the number of trees is
    `solutions()`, and every index at or beyond `solutions()` yields no tree. -/
theorem C03_forest_enum (f : Forest) (hw : f.roots.WF) :
    (∀ i, f.getTree i = f.allTrees[i]?) ∧ f.allTrees.length = f.solutions ∧
    (∀ i, f.solutions ≤ i → f.getTree i = none) := by
  refine ⟨fun i => NList.get_eq f.roots i hw, NList.len_all f.roots, ?_⟩
  intro i hi
  unfold Forest.getTree
  rw [NList.get_eq f.roots i hw]
  exact List.getElem?_eq_none (by rw [NList.len_all]; exact hi)

/-- enumerating by index over `0 .. solutions()-1` yields every tree exactly once, in order -/
theorem C03_by_index_is_all (f : Forest) (hw : f.roots.WF) :
    (List.range f.solutions).map f.getTree = f.allTrees.map some := by
  apply List.ext_getElem?
  intro i
  have h := (C03_forest_enum f hw).1
  have hl := (C03_forest_enum f hw).2.1
  simp only [List.getElem?_map, List.getElem?_range]
  by_cases hi : i < f.solutions
  · simp only [hi, List.getElem?_range, Option.map_some]
    rw [h i]
    have : i < f.allTrees.length := by omega
    simp [List.getElem?_eq_getElem this]
  · have h1 : (List.range f.solutions)[i]? = none := by
      apply List.getElem?_eq_none; simp; omega
    have h2 : f.allTrees[i]? = none := by
      apply List.getElem?_eq_none; omega
    simp [h1, h2]

/-- `Forest::iter` / `into_iter` (call `get_tree(0), get_tree(1), …` until `None`) yields exactly
    `allTrees` -/
theorem C03_iteration_is_all (f : Forest) (hw : f.roots.WF) (fuel : Nat) (h : f.solutions ≤ fuel) :
    f.iterate fuel 0 = f.allTrees := by
  rw [iterate_eq f hw fuel 0 (by omega)]
  simp

/-- non-vacuity: an ambiguous forest (two roots sharing nothing, one with a packed child) -/
example : (NList.cons (.nonterm 1 (.cons (.mk (.cons (.term 1 0) (.cons (.term 2 0) .nil))) .nil))
           (.cons (.term 3 0) .nil)).WF := by
  simp [NList.WF, SNode.WF, PList.WF, Parent.WF, NList.sum, SNode.solutions]

/-! ## The GSS engine (`GlrParser::parse`, model `Glr.parse` in Model/Glr.lean)

`Cert.glr` (Model/GlrCert.lean) is an executable certificate run by the driver on the table the real compiler
produced (`glr cert`): the structural certificate with right-nulled reduce entries licensed by a ranked list
of nullable symbols (`Cert.nulOk`, proved sound: every listed symbol derives the empty string), the
accessing-symbol check and `Cert.total` for the main automaton.  Regex engines, lexer (string lexer or
adversarial user lexers), whitespace/Layout handling, partial parsing and fuel are arbitrary. -/

open Rustemo Rustemo.Glr

/-- **(a) Soundness of the engine.**  Every tree `Forest::get_tree(i)` + `Tree::build` can return from the forest
    the engine builds is a derivation tree from the start symbol MODULO elision of right-nulled tails
    (`Tree.ValidElided`: at every node the children derive a prefix of the production and every missing symbol
    derives the empty string); its leaves are tokens the engine shifted on the consecutive levels
    0, 1, …, n-1 of the graph structured stack (`LeavesAt`; the kinds of these tokens are the yield); and it is
    the elision of a FULL derivation tree of the start symbol with the same yield. -/
theorem C03_engine_sound (env : Env) (hcert : Cert.glr env.g env.t = true) (partialParse : Bool) (fuel : Nat)
    (r : GlrResult) (h : Glr.parse env partialParse fuel = .ok r) (i : Nat) (tr : Tree)
    (ht : r.getTree i = some tr) :
    tr.ValidElided env.g env.g.startIdx ∧
    (∃ n, LeavesAt r.gss (toksOf tr) 0 n) ∧ (toksOf tr).map (·.kind) = tr.yield ∧
    ∃ full : Tree, full.Valid env.g env.g.startIdx ∧ full.yield = tr.yield ∧ full.ElidedFrom tr := by
  obtain ⟨n, hv, hl⟩ := result_trees_ok (Glr.parse_sound env hcert partialParse fuel r h) i tr ht
  exact ⟨hv, ⟨n, hl⟩, toksOf_kinds.1 tr, Tree.complete_elided env.g tr _ hv⟩

/-- the same for the span-free trees of the enumeration model: the forest handed to `Model/Forest.lean` is the
    erasure of the engine's decorated forest, index by index -/
theorem C03_engine_forest_is_erasure (r : GlrResult) (i : Nat) :
    r.forest.getTree i = (r.getTree i).map treeToF ∧ r.forest.solutions = r.droots.sum :=
  ⟨getTree_erase r i, solutions_erase r⟩

/-- the engine's forest satisfies the hypothesis of `C03_forest_enum` (no parent link without solutions — the
    case in which `Tree::children` divides by zero) whenever its unfolding is not cut (acyclic SPPF) -/
theorem C03_engine_forest_wf (env : Env) (hcert : Cert.glr env.g env.t = true) (partialParse : Bool) (fuel : Nat)
    (r : GlrResult) (h : Glr.parse env partialParse fuel = .ok r) (hc : r.droots.hasCut = false) :
    r.forest.roots.WF :=
  forest_wf (Glr.parse_sound env hcert partialParse fuel r h) hc

/-- **(b) No panic.**  No `unwrap` / `expect` / index of `glr/parser.rs` and `glr/gss.rs` that the model marks as
    `.panic site` is reachable on a certified table, provided the nested LR layout parser does not panic … -/
theorem C03_engine_no_panic (env : Env) (hcert : Cert.glr env.g env.t = true) (hl : LayoutSafe env)
    (partialParse : Bool) (fuel : Nat) : ∀ site, Glr.parse env partialParse fuel ≠ .panic site :=
  Glr.parse_no_panic env hcert hl partialParse fuel

/-- … which is void for a grammar without a Layout rule … -/
theorem C03_engine_no_panic_no_layout (env : Env) (hcert : Cert.glr env.g env.t = true)
    (hnl : env.t.layoutState = none) (partialParse : Bool) (fuel : Nat) :
    ∀ site, Glr.parse env partialParse fuel ≠ .panic site :=
  Glr.parse_no_panic env hcert (layoutSafe_of_none env hnl) partialParse fuel

/-- … and follows from the LR certificate `Cert.lr` (C15) for tables without right-nulled entries
    (GLR over `LALR` / `LALR_PAGER` tables, Layout rule or not). -/
theorem C03_engine_no_panic_plain_table (env : Env) (hcert : Cert.glr env.g env.t = true)
    (hlr : Cert.lr env.g env.t = true) (partialParse : Bool) (fuel : Nat) :
    ∀ site, Glr.parse env partialParse fuel ≠ .panic site :=
  Glr.parse_no_panic env hcert (layoutSafe_of_lr env hlr) partialParse fuel

/-- **(b), fully certified.**  With the layout automaton covered by the certificate as well (`Cert.glrLayout`:
    it is one of the automata of the structural certificate and passes `Cert.total`; trivially true without a
    Layout rule) no hypothesis is left: the nested LR layout parser is panic free on right-nulled tables too
    (`Proofs/GlrLayout.lean`), so `GlrParser::parse` reaches no panic site, whatever the input, the recognizers,
    the lexer, partial parsing and the fuel. -/
theorem C03_engine_no_panic_certified (env : Env) (hcert : Cert.glr env.g env.t = true)
    (hlay : Cert.glrLayout env.g env.t = true) (partialParse : Bool) (fuel : Nat) :
    ∀ site, Glr.parse env partialParse fuel ≠ .panic site :=
  Glr.parse_no_panic env hcert (layoutSafe_of_cert env hcert hlay) partialParse fuel

/-! ### (d) completeness and (c) no duplicates: full statements, and the part that is proved -/

/-- **(d) Completeness of the engine, full statement** (proved below: `C03_engine_complete`).  For a table passing `Cert.glr`
    and the completeness certificate `Cert.completeRN` (lookahead post-fixpoint: closure and transitions as in
    `Cert.complete`; EVERY right-nulled reduction present for each lookahead of its item; at most one shift per
    cell; STOP never shifted), under the token-level lexer hypothesis `LexDet`: if the token kinds are a sentence, the engine does not
    report an error, and every (acyclic: unfolding not cut) forest it returns contains every derivation tree of the
    sentence modulo elision (`Tree.EqElide`). -/
def C03_engine_complete_statement : Prop :=
  ∀ (env : Env), Cert.glr env.g env.t = true → Cert.completeRN env.g env.t = true →
  ∀ (partialParse : Bool) (fuel n : Nat) (tok : Nat → Tok) (P L : Nat → Pos),
    LexDet env partialParse fuel n tok P L →
  ∀ (full : Tree), full.Valid env.g env.g.startIdx → full.yield = (List.range n).map (fun i => (tok i).kind) →
    (∀ e, Glr.parse env partialParse fuel ≠ .err e) ∧
    ∀ r, Glr.parse env partialParse fuel = .ok r → r.droots.hasCut = false →
      ∃ i tr, r.getTree i = some tr ∧ Tree.EqElide full tr

/-- (c) as FIRST written, with the coarse relation `Tree.EqElide` ("equal up to decorations and ANY trailing
    empty-yield children"): two different indices never give `EqElide` trees.  **FALSE** — see
    `C03_engine_no_duplicates_coarse_is_false`. -/
def C03_engine_no_duplicates_coarse_statement : Prop :=
  ∀ (env : Env), Cert.glr env.g env.t = true → Cert.completeRN env.g env.t = true →
  ∀ (partialParse : Bool) (fuel : Nat) (r : GlrResult), Glr.parse env partialParse fuel = .ok r →
  ∀ (i j : Nat) (ti tj : Tree), r.getTree i = some ti → r.getTree j = some tj → Tree.EqElide ti tj → i = j

/-- **The coarse no-duplicates statement is false** (counterexample, kernel-evaluated on the real LALR_RN table of
    `S: Ta A; A: B | C; B: EMPTY; C: EMPTY`, input `a`): the engine returns the two trees `S(a, A(B))` and
    `S(a, A(C))` — two different derivations, both correct (the real parser gives the same two trees) — and they are
    `EqElide`, because `EqElide` identifies any two tails of empty yield.  So "no duplicates" must be stated with
    "elisions of ONE full derivation tree" (`Tree.SameDerivation`, Proofs/GlrSameDeriv.lean); this is a defect of the
    first statement, not of the engine. -/
theorem C03_engine_no_duplicates_coarse_is_false : ¬ C03_engine_no_duplicates_coarse_statement := by
  intro H
  have hw := Glr.ExampleNul.dupWitness_run
  unfold Glr.ExampleNul.dupWitness at hw
  split at hw
  · rename_i r hr
    split at hw
    · rename_i a b ha hb
      have := H Glr.ExampleNul.env (by decide +kernel) (by decide +kernel) false 9 r hr 0 1 a b ha hb
        (Glr.ExampleNul.eqElideB_sound a b hw)
      omega
    · simp at hw
  · simp at hw

/-- **(c) No duplicates, full statement** (corrected): two different indices of a result (acyclic unfolding) never
    give trees that are elisions of ONE full derivation tree (`Tree.SameDerivation`: same productions and token kinds
    wherever both keep a node; what one of them drops is a tail of empty yield of the common tree). -/
def C03_engine_no_duplicates_statement : Prop :=
  ∀ (env : Env), Cert.glr env.g env.t = true → Cert.completeRN env.g env.t = true →
  ∀ (partialParse : Bool) (fuel : Nat) (r : GlrResult), Glr.parse env partialParse fuel = .ok r →
  r.droots.hasCut = false →
  ∀ (i j : Nat) (ti tj : Tree), r.getTree i = some ti → r.getTree j = some tj → Tree.SameDerivation ti tj → i = j

/-- **(c), the part that is proved: no duplicates FROM three facts about the possibility lists** (under `LexDet`).
    Certified table, `LexDet`, `Glr.parse = ok r`, acyclic unfolding.  IF in the result graph every possibility list
    (a) has no repeated node, (b) holds at most one terminal node, (c) holds no two non-terminal nodes of ONE production
    whose children lists are prefix-comparable (`Glr.PossFacts` — what `is_new_solution` and the fold are meant to
    guarantee), and the root list has no repetition, THEN two different indices never give the same derivation
    (`Tree.SameDerivation`).  Proved from the run invariant: one head per (level, state) (`RunInv.hfun`), one edge per
    pair of heads, transitions are functions, every tree below an edge spans exactly the levels of the edge — so two
    children lists that differ first at position `i` lead to heads of different levels there, i.e. to sub-trees of
    different yield length (`Proofs/GlrNoDup2.lean::U_nodup`); the index decoding is injective on an enumeration of
    pairwise different derivations (`getTree_nodup`).
    NOT proved: that the run establishes `PossFacts` and a repetition-free root list.  (c) needs more than the fold
    condition: `is_new_solution` treats a possibility of the SAME length as different without comparing it
    (parser.rs:577-593, model `differs`), so "no two equal children lists" rests on "no path is reduced twice", i.e.
    on every (start edge / head, production, length) being queued at most once over the whole reducer run (a history
    invariant; it also needs cells without repeated actions, which no certificate states yet); (b) and the root list
    rest on "every head registers its shift / accept once". -/
theorem C03_engine_no_duplicates_from_poss_facts (env : Env) (hcert : Cert.glr env.g env.t = true)
    (hcomp : Cert.completeRN env.g env.t = true) (partialParse : Bool) (fuel n : Nat) (tok : Nat → Tok) (P L : Nat → Pos)
    (hL : LexDet env partialParse fuel n tok P L) (r : GlrResult) (hr : Glr.parse env partialParse fuel = .ok r)
    (hc : r.droots.hasCut = false) (hp : Glr.PossFacts r.gss) (hroots : r.roots.Nodup)
    (i j : Nat) (ti tj : Tree) (hi : r.getTree i = some ti) (hj : r.getTree j = some tj)
    (hsame : Tree.SameDerivation ti tj) : i = j := by
  obtain ⟨hC, hW⟩ := Cert.completeRN_sound _ _ hcomp
  exact Glr.parse_nodup (tableOk_of_cert env hcert) hC hW hL hr hp hroots hc hi hj hsame

/-- non-vacuity of `C03_engine_no_duplicates_from_poss_facts`: its extra hypotheses (`PossFacts`, repetition-free
    roots, no cut) hold of the engine's result on the ambiguous right-nullable example grammar, input `aaa` (3 trees),
    by evaluation (`possFactsB_sound`); `LexDet` on `aa` is `lexDet_aa` above. -/
example : Glr.nodupHypsB (Glr.parse (Glr.Example.env 3) false 12) = true := by decide +kernel
example : Glr.nodupHypsB (Glr.parse (Glr.Example.env 2) false 9) = true := by decide +kernel

/-- **(d), the part that is proved: reduction closure of the GSS** (Scott–Johnstone's key lemma for RNGLR, for
    THIS implementation: FIFO queue, breadth-first path search on the graph as it is when the reduction is
    processed, re-queueing only over a NEW edge, the fold of a solution into a prefix-comparable one).
    One run of the reducer over a sub-frontier (`reducerLoop`, level `F`, lookahead kind `a`) on a certified table,
    started in a state that satisfies the engine invariant `RInv`, the uniqueness invariants `UInv` (one edge per
    pair of heads, one head per state in the sub-frontier, level-internal edges inside the sub-frontier), with
    every queued reduction starting in the sub-frontier (`QSub`) and every chain covered or pending (`RCInv`).
    When the loop ends (`ok`, any fuel) the queue is empty and EVERY chain is COVERED: for every root head `u`
    whose state holds the initial item `[A → . α, a]`, every chain of parent links from `u` spelling a prefix
    `α[0..l)` up to a head of the sub-frontier, with `α[l..]` nullable from the first head of level `F` on and
    the goto state alive on `a`, the edge from the head for `goto(state u, A)` down to `u` carries a possibility of
    that production whose children list is prefix-comparable with the chain.  No reduction path is lost,
    whatever the order in which heads and edges appeared.  This is the statement the fold defect F25, a missing
    re-queue (mutation iii-a) or missing right-nulled table entries (seeded c-C03, excluded by
    `Cert.completeRN`) would violate. -/
theorem C03_engine_reduction_closure (env : Env) (hcert : Cert.glr env.g env.t = true)
    (hcomp : Cert.completeRN env.g env.t = true) (F a fuel : Nat) (rs rs' : RState)
    (hI : RInv env F rs) (hU : UInv F a rs.gss rs.sub) (hq : QSub rs) (hrc : RCInv env F a rs)
    (h : reducerLoop env fuel rs = .ok rs') :
    RInv env F rs' ∧ UInv F a rs'.gss rs'.sub ∧ rs'.queue = [] ∧
    ∀ (u p : Nat) (pr : Prod) (P : List Nat) (s' : Nat), KChain env F a rs'.gss rs'.sub u p pr P s' →
      Covered rs' u p P s' := by
  obtain ⟨hC, hW⟩ := Cert.completeRN_sound _ _ hcomp
  obtain ⟨k1, _, k3, k4, k5⟩ := reducerLoop_closure (tableOk_of_cert env hcert) hC hW fuel rs rs' hI hU hq hrc h
  exact ⟨k1, k3, k4, k5⟩

/-- **(d), second proved part: completeness FROM the closure properties** (the forward induction over the
    derivation tree, Jourdan–Pottier–Leroy's `push_tree` / `push_list` carried out on the graph structured stack).
    Let `r` be a result of the engine on a certified table and suppose that in its graph every level `k ≤ n` is
    *done* (`LevelDone`: the sub-frontier `subs k` is closed under reductions — the conclusion of
    `C03_engine_reduction_closure` —, every shift on `tok k` from it was performed, every head of level `k` whose
    state is alive on `tok k` belongs to it), the start head is in `subs 0`, `tok n` is STOP, and the heads of
    `subs n` that accept on STOP contribute their possibilities to the roots.  Then EVERY derivation tree of the
    token kinds `tok 0 … tok (n-1)` from the start symbol is returned by `getTree` modulo elision (`Tree.EqElide`),
    provided the unfolding is not cut (acyclic SPPF).  Uses the liveness lemma (`live_list`: a state holding an item
    whose rest can start with `a` has an action on `a`, so "no actions ⇒ skip" never drops a needed reduction).
    That the run establishes `LevelDone` for every level under `LexDet` is `Proofs/GlrRun9.lean` (used by
    `C03_engine_complete`). -/
theorem C03_engine_complete_from_closure (env : Env) (hcert : Cert.glr env.g env.t = true)
    (hcomp : Cert.completeRN env.g env.t = true) (partialParse : Bool) (fuel : Nat) (r : GlrResult)
    (h : Glr.parse env partialParse fuel = .ok r) (hc : r.droots.hasCut = false)
    (tok : Nat → Tok) (n : Nat) (subs : Nat → SubFrontier)
    (hdone : ∀ k, k ≤ n → LevelDone env r.gss tok k (subs k)) (hstart : (0, 0) ∈ subs 0)
    (hstop : (tok n).kind = 0)
    (hacc : ∀ (s v : Nat), (s, v) ∈ subs n → Action.accept ∈ env.t.cell s 0 →
      ∀ (e : Nat) (ed : Edge), r.gss.edges[e]? = some ed → ed.src = v → ∀ m ∈ ed.poss, m ∈ r.roots)
    (full : Tree) (hv : full.Valid env.g env.g.startIdx) (hy : full.yield = kindsOf tok 0 n) :
    ∃ i tr, r.getTree i = some tr ∧ Tree.EqElide full tr := by
  obtain ⟨hC, hW⟩ := Cert.completeRN_sound _ _ hcomp
  have hr := Glr.parse_sound env hcert partialParse fuel r h
  obtain ⟨s', v, e, ed, m, k, tr, k1, k2, k3, k4, _, k6, k7, k8⟩ :=
    accept_of_allDone ⟨tableOk_of_cert env hcert, hC, hW, hr.g, hdone⟩ hstart hstop full hv hy
  obtain ⟨i, hi⟩ := getTree_of_root hr hc (hacc s' v k1 k2 e ed k3 k4 m k6) k7
  exact ⟨i, tr, hi, k8⟩

/-- **(d) Completeness of the engine — PROVED** (the full statement `C03_engine_complete_statement`).
    For a table passing `Cert.glr` and `Cert.completeRN`, under the token-level lexer hypothesis `LexDet` (tokens
    `tok 0 … tok (n-1)`, end token `tok n` of kind STOP; a head of level `i` is offered exactly `tok i` iff its state
    has an action on that kind): if the token kinds are a sentence with derivation tree `full`, then `Glr.parse`
    (any fuel, partial parse on or off) does NOT return an error, and every result whose SPPF unfolding is not cut
    (acyclic) returns, for some index, a tree equal to `full` modulo elision.  Hence: every derivation tree of the
    sentence is in the forest; a fold defect (F25), a missing re-queue, a lost sub-frontier head, a wrong shift merge,
    an accept that is not recorded or missing right-nulled table entries would each falsify it.
    Proof: run invariant `RunInv` over the main loop (`Proofs/GlrRun9.lean`): `create_frontier` under `LexDet`
    (`createFrontier_lexdet`), the closure invariant at the start of the reducer (`start_closure`), reduction closure
    (`reducerLoop_closureX`) with the book-keeping `RB` (shifts/accepts recorded, lower levels framed), the shifter
    (`shifter_run`), persistence of finished levels (`LevelDone.frame`), then `accept_of_allDone` + `getTree_of_root`.
    What it does NOT say: nothing about inputs on which the real lexer is not token-deterministic (`LexDet` is a
    hypothesis, validated by the correspondence runs, not proved of the lexer model); cyclic SPPFs are excluded;
    termination (fuel) is not proved (a `timeout` outcome satisfies the statement vacuously). -/
theorem C03_engine_complete : C03_engine_complete_statement := by
  intro env hcert hcomp pp fuel n tok P L hL full hv hy
  obtain ⟨hC, hW⟩ := Cert.completeRN_sound _ _ hcomp
  have hT := tableOk_of_cert env hcert
  have hy' : full.yield = kindsOf tok 0 n := by
    rw [hy]; unfold kindsOf; rw [List.range_eq_range']; rfl
  have hgood := parse_complete_roots hT hC hW hC.noShiftStop hL full hv hy'
  constructor
  · intro e he
    rw [he] at hgood
    exact hgood
  · intro r hr hcut
    rw [hr] at hgood
    obtain ⟨m, k, tr, hm, hinu, heq⟩ := hgood
    obtain ⟨i, hi⟩ := getTree_of_root (Glr.parse_sound env hcert pp fuel r hr) hcut hm hinu
    exact ⟨i, tr, hi, heq⟩

/-- non-vacuity of `C03_engine_complete`: its hypotheses hold of the example grammar (real LALR_RN table) on the input
    `aa` — both certificates, and the lexer hypothesis `LexDet` (tokens `a`, `a`, STOP; proved for ALL heads) … -/
example : LexDet (Glr.Example.env 2) false 9 2 Glr.Example.tok Glr.Example.pos Glr.Example.pos := Glr.Example.lexDet_aa

/-- … so for the derivation `S ⇒ a S A ⇒ a (a S A) A` with every `S`, `A` below EMPTY (one of the two derivations of
    `aa`; the engine's trees elide the trailing EMPTY children) the theorem yields: no error, and the tree is among
    the results modulo elision. -/
def fullAA : Tree :=
  .node 1 default none (.cons (.leaf 1 default (0, 1) none) (.cons
    (.node 1 default none (.cons (.leaf 1 default (1, 1) none) (.cons (.node 2 default none .nil)
      (.cons (.node 4 default none .nil) .nil))))
    (.cons (.node 4 default none .nil) .nil)))

example : (∀ e, Glr.parse (Glr.Example.env 2) false 9 ≠ .err e) ∧
    ∀ r, Glr.parse (Glr.Example.env 2) false 9 = .ok r → r.droots.hasCut = false →
      ∃ i tr, r.getTree i = some tr ∧ Tree.EqElide fullAA tr :=
  C03_engine_complete (Glr.Example.env 2) (by decide +kernel) (by decide +kernel) false 9 2 Glr.Example.tok
    Glr.Example.pos Glr.Example.pos Glr.Example.lexDet_aa fullAA
    (Tree.validB_sound _ _ _ (by decide +kernel)) (by decide +kernel)

/-- non-vacuity of the certificates of the closure theorem: the real LALR_RN table of the example grammar -/
example : Cert.completeRN Glr.Example.g Glr.Example.t = true := by decide +kernel

/-- non-vacuity: the certificate holds of the table the real compiler builds for the right-nullable ambiguous
    grammar `S: 'a' S A | EMPTY; A: 'a' | EMPTY` (right-nulled reductions `reduce 1 1`, `reduce 1 2`) … -/
example : Cert.glr Glr.Example.g Glr.Example.t = true := by decide +kernel

/-- … the engine accepts `aa` and `aaa` with 2 and 3 trees, rejects nothing it should accept … -/
example : Glr.Example.solutionsOf (Glr.parse (Glr.Example.env 2) false 9) = some 2 := by decide +kernel
example : Glr.Example.solutionsOf (Glr.parse (Glr.Example.env 3) false 12) = some 3 := by decide +kernel

/-- … and `LayoutSafe` / `Cert.glrLayout` hold of it (no Layout rule). -/
example : (Glr.Example.env 2).t.layoutState = none := rfl
example : Cert.glrLayout Glr.Example.g Glr.Example.t = true := by decide

end Rustemo.Props.C03
