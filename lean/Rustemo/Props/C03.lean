import Rustemo.Proofs.Forest
/-!
# C03 — the GLR forest contains exactly the derivation trees of the input

**Full statement** (`C03_statement` below is the part about the forest API; the claim that the
graph-structured-stack engine puts exactly the derivation trees into the forest is NOT proved —
Scott–Johnstone's argument is a long paper proof — and is decided by correspondence with an
independent derivation enumerator on generated grammars and inputs).

Proved here, for every SPPF shape (the SPPF is an inductive value, i.e. acyclic): the weighted
mixed-radix index decoding of `Forest::get_tree` / `Tree::children` / `find_tree_root`
enumerates the canonical enumeration `allTrees` — each tree of the forest exactly once, by index
and by iteration, and `None` from `solutions()` on.
-/
namespace Rustemo.Props.C03
open Rustemo.Forest

/-- `get_tree i` is the i-th tree of the canonical enumeration, the number of trees is
    `solutions()`, and every index at or beyond `solutions()` yields no tree. -/
theorem C03_forest_enum (f : Forest) (hw : f.roots.WF) :
    (∀ i, f.getTree i = f.allTrees[i]?) ∧ f.allTrees.length = f.solutions ∧
    (∀ i, f.solutions ≤ i → f.getTree i = none) := by
  refine ⟨fun i => NList.get_eq f.roots i hw, NList.len_all f.roots, ?_⟩
  intro i hi
  unfold Forest.getTree
  rw [NList.get_eq f.roots i hw]
  exact List.getElem?_eq_none (by rw [NList.len_all]; exact hi)

/-- enumerating by index over `0 .. solutions()-1` yields every tree exactly once, in order -/
theorem C03_by_index_is_all (f : Forest) (hw : f.roots.WF) :
    (List.range f.solutions).map f.getTree = f.allTrees.map some := by
  apply List.ext_getElem?
  intro i
  have h := (C03_forest_enum f hw).1
  have hl := (C03_forest_enum f hw).2.1
  simp only [List.getElem?_map, List.getElem?_range]
  by_cases hi : i < f.solutions
  · simp only [hi, List.getElem?_range, Option.map_some]
    rw [h i]
    have : i < f.allTrees.length := by omega
    simp [List.getElem?_eq_getElem this]
  · have h1 : (List.range f.solutions)[i]? = none := by
      apply List.getElem?_eq_none; simp; omega
    have h2 : f.allTrees[i]? = none := by
      apply List.getElem?_eq_none; omega
    simp [h1, h2]

/-- `Forest::iter` / `into_iter` (call `get_tree(0), get_tree(1), …` until `None`) yields exactly
    `allTrees` -/
theorem C03_iteration_is_all (f : Forest) (hw : f.roots.WF) (fuel : Nat) (h : f.solutions ≤ fuel) :
    f.iterate fuel 0 = f.allTrees := by
  rw [iterate_eq f hw fuel 0 (by omega)]
  simp

/-- non-vacuity: an ambiguous forest (two roots sharing nothing, one with a packed child) -/
example : (NList.cons (.nonterm 1 (.cons (.mk (.cons (.term 1 0) (.cons (.term 2 0) .nil))) .nil))
           (.cons (.term 3 0) .nil)).WF := by
  simp [NList.WF, SNode.WF, PList.WF, Parent.WF, NList.sum, SNode.solutions]

end Rustemo.Props.C03
