import Rustemo.Model.LR
namespace Rustemo.Props.C06
end Rustemo.Props.C06
