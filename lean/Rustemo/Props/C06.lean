import Rustemo.Proofs.LexFilters
import Rustemo.Proofs.LexOrder
/-!
# C06 — lexical ambiguity is resolved in the documented order of strategies

`Lex.iter` is the `TokenIterator` (lexer.rs), `Lex.withFlags` the finish flags and `Lex.key` the sort
key of `sort_terminals` (table/mod.rs; the pair `(prio, string length)`, compared lexicographically by
`Lex.KeyLt`), `lrPick` / `glrKeep` the filters of `LRParser::next_token` and
`GlrParser::find_lookaheads`; `m` is an ARBITRARY matching function (which expected terminals match at
the current position, and how long), so the theorems cover every terminal set, every input and every
combination of the switches at once.  The sorted list is certified per state of the real table by
the executable `Lex.sortedOk` (sorted by key, ties in grammar order, flags as computed by
`withFlags`, string recognizers not empty).  There is no upper bound on the length of a string
recognizer any more: the former arithmetic key `prio*1000+len` forced `len < 1000`, the pair does not.

The last strategy, grammar order, is covered too: the iterator yields its tokens in strictly
increasing grammar index (`C06_iterator_order`: what it yields is a sublist of the sorted list whose
members all have the same sort key, and the sort breaks ties of the key by grammar index), so the
first of the remaining tokens — the one LR acts on, and the only one GLR keeps with grammar order on —
is the one that comes first in the grammar (`C06_lr_picks_first_in_grammar`,
`C06_glr_grammar_order_is_first`).
-/
namespace Rustemo.Props.C06
open Rustemo.Lex

/-- **Priority, then most specific.**  The iterator yields a terminal iff it matches, no matching
    terminal has a higher priority and — with most-specific on — it is the longest matching string
    recognizer of that priority (first in grammar order among equally long ones) if a string of that
    priority matches at all, and a regex only if none does. -/
theorem C06_iterator_yields_survivors (ms : Bool) (m : Nat → Option Nat) (S : List TermDesc)
    (hs : sortedB ms S = true) (hw : S.all wftB = true) (t : TermDesc) (l : Nat) :
    (t, l) ∈ iter m false (withFlags ms S) ↔ (Survives ms m S t ∧ m t.idx = some l) :=
  iter_survivors ms m S (sortedB_sound ms S hs)
    (fun u hu => wftB_sound u (List.all_eq_true.mp hw u hu)) t l

/-- **Then longest match (LR).**  The token the LR parser acts on is a survivor, of maximal length
    among the survivors if longest-match is on; no token is found iff nothing survives. -/
theorem C06_lr_acts_on (ms longest : Bool) (m : Nat → Option Nat) (S : List TermDesc)
    (hs : sortedB ms S = true) (hw : S.all wftB = true) :
    (∀ t l, lrPick longest (iter m false (withFlags ms S)) = some (t, l) →
        Survives ms m S t ∧ m t.idx = some l ∧
        (longest = true → ∀ u lu, Survives ms m S u → m u.idx = some lu → lu ≤ l)) ∧
    (lrPick longest (iter m false (withFlags ms S)) = none ↔ ∀ u, ¬ Survives ms m S u) := by
  obtain ⟨h1, h2⟩ := lrPick_spec longest (iter m false (withFlags ms S))
  have hiff := C06_iterator_yields_survivors ms m S hs hw
  constructor
  · intro t l h
    obtain ⟨hin, hmax⟩ := h1 (t, l) h
    obtain ⟨hsv, hm⟩ := (hiff t l).mp hin
    refine ⟨hsv, hm, fun hl u lu hsu hmu => ?_⟩
    exact hmax hl (u, lu) ((hiff u lu).mpr ⟨hsu, hmu⟩)
  · rw [h2]
    constructor
    · intro hnil u hsu
      have hmu : ∃ lu, m u.idx = some lu := by
        have := hsu.1.2.1
        unfold Matches at this
        exact Option.isSome_iff_exists.mp this
      obtain ⟨lu, hmu⟩ := hmu
      have := (hiff u lu).mpr ⟨hsu, hmu⟩
      rw [hnil] at this
      simp at this
    · intro hno
      cases hit : iter m false (withFlags ms S) with
      | nil => rfl
      | cons x xs =>
        exfalso
        have : (x.1, x.2) ∈ iter m false (withFlags ms S) := by rw [hit]; simp
        exact hno x.1 ((hiff x.1 x.2).mp this).1

/-- **GLR with grammar order off keeps every survivor** (of maximal length if longest-match is on);
    each kept token becomes a head of the frontier. -/
theorem C06_glr_keeps (ms longest : Bool) (m : Nat → Option Nat) (S : List TermDesc)
    (hs : sortedB ms S = true) (hw : S.all wftB = true) (t : TermDesc) (l : Nat) :
    (t, l) ∈ glrKeep longest false (iter m false (withFlags ms S)) ↔
      (Survives ms m S t ∧ m t.idx = some l ∧
       (longest = true → ∀ u lu, Survives ms m S u → m u.idx = some lu → lu ≤ l)) := by
  have hiff := C06_iterator_yields_survivors ms m S hs hw
  rw [glrKeep_spec]
  constructor
  · rintro ⟨hin, hmax⟩
    obtain ⟨hsv, hm⟩ := (hiff t l).mp hin
    exact ⟨hsv, hm, fun hl u lu hsu hmu => hmax hl (u, lu) ((hiff u lu).mpr ⟨hsu, hmu⟩)⟩
  · rintro ⟨hsv, hm, hmax⟩
    refine ⟨(hiff t l).mpr ⟨hsv, hm⟩, fun hl u hu => ?_⟩
    obtain ⟨hsu, hmu⟩ := (hiff u.1 u.2).mp hu
    exact hmax hl u.1 u.2 hsu hmu

/-- with grammar order on, GLR keeps at most one of them -/
theorem C06_glr_grammar_order (longest : Bool) (toks : List (TermDesc × Nat)) (t : TermDesc × Nat)
    (h : t ∈ glrKeep longest true toks) :
    t ∈ glrKeep longest false toks ∧ (glrKeep longest true toks).length ≤ 1 :=
  glrKeep_order_spec longest toks t h

/-- the iterator of the byte-level LR model (the one the correspondence check runs against the real
    parser) is `iter` with the recognizers as matching function -/
theorem C06_model_iterator_is_iter (env : Rustemo.Env) (pos : Rustemo.Pos) (L : List (TermDesc × Bool)) :
    (Rustemo.tokenIter env pos (L.map fun (t, f) => (t.idx, f))).map (fun tk => (tk.kind, tk.val.2)) =
    (iter (fun k => env.recog k pos.pos) false L).map (fun (t, l) => (t.idx, l)) :=
  tokenIterAux_eq_iter env pos L false

/-- non-vacuity: a three-terminal state (string `if` prio 10, regex prio 10, regex prio 5), most
    specific on -/
example : sortedB true [⟨1, 10, some 2⟩, ⟨2, 10, none⟩, ⟨3, 5, none⟩] = true ∧
    [⟨1, 10, some 2⟩, ⟨2, 10, none⟩, (⟨3, 5, none⟩ : TermDesc)].all wftB = true := by decide

/-- no length bound is needed: a string recognizer of 1000 bytes with priority 9 sorts AFTER a regex
    of priority 10 (key `(10, 0) > (9, 1000)` lexicographically; under the former key
    `9*1000+1000 = 10*1000+0` the two tied and grammar order put the string first).  The list in
    priority order is sorted and well-formed, the reverse order is not sorted. -/
theorem C06_long_string_does_not_outrank :
    sortedB true [⟨2, 10, none⟩, ⟨1, 9, some 1000⟩] = true ∧
    [⟨2, 10, none⟩, (⟨1, 9, some 1000⟩ : TermDesc)].all wftB = true ∧
    sortedB true [⟨1, 9, some 1000⟩, ⟨2, 10, none⟩] = false := by decide

/-- and the model of the sort itself puts them in that order, whatever the incoming order -/
example : sortTerms true [⟨1, 9, some 1000⟩, ⟨2, 10, none⟩] = [⟨2, 10, none⟩, ⟨1, 9, some 1000⟩] ∧
    sortTerms true [⟨2, 10, none⟩, ⟨1, 9, some 1000⟩] = [⟨2, 10, none⟩, ⟨1, 9, some 1000⟩] := by decide

/-- **Finally grammar order: the iterator yields its tokens in grammar order.**  For `a` before `b`
    in the yielded list, `a`'s grammar index is strictly lower than `b`'s: the yielded list is a
    sublist (in order) of the sorted list, all survivors share one sort key, and ties of the key are
    sorted by grammar index.  No hypothesis beyond those of the other C06 theorems. -/
theorem C06_iterator_order (ms : Bool) (m : Nat → Option Nat) (S : List TermDesc)
    (hs : sortedB ms S = true) (hw : S.all wftB = true) :
    (iter m false (withFlags ms S)).Pairwise (fun a b => a.1.idx < b.1.idx) :=
  iter_idx_increasing ms m S (sortedB_sound ms S hs)
    (fun u hu => wftB_sound u (List.all_eq_true.mp hw u hu))

/-- non-vacuity: two regexes and a string of the top priority plus a lower one; without most-specific
    all three of the top priority are yielded, in grammar order 1, 2, 4 -/
example :
    sortedB false [⟨1, 10, none⟩, ⟨2, 10, some 2⟩, ⟨4, 10, none⟩, ⟨3, 5, none⟩] = true ∧
    [⟨1, 10, none⟩, ⟨2, 10, some 2⟩, ⟨4, 10, none⟩, (⟨3, 5, none⟩ : TermDesc)].all wftB = true ∧
    iter (fun i => some (i + 1)) false
        (withFlags false [⟨1, 10, none⟩, ⟨2, 10, some 2⟩, ⟨4, 10, none⟩, ⟨3, 5, none⟩]) =
      [(⟨1, 10, none⟩, 2), (⟨2, 10, some 2⟩, 3), (⟨4, 10, none⟩, 5)] := by decide

/-- non-vacuity with most-specific on: two equally long strings (grammar indices 3 and 5) and two
    regexes (1 and 6) of one priority.  If everything matches only string 3 is yielded (the earlier of
    the two); if no string matches, the regexes are yielded in grammar order 1, 6 -/
example :
    sortedB true [⟨3, 10, some 2⟩, ⟨5, 10, some 2⟩, ⟨1, 10, none⟩, ⟨6, 10, none⟩] = true ∧
    [⟨3, 10, some 2⟩, ⟨5, 10, some 2⟩, ⟨1, 10, none⟩, (⟨6, 10, none⟩ : TermDesc)].all wftB = true ∧
    iter (fun _ => some 2) false
        (withFlags true [⟨3, 10, some 2⟩, ⟨5, 10, some 2⟩, ⟨1, 10, none⟩, ⟨6, 10, none⟩]) =
      [(⟨3, 10, some 2⟩, 2)] ∧
    iter (fun i => if i = 3 ∨ i = 5 then none else some i) false
        (withFlags true [⟨3, 10, some 2⟩, ⟨5, 10, some 2⟩, ⟨1, 10, none⟩, ⟨6, 10, none⟩]) =
      [(⟨1, 10, none⟩, 1), (⟨6, 10, none⟩, 6)] := by decide

/-- **LR acts on the first in the grammar.**  The token the LR parser acts on is EXACTLY the survivor
    of "priority, then most specific" that passes the longest-match filter (if on) and has the lowest
    grammar index among the survivors that pass it.  (That no token is found iff nothing survives is
    `C06_lr_acts_on`.) -/
theorem C06_lr_picks_first_in_grammar (ms longest : Bool) (m : Nat → Option Nat) (S : List TermDesc)
    (hs : sortedB ms S = true) (hw : S.all wftB = true) (t : TermDesc) (l : Nat) :
    lrPick longest (iter m false (withFlags ms S)) = some (t, l) ↔
      (Survives ms m S t ∧ m t.idx = some l ∧
       (longest = true → ∀ u lu, Survives ms m S u → m u.idx = some lu → lu ≤ l) ∧
       (∀ u lu, Survives ms m S u → m u.idx = some lu → (longest = true → lu = l) →
          t.idx ≤ u.idx)) := by
  have hiff := C06_iterator_yields_survivors ms m S hs hw
  rw [lrPick_iff_first longest _ (t, l) (C06_iterator_order ms m S hs hw)]
  constructor
  · rintro ⟨hin, hmax, hfirst⟩
    obtain ⟨hsv, hm⟩ := (hiff t l).mp hin
    exact ⟨hsv, hm, fun hl u lu hsu hmu => hmax hl (u, lu) ((hiff u lu).mpr ⟨hsu, hmu⟩),
      fun u lu hsu hmu hlen => hfirst (u, lu) ((hiff u lu).mpr ⟨hsu, hmu⟩) hlen⟩
  · rintro ⟨hsv, hm, hmax, hfirst⟩
    refine ⟨(hiff t l).mpr ⟨hsv, hm⟩, fun hl u hu => ?_, fun b hb hlen => ?_⟩
    · obtain ⟨hsu, hmu⟩ := (hiff u.1 u.2).mp hu
      exact hmax hl u.1 u.2 hsu hmu
    · obtain ⟨hsb, hmb⟩ := (hiff b.1 b.2).mp hb
      exact hfirst b.1 b.2 hsb hmb hlen

/-- non-vacuity, on the list above (terminal `i` matches `i + 1` bytes, except that 2 and 4 both match
    5): without longest match LR acts on terminal 1, the first in the grammar; with longest match
    terminals 2 and 4 tie on the length and LR acts on 2, the earlier of them -/
example :
    lrPick false (iter (fun i => some (if i = 2 then 5 else i + 1)) false
        (withFlags false [⟨1, 10, none⟩, ⟨2, 10, some 2⟩, ⟨4, 10, none⟩, ⟨3, 5, none⟩])) =
      some (⟨1, 10, none⟩, 2) ∧
    lrPick true (iter (fun i => some (if i = 2 then 5 else i + 1)) false
        (withFlags false [⟨1, 10, none⟩, ⟨2, 10, some 2⟩, ⟨4, 10, none⟩, ⟨3, 5, none⟩])) =
      some (⟨2, 10, some 2⟩, 5) := by decide

/-- **GLR with grammar order on follows exactly the token LR acts on**: what it keeps is the empty
    list or the singleton of the token characterised in `C06_lr_picks_first_in_grammar` (the equation
    holds for any token list; the characterisation for the iterator's). -/
theorem C06_glr_grammar_order_is_first (ms longest : Bool) (m : Nat → Option Nat) (S : List TermDesc)
    (hs : sortedB ms S = true) (hw : S.all wftB = true) :
    glrKeep longest true (iter m false (withFlags ms S)) =
      (lrPick longest (iter m false (withFlags ms S))).toList ∧
    ∀ t l, (t, l) ∈ glrKeep longest true (iter m false (withFlags ms S)) ↔
      (Survives ms m S t ∧ m t.idx = some l ∧
       (longest = true → ∀ u lu, Survives ms m S u → m u.idx = some lu → lu ≤ l) ∧
       (∀ u lu, Survives ms m S u → m u.idx = some lu → (longest = true → lu = l) →
          t.idx ≤ u.idx)) := by
  refine ⟨glrKeep_order_eq_lrPick longest _, fun t l => ?_⟩
  rw [glrKeep_order_eq_lrPick, Option.mem_toList,
    ← C06_lr_picks_first_in_grammar ms longest m S hs hw t l]

/-- non-vacuity, same list and matching function: GLR with grammar order keeps just terminal 2 under
    longest match (2 and 4 tie), and all of 2 and 4 with grammar order off -/
example :
    glrKeep true true (iter (fun i => some (if i = 2 then 5 else i + 1)) false
        (withFlags false [⟨1, 10, none⟩, ⟨2, 10, some 2⟩, ⟨4, 10, none⟩, ⟨3, 5, none⟩])) =
      [(⟨2, 10, some 2⟩, 5)] ∧
    glrKeep true false (iter (fun i => some (if i = 2 then 5 else i + 1)) false
        (withFlags false [⟨1, 10, none⟩, ⟨2, 10, some 2⟩, ⟨4, 10, none⟩, ⟨3, 5, none⟩])) =
      [(⟨2, 10, some 2⟩, 5), (⟨4, 10, none⟩, 5)] := by decide

end Rustemo.Props.C06
