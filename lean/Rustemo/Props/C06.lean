import Rustemo.Proofs.LexFilters
/-!
# C06 — lexical ambiguity is resolved in the documented order of strategies

`Lex.iter` is the `TokenIterator` (lexer.rs), `Lex.withFlags` the finish flags and `Lex.key` the sort
key of `sort_terminals` (table/mod.rs; the pair `(prio, string length)`, compared lexicographically by
`Lex.KeyLt`), `lrPick` / `glrKeep` the filters of `LRParser::next_token` and
`GlrParser::find_lookaheads`; `m` is an ARBITRARY matching function (which expected terminals match at
the current position, and how long), so the theorems cover every terminal set, every input and every
combination of the switches at once.  The sorted list is certified per state of the real table by
the executable `Lex.sortedOk` (sorted by key, ties in grammar order, flags as computed by
`withFlags`, string recognizers not empty).  There is no upper bound on the length of a string
recognizer any more: the former arithmetic key `prio*1000+len` forced `len < 1000`, the pair does not.

PARTIAL: the last strategy, grammar order (LR takes the first of the remaining tokens; that the first
one is the earliest in the grammar), is decided by oracle + correspondence only.
-/
namespace Rustemo.Props.C06
open Rustemo.Lex

/-- **Priority, then most specific.**  The iterator yields a terminal iff it matches, no matching
    terminal has a higher priority and — with most-specific on — it is the longest matching string
    recognizer of that priority (first in grammar order among equally long ones) if a string of that
    priority matches at all, and a regex only if none does. -/
theorem C06_iterator_yields_survivors (ms : Bool) (m : Nat → Option Nat) (S : List TermDesc)
    (hs : sortedB ms S = true) (hw : S.all wftB = true) (t : TermDesc) (l : Nat) :
    (t, l) ∈ iter m false (withFlags ms S) ↔ (Survives ms m S t ∧ m t.idx = some l) :=
  iter_survivors ms m S (sortedB_sound ms S hs)
    (fun u hu => wftB_sound u (List.all_eq_true.mp hw u hu)) t l

/-- **Then longest match (LR).**  The token the LR parser acts on is a survivor, of maximal length
    among the survivors if longest-match is on; no token is found iff nothing survives. -/
theorem C06_lr_acts_on (ms longest : Bool) (m : Nat → Option Nat) (S : List TermDesc)
    (hs : sortedB ms S = true) (hw : S.all wftB = true) :
    (∀ t l, lrPick longest (iter m false (withFlags ms S)) = some (t, l) →
        Survives ms m S t ∧ m t.idx = some l ∧
        (longest = true → ∀ u lu, Survives ms m S u → m u.idx = some lu → lu ≤ l)) ∧
    (lrPick longest (iter m false (withFlags ms S)) = none ↔ ∀ u, ¬ Survives ms m S u) := by
  obtain ⟨h1, h2⟩ := lrPick_spec longest (iter m false (withFlags ms S))
  have hiff := C06_iterator_yields_survivors ms m S hs hw
  constructor
  · intro t l h
    obtain ⟨hin, hmax⟩ := h1 (t, l) h
    obtain ⟨hsv, hm⟩ := (hiff t l).mp hin
    refine ⟨hsv, hm, fun hl u lu hsu hmu => ?_⟩
    exact hmax hl (u, lu) ((hiff u lu).mpr ⟨hsu, hmu⟩)
  · rw [h2]
    constructor
    · intro hnil u hsu
      have hmu : ∃ lu, m u.idx = some lu := by
        have := hsu.1.2.1
        unfold Matches at this
        exact Option.isSome_iff_exists.mp this
      obtain ⟨lu, hmu⟩ := hmu
      have := (hiff u lu).mpr ⟨hsu, hmu⟩
      rw [hnil] at this
      simp at this
    · intro hno
      cases hit : iter m false (withFlags ms S) with
      | nil => rfl
      | cons x xs =>
        exfalso
        have : (x.1, x.2) ∈ iter m false (withFlags ms S) := by rw [hit]; simp
        exact hno x.1 ((hiff x.1 x.2).mp this).1

/-- **GLR with grammar order off keeps every survivor** (of maximal length if longest-match is on);
    each kept token becomes a head of the frontier. -/
theorem C06_glr_keeps (ms longest : Bool) (m : Nat → Option Nat) (S : List TermDesc)
    (hs : sortedB ms S = true) (hw : S.all wftB = true) (t : TermDesc) (l : Nat) :
    (t, l) ∈ glrKeep longest false (iter m false (withFlags ms S)) ↔
      (Survives ms m S t ∧ m t.idx = some l ∧
       (longest = true → ∀ u lu, Survives ms m S u → m u.idx = some lu → lu ≤ l)) := by
  have hiff := C06_iterator_yields_survivors ms m S hs hw
  rw [glrKeep_spec]
  constructor
  · rintro ⟨hin, hmax⟩
    obtain ⟨hsv, hm⟩ := (hiff t l).mp hin
    exact ⟨hsv, hm, fun hl u lu hsu hmu => hmax hl (u, lu) ((hiff u lu).mpr ⟨hsu, hmu⟩)⟩
  · rintro ⟨hsv, hm, hmax⟩
    refine ⟨(hiff t l).mpr ⟨hsv, hm⟩, fun hl u hu => ?_⟩
    obtain ⟨hsu, hmu⟩ := (hiff u.1 u.2).mp hu
    exact hmax hl u.1 u.2 hsu hmu

/-- with grammar order on, GLR keeps at most one of them -/
theorem C06_glr_grammar_order (longest : Bool) (toks : List (TermDesc × Nat)) (t : TermDesc × Nat)
    (h : t ∈ glrKeep longest true toks) :
    t ∈ glrKeep longest false toks ∧ (glrKeep longest true toks).length ≤ 1 :=
  glrKeep_order_spec longest toks t h

/-- the iterator of the byte-level LR model (the one the correspondence check runs against the real
    parser) is `iter` with the recognizers as matching function -/
theorem C06_model_iterator_is_iter (env : Rustemo.Env) (pos : Rustemo.Pos) (L : List (TermDesc × Bool)) :
    (Rustemo.tokenIter env pos (L.map fun (t, f) => (t.idx, f))).map (fun tk => (tk.kind, tk.val.2)) =
    (iter (fun k => env.recog k pos.pos) false L).map (fun (t, l) => (t.idx, l)) :=
  tokenIterAux_eq_iter env pos L false

/-- non-vacuity: a three-terminal state (string `if` prio 10, regex prio 10, regex prio 5), most
    specific on -/
example : sortedB true [⟨1, 10, some 2⟩, ⟨2, 10, none⟩, ⟨3, 5, none⟩] = true ∧
    [⟨1, 10, some 2⟩, ⟨2, 10, none⟩, (⟨3, 5, none⟩ : TermDesc)].all wftB = true := by decide

/-- no length bound is needed: a string recognizer of 1000 bytes with priority 9 sorts AFTER a regex
    of priority 10 (key `(10, 0) > (9, 1000)` lexicographically; under the former key
    `9*1000+1000 = 10*1000+0` the two tied and grammar order put the string first).  The list in
    priority order is sorted and well-formed, the reverse order is not sorted. -/
theorem C06_long_string_does_not_outrank :
    sortedB true [⟨2, 10, none⟩, ⟨1, 9, some 1000⟩] = true ∧
    [⟨2, 10, none⟩, (⟨1, 9, some 1000⟩ : TermDesc)].all wftB = true ∧
    sortedB true [⟨1, 9, some 1000⟩, ⟨2, 10, none⟩] = false := by decide

/-- and the model of the sort itself puts them in that order, whatever the incoming order -/
example : sortTerms true [⟨1, 9, some 1000⟩, ⟨2, 10, none⟩] = [⟨2, 10, none⟩, ⟨1, 9, some 1000⟩] ∧
    sortTerms true [⟨2, 10, none⟩, ⟨1, 9, some 1000⟩] = [⟨2, 10, none⟩, ⟨1, 9, some 1000⟩] := by decide

end Rustemo.Props.C06
