import Rustemo.Proofs.Roundtrip
import Rustemo.Props.C13
/-!
# C14 — the generic parse tree is lossless: tokens and layout reconstruct the input

`Tree.flat input t` concatenates, for each leaf of `t` in order, the layout stored before it and the
token text (both are slices of the input buffer).  Proved for the default string lexer with
whitespace skipping on or off, any recognizers, partial parsing on or off, every input.

NOT proved (decided by oracle + correspondence on generated grammars and inputs): the same identity
under a user Layout rule (whitespace, comments, nested comments), that the stored layout is
whitespace / a sentence of the Layout rule, and that inserting layout never changes the tree.
-/
namespace Rustemo.Props.C14
open Rustemo

/-- **Round trip.**  If the parser returns `ok r` in final context `ctx`, the leaves of `r.tree`
    with their stored layout, followed by the layout skipped before the end, are exactly the
    consumed input `input[0, ctx.pos)`. -/
theorem C14_roundtrip (env : Env) (hc : env.custom = none) (hl : env.t.layoutState = none)
    (hr : RecogOk env) (hstop : Cert.noShiftStop env.t = true)
    (hcert : Cert.structural env.g env.t (autosOf env.g env.t) = true)
    (partialParse : Bool) (fuel : Nat) (ctx : Ctx) (r : ParseResult)
    (h : parse env partialParse fuel = (ctx, .ok r)) :
    Tree.flat env.input r.tree ++ layBytes env.input ctx.lay = env.input.take ctx.pos.pos :=
  parse_roundtrip env hc hl hr (C13.noShiftStop_sound _ hstop) (Cert.structural_sound _ _ _ hcert)
    partialParse fuel ctx r h

/-- non-vacuity -/
example : Example.env.custom = none ∧ Example.env.t.layoutState = none ∧
    Cert.noShiftStop Example.env.t = true ∧
    Cert.structural Example.env.g Example.env.t (autosOf Example.env.g Example.env.t) = true ∧
    Example.isOk (parse Example.env false 100).2 = true := by decide

end Rustemo.Props.C14
