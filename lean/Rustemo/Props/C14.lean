import Rustemo.Proofs.Roundtrip
import Rustemo.Proofs.LayoutRT
import Rustemo.Proofs.LayoutRTExample
import Rustemo.Proofs.LayoutRTLay
import Rustemo.Proofs.LayoutRTInsertPath
import Rustemo.Props.C13
/-!
# C14 — the generic parse tree is lossless: tokens and layout reconstruct the input

`Tree.flat input t` concatenates, for each leaf of `t` in order, the layout stored before it and the
token text (both are slices of the input buffer).

* `C14_roundtrip` — round trip for the default string lexer with whitespace skipping on or off (no
  Layout rule), any recognizers, partial parsing on or off, every input.
* `C14_roundtrip_layout` — round trip under a user Layout rule, every input, no hypothesis on the
  input: only the table certificates and the static `LayoutCert.autoOk` (the layout automaton is one
  of the table's automata and its symbol is a nonterminal).  This is a theorem about the code AFTER
  the repairs of the known findings C14-N1 (layout skipped when the lexer is re-run after a reduce is
  merged into the layout ahead, `mergeLay`) and C14-N2 (a failed or empty layout parse leaves the
  position where it was).  For the code before them (`Model/LROld.lean`, frozen) the identity is
  false: `C14_counterexample_relex_layout_discarded`, `C14_counterexample_failed_layout_advances`.
* `C14_layout_is_whitespace`, `C14_layout_is_layout_sentence` — what is stored as layout is
  whitespace / a concatenation of sentences of the Layout rule, each tiled by adjacent tokens.
* `C14_insertion_invariant_path` (= `C14_insertion_statement`), `C14_insertion_invariant` — changing
  the whitespace between the tokens of an accepted input does not change the tree (kinds,
  productions, token texts), for the default lexer without a Layout rule.

NOT proved: insertion invariance under a Layout rule (comments inserted between tokens), and the
derivation of the alignment hypothesis from a syntactic notion of "whitespace-local recognizer"
(oracle on generated inputs only); the GLR parser.
-/
namespace Rustemo.Props.C14
open Rustemo

/-- **Round trip.**  If the parser returns `ok r` in final context `ctx`, the leaves of `r.tree`
    with their stored layout, followed by the layout skipped before the end, are exactly the
    consumed input `input[0, ctx.pos)`. -/
theorem C14_roundtrip (env : Env) (hc : env.custom = none) (hl : env.t.layoutState = none)
    (hr : RecogOk env) (hstop : Cert.noShiftStop env.t = true)
    (hcert : Cert.structural env.g env.t (autosOf env.g env.t) = true)
    (partialParse : Bool) (fuel : Nat) (ctx : Ctx) (r : ParseResult)
    (h : parse env partialParse fuel = (ctx, .ok r)) :
    Tree.flat env.input r.tree ++ layBytes env.input ctx.lay = env.input.take ctx.pos.pos :=
  parse_roundtrip env hc hl hr (C13.noShiftStop_sound _ hstop) (Cert.structural_sound _ _ _ hcert)
    partialParse fuel ctx r h

/-- non-vacuity -/
example : Example.env.custom = none ∧ Example.env.t.layoutState = none ∧
    Cert.noShiftStop Example.env.t = true ∧
    Cert.structural Example.env.g Example.env.t (autosOf Example.env.g Example.env.t) = true ∧
    Example.isOk (parse Example.env false 100).2 = true := by decide

/-- **Round trip under a user Layout rule.**  String lexer (no whitespace skipping: the generator
    switches it off when the grammar has a Layout rule), any recognizers, any input, partial parsing
    on or off.  If the parser returns `ok r` in final context `ctx`, then the leaves of `r.tree` with
    their stored layout, followed by the layout parsed before the end, are exactly the consumed input
    `input[0, ctx.pos)`; and without the trailing layout they are exactly the input up to the end of
    the last token.  `LayoutCert.autoOk` is a property of the table alone. -/
theorem C14_roundtrip_layout (env : Env) (hc : env.custom = none) (hsk : env.skipWs = false)
    (ls : Nat) (hl : env.t.layoutState = some ls)
    (hr : RecogOk env) (hstop : Cert.noShiftStop env.t = true)
    (hcert : Cert.structural env.g env.t (autosOf env.g env.t) = true)
    (hau : LayoutCert.autoOk env.g env.t ls = true)
    (partialParse : Bool) (fuel : Nat)
    (ctx : Ctx) (r : ParseResult) (h : parse env partialParse fuel = (ctx, .ok r)) :
    Tree.flat env.input r.tree ++ layBytes env.input ctx.lay = env.input.take ctx.pos.pos ∧
    Tree.flat env.input r.tree = env.input.take (endOf r.hist) :=
  parse_roundtrip_layout env hc hsk ls hl hr (C13.noShiftStop_sound _ hstop)
    (Cert.structural_sound _ _ _ hcert) hau partialParse fuel ctx r h

/-- non-vacuity: `S: Ta S | EMPTY; Layout: LayoutItem+; LayoutItem: WS;` on "a  a " -/
example : ExampleLayout.Ws.env.custom = none ∧ ExampleLayout.Ws.env.skipWs = false ∧
    ExampleLayout.Ws.env.t.layoutState = some 4 ∧
    Cert.noShiftStop ExampleLayout.Ws.env.t = true ∧
    Cert.structural ExampleLayout.Ws.env.g ExampleLayout.Ws.env.t
      (autosOf ExampleLayout.Ws.env.g ExampleLayout.Ws.env.t) = true ∧
    LayoutCert.autoOk ExampleLayout.Ws.env.g ExampleLayout.Ws.env.t 4 = true ∧
    flatOf ExampleLayout.Ws.env false 100 = some ([97, 32, 32, 97, 32], [97, 32, 32, 97, 32]) := by
  decide +kernel

example : RecogOk ExampleLayout.Ws.env := Ws.recogOk

/-- the witnesses of the two findings on the repaired loop: `a##x` is accepted and reconstructs
    `a##x` (the `##` skipped on re-lexing is stored before `x`); `a( b` with partial parsing returns the
    prefix `a`, consumed input `a` -/
example : flatOf ExampleLayout.N1.env false 100 = some ([97, 35, 35, 120], [97, 35, 35, 120]) ∧
    flatOf ExampleLayout.N2.env true 100 = some ([97], [97]) := by decide +kernel

/-- **Before the repair of C14-N1 the Layout-rule round trip was false** (`parseOld`: the loop as it
    was at repo 8db9d03, `Model/LROld.lean`).
    `S: A X | C A D; A: Ta; Layout: L; D: '#'; L: '##'` on `a##x`, table as rustemo builds it: every
    hypothesis of `C14_roundtrip_layout` holds; of the per-offset conditions of `Model/LayoutCert.lean`
    `idempotent` and `failStays` hold and `notToken` fails (`#` is a token where `##` is layout); the
    parse is accepted, the leaves with their layout reconstruct `ax`, the consumed input is `a##x`
    (`#` is found in the state after `a`, `A` is reduced, the new state expects only `x`, the layout
    parser run on re-lexing consumes `##`, and the layout ahead is reset to what it was before). -/
theorem C14_counterexample_relex_layout_discarded :
    (ExampleLayout.N1.env.custom = none ∧ ExampleLayout.N1.env.skipWs = false ∧
     ExampleLayout.N1.env.t.layoutState = some 8 ∧
     Cert.noShiftStop ExampleLayout.N1.env.t = true ∧
     Cert.structural ExampleLayout.N1.env.g ExampleLayout.N1.env.t
       (autosOf ExampleLayout.N1.env.g ExampleLayout.N1.env.t) = true ∧
     LayoutCert.static ExampleLayout.N1.env 8 = true ∧
     LayoutCert.idempotent ExampleLayout.N1.env 8 100 = true ∧
     LayoutCert.failStays ExampleLayout.N1.env 8 100 = true ∧
     LayoutCert.notToken ExampleLayout.N1.env 8 100 = false) ∧
    ∃ ctx r, parseOld ExampleLayout.N1.env false 100 = (ctx, .ok r) ∧
      Tree.flat ExampleLayout.N1.input r.tree ++ layBytes ExampleLayout.N1.input ctx.lay = [97, 120] ∧
      ExampleLayout.N1.input.take ctx.pos.pos = [97, 35, 35, 120] := by
  refine ⟨by decide +kernel, ?_⟩
  exact flatOfOld_spec ExampleLayout.N1.env false 100 _ _ (by decide +kernel)

/-- **… and before the repair of C14-N2.**
    `S: A Bopt; A: Ta; Bopt: Tb | EMPTY; Layout: LP WS RP` on `a( b` with partial parsing: the layout
    parser shifts `(` and the blank, fails at `b`, and left the position there (`failStays` fails); the
    synthetic STOP lets `A` be reduced, the lexer re-run at the advanced position finds `b`.  Leaves:
    `ab`, consumed input: `a( b`. -/
theorem C14_counterexample_failed_layout_advances :
    (ExampleLayout.N2.env.custom = none ∧ ExampleLayout.N2.env.skipWs = false ∧
     ExampleLayout.N2.env.t.layoutState = some 6 ∧
     Cert.noShiftStop ExampleLayout.N2.env.t = true ∧
     Cert.structural ExampleLayout.N2.env.g ExampleLayout.N2.env.t
       (autosOf ExampleLayout.N2.env.g ExampleLayout.N2.env.t) = true ∧
     LayoutCert.static ExampleLayout.N2.env 6 = true ∧
     LayoutCert.idempotent ExampleLayout.N2.env 6 100 = true ∧
     LayoutCert.notToken ExampleLayout.N2.env 6 100 = true ∧
     LayoutCert.failStays ExampleLayout.N2.env 6 100 = false) ∧
    ∃ ctx r, parseOld ExampleLayout.N2.env true 100 = (ctx, .ok r) ∧
      Tree.flat ExampleLayout.N2.input r.tree ++ layBytes ExampleLayout.N2.input ctx.lay = [97, 98] ∧
      ExampleLayout.N2.input.take ctx.pos.pos = [97, 40, 32, 98] := by
  refine ⟨by decide +kernel, ?_⟩
  exact flatOfOld_spec ExampleLayout.N2.env true 100 _ _ (by decide +kernel)

/-- **The stored layout is whitespace** (default skipping, no Layout rule; skipping on or off).
    `Tree.AllLay P t`: every layout slice stored in `t` satisfies `P`; `WsSlice input s`: the bytes of
    the slice are a sequence of whole whitespace characters (`char::is_whitespace` in UTF-8, as
    `wsCharLen` decodes them).  Also for the layout skipped before the end. -/
theorem C14_layout_is_whitespace (env : Env) (hc : env.custom = none) (hl : env.t.layoutState = none)
    (hr : RecogOk env) (hstop : Cert.noShiftStop env.t = true)
    (partialParse : Bool) (fuel : Nat) (ctx : Ctx) (r : ParseResult)
    (h : parse env partialParse fuel = (ctx, .ok r)) :
    r.tree.AllLay (WsSlice env.input) ∧ ∀ s, ctx.lay = some s → WsSlice env.input s :=
  parse_layout_is_ws env hc hl hr (C13.noShiftStop_sound _ hstop) partialParse fuel ctx r h

/-- what `AllLay` says at a leaf -/
theorem C14_allLay_leaf (P : Slice → Prop) (k : Nat) (sp : Span) (v s : Slice)
    (h : (Tree.leaf k sp v (some s)).AllLay P) : P s := h s rfl

/-- non-vacuity: `S: 'a' S | EMPTY` on "a a" stores the blank before the second `a` -/
example : Example.env.custom = none ∧ Example.env.t.layoutState = none ∧
    Cert.noShiftStop Example.env.t = true ∧
    flatOf Example.env false 100 = some ([97, 32, 97], [97, 32, 97]) := by decide +kernel

/-- **The stored layout is layout.**  `LaySlice env lsym s`: the slice `s` is a concatenation of one or
    more `LaySentence`s of `lsym` (the symbol of the layout automaton, a nonterminal): for each there are
    a derivation tree of the grammar with root `lsym` and tokens, each a match of its recognizer,
    adjacent to each other, covering exactly that part of the slice, whose kinds are the tree's yield.
    One sentence per run of the layout parser ("layout once per token"); more than one only where the
    lexer was re-run after a reduce and skipped more layout, which is merged (`mergeLay`). -/
theorem C14_layout_is_layout_sentence (env : Env) (hc : env.custom = none) (hsk : env.skipWs = false)
    (ls : Nat) (hl : env.t.layoutState = some ls)
    (hr : RecogOk env) (hstop : Cert.noShiftStop env.t = true)
    (hcert : Cert.structural env.g env.t (autosOf env.g env.t) = true)
    (hau : LayoutCert.autoOk env.g env.t ls = true)
    (partialParse : Bool) (fuel : Nat) (ctx : Ctx) (r : ParseResult)
    (h : parse env partialParse fuel = (ctx, .ok r)) :
    ∃ au ∈ autosOf env.g env.t, au.start = ls ∧ env.g.nterms ≤ au.sym ∧
      r.tree.AllLay (LaySlice env au.sym) ∧
      ∀ s, ctx.lay = some s → LaySlice env au.sym s :=
  parse_layout_is_sentence env hc hsk hr (C13.noShiftStop_sound _ hstop) ls hl
    (Cert.structural_sound _ _ _ hcert) hau partialParse fuel ctx r h

/-- **Layout insertion invariance** (default string lexer, no Layout rule, whitespace skipping on or
    off).  Two inputs are parsed with the same grammar, table and settings.  `Aligned env1 env2 R`:
    `R` relates the byte offsets of the two inputs at which the lexer looks for tokens (the offsets
    reached after whitespace skipping: `postSkip`), starting with the first ones, such that at related
    offsets every recognizer gives the same answer (the match matrix of the second input is the
    shifted matrix of the first), matched texts are equal, and the offsets reached after any match
    followed by whitespace skipping are related again.  Then if the first input is accepted so is the
    second and both trees have the same `Tree.shape` (token kinds, productions, token texts; no
    positions, no layout); and conversely. -/
theorem C14_insertion_invariant (env1 env2 : Env) (R : Nat → Nat → Prop)
    (hc1 : env1.custom = none) (hc2 : env2.custom = none) (hl : env1.t.layoutState = none)
    (hg : env2.g = env1.g) (ht : env2.t = env1.t) (hlg : env2.longest = env1.longest)
    (hr1 : RecogOk env1) (hr2 : RecogOk env2) (hstop : Cert.noShiftStop env1.t = true)
    (hal : Aligned env1 env2 R) (partialParse : Bool) (fuel : Nat) :
    (∀ ctx1 r1, parse env1 partialParse fuel = (ctx1, .ok r1) →
      ∃ ctx2 r2, parse env2 partialParse fuel = (ctx2, .ok r2) ∧
        r1.tree.shape env1.input = r2.tree.shape env2.input) ∧
    (∀ ctx2 r2, parse env2 partialParse fuel = (ctx2, .ok r2) →
      ∃ ctx1 r1, parse env1 partialParse fuel = (ctx1, .ok r1) ∧
        r1.tree.shape env1.input = r2.tree.shape env2.input) := by
  have hns := C13.noShiftStop_sound _ hstop
  refine ⟨fun ctx1 r1 h => parse_insertion env1 env2 R hc1 hc2 hl hg ht hlg hr1 hr2 hns hal
    partialParse fuel ctx1 r1 h, ?_⟩
  intro ctx2 r2 h
  obtain ⟨ctx1, r1, h1, hs⟩ := parse_insertion env2 env1 _ hc2 hc1 (by rw [ht]; exact hl) hg.symm ht.symm
    hlg.symm hr2 hr1 (by rw [ht]; exact hns) hal.symm partialParse fuel ctx2 r2 h
  exact ⟨ctx1, r1, h1, hs.symm⟩

/-- non-vacuity: `S: 'a' S | EMPTY` on "a a" and on "a  a " (offsets 0~0, 2~3, 3~5) -/
example : Aligned ExampleLayout.Ins.env1 ExampleLayout.Ins.env2 ExampleLayout.Ins.R ∧
    RecogOk ExampleLayout.Ins.env1 ∧ RecogOk ExampleLayout.Ins.env2 :=
  ⟨Ins.aligned, Ins.recogOk1, Ins.recogOk2⟩

example : ExampleLayout.Ins.env1.custom = none ∧ ExampleLayout.Ins.env2.custom = none ∧
    ExampleLayout.Ins.env1.t.layoutState = none ∧
    Cert.noShiftStop ExampleLayout.Ins.env1.t = true ∧
    Example.isOk (parse ExampleLayout.Ins.env1 false 100).2 = true ∧
    Example.isOk (parse ExampleLayout.Ins.env2 false 100).2 = true := by decide +kernel

/-- The statement at full strength: alignment is asked only ALONG THE TOKENS the first parse shifted
    (`PathAligned`, tokens in input order, from the offsets where the lexer first looks): each token
    starts at the current offset of the first input; at that offset and the corresponding one of the
    second input ALL recognizers give the same answer; the token text is the same; the next pair of
    offsets is reached by adding the token length and skipping whitespace (`postSkip`) in each input;
    where the tokens end the recognizers agree once more (end of input / partial-parse stop).  That is
    "the second input has the same tokens with other whitespace between them, and no recognizer can
    tell the difference at a token start".  Nothing is asked about matches the parse does not follow. -/
def C14_insertion_statement : Prop :=
  ∀ (env1 env2 : Env) (partialParse : Bool) (fuel : Nat) (ctx1 : Ctx) (r1 : ParseResult),
    env1.custom = none → env2.custom = none → env1.t.layoutState = none →
    env2.g = env1.g → env2.t = env1.t → env2.longest = env1.longest →
    RecogOk env1 → RecogOk env2 → Cert.noShiftStop env1.t = true →
    parse env1 partialParse fuel = (ctx1, .ok r1) →
    PathAligned env1 env2 r1.hist.reverse (postSkip env1 0) (postSkip env2 0) →
    ∃ ctx2 r2, parse env2 partialParse fuel = (ctx2, .ok r2) ∧
      r1.tree.shape env1.input = r2.tree.shape env2.input

/-- **Inserting (or removing, or changing) whitespace between the tokens of an accepted input never
    changes which tree is built**, up to positions and layout. -/
theorem C14_insertion_invariant_path : C14_insertion_statement :=
  fun env1 env2 pp fuel ctx1 r1 hc1 hc2 hl hg ht hlg hr1 hr2 hstop h hal =>
    parse_insertion_path env1 env2 hc1 hc2 hl hg ht hlg hr1 hr2 (C13.noShiftStop_sound _ hstop)
      pp fuel ctx1 r1 h hal

/-- non-vacuity: "a a" is accepted and "a  a " is aligned with it along its two tokens -/
example : ∃ ctx1 r1, parse ExampleLayout.Ins.env1 false 100 = (ctx1, .ok r1) ∧
    PathAligned ExampleLayout.Ins.env1 ExampleLayout.Ins.env2 r1.hist.reverse
      (postSkip ExampleLayout.Ins.env1 0) (postSkip ExampleLayout.Ins.env2 0) := Ins.pathAligned

end Rustemo.Props.C14
