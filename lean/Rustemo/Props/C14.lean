import Rustemo.Model.LR
namespace Rustemo.Props.C14
end Rustemo.Props.C14
