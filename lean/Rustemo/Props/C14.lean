import Rustemo.Proofs.Roundtrip
import Rustemo.Proofs.LayoutRT
import Rustemo.Proofs.LayoutRTExample
import Rustemo.Props.C13
/-!
# C14 — the generic parse tree is lossless: tokens and layout reconstruct the input

`Tree.flat input t` concatenates, for each leaf of `t` in order, the layout stored before it and the
token text (both are slices of the input buffer).  Proved for the default string lexer with
whitespace skipping on or off, any recognizers, partial parsing on or off, every input.

Under a user Layout rule the identity is proved (`C14_roundtrip_layout`) for every input that passes
the executable check `LayoutCert.check` (`Model/LayoutCert.lean`; the driver evaluates it per input):
layout is never parsed where a state of the main automaton finds a token, a second layout parse where
one ended consumes nothing, and a failing layout parse has not advanced.  Without it the identity is
FALSE of the code as it is (`C14_counterexample_relex_layout_discarded`,
`C14_counterexample_failed_layout_advances`: known findings C14-N1, C14-N2); inputs outside the check
stay decided by oracle + correspondence.
-/
namespace Rustemo.Props.C14
open Rustemo

/-- **Round trip.**  If the parser returns `ok r` in final context `ctx`, the leaves of `r.tree`
    with their stored layout, followed by the layout skipped before the end, are exactly the
    consumed input `input[0, ctx.pos)`. -/
theorem C14_roundtrip (env : Env) (hc : env.custom = none) (hl : env.t.layoutState = none)
    (hr : RecogOk env) (hstop : Cert.noShiftStop env.t = true)
    (hcert : Cert.structural env.g env.t (autosOf env.g env.t) = true)
    (partialParse : Bool) (fuel : Nat) (ctx : Ctx) (r : ParseResult)
    (h : parse env partialParse fuel = (ctx, .ok r)) :
    Tree.flat env.input r.tree ++ layBytes env.input ctx.lay = env.input.take ctx.pos.pos :=
  parse_roundtrip env hc hl hr (C13.noShiftStop_sound _ hstop) (Cert.structural_sound _ _ _ hcert)
    partialParse fuel ctx r h

/-- non-vacuity -/
example : Example.env.custom = none ∧ Example.env.t.layoutState = none ∧
    Cert.noShiftStop Example.env.t = true ∧
    Cert.structural Example.env.g Example.env.t (autosOf Example.env.g Example.env.t) = true ∧
    Example.isOk (parse Example.env false 100).2 = true := by decide

/-- **Round trip under a user Layout rule.**  String lexer (no whitespace skipping: the generator
    switches it off when the grammar has a Layout rule), any recognizers, partial parsing on or off.
    If the executable check `LayoutCert.check` passes for (table, input, fuel) and the parser returns
    `ok r` in final context `ctx`, then the leaves of `r.tree` with their stored layout, followed by
    the layout parsed before the end, are exactly the consumed input `input[0, ctx.pos)`; and without
    the trailing layout they are exactly the input up to the end of the last token. -/
theorem C14_roundtrip_layout (env : Env) (hc : env.custom = none) (hsk : env.skipWs = false)
    (ls : Nat) (hl : env.t.layoutState = some ls)
    (hr : RecogOk env) (hstop : Cert.noShiftStop env.t = true)
    (hcert : Cert.structural env.g env.t (autosOf env.g env.t) = true)
    (partialParse : Bool) (fuel : Nat) (hlay : LayoutCert.check env ls fuel = true)
    (ctx : Ctx) (r : ParseResult) (h : parse env partialParse fuel = (ctx, .ok r)) :
    Tree.flat env.input r.tree ++ layBytes env.input ctx.lay = env.input.take ctx.pos.pos ∧
    Tree.flat env.input r.tree = env.input.take (endOf r.hist) :=
  parse_roundtrip_layout env hc hsk ls hl hr (C13.noShiftStop_sound _ hstop)
    (Cert.structural_sound _ _ _ hcert) partialParse fuel hlay ctx r h

/-- non-vacuity: `S: Ta S | EMPTY; Layout: LayoutItem+; LayoutItem: WS;` on "a  a " -/
example : ExampleLayout.Ws.env.custom = none ∧ ExampleLayout.Ws.env.skipWs = false ∧
    ExampleLayout.Ws.env.t.layoutState = some 4 ∧
    Cert.noShiftStop ExampleLayout.Ws.env.t = true ∧
    Cert.structural ExampleLayout.Ws.env.g ExampleLayout.Ws.env.t
      (autosOf ExampleLayout.Ws.env.g ExampleLayout.Ws.env.t) = true ∧
    LayoutCert.check ExampleLayout.Ws.env 4 100 = true ∧
    flatOf ExampleLayout.Ws.env false 100 = some ([97, 32, 32, 97, 32], [97, 32, 32, 97, 32]) := by
  decide +kernel

example : RecogOk ExampleLayout.Ws.env := Ws.recogOk

/-- **The Layout-rule round trip is false without `LayoutCert.notToken`** (known finding C14-N1).
    `S: A X | C A D; A: Ta; Layout: L; D: '#'; L: '##'` on `a##x`, table as rustemo builds it: every
    other hypothesis of `C14_roundtrip_layout` holds, the parse is accepted, the leaves with their
    layout reconstruct `ax`, the consumed input is `a##x` (`#` is found in the state after `a`, `A`
    is reduced, the new state expects only `x`, the layout parser run on re-lexing consumes `##`, and
    the layout ahead is reset to what it was before the re-lex). -/
theorem C14_counterexample_relex_layout_discarded :
    (ExampleLayout.N1.env.custom = none ∧ ExampleLayout.N1.env.skipWs = false ∧
     ExampleLayout.N1.env.t.layoutState = some 8 ∧
     Cert.noShiftStop ExampleLayout.N1.env.t = true ∧
     Cert.structural ExampleLayout.N1.env.g ExampleLayout.N1.env.t
       (autosOf ExampleLayout.N1.env.g ExampleLayout.N1.env.t) = true ∧
     LayoutCert.static ExampleLayout.N1.env 8 = true ∧
     LayoutCert.idempotent ExampleLayout.N1.env 8 100 = true ∧
     LayoutCert.failStays ExampleLayout.N1.env 8 100 = true ∧
     LayoutCert.notToken ExampleLayout.N1.env 8 100 = false) ∧
    ∃ ctx r, parse ExampleLayout.N1.env false 100 = (ctx, .ok r) ∧
      Tree.flat ExampleLayout.N1.input r.tree ++ layBytes ExampleLayout.N1.input ctx.lay = [97, 120] ∧
      ExampleLayout.N1.input.take ctx.pos.pos = [97, 35, 35, 120] := by
  refine ⟨by decide +kernel, ?_⟩
  exact flatOf_spec ExampleLayout.N1.env false 100 _ _ (by decide +kernel)

/-- **… and without `LayoutCert.failStays`** (known finding C14-N2).
    `S: A Bopt; A: Ta; Bopt: Tb | EMPTY; Layout: LP WS RP` on `a( b` with partial parsing: the layout
    parser shifts `(` and the blank, fails at `b`, and leaves the position there; the synthetic STOP
    lets `A` be reduced, the lexer re-run at the advanced position finds `b`.  Leaves: `ab`,
    consumed input: `a( b`. -/
theorem C14_counterexample_failed_layout_advances :
    (ExampleLayout.N2.env.custom = none ∧ ExampleLayout.N2.env.skipWs = false ∧
     ExampleLayout.N2.env.t.layoutState = some 6 ∧
     Cert.noShiftStop ExampleLayout.N2.env.t = true ∧
     Cert.structural ExampleLayout.N2.env.g ExampleLayout.N2.env.t
       (autosOf ExampleLayout.N2.env.g ExampleLayout.N2.env.t) = true ∧
     LayoutCert.static ExampleLayout.N2.env 6 = true ∧
     LayoutCert.idempotent ExampleLayout.N2.env 6 100 = true ∧
     LayoutCert.notToken ExampleLayout.N2.env 6 100 = true ∧
     LayoutCert.failStays ExampleLayout.N2.env 6 100 = false) ∧
    ∃ ctx r, parse ExampleLayout.N2.env true 100 = (ctx, .ok r) ∧
      Tree.flat ExampleLayout.N2.input r.tree ++ layBytes ExampleLayout.N2.input ctx.lay = [97, 98] ∧
      ExampleLayout.N2.input.take ctx.pos.pos = [97, 40, 32, 98] := by
  refine ⟨by decide +kernel, ?_⟩
  exact flatOf_spec ExampleLayout.N2.env true 100 _ _ (by decide +kernel)

end Rustemo.Props.C14
