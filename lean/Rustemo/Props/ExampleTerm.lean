import Rustemo.Model.LR
import Rustemo.Model.Cert
import Rustemo.Model.CertTerm
import Rustemo.Props.Example
/-! The table rustemo builds (LALR_PAGER) for the witness of finding F24, `S: A | Ta; A: S {15};`
(a cyclic grammar made deterministic by a priority), taken from the `verif` dump, on input "a". -/
namespace Rustemo.ExampleTerm.F24

/-- terminals STOP(0) Ta(1); nonterminals EMPTY(2) AUG(3) S(4) A(5);
    prods 0: AUG→S, 1: S→A, 2: S→Ta, 3: A→S.  State 2 (after S) reduces `A → S` on STOP instead of
    accepting; state 3 (after A) reduces `S → A`: the parser goes round forever. -/
def g : Grammar :=
  { nterms := 2, nnonterms := 4,
    prods := #[{ lhs := 3, rhs := [4] }, { lhs := 4, rhs := [5] }, { lhs := 4, rhs := [1] }, { lhs := 5, rhs := [4] }],
    emptyIdx := 2, augIdx := 3, auglIdx := none, startIdx := 4 }
def t : Table :=
  { states := #[
      { symbol := 3, items := [⟨0, 0, [0]⟩, ⟨1, 0, [0]⟩, ⟨2, 0, [0]⟩, ⟨3, 0, [0]⟩],
        actions := #[[], [.shift 1]], gotos := #[none, none, some 2, some 3],
        sorted := [(1, true)] },
      { symbol := 1, items := [⟨2, 1, [0]⟩],
        actions := #[[.reduce 2 1], []], gotos := #[none, none, none, none],
        sorted := [(0, false)] },
      { symbol := 4, items := [⟨0, 1, [0]⟩, ⟨3, 1, [0]⟩],
        actions := #[[.reduce 3 1], []], gotos := #[none, none, none, none],
        sorted := [(0, false)] },
      { symbol := 5, items := [⟨1, 1, [0]⟩],
        actions := #[[.reduce 1 1], []], gotos := #[none, none, none, none],
        sorted := [(0, false)] }],
    layoutState := none }

/-- input "a" -/
def input : List Nat := [97]
def recog (term pos : Nat) : Option Nat :=
  if term = 1 then (if input[pos]? = some 97 then some 1 else none)
  else if term = 0 then (if pos = input.length then some 0 else none)
  else none
def env : Env := { g := g, t := t, input := input, recog := recog }

def isFuel : Outcome ParseResult → Bool
  | .fuel => true
  | _ => false

end Rustemo.ExampleTerm.F24
