import Rustemo.Props.C07
import Rustemo.Props.C12
import Rustemo.Proofs.GlrErr6
import Rustemo.Proofs.GlrErrExample
/-!
# C12, GLR half — over the engine model `Glr.parse`

Hypotheses used throughout (the ones of C03 (d) / C07): the right-nulled table passes `Cert.glr` and
`Cert.completeRN`; the run is token-deterministic, `LexDet env pp fuel n tok P L` (n tokens `tok 0 … tok (n-1)`, end
token `tok n` of kind STOP; a head of level `i` starts at `P i`, `find_lookaheads` moves it to `L i` — whitespace /
layout skipped, i.e. the START OF TOKEN `i` — and offers exactly `tok i` iff its state has an action on that kind).
The token kinds are `kinds n tok` (Props/C07.lean); `Sentence` / `ViablePrefix` are those of the LR half
(Proofs/TLR.lean, Proofs/ViablePrefix.lean).

Proved here (all over the engine model `Glr.parse`, Model/Glr.lean):
* `C12_glr_sentences_never_error` — a sentence is never answered with an error;
* `C12_glr_nonsentence_not_accepted`, `C12_glr_ok_only_on_sentence` — `ok` only on a sentence, and then the forest has
  a root; `C12_glr_nonsentence_errors` — a non-sentence is answered with an error whenever the run ends;
* `C12_glr_error_position_no_early_error` — the error position is `L k` for a token index `k` and token `k` is
  offending (needs no further certificate);
* `C12_glr_error_at_first_offending_token` — with `Cert.viable` (the certificate of the LR half: productive grammar,
  anchored closure items, non-empty target states) in addition: the tokens before `k` ARE a viable prefix, so `k` is
  THE first offending token (`C12_glr_error_index_is_first_offending`).
NOT proved: termination (fuel); `LexDet` is a hypothesis (inputs with lexical ambiguity, context-dependent lexing, or
an unrecognisable character — on which the lexer offers nothing in ANY state — are outside; they are inside the
differential check); nothing is said about the CONTENT of the expected list beyond non-emptiness; that `L k` is the
span start of `tok k` is part of what `LexDet` means by `L`, not a theorem about the lexer.
Lemmas: Proofs/GlrErr1-6.lean (GlrErr2: forward induction along the spine to the offending token, "no early error";
GlrErr4-5: the semantic invariant `JInv` — every GSS edge derives the tokens it spans, every head is connected to the
start head — kept by reducer and shifter, and the viable-prefix lemma on right-nulled tables, "no late error").
-/
namespace Rustemo.Props.C12Glr
open Rustemo Rustemo.Glr Rustemo.Props.C03 Rustemo.Props.C07

/-- **Sentences never error (GLR).**  Certified right-nulled table, token-deterministic run: if the token kinds are a
    sentence, `Glr.parse` (any fuel, partial parsing on or off) does not return an error.  (First clause of
    `C03_engine_complete`.)  Not claimed: that the run ends (`timeout` is not excluded; a panic is excluded by
    `C03_engine_no_panic_certified`). -/
theorem C12_glr_sentences_never_error (env : Env) (hcert : Cert.glr env.g env.t = true)
    (hcomp : Cert.completeRN env.g env.t = true) (pp : Bool) (fuel n : Nat) (tok : Nat → Tok) (P L : Nat → Pos)
    (hL : LexDet env pp fuel n tok P L) (hs : Sentence env.g (kinds n tok)) :
    ∀ e, Glr.parse env pp fuel ≠ .err e := by
  obtain ⟨full, hv, hy⟩ := hs
  exact (C03_engine_complete env hcert hcomp pp fuel n tok P L hL full hv hy).1

/-- **A non-sentence yields no tree (GLR).**  Certified table, token-deterministic run: if `Glr.parse` returns a forest
    from which ANY tree can be taken (`getTree i = some tr` = `Forest::get_tree(i)` + `Tree::build`), the token kinds are
    a sentence.  (Engine soundness + "accepted heads are on the last level": `Proofs/GlrRun11.lean::parse_trees`;
    `Cert.completeRN` is used for "accept only on STOP".) -/
theorem C12_glr_nonsentence_not_accepted (env : Env) (hcert : Cert.glr env.g env.t = true)
    (hcomp : Cert.completeRN env.g env.t = true) (pp : Bool) (fuel n : Nat) (tok : Nat → Tok) (P L : Nat → Pos)
    (hL : LexDet env pp fuel n tok P L) (r : GlrResult) (hr : Glr.parse env pp fuel = .ok r) (i : Nat) (tr : Tree)
    (hi : r.getTree i = some tr) : Sentence env.g (kinds n tok) := by
  obtain ⟨hC, hW⟩ := Cert.completeRN_sound _ _ hcomp
  obtain ⟨hve, hy⟩ := parse_trees (tableOk_of_cert env hcert) hC hW hL hr hi
  obtain ⟨full, hv, hfy, _⟩ := Tree.complete_elided env.g tr _ hve
  exact ⟨full, hv, by rw [hfy, hy, kinds_eq]⟩

/-- **Error position and "no early error" (GLR).**  Certified table, token-deterministic run.  If `Glr.parse` returns
    an error, it is `expected (L k) ks` for some token index `k ≤ n` (`L k` = where `find_lookaheads` left the heads
    of level `k`, i.e. the start of token `k` after whitespace / layout; `k = n`: the end token) with a non-empty list
    of expected kinds, and token `k` REALLY is offending: no sentence begins with `tok 0 … tok k` (`k < n`), resp. the
    input is not a sentence (`k = n`).  Proof: the run stopped because level `k + 1` has no head; all levels `≤ k`
    are done (`RunInv`), so a sentence extending `tok 0 … tok k` would have had its token `k` shifted
    (`Proofs/GlrErr2.lean::head_of_viable`, the forward induction of C03 (d) along the spine to that token).
    What it does NOT say: that the tokens BEFORE `k` are a viable prefix (that is
    `C12_glr_error_at_first_offending_token`); termination. -/
theorem C12_glr_error_position_no_early_error (env : Env) (hcert : Cert.glr env.g env.t = true)
    (hcomp : Cert.completeRN env.g env.t = true) (pp : Bool) (fuel n : Nat) (tok : Nat → Tok) (P L : Nat → Pos)
    (hL : LexDet env pp fuel n tok P L) (e : PErr) (he : Glr.parse env pp fuel = .err e) :
    ∃ (k : Nat) (ks : List Nat), k ≤ n ∧ e = .expected (L k) ks ∧ ks ≠ [] ∧
      (k < n → ¬ ViablePrefix env.g (kinds (k + 1) tok)) ∧ (k = n → ¬ Sentence env.g (kinds n tok)) := by
  obtain ⟨hC, hW⟩ := Cert.completeRN_sound _ _ hcomp
  have hT := tableOk_of_cert env hcert
  rcases parse_finalE (X := fun _ _ => True) hT hC hW hL (fun _ _ _ _ _ _ _ _ _ _ => trivial) trivial with h | ⟨s, h⟩ | h
  · rw [h] at he; cases he
  · rw [h] at he; cases he
  · obtain ⟨k, ks, h1, h2, h3, h4, h5, _⟩ := finalE_error hT hC hW hL h he
    exact ⟨k, ks, h1, h2, h3, by rw [kinds_eq]; exact h4, by rw [kinds_eq]; exact h5⟩

/-- **`ok` only on a sentence, never with an empty forest (GLR).**  Certified table, token-deterministic run: if
    `Glr.parse` returns `ok r` then the token kinds are a sentence and `r.roots ≠ []` (`create_forest` found at least
    one root possibility: the accepting head is not the start head, so it has a parent link, and every parent link
    carries a possibility).  Unlike `C12_glr_nonsentence_not_accepted` this does not need a tree to be taken from the
    forest.  Proof: `JInv` gives the accepting head an LR stack spelling the whole token string; an accepting state
    holds `S' → S .`, so the stack is one derivation tree of the start symbol. -/
theorem C12_glr_ok_only_on_sentence (env : Env) (hcert : Cert.glr env.g env.t = true)
    (hcomp : Cert.completeRN env.g env.t = true) (pp : Bool) (fuel n : Nat) (tok : Nat → Tok) (P L : Nat → Pos)
    (hL : LexDet env pp fuel n tok P L) (r : GlrResult) (hr : Glr.parse env pp fuel = .ok r) :
    Sentence env.g (kinds n tok) ∧ r.roots ≠ [] := by
  obtain ⟨hC, hW⟩ := Cert.completeRN_sound _ _ hcomp
  rw [kinds_eq]
  exact parse_ok_spec (tableOk_of_cert env hcert) hC hW hL hr

/-- **A non-sentence is answered with an error (GLR)** — whenever the run ends.  Certified table incl. the layout
    automaton (`Cert.glrLayout`, for "no panic"), token-deterministic run: if the token kinds are not a sentence and
    the run does not time out, `Glr.parse` returns an error.  Termination is NOT proved (hypothesis `hterm`). -/
theorem C12_glr_nonsentence_errors (env : Env) (hcert : Cert.glr env.g env.t = true)
    (hcomp : Cert.completeRN env.g env.t = true) (hlay : Cert.glrLayout env.g env.t = true)
    (pp : Bool) (fuel n : Nat) (tok : Nat → Tok) (P L : Nat → Pos)
    (hL : LexDet env pp fuel n tok P L) (hns : ¬ Sentence env.g (kinds n tok))
    (hterm : Glr.parse env pp fuel ≠ .fuel) : ∃ e, Glr.parse env pp fuel = .err e := by
  cases h : Glr.parse env pp fuel with
  | ok r => exact absurd (C12_glr_ok_only_on_sentence env hcert hcomp pp fuel n tok P L hL r h).1 hns
  | err e => exact ⟨e, rfl⟩
  | panic s => exact absurd h (C03_engine_no_panic_certified env hcert hlay pp fuel s)
  | fuel => exact absurd h hterm

/-- **The error points at the first offending token (GLR).**  Table passing `Cert.glr`, `Cert.completeRN` and
    `Cert.viable` (certificate of the LR half of C12), token-deterministic run.  If `Glr.parse` returns an error, it is
    `expected (L k) ks` with `k ≤ n`, `ks ≠ []`, where
    * NO LATE ERROR: the tokens before `k` are a viable prefix (`ViablePrefix (kinds k tok)`): the engine never shifts
      a token that cannot continue a sentence — every head of the last level has an LR stack spelling
      `tok 0 … tok (k-1)` (`JInv`, `stack_of_conn`), and every stack of the automaton spells a viable prefix
      (`viable_itemRN`);
    * NO EARLY ERROR: `tok 0 … tok k` is not a viable prefix (`k < n`), resp. the input is not a sentence (`k = n`: the
      error is reported at the end of the input).
    Hence `k` is THE first offending token (`C12_glr_error_index_is_first_offending`).  Not claimed: termination;
    the content of `ks`. -/
theorem C12_glr_error_at_first_offending_token (env : Env) (hcert : Cert.glr env.g env.t = true)
    (hcomp : Cert.completeRN env.g env.t = true)
    (hviab : Cert.viable env.g env.t (autosOf env.g env.t) = true)
    (pp : Bool) (fuel n : Nat) (tok : Nat → Tok) (P L : Nat → Pos)
    (hL : LexDet env pp fuel n tok P L) (e : PErr) (he : Glr.parse env pp fuel = .err e) :
    ∃ (k : Nat) (ks : List Nat), k ≤ n ∧ e = .expected (L k) ks ∧ ks ≠ [] ∧
      ViablePrefix env.g (kinds k tok) ∧
      (k < n → ¬ ViablePrefix env.g (kinds (k + 1) tok)) ∧ (k = n → ¬ Sentence env.g (kinds n tok)) := by
  obtain ⟨hC, hW⟩ := Cert.completeRN_sound _ _ hcomp
  obtain ⟨k, ks, h1, h2, h3, h4, h5, h6⟩ :=
    parse_err_spec (tableOk_of_cert env hcert) hC hW (viableOk_of_cert env hviab) hL he
  exact ⟨k, ks, h1, h2, h3, by rw [kinds_eq]; exact h4, by rw [kinds_eq]; exact h5, by rw [kinds_eq]; exact h6⟩

theorem kinds_take (tok : Nat → Tok) {m j : Nat} (h : m ≤ j) : (kinds j tok).take m = kinds m tok := by
  unfold kinds
  rw [← List.map_take, List.take_range, Nat.min_eq_left h]

/-- the index `k` of `C12_glr_error_at_first_offending_token` is determined by the input: it is the length of the
    longest viable prefix of the token kinds (the index of the first offending token; `n` if the input is a proper
    prefix of a sentence) -/
theorem C12_glr_error_index_is_first_offending (env : Env) (n : Nat) (tok : Nat → Tok) (k : Nat) (hk : k ≤ n)
    (hlate : k < n → ¬ ViablePrefix env.g (kinds (k + 1) tok)) :
    ∀ j, j ≤ n → ViablePrefix env.g (kinds j tok) → j ≤ k := by
  intro j hj hv
  rcases Nat.lt_or_ge k j with hlt | hge
  · exfalso
    apply hlate (by omega)
    have := viablePrefix_take hv (k + 1)
    rwa [kinds_take tok (by omega : k + 1 ≤ j)] at this
  · exact hge

/-! ### non-vacuity: the real LALR_RN table of `S: Ta A; A: B | C; B: EMPTY; C: EMPTY` (language `{a}`) on the input
    `aa` (Proofs/GlrErrExample.lean) -/

/-- all certificates hold of the table … -/
example : Cert.glr ExampleErr.env.g ExampleErr.env.t = true ∧ Cert.completeRN ExampleErr.env.g ExampleErr.env.t = true ∧
    Cert.viable ExampleErr.env.g ExampleErr.env.t (autosOf ExampleErr.env.g ExampleErr.env.t) = true ∧
    Cert.glrLayout ExampleErr.env.g ExampleErr.env.t = true := by decide +kernel

/-- … `LexDet` holds of the run on `aa` (tokens `a`, `a`, STOP), the token kinds are `[1, 1]` … -/
example : LexDet ExampleErr.env false 9 2 Example.tok Example.pos Example.pos ∧ kinds 2 Example.tok = [1, 1] :=
  ⟨ExampleErr.lexDet_aa, by decide⟩

/-- … the engine answers with an error at byte 1 (line 1, column 1), expecting STOP … -/
example : ExampleErr.errOf (Glr.parse ExampleErr.env false 9) = some (1, 1, 1, [0]) := by decide +kernel

/-- … and the theorems apply to this run -/
example := C12_glr_error_at_first_offending_token ExampleErr.env (by decide +kernel) (by decide +kernel)
  (by decide +kernel) false 9 2 Example.tok Example.pos Example.pos ExampleErr.lexDet_aa

example := C12_glr_error_position_no_early_error ExampleErr.env (by decide +kernel) (by decide +kernel)
  false 9 2 Example.tok Example.pos Example.pos ExampleErr.lexDet_aa

/-- what they say about it: `a` is a viable prefix, `a a` is not (so `aa` is not a sentence, the hypothesis of
    `C12_glr_nonsentence_errors`) -/
example : ViablePrefix ExampleNul.g [1] ∧ ¬ ViablePrefix ExampleNul.g [1, 1] := by
  have hres : ExampleErr.errOf (Glr.parse ExampleErr.env false 9) = some (1, 1, 1, [0]) := by decide +kernel
  cases h : Glr.parse ExampleErr.env false 9 with
  | err e =>
    obtain ⟨k, ks, hk, he, _, hv, hnv, _⟩ := C12_glr_error_at_first_offending_token ExampleErr.env (by decide +kernel)
      (by decide +kernel) (by decide +kernel) false 9 2 Example.tok Example.pos Example.pos ExampleErr.lexDet_aa e h
    rw [h, he] at hres
    simp only [ExampleErr.errOf, Example.pos, Option.some.injEq] at hres
    obtain ⟨hk1, _⟩ := hres
    have e1 : kinds 1 Example.tok = [1] := by decide
    have e2 : kinds (1 + 1) Example.tok = [1, 1] := by decide
    rw [e1] at hv
    rw [e2] at hnv
    exact ⟨hv, hnv (by omega)⟩
  | ok r => rw [h] at hres; simp [ExampleErr.errOf] at hres
  | panic s => rw [h] at hres; simp [ExampleErr.errOf] at hres
  | fuel => rw [h] at hres; simp [ExampleErr.errOf] at hres

/-- non-vacuity of the `ok` theorems: the run of the ambiguous example grammar on `aa` (`LexDet`: `lexDet_aa` of
    Props/C03.lean) -/
example := C12_glr_ok_only_on_sentence (Glr.Example.env 2) (by decide +kernel) (by decide +kernel) false 9 2
  Glr.Example.tok Glr.Example.pos Glr.Example.pos Glr.Example.lexDet_aa

end Rustemo.Props.C12Glr
