import Rustemo.Proofs.GenRun
import Rustemo.Proofs.GenExample
/-!
# C08 — the generated parser source encodes exactly the computed table

`Gen.arrays g t` / `Gen.functions g t` (`Model/Gen.lean`) are the table-bearing items the two part
generators (`generator/arrays.rs`, `generator/functions.rs`) write for grammar `g` and table `t`,
`Gen.enums g t` the four enums of `generator/base.rs`.  `ArrCode.{actionsQ, gotoQ, expectedQ}` and
`FnCode.{actionsQ, gotoQ, expectedQ}` transcribe the constant `impl ParserDefinition` text of each
layout.  Enum values are discriminants (`as usize`): a query `(s, a)` is "the State variant number
`s`, the TokenKind variant number `a`".  `Gen.encode g` writes a table action in that vocabulary
(`Reduce(p, l)` ↦ the `ProdKind` variant generated for production `p`).

All theorems are universal over grammars and tables satisfying the decidable `Gen.WF g t`, which the
driver evaluates on every dump of the real compiler (tie: certificate).  `WF = genOk ∧ namesOk`:
`genOk` = the generator does not panic and rows have the declared widths; `namesOk` = no two variants
of a generated enum have the same name (otherwise rustc rejects the file: finding F13 of C11;
`C08_namesOk_needed` shows the hypothesis cannot be dropped).

Ties to /repo: code-level correspondence (syn extraction of the real generated file = rendering of
`Gen.arrays` / `Gen.functions` / `Gen.enums`, including the constant impl text), behaviour-level
correspondence and oracle (the compiled generated parsers answer every query as the dump says).
-/
namespace Rustemo.Props.C08
open Rustemo Rustemo.Gen

/-- **Nested arrays layout.**  The generator writes a file (no panic) and the file's `actions`,
    `goto` and `expected_token_kinds` answer every (state, token), (state, nonterminal) and state
    query exactly as the table: the same actions in the same order (the `Error` padding is invisible
    to `take_while`), the goto target or a panic where the table has no entry, the sorted terminals
    with their finish flags (the `None` padding is invisible to `map_while`). -/
theorem C08_arrays_faithful (g : Grammar) (t : Table) (h : WF g t = true) :
    ∃ c, arrays g t = some c ∧
      ∀ s a n, s < t.states.size → a < g.nterms → n < g.nnonterms →
        c.actionsQ (enums g t) s a = .ok ((t.cell s a).map (encode g)) ∧
        gotoSpec t s n (c.gotoQ (enums g t) s n) ∧
        c.expectedQ (enums g t) s = .ok (t.sorted s) := by
  have w := WF_out h
  refine ⟨arraysCore g t, by simp [arrays, WF_genOk h], ?_⟩
  intro s a n hs ha hn
  exact ⟨arrays_actions w hs ha, arrays_goto w hs hn, arrays_expected w hs⟩

/-- **Per-state functions layout.**  Same statement: the `match` of the state's action function has
    an arm for every non-empty cell and the `_ => vec![]` arm whenever a cell is empty (so the match
    is exhaustive and never `.ill`), goto functions / `goto_invalid` panic exactly on undefined
    entries. -/
theorem C08_functions_faithful (g : Grammar) (t : Table) (h : WF g t = true) :
    ∃ c, functions g t = some c ∧
      ∀ s a n, s < t.states.size → a < g.nterms → n < g.nnonterms →
        c.actionsQ (enums g t) s a = .ok ((t.cell s a).map (encode g)) ∧
        gotoSpec t s n (c.gotoQ (enums g t) s n) ∧
        c.expectedQ (enums g t) s = .ok (t.sorted s) := by
  have w := WF_out h
  refine ⟨functionsCore g t, by simp [functions, WF_genOk h], ?_⟩
  intro s a n hs ha hn
  exact ⟨functions_actions w hs ha, functions_goto w hs hn, functions_expected w hs⟩

/-- `take_while(!Error)` can not cut a real cell short: no table action is written as `Error`
    (`table::Action` has no such variant; `Error` only comes from the `None` padding). -/
theorem C08_no_error_in_cells (g : Grammar) (t : Table) (a : Action) :
    actionToSyntax g t (some a) ≠ .error ∧ (encode g a).notError = true := by
  cases a <;> simp [actionToSyntax, encode, CAct.notError]

/-- **The two layouts agree on every query** (equal answers, or both panic). -/
theorem C08_layouts_agree (g : Grammar) (t : Table) (h : WF g t = true) :
    ∃ ca cf, arrays g t = some ca ∧ functions g t = some cf ∧
      ∀ s a n, s < t.states.size → a < g.nterms → n < g.nnonterms →
        (ca.actionsQ (enums g t) s a).agree (cf.actionsQ (enums g t) s a) ∧
        (ca.gotoQ (enums g t) s n).agree (cf.gotoQ (enums g t) s n) ∧
        (ca.expectedQ (enums g t) s).agree (cf.expectedQ (enums g t) s) := by
  obtain ⟨ca, hca, ha⟩ := C08_arrays_faithful g t h
  obtain ⟨cf, hcf, hf⟩ := C08_functions_faithful g t h
  refine ⟨ca, cf, hca, hcf, ?_⟩
  intro s a n hs hta hn
  obtain ⟨a1, a2, a3⟩ := ha s a n hs hta hn
  obtain ⟨f1, f2, f3⟩ := hf s a n hs hta hn
  refine ⟨by rw [a1, f1]; rfl, ?_, by rw [a3, f3]; rfl⟩
  unfold gotoSpec at a2 f2
  cases hg : t.gotoNt s n with
  | some s' => rw [hg] at a2 f2; simp only at a2 f2; rw [a2, f2]; rfl
  | none =>
    rw [hg] at a2 f2
    cases h1 : ca.gotoQ (enums g t) s n <;> cases h2 : cf.gotoQ (enums g t) s n <;>
      simp_all [Res.isPanic, Res.agree]

/-- **Equal answers ⇒ equal runs.**  The LR runtime (`Model/LR.lean`: `LRParser::parse` with the
    string lexer or a user lexer, whitespace skipping or Layout parser, partial parsing) run on the
    table denoted by the Arrays code, on the table denoted by the Functions code, and on the
    compiler's table gives the same result on every input. -/
theorem C08_layouts_agree_run (env : Env) (h : WF env.g env.t = true) (partialParse : Bool) (fuel : Nat) :
    parse { env with t := arraysTable env.g env.t } partialParse fuel = parse env partialParse fuel ∧
    parse { env with t := functionsTable env.g env.t } partialParse fuel = parse env partialParse fuel := by
  have w := WF_out h
  exact ⟨parse_congr env _ (arraysTable_queryEq w) partialParse fuel,
         parse_congr env _ (functionsTable_queryEq w) partialParse fuel⟩

/-- **Enum order = table order.**  The `s`-th `State` variant is the identifier of state `s`, the
    `a`-th `TokenKind` variant the name of terminal `a`, the `n`-th `NonTermKind` variant the name of
    nonterminal `n`, and each name resolves back to that discriminant (`as usize` = table index).
    `ProdKind` has one variant per production except those of AUG/AUGL, in production order: the
    discriminant of the variant of production `p` is `p` minus the augmented productions before it.
    `NonTermKind::from(ProdKind of p)` is the left-hand side of `p`; `State::default_layout()` is the
    table's layout state. -/
theorem C08_enum_order (g : Grammar) (t : Table) (h : WF g t = true) :
    (∀ s, s < t.states.size →
        (enums g t).states[s]? = some (stateIdent g t s) ∧
        resolve (enums g t).states (stateIdent g t s) = some s) ∧
    (∀ a, a < g.nterms →
        (enums g t).tokens[a]? = some (termName g a) ∧
        resolve (enums g t).tokens (termName g a) = some a) ∧
    (∀ n, n < g.nnonterms →
        (enums g t).nonterms[n]? = some (ntName g n) ∧
        resolve (enums g t).nonterms (ntName g n) = some n) ∧
    (∀ p, p < g.prods.size → skipped g p = false →
        (enums g t).prods[kindIdx g p]? = some (prodKindName g p) ∧
        resolve (enums g t).prods (prodKindName g p) = some (kindIdx g p) ∧
        kindIdx g p + skippedBefore g p = p ∧
        (enums g t).fromQ (kindIdx g p) = .ok (prodNt g p)) ∧
    ((enums g t).states.length = t.states.size ∧ (enums g t).tokens.length = g.nterms ∧
      (enums g t).nonterms.length = g.nnonterms ∧ (enums g t).prods.length = (userProds g).length) ∧
    (enums g t).layoutQ = .ok t.layoutState := by
  have w := WF_out h
  refine ⟨fun s hs => ⟨state_variant hs, resolve_state w hs⟩,
          fun a ha => ⟨token_variant w ha, resolve_token w ha⟩,
          fun n hn => ⟨nonterm_variant w hn, resolve_nonterm w hn⟩,
          ?_, enum_lengths w, layout_faithful w⟩
  intro p hp hsk
  have hm : p ∈ userProds g := mem_userProds.mpr ⟨hp, hsk⟩
  exact ⟨prod_variant hm, resolve_prod w hm, kindIdx_add_skipped hm, from_faithful w hm⟩

/-- **Array dimensions.**  Every array literal of the Arrays layout has exactly the length its type
    declares (`[[[_; MAX_ACTIONS]; TERMINAL_COUNT]; STATE_COUNT]` …): padding is exact and
    `max_actions - l`, `max_recognizers - sorted_terminals.len()` do not underflow. -/
theorem C08_arrays_dimensions (g : Grammar) (t : Table) (h : WF g t = true) :
    let c := arraysCore g t
    c.actions.length = c.stateCount ∧ c.gotos.length = c.stateCount ∧ c.tokenKinds.length = c.stateCount ∧
    (∀ row ∈ c.actions, row.length = c.terminalCount ∧ ∀ cell ∈ row, cell.length = c.maxActions) ∧
    (∀ row ∈ c.gotos, row.length = c.nonterminalCount) ∧
    (∀ row ∈ c.tokenKinds, row.length = c.maxRecognizers) :=
  arrays_dimensions (WF_out h)

/-- non-vacuity: the GLR table of `S: S S | Ta;` (a two-action cell, padded cells, states with and
    without the catch-all arm, states with and without goto function) is well-formed, and the two
    layouts answer e.g. the ambiguous cell (state 3, token `Ta`) with both actions in table order -/
example : WF Example.g Example.t = true ∧
    (arraysCore Example.g Example.t).actionsQ (enums Example.g Example.t) 3 1 = .ok [.shift 1, .reduce 0 2] ∧
    (functionsCore Example.g Example.t).actionsQ (enums Example.g Example.t) 3 1 = .ok [.shift 1, .reduce 0 2] ∧
    (arraysCore Example.g Example.t).maxActions = 2 ∧
    ((functionsCore Example.g Example.t).actionFns.map (·.catchAll)) = [true, false, false, false] ∧
    (functionsCore Example.g Example.t).gotoQ (enums Example.g Example.t) 1 2 = .panic "Invalid GOTO entry!" := by
  decide

/-- **`namesOk` is needed** (finding F13 of C11 seen from C08): for `S: S S {P2} | Ta;` both
    productions get the variant name `SP2`; `genOk` holds, the generator writes the file, but the path
    `PK::SP2` of the reduction by production 2 denotes the first variant, i.e. production 1 (rustc in
    fact rejects the duplicate variant). -/
theorem C08_namesOk_needed :
    genOk Example.gDup Example.t = true ∧ namesOk Example.gDup Example.t = false ∧
    (arraysCore Example.gDup Example.t).actionsQ (enums Example.gDup Example.t) 1 0 = .ok [.reduce 0 1] ∧
    (Example.t.cell 1 0).map (encode Example.gDup) = [.reduce 1 1] := by
  decide

end Rustemo.Props.C08
