import Rustemo.Proofs.AstExample
/-!
# C11 — generated parser and actions compile for every accepted grammar and setting

The verdict is rustc's and is obtained by compiling (tools/props/c11.py). What is logic is modelled:
`Model/Ast.lean` (type inference incl. `find_recursions`), `Model/AstGen.lean` (`skeleton`: every
generated type and action signature, every call of the shift / reduce arms with its arguments;
`Skel.wellFormed`: names declared once per namespace, references declared, every by-value containment
cycle broken by Box/Vec, arm arguments of the parameters' types, the assumptions of the generated Vec
action bodies). The skeleton of the model is compared TEXTUALLY with the items of the generated files on
every run, and `Skel.wellFormed` with rustc's verdict.

`Fixes.repo` is /repo as it is now: the repairs of F22, F23, the `C`-rule case of F13 and the
`Option<Box<_>>` case of F12 have landed; `Fixes.asWas` is the code before them. Proved: the DFS that
places the `Box`es breaks every reference cycle (`C11_box_breaks_cycles`), the sizedness check is sound
(`C11_sized_sound`, run as a certificate on every skeleton), arms of productions that are not
right-nulled are well typed (`C11_arms_typed_partial`), each repaired witness is well formed now and
was not before. The full statement `C11_statement Fixes.repo` is still false (F12 for non-Option tails,
F13 for the remaining name collisions: counterexamples below).
-/
namespace Rustemo.Ast

/-- The model-level full statement: the skeleton of every grammar is well formed. -/
def C11_statement (fx : Fixes) : Prop :=
  ∀ (g : AGrammar) (ts : List SymType), symbolTypes fx g = some ts → (skeleton fx g ts).wellFormed = true

/-- **Box breaks cycles.** `findRecursions` is the DFS of `SymbolTypes::find_recursions` on the
reference graph of the inferred types (one edge per `Ref` choice / struct field / `Ref`- or `Vec`-kind
target, in the order the code visits them; a marked edge is generated as `Box<_>`). If the search
terminates normally, every cycle of references through a type reachable from the start symbol contains
a marked edge. (The by-value containment graph of the generated types is a subgraph of the reference
graph: `Vec`-kind edges are no containment.) -/
theorem C11_box_breaks_cycles (ts : List SymType) (start : String) (st : DfsSt)
    (h : findRecursions (refGraph ts) start = some st) (u : String) (hr : Reach (refGraph ts) start u) :
    ¬ UnmarkedPath (refGraph ts) st.flags u u :=
  findRecursions_breaks_cycles (refGraph ts) start st h u hr

/-- non-vacuity: `E: left=E KA right=E {Add} | KB A KB; A: E | Num;` — the search terminates, the cycles
`E → E` (both fields) and `E → A → E` exist and get marks (note `E` finished twice: the start symbol is
not in `visiting`). -/
example : findRecursions (refGraph (rawTypes .repo gRec)) "E"
    = some { flags := [("A", 0), ("E", 1), ("E", 0)], visited := ["Num", "A", "E", "E"] } := by decide
example : EdgeAt (refGraph (rawTypes .repo gRec)) "E" 2 "A" ∧ EdgeAt (refGraph (rawTypes .repo gRec)) "A" 0 "E" :=
  ⟨⟨["E", "E", "A"], by decide, by decide⟩, ⟨["E", "Num"], by decide, by decide⟩⟩

/-- **Sizedness certificate.** When `Skel.sized` answers `true` no set of declared types is tied into
a by-value containment knot (each member containing another member outside of Box / Vec) — in
particular there is no containment cycle, the cause of rustc's E0072. -/
theorem C11_sized_sound (s : Skel) (h : s.sized = true) : ¬ ∃ C, Knot s.contain C :=
  sized_sound s h

example : (skelNow gRec).sized = true := by decide

/-- **Arms of full length are well typed** (partial `C11_skeleton_well_formed`), for every variant: for
a production that is not right-nulled — every production when the table is LR — each call of its
reduce arm passes arguments of exactly the parameter types, provided the call resolves to the action
generated for the production (hypothesis `hsig`: this is what `Skel.namesDistinct` buys, cf. F13), whose
parameters are the production's content symbols. Missing for the full statement: the resolution of
names (F13) and the right-nulled arms (F12); both are real, recorded defects. -/
theorem C11_arms_typed_partial (fx : Fixes) (s : Skel) (ts : List SymType) (nt : String) (c : Choice) (p : AProd)
    (names : List String) (hrn : p.rnLen = p.rhs.length)
    (hsig : s.fnSig (actionName nt c) = some (List.zip names ((contentRhs p).map (fun a => Ty.named a.2.name))))
    (hlen : names.length = (contentRhs p).length) :
    ∀ call ∈ prodCalls fx ts nt c p, s.callOk call = true :=
  calls_ok_of_full_length fx s ts nt c p names hrn hsig hlen

/-- non-vacuity: the whole skeleton of the LR variant of the F12 witness is well formed -/
example : (skelNow (gTail false)).wellFormed = true := by decide

/-! ## what remains false of /repo as it is (recorded findings) -/

/-- **Finding F12 (recorded).** GLR + default builder, `S: Num A; A: B T; B: Num | EMPTY; T: Id | EMPTY;`:
the right-nulled arm of `S` passes `None` for `A`, whose type is a struct — the skeleton is ill-typed
(rustc: E0308), although names, references and sizedness are fine. -/
theorem C11_counterexample_nulled_tail :
    (skelNow (gTail true)).armsTyped = false ∧ (skelNow (gTail true)).namesDistinct = true ∧
    (skelNow (gTail true)).refsDeclared = true ∧ (skelNow (gTail true)).sized = true := by decide

/-- … whereas a right-nulled tail that IS an Option is fine: `S: Num A; A: Id | EMPTY;` under GLR. -/
example : (skelNow (gOptTail true)).wellFormed = true := by decide

/-- **Finding F13 (recorded).** `A` with production kind `BP1` and `AB` with its first production both
give the `ProdKind` variant `ABP1` (rustc: E0428). -/
theorem C11_counterexample_name_clash : (skelNow gClash).namesDistinct = false := by decide

/-- hence the full statement is false of /repo as it is -/
theorem C11_counterexample_statement : ¬ C11_statement Fixes.repo := by
  intro h
  have := h (gTail true) (typesNow (gTail true)) (by decide)
  revert this
  decide

/-! ## the repaired findings: false of the code as it was, true of /repo as it is -/

/-- **F23 (repaired).** `@vec V: V Num | myItem=Num;`: the body of the single-element action referred to
`to_snake_case(name)` = `my_item` while the parameter is called `myItem` (rustc: E0425). -/
theorem C11_counterexample_vec_label :
    (skelWas gVecLabel).vecLabelsOk = false ∧ (skelWas gVecLabel).vecLabels = ["myItem"] := by decide
theorem C11_fixed_vec_label : (skelNow gVecLabel).wellFormed = true := by decide

/-- **F22 (repaired).** `@vec V: V Num | W | Num; W: KB W | Id;` was taken for a `Vec<Num>` (`ChoiceKind::Ref`
overwrote `single` in `get_type_kind`): the action of `V: W` built `vec![w]` from a `W`, and the recursive
`W` was never visited by `find_recursions` (no reference of `V`'s type), so it was not boxed (E0308, E0072).
Now the rule is an enum and `W` is reached and boxed. -/
theorem C11_counterexample_vec_alt :
    (skelWas gVecAlt).vecAltsOk = false ∧ (skelWas gVecAlt).sized = false := by decide
theorem C11_fixed_vec_alt : (skelNow gVecAlt).wellFormed = true := by decide

/-- **F13, rule named `C` (repaired).** With `builder_loc_info` the header imported `Context as C`,
colliding with the type of a rule `C` (E0255); it now imports the trait anonymously. -/
theorem C11_counterexample_rule_c : (skelWas gRuleC).namesDistinct = false := by decide
theorem C11_fixed_rule_c : (skelNow gRuleC).wellFormed = true := by decide

/-- **F12, `Option<Box<_>>` (repaired).** `S: KA B; B: y=Num x=A; A: B | EMPTY;` under GLR: `type A =
Option<Box<B>>` was right-nulled with `Box::new(None)` (E0308); now with `None`. -/
theorem C11_counterexample_opt_box : (skelWas gOptBox).armsTyped = false := by decide
theorem C11_fixed_opt_box : (skelNow gOptBox).wellFormed = true := by decide

/-- the statement was false of the old code for these reasons as well -/
theorem C11_counterexample_statement_as_was : ¬ C11_statement Fixes.asWas := by
  intro h
  have := h gVecLabel (typesWas gVecLabel) (by decide)
  revert this
  decide

end Rustemo.Ast
