import Rustemo.Proofs.TableComplete
import Rustemo.Proofs.TableSafe4
import Rustemo.Proofs.TableFuel
import Rustemo.Proofs.TableRN
import Rustemo.Proofs.TableJust4
import Rustemo.Proofs.TLR
import Rustemo.Props.Example
import Rustemo.Props.C02
import Rustemo.Props.C03
import Rustemo.Props.C14
import Rustemo.Props.C13
/-!
# C01 / C04 (C02, C13–C15 hypotheses) — the table CONSTRUCTION inside the model

`Table.build g s fuel` (Model/Table.lean) is the executable transcription of `LRTable::new`
(rustemo-compiler/src/table/mod.rs: `first_sets`, `LRState::closure`, `calc_states` with `merge_state`
— LALR union and the Pager/Menhir weak-compatibility test —, `propagate_follows`, `calculate_reductions`
through `Resolve.cell`, `sort_terminals`).  It is compared with the table the real compiler builds, whole
table by whole table, by the driver command `table` on every case of C04 and C05 (Tie A, notes/Table.md).

The theorems below hold for EVERY grammar satisfying the decidable well-formedness `Table.gwf`
(what `GrammarBuilder` guarantees; evaluated by the driver on every dumped grammar) and every fuel:
whatever the construction returns passes the certificates the parsing theorems ask for — no
certificate run on the individual table is needed any more for tables of the model construction.
-/
namespace Rustemo.Props.C04Construction
open Rustemo Rustemo.Table

/-- **The construction never panics** (a): for every well-formed grammar, all settings (three table types,
    both algorithms) and every fuel, no `unwrap` / index / `assert!` / checked arithmetic of `LRTable::new`
    is reached — `first_sets[..]`, `nonterminals[..]`, `assert_eq!(prods.len(), 1)`, `state.actions[..]`,
    `state.gotos[..]`, the `unwrap()` of `merge_state`, `target_item.position - 1` and `self.states[..]`
    of `propagate_follows`, `terminals[..]` (`sort_terminals` has no arithmetic: its key is a pair), and the three sites of
    the conflict resolution (`assert!(shifts.len() <= 1)`, `max_prior_for_term[..]`, `panic!`).  The
    outcome is a table, the diagnostic "First set empty" (`.err`), or `.fuel`. -/
theorem construction_no_panic (g : Grammar) (hg : gwf g = true) (s : Settings) (fuel : Nat) (site : String) :
    build g s fuel ≠ .panic site :=
  build_no_panic hg s fuel site

/-- **Fuel only bounds the loops** (a): a result other than `.fuel` is the result for every larger fuel
    (any grammar). `.fuel` itself means one of the five loops (`while additions`, closure `loop`, state
    queue, `while changed`, and the closure refreshes inside it) took more rounds than `fuel`. -/
theorem construction_fuel_monotone (g : Grammar) (s : Settings) (n m : Nat) (hle : n ≤ m)
    (h : build g s n ≠ .fuel) : build g s m = build g s n :=
  build_mono g s hle h

/-- **construction_structural** (LALR, LALR_PAGER; both algorithms; any settings, priorities,
    associativities; Layout rule or not).  A table returned by the construction passes the structural
    certificate over all its automata — the hypothesis of C02 (`C02_tree_is_derivation`), C13, C14, C15
    and of the soundness half of C01.  Conflict resolution included: the cells are the resolved ones. -/
theorem construction_structural (g : Grammar) (hg : gwf g = true) (s : Settings) (fuel : Nat) (t : Table)
    (h : build g s fuel = .ok t) (htt : s.tableType ≠ "LALR_RN") :
    Cert.structural g t (autosOf g t) = true :=
  build_structural hg h htt

/-- … and as the proposition the LR theory uses -/
theorem construction_structural_prop (g : Grammar) (hg : gwf g = true) (s : Settings) (fuel : Nat) (t : Table)
    (h : build g s fuel = .ok t) (htt : s.tableType ≠ "LALR_RN") : Structural g t (autosOf g t) :=
  Cert.structural_sound g t _ (build_structural hg h htt)

/-- **construction_structural, right-nulled form** (all three table types, in particular LALR_RN): the
    structural certificate with the reduce clause of `Cert.glr` — `Reduce(p, len)` needs the item
    `(p, len)`, `len ≤ |rhs p|`, and every symbol of `rhs p` from `len` on nullable — holds, with the
    nullable symbols read off rustemo's own FIRST sets (`rnNul`: EMPTY is a member); and every such symbol
    does derive the empty string, so the proposition `StructuralRN` that the GLR soundness / no-panic
    theorems (C03, C15) use holds of every table of the model construction. -/
theorem construction_structural_rn (g : Grammar) (hg : gwf g = true) (s : Settings) (fuel : Nat) (t : Table)
    (h : build g s fuel = .ok t) :
    Cert.structuralRN g t (autosOf g t) (rnNul g t.firsts) = true ∧ (∀ X ∈ rnNul g t.firsts, Nullable g X) ∧
      StructuralRN g t (autosOf g t) := by
  have hG := GW.of_gwf hg
  obtain ⟨_, _, hF⟩ := built_final hG (build_ok h)
  obtain ⟨fuel0, hfs⟩ := hF.first
  exact ⟨build_structuralRN hg h, rnNul_nullable hG hfs, build_structuralRN_prop hg h⟩

/-- ACCEPT only ever sits in the STOP column (all three table types) -/
theorem construction_accept_on_stop (g : Grammar) (hg : gwf g = true) (s : Settings) (fuel : Nat) (t : Table)
    (h : build g s fuel = .ok t) : ∀ st a, Action.accept ∈ t.cell st a → a = 0 :=
  build_accept_stop hg h

/-- **construction_complete** (LALR, LALR_PAGER; grammar without Layout rule).  If no cell of the
    table ever had two candidates (`Table.rawDeterministic`, computed from items and lookaheads — so no
    priority / associativity / prefer-shift choice was exercised), the table is COMPLETE: closure and
    transitions carry every lookahead in `FIRST(β a)` (semantic FIRST, by derivation trees), every
    completed item has its reduce entry on every lookahead, ACCEPT for the completed augmented item, at
    most one action per cell.  This is the conclusion of the completeness certificate `Cert.complete`
    (`Cert.complete_sound`), obtained here from the exit conditions of the construction's own fixpoint
    loops: `first_sets` (post-fixpoint of the FIRST equations), `LRState::closure` (no `change`),
    `propagate_follows` (no `changed`). -/
theorem construction_complete (g : Grammar) (hg : gwf g = true) (hnl : g.auglIdx = none) (s : Settings)
    (fuel : Nat) (t : Table) (h : build g s fuel = .ok t) (htt : s.tableType ≠ "LALR_RN")
    (hraw : t.rawDeterministic g = true) : Complete g t ∧ GWF g :=
  build_complete hg hnl h htt hraw

/-- **C01 for the model construction, no certificate run.**  For every well-formed grammar without
    Layout rule whose LALR / LALR_PAGER table, as the construction builds it, has no cell with two
    candidates: the token-level LR parser over that table accepts exactly the sentences of the grammar,
    and returns the derivation tree. -/
theorem C01_construction_accepts_exactly (g : Grammar) (hg : gwf g = true) (hnl : g.auglIdx = none)
    (s : Settings) (fuel : Nat) (t : Table) (h : build g s fuel = .ok t) (htt : s.tableType ≠ "LALR_RN")
    (hraw : t.rawDeterministic g = true) (w : List Nat) (hnz : ∀ x ∈ w, x ≠ 0) :
    (∃ n tr, tparse g t w n = .accept tr) ↔ Sentence g w := by
  have hs := construction_structural_prop g hg s fuel t h htt
  obtain ⟨hC, hW⟩ := construction_complete g hg hnl s fuel t h htt hraw
  constructor
  · rintro ⟨n, tr, hn⟩
    exact ⟨tr, trun_sound g t (autosOf g t) hs ⟨0, 0, g.startIdx⟩
      (by unfold autosOf; exact List.mem_cons_self) rfl (build_accept_stop hg h) w hnz n _ tr
      ⟨cinv_init g t 0, by simp⟩ hn⟩
  · rintro ⟨tx, hv, hy⟩
    obtain ⟨n, hn⟩ := tparse_complete g t hW hC hs.item_prod tx hv
    exact ⟨n, tx.plain, by rw [← hy]; exact hn⟩

/-- **construction_lookaheads_exact** (d, the part that is proved; all three table types, both algorithms,
    Layout rule or not, Pager splitting included).  Let `sts` be the automaton the construction has built when
    conflict resolution starts (the final table has exactly its items with their lookaheads, its gotos, and of
    its SHIFT entries those that resolution kept).  Then for every state `i`, item `(p, d)` and terminal `a`:

      `a` is a lookahead of `(p, d)` in state `i`   ⟺   `Just g t.firsts autos sts i p d a`,

    where `Just` (Proofs/TableJust.lean) is defined from the grammar, rustemo's FIRST sets and the recorded
    TRANSITIONS alone: STOP on a start item; `gen` — `a ∈ FIRST(β)` for a closure item of a reachable
    `[A → α.Bβ]`; `prop` — β nullable, inside a state; `trans` — along a transition.  So nothing is lost
    (⇐: the sets are closed under the LALR(1) equations — `first_sets`, closure and `propagate_follows` reach
    their fixpoints) and NOTHING IS INVENTED (⇒: every lookahead ever added by closure, `merge_state` or
    `propagate_follows` has such a derivation): the lookahead sets are the LEAST solution of the LALR(1)
    generation / propagation equations over the automaton that was built.  Not proved (C04's remaining step,
    decided per table by `Cover.check`): that this automaton is the merge of the canonical LR(1) automaton and
    that the least solution is the union of the canonical lookaheads. -/
theorem construction_lookaheads_exact (g : Grammar) (hg : gwf g = true) (s : Settings) (fuel : Nat) (t : Table)
    (h : build g s fuel = .ok t) :
    ∃ (sts : Array State) (autos : List (Nat × Nat)), AutosOf g t autos ∧ sts.size = t.states.size ∧
      (∀ (i : Nat) (st' : State), t.states[i]? = some st' → ∃ st, sts[i]? = some st ∧ st'.items = st.items ∧
        st'.gotos = st.gotos ∧
        ∀ a s', Action.shift s' ∈ st'.actions.getD a [] → Action.shift s' ∈ st.actions.getD a []) ∧
      ∀ i p d a, (∃ st it, sts[i]? = some st ∧ it ∈ st.items ∧ it.prod = p ∧ it.dot = d ∧ a ∈ it.la) ↔
        Just g t.firsts autos sts i p d a :=
  build_lookaheads_exact hg h

/-- **C02 for every grammar, no certificate run** (LALR, LALR_PAGER; Layout rule or not; with or without
    conflicts resolved by priorities / associativity / prefer-shift; partial parsing on or off; any recognizers;
    any input; any fuel).  Whatever table the model of `LRTable::new` returns for a well-formed grammar, every
    successful run of the byte-level model of `LRParser::parse` on it yields a derivation tree of the start symbol
    whose frontier is exactly the consumed token sequence: `construction_structural` discharges the certificate
    hypothesis of `C02_tree_is_derivation`.  The model table is the real table by the whole-table correspondence
    of C04/C05 (driver command `table`), so for tables of the current compiler C02 no longer rests on a
    per-table certificate run alone. -/
theorem C02_construction_tree_is_derivation (g : Grammar) (hg : gwf g = true) (s : Settings) (fuelT : Nat)
    (t : Table) (h : build g s fuelT = .ok t) (htt : s.tableType ≠ "LALR_RN")
    (env : Env) (heg : env.g = g) (het : env.t = t)
    (partialParse : Bool) (fuel : Nat) (ctx : Ctx) (r : ParseResult)
    (hrun : parse env partialParse fuel = (ctx, .ok r)) :
    r.tree.Valid g g.startIdx ∧ r.tree.yield = (r.hist.map (·.kind)).reverse := by
  subst heg het
  exact Props.C02.C02_tree_is_derivation env partialParse fuel ctx r
    (construction_structural env.g hg s fuelT env.t h htt) hrun

/-- the same with ANY non-model "next token" function (user lexers): the tree of every successful run of the parser
    loop over a table of the construction is a derivation tree of the tokens the lexer delivered -/
theorem C02_construction_tree_is_derivation_any_lexer (g : Grammar) (hg : gwf g = true) (s : Settings)
    (fuelT : Nat) (t : Table) (h : build g s fuelT = .ok t) (htt : s.tableType ≠ "LALR_RN")
    (env : Env) (heg : env.g = g) (het : env.t = t)
    (nt : Ctx → Ctx × Outcome Tok) (ctx0 : Ctx) (fuel : Nat) (ctx : Ctx) (r : ParseResult)
    (hrun : parseWith env nt 0 ctx0 fuel = (ctx, .ok r)) :
    r.tree.Valid g g.startIdx ∧ r.tree.yield = (r.hist.map (·.kind)).reverse := by
  subst heg het
  exact Props.C02.C02_tree_is_derivation_any_lexer env nt ctx0 fuel ctx r
    (construction_structural env.g hg s fuelT env.t h htt) hrun

/-- **C03 soundness over tables of the construction** (all three table types, in particular LALR_RN).  For a table
    the model of `LRTable::new` returns, the structural half of `Cert.glr` (`nulOk` + `structuralRN`: every
    right-nulled reduce entry stands on its item and elides only nullable symbols) is `construction_structural_rn`;
    what is left as executable hypotheses are the two table-shape certificates `Cert.symbolsOk` (the recorded state
    symbol is the transition symbol) and `Cert.total` (every index in a cell is in range), which are NOT yet proved
    of the construction.  Then every tree of every successful run of the GLR engine model is the elision of a full
    derivation tree of the start symbol with the same yield. -/
theorem C03_construction_engine_sound_partial (g : Grammar) (hg : gwf g = true) (s : Settings) (fuelT : Nat)
    (t : Table) (h : build g s fuelT = .ok t) (env : Env) (heg : env.g = g) (het : env.t = t)
    (hsym : Cert.symbolsOk g t = true) (htot : Cert.total g t 0 = true)
    (partialParse : Bool) (fuel : Nat) (r : Rustemo.Glr.GlrResult)
    (hrun : Rustemo.Glr.parse env partialParse fuel = .ok r) (i : Nat) (tr : Tree)
    (ht : r.getTree i = some tr) :
    tr.ValidElided g g.startIdx ∧
    ∃ full : Tree, full.Valid g g.startIdx ∧ full.yield = tr.yield ∧ full.ElidedFrom tr := by
  subst heg het
  have hT : Rustemo.Glr.TableOk env :=
    ⟨(construction_structural_rn env.g hg s fuelT env.t h).2.2, Cert.symbolsOk_sound _ _ hsym,
      Cert.total_sound _ _ _ htot⟩
  have hr := Rustemo.Glr.parse_sat (A := True) hT (fun h => absurd trivial h) partialParse fuel
  rw [hrun] at hr
  obtain ⟨n, hv, _⟩ := Rustemo.Glr.result_trees_ok hr i tr ht
  exact ⟨hv, Tree.complete_elided env.g tr _ hv⟩

/-- **No SHIFT in the STOP column of any constructed table** (all three table types): a SHIFT entry of the final
    table was a SHIFT entry before resolution (`final_cell`), every such entry stands on an item whose symbol after the
    dot is the column (`InvC.cellsound`, an invariant of `calc_states`), and no right-hand side of a well-formed
    grammar contains STOP.  This is the hypothesis `Cert.noShiftStop` of C13 / C14, as a proposition. -/
theorem construction_no_shift_stop (g : Grammar) (hg : gwf g = true) (s : Settings) (fuel : Nat) (t : Table)
    (h : build g s fuel = .ok t) : NoShiftStop t := by
  intro i s' hm
  obtain ⟨st', hst', hm'⟩ := Rustemo.mem_cell hm
  have hG := GW.of_gwf hg
  obtain ⟨sts, autos, hF⟩ := built_final hG (build_ok h)
  obtain ⟨st0, h1, h2⟩ := hF.fin i st' hst'
  obtain ⟨_, hc⟩ := final_cell h2 hm'
  have hsh : Action.shift s' ∈ st0.actions.getD 0 [] := by
    rcases hc with hc | ⟨hc, _⟩ | ⟨_, _, _, _, hc⟩
    · exact hc
    · cases hc
    · cases hc
  obtain ⟨c, _, hr⟩ := (hF.invc.st i st0 h1).cellsound 0 s' hsh
  unfold Grammar.rhsAt at hr
  split at hr
  · rename_i pr hpr
    have := ((hG.prod_ok c.1 pr hpr).2.2 0 (List.mem_of_getElem? hr)).1
    omega
  · simp at hr

/-- **C13 for every grammar, no certificate run** (LALR, LALR_PAGER, LALR_RN tables driven by the LR parser; Layout rule
    or whitespace skipping; partial parsing on or off): the tree of every successful run of the byte-level model of
    `LRParser::parse` over a constructed table satisfies the span specification at every node. -/
theorem C13_construction_lr_spans (g : Grammar) (hg : gwf g = true) (s : Settings) (fuelT : Nat)
    (t : Table) (h : build g s fuelT = .ok t) (env : Env) (het : env.t = t)
    (hc : env.custom = none) (hr : RecogOk env)
    (partialParse : Bool) (fuel : Nat) (ctx : Ctx) (r : ParseResult)
    (hrun : parse env partialParse fuel = (ctx, .ok r)) : r.tree.SpanOk env.input := by
  subst het
  exact parse_spans env hc hr (construction_no_shift_stop g hg s fuelT env.t h) partialParse fuel ctx r hrun

/-- **C14 round trip for every grammar, no certificate run** (LALR, LALR_PAGER; whitespace skipping on or off; no
    Layout rule): both certificate hypotheses of `C14_roundtrip` are discharged by the construction theorems. -/
theorem C14_construction_roundtrip (g : Grammar) (hg : gwf g = true) (s : Settings) (fuelT : Nat)
    (t : Table) (h : build g s fuelT = .ok t) (htt : s.tableType ≠ "LALR_RN")
    (env : Env) (heg : env.g = g) (het : env.t = t)
    (hc : env.custom = none) (hl : t.layoutState = none) (hr : RecogOk env)
    (partialParse : Bool) (fuel : Nat) (ctx : Ctx) (r : ParseResult)
    (hrun : parse env partialParse fuel = (ctx, .ok r)) :
    Tree.flat env.input r.tree ++ layBytes env.input ctx.lay = env.input.take ctx.pos.pos := by
  subst heg het
  exact parse_roundtrip env hc hl hr (construction_no_shift_stop env.g hg s fuelT env.t h)
    (construction_structural_prop env.g hg s fuelT env.t h htt) partialParse fuel ctx r hrun

/-- **Every SHIFT and GOTO target of a constructed table is a state of the table** (all three table types): two of the
    six clauses of `Cert.total` (`shift_range`, `goto_range` — the runtime's `self.definition.actions(state, ..)` /
    `goto(state, ..)` never index outside the table), from the invariant `Inv.trans` of `calc_states` and the fact that
    resolution only removes SHIFT entries and leaves GOTOs alone. -/
theorem construction_targets_in_range (g : Grammar) (hg : gwf g = true) (s : Settings) (fuel : Nat) (t : Table)
    (h : build g s fuel = .ok t) :
    (∀ i a s', Action.shift s' ∈ t.cell i a → s' < t.states.size) ∧
    (∀ i A s', t.goto g i A = some s' → s' < t.states.size) := by
  have hG := GW.of_gwf hg
  obtain ⟨sts, autos, hF⟩ := built_final hG (build_ok h)
  constructor
  · intro i a s' hm
    obtain ⟨st', hst', hm'⟩ := Rustemo.mem_cell hm
    obtain ⟨st0, h1, h2⟩ := hF.fin i st' hst'
    obtain ⟨_, hc⟩ := final_cell h2 hm'
    have hsh : Action.shift s' ∈ st0.actions.getD a [] := by
      rcases hc with hc | ⟨hc, _⟩ | ⟨_, _, _, _, hc⟩
      · exact hc
      · cases hc
      · cases hc
    have ha : a < g.nterms := by
      have hsz := (hF.inv.st i st0 h1).asize
      rcases Nat.lt_or_ge a st0.actions.size with hlt | hge
      · omega
      · rw [Array.getD_eq_getD_getElem?, Array.getElem?_eq_none hge] at hsh
        simp at hsh
    rw [hF.size]
    exact (hF.inv.trans i st0 h1 a s' (.inl ⟨ha, hsh⟩)).1
  · intro i A s' hgo
    unfold Table.goto at hgo
    split at hgo
    · rename_i hA
      unfold Table.gotoNt at hgo
      split at hgo
      · rename_i st' hst'
        obtain ⟨st0, h1, h2⟩ := hF.fin i st' hst'
        obtain ⟨_, f2, _⟩ := finishState_spec h2
        rw [f2] at hgo
        rw [hF.size]
        exact (hF.inv.trans i st0 h1 A s' (.inr ⟨hA, hgo⟩)).1
      · cases hgo
    · cases hgo

/-- **No REDUCE by an augmented production in any constructed table** (all three table types; the `no_reduce_aug`
    clause of `Cert.total`): the completed augmented item yields ACCEPT, never a reduction — the parser loop's
    `production lhs → goto` lookup after a reduction is never asked for the augmented symbol. -/
theorem construction_no_reduce_aug (g : Grammar) (hg : gwf g = true) (s : Settings) (fuel : Nat) (t : Table)
    (h : build g s fuel = .ok t) :
    ∀ i a p len, Action.reduce p len ∈ t.cell i a → g.isAug p = false := by
  intro i a p len hm
  obtain ⟨st', hst', hm'⟩ := Rustemo.mem_cell hm
  have hG := GW.of_gwf hg
  obtain ⟨sts, autos, hF⟩ := built_final hG (build_ok h)
  obtain ⟨it, _, _, _, _, _, hna⟩ := (final_facts hG hF).reduce i st' hst' a p len hm'
  unfold Resolve.isAugProd at hna
  unfold Grammar.isAug
  split at hna
  · rename_i pr hpr
    rw [hpr]
    simp only [Bool.or_eq_false_iff] at hna ⊢
    refine ⟨hna.1, ?_⟩
    cases hl : g.auglIdx with
    | none => simp
    | some l =>
      rw [hl] at hna
      simpa using hna.2
  · rename_i hpr
    rw [hpr]

/-! ## non-vacuity: `S: 'a' S | EMPTY` -/

/-- the grammar of `Props/Example.lean` with its terminal records (STOP, `a`) -/
def gT : Grammar := { Example.g with terms := #[
  { name := "STOP", prio := 10, assoc := .none, recog := none, hasContent := false, reachable := false },
  { name := "a", prio := 10, assoc := .none, recog := some (.str "a"), hasContent := false, reachable := true }] }

def lalr : Settings := { tableType := "LALR" }

def skeleton (t : Table) : List (Nat × List Item × List (List Action) × List (Option Nat)) :=
  t.states.toList.map fun st => (st.symbol, st.items, st.actions.toList, st.gotos.toList)

/-- `p` holds of the table the construction returns -/
def okAnd (r : Res Table) (p : Table → Bool) : Bool :=
  match r with
  | .ok t => p t
  | _ => false

/-- the model construction reproduces the hand-compiled table of `Props/Example.lean`: same states in
    the same order, same items and lookaheads, same cells, same gotos (the example table carries no
    lexical data: `sorted_terminals` / max priorities are not compared) -/
example : okAnd (build gT lalr 20) (fun t => skeleton t == skeleton Example.t) = true := by decide +kernel

/-- the hypotheses of the theorems hold of it: well-formed grammar, no Layout rule, LALR, the construction
    returns a table, and no cell of it ever had two candidates -/
example : gwf gT = true ∧ gT.auglIdx = none ∧ lalr.tableType ≠ "LALR_RN" ∧
    okAnd (build gT lalr 20) (fun t => t.rawDeterministic gT) = true := by decide +kernel

/-- the right-nulled table of the same grammar has a right-nulled entry (`S: 'a' . S` reduces with length
    1 on STOP) and the construction returns it with the same fuel -/
example : okAnd (build gT { tableType := "LALR_RN", glr := true } 20)
    (fun t => (t.cell 1 0).contains (Action.reduce 1 1) && t.rnLens == some #[0, 1, 0]) = true := by decide +kernel

/-- the hypotheses of `C02_construction_tree_is_derivation` are met: the byte-level parser model succeeds on the
    example input over the table the CONSTRUCTION returned (not the hand-compiled one) -/
example : okAnd (build gT lalr 20)
    (fun t => Example.isOk (parse { Example.env with g := gT, t := t } false 100).2) = true := by decide +kernel

/-- the hypotheses of `C03_construction_engine_sound_partial` are met: on the right-nulled table the CONSTRUCTION
    returned, both remaining certificates hold and the GLR engine model succeeds with at least one tree -/
example : okAnd (build gT { tableType := "LALR_RN", glr := true } 20)
    (fun t => Cert.symbolsOk gT t && Cert.total gT t 0 &&
      (match Rustemo.Glr.parse { Example.env with g := gT, t := t } false 100 with
       | .ok r => (r.getTree 0).isSome
       | _ => false)) = true := by decide +kernel

/-- the hypotheses of `C13_construction_lr_spans` / `C14_construction_roundtrip` are met on the constructed table, and
    `construction_no_shift_stop` is observed on it (the successful run
    is the example above; `RecogOk` mentions only `recog` and `input`, those of `Example.env`: example in `Props/C13.lean`) -/
example : okAnd (build gT lalr 20) (fun t => Cert.noShiftStop t && t.layoutState.isNone) = true := by
  decide +kernel

end Rustemo.Props.C04Construction
