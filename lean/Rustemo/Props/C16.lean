import Rustemo.Props.C05
namespace Rustemo.Props.C16
end Rustemo.Props.C16
