import Rustemo.Props.C05
import Rustemo.Props.C09
/-!
# C16 — the compiler is total: any grammar text gives a parser or a diagnostic

PARTIAL.  The compiler is a pipeline  text → AST → grammar (builder) → LR items/lookaheads → cells
(conflict resolution) → generated code.  Two stages are modelled in Lean with every
`unwrap / expect / assert! / todo! / index` as an explicit `panic` outcome, and their totality is
proved here for the code as it is in `/repo` (`Front.repoVariant`, `Resolve.Fixes.current`):

* the grammar builder (`Front.build`, C09's model): no panic outside one decidable class of texts
  (integer literals that do not fit `u32`), a recorded known finding with a proved witness;
* conflict resolution of one cell (`Resolve.cell`, C05's model): never a panic.

The parser of the grammar language (an instance of C15), the item-set construction and the code
generators are not modelled; for them C16 is decided by the differential run only (the real
`Settings::process_grammar` under `catch_unwind` on the repository's grammars, hand-written broken
texts and token/byte-level mutations).
-/
namespace Rustemo.Props.C16
open Rustemo.Front

/-- **Builder totality for the code in `/repo`**: a `File` AST whose integer literals fit `u32` and which
is not one of the two AST shapes no text produces (an empty rule list, a rule without alternatives) is
never answered by a panic: `Front.build` returns a grammar or a diagnostic.  (Since C09-fix-9 a rule that
is its own repetition helper — `A1: … A+ …`, finding F5b — is a diagnostic, no hypothesis any more.) -/
theorem C16_front_end_total (f : File)
    (hint : f.big u32Max = false)
    (h2 : (f.rules == some []) = false) (h3 : (f.ruleList.any fun r => r.alts.isEmpty) = false) :
    ∀ s, build repoVariant f ≠ .panic s :=
  Rustemo.Props.C09.C16_build_total_partial repoVariant f
    (Rustemo.Props.C09.C16_safe_of_classes repoVariant f
      (by simp [hint]) (by simp [repoVariant]) h2 h3 (by simp [repoVariant]) (by simp [repoVariant])
      (by simp [repoVariant]) (by simp [repoVariant]) (by simp [repoVariant]))

/-- the class excluded above does panic (so the hypothesis cannot be dropped): the witness of the known
finding `F9-int-const-panic`; every other historic front-end panic is a diagnostic now — the rule that is
its own helper (`F5b-self-helper-index-gap`, the former index panic) included -/
theorem C16_front_end_open_panics :
    build repoVariant Rustemo.Front.Ex.fBigInt = .panic .intConst ∧
    build repoVariant Rustemo.Front.Ex.fSelf = .err (.helperClash (nm "A1")) ∧
    build repoVariant Rustemo.Front.Ex.fTermsOnly = .err .noRules ∧
    build repoVariant Rustemo.Front.Ex.fGroup = .err .notImplemented ∧
    build repoVariant Rustemo.Front.Ex.fGreedy = .err .notImplemented ∧
    build repoVariant Rustemo.Front.Ex.fMods = .err .notImplemented ∧
    build repoVariant Rustemo.Front.Ex.fReserved = .err (.reserved (nm "AUG")) := by decide

/-- what the builder hands to the later stages: no production references `STOP` (so the `STOP` column
of the table holds no SHIFT: the "at most one SHIFT or ACCEPT per cell" premise of
`C16_resolution_total` is not broken by the grammar text) and every production kind is a Rust
identifier (the generator's `format_ident!` on kinds cannot panic); no production references the augmented
nonterminals `AUG`/`AUGL` (on which the table builder does not terminate) -/
theorem C16_builder_output_safe (f : File) (g : Front.Grammar) (h : build repoVariant f = .ok g) :
    (∀ p, p ∈ g.prods → ∀ a, a ∈ p.rhs → a.sym ≠ .name kSTOP) ∧
    (∀ p, p ∈ g.prods → ∀ k, p.kind = some k → identOk k = true) ∧
    (∀ p, p ∈ g.prods → ∀ a, a ∈ p.rhs → a.sym ≠ .name kAUG ∧ a.sym ≠ .name kAUGL) :=
  ⟨Rustemo.Props.C09.C16_no_stop_reference repoVariant f g (by decide) h,
   Rustemo.Props.C09.C16_kinds_are_identifiers repoVariant f g (by decide) h,
   Rustemo.Props.C09.C16_no_aug_reference repoVariant f g (by decide) h⟩

/-- **Conflict resolution is total** (model of `LRTable::calculate_reductions` for one cell, code as in
`/repo`): whatever the priorities, associativities, prefer-shift settings and order of reductions,
the cell computation ends with a cell, never in an assertion or `unreachable!`. -/
theorem C16_resolution_total (cfg : Rustemo.Resolve.Cfg) (info : Nat → Rustemo.Resolve.PInfo)
    (ta : Rustemo.Assoc) (sp : Option Nat) (init : List Rustemo.Action)
    (evs : List Rustemo.Resolve.Ev)
    (h1 : Rustemo.Resolve.shiftLikes init + Rustemo.Resolve.accepts evs ≤ 1)
    (h2 : Rustemo.Resolve.SpOk sp init) :
    ∃ c, Rustemo.Resolve.cell Rustemo.Resolve.Fixes.current cfg info ta sp init evs = .ok c :=
  Rustemo.Props.C05.C05_resolution_total Rustemo.Resolve.Fixes.current (by decide) cfg info ta sp init evs h1 h2

/-- non-vacuity: the example grammar of C09 (every kind of sugar, meta-data, inline string, EMPTY)
meets the hypotheses of `C16_front_end_total` -/
example : Rustemo.Front.Ex.fGood.big u32Max = false ∧
    (Rustemo.Front.Ex.fGood.rules == some []) = false ∧
    (Rustemo.Front.Ex.fGood.ruleList.any fun r => r.alts.isEmpty) = false := by decide

end Rustemo.Props.C16
