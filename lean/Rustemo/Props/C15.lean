import Rustemo.Proofs.NoPanic
import Rustemo.Proofs.TermMain
import Rustemo.Props.ExampleTerm
import Rustemo.Props.C13
import Rustemo.Proofs.GlrLayout
import Rustemo.Proofs.GlrExample
import Rustemo.Props.Example
/-!
# C15 — parsing is total: any input and lexer give Ok or Err, never a panic or hang

LR half, no-panic part.  `LR.parse` models `LRParser::parse` with every `unwrap` / index /
`split_off` / `expected[0]` of `lr/parser.rs`, `lr/builder.rs`, `error.rs` as an explicit
`.panic site`; `env.recog` is an arbitrary recognizer function (any input, any matches) and
`env.custom` selects the string lexer or one of the adversarial user lexers that ignore the expected
set.  `Cert.structural` and `Cert.total` are executable certificates run by the driver on the table
dumped from the real compiler (for the layout automaton as well when the grammar has a Layout rule).

Termination (LR half): `C15_lr_terminates` — on a table passing the executable certificate
`Cert.terminating` (`Model/CertTerm.lean`: no unit-derivation cycle among the productions the table
reduces by, no goto cycle on nullable nonterminals) and for recognizers whose tokens other than STOP
are not empty (`NonEmptyTokens`), the model never runs out of fuel once it has `Cert.termBound g t n`
of it, `n` the input length: an explicit bound, linear in `n`.  The two known non-terminating classes
are exactly the two hypotheses: F24 (cyclic grammar accepted through priorities) fails the certificate
(`C15_counterexample_cyclic_grammar`), F14 (a terminal that matches the empty string) violates
`NonEmptyTokens`.  NOT proved: termination with the adversarial user lexers (`env.custom`), and of the
GLR parser.  The GLR half (no panic) is `C15_glr_no_panic` below, a restatement of
`C03_engine_no_panic_certified` (engine model `Glr.parse`, Model/Glr.lean, tied to `GlrParser::parse` by the C03
correspondence).
-/
namespace Rustemo.Props.C15
open Rustemo

/-- **Any non-panicking lexer.**  With a "next token" function that does not panic itself and hands
    the parser state back, the parser loop never reaches a panic site, whatever tokens it delivers
    (kinds the state has no action for surface as `err noAction`). -/
theorem C15_lr_no_panic_any_lexer (env : Env) (nt : Ctx → Ctx × Outcome Tok)
    (hs : Cert.structural env.g env.t (autosOf env.g env.t) = true)
    (ht : Cert.total env.g env.t 0 = true)
    (hnt : NtGood env.t nt) (ctx0 : Ctx) (h0 : ctx0.state < env.t.states.size) (fuel : Nat) :
    ∀ site, (parseWith env nt 0 ctx0 fuel).2 ≠ .panic site := by
  intro site h
  have := parseWith_no_panic env nt (autosOf env.g env.t) ⟨0, 0, env.g.startIdx⟩
    (by unfold autosOf; exact List.mem_cons_self) 0 rfl (Cert.structural_sound _ _ _ hs)
    (Cert.total_sound _ _ _ ht) hnt ctx0 h0 fuel
  rw [h] at this
  exact this

/-- **`LRParser::parse`** with the default string lexer (any recognizers, any input, whitespace
    skipping or Layout rule, partial parsing on/off) or an adversarial user lexer never panics, given
    the certificate `Cert.lr` (structural + total for the main automaton and, if the grammar has a
    Layout rule, for the layout automaton). -/
theorem C15_lr_no_panic (env : Env) (hcert : Cert.lr env.g env.t = true)
    (partialParse : Bool) (fuel : Nat) :
    ∀ site, (parse env partialParse fuel).2 ≠ .panic site := by
  intro site h
  unfold Cert.lr at hcert
  simp only [Bool.and_eq_true] at hcert
  obtain ⟨⟨hs, ht⟩, hl⟩ := hcert
  have hS := Cert.structural_sound _ _ _ hs
  have := parse_no_panic env (autosOf env.g env.t) hS ⟨0, 0, env.g.startIdx⟩
    (by unfold autosOf; exact List.mem_cons_self) rfl (Cert.total_sound _ _ _ ht)
    (by
      intro ls hls
      rw [hls] at hl
      simp only [Bool.and_eq_true, List.any_eq_true, beq_iff_eq] at hl
      obtain ⟨⟨au, hau, hst⟩, htl⟩ := hl
      exact ⟨⟨au, hau, hst⟩, Cert.total_sound _ _ _ htl⟩)
    partialParse fuel
  rw [h] at this
  exact this

/-- non-vacuity: the certificate holds for a concrete table -/
example : Cert.lr Example.env.g Example.env.t = true := by decide

/-- **`LRParser::parse` terminates.**  Default string lexer (`env.custom = none`), any recognizers that
    stay inside the input (`RecogOk`) and report no empty token except STOP (`NonEmptyTokens`), any
    input, whitespace skipping or a Layout rule (the nested layout parser included), partial parsing on
    or off.  On a table passing `Cert.lr` (structural + total, layout automaton covered),
    `Cert.noShiftStop` and the termination certificate `Cert.terminating`, the parser model given at
    least `Cert.termBound g t |input|` fuel never answers `.fuel`: it stops with Ok or Err (never a
    panic: `C15_lr_no_panic`).  `Cert.termBound g t n = n + (n+1)·Wn·E + 2n·K + 1` with
    `E = (m+1)^W`, `K = (1 + m·E)·W`, where `m` is the longest used right-hand side, `W` (`Wn`) one
    more than the largest rank of a symbol (state) the certificate computed. -/
theorem C15_lr_terminates (env : Env) (hc : env.custom = none) (hr : RecogOk env)
    (hne : NonEmptyTokens env) (hcert : Cert.lr env.g env.t = true)
    (hstop : Cert.noShiftStop env.t = true) (hterm : Cert.terminating env.g env.t = true)
    (partialParse : Bool) (fuel : Nat) (hfuel : Cert.termBound env.g env.t env.input.length ≤ fuel) :
    (parse env partialParse fuel).2 ≠ .fuel := by
  unfold Cert.lr at hcert
  simp only [Bool.and_eq_true] at hcert
  obtain ⟨⟨hs, _⟩, hl⟩ := hcert
  refine parse_terminates env hc hr hne (C13.noShiftStop_sound _ hstop) (Cert.structural_sound _ _ _ hs) ?_
    hterm partialParse fuel hfuel
  intro ls hls
  rw [hls] at hl
  simp only [Bool.and_eq_true, List.any_eq_true, beq_iff_eq] at hl
  obtain ⟨⟨au, hau, hst⟩, _⟩ := hl
  exact ⟨au, hau, hst⟩

/-- non-vacuity: `S: 'a' S | EMPTY` on "a a": every hypothesis holds, the bound is 70 iterations -/
example : Example.env.custom = none ∧ Cert.lr Example.env.g Example.env.t = true ∧
    Cert.noShiftStop Example.env.t = true ∧ Cert.terminating Example.env.g Example.env.t = true ∧
    Cert.termBound Example.env.g Example.env.t Example.env.input.length = 70 := by decide +kernel

example : NonEmptyTokens Example.env := by
  intro k p l h hk
  have h' : Example.recog k p = some l := h
  unfold Example.recog at h'
  by_cases h1 : k = 1
  · rw [if_pos h1] at h'
    split at h'
    · injection h' with h'; omega
    · simp at h'
  · rw [if_neg h1, if_neg hk] at h'
    simp at h'

/-- **The class of finding F24 is outside the certificate, and it does hang**: on the table rustemo
    builds for `S: A | Ta; A: S {15};` (cyclic grammar, the conflict accept / reduce `A → S` resolved by
    the priority) `Cert.terminating` is false although every other hypothesis of `C15_lr_terminates`
    holds, and the parser model is still running after 300 iterations on the input `a`. -/
theorem C15_counterexample_cyclic_grammar :
    ExampleTerm.F24.env.custom = none ∧ Cert.lr ExampleTerm.F24.g ExampleTerm.F24.t = true ∧
    Cert.noShiftStop ExampleTerm.F24.t = true ∧
    Cert.terminating ExampleTerm.F24.g ExampleTerm.F24.t = false ∧
    ExampleTerm.F24.isFuel (parse ExampleTerm.F24.env false 300).2 = true := by decide +kernel

/-- **GLR half: `GlrParser::parse` never panics.**  The engine model `Glr.parse` (every `unwrap` / `expect` / index of
    `glr/parser.rs` and `glr/gss.rs` is a `.panic site`, the nested LR layout parser included) reaches no panic site
    on a table passing the executable certificates `Cert.glr` (structural certificate with right-nulled reduce
    entries, nullable ranking, accessing symbols, `Cert.total`) and `Cert.glrLayout` (the layout automaton is covered
    and total; trivially true without a Layout rule) — any input, recognizers, lexer, partial flag, fuel. -/
theorem C15_glr_no_panic (env : Env) (hcert : Cert.glr env.g env.t = true)
    (hlay : Cert.glrLayout env.g env.t = true) (partialParse : Bool) (fuel : Nat) :
    ∀ site, Glr.parse env partialParse fuel ≠ .panic site :=
  Glr.parse_no_panic env hcert (Glr.layoutSafe_of_cert env hcert hlay) partialParse fuel

/-- non-vacuity: both certificates hold of the real LALR_RN table of `S: 'a' S A | EMPTY; A: 'a' | EMPTY` -/
example : Cert.glr Glr.Example.g Glr.Example.t = true ∧ Cert.glrLayout Glr.Example.g Glr.Example.t = true := by
  decide +kernel

end Rustemo.Props.C15
