import Rustemo.Proofs.NoPanic
import Rustemo.Proofs.GlrLayout
import Rustemo.Proofs.GlrExample
import Rustemo.Props.Example
/-!
# C15 — parsing is total: any input and lexer give Ok or Err, never a panic or hang

LR half, no-panic part.  `LR.parse` models `LRParser::parse` with every `unwrap` / index /
`split_off` / `expected[0]` of `lr/parser.rs`, `lr/builder.rs`, `error.rs` as an explicit
`.panic site`; `env.recog` is an arbitrary recognizer function (any input, any matches) and
`env.custom` selects the string lexer or one of the adversarial user lexers that ignore the expected
set.  `Cert.structural` and `Cert.total` are executable certificates run by the driver on the table
dumped from the real compiler (for the layout automaton as well when the grammar has a Layout rule).

NOT proved: termination (the model takes fuel; hangs are decided by the watchdog of the
correspondence harness, known finding F14).  The GLR half (no panic) is `C15_glr_no_panic` below, a restatement of
`C03_engine_no_panic_certified` (engine model `Glr.parse`, Model/Glr.lean, tied to `GlrParser::parse` by the C03
correspondence).
-/
namespace Rustemo.Props.C15
open Rustemo

/-- **Any non-panicking lexer.**  With a "next token" function that does not panic itself and hands
    the parser state back, the parser loop never reaches a panic site, whatever tokens it delivers
    (kinds the state has no action for surface as `err noAction`). -/
theorem C15_lr_no_panic_any_lexer (env : Env) (nt : Ctx → Ctx × Outcome Tok)
    (hs : Cert.structural env.g env.t (autosOf env.g env.t) = true)
    (ht : Cert.total env.g env.t 0 = true)
    (hnt : NtGood env.t nt) (ctx0 : Ctx) (h0 : ctx0.state < env.t.states.size) (fuel : Nat) :
    ∀ site, (parseWith env nt 0 ctx0 fuel).2 ≠ .panic site := by
  intro site h
  have := parseWith_no_panic env nt (autosOf env.g env.t) ⟨0, 0, env.g.startIdx⟩
    (by unfold autosOf; exact List.mem_cons_self) 0 rfl (Cert.structural_sound _ _ _ hs)
    (Cert.total_sound _ _ _ ht) hnt ctx0 h0 fuel
  rw [h] at this
  exact this

/-- **`LRParser::parse`** with the default string lexer (any recognizers, any input, whitespace
    skipping or Layout rule, partial parsing on/off) or an adversarial user lexer never panics, given
    the certificate `Cert.lr` (structural + total for the main automaton and, if the grammar has a
    Layout rule, for the layout automaton). -/
theorem C15_lr_no_panic (env : Env) (hcert : Cert.lr env.g env.t = true)
    (partialParse : Bool) (fuel : Nat) :
    ∀ site, (parse env partialParse fuel).2 ≠ .panic site := by
  intro site h
  unfold Cert.lr at hcert
  simp only [Bool.and_eq_true] at hcert
  obtain ⟨⟨hs, ht⟩, hl⟩ := hcert
  have hS := Cert.structural_sound _ _ _ hs
  have := parse_no_panic env (autosOf env.g env.t) hS ⟨0, 0, env.g.startIdx⟩
    (by unfold autosOf; exact List.mem_cons_self) rfl (Cert.total_sound _ _ _ ht)
    (by
      intro ls hls
      rw [hls] at hl
      simp only [Bool.and_eq_true, List.any_eq_true, beq_iff_eq] at hl
      obtain ⟨⟨au, hau, hst⟩, htl⟩ := hl
      exact ⟨⟨au, hau, hst⟩, Cert.total_sound _ _ _ htl⟩)
    partialParse fuel
  rw [h] at this
  exact this

/-- non-vacuity: the certificate holds for a concrete table -/
example : Cert.lr Example.env.g Example.env.t = true := by decide

/-- **GLR half: `GlrParser::parse` never panics.**  The engine model `Glr.parse` (every `unwrap` / `expect` / index of
    `glr/parser.rs` and `glr/gss.rs` is a `.panic site`, the nested LR layout parser included) reaches no panic site
    on a table passing the executable certificates `Cert.glr` (structural certificate with right-nulled reduce
    entries, nullable ranking, accessing symbols, `Cert.total`) and `Cert.glrLayout` (the layout automaton is covered
    and total; trivially true without a Layout rule) — any input, recognizers, lexer, partial flag, fuel. -/
theorem C15_glr_no_panic (env : Env) (hcert : Cert.glr env.g env.t = true)
    (hlay : Cert.glrLayout env.g env.t = true) (partialParse : Bool) (fuel : Nat) :
    ∀ site, Glr.parse env partialParse fuel ≠ .panic site :=
  Glr.parse_no_panic env hcert (Glr.layoutSafe_of_cert env hcert hlay) partialParse fuel

/-- non-vacuity: both certificates hold of the real LALR_RN table of `S: 'a' S A | EMPTY; A: 'a' | EMPTY` -/
example : Cert.glr Glr.Example.g Glr.Example.t = true ∧ Cert.glrLayout Glr.Example.g Glr.Example.t = true := by
  decide +kernel

end Rustemo.Props.C15
