import Rustemo.Proofs.NoPanic
import Rustemo.Props.Example
/-!
# C15 — parsing is total: any input and lexer give Ok or Err, never a panic or hang

LR half, no-panic part.  `LR.parse` models `LRParser::parse` with every `unwrap` / index /
`split_off` / `expected[0]` of `lr/parser.rs`, `lr/builder.rs`, `error.rs` as an explicit
`.panic site`; `env.recog` is an arbitrary recognizer function (any input, any matches) and
`env.custom` selects the string lexer or one of the adversarial user lexers that ignore the expected
set.  `Cert.structural` and `Cert.total` are executable certificates run by the driver on the table
dumped from the real compiler (for the layout automaton as well when the grammar has a Layout rule).

NOT proved: termination (the model takes fuel; hangs are decided by the watchdog of the
correspondence harness, known finding F14) and the whole GLR half (oracle on the real parser only).
-/
namespace Rustemo.Props.C15
open Rustemo

/-- **Any non-panicking lexer.**  With a "next token" function that does not panic itself and hands
    the parser state back, the parser loop never reaches a panic site, whatever tokens it delivers
    (kinds the state has no action for surface as `err noAction`). -/
theorem C15_lr_no_panic_any_lexer (env : Env) (nt : Ctx → Ctx × Outcome Tok) (sym : Nat)
    (hs : Cert.structural env.g env.t 0 0 sym = true) (ht : Cert.total env.g env.t 0 = true)
    (hnt : NtGood env.t nt) (ctx0 : Ctx) (h0 : ctx0.state < env.t.states.size) (fuel : Nat) :
    ∀ site, (parseWith env nt 0 ctx0 fuel).2 ≠ .panic site := by
  intro site h
  have := parseWith_no_panic env nt 0 0 sym (Cert.structural_sound _ _ _ _ _ hs)
    (Cert.total_sound _ _ _ ht) hnt ctx0 h0 fuel
  rw [h] at this
  exact this

/-- **`LRParser::parse`** with the default string lexer (any recognizers, any input, whitespace
    skipping or Layout rule, partial parsing on/off) or an adversarial user lexer never panics. -/
theorem C15_lr_no_panic (env : Env) (sym : Nat)
    (hs : Cert.structural env.g env.t 0 0 sym = true) (ht : Cert.total env.g env.t 0 = true)
    (hlay : ∀ ls, env.t.layoutState = some ls → ∃ augl lsym,
      Cert.structural env.g env.t ls augl lsym = true ∧ Cert.total env.g env.t ls = true)
    (partialParse : Bool) (fuel : Nat) :
    ∀ site, (parse env partialParse fuel).2 ≠ .panic site := by
  intro site h
  have := parse_no_panic env sym (Cert.structural_sound _ _ _ _ _ hs) (Cert.total_sound _ _ _ ht)
    (by
      intro ls hls
      obtain ⟨augl, lsym, h1, h2⟩ := hlay ls hls
      exact ⟨augl, lsym, Cert.structural_sound _ _ _ _ _ h1, Cert.total_sound _ _ _ h2⟩)
    partialParse fuel
  rw [h] at this
  exact this

/-- non-vacuity: the certificates hold for a concrete table without Layout rule -/
example : Cert.structural Example.env.g Example.env.t 0 0 4 = true ∧
    Cert.total Example.env.g Example.env.t 0 = true ∧ Example.env.t.layoutState = none := by decide

end Rustemo.Props.C15
