import Rustemo.Model.LR
namespace Rustemo.Props.C15
end Rustemo.Props.C15
