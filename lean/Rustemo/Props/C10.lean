import Rustemo.Proofs.AstExample
/-!
# C10 — the default AST carries every content token of the input, in input order

Model: `Rustemo/Model/Ast.lean` (type inference of `grammar/types/mod.rs`), `Rustemo/Model/AstEval.lean`
(`eval`: the generated `shift_action` / `reduce_action` arms of `generator/base.rs` composed with the
generated action bodies of `generator/actions/production.rs`, run over a parse tree in the order the LR
parser and `Tree::build` (GLR replay, right-nulled reductions included: a node may have fewer children
than its production has symbols) call the builder). `shapesFor fx g ts` are the shapes the generator
variant `fx` derives from the inferred types `ts`; `Fixes.repo` is /repo as it is now (after the repair
"right-recursive @vec rule collects elements in input order"), `Fixes.asWas` the code before the repairs.

`PTree.wellShaped` says that the children of every node match the content flags of the node's
production (implied by validity of the tree for the grammar); `eval … = .ok (some v)` says the
builder returned `v` (the model has explicit outcomes for every panic of the generated code and for
code that would not type-check).
-/
namespace Rustemo.Ast

/-- The full statement for a variant of the generator. -/
def C10_statement (fx : Fixes) : Prop :=
  ∀ (g : AGrammar) (ts : List SymType), symbolTypes fx g = some ts →
  ∀ (t : PTree), t.wellShaped (shapesFor fx g ts) = true →
  ∀ (v : Val), eval (shapesFor fx g ts) t = .ok (some v) →
    v.tokens = t.contentTokens (shapesFor fx g ts)

/-- **Tokens in order.** For every supported shape table (the `insert(0, _)` variant, or no
right-recursive `@vec` rule), every well-shaped tree — LR or GLR replay, right-nulled nodes included,
location info on or off — and every value the builder returns: the string leaves of the value, in
field / element order, are exactly the texts of the content tokens of the tree in input order (each once). -/
theorem C10_tokens_in_order (sh : Shapes) (hs : Supported sh) (t : PTree) (hw : t.wellShaped sh = true)
    (v : Val) (h : eval sh t = .ok (some v)) : v.tokens = t.contentTokens sh :=
  eval_tokens sh hs t hw v h

/-- **The statement holds of /repo as it is, for all grammars** (every variant with the F7 repair). -/
theorem C10_holds : C10_statement Fixes.repo := by
  intro g ts _ t hw v h
  exact eval_tokens _ (Or.inl rfl) t hw v h

theorem C10_holds_of_vecRight (fx : Fixes) (hf : fx.vecRight = true) : C10_statement fx := by
  intro g ts _ t hw v h
  exact eval_tokens _ (Or.inl (by simp [shapesFor, shapesOf, hf])) t hw v h

/-- non-vacuity: `S: KA L R; @vec L: L Num | Num; @vec R: Id R | Id;` on `KA 1 2 a b`, /repo as it is:
both vectors in input order -/
example : symbolTypes .repo (gVec false) = some (typesNow (gVec false)) ∧
    tVec.wellShaped (shapesNow (gVec false)) = true ∧
    eval (shapesNow (gVec false)) tVec
      = .ok (some (.node "S" ["l", "r"] [.vec [.str "1", .str "2"], .vec [.str "a", .str "b"]])) ∧
    tVec.contentTokens (shapesNow (gVec false)) = ["1", "2", "a", "b"] :=
  ⟨by decide, by decide, by rfl, by decide⟩

/-- **The generated builder is `eval`.** `run` is the DefaultBuilder as the stack machine it is
(`shift_action` pushes, every `reduce_action` arm splits its entries off the result stack), fed with
the calls the LR parser / `Tree::build` make for the tree (post-order, `prod_len` = number of children):
whatever the stack was, it ends with the outcome of `eval` on top — the same value or the same error. -/
theorem C10_stack_machine_is_eval (sh : Shapes) (t : PTree) (s : List (Option Val)) :
    run sh t.events s = pushRes s (eval sh t) :=
  run_events sh t s

/-- **A reused parser object.** The builder lives in the parser and its result stack is NOT cleared when a
parse fails, so the next parse on the same object starts on a stale stack `s`. Harmless: `get_result` pops the
TOP, which is the value of the new tree, whatever lies below. (Every run also checks this on the compiled
parsers: ~30 % of the observed inputs are parsed after a history input on the same parser object.) -/
theorem C10_stale_stack_harmless (sh : Shapes) (t : PTree) (v : Val) (s : List (Option Val))
    (h : eval sh t = .ok (some v)) :
    (match run sh t.events s with | .ok s' => getResult s' | .error e => .error e) = .ok v := by
  rw [run_events sh t s, h]
  rfl

/-- Hence for the value `get_result` returns: tokens in input order. -/
theorem C10_builder_returns_tokens (sh : Shapes) (hs : Supported sh) (t : PTree) (hw : t.wellShaped sh = true)
    (v : Val) (h : runTree sh t = .ok v) : v.tokens = t.contentTokens sh :=
  eval_tokens sh hs t hw v (eval_of_runTree sh t v h)

/-- … in particular for /repo as it is, every grammar. -/
theorem C10_builder_returns_tokens_repo (g : AGrammar) (ts : List SymType) (t : PTree)
    (hw : t.wellShaped (shapesFor .repo g ts) = true) (v : Val) (h : runTree (shapesFor .repo g ts) t = .ok v) :
    v.tokens = t.contentTokens (shapesFor .repo g ts) :=
  eval_tokens _ (Or.inl rfl) t hw v (eval_of_runTree _ t v h)

example : (runTree (shapesNow gVecL) tVecL).toOption.map Val.tokens = some ["1", "2", "3"] := by decide

/-- **Finding F7 (repaired in /repo).** The full statement is FALSE of the code as it was:
`@vec R: Id R | Id` on `a b` yielded `["b", "a"]`. -/
theorem C10_counterexample_right_vec : ¬ C10_statement Fixes.asWas := by
  intro h
  have := h (gVec false) (typesWas (gVec false)) (by decide) tVec (by decide)
    (.node "S" ["l", "r"] [.vec [.str "1", .str "2"], .vec [.str "b", .str "a"]]) (by rfl)
  revert this
  decide

/-- The old code was right exactly where no Vec-kind rule has its vector on the right (`hasRightVec`,
driver `ast classv 0`: `rightvec=0`) … -/
theorem C10_supported_of_no_right_vec (g : AGrammar) (ts : List SymType) (h : hasRightVec ts = false) :
    Supported (shapesOf g ts false) :=
  supported_of_no_right_vec g ts h

/-- … so that on those grammars the statement also held before the repair. -/
theorem C10_as_was_partial (g : AGrammar) (ts : List SymType) (hr : hasRightVec ts = false) (t : PTree)
    (hw : t.wellShaped (shapesFor .asWas g ts) = true) (v : Val)
    (h : eval (shapesFor .asWas g ts) t = .ok (some v)) : v.tokens = t.contentTokens (shapesFor .asWas g ts) :=
  eval_tokens _ (supported_of_no_right_vec g ts hr) t hw v h

/-! ## `?=` assignments: "a token bound by a ?= assignment contributes only its presence"

`C10_statement` above speaks about the texts of the regex-matched (content) tokens; it does not say anything about a
`?=` assignment whose target has NO content (a string-match terminal): that symbol is no content token, and
`C10_holds` stays exactly what it was. The presence clause of the property is the separate statement below. It is
FALSE of /repo as it is (`is_bool` is recorded by the front-end and read by nothing): finding C10-N1, recorded. -/

/-- The presence clause: every `?=`-bound symbol of a production of a reachable rule shows in the value built for
that production as a member named by the assignment (whatever its type: a flag, or the text / value of the symbol). -/
def C10_presence_statement (fx : Fixes) : Prop :=
  ∀ (g : AGrammar) (ts : List SymType), symbolTypes fx g = some ts →
  ∀ (i : Nat) (p : AProd), g.prods[i]? = some p → ntReach g p.nt = true →
  ∀ (r : RSym) (l : String), r ∈ p.rhs → r.isBool = true → r.label = some l →
    ∃ c, choiceOfProd g ts i p = some c ∧ l ∈ c.memberNames

/-- the property as stated: content tokens in input order AND presence of `?=`-bound symbols -/
def C10_full_statement (fx : Fixes) : Prop := C10_statement fx ∧ C10_presence_statement fx

/-- **Finding C10-N1 (recorded).** `A: neg?=KA n=Num | KB pos?=Id m=Num;`: the choice of the first production has
the single member `n` — `neg`, bound with `?=` to the keyword `KA`, is not there; its presence is lost. (`pos`,
bound to the regex terminal `Id`, IS a member and carries the token text: more than its presence.) -/
theorem C10_counterexample_bool_assignment_lost : ¬ C10_presence_statement Fixes.repo := by
  intro h
  have := h gBool (typesNow gBool) (by decide) 3 pNeg (by decide) (by decide) rNeg "neg"
    (by decide) (by decide) (by decide)
  revert this
  decide

/-- what the builder returns for `KA 1 KB x 3`: no trace of `neg`, the text of `pos` -/
example : eval (shapesNow gBool) tBool
    = .ok (some (.vec [.node "C1" [] [.node "AC1" ["n"] [.str "1"]],
                       .node "C2" [] [.node "AC2" ["pos", "m"] [.str "x", .str "3"]]])) := by rfl

theorem C10_counterexample_full_statement : ¬ C10_full_statement Fixes.repo :=
  fun h => C10_counterexample_bool_assignment_lost h.2

/-- the class predicate of the finding (driver `ast class`: `boollost=1`) holds of the witness -/
example : hasLostBool gBool = true := by decide

/-- **What does hold:** a `?=`- (or `=`-) bound symbol WITH content (regex terminal, nonterminal) is a member of the
struct of its production, under the assignment's name (statement about `mkChoice`; `make_choices_name_unique` and
`find_recursions` only rename choices / set Box flags). -/
theorem C10_bool_assignment_with_content_kept (nt : String) (ntidx : Nat) (p : AProd) (r : RSym) (l : String)
    (hr : r ∈ p.rhs) (hc : r.content = true) (hl : r.label = some l) :
    l ∈ (mkChoice nt ntidx p).memberNames :=
  named_content_is_member nt ntidx p r l hr hc hl

/-- **Vectors in input order.** Left recursion (`A: A B`, also what `*`, `+` expand to) appends the new
element after the elements collected so far; right recursion puts the new element in front (/repo as
it is) — before the repair it appended the FIRST element LAST. -/
theorem C10_vec_in_order (loc opt : Bool) (as : List Val) (b : Val) :
    (∀ fixed, applyAct loc fixed opt (.vecPush true) [.vec as, b] = .ok (.vec (as ++ [b]))) ∧
    applyAct loc true opt (.vecPush false) [b, .vec as] = .ok (.vec (b :: as)) ∧
    applyAct loc false opt (.vecPush false) [b, .vec as] = .ok (.vec (as ++ [b])) :=
  ⟨fun _ => rfl, rfl, rfl⟩

/-- **None exactly when absent.** The action of an optional rule that is not a repetition returns
`None` for the EMPTY alternative and `Some _` for every other alternative. -/
theorem C10_optional_none_iff_absent (loc fixed : Bool) (act : Act) (ps : List Val) (v : Val)
    (hv : act.isVec = false) (h : applyAct loc fixed true act ps = .ok v) :
    (v = .none ↔ act = .empty) ∧ (act ≠ .empty → ∃ w, v = .some w) :=
  optional_none_iff_empty loc fixed act ps v hv h

/-- **GLR replay with right-nulled reductions** is an instance of `C10_tokens_in_order`: a node
with fewer children than its production has symbols is well-shaped, the arm fills `None` for the
missing content symbols. Instance: `S: Num A; A: Id | EMPTY;`, GLR tree of `7` (S reduced with ONE child). -/
theorem C10_rn_replay :
    tNulled.wellShaped (shapesNow (gOptTail true)) = true ∧
    eval (shapesNow (gOptTail true)) tNulled
      = .ok (some (.node "S" ["num", "a"] [.str "7", .none])) := ⟨by decide, by rfl⟩

end Rustemo.Ast
