import Rustemo.Proofs.AstExample
/-!
# C10 — the default AST carries every content token of the input, in input order

Model: `Rustemo/Model/Ast.lean` (type inference of `grammar/types/mod.rs`), `Rustemo/Model/AstEval.lean`
(`eval`: the generated `shift_action` / `reduce_action` arms of `generator/base.rs` composed with the
generated action bodies of `generator/actions/production.rs`, run over a parse tree in the order the LR
parser and `Tree::build` (GLR replay, right-nulled reductions included: a node may have fewer children
than its production has symbols) call the builder). `shapesOf g ts fixed` are the shapes the generator
derives from the inferred types `ts`; `fixed = false` is the code as it is.

`PTree.wellShaped` says that the children of every node match the content flags of the node's
production (implied by validity of the tree for the grammar); `eval … = .ok (some v)` says the
builder returned `v` (the model has explicit outcomes for every panic of the generated code and for
code that would not type-check).
-/
namespace Rustemo.Ast

/-- The full statement for one variant of the generated `@vec` action. -/
def C10_statement (fixed : Bool) : Prop :=
  ∀ (g : AGrammar) (ts : List SymType), symbolTypes g = some ts →
  ∀ (t : PTree), t.wellShaped (shapesOf g ts fixed) = true →
  ∀ (v : Val), eval (shapesOf g ts fixed) t = .ok (some v) →
    v.tokens = t.contentTokens (shapesOf g ts fixed)

/-- **Tokens in order.** For every supported shape table (the repaired variant, or no right-recursive
`@vec` rule), every well-shaped tree — LR or GLR replay, right-nulled nodes included, location info on
or off — and every value the builder returns: the string leaves of the value, in field / element
order, are exactly the texts of the content tokens of the tree in input order (each once). -/
theorem C10_tokens_in_order (sh : Shapes) (hs : Supported sh) (t : PTree) (hw : t.wellShaped sh = true)
    (v : Val) (h : eval sh t = .ok (some v)) : v.tokens = t.contentTokens sh :=
  eval_tokens sh hs t hw v h

/-- **The generated builder is `eval`.** `run` is the DefaultBuilder as the stack machine it is
(`shift_action` pushes, every `reduce_action` arm splits its entries off the result stack), fed with
the calls the LR parser / `Tree::build` make for the tree (post-order, `prod_len` = number of children):
whatever the stack was, it ends with the outcome of `eval` on top — the same value or the same error. -/
theorem C10_stack_machine_is_eval (sh : Shapes) (t : PTree) (s : List (Option Val)) :
    run sh t.events s = pushRes s (eval sh t) :=
  run_events sh t s

/-- Hence for the value `get_result` returns: tokens in input order. -/
theorem C10_builder_returns_tokens (sh : Shapes) (hs : Supported sh) (t : PTree) (hw : t.wellShaped sh = true)
    (v : Val) (h : runTree sh t = .ok v) : v.tokens = t.contentTokens sh :=
  eval_tokens sh hs t hw v (eval_of_runTree sh t v h)

example : (runTree (shapesOf gVecL (typesOf gVecL) false) tVecL).toOption.map Val.tokens = some ["1", "2", "3"] := by
  decide

/-- non-vacuity: the left-recursive `@vec` grammar `S: KA L; @vec L: L Num | Num;` on `KA 1 2 3`
(`S` has one content symbol: its type is an alias of `L`) -/
example : Supported (shapesOf gVecL (typesOf gVecL) false) ∧ tVecL.wellShaped (shapesOf gVecL (typesOf gVecL) false) = true ∧
    eval (shapesOf gVecL (typesOf gVecL) false) tVecL
      = .ok (some (.vec [.str "1", .str "2", .str "3"])) ∧
    tVecL.contentTokens (shapesOf gVecL (typesOf gVecL) false) = ["1", "2", "3"] :=
  ⟨supported_of_no_right_vec _ _ (by decide), by decide, by rfl, by decide⟩

/-- The hypothesis of the theorem for the code as it is, is the class predicate the driver evaluates
(`ast class`: `rightvec=0`): no Vec-kind rule has its vector on the right. -/
theorem C10_supported_of_no_right_vec (g : AGrammar) (ts : List SymType) (h : hasRightVec ts = false) :
    Supported (shapesOf g ts false) :=
  supported_of_no_right_vec g ts h

/-- The full statement holds for the code as it is on every grammar without a right-recursive `@vec`
rule … -/
theorem C10_as_is_partial (g : AGrammar) (ts : List SymType) (_ : symbolTypes g = some ts)
    (hr : hasRightVec ts = false) (t : PTree) (hw : t.wellShaped (shapesOf g ts false) = true) (v : Val)
    (h : eval (shapesOf g ts false) t = .ok (some v)) : v.tokens = t.contentTokens (shapesOf g ts false) :=
  eval_tokens _ (supported_of_no_right_vec g ts hr) t hw v h

/-- … and for the repaired variant (`a.insert(0, b)` when the vector is the right operand) on every grammar. -/
theorem C10_fixed : C10_statement true := by
  intro g ts _ t hw v h
  exact eval_tokens _ (Or.inl rfl) t hw v h

/-- **Finding F7.** The full statement is FALSE of the code as it is: `@vec R: Id R | Id` on `a b`
yields `["b", "a"]`. -/
theorem C10_counterexample_right_vec : ¬ C10_statement false := by
  intro h
  have := h (gVec false) (typesOf (gVec false)) (by decide) tVec (by decide)
    (.node "S" ["l", "r"] [.vec [.str "1", .str "2"], .vec [.str "b", .str "a"]]) (by rfl)
  revert this
  decide

/-- the same tree under the repaired variant: input order -/
example : eval (shapesOf (gVec false) (typesOf (gVec false)) true) tVec
    = .ok (some (.node "S" ["l", "r"] [.vec [.str "1", .str "2"], .vec [.str "a", .str "b"]])) := by rfl

/-- **Vectors in input order.** Left recursion (`A: A B`, also what `*`, `+` expand to) appends the new
element after the elements collected so far; right recursion appends the FIRST element LAST in the
code as it is and puts it in front in the repaired variant. -/
theorem C10_vec_in_order (loc opt : Bool) (as : List Val) (b : Val) :
    (∀ fixed, applyAct loc fixed opt (.vecPush true) [.vec as, b] = .ok (.vec (as ++ [b]))) ∧
    applyAct loc false opt (.vecPush false) [b, .vec as] = .ok (.vec (as ++ [b])) ∧
    applyAct loc true opt (.vecPush false) [b, .vec as] = .ok (.vec (b :: as)) :=
  ⟨fun _ => rfl, rfl, rfl⟩

/-- **None exactly when absent.** The action of an optional rule that is not a repetition returns
`None` for the EMPTY alternative and `Some _` for every other alternative. -/
theorem C10_optional_none_iff_absent (loc fixed : Bool) (act : Act) (ps : List Val) (v : Val)
    (hv : act.isVec = false) (h : applyAct loc fixed true act ps = .ok v) :
    (v = .none ↔ act = .empty) ∧ (act ≠ .empty → ∃ w, v = .some w) :=
  optional_none_iff_empty loc fixed act ps v hv h

/-- **GLR replay with right-nulled reductions** is an instance of `C10_tokens_in_order`: a node
with fewer children than its production has symbols is well-shaped, the arm fills `None` for the
missing content symbols. Instance: `S: Num A; A: Id | EMPTY;`, GLR tree of `7` (S reduced with ONE child). -/
theorem C10_rn_replay :
    tNulled.wellShaped (shapesOf (gOptTail true) (typesOf (gOptTail true)) false) = true ∧
    eval (shapesOf (gOptTail true) (typesOf (gOptTail true)) false) tNulled
      = .ok (some (.node "S" ["num", "a"] [.str "7", .none])) := ⟨by decide, by rfl⟩

end Rustemo.Ast
