import Rustemo.Proofs.FrontClasses
import Rustemo.Proofs.FrontKinds
import Rustemo.Proofs.FrontStop
import Rustemo.Proofs.FrontExamples
/-!
# C09 — the grammar the compiler analyses is the grammar the user wrote
# (and the grammar-builder part of C16 — the compiler is total)

Property theorems only.  `Front.build fx f` (`Model/Front/Build.lean`) transcribes
`GrammarBuilder::try_from_file` of `rustemo-compiler/src/grammar/builder.rs` on the File AST `f` that
`rustemo_actions.rs` builds; it is tied to the real front end by the correspondence check of
`tools/props/c09.py` (grammar records of the hook's `dump_grammar_only` on the rendered text vs
`Front.build` on the serialised AST, error kind and panic site included).

`fx : Fixes` selects the variant of the code: `{}` (all flags off) is the code of `/repo` as the model
was written against, each flag is one proposed repair (`notes/C09-fix-*.diff`), `Front.repoVariant`
is what `/repo` contains now.  All theorems are universal over the variant and over ASTs; their
hypotheses are decidable classes of ASTs (`Model/Front/Wf.lean`, reported per case by the driver's
`front class`), each one forced by a witness proved here (`*_counterexample`, `*_witness`):

* `Clean fx f` — no rule without alternative (no text produces one); helper names unambiguous among the uses (F5
  `sepClash`); and, each only for variants that do not report it as a diagnostic: terminal names pairwise
  different (N1, `dupNameErr`), helper names different from all rule and terminal names (F5b `helperCapture`,
  `helperClashErr`), no rule named `EMPTY`/`AUG`/`AUGL` (N3, `reservedErr`).  For the repaired variants these
  facts are derived from the checks a successful run has passed (`Clean.derived`).
  `clean_of_classes`: it follows from the driver's class predicates being false; `C09_clean_of_repaired`.
* `Regular fx f` — the part of `Clean` the index structure needs (`Clean.regular`).
* `Safe fx f` — the classes of the panic witnesses (F9), `safe_of_classes`.

What is documented but NOT what the code does is stated for the repaired variant and refuted for the
current one: associativity inheritance (F2), the fate of a named `EMPTY` (F18), helper sharing (F5).
-/
namespace Rustemo.Props.C09
open Rustemo.Front

/-! ## 1. Every BNF alternative becomes exactly one production, symbols in order -/

/-- **alternatives are productions.**  For every rule name `n` the built grammar has a nonterminal
named `n` (at the position of its index) whose production list is *exactly* the productions of that
nonterminal (`idxsOf`) and corresponds, one to one and in order, to the alternatives of the rules named
`n` (`doneOf n (allDone …)`): the production of an alternative has that nonterminal, the alternative's
position as `ntidx`, the alternative's symbols in order — every assignment except an unnamed `EMPTY`,
with its name and `?=` flag, a plain reference as written, sugar as its helper rule
(`codeAltSyms`/`Doc.refSym`) — and the fields the inherited meta-data denote (`IsAltProd`). -/
theorem C09_alternatives_are_productions (fx : Fixes) (f : File) (g : Grammar) (hc : Clean fx f)
    (h : build fx f = .ok g) (n : Name) (hn : n ∈ ruleNamesOf f) :
    ∃ nt : NonTerm, g.nonterminals[nt.idx]? = some nt ∧ nt.name = n ∧
      nt.prods = idxsOf g.prods nt.idx ∧
      All2 (IsAltProd fx f g nt.idx) nt.prods (doneOf n (allDone f.ruleList)) :=
  build_alternatives hc h n hn

/-- **`EMPTY` contributes nothing**, provided no `EMPTY` is named or used as separator (F18): the
symbols the code keeps are the documented ones (`Doc.altSyms` drops every reference to `EMPTY`). -/
theorem C09_empty_contributes_nothing (fx : Fixes) (mm : SMap (Name × Nat)) (a : Alt)
    (h : ∀ x, x ∈ a.assigns → x.emptySurvives = false) : codeAltSyms fx mm a = Doc.altSyms fx mm a := by
  unfold codeAltSyms Doc.altSyms Doc.altAssigns
  congr 1
  apply List.filter_congr
  intro x hx
  have hs := h x hx
  unfold Assign.emptySurvives at hs
  simp only [Bool.or_eq_false_iff, Bool.and_eq_false_iff] at hs
  cases x with
  | ref r => rfl
  | plain n r =>
    simp only [Assign.isUnnamedEmpty, Assign.symRef, Bool.not_false]
    rcases hs.1 with h1 | h1
    · simp [Assign.aname] at h1
    · simp [Assign.symRef] at h1
      simp [h1]
  | bool n r =>
    simp only [Assign.isUnnamedEmpty, Assign.symRef, Bool.not_false]
    rcases hs.1 with h1 | h1
    · simp [Assign.aname] at h1
    · simp [Assign.symRef] at h1
      simp [h1]

/-- **F18 (current code).**  `S: a=EMPTY Ta;` builds `S → EMPTY Ta`: the named `EMPTY` stays in the
right-hand side as symbol `emptyIdx` (= 4 here). -/
theorem C09_counterexample_named_empty :
    (match build {} Ex.fF18 with
     | .ok g => (g.emptyIdx, g.prods.map GProd.rhsSyms)
     | _ => (0, [])) = (4, [[6], [4, 1]]) := by decide

/-- after `C09-fix-1` the same text is a diagnostic -/
theorem C09_named_empty_fixed : build { emptyErr := true } Ex.fF18 = .err .emptyMisuse := by decide

/-! ## 2. Inline strings and names resolve to what they denote -/

/-- **references resolve.**  Every right-hand side symbol of the built grammar is: for a reference by
name, a symbol (terminal, or else nonterminal) of that name; for an inline string literal, the
terminal declared with that very string as its recognizer. -/
theorem C09_inline_strings_resolve (fx : Fixes) (f : File) (g : Grammar) (hr : Regular fx f)
    (h : build fx f = .ok g) :
    ∀ p, p ∈ g.prods → ∀ a, a ∈ p.rhs →
      (∀ n, a.sym = .name n → IsSym g n a.symbol) ∧
      (∀ s, a.sym = .str s → ∃ t, g.terminals[a.symbol]? = some t ∧ t.recog = some (.str s) ∧ a.symbol < g.nT) :=
  build_resolves hr h

/-- every right-hand side symbol of a built grammar is resolved (`res_symbol` cannot panic): no hypothesis -/
theorem C09_all_symbols_resolved (fx : Fixes) (f : File) (g : Grammar) (h : build fx f = .ok g) :
    ∀ p, p ∈ g.prods → ∀ a, a ∈ p.rhs → a.index.isSome :=
  build_resolved h

/-- **N1 (current code).**  `S: Ta; terminals Ta: 'a'; Ta: 'b';` — the second `Ta` replaces the first,
keeps index 2, `terminals.len()` is 2: `S → Ta` is built as `S → EMPTY` (symbol 2 = `emptyIdx`). -/
theorem C09_counterexample_duplicate_terminal :
    (match build {} Ex.fDupTerm with
     | .ok g => (g.terminals.map Term.idx, g.emptyIdx, g.prods.map GProd.rhsSyms)
     | _ => ([], 0, [])) = ([0, 2], 2, [[4], [2]]) := by decide

/-! ## 3. The first rule is the start symbol -/

/-- **first rule is start.**  `start_index` is the nonterminal named like the first rule, and the
augmented nonterminal `AUG` has the single production `AUG → <first rule>` (production 0), provided no
terminal has the name of a rule (N2) or the variant rejects such files (`dupNameErr`, repo ed9472f). -/
theorem C09_first_rule_is_start (fx : Fixes) (f : File) (g : Grammar) (hc : Clean fx f)
    (hrt : fx.dupNameErr = true ∨ f.ruleIsTerminal = false) (h : build fx f = .ok g) (r0 : Rule) (rs : List Rule)
    (hrules : f.rules = some (r0 :: rs)) :
    ∃ (start aug : NonTerm) (p0 : GProd), g.nonterminals[start.idx]? = some start ∧ start.name = r0.name ∧
      g.startIdx = g.nT + start.idx ∧
      g.nonterminals[aug.idx]? = some aug ∧ aug.name = kAUG ∧ g.augIdx = g.nT + aug.idx ∧ aug.prods = [0] ∧
      g.prods[0]? = some p0 ∧ p0.nonterminal = aug.idx ∧ p0.rhsSyms = [g.startIdx] :=
  build_start hc hrt h r0 rs hrules

/-! ## 4. Rule-level meta-data is inherited unless the production gives it itself -/

/-- **meta-data inheritance, per key** (priority, `nops`, `nopse`, kind, user keys, and the keys `left`,
`right`): the meta-data map a production is built from holds, for every key, the production's own value
if it has one and else the rule's — for the current code, for ALL meta-data.  (`IsAltProd` in
`C09_alternatives_are_productions` says the production's fields are read from exactly this map.) -/
theorem C09_meta_inheritance (fx : Fixes) (h : fx.assocOne = false) (ruleMeta altMeta : Meta) (k : Name) :
    (inherit fx ruleMeta altMeta).get? k = Doc.inheritKey ruleMeta altMeta k :=
  inherit_get?_current fx h ruleMeta altMeta k

/-- per-key law of every variant: the repaired inheritance differs only in never copying `left`/`right`
to a production that has either -/
theorem C09_meta_inheritance_any (fx : Fixes) (ruleMeta altMeta : Meta) (k : Name) :
    (inherit fx ruleMeta altMeta).get? k =
      match altMeta.get? k with
      | some v => some v
      | none => if blocked fx altMeta k then none else ruleMeta.get? k :=
  inherit_get? fx ruleMeta altMeta k

/-- **associativity is ONE meta-datum** (documented: "if the same meta-data is defined for the
production it takes precedence"): the current code gives a production the documented associativity
exactly when it is not the case that the production says `left`/`reduce` (only) and the rule says
`right`/`shift` (F2). -/
theorem C09_assoc_inheritance_current (fx : Fixes) (h : fx.assocOne = false) (ruleMeta altMeta : Meta) :
    assocOfMeta (inherit fx ruleMeta altMeta) = docAssoc ruleMeta altMeta ↔ assocClash ruleMeta altMeta = false :=
  assoc_inherit_current fx h ruleMeta altMeta

/-- after `C09-fix-3` the associativity is the documented one for all meta-data -/
theorem C09_assoc_inheritance_fixed (fx : Fixes) (h : fx.assocOne = true) (ruleMeta altMeta : Meta) :
    assocOfMeta (inherit fx ruleMeta altMeta) = docAssoc ruleMeta altMeta :=
  assoc_inherit_fixed fx h ruleMeta altMeta

/-- **F2 (current code).**  `E {right}: E Tb E {left} | Ta;` — production 1 says `left`, gets `right`. -/
theorem C09_counterexample_assoc_override :
    (match build {} Ex.fF2 with
     | .ok g => g.prods.map GProd.assoc
     | _ => []) = [.none, .right, .right] := by decide

/-- the same grammar after `C09-fix-3`; and the direction the repository's own test checks -/
theorem C09_assoc_override_fixed :
    (match build { assocOne := true } Ex.fF2 with
     | .ok g => g.prods.map GProd.assoc
     | _ => []) = [.none, .left, .right] ∧
    (match build {} Ex.fF2ok with
     | .ok g => g.prods.map GProd.assoc
     | _ => []) = [.none, .right, .left] := by decide

/-! ## 5. `?`, `*`, `+`, `[separator]` denote the language of the documented expansion -/

/-- **`X?`** — the helper rule named `XOpt` derives exactly the empty string and what `X` derives. -/
theorem C09_sugar_language_opt (fx : Fixes) (f : File) (g : Grammar) (hc : Clean fx f) (h : build fx f = .ok g)
    (u : Use) (hu : u ∈ f.uses fx) (hk : u.kind = .opt) :
    ∃ (nt : NonTerm) (X : Nat), g.nonterminals[nt.idx]? = some nt ∧ nt.name = u.helper fx ∧ nt.annotation = none ∧
      IsSym g u.base X ∧ ∀ w, Derives g (g.nT + nt.idx) w ↔ w = [] ∨ Derives g X w :=
  build_sugar_opt hc h u hu hk

/-- **`X+`** — the `@vec` helper rule derives exactly the concatenations of one or more strings derived
from `X`. -/
theorem C09_sugar_language_one (fx : Fixes) (f : File) (g : Grammar) (hc : Clean fx f) (h : build fx f = .ok g)
    (u : Use) (hu : u ∈ f.uses fx) (hk : u.kind = .one) (hs : u.sep = none) :
    ∃ (nt : NonTerm) (X : Nat), g.nonterminals[nt.idx]? = some nt ∧ nt.name = u.helper fx ∧
      nt.annotation = some kVec ∧ IsSym g u.base X ∧
      ∀ w, Derives g (g.nT + nt.idx) w ↔
        ∃ ws : List (List Nat), ws ≠ [] ∧ (∀ x, x ∈ ws → Derives g X x) ∧ w = ws.flatten :=
  build_sugar_one hc h u hu hk hs

/-- **`X+[Sep]`** — the `@vec` helper rule derives exactly `x₀ s₁ x₁ … sₖ xₖ` (`joinPairs`), each `xᵢ`
derived from `X` and each `sᵢ` from `Sep`. -/
theorem C09_sugar_language_one_sep (fx : Fixes) (f : File) (g : Grammar) (hc : Clean fx f)
    (h : build fx f = .ok g) (u : Use) (hu : u ∈ f.uses fx) (hk : u.kind = .one) (sp : Name) (hs : u.sep = some sp) :
    ∃ (nt : NonTerm) (X S : Nat), g.nonterminals[nt.idx]? = some nt ∧ nt.name = u.helper fx ∧
      nt.annotation = some kVec ∧ IsSym g u.base X ∧ IsSym g sp S ∧
      ∀ w, Derives g (g.nT + nt.idx) w ↔
        ∃ u0 pairs, Derives g X u0 ∧ (∀ q, q ∈ pairs → Derives g S q.1 ∧ Derives g X q.2) ∧
          w = joinPairs u0 pairs :=
  build_sugar_one_sep hc h u hu hk sp hs

/-- **`X*`, `X*[Sep]`** — the `@vec` helper rule derives exactly the empty string and what the
one-or-more helper of the same `X` and separator derives (`C09_sugar_language_one[_sep]`). -/
theorem C09_sugar_language_zero (fx : Fixes) (f : File) (g : Grammar) (hc : Clean fx f) (h : build fx f = .ok g)
    (u : Use) (hu : u ∈ f.uses fx) (hk : u.kind = .zero) :
    ∃ (nt : NonTerm) (H1 : Nat), g.nonterminals[nt.idx]? = some nt ∧ nt.name = u.helper fx ∧
      nt.annotation = some kVec ∧ IsSym g (helperName fx u.base .oneOrMore u.sep) H1 ∧
      ∀ w, Derives g (g.nT + nt.idx) w ↔ w = [] ∨ Derives g H1 w :=
  build_sugar_zero hc h u hu hk

/-- the language of a rule with exactly the documented right-hand sides, for ANY grammar (the four
theorems above instantiate these with the helper rules `Front.build` creates) -/
theorem C09_expansion_language (g : Grammar) (h X S : Nat) :
    (HasExactly g h [[X], []] → ∀ w, Derives g (g.nT + h) w ↔ w = [] ∨ Derives g X w) ∧
    (HasExactly g h [[g.nT + h, X], [X]] → ∀ w, Derives g (g.nT + h) w ↔
      ∃ ws : List (List Nat), ws ≠ [] ∧ (∀ x, x ∈ ws → Derives g X x) ∧ w = ws.flatten) ∧
    (HasExactly g h [[g.nT + h, S, X], [X]] → ∀ w, Derives g (g.nT + h) w ↔
      ∃ u0 pairs, Derives g X u0 ∧ (∀ q, q ∈ pairs → Derives g S q.1 ∧ Derives g X q.2) ∧ w = joinPairs u0 pairs) :=
  ⟨fun hx w => derives_opt hx w, fun hx w => derives_one_nosep hx w, fun hx w => derives_one_sep hx w⟩

/-! ## 6. One helper rule is shared by all identical uses -/

/-- **helpers are shared exactly.**  Two uses of repetition sugar (base symbol, operator, separator) get
the same helper nonterminal iff they are the same use. -/
theorem C09_helpers_shared (fx : Fixes) (f : File) (g : Grammar) (hc : Clean fx f) (h : build fx f = .ok g)
    (u v : Use) (hu : u ∈ f.uses fx) (hv : v ∈ f.uses fx) :
    ∃ nu nv : NonTerm, g.nonterminals[nu.idx]? = some nu ∧ g.nonterminals[nv.idx]? = some nv ∧
      nu.name = u.helper fx ∧ nv.name = v.helper fx ∧ (nu.idx = nv.idx ↔ u = v) :=
  build_helpers_shared hc h u v hu hv

/-- **F5 (current code).**  `S: Ta+[Tb] Tc Ta+;` — two different uses, ONE helper `Ta1 → Ta1 Tb Ta | Ta`:
both positions of `S` hold symbol 7, there is no second helper (4 nonterminals). -/
theorem C09_counterexample_helper_sharing :
    Ex.fF5.uses {} = [{ base := nm "Ta", kind := .one, sep := some (nm "Tb") }, { base := nm "Ta", kind := .one, sep := none }] ∧
    (match build {} Ex.fF5 with
     | .ok g => (g.nonterminals.map NonTerm.name, g.prods.map GProd.rhsSyms)
     | _ => ([], [])) =
      ([nm "EMPTY", nm "AUG", nm "S", nm "Ta1"], [[6], [7, 3, 7], [7, 2, 1], [1]]) := by decide

/-- the same grammar after `C09-fix-2` (the documented names `Ta1Tb`, `Ta1`): two helpers -/
theorem C09_helper_sharing_fixed :
    (match build { sepInName := true } Ex.fF5 with
     | .ok g => (g.nonterminals.map NonTerm.name, g.prods.map GProd.rhsSyms)
     | _ => ([], [])) =
      ([nm "EMPTY", nm "AUG", nm "S", nm "Ta1Tb", nm "Ta1"], [[6], [7, 3, 8], [7, 2, 1], [1], [8, 1], [1]]) := by
  decide

/-- **F5b (current code).**  `S: A+ A1; A1: Tb; A: Ta;` — the user's rule `A1` and the helper of `A+` are
one nonterminal with three productions `A1 → A1 A | A | Tb`. -/
theorem C09_counterexample_helper_capture :
    (match build {} Ex.fF5b with
     | .ok g => g.nonterminals.map (fun n => (n.name, n.prods))
     | _ => []) =
      [(nm "EMPTY", []), (nm "AUG", [0]), (nm "S", [1]), (nm "A1", [2, 3, 4]), (nm "A", [5])] := by decide

/-! ## 7. Indices are consistent -/

/-- **indices consistent.**  In the built grammar every production, terminal and nonterminal sits at the
position of its `idx`, every nonterminal's production list is exactly (and in order) the productions
with that `nonterminal`, and every index is inside its vector — for every regular file, although helper
rules are created, and their productions numbered, in the middle of the alternative that uses them. -/
theorem C09_indices_consistent (fx : Fixes) (f : File) (g : Grammar) (hr : Regular fx f)
    (h : build fx f = .ok g) : Consistent g :=
  build_consistent hr h

/-- `prods[i].idx = i` needs no hypothesis at all -/
theorem C09_production_indices (fx : Fixes) (f : File) (g : Grammar) (h : build fx f = .ok g) :
    ∀ (i : Nat) p, g.prods[i]? = some p → p.idx = i := by
  intro i p hp
  simpa using build_prods_idx h i p hp

/-- **F5b, index form (current code).**  `A1: Tb A+; A: Ta;` — rule `A1` is its own helper: nonterminal
index 2 is never assigned (positions and indices differ from there on), production 1 belongs to the
unassigned index, and the start symbol (7 = 4 terminals + index 3) is read at position 3: rule `A`. -/
theorem C09_counterexample_index_gap :
    (match build {} Ex.fSelf2 with
     | .ok g => (g.nonterminals.map (fun n => (n.idx, n.name)), g.prods.map GProd.nonterminal, g.startIdx)
     | _ => ([], [], 0)) =
      ([(0, nm "EMPTY"), (1, nm "AUG"), (3, nm "A1"), (4, nm "A")], [1, 2, 3, 3, 4], 7) := by decide

/-! ## 8. C16, builder part: the grammar builder is total -/

/-- **the builder never panics** on an AST outside the classes of the witnesses below — for every
variant of the code.  Every `unwrap`/`expect`/`assert!`/`todo!`/`panic!`/index of `builder.rs`,
`mark_reachable_symbols` and the integer conversion of `rustemo_actions.rs` is a `Site` of the model. -/
theorem C16_build_total_partial (fx : Fixes) (f : File) (hs : Safe fx f) : ∀ s, build fx f ≠ .panic s :=
  build_total fx f hs

/-- the hypotheses are the driver's class predicates -/
theorem C16_safe_of_classes (fx : Fixes) (f : File)
    (h0 : (!fx.intErr && f.big u32Max) = false) (h1 : (!fx.noRulesErr && f.rules.isNone) = false)
    (h2 : (f.rules == some []) = false) (h3 : (f.ruleList.any fun r => r.alts.isEmpty) = false)
    (hg : (!fx.groupErr && f.allRefs.any SymRef.isGroup) = false)
    (hy : (!fx.greedyErr && f.allRefs.any SymRef.isGreedy) = false)
    (hm : (!fx.modifiersErr && f.allRefs.any SymRef.badModifiers) = false)
    (h4 : (!fx.dupNameErr && f.dupTerminal) = false) (h5 : (!fx.helperClashErr && f.selfHelper fx) = false) :
    Safe fx f :=
  safe_of_classes h0 h1 h2 h3 hg hy hm h4 h5

/-- `S {99999999999}: Ta;` — `int_const`: `token.value.parse().unwrap()` -/
theorem C16_witness_int : build {} Ex.fBigInt = .panic .intConst := by decide
/-- `terminals Ta: 'a';` — `self.nonterminals.get("AUG").unwrap()` -/
theorem C16_witness_terminals_only : build {} Ex.fTermsOnly = .panic .augUnwrap := by decide
/-- `S: (Ta Tb) Ta;` — `reference.gsymbol.unwrap()` -/
theorem C16_witness_group : build {} Ex.fGroup = .panic .gsymbolUnwrap := by decide
/-- `S: (Ta Tb)+ Ta;` — `.expect("Parenthesized groups are not implemented!")` -/
theorem C16_witness_group_rep : build {} Ex.fGroupRep = .panic .groupExpect := by decide
/-- `S: Ta*! Tb;` — `todo!()` -/
theorem C16_witness_greedy : build {} Ex.fGreedy = .panic .greedyTodo := by decide
/-- `S: Ta+[Tb, Tc];` — `assert!(modifiers.len() == 1, …)` -/
theorem C16_witness_modifiers : build {} Ex.fMods = .panic .modifiersAssert := by decide
/-- five terminals named `Ta` — `mark_reachable_symbols`: `grammar.nonterminals[…]` out of bounds -/
theorem C16_witness_duplicate_terminals : build {} Ex.fDupTerm5 = .panic .reachIndex := by decide
/-- `S: A1 B; A1: Tb A+; A: Ta; B: Ta;` — the same index, through the unassigned nonterminal index -/
theorem C16_witness_self_helper : build {} Ex.fSelf = .panic .reachIndex := by decide
/-- ASTs no text produces: `rules[0]` on an empty list; `get(&self.start_rule_name).unwrap()` -/
theorem C16_witness_ast_only :
    build {} Ex.fNoRule = .panic .rules0 ∧ build {} Ex.fNoAlt = .panic .startUnwrap := by decide

/-- with all repairs every witness is a diagnostic -/
theorem C16_witnesses_fixed :
    build Fixes.all Ex.fBigInt = .err .intTooBig ∧ build Fixes.all Ex.fTermsOnly = .err .noRules ∧
    build Fixes.all Ex.fGroup = .err .notImplemented ∧ build Fixes.all Ex.fGroupRep = .err .notImplemented ∧
    build Fixes.all Ex.fGreedy = .err .notImplemented ∧ build Fixes.all Ex.fMods = .err .notImplemented ∧
    build Fixes.all Ex.fDupTerm5 = .err (.dupName (nm "Ta")) ∧
    build Fixes.all Ex.fSelf = .err (.helperClash (nm "A1")) ∧ build Fixes.all Ex.fF18 = .err .emptyMisuse := by
  decide

/-- **front-end panics still open at repo HEAD 3da879f** (`Ex.v3da879f`): the integer conversion and the index
gap of a rule that is its own helper; every other witness above is a diagnostic in that variant. -/
theorem C16_open_panics_3da879f :
    build Ex.v3da879f Ex.fBigInt = .panic .intConst ∧ build Ex.v3da879f Ex.fSelf = .panic .reachIndex ∧
    build Ex.v3da879f Ex.fTermsOnly = .err .noRules ∧ build Ex.v3da879f Ex.fGroup = .err .notImplemented ∧
    build Ex.v3da879f Ex.fGroupRep = .err .notImplemented ∧ build Ex.v3da879f Ex.fGreedy = .err .notImplemented ∧
    build Ex.v3da879f Ex.fMods = .err .notImplemented ∧
    build Ex.v3da879f Ex.fDupTerm5 = .err (.dupName (nm "Ta")) ∧ build Ex.v3da879f Ex.fF18 = .err .emptyMisuse := by
  decide

/-- **N3 (code before C09-fix-8).**  `S: Ta; AUG: Tb;` — the alternatives of a rule named `AUG` are appended to
the builder's own `AUG` (two productions); a diagnostic with `reservedErr`. -/
theorem C09_counterexample_reserved_rule :
    (match build {} Ex.fReserved with
     | .ok g => g.nonterminals.map (fun n => (n.name, n.prods))
     | _ => []) = [(nm "EMPTY", []), (nm "AUG", [0, 2]), (nm "S", [1])] ∧
    build { reservedErr := true } Ex.fReserved = .err (.reserved (nm "AUG")) := by decide

/-- **after C09-fix-8 and C09-fix-9** (`Ex.vFix9`): helper-name clashes are diagnostics in both declaration
orders, for the rule that is its own helper (the former index panic) and for a terminal; the only front-end
panic left is the integer conversion; legitimate sharing (`Ex.fF5`, `Ex.fGood`) still builds. -/
theorem C16_open_panics_fix9 :
    build Ex.vFix9 Ex.fBigInt = .panic .intConst ∧
    build Ex.vFix9 Ex.fSelf = .err (.helperClash (nm "A1")) ∧ build Ex.vFix9 Ex.fSelf2 = .err (.helperClash (nm "A1")) ∧
    build Ex.vFix9 Ex.fF5b = .err (.helperClash (nm "A1")) ∧ build Ex.vFix9 Ex.fF5bBefore = .err (.helperClash (nm "A1")) ∧
    build Ex.vFix9 Ex.fTermCapture = .err (.helperClash (nm "Ta1")) ∧
    build Ex.vFix9 Ex.fReserved = .err (.reserved (nm "AUG")) ∧
    (match build Ex.vFix9 Ex.fF5 with | .ok g => g.prods.length | _ => 0) = 4 ∧
    (match build Ex.vFix9 Ex.fGood with | .ok g => g.prods.length | _ => 0) = 13 := by decide

/-- for a variant with `dupNameErr`, `helperClashErr` and `reservedErr` (as `/repo` after fix-8 and fix-9) `Clean` only
asks for what no repair removes: helper names unambiguous among the uses (F5, `sepClash`) — and rules with
alternatives, which every text has -/
theorem C09_clean_of_repaired (fx : Fixes) (f : File) (h1 : fx.dupNameErr = true) (h2 : fx.helperClashErr = true)
    (h3 : fx.reservedErr = true) (halts : ∀ r, r ∈ f.ruleList → r.alts ≠ []) (hsep : f.sepClash fx = false) :
    Clean fx f :=
  ⟨halts, Or.inl h1, uses_inj_of_sepClash hsep, Or.inl h2, Or.inl h3⟩

/-- and `Safe` only asks for integer literals that fit `u32` (F9) -/
theorem C16_safe_of_repaired (fx : Fixes) (f : File) (h1 : fx.dupNameErr = true) (h2 : fx.helperClashErr = true)
    (h3 : fx.noRulesErr = true) (h4 : fx.groupErr = true) (h5 : fx.greedyErr = true) (h6 : fx.modifiersErr = true)
    (hint : f.big u32Max = false) (hr0 : f.rules ≠ some []) (halts : ∀ r, r ∈ f.ruleList → r.alts ≠ []) :
    Safe fx f :=
  ⟨Or.inr hint, hr0, Or.inl h3, fun _ _ _ _ _ _ => ⟨Or.inl h4, Or.inl h5, Or.inl h6⟩, halts, Or.inl h1, Or.inl h2⟩

/-! ## 9. Diagnostics added for the later stages of C16 (repo 15a0fce, 3da879f) -/

/-- **production kinds are identifiers**: in a grammar built by a variant with `kindIdentErr` every production
kind (own or inherited, `{Kind}` or `{kind: '…'}`) is a Rust identifier — the generator's `format_ident!` on
kinds cannot panic.  No hypothesis on the file. -/
theorem C16_kinds_are_identifiers (fx : Fixes) (f : File) (g : Grammar) (hf : fx.kindIdentErr = true)
    (h : build fx f = .ok g) : ∀ p, p ∈ g.prods → ∀ k, p.kind = some k → identOk k = true :=
  build_kinds hf h

/-- `S: Ta {A.b};` and the inherited `S {fn}: Ta;` — stored as kinds by the code before 15a0fce, a
`check_identifier` diagnostic since -/
theorem C16_kind_witness :
    (match build {} Ex.fKind with | .ok g => g.prods.map GProd.kind | _ => []) = [none, some (nm "A.b")] ∧
    build { kindIdentErr := true } Ex.fKind = .err (.invalidIdent (nm "A.b")) ∧
    build repoVariant Ex.fKindKw = .err (.invalidIdent (nm "fn")) := by decide

/-- **`STOP` is never referenced**: no production of a grammar built by a variant with `stopRefErr` names
`STOP` — neither directly, nor named, nor through repetition sugar or as a separator (the helper rules are
checked like every production).  No hypothesis on the file. -/
theorem C16_no_stop_reference (fx : Fixes) (f : File) (g : Grammar) (hf : fx.stopRefErr = true)
    (h : build fx f = .ok g) : ∀ p, p ∈ g.prods → ∀ a, a ∈ p.rhs → a.sym ≠ .name kSTOP :=
  build_noStop hf h

/-- `S: Ta STOP;` built `S → Ta STOP` (symbol 0) before 3da879f; now the diagnostic names the production the
reference is in: the user's (1) or the helper's (2) -/
theorem C16_stop_witness :
    (match build {} Ex.fStop with | .ok g => g.prods.map GProd.rhsSyms | _ => []) = [[6], [1, 0]] ∧
    build repoVariant Ex.fStop = .err (.stopRef 1) ∧ build repoVariant Ex.fStopNamed = .err (.stopRef 1) ∧
    build repoVariant Ex.fStopSugar = .err (.stopRef 2) ∧ build repoVariant Ex.fStopSep = .err (.stopRef 2) := by
  decide

/-- **`AUG` / `AUGL` are never referenced**: no production of a grammar built by a variant with `reservedRefErr`
names an augmented nonterminal — directly, named, under repetition sugar or as a separator (the table builder
does not terminate on such a grammar).  No hypothesis on the file. -/
theorem C16_no_aug_reference (fx : Fixes) (f : File) (g : Grammar) (hf : fx.reservedRefErr = true)
    (h : build fx f = .ok g) : ∀ p, p ∈ g.prods → ∀ a, a ∈ p.rhs → a.sym ≠ .name kAUG ∧ a.sym ≠ .name kAUGL :=
  build_noAug hf h

/-- `S: Ta AUG;` built `S → Ta AUG` (symbol 5 = the augmented nonterminal) before 898fba1; now a diagnostic, for
every form of the reference (in the sugar forms it is found in the helper's production) -/
theorem C16_aug_witness :
    (match build {} Ex.fAugRef with | .ok g => (g.augIdx, g.prods.map GProd.rhsSyms) | _ => (0, [])) = (5, [[6], [1, 5]]) ∧
    build repoVariant Ex.fAugRef = .err (.reserved (nm "AUG")) ∧ build repoVariant Ex.fAugNamed = .err (.reserved (nm "AUG")) ∧
    build repoVariant Ex.fAugSugar = .err (.reserved (nm "AUG")) ∧ build repoVariant Ex.fAugSep = .err (.reserved (nm "AUGL")) := by
  decide

/-! ## Non-vacuity: a grammar with every kind of sugar satisfies all hypotheses, in both variants -/

example : Clean {} Ex.fGood ∧ Clean Fixes.all Ex.fGood ∧ Clean repoVariant Ex.fGood :=
  ⟨clean_of_classes (by decide) (by decide) (by decide) (by decide) (by decide),
   clean_of_classes (by decide) (by decide) (by decide) (by decide) (by decide),
   clean_of_classes (by decide) (by decide) (by decide) (by decide) (by decide)⟩

example : Safe repoVariant Ex.fGood ∧ repoVariant.kindIdentErr = true ∧ repoVariant.stopRefErr = true ∧
    (match build repoVariant Ex.fGood with | .ok g => g.prods.length | _ => 0) = 13 :=
  ⟨safe_of_classes (by decide) (by decide) (by decide) (by decide) (by decide) (by decide) (by decide)
    (by decide) (by decide), by decide, by decide, by decide⟩

example : Safe {} Ex.fGood :=
  safe_of_classes (by decide) (by decide) (by decide) (by decide) (by decide) (by decide) (by decide)
    (by decide) (by decide)

example : Ex.fGood.ruleIsTerminal = false ∧
    (match build {} Ex.fGood with | .ok g => g.prods.length | _ => 0) = 13 ∧
    (match build Fixes.all Ex.fGood with | .ok g => g.prods.length | _ => 0) = 13 ∧
    Ex.useOpt ∈ Ex.fGood.uses {} ∧ Ex.useOne ∈ Ex.fGood.uses {} ∧ Ex.useOneSep ∈ Ex.fGood.uses {} ∧
    Ex.useZero ∈ Ex.fGood.uses {} ∧ nm "S" ∈ ruleNamesOf Ex.fGood := by decide

example : assocClash (metaOf [.kw .left]) (metaOf [.kw .right]) = false ∧
    assocClash (metaOf [.kw .right]) (metaOf [.kw .left]) = true := by decide

end Rustemo.Props.C09
