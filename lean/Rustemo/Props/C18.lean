import Rustemo.Proofs.Regen
import Rustemo.Proofs.RegenExample
/-!
# C18 — regenerating actions preserves user edits and only adds what is missing

Property theorems only.  `Regen.run` is the model of `generate_parser_actions`
(`Model/Regen.lean`), tied to the real compiler by the correspondence check of
`tools/props/c18.py` (real `Settings::process_grammar` on randomly edited actions files vs
`Regen.process`, item by item).

All theorems are universal over the existing file `e : List Item` — i.e. over every edit history —
over the generator's wish list `n` (i.e. over every grammar) and over the code variant `v`
(`asIs`: the code of `/repo` today, `fixed`: after `notes/C18-fix-1.diff`).  `v.Pre e n` is
`GroupClosed e n` for `asIs` and `True` for `fixed`: the current code meets the property exactly on
the files in which no nonterminal has lost its name-giving type while keeping an auxiliary type
(finding F17: `C18_counterexample_*`, `C18_statement_asIs_false`).  The statements about `/repo`
are the instances at `Regen.repoVariant`.
-/
namespace Rustemo.Props.C18
open Rustemo.Regen

/-- The full property, as one statement about a variant of the generator: for every grammar whose
    generated names are well formed and distinct, every header and every existing file, a non-forced
    regeneration writes a file that (1) starts with the existing items, token for token and in order,
    (2) continues with exactly the missing items in generation order, (3) has no duplicate name if the
    existing file had none, and (4) is a fixed point of regeneration. -/
def C18_statement (v : Variant) : Prop :=
  ∀ (hdr e : List Item) (n : List Group), NeededOk n → NoDupNames (allItems n) →
    ∃ r, run v hdr (.parsed e) n false true = .written r ∧
      r.take e.length = e ∧
      r.drop e.length = missing e n ∧
      (NoDupNames e → NoDupNames r) ∧
      run v hdr (.parsed r) n false true = .written r

/-- A non-forced run over a parsable existing file writes `regen v e n`. -/
theorem C18_regeneration_writes (v : Variant) (hdr e : List Item) (n : List Group) :
    run v hdr (.parsed e) n false true = .written (regen v e n) := rfl

/-- **Existing items are kept**: the written file starts with the existing file, item by item
    (kind, name and tokens), in the same order.  No hypothesis. -/
theorem C18_existing_preserved (v : Variant) (e : List Item) (n : List Group) :
    (regen v e n).take e.length = e := by
  simp [regen]

/-- **Exactly the missing items are appended**, in generation order. -/
theorem C18_appends_exactly_missing (v : Variant) (e : List Item) (n : List Group)
    (hok : NeededOk n) (hpre : v.Pre e n) :
    (regen v e n).drop e.length = missing e n := by
  simp [regen, gen_eq_missing v e n hok hpre]

/-- **Nothing that is appended was defined before** (in its namespace: types vs functions). -/
theorem C18_appended_fresh (v : Variant) (e : List Item) (n : List Group)
    (hok : NeededOk n) (hpre : v.Pre e n) :
    ∀ x ∈ (regen v e n).drop e.length, x.definedIn (typeNames e) (fnNames e) = false := by
  have h : (regen v e n).drop e.length = gen v (typeNames e) (fnNames e) n := by simp [regen]
  rw [h]
  exact gen_fresh v e n hok hpre

/-- **No duplicates**: if neither the existing file nor the pristine generation defines a name twice,
    the written file does not either. -/
theorem C18_no_duplicates (v : Variant) (e : List Item) (n : List Group)
    (hok : NeededOk n) (hn : NoDupNames (allItems n)) (hpre : v.Pre e n) (he : NoDupNames e) :
    NoDupNames (regen v e n) :=
  regen_nodup v e n hok hpre hn he

/-- **A second regeneration changes nothing** (needs no hypothesis on the existing file, and holds for
    the current code as well: the duplicates of F17 are produced once, not on every run). -/
theorem C18_idempotent (v : Variant) (hdr e : List Item) (n : List Group) (hok : NeededOk n) :
    run v hdr (.parsed (regen v e n)) n false true = .written (regen v e n) := by
  rw [C18_regeneration_writes, regen_idem v e n hok]

/-- **Forcing ignores the existing file** whatever it is (also when it does not parse), and gives
    what a run without any file gives. -/
theorem C18_force_ignores_existing (v : Variant) (hdr : List Item) (fs : FileState) (n : List Group)
    (force : Bool) :
    run v hdr fs n true true = .written (regen v hdr n) ∧
    run v hdr .absent n force true = .written (regen v hdr n) := by
  cases fs <;> cases force <;> simp [run, start, finish]

/-- The pristine file is the header followed by all generated items, provided no generated name is
    already defined by the header (`Input`, `Ctx`, `Token`).  This is the shape from which the
    harness reads off `n`. -/
theorem C18_pristine (v : Variant) (hdr : List Item) (n : List Group) (hok : NeededOk n)
    (hfree : ∀ x ∈ allItems n, x.definedIn (typeNames hdr) (fnNames hdr) = false) :
    regen v hdr n = hdr ++ allItems n := by
  rw [regen, gen_eq_missing v hdr n hok (pre_of_free v hdr n hok hfree), missing_all hdr n hok hfree]

/-- A file `syn` cannot parse makes the non-forced run fail and leaves the file as it is. -/
theorem C18_unparsable_untouched (v : Variant) (hdr : List Item) (n : List Group) :
    run v hdr .unparsable n false true = .parseError ∧
    (run v hdr .unparsable n false true).after .unparsable = .unparsable := by
  simp [run, start, finish, Result.after]

/-- With `actions(false)` the file is never touched. -/
theorem C18_actions_off_untouched (v : Variant) (hdr : List Item) (fs : FileState) (n : List Group)
    (force : Bool) :
    (run v hdr fs n force false).after fs = fs := by
  simp [run, Result.after]

/-! ## Settings: when is overwriting forced -/

/-- `Settings::new()` overwrites (`force: true`, settings.rs:146). -/
theorem C18_settings_default : (cfgOf []).force = true := rfl

/-- An explicit `.force(b)` decides, whatever came before and whatever non-`force` call follows. -/
theorem C18_settings_explicit_force (ops more : List SetOp) (b : Bool)
    (hmore : ∀ op ∈ more, op.isForce = false) :
    (cfgOf (ops ++ [.force b] ++ more)).force = b := by
  rw [cfgOf_append, cfgOf_append]
  have := foldl_keeps_explicit more (SetOp.apply (cfgOf ops) (.force b)) (by simp [SetOp.apply]) hmore
  simpa [SetOp.apply] using this.1

/-- Without an explicit `force`, `.actions_in_source_tree()` / `.in_source_tree()` switch overwriting
    off: user edits are kept. -/
theorem C18_settings_source_tree (ops more : List SetOp) (op : SetOp)
    (hop : op = .actionsInSourceTree ∨ op = .inSourceTree)
    (hops : ∀ o ∈ ops, o.isForce = false) (hmore : ∀ o ∈ more, o.isForce = false) :
    (cfgOf (ops ++ [op] ++ more)).force = false := by
  rw [cfgOf_append, cfgOf_append]
  have hne : (cfgOf ops).forceExplicit = false := foldl_no_force ops {} rfl hops
  apply foldl_force_stays_false _ _ _ hmore
  rcases hop with rfl | rfl <;> simp [SetOp.apply, hne]

/-! ## The full statement: true of the fixed code, false of the code as it is (F17) -/

/-- Under `v.Pre` every clause of the statement holds (for `asIs` this is the partial result: the
    missing part is exactly the files that are not group-closed, see the counterexamples). -/
theorem C18_statement_partial (v : Variant) (hdr e : List Item) (n : List Group)
    (hok : NeededOk n) (hn : NoDupNames (allItems n)) (hpre : v.Pre e n) :
    ∃ r, run v hdr (.parsed e) n false true = .written r ∧
      r.take e.length = e ∧
      r.drop e.length = missing e n ∧
      (NoDupNames e → NoDupNames r) ∧
      run v hdr (.parsed r) n false true = .written r :=
  ⟨regen v e n, rfl, C18_existing_preserved v e n, C18_appends_exactly_missing v e n hok hpre,
    C18_no_duplicates v e n hok hn hpre, C18_idempotent v hdr e n hok⟩

/-- The proposed fix (`notes/C18-fix-1.diff`) satisfies the full statement. -/
theorem C18_statement_fixed : C18_statement .fixed :=
  fun hdr e n hok hn => C18_statement_partial .fixed hdr e n hok hn trivial

/-- The fix is conservative: on every group-closed file — in particular on every file in which each
    nonterminal either has all of its types or none, which is all the repository's test-suite and
    build scripts ever regenerate over — the fixed code writes exactly what the code as it is writes. -/
theorem C18_fix_conservative (e : List Item) (n : List Group) (hok : NeededOk n)
    (hc : GroupClosed e n) : regen .fixed e n = regen .asIs e n := by
  simp only [regen, gen_eq_missing .fixed e n hok trivial, gen_eq_missing .asIs e n hok hc]

/-- What holds of `/repo` now (instance at `repoVariant`; stays valid when the variant is switched). -/
theorem C18_repo (hdr e : List Item) (n : List Group)
    (hok : NeededOk n) (hn : NoDupNames (allItems n)) (hpre : repoVariant.Pre e n) :
    ∃ r, run repoVariant hdr (.parsed e) n false true = .written r ∧
      r.take e.length = e ∧
      r.drop e.length = missing e n ∧
      (NoDupNames e → NoDupNames r) ∧
      run repoVariant hdr (.parsed r) n false true = .written r :=
  C18_statement_partial repoVariant hdr e n hok hn hpre

/-- **F17, duplicates**: the existing file (only `type A = Option<ANoO>;` deleted from the pristine
    file) and the pristine generation have no duplicate names, yet the code as it is writes a file that
    defines `ANoO` twice. -/
theorem C18_counterexample_duplicates :
    NeededOk Example.needed ∧ NoDupNames (allItems Example.needed) ∧
    NoDupNames Example.aliasDeleted ∧
    ¬ NoDupNames (regen .asIs Example.aliasDeleted Example.needed) := by decide

/-- **F17, not exactly the missing items**: the only missing item is the alias, the code as it is
    appends the struct as well. -/
theorem C18_counterexample_not_exactly_missing :
    missing Example.aliasDeleted Example.needed = [Example.aAlias] ∧
    (regen .asIs Example.aliasDeleted Example.needed).drop Example.aliasDeleted.length
      = [Example.aNoO, Example.aAlias] := by decide

/-- The full statement is false of the code as it is. -/
theorem C18_statement_asIs_false : ¬ C18_statement .asIs := by
  intro h
  obtain ⟨r, hr, _, _, hnd, _⟩ :=
    h Example.hdr Example.aliasDeleted Example.needed (by decide) (by decide)
  rw [C18_regeneration_writes] at hr
  injection hr with hr
  subst hr
  exact C18_counterexample_duplicates.2.2.2 (hnd (by decide))

/-- The same file under the fixed code: only the alias comes back. -/
theorem C18_fixed_on_counterexample :
    regen .fixed Example.aliasDeleted Example.needed = Example.aliasDeleted ++ [Example.aAlias] := by
  decide

end Rustemo.Props.C18

namespace Rustemo.Props.C18
open Rustemo.Regen

/-- non-vacuity of `C18_appends_exactly_missing` / `C18_no_duplicates` / `C18_appended_fresh` for the
    code as it is: a heavily edited file (body rewritten, import and helper struct added, a terminal
    action and a whole type group deleted) satisfies all hypotheses, and three items are appended. -/
example : NeededOk Example.needed ∧ NoDupNames (allItems Example.needed) ∧
    Variant.asIs.Pre Example.userEdited Example.needed ∧ NoDupNames Example.userEdited ∧
    missing Example.userEdited Example.needed = [Example.numF, Example.aNoO, Example.aAlias] := by
  decide

/-- non-vacuity: the tutorial-style edit (all types of `A` replaced by `type A = f32;`) is
    group-closed, and nothing is appended -/
example : Variant.asIs.Pre Example.retyped Example.needed ∧
    regen .asIs Example.retyped Example.needed = Example.retyped := by decide

/-- non-vacuity of `C18_pristine`: no generated name is defined by the header -/
example : ∀ x ∈ allItems Example.needed,
    x.definedIn (typeNames Example.hdr) (fnNames Example.hdr) = false := by decide

/-- non-vacuity of `C18_idempotent` on the F17 file: the duplicate is produced once -/
example : regen .asIs (regen .asIs Example.aliasDeleted Example.needed) Example.needed
    = regen .asIs Example.aliasDeleted Example.needed := by decide

/-- non-vacuity of the settings theorems: the chains used by `/repo/tests/build.rs` -/
example : (cfgOf [.force false, .actionsInSourceTree]).force = false ∧
    (cfgOf [.actionsInSourceTree]).force = false ∧
    (cfgOf [.force true, .actionsInSourceTree]).force = true ∧
    (cfgOf [.inSourceTree, .actions true]).force = false := by decide

end Rustemo.Props.C18
