import Rustemo.Proofs.LRSound
import Rustemo.Proofs.LayoutRTPartial
import Rustemo.Props.Example
/-!
# C02 — every successful LR parse yields a valid derivation tree of the consumed input

Property theorems only.  `LR.parse` is the byte-level model of `LRParser::parse`
(`Model/LR.lean`), tied to the real runtime by the correspondence check; `Cert.structural`
is the executable certificate run on the table dumped from the real compiler.
-/
namespace Rustemo.Props.C02
open Rustemo

/-- **Any lexer.**  `nt` is an arbitrary "next token" function (it may return any kind, any slice,
    and change the context arbitrarily): if the parser loop started in the start state ends with
    `ok r` on a structurally certified table, then `r.tree` is a derivation tree of the grammar
    from the start symbol and its leaves are, in order, exactly the tokens that were shifted. -/
theorem C02_tree_is_derivation_any_lexer (env : Env) (nt : Ctx → Ctx × Outcome Tok)
    (ctx0 : Ctx) (fuel : Nat) (ctx : Ctx) (r : ParseResult)
    (hcert : Cert.structural env.g env.t (autosOf env.g env.t) = true)
    (hrun : parseWith env nt 0 ctx0 fuel = (ctx, .ok r)) :
    r.tree.Valid env.g env.g.startIdx ∧ r.tree.yield = (r.hist.map (·.kind)).reverse :=
  parseWith_sound env nt (autosOf env.g env.t) (Cert.structural_sound _ _ _ hcert)
    ⟨0, 0, env.g.startIdx⟩ (by unfold autosOf; exact List.mem_cons_self) 0 rfl ctx0 fuel ctx r hrun

/-- **`LRParser::parse` with the default string lexer**, whitespace skipping or Layout rule,
    partial parsing on or off, any recognizers (`env.recog`), any input. -/
theorem C02_tree_is_derivation (env : Env) (partialParse : Bool) (fuel : Nat) (ctx : Ctx)
    (r : ParseResult)
    (hcert : Cert.structural env.g env.t (autosOf env.g env.t) = true)
    (hrun : parse env partialParse fuel = (ctx, .ok r)) :
    r.tree.Valid env.g env.g.startIdx ∧ r.tree.yield = (r.hist.map (·.kind)).reverse :=
  C02_tree_is_derivation_any_lexer env _ {} fuel ctx r hcert hrun

end Rustemo.Props.C02

namespace Rustemo.Props.C02
open Rustemo

/-- non-vacuity: the hypotheses of `C02_tree_is_derivation` are met by a concrete run -/
example : Cert.structural Example.env.g Example.env.t (autosOf Example.env.g Example.env.t) = true ∧
    Example.isOk (parse Example.env false 100).2 = true := by decide

end Rustemo.Props.C02

namespace Rustemo.Props.C02
open Rustemo

/-- **Enabling partial parsing never turns an accepted input into a rejected or differently parsed
    one.**  Any table, any lexer the model has (string lexer with whitespace skipping or a Layout
    rule, the adversarial user lexers), any input: if `parse` with partial parsing off returns
    `ok r` in final context `ctx`, then with partial parsing on it returns the same `ok r` (same
    tree with the same spans and layout, same token history) in the same final context.  (`partial_parse`
    only changes what `next_token` answers when no token is found, `noToken`; an accepted run with
    the flag off never got there.) -/
theorem C02_partial_conservative (env : Env) (fuel : Nat) (ctx : Ctx) (r : ParseResult)
    (hrun : parse env false fuel = (ctx, .ok r)) : parse env true fuel = (ctx, .ok r) :=
  parse_partial_conservative env fuel ctx r hrun

/-- non-vacuity: an accepted run with partial parsing off -/
example : Example.isOk (parse Example.env false 100).2 = true := by decide

end Rustemo.Props.C02
