import Rustemo.Model.Cert
namespace Rustemo.Props.C01
end Rustemo.Props.C01
