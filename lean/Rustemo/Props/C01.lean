import Rustemo.Proofs.TLR
import Rustemo.Props.Example
import Rustemo.Proofs.LexTokRun
import Rustemo.Proofs.LexTokExample
/-!
# C01 — a deterministic LR parser accepts exactly the language of its grammar

`tparse` (Model/Core.lean) is the LR stack machine of `LRParser::parse_with_context` fed from a token
list the way rustemo's context-aware lexer feeds it when terminals cannot be confused with each other
(distinct single-character recognizers): the next token is offered iff the current state has an
action for it, and lexing is redone after every reduction.  The byte-level model `LR.parse` refines
the same core (`Proofs/Refine.lean`); the remaining step "string lexer on such terminals = this lexing
rule" is the simulation theorem in the second half of this file (`C01_bytes_agree_with_tokens`,
`C01_bytes_accept_exactly`; notes/Viable.md), and `tparse` is still run next to `LR.parse` and the real
parser on every generated input.

`Cert.c01` = structural + completeness (lookahead post-fixpoint incl. a verified FIRST/nullable
post-fixpoint, reduce entries for every lookahead, every cell at most one action) + accept only on STOP.
It is executed by the driver on the table dumped from the real compiler, for LALR and LALR_PAGER.
A table that passes has no cell with two candidates — "no disambiguation took effect".
-/
namespace Rustemo.Props.C01
open Rustemo

def certC01 (g : Grammar) (t : Table) : Bool :=
  Cert.structural g t (autosOf g t) && Cert.complete g t && Cert.acceptStop t

theorem acceptStop_sound (t : Table) (h : Cert.acceptStop t = true) :
    ∀ s a, Action.accept ∈ t.cell s a → a = 0 := by
  intro s a hm
  obtain ⟨st, hst, hm'⟩ := mem_cell hm
  have := forStates_spec h hst
  have := forCells_spec this hm'
  simpa using this

/-- **Soundness**: whatever is accepted is a sentence, and the tree returned is a derivation tree of
    exactly the input. -/
theorem C01_accepted_is_sentence (g : Grammar) (t : Table) (hcert : certC01 g t = true)
    (w : List Nat) (hnz : ∀ x ∈ w, x ≠ 0) (fuel : Nat) (tr : Tree)
    (h : tparse g t w fuel = .accept tr) : tr.Valid g g.startIdx ∧ tr.yield = w := by
  unfold certC01 at hcert
  simp only [Bool.and_eq_true] at hcert
  obtain ⟨⟨hs, _⟩, ha⟩ := hcert
  exact trun_sound g t (autosOf g t) (Cert.structural_sound _ _ _ hs) ⟨0, 0, g.startIdx⟩
    (by unfold autosOf; exact List.mem_cons_self) rfl (acceptStop_sound t ha) w hnz fuel _ tr
    ⟨cinv_init g t 0, by simp⟩ h

/-- **Completeness**: every sentence is accepted, and the parser returns its derivation tree. -/
theorem C01_sentence_is_accepted (g : Grammar) (t : Table) (hcert : certC01 g t = true)
    (tx : Tree) (hv : tx.Valid g g.startIdx) :
    ∃ fuel, tparse g t tx.yield fuel = .accept tx.plain := by
  unfold certC01 at hcert
  simp only [Bool.and_eq_true] at hcert
  obtain ⟨⟨hs, hc⟩, _⟩ := hcert
  obtain ⟨hC, hW⟩ := Cert.complete_sound g t hc
  exact tparse_complete g t hW hC (Cert.structural_sound _ _ _ hs).item_prod tx hv

/-- **C01**: Ok if and only if the input is a sentence of the grammar. -/
theorem C01_lr_accepts_exactly (g : Grammar) (t : Table) (hcert : certC01 g t = true)
    (w : List Nat) (hnz : ∀ x ∈ w, x ≠ 0) :
    (∃ fuel tr, tparse g t w fuel = .accept tr) ↔ Sentence g w := by
  constructor
  · intro ⟨fuel, tr, h⟩
    exact ⟨tr, C01_accepted_is_sentence g t hcert w hnz fuel tr h⟩
  · intro ⟨tx, hv, hy⟩
    obtain ⟨fuel, h⟩ := C01_sentence_is_accepted g t hcert tx hv
    exact ⟨fuel, tx.plain, by rw [← hy]; exact h⟩

theorem trun_mono (g : Grammar) (t : Table) : ∀ (n : Nat) (c : TCfg) (tr : Tree),
    trun g t n c = .accept tr → ∀ k, trun g t (n + k) c = .accept tr := by
  intro n
  induction n with
  | zero => intro c tr h; simp [trun] at h
  | succ n ih =>
    intro c tr h k
    have : n + 1 + k = (n + k) + 1 := by omega
    rw [this]
    unfold trun at h ⊢
    split at h
    · rename_i c' hstep
      exact ih c' tr h k
    · rename_i tr' hstep
      exact h
    · simp at h
    · simp at h

/-- **A grammar whose table is certified deterministic is unambiguous**: two derivation trees of the
    same input from the start symbol are the same tree (up to decorations). -/
theorem C01_deterministic_is_unambiguous (g : Grammar) (t : Table) (hcert : certC01 g t = true)
    (t1 t2 : Tree) (h1 : t1.Valid g g.startIdx) (h2 : t2.Valid g g.startIdx)
    (hy : t1.yield = t2.yield) : t1.plain = t2.plain := by
  obtain ⟨f1, e1⟩ := C01_sentence_is_accepted g t hcert t1 h1
  obtain ⟨f2, e2⟩ := C01_sentence_is_accepted g t hcert t2 h2
  rw [hy] at e1
  unfold tparse at e1 e2
  have a1 := trun_mono g t f1 _ _ e1 f2
  have a2 := trun_mono g t f2 _ _ e2 f1
  rw [Nat.add_comm] at a2
  rw [a1] at a2
  injection a2

/-- non-vacuity: the hand-compiled table of `S: 'a' S | EMPTY` passes the whole certificate -/
example : certC01 Example.g Example.t = true := by decide

/-! ## From tokens to bytes: the string lexer on single-character terminals

The theorems above are about `tparse` (token level).  What is diffed against the real `LRParser` is the
byte-level model `LR.parse` (Model/LR.lean).  For the grammars C01 generates — every terminal a string
recognizer of ONE ASCII character, pairwise distinct, no Layout rule — the two coincide:
`Cert.singleCharLexer g t` (executable; run by the driver on every case as `cert singlechar`) and
`CharEnv env` (default string lexer, recognizers = `charRecog`, i.e. `starts_with` of the terminal's
character and STOP at the end of the input; whitespace skipping off, or on with no whitespace byte in
the input) give a step-for-step simulation (`Proofs/LexTokSim.lean`): `nextTokenMain` in a state offers
exactly the terminal whose character is the next byte iff that terminal has a non-empty cell in the
state, else it reports the state's expected list at that byte — which is `tstep`'s lookup of the cell
of the next token.  A byte that is no terminal's character is the token `g.nterms`, which no cell
accepts. -/

/-- **Byte level = token level**, for every fuel: Ok ⟷ accept (same fuel); `Err(expected ks)` at byte
    offset `p` ⟷ token-level error with `|input| - p` tokens remaining in a state `s` whose
    `sorted_terminals` are `ks` (one more unit of fuel: the byte-level loop lexes at the end of an
    iteration); panic ⟷ panic; out of fuel ⟷ out of fuel. -/
theorem C01_bytes_agree_with_tokens (env : Env) (hlex : Cert.singleCharLexer env.g env.t = true)
    (henv : CharEnv env) (fuel : Nat) :
    Agree env.t env.input.length (parse env false fuel).2
      (tparse env.g env.t (tokensOf env.g env.input) fuel)
      (tparse env.g env.t (tokensOf env.g env.input) (fuel + 1)) :=
  parse_agree env henv (Cert.singleCharLexer_sound _ _ hlex) fuel

/-- `LR.parse` returns Ok on the bytes iff `tparse` accepts their tokens (same fuel) -/
theorem C01_bytes_ok_iff_tokens_accept (env : Env) (hlex : Cert.singleCharLexer env.g env.t = true)
    (henv : CharEnv env) (fuel : Nat) :
    (∃ ctx r, parse env false fuel = (ctx, .ok r)) ↔
    ∃ tr, tparse env.g env.t (tokensOf env.g env.input) fuel = .accept tr :=
  bytes_ok_iff env henv (Cert.singleCharLexer_sound _ _ hlex) fuel

/-- a byte-level error is the token-level error: reported at byte offset `p.pos` = index of the
    rejected token (`k = |input| - p.pos` tokens remain), expected list = `sorted_terminals` of the
    state `s` in which `tparse` reports it -/
theorem C01_bytes_error_is_token_error (env : Env) (hlex : Cert.singleCharLexer env.g env.t = true)
    (henv : CharEnv env) (fuel : Nat) (ctx : Ctx) (e : PErr) (h : parse env false fuel = (ctx, .err e)) :
    ∃ k s p, e = .expected p ((env.t.sorted s).map (·.1)) ∧ p.pos + k = env.input.length ∧
      tparse env.g env.t (tokensOf env.g env.input) (fuel + 1) = .error k s :=
  bytes_err_tokens env henv (Cert.singleCharLexer_sound _ _ hlex) fuel ctx e h

/-- … and conversely -/
theorem C01_token_error_is_bytes_error (env : Env) (hlex : Cert.singleCharLexer env.g env.t = true)
    (henv : CharEnv env) (fuel k s : Nat)
    (h : tparse env.g env.t (tokensOf env.g env.input) (fuel + 1) = .error k s) :
    ∃ ctx p, parse env false fuel = (ctx, .err (.expected p ((env.t.sorted s).map (·.1)))) ∧
      p.pos + k = env.input.length :=
  tokens_err_bytes env henv (Cert.singleCharLexer_sound _ _ hlex) fuel k s h

/-- **C01 at the byte level**: for a certified deterministic table of a single-character grammar the
    byte-level parser returns Ok on `bs` iff `bs.map charToTerm` is a sentence of the grammar. -/
theorem C01_bytes_accept_exactly (env : Env) (hcert : certC01 env.g env.t = true)
    (hlex : Cert.singleCharLexer env.g env.t = true) (henv : CharEnv env) :
    (∃ fuel ctx r, parse env false fuel = (ctx, .ok r)) ↔ Sentence env.g (tokensOf env.g env.input) := by
  have hsc := Cert.singleCharLexer_sound _ _ hlex
  rw [← C01_lr_accepts_exactly env.g env.t hcert _ (tokensOf_ne_zero hsc env.input)]
  constructor
  · intro ⟨fuel, ctx, r, h⟩
    exact ⟨fuel, (C01_bytes_ok_iff_tokens_accept env hlex henv fuel).mp ⟨ctx, r, h⟩⟩
  · intro ⟨fuel, h⟩
    exact ⟨fuel, (C01_bytes_ok_iff_tokens_accept env hlex henv fuel).mpr h⟩

/-- the same with every hypothesis an executable check (what the driver evaluates per case and input:
    `cert c01`, `cert singlechar`, `charenv`) -/
theorem C01_bytes_accept_exactly_checked (env : Env)
    (h : (certC01 env.g env.t && Cert.singleCharLexer env.g env.t && charEnvOk env) = true) :
    (∃ fuel ctx r, parse env false fuel = (ctx, .ok r)) ↔ Sentence env.g (tokensOf env.g env.input) := by
  simp only [Bool.and_eq_true] at h
  exact C01_bytes_accept_exactly env h.1.1 h.1.2 (charEnvOk_sound env h.2)

/-! ### non-vacuity -/

example : (certC01 Example3.g1 Example.t && Cert.singleCharLexer Example3.g1 Example.t &&
    charEnvOk (Example3.envOf Example3.g1 Example.t [97, 97] true)) = true := by decide

/-- both example tables, with their terminal records, pass the C01 and the lexer certificate -/
example : certC01 Example3.g1 Example.t = true ∧ Cert.singleCharLexer Example3.g1 Example.t = true := by decide
set_option maxRecDepth 8192 in
example : certC01 Example3.g2 Example2.t = true ∧ Cert.singleCharLexer Example3.g2 Example2.t = true := by decide

/-- the environments satisfy `CharEnv` (whitespace skipping off / on without whitespace bytes) -/
example : CharEnv (Example3.envOf Example3.g2 Example2.t Example3.axc false) := ⟨fun _ _ _ _ => rfl, rfl, Or.inl rfl⟩
example : CharEnv (Example3.envOf Example3.g2 Example2.t Example3.axc true) :=
  ⟨fun _ _ _ _ => rfl, rfl, Or.inr (by decide)⟩

/-- "axc" is accepted, "axd" is rejected at byte 2 expecting `c` (kind 3) after the reduction `A: x`,
    "a?c" is rejected at byte 1 expecting `x` (kind 5) -/
example : Example.isOk (parse (Example3.envOf Example3.g2 Example2.t Example3.axc false) false 50).2 = true ∧
    Example3.errOf (parse (Example3.envOf Example3.g2 Example2.t Example3.axd false) false 50).2 = some (2, [3]) ∧
    Example3.errOf (parse (Example3.envOf Example3.g2 Example2.t Example3.aqc false) false 50).2 = some (1, [5]) ∧
    tokensOf Example3.g2 Example3.aqc = [1, 6, 3] := by decide

end Rustemo.Props.C01
