import Rustemo.Proofs.TLR
import Rustemo.Props.Example
/-!
# C01 — a deterministic LR parser accepts exactly the language of its grammar

`tparse` (Model/Core.lean) is the LR stack machine of `LRParser::parse_with_context` fed from a token
list the way rustemo's context-aware lexer feeds it when terminals cannot be confused with each other
(distinct single-character recognizers): the next token is offered iff the current state has an
action for it, and lexing is redone after every reduction.  The byte-level model `LR.parse` refines
the same core (`Proofs/Refine.lean`); the remaining step "string lexer on such terminals = this lexing
rule" is validated by running `tparse` next to `LR.parse` and the real parser on every generated input
(it is not a theorem yet).

`Cert.c01` = structural + completeness (lookahead post-fixpoint incl. a verified FIRST/nullable
post-fixpoint, reduce entries for every lookahead, every cell at most one action) + accept only on STOP.
It is executed by the driver on the table dumped from the real compiler, for LALR and LALR_PAGER.
A table that passes has no cell with two candidates — "no disambiguation took effect".
-/
namespace Rustemo.Props.C01
open Rustemo

def certC01 (g : Grammar) (t : Table) : Bool :=
  Cert.structural g t (autosOf g t) && Cert.complete g t && Cert.acceptStop t

theorem acceptStop_sound (t : Table) (h : Cert.acceptStop t = true) :
    ∀ s a, Action.accept ∈ t.cell s a → a = 0 := by
  intro s a hm
  obtain ⟨st, hst, hm'⟩ := mem_cell hm
  have := forStates_spec h hst
  have := forCells_spec this hm'
  simpa using this

/-- **Soundness**: whatever is accepted is a sentence, and the tree returned is a derivation tree of
    exactly the input. -/
theorem C01_accepted_is_sentence (g : Grammar) (t : Table) (hcert : certC01 g t = true)
    (w : List Nat) (hnz : ∀ x ∈ w, x ≠ 0) (fuel : Nat) (tr : Tree)
    (h : tparse g t w fuel = .accept tr) : tr.Valid g g.startIdx ∧ tr.yield = w := by
  unfold certC01 at hcert
  simp only [Bool.and_eq_true] at hcert
  obtain ⟨⟨hs, _⟩, ha⟩ := hcert
  exact trun_sound g t (autosOf g t) (Cert.structural_sound _ _ _ hs) ⟨0, 0, g.startIdx⟩
    (by unfold autosOf; exact List.mem_cons_self) rfl (acceptStop_sound t ha) w hnz fuel _ tr
    ⟨cinv_init g t 0, by simp⟩ h

/-- **Completeness**: every sentence is accepted, and the parser returns its derivation tree. -/
theorem C01_sentence_is_accepted (g : Grammar) (t : Table) (hcert : certC01 g t = true)
    (tx : Tree) (hv : tx.Valid g g.startIdx) :
    ∃ fuel, tparse g t tx.yield fuel = .accept tx.plain := by
  unfold certC01 at hcert
  simp only [Bool.and_eq_true] at hcert
  obtain ⟨⟨hs, hc⟩, _⟩ := hcert
  obtain ⟨hC, hW⟩ := Cert.complete_sound g t hc
  exact tparse_complete g t hW hC (Cert.structural_sound _ _ _ hs).item_prod tx hv

/-- **C01**: Ok if and only if the input is a sentence of the grammar. -/
theorem C01_lr_accepts_exactly (g : Grammar) (t : Table) (hcert : certC01 g t = true)
    (w : List Nat) (hnz : ∀ x ∈ w, x ≠ 0) :
    (∃ fuel tr, tparse g t w fuel = .accept tr) ↔ Sentence g w := by
  constructor
  · intro ⟨fuel, tr, h⟩
    exact ⟨tr, C01_accepted_is_sentence g t hcert w hnz fuel tr h⟩
  · intro ⟨tx, hv, hy⟩
    obtain ⟨fuel, h⟩ := C01_sentence_is_accepted g t hcert tx hv
    exact ⟨fuel, tx.plain, by rw [← hy]; exact h⟩

theorem trun_mono (g : Grammar) (t : Table) : ∀ (n : Nat) (c : TCfg) (tr : Tree),
    trun g t n c = .accept tr → ∀ k, trun g t (n + k) c = .accept tr := by
  intro n
  induction n with
  | zero => intro c tr h; simp [trun] at h
  | succ n ih =>
    intro c tr h k
    have : n + 1 + k = (n + k) + 1 := by omega
    rw [this]
    unfold trun at h ⊢
    split at h
    · rename_i c' hstep
      exact ih c' tr h k
    · rename_i tr' hstep
      exact h
    · simp at h
    · simp at h

/-- **A grammar whose table is certified deterministic is unambiguous**: two derivation trees of the
    same input from the start symbol are the same tree (up to decorations). -/
theorem C01_deterministic_is_unambiguous (g : Grammar) (t : Table) (hcert : certC01 g t = true)
    (t1 t2 : Tree) (h1 : t1.Valid g g.startIdx) (h2 : t2.Valid g g.startIdx)
    (hy : t1.yield = t2.yield) : t1.plain = t2.plain := by
  obtain ⟨f1, e1⟩ := C01_sentence_is_accepted g t hcert t1 h1
  obtain ⟨f2, e2⟩ := C01_sentence_is_accepted g t hcert t2 h2
  rw [hy] at e1
  unfold tparse at e1 e2
  have a1 := trun_mono g t f1 _ _ e1 f2
  have a2 := trun_mono g t f2 _ _ e2 f1
  rw [Nat.add_comm] at a2
  rw [a1] at a2
  injection a2

/-- non-vacuity: the hand-compiled table of `S: 'a' S | EMPTY` passes the whole certificate -/
example : certC01 Example.g Example.t = true := by decide

end Rustemo.Props.C01
