import Rustemo.Props.C01
/-!
# C12 — syntax errors point at the first offending token; sentences never error

PARTIAL.  Proved: a sentence is never rejected (`C12_sentences_never_error`, the parser result is
`accept` for every sufficiently large fuel and can therefore never be an error); an input that is
rejected is not a sentence; the error the byte-level model reports always carries a non-empty list
of expected tokens and the position reached after skipping layout, i.e. the start of the token that
was not accepted (`C12_error_expected_nonempty`).
NOT proved (decided by an independent Earley viable-prefix oracle on generated inputs, for the real LR
and GLR parsers): that the rejected token is the *first* token that cannot continue any sentence
(merged lookaheads only delay the error by reductions, never past a shift); the GLR half.
-/
namespace Rustemo.Props.C12
open Rustemo Rustemo.Props.C01

theorem trun_mono_result (g : Grammar) (t : Table) : ∀ (n : Nat) (c : TCfg) (r : TResult),
    trun g t n c = r → r ≠ .fuel → ∀ k, trun g t (n + k) c = r := by
  intro n
  induction n with
  | zero => intro c r h hr; simp [trun] at h; exact absurd h.symm hr
  | succ n ih =>
    intro c r h hr k
    have : n + 1 + k = (n + k) + 1 := by omega
    rw [this]
    unfold trun at h ⊢
    split at h
    · rename_i c' hstep
      exact ih c' r h hr k
    · exact h
    · exact h
    · exact h

/-- **Sentences never error**: on a certified deterministic table no run on a sentence ends in an
    error (or a panic): as soon as it ends it accepts. -/
theorem C12_sentences_never_error (g : Grammar) (t : Table) (hcert : certC01 g t = true)
    (tx : Tree) (hv : tx.Valid g g.startIdx) (fuel : Nat) :
    tparse g t tx.yield fuel = .fuel ∨ tparse g t tx.yield fuel = .accept tx.plain := by
  obtain ⟨f2, e2⟩ := C01_sentence_is_accepted g t hcert tx hv
  by_cases hf : tparse g t tx.yield fuel = .fuel
  · exact Or.inl hf
  · right
    unfold tparse at hf e2 ⊢
    have a1 := trun_mono_result g t fuel _ _ rfl hf f2
    have a2 := trun_mono_result g t f2 _ _ e2 (by simp) fuel
    rw [Nat.add_comm] at a2
    rw [← a1, a2]

/-- an input on which the parser reports an error is not a sentence -/
theorem C12_error_only_on_nonsentence (g : Grammar) (t : Table) (hcert : certC01 g t = true)
    (w : List Nat) (fuel k s : Nat) (h : tparse g t w fuel = .error k s) : ¬ Sentence g w := by
  intro ⟨tx, hv, hy⟩
  have := C12_sentences_never_error g t hcert tx hv fuel
  rw [hy, h] at this
  rcases this with h1 | h1 <;> simp at h1

/-- the error produced when no token is found lists at least one expected token and is reported at
    the position where lexing stopped -/
theorem C12_error_expected_nonempty (env : Env) (pp : Bool) (ctx ctx' : Ctx) (p : Pos) (ks : List Nat)
    (h : noToken env pp ctx = (ctx', .err (.expected p ks))) : ks ≠ [] ∧ p = ctx.pos ∧ ctx' = ctx := by
  unfold noToken at h
  simp only at h
  split at h
  · simp at h
  · split at h
    · simp at h
    · rename_i hne
      injection h with h1 h2
      injection h2 with h2
      injection h2 with h3 h4
      subst h1 h3 h4
      exact ⟨by intro h; exact hne h, rfl, rfl⟩

end Rustemo.Props.C12
