import Rustemo.Model.LR
namespace Rustemo.Props.C12
end Rustemo.Props.C12
