import Rustemo.Props.C01
import Rustemo.Proofs.Viable
import Rustemo.Proofs.ViableExample
/-!
# C12 — syntax errors point at the first offending token; sentences never error

LR half proved, GLR half PARTIAL.  Proved: a sentence is never rejected (`C12_sentences_never_error`, the parser
result is `accept` for every sufficiently large fuel and can therefore never be an error); an input that is
rejected is not a sentence; the error the byte-level model reports always carries a non-empty list
of expected tokens and the position reached after skipping layout, i.e. the start of the token that
was not accepted (`C12_error_expected_nonempty`); and the POSITION claim (second half of this file):
the rejected token is the *first* token that cannot continue any sentence beginning with the tokens
before it — `C12_error_at_first_offending_token` (token level, any table passing `certC12`) from
`C12_no_early_error` (prefix locality + completeness) and `C12_no_late_error` (the parser never shifts a
token that makes the consumed prefix non-viable; merged lookaheads only delay the error by reductions),
transferred to the byte-level model for single-character grammars
(`C12_bytes_error_at_first_offending_token`).  See notes/Viable.md.
NOT proved (decided by an independent Earley viable-prefix oracle on generated inputs): the GLR half;
the byte level for multi-character / regex terminals, Layout rules and whitespace between tokens;
termination (that a non-sentence eventually yields the error rather than running out of fuel).
-/
namespace Rustemo.Props.C12
open Rustemo Rustemo.Props.C01

theorem trun_mono_result (g : Grammar) (t : Table) : ∀ (n : Nat) (c : TCfg) (r : TResult),
    trun g t n c = r → r ≠ .fuel → ∀ k, trun g t (n + k) c = r := by
  intro n
  induction n with
  | zero => intro c r h hr; simp [trun] at h; exact absurd h.symm hr
  | succ n ih =>
    intro c r h hr k
    have : n + 1 + k = (n + k) + 1 := by omega
    rw [this]
    unfold trun at h ⊢
    split at h
    · rename_i c' hstep
      exact ih c' r h hr k
    · exact h
    · exact h
    · exact h

/-- **Sentences never error**: on a certified deterministic table no run on a sentence ends in an
    error (or a panic): as soon as it ends it accepts. -/
theorem C12_sentences_never_error (g : Grammar) (t : Table) (hcert : certC01 g t = true)
    (tx : Tree) (hv : tx.Valid g g.startIdx) (fuel : Nat) :
    tparse g t tx.yield fuel = .fuel ∨ tparse g t tx.yield fuel = .accept tx.plain := by
  obtain ⟨f2, e2⟩ := C01_sentence_is_accepted g t hcert tx hv
  by_cases hf : tparse g t tx.yield fuel = .fuel
  · exact Or.inl hf
  · right
    unfold tparse at hf e2 ⊢
    have a1 := trun_mono_result g t fuel _ _ rfl hf f2
    have a2 := trun_mono_result g t f2 _ _ e2 (by simp) fuel
    rw [Nat.add_comm] at a2
    rw [← a1, a2]

/-- an input on which the parser reports an error is not a sentence -/
theorem C12_error_only_on_nonsentence (g : Grammar) (t : Table) (hcert : certC01 g t = true)
    (w : List Nat) (fuel k s : Nat) (h : tparse g t w fuel = .error k s) : ¬ Sentence g w := by
  intro ⟨tx, hv, hy⟩
  have := C12_sentences_never_error g t hcert tx hv fuel
  rw [hy, h] at this
  rcases this with h1 | h1 <;> simp at h1

/-- the error produced when no token is found lists at least one expected token and is reported at
    the position where lexing stopped -/
theorem C12_error_expected_nonempty (env : Env) (pp : Bool) (ctx ctx' : Ctx) (p : Pos) (ks : List Nat)
    (h : noToken env pp ctx = (ctx', .err (.expected p ks))) : ks ≠ [] ∧ p = ctx.pos ∧ ctx' = ctx := by
  unfold noToken at h
  simp only at h
  split at h
  · simp at h
  · split at h
    · simp at h
    · rename_i hne
      injection h with h1 h2
      injection h2 with h2
      injection h2 with h3 h4
      subst h1 h3 h4
      exact ⟨by intro h; exact hne h, rfl, rfl⟩

/-! ## The position claim: the error is at the first offending token (valid-prefix property, LR half)

`ViablePrefix g p` = some sentence begins with `p`.  Hypotheses: `certC01` (structural + complete +
accept only on STOP, as for C01) and, for the "no late error" half, `Cert.viable`: the grammar is
reduced (`Cert.productive`, excludes F10 grammars), every item of every state is anchored in its kernel
by closure steps (`Cert.anchored`), shift/goto targets are non-empty states (`Cert.targetsNonEmpty`).
All of them are executable and run by the driver on every real table (`cert c01`, `cert viable`). -/

/-- the certificate of the valid-prefix theorems -/
def certC12 (g : Grammar) (t : Table) : Bool := certC01 g t && Cert.viable g t (autosOf g t)

/-- **No early error.**  If `p ++ [a]` begins some sentence then the parser reports no error while `a`
    or an earlier token is the lookahead: on `p ++ [a] ++ r` an error leaves at most `|r|` tokens. -/
theorem C12_no_early_error (g : Grammar) (t : Table) (hcert : certC01 g t = true)
    (p : List Nat) (a : Nat) (r : List Nat) (hv : ViablePrefix g (p ++ [a])) (fuel k s : Nat)
    (h : tparse g t (p ++ [a] ++ r) fuel = .error k s) : k ≤ r.length := by
  unfold certC01 at hcert
  simp only [Bool.and_eq_true] at hcert
  obtain ⟨⟨hs, hc⟩, _⟩ := hcert
  obtain ⟨hC, hW⟩ := Cert.complete_sound g t hc
  exact viable_no_early_error g t hW hC (Cert.structural_sound _ _ _ hs).item_prod (p ++ [a]) r hv fuel k s h

/-- the same for any split of the input: an error on `q ++ y` with `q` a viable prefix leaves at most
    `|y|` tokens -/
theorem C12_no_error_inside_viable_prefix (g : Grammar) (t : Table) (hcert : certC01 g t = true)
    (q y : List Nat) (hv : ViablePrefix g q) (fuel k s : Nat)
    (h : tparse g t (q ++ y) fuel = .error k s) : k ≤ y.length := by
  unfold certC01 at hcert
  simp only [Bool.and_eq_true] at hcert
  obtain ⟨⟨hs, hc⟩, _⟩ := hcert
  obtain ⟨hC, hW⟩ := Cert.complete_sound g t hc
  exact viable_no_early_error g t hW hC (Cert.structural_sound _ _ _ hs).item_prod q y hv fuel k s h

/-- end of input: if the whole input is a viable prefix, the only error the parser can report is the
    one with STOP as the lookahead (no tokens remaining) -/
theorem C12_viable_input_errors_only_at_end (g : Grammar) (t : Table) (hcert : certC01 g t = true)
    (w : List Nat) (hv : ViablePrefix g w) (fuel k s : Nat)
    (h : tparse g t w fuel = .error k s) : k = 0 := by
  have := C12_no_error_inside_viable_prefix g t hcert w [] hv fuel k s (by simpa using h)
  simpa using this

/-- **Viable prefixes are shifted**: if `q` begins some sentence (and contains no STOP) the run on
    `q ++ y` reaches a configuration where exactly `q` has been shifted and `y` remains. -/
theorem C12_viable_prefix_is_shifted (g : Grammar) (t : Table) (hcert : certC01 g t = true)
    (q y : List Nat) (hnz : ∀ b ∈ q, b ≠ 0) (hv : ViablePrefix g q) :
    ∃ c, Reaches g t ⟨⟨[], []⟩, q ++ y⟩ ⟨c, y⟩ ∧ c.shifted = q.reverse := by
  unfold certC01 at hcert
  simp only [Bool.and_eq_true] at hcert
  obtain ⟨⟨hs, hc⟩, ha⟩ := hcert
  obtain ⟨hC, hW⟩ := Cert.complete_sound g t hc
  exact viable_is_shifted g t (autosOf g t) (Cert.structural_sound _ _ _ hs)
    (by unfold autosOf; exact List.mem_cons_self) hW hC (acceptStop_sound t ha) q y hnz hv

/-- **No late error**: the parser never SHIFTS a token that makes the consumed prefix non-viable.  In
    every configuration `c` the run on `w` reaches, the shifted tokens are the first
    `c.c.shifted.length` tokens of `w` and they begin some sentence.  (With merged LALR lookaheads
    reductions may happen before the error is detected, but no shift.) -/
theorem C12_no_late_error (g : Grammar) (t : Table) (hcert : certC12 g t = true)
    (w : List Nat) (c : TCfg) (hr : Reaches g t ⟨⟨[], []⟩, w⟩ c) :
    c.c.shifted.reverse = w.take c.c.shifted.length ∧ c.rest = w.drop c.c.shifted.length ∧
    ViablePrefix g (w.take c.c.shifted.length) := by
  unfold certC12 certC01 Cert.viable at hcert
  simp only [Bool.and_eq_true] at hcert
  obtain ⟨⟨⟨hs, hc⟩, _⟩, ⟨hp, han⟩, hne⟩ := hcert
  obtain ⟨_, hW⟩ := Cert.complete_sound g t hc
  obtain ⟨pr0, h1, _, h2⟩ := hW.aug0
  obtain ⟨hsplit, hv⟩ := reaches_viable g t (autosOf g t) (Cert.structural_sound _ _ _ hs)
    (Cert.anchored_sound _ _ _ han) (Cert.productive_sound g hp) (Cert.targetsNonEmpty_sound g t hne)
    (by unfold autosOf; exact List.mem_cons_self) ⟨pr0, h1, h2⟩ w c hr
  have ht : c.c.shifted.reverse = w.take c.c.shifted.length := by
    rw [← hsplit, ← List.length_reverse, List.take_left]
  have hd : c.rest = w.drop c.c.shifted.length := by
    rw [← hsplit, ← List.length_reverse, List.drop_left]
  exact ⟨ht, hd, ht ▸ hv⟩

/-- **The parser shifts exactly the viable prefixes** of its input. -/
theorem C12_shifted_iff_viable (g : Grammar) (t : Table) (hcert : certC12 g t = true)
    (w : List Nat) (hnz : ∀ b ∈ w, b ≠ 0) (k : Nat) (hk : k ≤ w.length) :
    (∃ c, Reaches g t ⟨⟨[], []⟩, w⟩ c ∧ c.c.shifted.length = k) ↔ ViablePrefix g (w.take k) := by
  constructor
  · intro ⟨c, hr, hlen⟩
    rw [← hlen]
    exact (C12_no_late_error g t hcert w c hr).2.2
  · intro hv
    have hc1 : certC01 g t = true := by
      unfold certC12 at hcert; simp only [Bool.and_eq_true] at hcert; exact hcert.1
    obtain ⟨c, hr, hsh⟩ := C12_viable_prefix_is_shifted g t hc1 (w.take k) (w.drop k)
      (fun b hb => hnz b (List.mem_of_mem_take hb)) hv
    rw [List.take_append_drop] at hr
    exact ⟨⟨c, w.drop k⟩, hr, by simp [hsh, List.length_take, Nat.min_eq_left hk]⟩

/-- **C12 (LR, token level): the error is reported exactly at the first offending token.**
    If the run on `w` ends in `.error k s` — `k` tokens remaining, i.e. the lookahead is the token of
    index `i = |w| - k`, or STOP when `k = 0` — then
    * `w.take i` begins some sentence (all tokens before the reported one can be continued),
    * if the lookahead is a token (`k ≠ 0`): `w.take (i+1)` begins no sentence — the reported token is
      the FIRST token that cannot continue any sentence beginning with the tokens before it,
    * if the lookahead is STOP (`k = 0`): `w` is not a sentence (and, by the first point, is a proper
      prefix of one),
    * the error is raised in a configuration reached by the run in which exactly `w.take i` has been
      shifted, `s` is the top state and the cell of `s` for the lookahead is empty: the expected set
      is the set of terminals with a non-empty cell in `s`, and the lookahead is not in it. -/
theorem C12_error_at_first_offending_token (g : Grammar) (t : Table) (hcert : certC12 g t = true)
    (w : List Nat) (fuel k s : Nat) (h : tparse g t w fuel = .error k s) :
    k ≤ w.length ∧ ViablePrefix g (w.take (w.length - k)) ∧
    (k ≠ 0 → ¬ ViablePrefix g (w.take (w.length - k + 1))) ∧
    (k = 0 → ¬ Sentence g w) ∧
    ∃ c, Reaches g t ⟨⟨[], []⟩, w⟩ c ∧ c.rest = w.drop (w.length - k) ∧
         c.c.shifted.reverse = w.take (w.length - k) ∧
         s = topOf 0 c.c.stack ∧ t.cell s (lookahead c.rest) = [] := by
  unfold certC12 certC01 Cert.viable at hcert
  simp only [Bool.and_eq_true] at hcert
  obtain ⟨⟨⟨hs, hc⟩, _⟩, ⟨hp, han⟩, hne⟩ := hcert
  obtain ⟨hC, hW⟩ := Cert.complete_sound g t hc
  exact error_at_first_offending g t (autosOf g t) (Cert.structural_sound _ _ _ hs)
    (Cert.anchored_sound _ _ _ han) (Cert.productive_sound g hp) (Cert.targetsNonEmpty_sound g t hne)
    (by unfold autosOf; exact List.mem_cons_self) hW hC w fuel k s h

/-- every non-sentence is rejected with an error at its first offending token: an input that is not a
    sentence never yields `accept`, so as soon as the run ends (enough fuel, no panic) it ends in the
    error characterised by `C12_error_at_first_offending_token` -/
theorem C12_nonsentence_not_accepted (g : Grammar) (t : Table) (hcert : certC01 g t = true)
    (w : List Nat) (hnz : ∀ x ∈ w, x ≠ 0) (hw : ¬ Sentence g w) (fuel : Nat) (tr : Tree) :
    tparse g t w fuel ≠ .accept tr := by
  intro h
  exact hw ⟨tr, C01_accepted_is_sentence g t hcert w hnz fuel tr h⟩

/-! ### non-vacuity -/

/-- the hand-compiled table of `S: 'a' S | EMPTY` passes the whole certificate -/
example : certC12 Example.g Example.t = true := by decide
set_option maxRecDepth 8192 in
/-- … and so does the real LALR table of `S: 'a' A 'c' | 'b' A 'd'; A: 'x'` (merged lookaheads) -/
example : certC12 Example2.g Example2.t = true := by decide

/-- `a` is a viable prefix of `S: 'a' S | EMPTY`; the unknown token 2 after it is reported with one
    token remaining (index 1) -/
example : ViablePrefix Example.g [1] ∧ Example2.errorOf (tparse Example.g Example.t [1, 2] 20) = some (1, 1) :=
  ⟨⟨[], sentence_of_validB Example.g (Tree.mk 1 [Tree.tok 1, Tree.mk 2 []]) _ (by decide)⟩, by decide⟩

/-- `a x d` on the LALR table: `a x` begins the sentence `a x c`; the parser reduces `A: x` (merged
    lookahead `d`) and then reports the error in state 5 with `d` (index 2, one token remaining) as the
    lookahead — the hypotheses of `C12_error_at_first_offending_token` are satisfiable with `k ≠ 0` -/
example : ViablePrefix Example2.g [1, 5] ∧
    Example2.errorOf (tparse Example2.g Example2.t [1, 5, 4] 20) = some (1, 5) :=
  ⟨⟨[3], sentence_of_validB Example2.g Example2.treeAxc _ (by decide)⟩, by decide⟩

/-- `a x` is a proper prefix of a sentence: the error is reported with STOP as the lookahead (`k = 0`) -/
example : Example2.errorOf (tparse Example2.g Example2.t [1, 5] 20) = some (0, 4) := by decide

/-- an unproductive grammar (`S: 'a' S`, F10) fails `Cert.productive`: out of scope, and rightly so —
    no prefix is viable there although the parser shifts `a` -/
example : Cert.productive Example2.unproductive = false := by decide

/-! ## The same at the byte level (single-character terminals)

Through `C01_bytes_error_is_token_error` the position claim transfers to the byte-level model
`LR.parse` — the model that is diffed against the real `LRParser` — for the grammars of the C01/C12
generators (one ASCII character per terminal): the reported byte offset IS the token index. -/

/-- **C12 (LR, byte level).**  If `LR.parse` reports an error it is `expected p ks` where, with
    `w = tokens of the input`: the tokens before byte `p.pos` begin some sentence; if `p.pos` is inside
    the input the tokens up to and including the one at `p.pos` begin no sentence (first offending
    token); if `p.pos` is the end of the input, the input is not a sentence (but a prefix of one); and
    `ks` lists exactly the terminals with a non-empty cell in a state `s` that has no action for the
    rejected token (so `ks ≠ []` and the rejected token is not in `ks`). -/
theorem C12_bytes_error_at_first_offending_token (env : Env) (hcert : certC12 env.g env.t = true)
    (hlex : Cert.singleCharLexer env.g env.t = true) (henv : CharEnv env)
    (fuel : Nat) (ctx : Ctx) (e : PErr) (h : parse env false fuel = (ctx, .err e)) :
    ∃ p s, e = .expected p ((env.t.sorted s).map (·.1)) ∧ p.pos ≤ env.input.length ∧
      ViablePrefix env.g ((tokensOf env.g env.input).take p.pos) ∧
      (p.pos < env.input.length → ¬ ViablePrefix env.g ((tokensOf env.g env.input).take (p.pos + 1))) ∧
      (p.pos = env.input.length → ¬ Sentence env.g (tokensOf env.g env.input)) ∧
      (∀ a, a ∈ (env.t.sorted s).map (·.1) ↔ env.t.cell s a ≠ []) ∧
      (env.t.sorted s).map (·.1) ≠ [] ∧
      env.t.cell s (lookahead ((tokensOf env.g env.input).drop p.pos)) = [] := by
  obtain ⟨k, s, p, he, hpk, ht⟩ := C01_bytes_error_is_token_error env hlex henv fuel ctx e h
  have hsc := Cert.singleCharLexer_sound _ _ hlex
  obtain ⟨hk, hv, hnv, hns, c, hr, hrest, _, hs, hcell⟩ :=
    C12_error_at_first_offending_token env.g env.t hcert _ _ k s ht
  have hlen : (tokensOf env.g env.input).length = env.input.length := by simp [tokensOf]
  have hidx : (tokensOf env.g env.input).length - k = p.pos := by omega
  rw [hidx] at hv hnv hrest
  refine ⟨p, s, he, by omega, hv, ?_, ?_, hsc.sorted_cell s, ?_, ?_⟩
  · intro hlt; exact hnv (by omega)
  · intro heq; exact hns (by omega)
  · -- the state is a state of the table: it is the top state of a reachable configuration
    intro hnil
    have hcert' := hcert
    unfold certC12 certC01 at hcert'
    simp only [Bool.and_eq_true] at hcert'
    have hstr := Cert.structural_sound _ _ _ hcert'.1.1.1
    have hinv := reaches_tinv env.g env.t _ hstr ⟨0, 0, env.g.startIdx⟩
      (by unfold autosOf; exact List.mem_cons_self) rfl _ hr (tinv_init _ _ _)
    have hrange : s < env.t.states.size := by
      rw [hs]
      cases hst : c.c.stack with
      | nil => exact hsc.start_range
      | cons e es =>
        obtain ⟨s1, tr⟩ := e
        have hp := hinv.cinv.path
        rw [hst] at hp
        obtain ⟨⟨X, _, htr⟩, _⟩ := hp
        simp only [topOf]
        unfold Table.trans at htr
        split at htr
        · exact hsc.shift_range _ _ _ htr
        · exact hsc.goto_range _ _ _ htr
    exact hsc.sorted_ne s hrange (List.map_eq_nil_iff.mp hnil)
  · rw [← hrest]; exact hcell

/-- sentences never error, at the byte level -/
theorem C12_bytes_sentences_never_error (env : Env) (hcert : certC01 env.g env.t = true)
    (hlex : Cert.singleCharLexer env.g env.t = true) (henv : CharEnv env)
    (hs : Sentence env.g (tokensOf env.g env.input)) (fuel : Nat) (ctx : Ctx) (e : PErr) :
    parse env false fuel ≠ (ctx, .err e) := by
  intro h
  obtain ⟨k, s, p, _, _, ht⟩ := C01_bytes_error_is_token_error env hlex henv fuel ctx e h
  exact C12_error_only_on_nonsentence env.g env.t hcert _ _ k s ht hs

set_option maxRecDepth 8192 in
/-- non-vacuity: the byte-level hypotheses hold of the example with merged LALR lookaheads, and "axd"
    is a rejected input (error at byte 2, expected `c`) -/
example : certC12 Example3.g2 Example2.t = true ∧ Cert.singleCharLexer Example3.g2 Example2.t = true ∧
    Example3.errOf (parse (Example3.envOf Example3.g2 Example2.t Example3.axd false) false 50).2 = some (2, [3]) := by
  decide

end Rustemo.Props.C12
