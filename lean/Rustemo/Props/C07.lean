import Rustemo.Props.C01
import Rustemo.Props.C03
import Rustemo.Proofs.GlrRun11
import Rustemo.Proofs.GlrElideEq
import Rustemo.Proofs.GlrExampleDet
/-!
# C07 — LR and GLR parsers built from the same deterministic grammar agree

**Full statement** (`C07_statement`): for a grammar that needs no disambiguation the GLR parser
accepts exactly the inputs the LR parser accepts, with exactly one solution, equal to the LR tree up to
elided nullable tails, with the same spans.

Proved in the second half of this file (section "The two engines"), for TWO tables of ONE grammar — `t_lr` passing
`certC01` (deterministic), `env.t` passing `Cert.glr ∧ Cert.completeRN` (right-nulled) — and under the token-level
lexer hypothesis `LexDet` for the GLR run: `C07_glr_accepts_iff_lr_accepts` and
`C07_glr_trees_are_elisions_of_the_lr_tree`.  NOT proved: "exactly one solution" as a COUNT (needs the engine's
no-duplicates statement, C03 (c)); equality of spans / token values (the relation `Tree.EqElide` ignores decorations;
spans are compared on every generated input); that the GLR run ends (`ok` rather than `timeout`).

First half (older, about the LR side and the forest API): for a certified deterministic table the LR parser accepts exactly the
sentences (C01) and the tree it returns is **the only** derivation tree of the input
(`C07_lr_tree_is_the_unique_derivation`); and the forest API enumerates each tree of the forest
exactly once (C03).  Hence *if* the GLR forest contains exactly the derivation trees of the input
(C03's statement about the graph-structured-stack engine — not proved, decided by an independent
derivation enumerator), it has exactly one tree and that tree is the LR tree.  The comparison of the
two real parsers (Ok/Err, `solutions() = 1`, node-by-node equality incl. spans, modulo elision) is
done on every generated input.
-/
namespace Rustemo.Props.C07
open Rustemo Rustemo.Props.C01

/-- The tree the LR parser returns is the unique derivation tree of the input. -/
theorem C07_lr_tree_is_the_unique_derivation (g : Grammar) (t : Table) (hcert : certC01 g t = true)
    (w : List Nat) (fuel : Nat) (tr : Tree) (h : tparse g t w fuel = .accept tr)
    (tx : Tree) (hv : tx.Valid g g.startIdx) (hy : tx.yield = w) : tx.plain = tr := by
  obtain ⟨f2, e2⟩ := C01_sentence_is_accepted g t hcert tx hv
  rw [hy] at e2
  unfold tparse at h e2
  have a1 := trun_mono g t fuel _ _ h f2
  have a2 := trun_mono g t f2 _ _ e2 fuel
  rw [Nat.add_comm] at a2
  rw [a1] at a2
  injection a2 with a2
  exact a2.symm

/-- A GLR forest that contains exactly the derivation trees of a sentence of a certified
    deterministic grammar (each once) has exactly one solution, and it is the LR tree. -/
theorem C07_single_solution_is_lr_tree (g : Grammar) (t : Table) (hcert : certC01 g t = true)
    (w : List Nat) (fuel : Nat) (tr : Tree) (h : tparse g t w fuel = .accept tr)
    (derivs : List Tree)   -- what the forest contains, as plain derivation trees without repetition
    (hd : ∀ tx ∈ derivs, tx.Valid g g.startIdx ∧ tx.yield = w ∧ tx.IsPlain)
    (hnodup : derivs.Nodup) (hne : derivs ≠ [])
    (hplain : ∀ tx : Tree, tx.IsPlain → tx.plain = tx) :
    derivs = [tr] := by
  have hall : ∀ tx ∈ derivs, tx = tr := by
    intro tx htx
    obtain ⟨hv, hy, hp⟩ := hd tx htx
    have := C07_lr_tree_is_the_unique_derivation g t hcert w fuel tr h tx hv hy
    rw [hplain tx hp] at this
    exact this
  match derivs, hne, hnodup, hall with
  | [x], _, _, hall => rw [hall x (by simp)]
  | x :: y :: rest, _, hnd, hall =>
    exfalso
    have hx := hall x (by simp)
    have hy := hall y (by simp)
    rw [List.nodup_cons] at hnd
    exact hnd.1 (by rw [hx, ← hy]; simp)

/-! ## The two engines: GLR on the right-nulled table against LR on the deterministic table

Hypotheses of both theorems, stated once: `g` is the grammar; `t_lr` is a table of `g` that passes `certC01` (what the
LR parser of a conflict-free grammar runs on: LALR / LALR_PAGER); `env` is the GLR environment (any recognizers, any
lexer configuration) with `env.g = g` whose table `env.t` (LALR_RN) passes `Cert.glr` and `Cert.completeRN`; the GLR
run is token-deterministic: `LexDet env pp fuel n tok P L` (n tokens `tok 0 … tok (n-1)` and the STOP token `tok n`;
every head of level `i` is offered exactly `tok i` iff its state has an action on that kind).  `w` = the token kinds,
the input of the token-level LR machine `tparse` of C01. -/

open Rustemo.Glr Rustemo.Props.C03

/-- the token kinds of a `LexDet` run -/
def kinds (n : Nat) (tok : Nat → Tok) : List Nat := (List.range n).map (fun i => (tok i).kind)

theorem kinds_eq (n : Nat) (tok : Nat → Tok) : kinds n tok = kindsOf tok 0 n := by
  unfold kinds kindsOf; rw [List.range_eq_range']; rfl

theorem kinds_ne_zero {env : Env} {pp : Bool} {fuel n : Nat} {tok : Nat → Tok} {P L : Nat → Pos}
    (hL : LexDet env pp fuel n tok P L) : ∀ x ∈ kinds n tok, x ≠ 0 := by
  intro x hx
  unfold kinds at hx
  rw [List.mem_map] at hx
  obtain ⟨i, hi, rfl⟩ := hx
  have := (hL.terms i (List.mem_range.mp hi)).1
  omega

/-- **GLR accepts iff LR accepts.**  (→) if the GLR parser returns a forest from which ANY tree can be taken, the LR
    machine accepts the token string; (←) if the LR machine accepts, the GLR parser does NOT return an error, and
    every forest it returns (acyclic unfolding) yields a tree.  Not claimed: that the GLR run ends (`ok` rather than
    out of fuel). -/
theorem C07_glr_accepts_iff_lr_accepts (g : Grammar) (t_lr : Table) (hlr : certC01 g t_lr = true)
    (env : Env) (hg : env.g = g) (hcert : Cert.glr env.g env.t = true) (hcomp : Cert.completeRN env.g env.t = true)
    (pp : Bool) (fuel n : Nat) (tok : Nat → Tok) (P L : Nat → Pos) (hL : LexDet env pp fuel n tok P L) :
    ((∃ r i tr, Glr.parse env pp fuel = .ok r ∧ r.getTree i = some tr) →
      ∃ f lt, tparse g t_lr (kinds n tok) f = .accept lt) ∧
    ((∃ f lt, tparse g t_lr (kinds n tok) f = .accept lt) →
      (∀ e, Glr.parse env pp fuel ≠ .err e) ∧
      ∀ r, Glr.parse env pp fuel = .ok r → r.droots.hasCut = false → ∃ i tr, r.getTree i = some tr) := by
  obtain ⟨hC, hW⟩ := Cert.completeRN_sound _ _ hcomp
  have hT := tableOk_of_cert env hcert
  constructor
  · rintro ⟨r, i, tr, hr, hi⟩
    obtain ⟨hve, hy⟩ := parse_trees hT hC hW hL hr hi
    obtain ⟨full, hv, hfy, _⟩ := Tree.complete_elided env.g tr _ hve
    rw [hg] at hv
    exact (C01_lr_accepts_exactly g t_lr hlr _ (kinds_ne_zero hL)).mpr
      ⟨full, hv, by rw [hfy, hy, kinds_eq]⟩
  · rintro ⟨f, lt, hlt⟩
    obtain ⟨hv, hy⟩ := C01_accepted_is_sentence g t_lr hlr _ (kinds_ne_zero hL) f lt hlt
    rw [← hg] at hv
    obtain ⟨h1, h2⟩ := C03_engine_complete env hcert hcomp pp fuel n tok P L hL lt hv hy
    refine ⟨h1, ?_⟩
    intro r hr hc
    obtain ⟨i, tr, hi, _⟩ := h2 r hr hc
    exact ⟨i, tr, hi⟩

/-- **Every tree of the GLR forest is the LR tree modulo elision.**  If the LR machine accepts the token string with
    tree `lt`, then every tree `tr` that any index of any forest returned by the GLR parser gives is equal to `lt` up
    to decorations and trailing children of empty yield (`Tree.EqElide lt tr`): same productions, same token kinds, in
    the same shape, except for right ends elided by right-nulled reductions.  (Uniqueness of the derivation tree of a
    certified deterministic grammar + engine soundness + "the leaves of a GLR tree are the whole token string".) -/
theorem C07_glr_trees_are_elisions_of_the_lr_tree (g : Grammar) (t_lr : Table) (hlr : certC01 g t_lr = true)
    (env : Env) (hg : env.g = g) (hcert : Cert.glr env.g env.t = true) (hcomp : Cert.completeRN env.g env.t = true)
    (pp : Bool) (fuel n : Nat) (tok : Nat → Tok) (P L : Nat → Pos) (hL : LexDet env pp fuel n tok P L)
    (f : Nat) (lt : Tree) (hlt : tparse g t_lr (kinds n tok) f = .accept lt)
    (r : GlrResult) (hr : Glr.parse env pp fuel = .ok r) (i : Nat) (tr : Tree) (hi : r.getTree i = some tr) :
    Tree.EqElide lt tr := by
  obtain ⟨hC, hW⟩ := Cert.completeRN_sound _ _ hcomp
  have hT := tableOk_of_cert env hcert
  obtain ⟨hve, hy⟩ := parse_trees hT hC hW hL hr hi
  obtain ⟨full, hv, hfy, hel⟩ := Tree.complete_elided env.g tr _ hve
  rw [hg] at hv
  have := C07_lr_tree_is_the_unique_derivation g t_lr hlr _ f lt hlt full hv (by rw [hfy, hy, kinds_eq])
  rw [← this]
  exact Tree.eqElide_plain full tr (Tree.eqElide_of_elidedFrom full tr hel)

/-- hence any two trees of GLR forests of one input are equal modulo elision to ONE full derivation tree (the forest
    holds one derivation; that it holds it ONCE is C03's no-duplicates statement, not proved) -/
theorem C07_glr_trees_share_the_lr_tree (g : Grammar) (t_lr : Table) (hlr : certC01 g t_lr = true)
    (env : Env) (hg : env.g = g) (hcert : Cert.glr env.g env.t = true) (hcomp : Cert.completeRN env.g env.t = true)
    (pp : Bool) (fuel n : Nat) (tok : Nat → Tok) (P L : Nat → Pos) (hL : LexDet env pp fuel n tok P L)
    (r : GlrResult) (hr : Glr.parse env pp fuel = .ok r) (i j : Nat) (ti tj : Tree)
    (hi : r.getTree i = some ti) (hj : r.getTree j = some tj) :
    ∃ lt : Tree, lt.Valid g g.startIdx ∧ lt.yield = kinds n tok ∧ Tree.EqElide lt ti ∧ Tree.EqElide lt tj := by
  obtain ⟨f, lt, hlt⟩ := (C07_glr_accepts_iff_lr_accepts g t_lr hlr env hg hcert hcomp pp fuel n tok P L hL).1
    ⟨r, i, ti, hr, hi⟩
  obtain ⟨hv, hy⟩ := C01_accepted_is_sentence g t_lr hlr _ (kinds_ne_zero hL) f lt hlt
  exact ⟨lt, hv, hy,
    C07_glr_trees_are_elisions_of_the_lr_tree g t_lr hlr env hg hcert hcomp pp fuel n tok P L hL f lt hlt r hr i ti hi,
    C07_glr_trees_are_elisions_of_the_lr_tree g t_lr hlr env hg hcert hcomp pp fuel n tok P L hL f lt hlt r hr j tj hj⟩

/-! ### non-vacuity: `S: A S | EMPTY; A: 'a'` with the two tables the real compiler builds (LALR_PAGER for LR, LALR_RN
    for GLR; `Proofs/GlrExampleDet.lean`), input `aa` -/

/-- the two-table hypothesis holds: one grammar, `certC01` of the LR table, `Cert.glr ∧ Cert.completeRN` of the RN
    table (which differs: `reduce 1 1` on STOP in state 1) -/
example : certC01 ExampleDet.g ExampleDet.tLR = true ∧ Cert.glr ExampleDet.g ExampleDet.tRN = true ∧
    Cert.completeRN ExampleDet.g ExampleDet.tRN = true ∧
    (ExampleDet.tLR.cell 1 0).length = 1 ∧ (ExampleDet.tRN.cell 1 0).length = 2 := by
  decide +kernel

/-- `LexDet` holds of the GLR run on `aa`; the token kinds are `[1, 1]` -/
example : LexDet (ExampleDet.env 2) false 9 2 Example.tok Example.pos Example.pos ∧ kinds 2 Example.tok = [1, 1] :=
  ⟨ExampleDet.lexDet_aa, by decide⟩

/-- the LR machine accepts `[1, 1]` … -/
example : (match tparse ExampleDet.g ExampleDet.tLR [1, 1] 20 with
    | .accept _ => true
    | _ => false) = true := by decide +kernel

/-- … the GLR parser returns a forest with a tree (solutions = 1) … -/
example : Example.solutionsOf (Glr.parse (ExampleDet.env 2) false 9) = some 1 := by decide +kernel

/-- … and both theorems apply to this run. -/
example := C07_glr_accepts_iff_lr_accepts ExampleDet.g ExampleDet.tLR (by decide +kernel) (ExampleDet.env 2) rfl
  (by decide +kernel) (by decide +kernel) false 9 2 Example.tok Example.pos Example.pos ExampleDet.lexDet_aa

end Rustemo.Props.C07
