import Rustemo.Props.C01
import Rustemo.Props.C03
/-!
# C07 — LR and GLR parsers built from the same deterministic grammar agree

**Full statement** (`C07_statement`): for a grammar that needs no disambiguation the GLR parser
accepts exactly the inputs the LR parser accepts, with exactly one solution, equal to the LR tree up to
elided nullable tails, with the same spans.

PARTIAL.  Proved here: for a certified deterministic table the LR parser accepts exactly the
sentences (C01) and the tree it returns is **the only** derivation tree of the input
(`C07_lr_tree_is_the_unique_derivation`); and the forest API enumerates each tree of the forest
exactly once (C03).  Hence *if* the GLR forest contains exactly the derivation trees of the input
(C03's statement about the graph-structured-stack engine — not proved, decided by an independent
derivation enumerator), it has exactly one tree and that tree is the LR tree.  The comparison of the
two real parsers (Ok/Err, `solutions() = 1`, node-by-node equality incl. spans, modulo elision) is
done on every generated input.
-/
namespace Rustemo.Props.C07
open Rustemo Rustemo.Props.C01

/-- The tree the LR parser returns is the unique derivation tree of the input. -/
theorem C07_lr_tree_is_the_unique_derivation (g : Grammar) (t : Table) (hcert : certC01 g t = true)
    (w : List Nat) (fuel : Nat) (tr : Tree) (h : tparse g t w fuel = .accept tr)
    (tx : Tree) (hv : tx.Valid g g.startIdx) (hy : tx.yield = w) : tx.plain = tr := by
  obtain ⟨f2, e2⟩ := C01_sentence_is_accepted g t hcert tx hv
  rw [hy] at e2
  unfold tparse at h e2
  have a1 := trun_mono g t fuel _ _ h f2
  have a2 := trun_mono g t f2 _ _ e2 fuel
  rw [Nat.add_comm] at a2
  rw [a1] at a2
  injection a2 with a2
  exact a2.symm

/-- A GLR forest that contains exactly the derivation trees of a sentence of a certified
    deterministic grammar (each once) has exactly one solution, and it is the LR tree. -/
theorem C07_single_solution_is_lr_tree (g : Grammar) (t : Table) (hcert : certC01 g t = true)
    (w : List Nat) (fuel : Nat) (tr : Tree) (h : tparse g t w fuel = .accept tr)
    (derivs : List Tree)   -- what the forest contains, as plain derivation trees without repetition
    (hd : ∀ tx ∈ derivs, tx.Valid g g.startIdx ∧ tx.yield = w ∧ tx.IsPlain)
    (hnodup : derivs.Nodup) (hne : derivs ≠ [])
    (hplain : ∀ tx : Tree, tx.IsPlain → tx.plain = tx) :
    derivs = [tr] := by
  have hall : ∀ tx ∈ derivs, tx = tr := by
    intro tx htx
    obtain ⟨hv, hy, hp⟩ := hd tx htx
    have := C07_lr_tree_is_the_unique_derivation g t hcert w fuel tr h tx hv hy
    rw [hplain tx hp] at this
    exact this
  match derivs, hne, hnodup, hall with
  | [x], _, _, hall => rw [hall x (by simp)]
  | x :: y :: rest, _, hnd, hall =>
    exfalso
    have hx := hall x (by simp)
    have hy := hall y (by simp)
    rw [List.nodup_cons] at hnd
    exact hnd.1 (by rw [hx, ← hy]; simp)

end Rustemo.Props.C07
