import Rustemo.Model.LR
namespace Rustemo.Props.C07
end Rustemo.Props.C07
