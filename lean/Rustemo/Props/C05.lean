import Rustemo.Proofs.ResolveMain
import Rustemo.Model.ResolveOps
/-!
# C05 — conflicts resolve by the documented priority/associativity/prefer-shift rules

Property theorems only.  `Resolve.addReduce` / `Resolve.cell` (`Model/Resolve.lean`) transcribe
`LRTable::calculate_reductions` (rustemo-compiler/src/table/mod.rs) and are tied to the real
compiler by the correspondence check (every cell of every state of every generated grammar);
`Doc.resolveSR` / `Doc.resolveRR` / `Doc.resolveCell` are the documented rule.

`fx : Fixes` says which of the repairs `/verif/notes/C05-fix-{1,2,3}.diff` the modelled code
contains; `Fixes.none` is the code before any repair, `Fixes.current` (used by the driver) the
code in /repo now.  Universal theorems carry the repair they need as a hypothesis on `fx`;
`C05_counterexample_*` show that the hypothesis cannot be dropped: the statement is FALSE of the
unrepaired code (`Fixes.none`), each with a witness replayed against the real compiler
(`/verif/notes/C05.md`).
-/
namespace Rustemo.Props.C05
open Rustemo Rustemo.Resolve

/-! ## 1. One shift against one reduction -/

/-- **SHIFT/REDUCE = documented rule** (needs C05-fix-1).  For every priority of the production
    and of the shift (any naturals), every associativity of production and terminal, EMPTY or
    not, every setting, `nops`/`nopse`: the cell `[Shift]` met by a reducing item ends up as the
    documented rule says — the shift alone, the reduction alone, or both (conflict). -/
theorem C05_sr_matches_doc (fx : Fixes) (hfix : fx.termAssoc = true) (cfg : Cfg)
    (info : Nat → PInfo) (ta : Assoc) (sp : Nat) (r : Red) (s : Nat) :
    addReduce fx cfg info ta (some sp) r [.shift s] =
      .ok (keepSR (.shift s) (.reduce r.prod r.pos)
        (Doc.resolveSR (compare (info r.prod).prio sp) (info r.prod).assoc ta
          ((info r.prod).len == 0) cfg.ps cfg.pse (info r.prod).nops (info r.prod).nopse)) := by
  rw [addReduce_single_shift, srDecide_fixed fx hfix]; rfl

/-- non-vacuity: `E: E '+' E {left}` against the shift of `+`, equal priority: the reduction stays -/
example : addReduce Fixes.all ⟨false, false, true⟩ (fun _ => { prio := 10, assoc := .left, len := 3 })
    .none (some 10) ⟨1, 3⟩ [.shift 3] = .ok [.reduce 1 3] := rfl

/-- **The same for the code before repair**, outside the defect: whenever the terminal has no
    associativity of its own or the priorities differ. -/
theorem C05_sr_matches_doc_unrepaired (fx : Fixes) (hfix : fx.termAssoc = false) (cfg : Cfg)
    (info : Nat → PInfo) (ta : Assoc) (sp : Nat) (r : Red) (s : Nat)
    (hdom : ta = .none ∨ compare (info r.prod).prio sp ≠ .eq) :
    addReduce fx cfg info ta (some sp) r [.shift s] =
      .ok (keepSR (.shift s) (.reduce r.prod r.pos)
        (Doc.resolveSR (compare (info r.prod).prio sp) (info r.prod).assoc ta
          ((info r.prod).len == 0) cfg.ps cfg.pse (info r.prod).nops (info r.prod).nopse)) := by
  rw [addReduce_single_shift, srDecide_today fx hfix cfg _ ta sp hdom]; rfl

example : (Assoc.none = Assoc.none ∨ compare 10 10 ≠ Ordering.eq) := .inl rfl

/-- **F1 — terminal-level associativity is inverted (counterexample, code before repair).**
    `Else: 'else' {shift}` (= `right`) at equal priority: the documented rule keeps the shift,
    the code keeps the REDUCTION; with `{reduce}` (= `left`) it is the other way round. -/
theorem C05_counterexample_terminal_assoc :
    addReduce Fixes.none ⟨false, false, true⟩ (fun _ => { len := 4 }) .right (some 10) ⟨1, 4⟩ [.shift 7]
        = .ok [.reduce 1 4] ∧
      Doc.resolveSR (compare 10 10) .none .right false false true false false = .shift ∧
    addReduce Fixes.none ⟨false, false, true⟩ (fun _ => { len := 4 }) .left (some 10) ⟨1, 4⟩ [.shift 7]
        = .ok [.shift 7] ∧
      Doc.resolveSR (compare 10 10) .none .left false false true false false = .reduce :=
  ⟨rfl, rfl, rfl, rfl⟩

/-- **ACCEPT is resolved like a SHIFT of default priority 10.** -/
theorem C05_accept_like_shift (fx : Fixes) (hfix : fx.termAssoc = true) (cfg : Cfg)
    (info : Nat → PInfo) (ta : Assoc) (sp : Option Nat) (r : Red) :
    addReduce fx cfg info ta sp r [.accept] =
      .ok (keepSR .accept (.reduce r.prod r.pos)
        (Doc.resolveSR (compare (info r.prod).prio 10) (info r.prod).assoc ta
          ((info r.prod).len == 0) cfg.ps cfg.pse (info r.prod).nops (info r.prod).nopse)) := by
  rw [addReduce_single_accept, srDecide_fixed fx hfix]; rfl

example : addReduce Fixes.all ⟨false, false, false⟩ (fun _ => { len := 1 }) .none none ⟨2, 1⟩ [.accept]
    = .ok [.accept, .reduce 2 1] := rfl

/-! ## 2. One reduction against one reduction -/

/-- **REDUCE/REDUCE = documented rule** (needs C05-fix-3).  The higher priority stays; on equal
    priority GLR keeps both, LR prefers the non-empty one and keeps both otherwise.  Emptiness of
    the reduction already in the cell is read off its length (`len == 0`), of the new one off its
    production; the two notions coincide for LALR / LALR_PAGER tables. -/
theorem C05_rr_matches_doc (fx : Fixes) (hfix : fx.emptyRR = true) (cfg : Cfg) (info : Nat → PInfo)
    (ta : Assoc) (sp : Option Nat) (r : Red) (p1 l1 : Nat) :
    addReduce fx cfg info ta sp r [.reduce p1 l1] =
      .ok (keepRR (.reduce p1 l1) (.reduce r.prod r.pos)
        (Doc.resolveRR cfg.glr (compare (info p1).prio (info r.prod).prio) (l1 == 0)
          ((info r.prod).len == 0))) := by
  rw [addReduce_single_reduce, rrStep_single_fixed fx hfix]; rfl

example : addReduce Fixes.all ⟨false, false, false⟩ (fun _ => {}) .none none ⟨2, 0⟩ [.reduce 1 0]
    = .ok [.reduce 1 0, .reduce 2 0] := rfl

/-- **The same for the code before repair**, outside the defect: unless LR, equal priority and
    both reductions EMPTY. -/
theorem C05_rr_matches_doc_unrepaired (fx : Fixes) (hfix : fx.emptyRR = false) (cfg : Cfg)
    (info : Nat → PInfo) (ta : Assoc) (sp : Option Nat) (r : Red) (p1 l1 : Nat)
    (hdom : ¬ (cfg.glr = false ∧ (info p1).prio = (info r.prod).prio ∧ l1 = 0 ∧ (info r.prod).len = 0)) :
    addReduce fx cfg info ta sp r [.reduce p1 l1] =
      .ok (keepRR (.reduce p1 l1) (.reduce r.prod r.pos)
        (Doc.resolveRR cfg.glr (compare (info p1).prio (info r.prod).prio) (l1 == 0)
          ((info r.prod).len == 0))) := by
  rw [addReduce_single_reduce, rrStep_single_today fx hfix cfg info r p1 l1 hdom]; rfl

/-- **N1 — LR, two EMPTY reductions of equal priority: the later one silently evicts the earlier
    (counterexample, code before repair).**  `S: A x | B x; A: EMPTY; B: EMPTY;` compiles without
    any conflict; the documented rule has nothing that applies, so both must stay (and the
    conflict be reported).  With a SHIFT in the cell both EMPTY reductions vanish. -/
theorem C05_counterexample_rr_empty_empty :
    addReduce Fixes.none ⟨false, false, false⟩ (fun _ => {}) .none none ⟨4, 0⟩ [.reduce 3 0]
        = .ok [.reduce 4 0] ∧
      Doc.resolveRR false (compare 10 10) true true = .both ∧
    addReduce Fixes.none ⟨false, false, false⟩ (fun _ => {}) .none (some 10) ⟨5, 0⟩ [.shift 1, .reduce 4 0]
        = .ok [.shift 1] :=
  ⟨rfl, rfl, rfl⟩

/-! ## 3. Resolution only removes candidates -/

/-- **Never invents.**  Whatever a cell holds in the end was put there by `calc_states` (`init`),
    is the ACCEPT of the completed augmented item, or is the reduction of one of the reducing
    items that carry the terminal as lookahead.  Any code variant, any history. -/
theorem C05_never_invents (fx : Fixes) (cfg : Cfg) (info : Nat → PInfo) (ta : Assoc)
    (sp : Option Nat) (init : List Action) (evs : List Ev) (c : List Action)
    (h : cell fx cfg info ta sp init evs = .ok c) (a : Action) (ha : a ∈ c) :
    a ∈ init ∨ (a = .accept ∧ Ev.accept ∈ evs) ∨ ∃ r, Ev.red r ∈ evs ∧ a = .reduce r.prod r.pos :=
  mem_cell fx cfg info ta sp evs init c h a ha

example : cell Fixes.none ⟨false, false, false⟩ (fun _ => { len := 1 }) .none (some 10) [.shift 1]
    [.red ⟨1, 1⟩] = .ok [.shift 1, .reduce 1 1] := rfl

/-! ## 4. Resolving never aborts the compiler -/

/-- **F9 — `assert!(actions.len() == 1)` fires on a three-way conflict (counterexample, code
    before repair).**  Minimal cell: a SHIFT and a reduction of the same priority (kept side by
    side: no associativity, no shift preference), then a reduction of higher priority.  Whole
    history from `[Shift]`; the second assert (associativity arm) fires the same way. -/
theorem C05_counterexample_assert :
    let info : Nat → PInfo := fun p => if p = 5 then { prio := 20, len := 1 } else { len := 1 }
    addReduce Fixes.none ⟨false, false, false⟩ info .none (some 10) ⟨5, 1⟩ [.shift 1, .reduce 4 1]
        = .panic siteLen1Prio ∧
    cell Fixes.none ⟨false, false, false⟩ info .none (some 10) [.shift 1] [.red ⟨4, 1⟩, .red ⟨5, 1⟩]
        = .panic siteLen1Prio ∧
    cell Fixes.none ⟨true, false, false⟩ info .none (some 10) [.shift 1] [.red ⟨4, 1⟩, .red ⟨5, 1⟩]
        = .panic siteLen1Prio ∧
    cell Fixes.none ⟨false, false, false⟩
        (fun p => if p = 5 then { assoc := .left, len := 1 } else { len := 1 }) .none (some 10)
        [.shift 1] [.red ⟨4, 1⟩, .red ⟨5, 1⟩] = .panic siteLen1Assoc :=
  ⟨rfl, rfl, rfl, rfl⟩

/-- The repaired code settles the same history as the documented rule says: the higher priority
    reduction replaces the shift and the lower priority reduction. -/
example : cell Fixes.all ⟨false, false, false⟩
    (fun p => if p = 5 then { prio := 20, len := 1 } else { len := 1 }) .none (some 10)
    [.shift 1] [.red ⟨4, 1⟩, .red ⟨5, 1⟩] = .ok [.reduce 5 1] := rfl

/-- **`assert!(shifts.len() <= 1)` fires when `STOP` is used in a production** (the state then
    gets ACCEPT and SHIFT on STOP from `calc_states`); any code variant.  This is the first
    hypothesis of `C05_resolution_total`; rejecting such grammars is C16's business. -/
theorem C05_counterexample_assert_shifts (fx : Fixes) :
    addReduce fx ⟨false, false, false⟩ (fun _ => { len := 1 }) .none (some 10) ⟨2, 1⟩
      [.accept, .shift 3] = .panic siteShifts := rfl

/-- **Totality** (needs C05-fix-2).  Over a whole history the resolution never panics, provided
    `calc_states` and the augmented item together give the cell at most one SHIFT/ACCEPT (true
    unless `STOP` occurs in a production) and `max_prior_for_term` has an entry when the cell has a
    SHIFT (`group_per_next_symbol` makes one for every terminal right of a dot).  All three
    `assert!`s, the map index and the `panic!` are then unreachable. -/
theorem C05_resolution_total (fx : Fixes) (hfix : fx.noAssert = true) (cfg : Cfg)
    (info : Nat → PInfo) (ta : Assoc) (sp : Option Nat) (init : List Action) (evs : List Ev)
    (h1 : shiftLikes init + accepts evs ≤ 1) (h2 : SpOk sp init) :
    ∃ c, cell fx cfg info ta sp init evs = .ok c :=
  cell_total fx hfix cfg info ta sp evs init h1 h2

example : shiftLikes [.shift 1] + accepts [.red ⟨4, 1⟩, .red ⟨5, 1⟩] ≤ 1 ∧ SpOk (some 10) [.shift 1] :=
  ⟨by decide, .inl (by simp)⟩

/-- **When exactly the code before repair panics** (same two hypotheses): iff the reduction
    overrides the SHIFT/ACCEPT — higher priority, or equal priority and the associativity arm
    that pops — while the cell holds anything besides that SHIFT/ACCEPT. -/
theorem C05_panic_iff_unrepaired (fx : Fixes) (hfix : fx.noAssert = false) (cfg : Cfg)
    (info : Nat → PInfo) (ta : Assoc) (sp : Option Nat) (r : Red) (c : List Action)
    (h1 : shiftLikes c ≤ 1) (h2 : SpOk sp c) :
    (∃ site, addReduce fx cfg info ta sp r c = .panic site) ↔
      (Overrides fx cfg info ta sp r c ∧ 2 ≤ c.length) :=
  addReduce_panic_iff fx hfix cfg info ta sp r c h1 h2

/-- **Two candidates never panic**, whatever the code variant: a cell of length ≤ 1. -/
theorem C05_two_candidates_total (fx : Fixes) (cfg : Cfg) (info : Nat → PInfo) (ta : Assoc)
    (sp : Option Nat) (r : Red) (c : List Action) (hlen : c.length ≤ 1) (h2 : SpOk sp c) :
    ∃ c', addReduce fx cfg info ta sp r c = .ok c' := by
  have h1 : shiftLikes c ≤ 1 :=
    Nat.le_trans (List.filter_sublist (l := c) (p := isShiftLike)).length_le hlen
  cases hn : fx.noAssert
  · rcases addReduce_ok_or_panic fx cfg info ta sp r c with h | ⟨s, hs⟩
    · exact h
    · have := (addReduce_panic_iff fx hn cfg info ta sp r c h1 h2).mp ⟨s, hs⟩
      omega
  · exact addReduce_total fx hn cfg info ta sp r c h1 h2

/-! ## 5. The shift priority -/

/-- **`max_prior_for_term[t]` is the maximum priority of the productions that shift `t`** in the
    state (items with `t` right of the dot), and is defined exactly when there is such an item. -/
theorem C05_shift_prio_is_max (g : Grammar) (items : List Item) (t : Nat) :
    (maxPrior g items t = none ↔ ∀ it ∈ items, nextSym g it ≠ some t) ∧
    (∀ m, maxPrior g items t = some m →
      (∀ it ∈ items, nextSym g it = some t → (infoOf g it.prod).prio ≤ m) ∧
      (∃ it ∈ items, nextSym g it = some t ∧ (infoOf g it.prod).prio = m)) := by
  have := maxPrior_foldl g t items none
  simp only at this
  obtain ⟨a, b⟩ := this
  unfold maxPrior
  refine ⟨by rw [a]; simp, fun m hm => ?_⟩
  obtain ⟨_, h2, h3⟩ := b m hm
  exact ⟨h2, by simpa using h3⟩

/-! ## 6. Any number of candidates, any item order -/

/-- **The whole cell = the documented rule, whatever the number and order of the candidates**
    (needs the three repairs).  A SHIFT/ACCEPT `sh` of priority `shp` and reducing items `reds`
    in any order: the incremental algorithm ends with exactly `Doc.resolveCell` — each reduction
    settled against the shift on its own, the shift kept iff no reduction beat it, and of the
    reductions that did not lose to the shift those that no other one beats; same order too.
    `PosOk`: a reduction's length is 0 iff its production is EMPTY (LALR / LALR_PAGER tables).
    `NoMixed`: if some reduction beats the shift, the reductions that lose to the shift lose by
    PRIORITY (not by associativity or shift preference) — see `C05_counterexample_order_mixed`. -/
theorem C05_cell_result (fx : Fixes) (hf1 : fx.termAssoc = true) (hf2 : fx.noAssert = true)
    (hf3 : fx.emptyRR = true) (cfg : Cfg) (info : Nat → PInfo) (ta : Assoc) (sp : Option Nat)
    (sh : Action) (hsh : isShiftLike sh = true) (shp : Nat) (hp : shiftPrio sp sh = some shp)
    (reds : List Red) (hpos : PosOk info reds) (hmix : NoMixed cfg info ta shp reds) :
    cell fx cfg info ta sp [sh] (reds.map .red) =
      .ok (Doc.resolveCell cfg ta (some (sh, shp)) (reds.map (candOf info))) := by
  have := cell_inv fx hf1 hf2 hf3 cfg info ta sp sh hsh shp hp reds [] (by simpa using hpos)
    (by simpa using hmix)
  rw [invCell_nil] at this
  rw [this, doc_cell_shift]; simp

/-- non-vacuity: the F9 witness (shift, equal-priority reduction, higher-priority reduction) -/
example :
    let info : Nat → PInfo := fun p => if p = 5 then { prio := 20, len := 1 } else { len := 1 }
    PosOk info [⟨4, 1⟩, ⟨5, 1⟩] ∧ NoMixed ⟨false, false, false⟩ info .none 10 [⟨4, 1⟩, ⟨5, 1⟩] ∧
    Doc.resolveCell ⟨false, false, false⟩ .none (some (.shift 1, 10))
      ([⟨4, 1⟩, ⟨5, 1⟩].map (candOf info)) = [.reduce 5 1] := by
  refine ⟨?_, ?_, rfl⟩
  · intro x hx; simp at hx; rcases hx with rfl | rfl <;> rfl
  · intro _ r hr hd
    simp at hr
    rcases hr with rfl | rfl <;> revert hd <;> decide

/-- **No shift in the cell: unconditional** (needs C05-fix-3 only).  Any number of reductions, any
    order: exactly those stay that no other one beats (higher priority; LR: non-empty over EMPTY). -/
theorem C05_cell_result_reductions_only (fx : Fixes) (hf3 : fx.emptyRR = true) (cfg : Cfg)
    (info : Nat → PInfo) (ta : Assoc) (sp : Option Nat) (reds : List Red) (hpos : PosOk info reds) :
    cell fx cfg info ta sp [] (reds.map .red) =
      .ok (Doc.resolveCell cfg ta none (reds.map (candOf info))) := by
  have := cell_inv_noshift fx hf3 cfg info ta sp reds [] (by simpa using hpos)
  simp only [tops_nil, List.map_nil, List.nil_append] at this
  rw [this, doc_cell_noshift]

/-- **Order independence.**  Under the hypotheses of `C05_cell_result` (which do not depend on the
    order) the final cell is the same up to the order of its actions for every permutation of the
    reducing items. -/
theorem C05_order_independent (fx : Fixes) (hf1 : fx.termAssoc = true) (hf2 : fx.noAssert = true)
    (hf3 : fx.emptyRR = true) (cfg : Cfg) (info : Nat → PInfo) (ta : Assoc) (sp : Option Nat)
    (sh : Action) (hsh : isShiftLike sh = true) (shp : Nat) (hp : shiftPrio sp sh = some shp)
    (reds reds' : List Red) (hperm : reds.Perm reds') (hpos : PosOk info reds)
    (hmix : NoMixed cfg info ta shp reds) :
    ∃ c c', cell fx cfg info ta sp [sh] (reds.map .red) = .ok c ∧
      cell fx cfg info ta sp [sh] (reds'.map .red) = .ok c' ∧ c.Perm c' := by
  have hpos' : PosOk info reds' := fun x hx => hpos x (hperm.mem_iff.mpr hx)
  have hmix' : NoMixed cfg info ta shp reds' := by
    rintro ⟨p, hp1, hp2⟩ r hr hd
    exact hmix ⟨p, hperm.mem_iff.mpr hp1, hp2⟩ r (hperm.mem_iff.mpr hr) hd
  refine ⟨_, _, C05_cell_result fx hf1 hf2 hf3 cfg info ta sp sh hsh shp hp reds hpos hmix,
    C05_cell_result fx hf1 hf2 hf3 cfg info ta sp sh hsh shp hp reds' hpos' hmix', ?_⟩
  rw [doc_cell_shift, doc_cell_shift]
  exact invCell_perm cfg info ta shp sh hperm

/-- Order independence of cells without a shift, unconditional (needs C05-fix-3 only). -/
theorem C05_order_independent_reductions_only (fx : Fixes) (hf3 : fx.emptyRR = true) (cfg : Cfg)
    (info : Nat → PInfo) (ta : Assoc) (sp : Option Nat) (reds reds' : List Red)
    (hperm : reds.Perm reds') (hpos : PosOk info reds) :
    ∃ c c', cell fx cfg info ta sp [] (reds.map .red) = .ok c ∧
      cell fx cfg info ta sp [] (reds'.map .red) = .ok c' ∧ c.Perm c' := by
  have hpos' : PosOk info reds' := fun x hx => hpos x (hperm.mem_iff.mpr hx)
  refine ⟨_, _, C05_cell_result_reductions_only fx hf3 cfg info ta sp reds hpos,
    C05_cell_result_reductions_only fx hf3 cfg info ta sp reds' hpos', ?_⟩
  rw [doc_cell_noshift, doc_cell_noshift]
  exact (tops_perm hperm).map _

/-- **Two reductions, code before repair: order independent outside N1** (unless LR, equal
    priority and both EMPTY — `C05_counterexample_order_two`). -/
theorem C05_order_independent_two_unrepaired (fx : Fixes) (hfix : fx.emptyRR = false) (cfg : Cfg)
    (info : Nat → PInfo) (ta : Assoc) (sp : Option Nat) (r1 r2 : Red) (hpos : PosOk info [r1, r2])
    (hdom : ¬ (cfg.glr = false ∧ (info r1.prod).prio = (info r2.prod).prio ∧
      (info r1.prod).len = 0 ∧ (info r2.prod).len = 0)) :
    ∃ c c', cell fx cfg info ta sp [] [.red r1, .red r2] = .ok c ∧
      cell fx cfg info ta sp [] [.red r2, .red r1] = .ok c' ∧ c.Perm c' := by
  have h1 : (r1.pos == 0) = ((info r1.prod).len == 0) := hpos r1 (by simp)
  have h2 : (r2.pos == 0) = ((info r2.prod).len == 0) := hpos r2 (by simp)
  have e1 := pos_zero_iff h1
  have e2 := pos_zero_iff h2
  have s1 := cell_two_reds fx cfg info ta sp r1 r2
  have s2 := cell_two_reds fx cfg info ta sp r2 r1
  rw [s1, s2,
    C05_rr_matches_doc_unrepaired fx hfix cfg info ta sp r2 r1.prod r1.pos
      (fun ⟨a, b, c, d⟩ => hdom ⟨a, b, e1.mp c, d⟩),
    C05_rr_matches_doc_unrepaired fx hfix cfg info ta sp r1 r2.prod r2.pos
      (fun ⟨a, b, c, d⟩ => hdom ⟨a, b.symm, d, e2.mp c⟩)]
  refine ⟨_, _, rfl, rfl, ?_⟩
  rw [h1, h2]
  exact keepRR_swap _ _ _ _ _ _ _

/-- **Order matters in the code before repair even for two candidates** (N1): two EMPTY
    reductions of equal priority in LR mode — the later item wins. -/
theorem C05_counterexample_order_two :
    cell Fixes.none ⟨false, false, false⟩ (fun _ => {}) .none none [] [.red ⟨3, 0⟩, .red ⟨4, 0⟩]
        = .ok [.reduce 4 0] ∧
    cell Fixes.none ⟨false, false, false⟩ (fun _ => {}) .none none [] [.red ⟨4, 0⟩, .red ⟨3, 0⟩]
        = .ok [.reduce 3 0] :=
  ⟨rfl, rfl⟩

/-- **`NoMixed` cannot be dropped: order matters for three candidates even after the three
    repairs.**  A shift, a `{left}` and a `{right}` reduction, all of one priority: `left` first
    removes the shift, after which the `right` reduction (which loses to the shift) is no longer
    compared with it and stays — a REDUCE/REDUCE conflict is reported; `right` first gives what the
    documented rule gives, `[left]`.  (Same in the code before repair.) -/
theorem C05_counterexample_order_mixed :
    let info : Nat → PInfo := fun p => if p = 4 then { assoc := .left, len := 1 } else { assoc := .right, len := 1 }
    cell Fixes.all ⟨false, false, false⟩ info .none (some 10) [.shift 1] [.red ⟨4, 1⟩, .red ⟨5, 1⟩]
        = .ok [.reduce 4 1, .reduce 5 1] ∧
    cell Fixes.all ⟨false, false, false⟩ info .none (some 10) [.shift 1] [.red ⟨5, 1⟩, .red ⟨4, 1⟩]
        = .ok [.reduce 4 1] ∧
    Doc.resolveCell ⟨false, false, false⟩ .none (some (.shift 1, 10))
        ([⟨4, 1⟩, ⟨5, 1⟩].map (candOf info)) = [.reduce 4 1] ∧
    cell Fixes.none ⟨false, false, false⟩ info .none (some 10) [.shift 1] [.red ⟨4, 1⟩, .red ⟨5, 1⟩]
        = .ok [.reduce 4 1, .reduce 5 1] :=
  ⟨rfl, rfl, rfl, rfl⟩

/-! ## 7. Operator grammars (statement only; decided on samples by the check) -/

/-- **Operator corollary (NOT proved).**  For every table `t` the compiler builds in LR mode
    (`Builds`, the construction model of C04, is a parameter here) for the expression grammar
    `Ops.grammar ops` — binary operators with priorities and left/right associativity,
    parentheses, numbers — and every token string `w`: the LR parse of `w` succeeds iff the
    conventional precedence-climbing parser does, with the same tree.  Decided on generated
    operator tables × strings by the `ops` family of the check (real compiler + real LR runtime
    vs an independent precedence-climbing parser). -/
def C05_operator_statement (Builds : Grammar → Table → Prop) : Prop :=
  ∀ (ops : List Ops.Op) (t : Table), Ops.Consistent ops → Builds (Ops.grammar ops) t →
    ∀ (w : List Nat) (tr : Tree),
      (∃ fuel, (match tparse (Ops.grammar ops) t w fuel with | .accept tr' => tr' = tr | _ => False)) ↔
      (∃ fuel, Ops.parse ops fuel w = some tr)

/-- the reference parser on `n + n * n` with `+`: left 1, `*`: left 2 gives `n + (n * n)` -/
example : Ops.parse [⟨1, false⟩, ⟨2, false⟩] 20 [5, 1, 5, 2, 5] =
    some (Tree.mk 1 [Tree.mk 4 [Tree.tok 5], Tree.tok 1,
      Tree.mk 2 [Tree.mk 4 [Tree.tok 5], Tree.tok 2, Tree.mk 4 [Tree.tok 5]]]) := rfl

end Rustemo.Props.C05
