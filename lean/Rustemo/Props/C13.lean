import Rustemo.Proofs.LexOk
import Rustemo.Proofs.LayoutRTOrder
import Rustemo.Proofs.CertSound
import Rustemo.Props.Example
/-!
# C13 — spans and positions faithfully locate every tree node in the input

`posAfter` models `str::position_after` (input.rs), `LR.parse` models `LRParser::parse`
(`Model/LR.lean`; ties: correspondence on every node's span, value and layout).
`Tree.SpanOk input t` is the property text: a token's value is the slice of the input at its span and
both ends are the positions `posOf input offset`; a nonterminal's span runs from the start of its first
child to the end of its last child; an empty nonterminal has a zero-width span.
`Pos.spec` is "line = 1 + newlines before the offset, column = bytes since the line start".

`Tree.Ordered t` (`C13_lr_spans_ordered`): at every node the children's spans, in order, are disjoint,
ascending and inside the node's span; so token spans are ordered and non-overlapping and an empty
nonterminal (zero-width by `SpanOk`) lies between the end of what precedes it and the start of what
follows it.

Not proved here (decided by oracle + correspondence only): the GLR half (see known finding F20).
-/
namespace Rustemo.Props.C13
open Rustemo

/-- `position_after` is additive over concatenation, from any starting position. -/
theorem C13_position_after_append (s u : List Nat) (p : Pos) :
    posAfter (s ++ u) p = posAfter u (posAfter s p) := posAfter_append s u p

/-- The position the runtime computes for a byte offset is the one the property prescribes:
    line = 1 + number of newlines before it, column = distance in bytes from the line start. -/
theorem C13_position_spec (input : List Nat) (off : Nat) (h : off ≤ input.length) :
    posAfter (input.take off) Pos.start = Pos.spec input off := posOf_spec input off h

theorem noShiftStop_sound (t : Table) (h : Cert.noShiftStop t = true) : NoShiftStop t := by
  intro s s' hm
  obtain ⟨st, hst, hm'⟩ := mem_cell hm
  have := forStates_spec h hst
  rw [List.all_eq_true] at this
  have := this _ hm'
  simp at this

/-- **LR spans.** For the default string lexer with any recognizers that stay inside the input
    (`RecogOk`), whitespace skipping or a Layout rule, partial parsing on or off, every input: the tree
    returned by the parser satisfies the span specification at every node. -/
theorem C13_lr_spans (env : Env) (hc : env.custom = none) (hr : RecogOk env)
    (hcert : Cert.noShiftStop env.t = true) (partialParse : Bool) (fuel : Nat) (ctx : Ctx)
    (r : ParseResult) (h : parse env partialParse fuel = (ctx, .ok r)) :
    r.tree.SpanOk env.input :=
  parse_spans env hc hr (noShiftStop_sound _ hcert) partialParse fuel ctx r h

/-- what `SpanOk` says about a token -/
theorem C13_token_value_is_slice (input : List Nat) (k : Nat) (sp : Span) (v : Slice) (l : Option Slice)
    (h : (Tree.leaf k sp v l).SpanOk input) :
    sp.s = Pos.spec input v.1 ∧ sp.e = Pos.spec input (v.1 + v.2) ∧ v.1 + v.2 ≤ input.length := by
  obtain ⟨⟨h1, h1'⟩, ⟨h2, h2'⟩, h3, h4⟩ := h
  rw [h3] at h1 h1'
  rw [h4] at h2 h2'
  exact ⟨by rw [h1, posOf_spec _ _ (by omega)], by rw [h2, posOf_spec _ _ h2'], h2'⟩

/-- what `SpanOk` says about a nonterminal -/
theorem C13_nonterminal_span (input : List Nat) (p : Nat) (sp : Span) (l : Option Slice) (cs : TreeList)
    (h : (Tree.node p sp l cs).SpanOk input) :
    (∀ f la, cs.toList.head? = some f → cs.toList.getLast? = some la →
        sp.s = f.span.s ∧ sp.e = la.span.e) ∧
    (cs.toList = [] → sp.s = sp.e) := h.2.2.2

/-- **LR spans are ordered.**  Same hypotheses as `C13_lr_spans` (default string lexer, whitespace
    skipping or a Layout rule, partial parsing on or off, every input): the returned tree is
    `Ordered` — at every node `SibAsc (spans of the children) node.start node.end`: the first child
    starts at or after the node's start, every child has start ≤ end, each child ends at or before
    the start of the next, the last ends at or before the node's end (byte offsets). -/
theorem C13_lr_spans_ordered (env : Env) (hc : env.custom = none) (hr : RecogOk env)
    (hcert : Cert.noShiftStop env.t = true) (partialParse : Bool) (fuel : Nat) (ctx : Ctx)
    (r : ParseResult) (h : parse env partialParse fuel = (ctx, .ok r)) :
    r.tree.Ordered :=
  parse_ordered env hc hr (noShiftStop_sound _ hcert) partialParse fuel ctx r h

/-- what `Ordered` says at a node -/
theorem C13_children_ordered (p : Nat) (sp : Span) (l : Option Slice) (cs : TreeList)
    (h : (Tree.node p sp l cs).Ordered) : SibAsc cs.spans sp.s.pos sp.e.pos := h.1

/-- what `SibAsc` says about two neighbours `x`, `y` among the children of a node spanning `[a, b]`:
    in particular an empty child `y` (`y.s = y.e`) lies between the end of `x` and whatever follows -/
theorem C13_neighbours (x y : Span) (rest : List Span) (a b : Nat) (h : SibAsc (x :: y :: rest) a b) :
    a ≤ x.s.pos ∧ x.s.pos ≤ x.e.pos ∧ x.e.pos ≤ y.s.pos ∧ y.s.pos ≤ y.e.pos ∧ y.e.pos ≤ b := by
  obtain ⟨h1, h2, h3, h4, h5⟩ := h
  exact ⟨h1, h2, h3, h4, SibAsc.le h5⟩

/-- non-vacuity: the hypotheses hold for a concrete run (`S: 'a' S | EMPTY` on "a a") -/
example : Example.env.custom = none ∧ Cert.noShiftStop Example.env.t = true ∧
    Example.isOk (parse Example.env false 100).2 = true := by decide

example : RecogOk Example.env := by
  intro k p l h
  unfold Example.env Example.recog at h
  simp only at h
  split at h
  · split at h
    · injection h with h; subst h
      rename_i h1 h2
      have : p < Example.input.length := by
        rcases Nat.lt_or_ge p Example.input.length with h | h
        · exact h
        · simp [List.getElem?_eq_none h] at h2
      show p + 1 ≤ Example.input.length
      omega
    · simp at h
  · split at h
    · split at h
      · injection h with h; subst h
        rename_i h1 h2 h3
        show p + 0 ≤ Example.input.length
        omega
      · simp at h
    · simp at h

end Rustemo.Props.C13
