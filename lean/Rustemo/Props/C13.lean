import Rustemo.Model.LR
namespace Rustemo.Props.C13
end Rustemo.Props.C13
