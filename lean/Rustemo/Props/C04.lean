import Rustemo.Proofs.Cover
import Rustemo.Props.Example
/-!
# C04 — the LR table is a faithful core-preserving compression of canonical LR(1)

`Canon.build` (Model/Canon.lean) is the textbook canonical LR(1) construction and is the definition
C04 refers to (trusted base).  `Cover.check` is executed by the driver on every table dumped from the
real compiler (three table types, GLR algorithm so that cells keep every candidate); the theorems
say what a passed check means.  Universality over grammars is by running the verified check on
every generated grammar, not by a theorem about rustemo's construction algorithm (that stretch
theorem, `construction_covers`, is not proved).
-/
namespace Rustemo.Props.C04
open Rustemo Cover

/-- **The certificate is sound**: a passed check establishes the property text for that table. -/
theorem C04_cover_sound (g : Grammar) (t : Table) (au : Canon.Automaton) (rel : List (Nat × Nat))
    (s0 : Nat) (rn : Bool) (h : Cover.verify g t au rel s0 rn = true) :
    FaithfulCompression g t au rel s0 rn := verify_sound g t au rel s0 rn h

/-- what the driver's `cover` command reports as `ok` is exactly a passed `verify` on the relation it
    computed against `Canon.build` -/
theorem C04_check_ok_means_verified (g : Grammar) (t : Table) (s0 aug : Nat) (rn : Bool) (fuel : Nat)
    (h : (Cover.check g t s0 aug rn fuel).ok = true) :
    ∃ rel, FaithfulCompression g t (Canon.build g aug fuel) rel s0 rn := by
  unfold Cover.check at h
  simp only at h
  split at h
  · simp at h
  · rename_i rel hrel
    split at h
    · simp at h
    · exact ⟨rel, verify_sound _ _ _ _ _ _ h⟩

/-- non-vacuity: the hand-compiled table of `S: 'a' S | EMPTY` passes against the canonical
    automaton built by `Canon.build` -/
example : (Cover.check Example.g Example.t 0 0 false 50).ok = true := by decide

end Rustemo.Props.C04
