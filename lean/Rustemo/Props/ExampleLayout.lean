import Rustemo.Model.LR
import Rustemo.Model.Cert
import Rustemo.Model.LayoutCert
import Rustemo.Props.Example
/-! Concrete Layout-rule grammars used by the non-vacuity `example`s and the counterexample theorems of
C14.  The tables are what rustemo builds (LALR_PAGER) for the grammar texts quoted in each namespace,
taken from the `verif` dump; the recognizers are written out by hand for the one input used. -/
namespace Rustemo.ExampleLayout

def isOk : Outcome ParseResult → Bool
  | .ok _ => true
  | _ => false

/-- length of the run of spaces at the head -/
def spaces : List Nat → Nat
  | 32 :: r => 1 + spaces r
  | _ => 0

def lit (input : List Nat) (pos : Nat) (bytes : List Nat) : Option Nat :=
  if (input.drop pos).take bytes.length = bytes then some bytes.length else none

end Rustemo.ExampleLayout

namespace Rustemo.ExampleLayout.Ws
open Rustemo.ExampleLayout
/-! `S: Ta S | EMPTY; Layout: LayoutItem+; LayoutItem: WS; terminals Ta: 'a'; WS: /\\s+/;` — terminals [STOP, Ta, WS]; nonterminals [EMPTY, AUG, AUGL, S, Layout, LayoutItem1, LayoutItem] -/
def g : Grammar :=
  { nterms := 3, nnonterms := 7,
    prods := #[{ lhs := 4, rhs := [6] }, { lhs := 5, rhs := [7] }, { lhs := 6, rhs := [1, 6] }, { lhs := 6, rhs := [] }, { lhs := 7, rhs := [8] }, { lhs := 8, rhs := [8, 9] }, { lhs := 8, rhs := [9] }, { lhs := 9, rhs := [2] }],
    emptyIdx := 3, augIdx := 4, auglIdx := some 5, startIdx := 6 }
def t : Table :=
  { states := #[
      { symbol := 4, items := [⟨0, 0, [0]⟩, ⟨2, 0, [0]⟩, ⟨3, 0, [0]⟩],
        actions := #[[.reduce 3 0], [.shift 1], []], gotos := #[none, none, none, some 2, none, none, none],
        sorted := [(0, true), (1, true)] },
      { symbol := 1, items := [⟨2, 1, [0]⟩, ⟨2, 0, [0]⟩, ⟨3, 0, [0]⟩],
        actions := #[[.reduce 3 0], [.shift 1], []], gotos := #[none, none, none, some 3, none, none, none],
        sorted := [(0, true), (1, true)] },
      { symbol := 6, items := [⟨0, 1, [0]⟩],
        actions := #[[.accept], [], []], gotos := #[none, none, none, none, none, none, none],
        sorted := [(0, false)] },
      { symbol := 6, items := [⟨2, 2, [0]⟩],
        actions := #[[.reduce 2 2], [], []], gotos := #[none, none, none, none, none, none, none],
        sorted := [(0, false)] },
      { symbol := 5, items := [⟨1, 0, [0]⟩, ⟨4, 0, [0]⟩, ⟨5, 0, [0, 2]⟩, ⟨6, 0, [0, 2]⟩, ⟨7, 0, [0, 2]⟩],
        actions := #[[], [], [.shift 5]], gotos := #[none, none, none, none, some 6, some 7, some 8],
        sorted := [(2, false)] },
      { symbol := 2, items := [⟨7, 1, [0, 2]⟩],
        actions := #[[.reduce 7 1], [], [.reduce 7 1]], gotos := #[none, none, none, none, none, none, none],
        sorted := [(0, true), (2, false)] },
      { symbol := 7, items := [⟨1, 1, [0]⟩],
        actions := #[[.accept], [], []], gotos := #[none, none, none, none, none, none, none],
        sorted := [(0, false)] },
      { symbol := 8, items := [⟨4, 1, [0]⟩, ⟨5, 1, [0, 2]⟩, ⟨7, 0, [0, 2]⟩],
        actions := #[[.reduce 4 1], [], [.shift 5]], gotos := #[none, none, none, none, none, none, some 9],
        sorted := [(0, true), (2, false)] },
      { symbol := 9, items := [⟨6, 1, [0, 2]⟩],
        actions := #[[.reduce 6 1], [], [.reduce 6 1]], gotos := #[none, none, none, none, none, none, none],
        sorted := [(0, true), (2, false)] },
      { symbol := 9, items := [⟨5, 2, [0, 2]⟩],
        actions := #[[.reduce 5 2], [], [.reduce 5 2]], gotos := #[none, none, none, none, none, none, none],
        sorted := [(0, true), (2, false)] }],
    layoutState := some 4 }

/-- input "a  a " -/
def input : List Nat := [97, 32, 32, 97, 32]
def recog (term pos : Nat) : Option Nat :=
  if term = 0 then (if pos = input.length then some 0 else none)
  else if term = 1 then lit input pos [97]
  else if term = 2 then (if spaces (input.drop pos) > 0 then some (spaces (input.drop pos)) else none)
  else none
def env : Env := { g := g, t := t, input := input, recog := recog, skipWs := false }

end Rustemo.ExampleLayout.Ws

namespace Rustemo.ExampleLayout.N1
open Rustemo.ExampleLayout
/-! `S: A X | C A D; A: Ta; Layout: L; terminals Ta: 'a'; X: 'x'; C: 'c'; D: '#'; L: '##';` — terminals [STOP, Ta, X, C, D, L]; nonterminals [EMPTY, AUG, AUGL, S, A, Layout].  State 1 (after `a`) carries the LALR-merged lookaheads {X, D}. -/
def g : Grammar :=
  { nterms := 6, nnonterms := 6,
    prods := #[{ lhs := 7, rhs := [9] }, { lhs := 8, rhs := [11] }, { lhs := 9, rhs := [10, 2] }, { lhs := 9, rhs := [3, 10, 4] }, { lhs := 10, rhs := [1] }, { lhs := 11, rhs := [5] }],
    emptyIdx := 6, augIdx := 7, auglIdx := some 8, startIdx := 9 }
def t : Table :=
  { states := #[
      { symbol := 7, items := [⟨0, 0, [0]⟩, ⟨2, 0, [0]⟩, ⟨3, 0, [0]⟩, ⟨4, 0, [2]⟩],
        actions := #[[], [.shift 1], [], [.shift 2], [], []], gotos := #[none, none, none, some 3, some 4, none],
        sorted := [(1, true), (3, true)] },
      { symbol := 1, items := [⟨4, 1, [2, 4]⟩],
        actions := #[[], [], [.reduce 4 1], [], [.reduce 4 1], []], gotos := #[none, none, none, none, none, none],
        sorted := [(2, true), (4, true)] },
      { symbol := 3, items := [⟨3, 1, [0]⟩, ⟨4, 0, [4]⟩],
        actions := #[[], [.shift 1], [], [], [], []], gotos := #[none, none, none, none, some 5, none],
        sorted := [(1, true)] },
      { symbol := 9, items := [⟨0, 1, [0]⟩],
        actions := #[[.accept], [], [], [], [], []], gotos := #[none, none, none, none, none, none],
        sorted := [(0, false)] },
      { symbol := 10, items := [⟨2, 1, [0]⟩],
        actions := #[[], [], [.shift 6], [], [], []], gotos := #[none, none, none, none, none, none],
        sorted := [(2, true)] },
      { symbol := 10, items := [⟨3, 2, [0]⟩],
        actions := #[[], [], [], [], [.shift 7], []], gotos := #[none, none, none, none, none, none],
        sorted := [(4, true)] },
      { symbol := 2, items := [⟨2, 2, [0]⟩],
        actions := #[[.reduce 2 2], [], [], [], [], []], gotos := #[none, none, none, none, none, none],
        sorted := [(0, false)] },
      { symbol := 4, items := [⟨3, 3, [0]⟩],
        actions := #[[.reduce 3 3], [], [], [], [], []], gotos := #[none, none, none, none, none, none],
        sorted := [(0, false)] },
      { symbol := 8, items := [⟨1, 0, [0]⟩, ⟨5, 0, [0]⟩],
        actions := #[[], [], [], [], [], [.shift 9]], gotos := #[none, none, none, none, none, some 10],
        sorted := [(5, true)] },
      { symbol := 5, items := [⟨5, 1, [0]⟩],
        actions := #[[.reduce 5 1], [], [], [], [], []], gotos := #[none, none, none, none, none, none],
        sorted := [(0, false)] },
      { symbol := 11, items := [⟨1, 1, [0]⟩],
        actions := #[[.accept], [], [], [], [], []], gotos := #[none, none, none, none, none, none],
        sorted := [(0, false)] }],
    layoutState := some 8 }

/-- input "a##x" -/
def input : List Nat := [97, 35, 35, 120]
def recog (term pos : Nat) : Option Nat :=
  if term = 0 then (if pos = input.length then some 0 else none)
  else if term = 1 then lit input pos [97]
  else if term = 2 then lit input pos [120]
  else if term = 3 then lit input pos [99]
  else if term = 4 then lit input pos [35]
  else if term = 5 then lit input pos [35, 35]
  else none
def env : Env := { g := g, t := t, input := input, recog := recog, skipWs := false }

end Rustemo.ExampleLayout.N1

namespace Rustemo.ExampleLayout.N2
open Rustemo.ExampleLayout
/-! `S: A Bopt; A: Ta; Bopt: Tb | EMPTY; Layout: LP WS RP; terminals Ta: 'a'; Tb: 'b'; LP: '('; WS: /\\s+/; RP: ')';` — terminals [STOP, Ta, Tb, LP, WS, RP]; nonterminals [EMPTY, AUG, AUGL, S, A, Bopt, Layout] -/
def g : Grammar :=
  { nterms := 6, nnonterms := 7,
    prods := #[{ lhs := 7, rhs := [9] }, { lhs := 8, rhs := [12] }, { lhs := 9, rhs := [10, 11] }, { lhs := 10, rhs := [1] }, { lhs := 11, rhs := [2] }, { lhs := 11, rhs := [] }, { lhs := 12, rhs := [3, 4, 5] }],
    emptyIdx := 6, augIdx := 7, auglIdx := some 8, startIdx := 9 }
def t : Table :=
  { states := #[
      { symbol := 7, items := [⟨0, 0, [0]⟩, ⟨2, 0, [0]⟩, ⟨3, 0, [0, 2]⟩],
        actions := #[[], [.shift 1], [], [], [], []], gotos := #[none, none, none, some 2, some 3, none, none],
        sorted := [(1, true)] },
      { symbol := 1, items := [⟨3, 1, [0, 2]⟩],
        actions := #[[.reduce 3 1], [], [.reduce 3 1], [], [], []], gotos := #[none, none, none, none, none, none, none],
        sorted := [(0, true), (2, true)] },
      { symbol := 9, items := [⟨0, 1, [0]⟩],
        actions := #[[.accept], [], [], [], [], []], gotos := #[none, none, none, none, none, none, none],
        sorted := [(0, false)] },
      { symbol := 10, items := [⟨2, 1, [0]⟩, ⟨4, 0, [0]⟩, ⟨5, 0, [0]⟩],
        actions := #[[.reduce 5 0], [], [.shift 4], [], [], []], gotos := #[none, none, none, none, none, some 5, none],
        sorted := [(0, true), (2, true)] },
      { symbol := 2, items := [⟨4, 1, [0]⟩],
        actions := #[[.reduce 4 1], [], [], [], [], []], gotos := #[none, none, none, none, none, none, none],
        sorted := [(0, false)] },
      { symbol := 11, items := [⟨2, 2, [0]⟩],
        actions := #[[.reduce 2 2], [], [], [], [], []], gotos := #[none, none, none, none, none, none, none],
        sorted := [(0, false)] },
      { symbol := 8, items := [⟨1, 0, [0]⟩, ⟨6, 0, [0]⟩],
        actions := #[[], [], [], [.shift 7], [], []], gotos := #[none, none, none, none, none, none, some 8],
        sorted := [(3, true)] },
      { symbol := 3, items := [⟨6, 1, [0]⟩],
        actions := #[[], [], [], [], [.shift 9], []], gotos := #[none, none, none, none, none, none, none],
        sorted := [(4, false)] },
      { symbol := 12, items := [⟨1, 1, [0]⟩],
        actions := #[[.accept], [], [], [], [], []], gotos := #[none, none, none, none, none, none, none],
        sorted := [(0, false)] },
      { symbol := 4, items := [⟨6, 2, [0]⟩],
        actions := #[[], [], [], [], [], [.shift 10]], gotos := #[none, none, none, none, none, none, none],
        sorted := [(5, true)] },
      { symbol := 5, items := [⟨6, 3, [0]⟩],
        actions := #[[.reduce 6 3], [], [], [], [], []], gotos := #[none, none, none, none, none, none, none],
        sorted := [(0, false)] }],
    layoutState := some 6 }

/-- input "a( b" -/
def input : List Nat := [97, 40, 32, 98]
def recog (term pos : Nat) : Option Nat :=
  if term = 0 then (if pos = input.length then some 0 else none)
  else if term = 1 then lit input pos [97]
  else if term = 2 then lit input pos [98]
  else if term = 3 then lit input pos [40]
  else if term = 4 then (if spaces (input.drop pos) > 0 then some (spaces (input.drop pos)) else none)
  else if term = 5 then lit input pos [41]
  else none
def env : Env := { g := g, t := t, input := input, recog := recog, skipWs := false }

end Rustemo.ExampleLayout.N2

namespace Rustemo.ExampleLayout.Ins
/-! The grammar of `Props/Example.lean` (`S: 'a' S | EMPTY`, default whitespace skipping) on two inputs
with the same tokens and different whitespace: "a a" and "a  a ". -/

/-- the recognizers of `Example.recog` for an arbitrary input -/
def recogA (inp : List Nat) (term pos : Nat) : Option Nat :=
  if term = 1 then (if inp[pos]? = some 97 then some 1 else none)
  else if term = 0 then (if pos = inp.length then some 0 else none)
  else none

def input2 : List Nat := [97, 32, 32, 97, 32]
def env1 : Env := { Example.env with recog := recogA Example.input }
def env2 : Env := { Example.env with input := input2, recog := recogA input2 }

/-- offsets at which the lexer looks for tokens: start of the first `a`, of the second, end -/
def R (p q : Nat) : Prop := (p = 0 ∧ q = 0) ∨ (p = 2 ∧ q = 3) ∨ (p = 3 ∧ q = 5)

end Rustemo.ExampleLayout.Ins
