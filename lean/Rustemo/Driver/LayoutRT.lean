import Rustemo.Model.Dump
import Rustemo.Model.Print
import Rustemo.Model.LayoutCert
import Rustemo.Model.CertTerm
/-!
Driver command `layoutcert` (property C14, Layout-rule round trip).

  layoutcert <input-hex> #<matrix>
      → layoutcert none                                        the loaded table has no Layout rule
      → layoutcert ls=<state> auto=<b> static=<b> nottoken=<b> idem=<b> failstays=<b> old=<b>

`auto` is `LayoutCert.autoOk`, the only hypothesis of `C14_roundtrip_layout` besides the table
certificates (a property of the table; the input is not looked at).  The other fields are the
per-offset conditions of `Model/LayoutCert.lean` for this input and the recognizer matrix the harness
printed for it (same environment and fuel as the `lr` command): `old` = `LayoutCert.check` = all of
them, i.e. the input is one on which the loop BEFORE the repairs of C14-N1/N2 was lossless too;
`old=0` marks the inputs that exercise the repaired code paths (reported as coverage only).
-/
namespace Rustemo
namespace LayoutRT

/-- the environment of the `lr` command of `Main.lean` -/
def envOf (d : Dump) (input : List Nat) (m : Nat → Nat → Option Nat) : Env :=
  { g := d.grammar, t := d.table, input := input, recog := m,
    skipWs := d.settings.skipWs && d.table.layoutState.isNone, longest := d.settings.longestMatch,
    grammarOrder := d.settings.grammarOrder }

/-- the fuel of the `lr` command of `Main.lean` -/
def fuelOf (d : Dump) (input : List Nat) : Nat :=
  if Cert.terminating d.grammar d.table then
    max (2000 + 200 * input.length) (Cert.termBound d.grammar d.table input.length)
  else 2000 + 200 * input.length

def bit (b : Bool) : String := if b then "1" else "0"

def handleLayoutCert (d : Dump) (rest : String) : String :=
  match rest.splitOn " #" with
  | [req, mat] =>
    match fields req with
    | [inp] =>
      let input := unhexBytes inp
      let env := envOf d input (parseMatrix mat)
      let fuel := fuelOf d input
      match d.table.layoutState with
      | none => "layoutcert none"
      | some ls =>
        let st := LayoutCert.static env ls
        let nt := LayoutCert.notToken env ls fuel
        let id := LayoutCert.idempotent env ls fuel
        let fs := LayoutCert.failStays env ls fuel
        let au := LayoutCert.autoOk env.g env.t ls
        s!"layoutcert ls={ls} auto={bit au} static={bit st} nottoken={bit nt} idem={bit id} failstays={bit fs} old={bit (st && nt && id && fs)}"
    | _ => "bad-request"
  | _ => "bad-request"

end LayoutRT
end Rustemo
