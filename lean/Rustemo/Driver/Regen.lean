import Rustemo.Model.Regen
/-!
# Driver for the regeneration model (command word `regen`)

    regen run <ops> | <header items> | <groups> | <file state>
        → <ok|err> <file state after 1st run> <ok|err> <file state after 2nd run>
    regen class <ops> | <header items> | <groups> | <file state>
        → variant=<asIs|fixed> force=<0|1> actions=<0|1> neededok=<0|1> needednodup=<0|1>
          closed=<0|1> enodup=<0|1>          (class predicates of the theorems' hypotheses / of F17)
    regen variant → asIs | fixed                    (`Regen.repoVariant`)
    regen runv <asIs|fixed> <ops> | … (as run)      → as `run`, for the named variant (diagnostics only:
                                                       tells which variant the implementation agrees with)

* ops: `-` or comma separated `f0 f1 ast ist a0 a1` (`Settings` builder calls, in order);
* item: `<k>.<name>.<tokens>` with k = e|s|t|f|o, name hex (`=` when empty), tokens = hash of the
  token stream; item lists are comma separated, `-` when empty;
* group: `y:<item>` terminal type, `a:<item>` action fn, `n:<guard>:<item>;<item>…` types of a
  nonterminal; groups are space separated, `-` when there is none;
* file state: `A` absent, `X` exists but does not parse, `P:<items>`.

Names are compared in their hex form (an injective encoding), so nothing is decoded.
-/
namespace Rustemo.Regen

def kindOfStr : String → Option Kind
  | "e" => some .enum
  | "s" => some .struct
  | "t" => some .type
  | "f" => some .fn
  | "o" => some .other
  | _ => none

def Kind.str : Kind → String
  | .enum => "e"
  | .struct => "s"
  | .type => "t"
  | .fn => "f"
  | .other => "o"

def parseItem (s : String) : Option Item :=
  match s.splitOn "." with
  | [k, n, t] => (kindOfStr k).map (fun k => ⟨k, n, t⟩)
  | _ => none

def parseItemsSep (sep : String) (s : String) : Option (List Item) :=
  if s == "-" then some [] else (s.splitOn sep).mapM parseItem

def parseItems (s : String) : Option (List Item) := parseItemsSep "," s

def parseGroup (s : String) : Option Group :=
  match s.splitOn ":" with
  | ["y", i] => (parseItem i).map Group.ty
  | ["a", i] => (parseItem i).map Group.act
  | ["n", g, is] => (parseItemsSep ";" is).map (Group.nt g)
  | _ => none

def parseGroups (s : String) : Option (List Group) :=
  if s == "-" then some [] else (s.splitOn " ").mapM parseGroup

def parseFs (s : String) : Option FileState :=
  if s == "A" then some .absent
  else if s == "X" then some .unparsable
  else match s.splitOn ":" with
    | ["P", is] => (parseItems is).map FileState.parsed
    | _ => none

def parseOp : String → Option SetOp
  | "f0" => some (.force false)
  | "f1" => some (.force true)
  | "ast" => some .actionsInSourceTree
  | "ist" => some .inSourceTree
  | "a0" => some (.actions false)
  | "a1" => some (.actions true)
  | _ => none

def parseOps (s : String) : Option (List SetOp) :=
  if s == "-" then some [] else (s.splitOn ",").mapM parseOp

def showItem (i : Item) : String := s!"{i.kind.str}.{i.name}.{i.tokens}"

def showItems (l : List Item) : String :=
  if l.isEmpty then "-" else ",".intercalate (l.map showItem)

def showFs : FileState → String
  | .absent => "A"
  | .unparsable => "X"
  | .parsed l => "P:" ++ showItems l

def showRes (r : Result) : String := if r.isErr then "err" else "ok"

def b01 (b : Bool) : String := if b then "1" else "0"

def Variant.str : Variant → String
  | .asIs => "asIs"
  | .fixed => "fixed"

structure Req where
  ops : List SetOp
  hdr : List Item
  needed : List Group
  fs : FileState

def parseReq (s : String) : Option Req :=
  match s.splitOn " | " with
  | [ops, hdr, gs, fs] => do
    let ops ← parseOps ops.trimAscii.toString
    let hdr ← parseItems hdr.trimAscii.toString
    let gs ← parseGroups gs.trimAscii.toString
    let fs ← parseFs fs.trimAscii.toString
    pure ⟨ops, hdr, gs, fs⟩
  | _ => none

def answerRun (v : Variant) (q : Req) : String :=
  let r1 := process v q.ops q.hdr q.fs q.needed
  let fs1 := r1.after q.fs
  let r2 := process v q.ops q.hdr fs1 q.needed
  let fs2 := r2.after fs1
  s!"{showRes r1} {showFs fs1} {showRes r2} {showFs fs2}"

def answerClass (q : Req) : String :=
  let c := cfgOf q.ops
  let e := match start q.hdr q.fs c.force with
    | some e => e
    | none => []
  s!"variant={repoVariant.str} force={b01 c.force} actions={b01 c.actions} " ++
  s!"neededok={b01 (decide (NeededOk q.needed))} " ++
  s!"needednodup={b01 (decide (NoDupNames (q.hdr ++ allItems q.needed)))} " ++
  s!"closed={b01 (decide (GroupClosed e q.needed))} enodup={b01 (decide (NoDupNames e))}"

def handleRegen (args : String) : String :=
  let args := args.trimAscii.toString
  if args == "variant" then repoVariant.str
  else match args.splitOn " " with
    | "run" :: rest =>
      match parseReq (" ".intercalate rest) with
      | some q => answerRun repoVariant q
      | none => "bad-request"
    | "runv" :: v :: rest =>
      match parseReq (" ".intercalate rest) with
      | some q => answerRun (if v == "fixed" then .fixed else .asIs) q
      | none => "bad-request"
    | "class" :: rest =>
      match parseReq (" ".intercalate rest) with
      | some q => answerClass q
      | none => "bad-request"
    | _ => "bad-request"

end Rustemo.Regen
