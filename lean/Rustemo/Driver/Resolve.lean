import Rustemo.Model.Resolve
import Rustemo.Model.Dump
/-!
Driver command `resolve`: recompute every ACTION cell and every `max_prior_for_term` entry of a
dumped table from the dumped ITEMS (with lookaheads), grammar meta-data and settings, with the
model `Resolve.stateCell`.

  resolve <fixes: cur | three 0/1 digits termAssoc,noAssert,emptyRR> <dump records separated by |>
    → ok | <state> c <term>=<act>,<act>… … m <term>=<prio> … | …
    → panic <state> <term> <site>

`<act>` is `S` (shift, target not modelled), `A` (accept) or `R<prod>.<len>`; cells in terminal
order, actions in cell order; empty cells are not listed.
-/
namespace Rustemo
open Rustemo.Resolve

def renderAct : Action → String
  | .shift _ => "S"
  | .accept => "A"
  | .reduce p l => s!"R{p}.{l}"

def renderCell (t : Nat) (c : List Action) : String :=
  s!"{t}=" ++ ",".intercalate (c.map renderAct)

def fixesOf (s : String) : Fixes :=
  match s.toList with
  | [a, b, c] =>
    if [a, b, c].all (fun x => x == '0' || x == '1') then ⟨a == '1', b == '1', c == '1'⟩ else Fixes.current
  | _ => Fixes.current

/-- cells of one state: either the rendered non-empty cells or the first panic -/
def resolveStateCells (fx : Fixes) (cfg : Cfg) (g : Grammar) (rn : Option (Array Nat))
    (items : List Item) : Except (Nat × String) (List String) :=
  (List.range g.nterms).foldl (fun acc t =>
    match acc with
    | .error e => .error e
    | .ok out =>
      match stateCell fx cfg g rn items t with
      | .ok [] => .ok out
      | .ok c => .ok (out ++ [renderCell t c])
      | .panic s => .error (t, s)
      | .err _ => .error (t, "err")
      | .fuel => .error (t, "fuel")) (.ok [])

def renderMaxPrior (g : Grammar) (items : List Item) : List String :=
  (List.range g.nterms).filterMap fun t =>
    match maxPrior g items t with
    | some p => some s!"{t}={p}"
    | none => none

def handleResolve (args : String) : String :=
  let (fxs, rest) := match args.splitOn " " with
    | c :: r => (c, " ".intercalate r)
    | [] => ("", "")
  let d := Dump.parse rest
  let fx := fixesOf fxs
  let cfg : Cfg := ⟨d.settings.glr, d.settings.preferShifts, d.settings.preferShiftsOverEmpty⟩
  let g := d.grammar
  let rn := d.table.rnLens
  let res := (List.range d.table.states.size).foldl (fun (acc : Except String (List String)) s =>
    match acc with
    | .error e => .error e
    | .ok out =>
      match d.table.states[s]? with
      | none => .ok out
      | some st =>
        match resolveStateCells fx cfg g rn st.items with
        | .error (t, site) => .error s!"panic {s} {t} {site}"
        | .ok cells =>
          .ok (out ++ [s!"{s} c " ++ " ".intercalate cells ++ " m " ++
                        " ".intercalate (renderMaxPrior g st.items)])) (.ok [])
  match res with
  | .error e => e
  | .ok out => "ok | " ++ " | ".intercalate out

end Rustemo
