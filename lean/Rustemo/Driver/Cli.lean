import Rustemo.Model.Cli
/-!
# Driver for the C17 model (command word `cli`)

One request per line (the text after the command word), one answer line.

    argv <isFile 0/1> <OUT_DIR hex|-> <CARGO_MANIFEST_DIR hex|-> <RUSTEMO_TRACE 0/1> <argv token hex>*
        → plan mode=file|dir <settings line> | panic <site> | usage | help | version
    defaults <OUT_DIR hex|-> <CARGO_MANIFEST_DIR hex|-> <RUSTEMO_TRACE 0/1>
        → <settings line of Settings::new()>
    names <nonterminal>*      nonterminal = <name hex>|<prod>|<prod>…
                              prod = <kind hex or ->,<rhs len>,<ntidx>,<rhs symbol name hex .-joined>,<content sym hex:named .-joined>
        → clash=<0/1> <name hex>=<alt>/<alt>…   alt = ,-joined unique choice names (hex, `~` prefix: Empty choice)
          alternatives = distinct results of `makeUnique` over the key orders (all permutations of the
          duplicated keys when there are at most 4 of them, else ascending, descending, longest first,
          shortest first)

Strings are hex encoded UTF-8, `=` is the empty string, `-` is none.
-/
namespace Rustemo.CliDriver
open Rustemo.Cfg Rustemo.Types

def hexDigit (n : Nat) : Char := "0123456789abcdef".toList.getD n '0'

def hexOf (s : String) : String :=
  if s.isEmpty then "=" else
  String.ofList (s.toUTF8.toList.flatMap fun b => [hexDigit (b.toNat / 16), hexDigit (b.toNat % 16)])

def hexVal (c : Char) : Nat :=
  if '0' ≤ c ∧ c ≤ '9' then c.toNat - '0'.toNat
  else if 'a' ≤ c ∧ c ≤ 'f' then c.toNat - 'a'.toNat + 10
  else if 'A' ≤ c ∧ c ≤ 'F' then c.toNat - 'A'.toNat + 10 else 0

def unhexBytes : List Char → List UInt8
  | a :: b :: rest => (hexVal a * 16 + hexVal b).toUInt8 :: unhexBytes rest
  | _ => []

def unhex (s : String) : String :=
  if s == "=" then "" else
  match String.fromUTF8? (ByteArray.mk (unhexBytes s.toList).toArray) with
  | some str => str
  | none => ""

def optOf (s : String) : Option String := if s == "-" then none else some (unhex s)
def hexOpt : Option String → String
  | none => "-"
  | some s => hexOf s
def b01 (b : Bool) : String := if b then "1" else "0"
def words (s : String) : List String := (s.splitOn " ").filter (· ≠ "")

def tableTypeStr : TableType → String
  | .lalr => "LALR" | .lalrPager => "LALR_PAGER" | .lalrRn => "LALR_RN"
def parserAlgoStr : ParserAlgo → String
  | .lr => "LR" | .glr => "GLR"
def lexerTypeStr : LexerType → String
  | .dflt => "Default" | .custom => "Custom"
def builderTypeStr : BuilderType → String
  | .dflt => "Default" | .generic => "Generic" | .custom => "Custom"
def genTableTypeStr : GenTableType → String
  | .arrays => "Arrays" | .functions => "Functions"

/-- canonical settings line: the fields of `struct Settings` in declaration order -/
def settingsLine (s : Settings) : String :=
  " ".intercalate [
    "out_dir_root=" ++ hexOpt s.outDirRoot,
    "out_dir_actions_root=" ++ hexOpt s.outDirActionsRoot,
    "root_dir=" ++ hexOpt s.rootDir,
    "prefer_shifts=" ++ b01 s.preferShifts,
    "prefer_shifts_over_empty=" ++ b01 s.preferShiftsOverEmpty,
    "table_type=" ++ tableTypeStr s.tableType,
    "parser_algo=" ++ parserAlgoStr s.parserAlgo,
    "print_table=" ++ b01 s.printTable,
    "exclude=" ++ (if s.exclude.isEmpty then "-" else ",".intercalate (s.exclude.map hexOf)),
    "actions=" ++ b01 s.actions,
    "trace=" ++ b01 s.trace,
    "lexer_type=" ++ lexerTypeStr s.lexerType,
    "builder_type=" ++ builderTypeStr s.builderType,
    "builder_loc_info=" ++ b01 s.builderLocInfo,
    "generator_table_type=" ++ genTableTypeStr s.generatorTableType,
    "input_type=" ++ hexOf s.inputType,
    "lexical_disamb_most_specific=" ++ b01 s.mostSpecific,
    "lexical_disamb_longest_match=" ++ b01 s.longestMatch,
    "lexical_disamb_grammar_order=" ++ b01 s.grammarOrder,
    "partial_parse=" ++ b01 s.partialParse,
    "skip_ws=" ++ b01 s.skipWs,
    "force=" ++ b01 s.force,
    "force_explicit=" ++ b01 s.forceExplicit,
    "dot=" ++ b01 s.dot,
    "fancy_regex=" ++ b01 s.fancyRegex ]

def siteStr : PanicSite → String
  | .grammarOrderLR => "grammarOrderLR"
  | .actionsInSourceTreeNonDefault => "actionsInSourceTreeNonDefault"
  | .rootDirUnset => "rootDirUnset"

def envOf (o m t : String) : Env := { outDir := optOf o, manifestDir := optOf m, rustemoTrace := t == "1" }

def handleArgv : List String → String
  | isFile :: o :: m :: t :: toks =>
    match Cli.run (envOf o m t) (toks.map unhex) (isFile == "1") with
    | .plan p => "plan mode=" ++ (match p.mode with | .file => "file" | .dir => "dir") ++ " " ++ settingsLine p.settings
    | .panic s => "panic " ++ siteStr s
    | .usage => "usage"
    | .help => "help"
    | .version => "version"
  | _ => "bad-request"

/-! ### choice names -/

def splitC (c : Char) (s : String) : List String := s.splitOn (String.singleton c)

def prodOf (s : String) : Option ProdInfo :=
  match splitC ',' s with
  | [kind, rhsLen, ntidx, rhsNames, content] =>
    let names := if rhsNames == "" then [] else (splitC '.' rhsNames).map unhex
    let cont := if content == "" then [] else (splitC '.' content).filterMap fun x =>
      match splitC ':' x with
      | [sym, named] => some (unhex sym, named == "1")
      | _ => none
    some { kind := optOf kind, rhsLen := rhsLen.toNat?.getD 0, ntidx := ntidx.toNat?.getD 0,
           rhsNames := names, content := cont }
  | _ => none

def insertAll (x : String) : List String → List (List String)
  | [] => [[x]]
  | y :: ys => (x :: y :: ys) :: (insertAll x ys).map (y :: ·)

def perms : List String → List (List String)
  | [] => [[]]
  | x :: xs => (perms xs).flatMap (insertAll x)

def sortStr (l : List String) : List String := (l.toArray.qsort (· < ·)).toList

/-- key orders tried: every permutation of the duplicated keys (the other keys are filtered out by
`makeUnique` anyway) when there are few, else four fixed orders. "Longest first" never cascades
(a renamed name is longer than every key still to come) and therefore yields `closedForm`. -/
def keyOrders (cs : List String) : List (List String) :=
  let dups := sortStr ((cs.filter fun n => decide (1 < cs.count n)).eraseDups)
  if dups.length ≤ 4 then perms dups
  else
    let byLen := (dups.toArray.qsort fun a b => a.length > b.length || (a.length == b.length && a < b)).toList
    [dups, dups.reverse, byLen, byLen.reverse]

def altsOf (choices : List (String × Bool)) : List (List String) :=
  let cs := choices.map (·.1)
  let res := (keyOrders cs).map fun o => makeUnique o cs
  res.eraseDups

def renderAlt (choices : List (String × Bool)) (names : List String) : String :=
  ",".intercalate ((names.zip choices).map fun (n, c) => (if c.2 then "~" else "") ++ hexOf n)

def handleNames (nts : List String) : String :=
  let parsed : List (String × List (String × Bool)) := nts.filterMap fun nt =>
    match splitC '|' nt with
    | name :: prods => some (name, (prods.filterMap prodOf).map ProdInfo.choice)
    | [] => none
  let anyClash := parsed.any fun (_, ch) => clash (ch.map (·.1))
  let body := parsed.map fun (name, ch) =>
    name ++ "=" ++ "/".intercalate ((altsOf ch).map (renderAlt ch))
  " ".intercalate (("clash=" ++ b01 anyClash) :: body)

end Rustemo.CliDriver

open Rustemo.CliDriver in
/-- entry point wired into `Main.lean` as command word `cli` -/
def handleCli (args : String) : String :=
  match words args with
  | "argv" :: rest => handleArgv rest
  | ["defaults", o, m, t] => settingsLine (Rustemo.Cfg.Settings.new (envOf o m t))
  | "names" :: rest => handleNames rest
  | _ => "bad-request"
