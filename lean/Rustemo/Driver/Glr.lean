import Rustemo.Model.Glr
import Rustemo.Model.GlrCert
import Rustemo.Model.GlrNoDupCert
import Rustemo.Model.GlrLexCert
import Rustemo.Model.Dump
import Rustemo.Model.Print
/-!
# Driver handler for the GLR engine model

Request (the text after the command word `glr`):

    <partial 0/1> <input-hex> [<max_trees>] #<match matrix>

Answer: exactly the line `harness/dyn/src/run.rs::run_glr` prints for the real `GlrParser`:

* `ok <solutions> iter_same=<b> iter_count=<n> beyond_none=<b> trees <tree> ; <tree> ; …` (at most
  `max_trees` trees, default 64, each built by index with the model of `Tree::build`),
* `ok <solutions> forest <verif_dump> @trees <idx>=<shape> ; …` for `max_trees = 99999` (the SPPF in the
  record format and numbering of `Forest::verif_dump`, so the sharing structure is compared textually),
* `ok parse-only` for `max_trees = 0`,
* `err expected <pos>-<pos> <kinds>`, `panic <site>`, `timeout`.

The request `cert` (no further fields) runs the certificate `Cert.glr` of `Model/GlrCert.lean` on the loaded
table: `cert glr=<b> nul=<b> structuralRN=<b> symbols=<b> total=<b> layoutsafe=<none|cert|FAIL> completeRN=<b>`.
-/
namespace Rustemo.Glr
open Rustemo

def envOfDump (d : Dump) (input : List Nat) (m : Nat → Nat → Option Nat) : Env :=
  { g := d.grammar, t := d.table, input := input, recog := m,
    skipWs := d.settings.skipWs && d.table.layoutState.isNone, longest := d.settings.longestMatch,
    grammarOrder := d.settings.grammarOrder }

/-! `Forest::verif_dump` (gss.rs:835-912): ids in first-visit order, records in completion order -/

structure DumpSt where
  nodeIds : List (Nat × Nat) := []      -- graph node id ↦ dump id
  parIds : List (Nat × Nat) := []       -- edge id ↦ dump id
  out : Array String := #[]

def lookupId (m : List (Nat × Nat)) (k : Nat) : Option Nat := (m.find? (fun e => e.1 == k)).map (·.2)

mutual
partial def dumpNode (g : Gss) (st : DumpSt) (n : Nat) : DumpSt × Nat :=
  match lookupId st.nodeIds n with
  | some id => (st, id)
  | none =>
    let id := st.nodeIds.length
    let st := { st with nodeIds := (n, id) :: st.nodeIds }
    match g.nodes[n]? with
    | some (.term tk sp) =>
      ({ st with out := st.out.push s!"T {id} {tk.kind} {sp.s.pos} {sp.e.pos}" }, id)
    | some (.nonterm p sp _ ch) =>
      let (st, ps) := ch.foldl (fun (acc : DumpSt × List Nat) e =>
        let r := dumpParent g acc.1 e
        (r.1, acc.2 ++ [r.2])) (st, [])
      let rec_ := s!"N {id} {p} {sp.s.pos} {sp.e.pos}" ++ String.join (ps.map fun x => s!" {x}")
      ({ st with out := st.out.push rec_ }, id)
    | none => ({ st with out := st.out.push s!"E {id}" }, id)
partial def dumpParent (g : Gss) (st : DumpSt) (e : Nat) : DumpSt × Nat :=
  match lookupId st.parIds e with
  | some id => (st, id)
  | none =>
    let id := st.parIds.length
    let st := { st with parIds := (e, id) :: st.parIds }
    let (st, ns) := (possOf g e).foldl (fun (acc : DumpSt × List Nat) n =>
      let r := dumpNode g acc.1 n
      (r.1, acc.2 ++ [r.2])) (st, [])
    ({ st with out := st.out.push (s!"P {id}" ++ String.join (ns.map fun x => s!" {x}")) }, id)
end

def verifDump (r : GlrResult) : String :=
  let (st, roots) := r.roots.foldl (fun (acc : DumpSt × List Nat) n =>
    let x := dumpNode r.gss acc.1 n
    (x.1, acc.2 ++ [x.2])) (({} : DumpSt), [])
  "roots" ++ String.join (roots.map fun x => s!" {x}") ++ String.join (st.out.toList.map fun x => " | " ++ x)

/-! size of the unfolding, computed on the graph with memoisation: forests whose unfolding is small are
    ALSO run through the specification path (`unfoldNode` → erasure → `Model/Forest.lean`
    `solutions`/`getTree`/`iterate`) and the two answers must agree -/

structure SizeSt where
  memo : List (Nat × Nat) := []
  visiting : List Nat := []

partial def nodeSize (g : Gss) (cap : Nat) (st : SizeSt) (n : Nat) : SizeSt × Nat :=
  match lookupId st.memo n with
  | some sz => (st, sz)
  | none =>
    if st.visiting.contains n then (st, cap) else
    match g.nodes[n]? with
    | some (.nonterm _ _ _ ch) =>
      let st := { st with visiting := n :: st.visiting }
      let (st, sz) := ch.foldl (fun (acc : SizeSt × Nat) e =>
        (possOf g e).foldl (fun (acc : SizeSt × Nat) m =>
          if acc.2 ≥ cap then acc else
          let r := nodeSize g cap acc.1 m
          (r.1, acc.2 + r.2)) acc) (st, 1)
      let sz := min sz cap
      ({ memo := (n, sz) :: st.memo, visiting := st.visiting.erase n }, sz)
    | _ => (st, 1)

def unfoldedSize (r : GlrResult) (cap : Nat) : Nat :=
  (r.roots.foldl (fun (acc : SizeSt × Nat) n =>
    if acc.2 ≥ cap then acc else
    let x := nodeSize r.gss cap acc.1 n
    (x.1, acc.2 + x.2)) (({} : SizeSt), 0)).2

def specCap : Nat := 20000

def b01 (b : Bool) : String := if b then "1" else "0"

/-- `Forest::iter().take(k)` on the graph -/
def fastIterate (r : GlrResult) (sol : Array Nat) : Nat → Nat → List Tree
  | 0, _ => []
  | fuel+1, i =>
    match r.fastGet sol i with
    | some t => t :: fastIterate r sol fuel (i + 1)
    | none => []

def renderTrees (ts : List (Option Tree)) : String :=
  String.join (ts.map fun
    | some t => " " ++ t.render ++ " ;"
    | none => " none ;")

def renderStd (r : GlrResult) (sol : Array Nat) (maxTrees : Nat) : String :=
  let n := r.fastSolutions sol
  let k := min n maxTrees
  let byIndex := (List.range k).map (r.fastGet sol)
  let byIter := fastIterate r sol k 0
  let iterSame := byIndex.all Option.isSome && (byIndex.filterMap id).map Tree.render == byIter.map Tree.render
  let iterCount := if n ≤ 5000 then (fastIterate r sol (n + 1) 0).length else n
  let beyond := (r.fastGet sol n).isNone && (r.fastGet sol (n + 1)).isNone
  s!"ok {n} iter_same={b01 iterSame} iter_count={iterCount} beyond_none={b01 beyond} trees" ++ renderTrees byIndex

/-- the same answer through the specification path -/
def renderStdSpec (r : GlrResult) (maxTrees : Nat) : String :=
  let dr := r.droots
  let f : Forest.Forest := ⟨dr.erase⟩
  let n := f.solutions
  let k := min n maxTrees
  let byIndex := (List.range k).map dr.get
  let erasedByIndex := (List.range k).map f.getTree
  let byIter := f.iterate k 0
  let iterSame := erasedByIndex.all Option.isSome &&
    (erasedByIndex.filterMap id).map Forest.FTree.render == byIter.map Forest.FTree.render &&
    (byIndex.filterMap id).map (fun t => (treeToF t).render) == byIter.map Forest.FTree.render
  let iterCount := if n ≤ 5000 then (f.iterate (n + 1) 0).length else n
  let beyond := (f.getTree n).isNone && (f.getTree (n + 1)).isNone
  s!"ok {n} iter_same={b01 iterSame} iter_count={iterCount} beyond_none={b01 beyond} trees" ++ renderTrees byIndex

def forestIdxs (n : Nat) : List Nat := (List.range (min n 40)) ++ [n, n + 1]

def renderForest (r : GlrResult) (sol : Array Nat) : String :=
  let n := r.fastSolutions sol
  let body := String.join ((forestIdxs n).map fun i =>
    match r.fastGet sol i with
    | some t => s!" {i}={(treeToF t).render} ;"
    | none => s!" {i}=none ;")
  s!"ok {n} forest {verifDump r} @trees" ++ body

def renderForestSpec (r : GlrResult) : String :=
  let f := r.forest
  let n := f.solutions
  let body := String.join ((forestIdxs n).map fun i =>
    match f.getTree i with
    | some t => s!" {i}={t.render} ;"
    | none => s!" {i}=none ;")
  s!"ok {n} forest {verifDump r} @trees" ++ body

def renderGlr (o : Outcome GlrResult) (maxTrees : Nat) : String :=
  match o with
  | .ok r =>
    if maxTrees == 0 then "ok parse-only"
    else
      let cut := cutTable r.gss
      if r.fastHasCut cut then "panic cyclic SPPF (stack overflow in Forest::solutions)"
      else
        let sol := solTable r.gss
        let fast := if maxTrees == 99999 then renderForest r sol else renderStd r sol maxTrees
        if unfoldedSize r specCap < specCap then
          let spec := if maxTrees == 99999 then renderForestSpec r else renderStdSpec r maxTrees
          if r.droots.hasCut then "panic model-internal: unfolding cut but cut table clean"
          else if spec == fast then fast else "panic model-internal: fast path != specification path: " ++ spec
        else fast
  | .err (.expected p ks) => s!"err expected {p.render}-{p.render} {renderKinds ks}"
  | .err .noAction => "err noaction -"
  | .panic s => "panic " ++ s
  | .fuel => "timeout"

def glrFuel (input : List Nat) : Nat := 2000 + 200 * input.length

/-- `glr cert`: the certificate the engine theorems assume (Tie B), with its parts -/
def handleCert (d : Dump) : String :=
  let g := d.grammar
  let t := d.table
  let nul := Canon.nullable g
  -- `LayoutSafe` (hypothesis of the no-panic theorem): void without a Layout rule, otherwise from `Cert.glrLayout`
  let layoutSafe := match t.layoutState with
    | none => "none"
    | some _ => if Cert.glrLayout g t then "cert" else "FAIL"
  s!"cert glr={b01 (Cert.glr g t)} nul={b01 (Cert.nulOk g nul)} structuralRN={b01 (Cert.structuralRN g t (autosOf g t) nul)} symbols={b01 (Cert.symbolsOk g t)} total={b01 (Cert.total g t 0)} layoutsafe={layoutSafe} completeRN={b01 (Cert.completeRN g t)}"

def handleGlr (d : Dump) (args : String) : String :=
  if args.trimAscii.toString == "cert" then handleCert d else
  match args.splitOn " #" with
  | [req, mat] =>
    match fields req with
    | ["lexdet", inp] =>
      -- executable hypotheses of `lexDet_of_singleChar(_ws)` (Proofs/GlrLexDet*.lean): with them the GLR theorems of
      -- Props/C03Bytes.lean hold for this table and input without the lexer hypothesis `LexDet` (full parse)
      let env := envOfDump d (unhexBytes inp) (parseMatrix mat)
      s!"lexdet singlechar={b01 (Cert.singleCharLexer env.g env.t)} bytes={b01 (glrCharEnvOk env)} ws={b01 (glrCharEnvWsOk env)}"
    | ["nodup", pp, inp] =>
      -- per-input certificate of `C03_engine_no_duplicates_from_poss_facts`: `PossFacts` of the result graph, no
      -- repeated root, acyclic unfolding (`Proofs/GlrNoDup4.lean`), evaluated on the model's result
      let input := unhexBytes inp
      (match parse (envOfDump d input (parseMatrix mat)) (pp == "1") (glrFuel input) with
       | .ok r => s!"nodup possfacts={b01 (possFactsB r.gss)} roots={b01 (decide r.roots.Nodup)} acyclic={b01 (!(r.fastHasCut (cutTable r.gss)))}"
       | _ => "nodup na")
    | [pp, inp] =>
      let input := unhexBytes inp
      renderGlr (parse (envOfDump d input (parseMatrix mat)) (pp == "1") (glrFuel input)) 64
    | [pp, inp, mt] =>
      let input := unhexBytes inp
      renderGlr (parse (envOfDump d input (parseMatrix mat)) (pp == "1") (glrFuel input)) (natOf mt)
    | _ => "bad-request"
  | _ => "bad-request"

end Rustemo.Glr
