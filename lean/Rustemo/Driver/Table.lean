import Rustemo.Model.Table
import Rustemo.Model.Dump
/-!
Driver command `table` (after `load <dump>`): run the model of the table construction
(`Table.build`, Model/Table.lean) on the GRAMMAR and SETTINGS records of the loaded dump and compare
the result with the TABLE records of the same dump (what the real `LRTable::new` built).

  table            → same <nstates> gwf=<0|1>     (gwf: the hypothesis `Table.gwf` of the construction theorems holds)
                   | diff <where>: model <…> real <…>        (the FIRST difference, in dump order)
                   | model err <symbol> | model panic <site> | model fuel     (the real compiler built a table)
  table outcome    → ok <nstates> | err <symbol> <name-hex> | panic <site> | fuel   (no comparison; for
                     grammars the real compiler rejects: the dump then has no table records)
  table dump       → the model's table in the dump's own record format (records joined by ` | `)

Compared, in this order: FIRST sets, right-nulled lengths, layout state, number of states; per state:
symbol, items in order with their lookaheads in order, every ACTION cell in action order, every
GOTO, `sorted_terminals` with finish flags, `max_prior_for_term`; the number of conflict cells.
-/
namespace Rustemo.Table

def buildFuel : Nat := 1000000

def natsStr (l : List Nat) : String := " ".intercalate (l.map toString)

def actStr : Action → String
  | .shift s => s!"S {s}"
  | .reduce p l => s!"R {p} {l}"
  | .accept => "A"

def actsStr (c : List Action) : String := " ".intercalate (c.map actStr)

def itemStr (it : Item) : String :=
  if it.la.isEmpty then s!"item {it.prod} {it.dot} 0" else s!"item {it.prod} {it.dot} {it.la.length} {natsStr it.la}"

def pairsStr (l : List (Nat × Nat)) : String := " ".intercalate (l.map fun (a, b) => s!"{a} {b}")

def sortedStr (l : List (Nat × Bool)) : String :=
  " ".intercalate (l.map fun (a, b) => s!"{a} {if b then 1 else 0}")

def optStr : Option Nat → String
  | some n => toString n
  | none => "-"

/-- records of one state in the order the hook writes them -/
def stateRecords (i : Nat) (st : State) : List String :=
  [s!"state {i} {st.symbol} {st.items.length}"] ++
  st.items.map itemStr ++
  ((List.range st.actions.size).filterMap fun t =>
    let c := st.actions.getD t []
    if c.isEmpty then none else some s!"act {t} {c.length} {actsStr c}") ++
  ((List.range st.gotos.size).filterMap fun j =>
    match st.gotos.getD j none with
    | some s => some s!"goto {j} {s}"
    | none => none) ++
  [(s!"sorted {st.sorted.length} {sortedStr st.sorted}").trimAscii.toString,
   (s!"maxprio {st.maxPrio.length} {pairsStr st.maxPrio}").trimAscii.toString]

def tableRecords (t : Table) : List String :=
  ((List.range t.firsts.size).map fun i =>
    let f := t.firsts.getD i []
    (s!"first {i} {f.length} {natsStr f}").trimAscii.toString) ++
  [match t.rnLens with
   | some a => (s!"rn {a.size} {natsStr a.toList}").trimAscii.toString
   | none => "rn -"] ++
  [s!"table {t.states.size} {optStr t.layoutState}"] ++
  ((List.range t.states.size).flatMap fun i => stateRecords i (t.states.getD i default)) ++
  [s!"conflicts {conflictCells t}"]

/-- first index at which two lists differ (or their lengths) -/
def firstDiff {α} [BEq α] : Nat → List α → List α → Option Nat
  | _, [], [] => none
  | i, a :: as, b :: bs => if a == b then firstDiff (i + 1) as bs else some i
  | i, _, _ => some i

def stateDiff (i : Nat) (m r : State) : Option String :=
  if m.symbol != r.symbol then some s!"state {i} symbol: model {m.symbol} real {r.symbol}"
  else
    match firstDiff 0 m.items r.items with
    | some k =>
      let show_ := fun (l : List Item) => match l[k]? with
        | some it => itemStr it
        | none => "-"
      some s!"state {i} item #{k}: model {show_ m.items} real {show_ r.items}"
    | none =>
      match (List.range (max m.actions.size r.actions.size)).find? fun t =>
          m.actions.getD t [] != r.actions.getD t [] with
      | some t =>
        some s!"state {i} cell {t}: model [{actsStr (m.actions.getD t [])}] real [{actsStr (r.actions.getD t [])}]"
      | none =>
        match (List.range (max m.gotos.size r.gotos.size)).find? fun j =>
            m.gotos.getD j none != r.gotos.getD j none with
        | some j =>
          some s!"state {i} goto {j}: model {optStr (m.gotos.getD j none)} real {optStr (r.gotos.getD j none)}"
        | none =>
          if m.sorted != r.sorted then
            some s!"state {i} sorted: model [{sortedStr m.sorted}] real [{sortedStr r.sorted}]"
          else if m.maxPrio != r.maxPrio then
            some s!"state {i} maxprio: model [{pairsStr m.maxPrio}] real [{pairsStr r.maxPrio}]"
          else none

def tableDiff (m r : Table) (realConflicts : Nat) : Option String :=
  match (List.range (max m.firsts.size r.firsts.size)).find? fun i =>
      m.firsts[i]? != r.firsts[i]? with
  | some i => some s!"first {i}: model [{natsStr (m.firsts.getD i [])}] real [{natsStr (r.firsts.getD i [])}]"
  | none =>
    if m.rnLens != r.rnLens then
      some s!"rn: model [{natsStr ((m.rnLens.getD #[]).toList)}] real [{natsStr ((r.rnLens.getD #[]).toList)}]"
    else if m.layoutState != r.layoutState then
      some s!"layout state: model {optStr m.layoutState} real {optStr r.layoutState}"
    else if m.states.size != r.states.size then
      some s!"states: model {m.states.size} real {r.states.size}"
    else
      match (List.range m.states.size).findSome? fun i =>
          stateDiff i (m.states.getD i default) (r.states.getD i default) with
      | some d => some d
      | none =>
        if conflictCells m != realConflicts then
          some s!"conflicts: model {conflictCells m} real {realConflicts}"
        else none

def hexDigit (n : Nat) : Char := if n < 10 then Char.ofNat (48 + n) else Char.ofNat (87 + n)

def hexOf (s : String) : String :=
  if s.isEmpty then "=" else
  String.ofList (s.toUTF8.toList.flatMap fun b => [hexDigit (b.toNat / 16), hexDigit (b.toNat % 16)])

def symName (g : Grammar) (X : Nat) : String :=
  if X < g.nterms then (g.terms[X]?.map (·.name)).getD "" else g.ntNames.getD (X - g.nterms) ""

def handleTable (d : Dump) (args : String) : String :=
  let r := build d.grammar d.settings buildFuel
  match fields args with
  | ["dump"] =>
    match r with
    | .ok t => " | ".intercalate (tableRecords t)
    | .err X => s!"err {X}"
    | .panic s => "panic " ++ s
    | .fuel => "fuel"
  | ["outcome"] =>
    match r with
    | .ok t => s!"ok {t.states.size}"
    | .err X => s!"err {X} {hexOf (symName d.grammar X)}"
    | .panic s => "panic " ++ s
    | .fuel => "fuel"
  | [] =>
    match r with
    | .ok t =>
      match tableDiff t d.table d.conflicts with
      | none => s!"same {t.states.size} gwf={if gwf d.grammar then 1 else 0}"
      | some w => "diff " ++ w
    | .err X => s!"model err {X}"
    | .panic s => "model panic " ++ s
    | .fuel => "model fuel"
  | _ => "bad-request"

end Rustemo.Table
