import Rustemo.Model.AstEval
/-!
# Driver for the default-builder model (command word `ast`)

    ast eval <grammar> # <tree>          → ok <value> | novalue | panic <site hex> | stack | illtyped | notypes | bad-request
    ast skel <grammar>                   → generated type / fn items `T:..;S:..;E:..;F:..` (file order) | notypes
    ast arms <grammar>                   → calls of the shift / reduce arms `f(context,p0,None);…` | notypes
    ast class <grammar>                  → types= ascii= distinct= declared= sized= arms= vecalt= veclabel= pk= wf= rightvec= boollost= variant=
                                           (each `1` = that part of `Skel.wellFormed` holds; rightvec=1: a Vec rule
                                           has its vector on the right; boollost=1: a `?=` assignment on a symbol
                                           without content, class of finding C10-N1)
    ast evalv|skelv|armsv|classv <0|1> … → the same for the named variant: `1` = `Fixes.repo` (/repo as it is, what the
                                           plain commands use), `0` = `Fixes.asWas` (before the repairs; diagnostics:
                                           tells which variant the implementation agrees with)

* grammar: records separated by `|`:
    `cfg <loc 0|1> <rn 0|1> <start symbol>`; `t <name> <content> <reach>` (terminals without STOP);
    `n <name> <reach> <vec>` (`grammar.nonterminals()`); `p <nt> <kind|-> <rn length> <sym>,<term>,<content>,<label|->[,<?= 0|1>]…`
    (`grammar.productions()`, so that the record number is the `ProdKind` discriminant);
* tree: `n<prod>(<tree>,…)` | `t<token kind>:<text hex>` (`=` for the empty text);
* value: `'<hex>` string, `~` None, `?v` Some, `[v,…]` Vec, `Name{f=v,…}` struct, `Name(v,…)` / `Name`
  enum variant, `@v` ValSpan (the sigils cannot start an identifier, so no generated name is ambiguous).
-/
namespace Rustemo.Ast

def b01 (s : String) : Bool := s == "1"
def n01 (b : Bool) : String := if b then "1" else "0"
def optS (s : String) : Option String := if s == "-" then none else some s
def natS (s : String) : Nat := s.toNat?.getD 0

def parseRSym (s : String) : Option RSym :=
  match s.splitOn "," with
  | [n, t, c, l] => some { name := n, isTerm := b01 t, content := b01 c, label := optS l }
  | [n, t, c, l, b] => some { name := n, isTerm := b01 t, content := b01 c, label := optS l, isBool := b01 b }
  | _ => none

def parseGrammar (s : String) : Option AGrammar :=
  (s.splitOn "|").foldl (fun acc r =>
    match acc with
    | none => none
    | some g =>
      match (r.splitOn " ").filter (· ≠ "") with
      | ["cfg", loc, rn, start] => some { g with loc := b01 loc, rn := b01 rn, start := start }
      | ["t", n, c, r] => some { g with terms := g.terms ++ [{ name := n, content := b01 c, reach := b01 r }] }
      | ["n", n, r, v] => some { g with nts := g.nts ++ [{ name := n, reach := b01 r, vec := b01 v }] }
      | "p" :: nt :: k :: rn :: syms =>
        match syms.mapM parseRSym with
        | some rhs => some { g with prods := g.prods ++ [{ nt := nt, kind := optS k, rnLen := natS rn, rhs := rhs }] }
        | none => none
      | [] => some g
      | _ => none)
    (some { loc := false, rn := false, start := "", terms := [], nts := [], prods := [] })

/-! ### trees -/

def hexDigit (c : Char) : Nat :=
  if isDig c then c.toNat - '0'.toNat
  else if 'a'.toNat ≤ c.toNat && c.toNat ≤ 'f'.toNat then c.toNat - 'a'.toNat + 10 else 0

def unhexL : List Char → List UInt8
  | a :: b :: rest => (hexDigit a * 16 + hexDigit b).toUInt8 :: unhexL rest
  | _ => []

def unhexS (cs : List Char) : String :=
  if cs == ['='] then "" else
  match String.fromUTF8? (ByteArray.mk (unhexL cs).toArray) with
  | some s => s
  | none => ""

def takeNat : List Char → Nat → Nat × List Char
  | c :: cs, acc => if isDig c then takeNat cs (acc * 10 + (c.toNat - '0'.toNat)) else (acc, c :: cs)
  | [], acc => (acc, [])

def takeHex : List Char → List Char → List Char × List Char
  | c :: cs, acc => if c == ',' || c == ')' then (acc.reverse, c :: cs) else takeHex cs (c :: acc)
  | [], acc => (acc.reverse, [])

mutual
def parseTree : Nat → List Char → Option (PTree × List Char)
  | 0, _ => none
  | fuel + 1, cs =>
    match cs with
    | 't' :: rest =>
      let (k, rest) := takeNat rest 0
      match rest with
      | ':' :: rest => let (h, rest) := takeHex rest []; some (.leaf k (unhexS h), rest)
      | _ => none
    | 'n' :: rest =>
      let (p, rest) := takeNat rest 0
      match rest with
      | '(' :: ')' :: rest => some (.node p [], rest)
      | '(' :: rest =>
        match parseKids fuel rest with
        | some (ks, rest) => some (.node p ks, rest)
        | none => none
      | _ => none
    | _ => none
def parseKids : Nat → List Char → Option (List PTree × List Char)
  | 0, _ => none
  | fuel + 1, cs =>
    match parseTree fuel cs with
    | none => none
    | some (t, rest) =>
      match rest with
      | ',' :: rest =>
        match parseKids fuel rest with
        | some (ts, rest) => some (t :: ts, rest)
        | none => none
      | ')' :: rest => some ([t], rest)
      | _ => none
end

def parseTreeS (s : String) : Option PTree :=
  let cs := s.toList
  match parseTree (cs.length + 2) cs with
  | some (t, []) => some t
  | _ => none

/-! ### rendering -/

def hexNib (n : Nat) : Char := if n < 10 then Char.ofNat (n + 48) else Char.ofNat (n + 87)

def hexS (s : String) : String :=
  if s.isEmpty then "=" else
  String.ofList (s.toUTF8.toList.flatMap (fun b => [hexNib (b.toNat / 16), hexNib (b.toNat % 16)]))

mutual
def Val.render : Val → String
  | .str s => "'" ++ hexS s
  | .none => "~"
  | .some v => "?" ++ v.render
  | .vec vs => "[" ++ Val.renderL vs ++ "]"
  | .node n ls ks =>
    match ls, ks with
    | [], [] => n
    | [], _ => n ++ "(" ++ Val.renderL ks ++ ")"
    | _, _ => n ++ "{" ++ Val.renderF ls ks ++ "}"
  | .span v => "@" ++ v.render
def Val.renderL : List Val → String
  | [] => ""
  | [v] => v.render
  | v :: vs => v.render ++ "," ++ Val.renderL vs
def Val.renderF : List String → List Val → String
  | l :: ls, [v] => l ++ "=" ++ v.render ++ (if ls.isEmpty then "" else ",?")
  | l :: ls, v :: vs => l ++ "=" ++ v.render ++ "," ++ Val.renderF ls vs
  | [], v :: vs => "?=" ++ v.render ++ (if vs.isEmpty then "" else "," ++ Val.renderF [] vs)
  | _, [] => ""
end

def renderEval : Except Err (Option Val) → String
  | .ok (some v) => "ok " ++ v.render
  | .ok none => "novalue"
  | .error (.panic s) => "panic " ++ hexS s
  | .error .stack => "stack"
  | .error (.illTyped _) => "illtyped"

def semiJoin : List String → String
  | [] => ""
  | [a] => a
  | a :: as => a ++ ";" ++ semiJoin as

def allNames (g : AGrammar) : List String :=
  g.terms.map (·.name) ++ g.nts.map (·.name) ++ g.prods.flatMap (fun p =>
    (match p.kind with | some k => [k] | none => []) ++ p.rhs.flatMap (fun r => match r.label with | some l => [l] | none => []))

def fxOf (v : String) : Fixes := if v == "0" then Fixes.asWas else Fixes.repo

def classLine (fx : Fixes) (g : AGrammar) : String :=
  let ascii := (allNames g).all asciiIdent
  match symbolTypes fx g with
  | none => s!"types=0 ascii={n01 ascii}"
  | some ts =>
    let s := skeleton fx g ts
    s!"types=1 ascii={n01 ascii} distinct={n01 s.namesDistinct} declared={n01 s.refsDeclared} sized={n01 s.sized} arms={n01 s.armsTyped} vecalt={n01 s.vecAltsOk} veclabel={n01 s.vecLabelsOk} pk={n01 (nodup s.prodKinds)} wf={n01 s.wellFormed} rightvec={n01 (hasRightVec ts)} boollost={n01 (hasLostBool g)} variant={if fx == Fixes.repo then "repo" else "asWas"}"

def splitHash (s : String) : Option (String × String) :=
  match s.splitOn " # " with
  | [a, b] => some (a, b)
  | _ => none

def evalReq (fx : Fixes) (rest : String) : String :=
  match splitHash rest with
  | none => "bad-request"
  | some (gs, tr) =>
    match parseGrammar gs, parseTreeS ((tr.splitOn " ").foldl (· ++ ·) "") with
    | some g, some t =>
      match symbolTypes fx g with
      | none => "notypes"
      | some ts => renderEval (eval (shapesFor fx g ts) t)
    | _, _ => "bad-request"

def skelReq (fx : Fixes) (rest : String) : String :=
  match parseGrammar rest with
  | some g => match symbolTypes fx g with
    | some ts => semiJoin ((skeleton fx g ts).items.map Item.render)
    | none => "notypes"
  | none => "bad-request"

def armsReq (fx : Fixes) (rest : String) : String :=
  match parseGrammar rest with
  | some g => match symbolTypes fx g with
    | some ts => semiJoin ((skeleton fx g ts).calls.map Call.render)
    | none => "notypes"
  | none => "bad-request"

def classReq (fx : Fixes) (rest : String) : String :=
  match parseGrammar rest with
  | some g => classLine fx g
  | none => "bad-request"

def handleAst (args : String) : String :=
  match args.splitOn " " with
  | "eval" :: rest => evalReq Fixes.repo (" ".intercalate rest)
  | "skel" :: rest => skelReq Fixes.repo (" ".intercalate rest)
  | "arms" :: rest => armsReq Fixes.repo (" ".intercalate rest)
  | "class" :: rest => classReq Fixes.repo (" ".intercalate rest)
  | "evalv" :: v :: rest => evalReq (fxOf v) (" ".intercalate rest)
  | "skelv" :: v :: rest => skelReq (fxOf v) (" ".intercalate rest)
  | "armsv" :: v :: rest => armsReq (fxOf v) (" ".intercalate rest)
  | "classv" :: v :: rest => classReq (fxOf v) (" ".intercalate rest)
  | _ => "bad-request"

end Rustemo.Ast
