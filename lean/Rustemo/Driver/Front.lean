import Rustemo.Model.Front
/-!
# Driver for the front-end model (command word `front`)

    front build <fixes> <ast>   → ok <grammar records joined by " | ">      (same records as the hook's
                                   `dump_grammar`: grammar / term / nonterm / prod / end)
                                 | err <kind> <hex name|=> <production|->
                                 | panic <site>
    front class <fixes> <ast>   → space separated names of the well-formedness conjuncts of
                                   `Front.WF` that FAIL for the AST (`-` when none): the finding classes
    front variant               → the flags of `Front.repoVariant` that are on (`-` when none)

`<fixes>`: `repo` (= `Front.repoVariant`), `none`, `all`, or `+`-separated flag names.

`<ast>` (single-space separated tokens; names hex encoded, `=` for the empty string, `-` for none):

    file     := ("T-" | "T" n termrule*n) ("R-" | "R" n rule*n)
    termrule := "t" name annot recog nmeta metaitem*
    rule     := "r" name annot nmeta metaitem* nalts alt*
    alt      := "a" nassign assign* nmeta metaitem*
    assign   := "p" name ref | "b" name ref | "g" ref
    ref      := sym rep
    sym      := "n:"hex | "s:"hex | "G"                       (G = parenthesised group)
    rep      := "-" | op ":" mods        op ∈ Z ZG O OG Q QG   mods := "-" | "." | hex("+"hex)*
    metaitem := "k:"keyword | "i:"decimal | "u:"hex":"val | "K:"hex
    val      := "i:"decimal | "f:"hex(display text) | "b:"0|1 | "s:"hex
    recog    := "-" | "S:"hex | "R:"hex
-/
namespace Rustemo.Front

def hexDigit (c : Char) : Option Nat :=
  if '0' ≤ c && c ≤ '9' then some (c.toNat - 48)
  else if 'a' ≤ c && c ≤ 'f' then some (c.toNat - 87)
  else none

def unhexList : List Char → Option (List Nat)
  | [] => some []
  | a :: b :: rest => do
    let x ← hexDigit a
    let y ← hexDigit b
    let r ← unhexList rest
    pure ((x * 16 + y) :: r)
  | _ => none

def unhex (s : String) : Option Name := if s == "=" then some [] else unhexList s.toList

def hexNibble (n : Nat) : Char := if n < 10 then Char.ofNat (48 + n) else Char.ofNat (87 + n)

def hex (n : Name) : String :=
  if n.isEmpty then "=" else String.ofList (n.flatMap fun b => [hexNibble (b / 16), hexNibble (b % 16)])

def ohex : Option Name → String
  | some n => hex n
  | none => "-"

def asciiStr (n : Name) : String := String.ofList (n.map Char.ofNat)

abbrev P := StateT (List String) Option

def tok : P String := do
  match (← get) with
  | [] => failure
  | t :: ts => set ts; pure t

def expect (s : String) : P Unit := do
  let t ← tok
  if t == s then pure () else failure

def pNat : P Nat := do
  let t ← tok
  match t.toNat? with
  | some n => pure n
  | none => failure

def lift {α : Type} (o : Option α) : P α :=
  match o with
  | some a => pure a
  | none => failure

def pName : P Name := do lift (unhex (← tok))

def pOptName : P (Option Name) := do
  let t ← tok
  if t == "-" then pure none else do let n ← lift (unhex t); pure (some n)

def pRep (n : Nat) {α : Type} (p : P α) : P (List α) :=
  match n with
  | 0 => pure []
  | k + 1 => do let a ← p; let as ← pRep k p; pure (a :: as)

def kwOf : String → Option Kw
  | "left" => some .left
  | "reduce" => some .reduce
  | "right" => some .right
  | "shift" => some .shift
  | "dynamic" => some .dynamic
  | "nops" => some .nops
  | "nopse" => some .nopse
  | "prefer" => some .prefer
  | "finish" => some .finish
  | "nofinish" => some .nofinish
  | _ => none

def valOf (k v : String) : Option ConstVal :=
  match k with
  | "i" => v.toNat?.map ConstVal.int
  | "f" => (unhex v).map ConstVal.float
  | "b" => some (.bool (v == "1"))
  | "s" => (unhex v).map ConstVal.str
  | _ => none

def pMetaItem : P MetaItem := do
  let t ← tok
  match t.splitOn ":" with
  | ["k", w] => do let k ← lift (kwOf w); pure (.kw k)
  | ["i", d] => do let n ← lift d.toNat?; pure (.prio n)
  | ["K", h] => do let n ← lift (unhex h); pure (.kind n)
  | ["u", h, k, v] => do
    let n ← lift (unhex h)
    let c ← lift (valOf k v)
    pure (.user n c)
  | _ => failure

def pMetas : P (List MetaItem) := do
  let n ← pNat
  pRep n pMetaItem

def opOf : String → Option RepOp
  | "Z" => some .zeroOrMore
  | "ZG" => some .zeroOrMoreGreedy
  | "O" => some .oneOrMore
  | "OG" => some .oneOrMoreGreedy
  | "Q" => some .optional
  | "QG" => some .optionalGreedy
  | _ => none

def modsOf (s : String) : Option (Option (List Name)) :=
  if s == "-" then some none
  else if s == "." then some (some [])
  else ((s.splitOn "+").mapM unhex).map some

def pRef : P SymRef := do
  let s ← tok
  let gsym : Option GSym ← (match s.splitOn ":" with
    | ["G"] => pure none
    | ["n", h] => do let n ← lift (unhex h); pure (some (GSym.name n))
    | ["s", h] => do let n ← lift (unhex h); pure (some (GSym.str n))
    | _ => failure : P (Option GSym))
  let r ← tok
  if r == "-" then pure { gsym := gsym, rep := none }
  else match r.splitOn ":" with
    | [o, m] => do
      let op ← lift (opOf o)
      let mods ← lift (modsOf m)
      pure { gsym := gsym, rep := some { op := op, mods := mods } }
    | _ => failure

def pAssign : P Assign := do
  let t ← tok
  match t with
  | "p" => do let n ← pName; let r ← pRef; pure (.plain n r)
  | "b" => do let n ← pName; let r ← pRef; pure (.bool n r)
  | "g" => do let r ← pRef; pure (.ref r)
  | _ => failure

def pAlt : P Alt := do
  expect "a"
  let n ← pNat
  let as ← pRep n pAssign
  let ms ← pMetas
  pure { assigns := as, metas := ms }

def pRule : P Rule := do
  expect "r"
  let name ← pName
  let annot ← pOptName
  let ms ← pMetas
  let n ← pNat
  let alts ← pRep n pAlt
  pure { name := name, annotation := annot, metas := ms, alts := alts }

def pRecog : P (Option Recog) := do
  let t ← tok
  if t == "-" then pure none
  else match t.splitOn ":" with
    | ["S", h] => do let n ← lift (unhex h); pure (some (.str n))
    | ["R", h] => do let n ← lift (unhex h); pure (some (.regex n))
    | _ => failure

def pTermRule : P TermRule := do
  expect "t"
  let name ← pName
  let annot ← pOptName
  let rc ← pRecog
  let ms ← pMetas
  pure { name := name, annotation := annot, recog := rc, metas := ms }

def pFile : P File := do
  let t ← tok
  let terms ← (if t == "T-" then pure none else if t == "T" then do
      let n ← pNat
      let ts ← pRep n pTermRule
      pure (some ts) else failure : P (Option (List TermRule)))
  let r ← tok
  let rules ← (if r == "R-" then pure none else if r == "R" then do
      let n ← pNat
      let rs ← pRep n pRule
      pure (some rs) else failure : P (Option (List Rule)))
  pure { rules := rules, terms := terms }

def parseFile (toks : List String) : Option File :=
  match pFile.run toks with
  | some (f, []) => some f
  | _ => none

/-! ## fixes -/

def flagNames : List (String × (Fixes → Bool) × (Fixes → Fixes)) :=
  [("emptyErr", (·.emptyErr), fun f => { f with emptyErr := true }),
   ("sepInName", (·.sepInName), fun f => { f with sepInName := true }),
   ("assocOne", (·.assocOne), fun f => { f with assocOne := true }),
   ("groupErr", (·.groupErr), fun f => { f with groupErr := true }),
   ("greedyErr", (·.greedyErr), fun f => { f with greedyErr := true }),
   ("modifiersErr", (·.modifiersErr), fun f => { f with modifiersErr := true }),
   ("noRulesErr", (·.noRulesErr), fun f => { f with noRulesErr := true }),
   ("intErr", (·.intErr), fun f => { f with intErr := true }),
   ("dupNameErr", (·.dupNameErr), fun f => { f with dupNameErr := true }),
   ("helperClashErr", (·.helperClashErr), fun f => { f with helperClashErr := true }),
   ("kindIdentErr", (·.kindIdentErr), fun f => { f with kindIdentErr := true }),
   ("stopRefErr", (·.stopRefErr), fun f => { f with stopRefErr := true }),
   ("reservedErr", (·.reservedErr), fun f => { f with reservedErr := true }),
   ("reservedRefErr", (·.reservedRefErr), fun f => { f with reservedRefErr := true })]

def fixesOf (s : String) : Option Fixes :=
  match s with
  | "repo" => some repoVariant
  | "none" => some {}
  | "all" => some Fixes.all
  | _ => (s.splitOn "+").foldlM (fun acc w =>
      match flagNames.find? (fun e => e.1 == w) with
      | some e => some (e.2.2 acc)
      | none => none) ({} : Fixes)

def showFixes (fx : Fixes) : String :=
  let on := (flagNames.filter (fun e => e.2.1 fx)).map (·.1)
  if on.isEmpty then "-" else "+".intercalate on

/-! ## printing (the hook's `dump_grammar` records) -/

def Assoc.str : Assoc → String
  | .none => "N"
  | .left => "L"
  | .right => "R"

def b01 (b : Bool) : String := if b then "1" else "0"

def constvalStr : ConstVal → String
  | .int n => s!"i:{n}"
  | .float d => s!"f:{asciiStr d}"
  | .bool b => s!"b:{b}"
  | .str s => s!"s:{hex s}"

def metaStr (m : Meta) : List String := m.map fun kv => s!"{hex kv.1}={constvalStr kv.2}"

def recogStr : Option Recog → String
  | some (.str s) => s!"S:{hex s}"
  | some (.regex s) => s!"R:{hex s}"
  | none => "-"

def termRec (t : Term) : String :=
  " ".intercalate (["term", toString t.idx, hex t.name, toString t.prio, t.assoc.str, recogStr t.recog,
    b01 t.hasContent, b01 t.reachable, ohex t.annotation, toString t.mdata.length] ++ metaStr t.mdata)

def ntRec (n : NonTerm) : String :=
  " ".intercalate (["nonterm", toString n.idx, hex n.name, b01 n.reachable, ohex n.annotation,
    toString n.prods.length] ++ n.prods.map toString)

def rhsStr (a : RAssign) : String :=
  s!"{a.symbol}:{match a.name with | some n => hex n | none => "-"}:{b01 a.isBool}"

def prodRec (p : GProd) : String :=
  " ".intercalate (["prod", toString p.idx, toString p.nonterminal, toString p.ntidx, ohex p.kind,
    toString p.prio, p.assoc.str, b01 p.nops, b01 p.nopse, b01 p.dynamic, toString p.rhs.length]
    ++ p.rhs.map rhsStr ++ [toString p.mdata.length] ++ metaStr p.mdata)

def grammarRecs (g : Grammar) : String :=
  let head := " ".intercalate ["grammar", toString g.terminals.length, toString g.nonterminals.length,
    toString g.prods.length, toString g.emptyIdx, toString g.stopIdx, toString g.augIdx,
    (match g.auglIdx with | some i => toString i | none => "-"), toString g.startIdx]
  " | ".intercalate ([head] ++ g.terminals.map termRec ++ g.nonterminals.map ntRec ++ g.prods.map prodRec ++ ["end"])

def Site.str : Site → String
  | .intConst => "intConst"
  | .rules0 => "rules0"
  | .augUnwrap => "augUnwrap"
  | .startUnwrap => "startUnwrap"
  | .modifiersAssert => "modifiersAssert"
  | .groupExpect => "groupExpect"
  | .gsymbolUnwrap => "gsymbolUnwrap"
  | .greedyTodo => "greedyTodo"
  | .strConstUnresolved => "strConstUnresolved"
  | .reachIndex => "reachIndex"

def Diag.str : Diag → String
  | .invalidIdent n => s!"ident {hex n} -"
  | .prioTooBig => "prio99 = -"
  | .undefSugar s => s!"undefsugar {hex s} -"
  | .undefInline s p => s!"undefinline {hex s} {p}"
  | .unexisting n p => s!"unexisting {hex n} {p}"
  | .infiniteRecursion n p => s!"infrec {hex n} {p}"
  | .emptyMisuse => "emptymisuse = -"
  | .helperClash n => s!"helperclash {hex n} -"
  | .dupName n => s!"dupname {hex n} -"
  | .notImplemented => "notimplemented = -"
  | .noRules => "norules = -"
  | .intTooBig => "inttoobig = -"
  | .stopRef p => s!"stopref = {p}"
  | .reserved n => s!"reserved {hex n} -"

def showOutcome : R Grammar → String
  | .ok g => "ok " ++ grammarRecs g
  | .err e => "err " ++ e.str
  | .panic s => "panic " ++ s.str

def handleFront (args : String) : String :=
  match args.splitOn " " with
  | ["variant"] => showFixes repoVariant
  | "build" :: fxs :: toks =>
    match fixesOf fxs, parseFile toks with
    | some fx, some f => showOutcome (build fx f)
    | _, _ => "bad-request"
  | "class" :: fxs :: toks =>
    match fixesOf fxs, parseFile toks with
    | some fx, some f =>
      let bad := failingClasses fx f
      if bad.isEmpty then "-" else " ".intercalate bad
    | _, _ => "bad-request"
  | _ => "bad-request"

end Rustemo.Front
