import Rustemo.Model.Gen
import Rustemo.Model.Dump
/-!
Driver command `gen` (property C08).

  gen code A|F <dump records separated by |>   → the generated code of the model, canonical text
  gen eval A|F <dump …>                        → every query answered by the model's evaluators
  gen wf <dump …>                              → `wf 1` or `wf 0 <first failing condition>`

Canonical code text (records separated by ` | `), the same `harness/gen` prints for the real file:

  A | const TERMINAL_COUNT=n NONTERMINAL_COUNT=n STATE_COUNT=n MAX_ACTIONS=n MAX_RECOGNIZERS=n
    | enum State v v … | enum TokenKind … | enum ProdKind … | enum NonTermKind …
    | from pk>nt pk>nt … | layout <state ident or ->
    | act <s> cell;cell;…        cell = expr,expr,…   expr = S:<state> | R:<prodkind>:<len> | A | E
    | goto <s> x,x,…             x = <state ident> | -
    | tk <s> x,x,…               x = <token kind>:<0|1> | -
    | flags lm=<bool> go=<bool>  bodies of `longest_match()` / `grammar_order()`
    | impl <hex of the constant text>
  F | const STATE_COUNT=n MAX_RECOGNIZERS=n TERMINAL_COUNT=n | enum … | from … | layout …
    | afn <s> arm;arm;…          arm = <token kind>=>cell | _      (`_` = the `_ => vec![]` arm)
    | gfn <s> arm;arm;…;_!       arm = <nonterm kind>><state ident>   or   gfn <s> invalid
    | tk … | flags … | impl …

Canonical query text:

  Q | act <s> cell;…   cell = - | act,act,…  act = S<i> | R<k>.<len> | A | E     (one cell per token kind)
    | goto <s> x,…     x = <i> | !                                               (one per nonterminal kind)
    | exp <s> x,…      x = <k>:<0|1>   (`-` if empty)
    | from x,…         NonTermKind discriminant per ProdKind discriminant
    | layout <i or ->
-/
namespace Rustemo
namespace Gen

def joinOr (sep : String) (empty : String) (l : List String) : String :=
  if l.isEmpty then empty else sep.intercalate l

def renderExpr : AExpr → String
  | .shift s => s!"S:{s}"
  | .reduce pk l => s!"R:{pk}:{l}"
  | .accept => "A"
  | .error => "E"

def renderCellExprs (c : List AExpr) : String := joinOr "," "." (c.map renderExpr)

def renderKind : Option (String × Bool) → String
  | some (n, f) => s!"{n}:{if f then 1 else 0}"
  | none => "-"

def renderEnums (e : Enums) : List String :=
  [ "enum State " ++ " ".intercalate e.states,
    "enum TokenKind " ++ " ".intercalate e.tokens,
    "enum ProdKind " ++ " ".intercalate e.prods,
    "enum NonTermKind " ++ " ".intercalate e.nonterms,
    "from " ++ " ".intercalate (e.fromArms.map (fun a => s!"{a.1}>{a.2}")),
    "layout " ++ (e.layout.getD "-") ]

def hexDigit (n : Nat) : Char := if n < 10 then Char.ofNat (48 + n) else Char.ofNat (87 + n)

def hexOf (s : String) : String :=
  if s.isEmpty then "=" else
  String.ofList (s.toUTF8.toList.flatMap (fun b => [hexDigit (b.toNat / 16), hexDigit (b.toNat % 16)]))

def flagsRecord (st : Settings) : String :=
  let lm := if st.longestMatch then "true" else "false"
  let go := if st.grammarOrder then "true" else "false"
  s!"flags lm={lm} go={go}"

def indexed (tag : String) (rows : List String) : List String :=
  rows.zipIdx.map (fun ri => s!"{tag} {ri.2} {ri.1}")

def renderTk (rows : List (List (Option (String × Bool)))) : List String :=
  indexed "tk" (rows.map (fun r => joinOr "," "~" (r.map renderKind)))

def renderArr (c : ArrCode) (e : Enums) (st : Settings) : String :=
  " | ".intercalate (
    ["A", s!"const TERMINAL_COUNT={c.terminalCount} NONTERMINAL_COUNT={c.nonterminalCount} STATE_COUNT={c.stateCount} MAX_ACTIONS={c.maxActions} MAX_RECOGNIZERS={c.maxRecognizers}"]
    ++ renderEnums e
    ++ indexed "act" (c.actions.map (fun row => joinOr ";" "~" (row.map renderCellExprs)))
    ++ indexed "goto" (c.gotos.map (fun row => joinOr "," "~" (row.map (fun x => x.getD "-"))))
    ++ renderTk c.tokenKinds
    ++ [flagsRecord st, "impl " ++ hexOf arraysImplText])

def renderActionFn (f : ActionFn) : String :=
  joinOr ";" "~" (f.arms.map (fun a => s!"{a.1}=>{renderCellExprs a.2}") ++ (if f.catchAll then ["_"] else []))

def renderGotoFn : Option GotoFn → String
  | none => "invalid"
  | some f => ";".intercalate (f.arms.map (fun a => s!"{a.1}>{a.2}") ++ ["_!"])

def renderFn (c : FnCode) (e : Enums) (st : Settings) : String :=
  " | ".intercalate (
    ["F", s!"const STATE_COUNT={c.stateCount} MAX_RECOGNIZERS={c.maxRecognizers} TERMINAL_COUNT={c.terminalCount}"]
    ++ renderEnums e
    ++ indexed "afn" (c.actionFns.map renderActionFn)
    ++ indexed "gfn" (c.gotoFns.map renderGotoFn)
    ++ renderTk c.tokenKinds
    ++ [flagsRecord st, "impl " ++ hexOf functionsImplText])

/-! queries -/

def renderCAct : CAct → String
  | .shift s => s!"S{s}"
  | .reduce k l => s!"R{k}.{l}"
  | .accept => "A"
  | .error => "E"

def renderRes {α : Type} (f : α → String) : Res α → String
  | .ok a => f a
  | .panic _ => "!"
  | .ill w => s!"ILL({w.replace " " "_"})"

def renderQueries (ns na nn np : Nat) (e : Enums)
    (act : Nat → Nat → Res (List CAct)) (goto : Nat → Nat → Res Nat)
    (exp : Nat → Res (List (Nat × Bool))) : String :=
  let acts := (List.range ns).map fun s =>
    s!"act {s} " ++ joinOr ";" "~" ((List.range na).map fun a =>
      renderRes (fun l => joinOr "," "-" (l.map renderCAct)) (act s a))
  let gotos := (List.range ns).map fun s =>
    s!"goto {s} " ++ joinOr "," "~" ((List.range nn).map fun n => renderRes toString (goto s n))
  let exps := (List.range ns).map fun s =>
    s!"exp {s} " ++ renderRes (fun l => joinOr "," "-" (l.map fun kf => s!"{kf.1}:{if kf.2 then 1 else 0}")) (exp s)
  let from_ := "from " ++ joinOr "," "-" ((List.range np).map fun k => renderRes toString (e.fromQ k))
  let lay := "layout " ++ renderRes (fun o => match o with | some i => toString i | none => "-") e.layoutQ
  " | ".intercalate (["Q"] ++ acts ++ gotos ++ exps ++ [from_, lay])

/-- first failing conjunct of `WF`, for diagnostics -/
def wfWhy (g : Grammar) (t : Table) : String :=
  if !(g.terms.size == g.nterms) then "terms.size"
  else if !(g.ntNames.size == g.nnonterms) then "ntNames.size"
  else if t.states.isEmpty then "no-states"
  else if !(t.states.toList.all (stateOk g t)) then
    let bad := (t.states.toList.zipIdx.filter (fun si => !stateOk g t si.1)).map (·.2)
    s!"stateOk {bad.head?.getD 0}"
  else if !((userProds g).all (prodOk g)) then "prodOk"
  else if !(layoutOk t) then "layoutOk"
  else if !(decide (enums g t).states.Nodup) then "dup-State-variant"
  else if !(decide (enums g t).tokens.Nodup) then "dup-TokenKind-variant"
  else if !(decide (enums g t).prods.Nodup) then "dup-ProdKind-variant"
  else if !(decide (enums g t).nonterms.Nodup) then "dup-NonTermKind-variant"
  else "?"

def handleGen (args : String) : String :=
  let (cmd, rest) := match args.splitOn " " with
    | c :: r => (c, " ".intercalate r)
    | [] => ("", "")
  if cmd == "wf" then
    let d := Dump.parse rest
    if WF d.grammar d.table then "wf 1" else "wf 0 " ++ wfWhy d.grammar d.table
  else
    let (lay, rest) := match rest.splitOn " " with
      | c :: r => (c, " ".intercalate r)
      | [] => ("", "")
    let d := Dump.parse rest
    let g := d.grammar
    let t := d.table
    let e := enums g t
    match cmd, lay with
    | "code", "A" =>
      match arrays g t with
      | some c => renderArr c e d.settings
      | none => "generator-panic " ++ wfWhy g t
    | "code", "F" =>
      match functions g t with
      | some c => renderFn c e d.settings
      | none => "generator-panic " ++ wfWhy g t
    | "eval", "A" =>
      match arrays g t with
      | some c => renderQueries t.states.size g.nterms g.nnonterms e.prods.length e
                    (c.actionsQ e) (c.gotoQ e) (c.expectedQ e)
      | none => "generator-panic " ++ wfWhy g t
    | "eval", "F" =>
      match functions g t with
      | some c => renderQueries t.states.size g.nterms g.nnonterms e.prods.length e
                    (c.actionsQ e) (c.gotoQ e) (c.expectedQ e)
      | none => "generator-panic " ++ wfWhy g t
    | _, _ => "bad-request"

end Gen
end Rustemo
