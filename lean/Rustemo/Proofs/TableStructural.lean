import Rustemo.Proofs.TableBuilt
import Rustemo.Proofs.ResolveCell
import Rustemo.Proofs.CompleteCert
/-!
# Table construction: every table `build` returns passes the structural certificate

`Facts g t autos`: what the invariant of the construction says about the final table, in the vocabulary
of `Cert.structural` / `Cert.structuralRN`.
-/
namespace Rustemo.Table

variable {g : Grammar}

/-! ## introduction rules of the certificate's quantifiers -/

theorem forStates_intro {t : Table} {f : Nat → State → Bool}
    (h : ∀ (i : Nat) (st : State), t.states[i]? = some st → f i st = true) : t.forStates f = true := by
  unfold Table.forStates
  rw [List.all_eq_true]
  intro i hi
  have hi' := List.mem_range.mp hi
  rw [Array.getElem?_eq_getElem hi']
  exact h i _ (Array.getElem?_eq_getElem hi')

theorem forCells_intro {st : State} {f : Nat → Action → Bool}
    (h : ∀ a act, act ∈ st.actions.getD a [] → f a act = true) : st.forCells f = true := by
  unfold State.forCells
  rw [List.all_eq_true]
  intro a _
  rw [List.all_eq_true]
  exact fun act hact => h a act hact

theorem forGotos_intro {st : State} {f : Nat → Nat → Bool}
    (h : ∀ j s', st.gotos.getD j none = some s' → f j s' = true) : st.forGotos f = true := by
  unfold State.forGotos
  rw [List.all_eq_true]
  intro j _
  split
  · rename_i s' hs'; exact h j s' hs'
  · rfl

theorem hasItemB_intro {st : State} {p d : Nat} (h : (p, d) ∈ st.items.map core) : st.hasItemB p d = true := by
  unfold State.hasItemB
  rw [List.any_eq_true]
  obtain ⟨it, h1, h2⟩ := List.mem_map.mp h
  simp only [core, _root_.Prod.mk.injEq] at h2
  exact ⟨it, h1, by simp [h2.1, h2.2]⟩

/-! ## the automata of the table -/

theorem find?_of_filter_singleton {α} {p q : α → Bool} (hpq : ∀ x, p x = q x) :
    ∀ {l : List α} {a : α}, l.filter q = [a] → l.find? p = some a
  | [], a, h => by simp at h
  | x :: xs, a, h => by
    rw [List.filter_cons] at h
    rw [List.find?_cons]
    by_cases hq : q x = true
    · rw [if_pos hq] at h
      simp only [List.cons.injEq] at h
      rw [hpq x, hq]; simp [h.1]
    · rw [if_neg hq] at h
      have : p x = false := by rw [hpq x]; simpa using hq
      rw [this]
      exact find?_of_filter_singleton hpq h

theorem auglProd_eq {l pl : Nat} (h1 : g.auglIdx = some l) (h3 : Canon.prodsOf g l = [pl]) :
    g.auglProd = some pl := by
  unfold Grammar.auglProd
  unfold Canon.prodsOf at h3
  apply find?_of_filter_singleton _ h3
  intro p
  cases g.prods[p]? with
  | none => rfl
  | some pr => simp [h1]

/-- the list of `Auto`s the certificates quantify over, against the pairs of the invariant -/
theorem autosOf_spec (hg : GW g) {t : Table} {autos : List (Nat × Nat)} (h : AutosOf g t autos) :
    (∀ a ∈ autosOf g t, (a.start, a.aug) ∈ autos ∧ ∃ pr, g.prods[a.aug]? = some pr ∧ pr.rhs = [a.sym]) ∧
    (∀ e ∈ autos, ∃ a ∈ autosOf g t, a.start = e.1 ∧ a.aug = e.2) ∧
    (∀ a ∈ autosOf g t, ∀ b ∈ autosOf g t, a.start = b.start → a = b) := by
  obtain ⟨pr0, p1, _, p3⟩ := hg.aug0
  cases h with
  | main h1 h2 =>
    have : autosOf g t = [⟨0, 0, g.startIdx⟩] := by
      unfold autosOf; rw [h2]
    rw [this]
    refine ⟨?_, ?_, ?_⟩
    · intro a ha
      simp only [List.mem_singleton] at ha; subst ha
      exact ⟨by simp, pr0, p1, p3⟩
    · intro e he
      simp only [List.mem_singleton] at he; subst he
      exact ⟨_, List.mem_cons_self, rfl, rfl⟩
    · intro a ha b hb _
      simp only [List.mem_singleton] at ha hb; rw [ha, hb]
  | layout l pl ls h1 h2 h3 h4 =>
    obtain ⟨_, _, _, pl', prl, q1, q2, q3⟩ := hg.augl l h1
    rw [h3] at q1
    simp only [List.cons.injEq, and_true] at q1
    subst q1
    obtain ⟨lsym, hl⟩ : ∃ lsym, prl.rhs = [lsym] := by
      cases hr : prl.rhs with
      | nil => rw [hr] at q3; simp at q3
      | cons x xs =>
        cases xs with
        | nil => exact ⟨x, rfl⟩
        | cons y ys => rw [hr] at q3; simp at q3
    have : autosOf g t = [⟨0, 0, g.startIdx⟩, ⟨ls, pl, lsym⟩] := by
      unfold autosOf
      rw [h2, auglProd_eq h1 h3]
      simp only [q2, hl]
    rw [this]
    refine ⟨?_, ?_, ?_⟩
    · intro a ha
      simp only [List.mem_cons, List.not_mem_nil, or_false] at ha
      rcases ha with ha | ha
      · subst ha; exact ⟨by simp, pr0, p1, p3⟩
      · subst ha; exact ⟨by simp, prl, q2, hl⟩
    · intro e he
      simp only [List.mem_cons, List.not_mem_nil, or_false] at he
      rcases he with he | he
      · subst he; exact ⟨⟨ls, pl, lsym⟩, by simp, rfl, rfl⟩
      · subst he; exact ⟨⟨0, 0, g.startIdx⟩, by simp, rfl, rfl⟩
    · intro a ha b hb hab
      simp only [List.mem_cons, List.not_mem_nil, or_false] at ha hb
      rcases ha with ha | ha <;> rcases hb with hb | hb <;> subst ha <;> subst hb
      · rfl
      · simp only at hab; omega
      · simp only at hab; omega
      · rfl

/-- augmented productions are the productions of the automata -/
theorem augProd_auto (hg : GW g) {t : Table} {autos : List (Nat × Nat)} (h : AutosOf g t autos) {p : Nat}
    (hp : Resolve.isAugProd g p = true) : ∃ e ∈ autos, e.2 = p := by
  unfold Resolve.isAugProd at hp
  split at hp
  · rename_i pr hpr
    have hm := Rustemo.mem_prodsOf hpr
    simp only [Bool.or_eq_true, beq_iff_eq] at hp
    rcases hp with hp | hp
    · rw [hp, hg.aug_prods] at hm
      simp only [List.mem_singleton] at hm
      cases h with
      | main => exact ⟨(0, 0), by simp, hm.symm⟩
      | layout => exact ⟨(0, 0), by simp, hm.symm⟩
    · cases h with
      | main h1 h2 => rw [h1] at hp; simp at hp
      | layout l pl ls h1 h2 h3 h4 =>
        rw [h1] at hp
        simp only [beq_iff_eq] at hp
        rw [hp, h3] at hm
        simp only [List.mem_singleton] at hm
        exact ⟨(ls, pl), by simp, hm.symm⟩
  · simp at hp

theorem auto_augProd (hg : GW g) {t : Table} {autos : List (Nat × Nat)} (h : AutosOf g t autos) :
    ∀ e ∈ autos, AugProd g e.2 := by
  intro e he
  obtain ⟨pr0, p1, p2, _⟩ := hg.aug0
  cases h with
  | main =>
    simp only [List.mem_singleton] at he; subst he
    exact ⟨pr0, p1, .inl p2⟩
  | layout l pl ls h1 h2 h3 h4 =>
    simp only [List.mem_cons, List.not_mem_nil, or_false] at he
    rcases he with he | he
    · subst he
      obtain ⟨pr, q1, q2⟩ := prodsOf_mem (by rw [h3]; exact List.mem_cons_self : pl ∈ Canon.prodsOf g l)
      exact ⟨pr, q1, .inr (by rw [q2, h1])⟩
    · subst he; exact ⟨pr0, p1, .inl p2⟩

/-- two automata with the same augmented production are the same automaton -/
theorem auto_unique (hg : GW g) {t : Table} {autos : List (Nat × Nat)} (h : AutosOf g t autos) :
    ∀ e ∈ autos, ∀ e' ∈ autos, e.2 = e'.2 → e = e' := by
  intro e he e' he' hee
  cases h with
  | main =>
    simp only [List.mem_singleton] at he he'; rw [he, he']
  | layout l pl ls h1 h2 h3 h4 =>
    have hne : pl ≠ 0 := by
      intro h0
      obtain ⟨pr, q1, q2⟩ := prodsOf_mem (by rw [h3]; exact List.mem_cons_self : pl ∈ Canon.prodsOf g l)
      obtain ⟨pr0, p1, p2, _⟩ := hg.aug0
      rw [h0, p1] at q1
      simp only [Option.some.injEq] at q1
      subst q1
      have := (hg.augl l h1).2.2.1
      exact this (q2 ▸ p2)
    simp only [List.mem_cons, List.not_mem_nil, or_false] at he he'
    rcases he with he | he <;> rcases he' with he' | he' <;> subst he <;> subst he'
    · rfl
    · simp only at hee; exact absurd hee hne
    · simp only at hee; exact absurd hee.symm hne
    · rfl

end Rustemo.Table

namespace Rustemo.Table

variable {g : Grammar}

/-! ## the cells of the final table -/

theorem evOf_red {rn : Option (Array Nat)} {t : Nat} {it : Item} {r : Resolve.Red}
    (h : Resolve.evOf g rn t it = some (.red r)) :
    Resolve.isReducing g rn it = true ∧ Resolve.isAugProd g it.prod = false ∧ t ∈ it.la ∧ r = ⟨it.prod, it.dot⟩ := by
  unfold Resolve.evOf at h
  by_cases h1 : Resolve.isReducing g rn it = true
  · simp only [h1, Bool.not_true, Bool.false_eq_true, if_false] at h
    by_cases h2 : Resolve.isAugProd g it.prod = true
    · rw [if_pos h2] at h
      split at h <;> simp at h
    · rw [if_neg h2] at h
      split at h
      · rename_i hc
        simp only [Option.some.injEq, Resolve.Ev.red.injEq] at h
        exact ⟨h1, by simpa using h2, by simpa using hc, h.symm⟩
      · simp at h
  · simp [h1] at h

theorem evOf_accept {rn : Option (Array Nat)} {t : Nat} {it : Item}
    (h : Resolve.evOf g rn t it = some .accept) :
    Resolve.isAugProd g it.prod = true ∧ t = 0 ∧ it.dot = (Resolve.infoOf g it.prod).len := by
  unfold Resolve.evOf at h
  by_cases h1 : Resolve.isReducing g rn it = true
  · simp only [h1, Bool.not_true, Bool.false_eq_true, if_false] at h
    by_cases h2 : Resolve.isAugProd g it.prod = true
    · rw [if_pos h2] at h
      split at h
      · rename_i hc
        simp only [Bool.and_eq_true, beq_iff_eq] at hc
        exact ⟨h2, hc.1, hc.2⟩
      · simp at h
    · rw [if_neg h2] at h
      split at h <;> simp at h
  · simp [h1] at h

theorem ofOutcome_ok {α} {o : Outcome α} {a : α} (h : ofOutcome o = .ok a) : o = .ok a := by
  cases o <;> simp [ofOutcome] at h
  subst h; rfl

/-- where an action of a final cell comes from -/
theorem final_cell {s : Settings} {rn : Option (Array Nat)} {st st' : State}
    (hfin : finishState g s rn st = .ok st') {a : Nat} {act : Action} (h : act ∈ st'.actions.getD a []) :
    a < g.nterms ∧ (act ∈ st.actions.getD a [] ∨
      (act = .accept ∧ ∃ it ∈ st.items, Resolve.evOf g rn a it = some .accept) ∨
      ∃ it ∈ st.items, ∃ r, Resolve.evOf g rn a it = some (.red r) ∧ act = .reduce r.prod r.pos) := by
  obtain ⟨_, _, _, _, f5, _, f7, _⟩ := finishState_spec hfin
  have ha : a < g.nterms := by
    rcases Nat.lt_or_ge a g.nterms with h' | h'
    · exact h'
    · rw [Array.getD_eq_getD_getElem?, Array.getElem?_eq_none (by omega)] at h
      simp at h
  refine ⟨ha, ?_⟩
  obtain ⟨c, c1, c2⟩ := f7 a ha
  rw [Array.getD_eq_getD_getElem?, c1] at h
  simp only [Option.getD_some] at h
  unfold finishCell at c2
  have c3 := ofOutcome_ok c2
  rcases Resolve.mem_cell _ _ _ _ _ _ _ _ c3 act h with h1 | ⟨h1, h2⟩ | ⟨r, h1, h2⟩
  · exact .inl h1
  · right; left
    refine ⟨h1, ?_⟩
    unfold Resolve.events at h2
    obtain ⟨it, i1, i2⟩ := List.mem_filterMap.mp h2
    exact ⟨it, i1, i2⟩
  · right; right
    unfold Resolve.events at h1
    obtain ⟨it, i1, i2⟩ := List.mem_filterMap.mp h1
    exact ⟨it, i1, r, i2, h2⟩

/-- what the construction guarantees of the final table, in the vocabulary of the structural certificates;
    `R p len` is what is known of a `Reduce(p, len)` entry -/
structure Facts (g : Grammar) (t : Table) (R : State → Nat → Nat → Prop) : Prop where
  items : ∀ (i : Nat) (st : State), t.states[i]? = some st → ∀ it ∈ st.items, ItemOk g it
  autos : ∀ (i : Nat) (st : State), t.states[i]? = some st → ∀ it ∈ st.items, ∀ a ∈ autosOf g t,
    (i = a.start → it.dot = 0) ∧ (it.prod = a.aug → it.dot = 0 → i = a.start)
  asize : ∀ (i : Nat) (st : State), t.states[i]? = some st → st.actions.size = g.nterms
  shift : ∀ (i : Nat) (st : State), t.states[i]? = some st → ∀ a s', Action.shift s' ∈ st.actions.getD a [] →
    (∀ au ∈ autosOf g t, s' ≠ au.start) ∧ t.targetOk g st a s' = true
  reduce : ∀ (i : Nat) (st : State), t.states[i]? = some st → ∀ a p len, Action.reduce p len ∈ st.actions.getD a [] →
    R st p len
  accept : ∀ (i : Nat) (st : State), t.states[i]? = some st → ∀ a, Action.accept ∈ st.actions.getD a [] →
    ∃ au ∈ autosOf g t, ∃ pr, g.prods[au.aug]? = some pr ∧ pr.rhs = [au.sym] ∧ (au.aug, 1) ∈ st.items.map core
  goto : ∀ (i : Nat) (st : State), t.states[i]? = some st → ∀ j s', st.gotos.getD j none = some s' →
    (∀ au ∈ autosOf g t, s' ≠ au.start) ∧ t.targetOk g st (g.nterms + j) s' = true
  distinct : ∀ a ∈ autosOf g t, ∀ b ∈ autosOf g t, a.start = b.start → a = b

theorem targetOk_intro {t : Table} {s : Settings} {sts : Array State} {autos : List (Nat × Nat)}
    (hF : Final g s t sts autos) {st st' : State} (hitems : st'.items = st.items) {X s' : Nat}
    (h : TgtOk g sts st X s') : t.targetOk g st' X s' = true := by
  unfold Table.targetOk
  split
  · rfl
  · rename_i st2' hs2
    obtain ⟨st2, h1, h2⟩ := hF.fin s' st2' hs2
    have hi2 := (finishState_spec h2).1
    rw [List.all_eq_true]
    intro it hit
    rw [hi2] at hit
    by_cases hd : it.dot = 0
    · simp [hd]
    · obtain ⟨t1, t2⟩ := h st2 h1 it hit hd
      simp only [Bool.or_eq_true, beq_iff_eq, Bool.and_eq_true]
      right
      exact ⟨t1, hasItemB_intro (by rw [hitems]; exact t2)⟩

theorem final_facts (hg : GW g) {t : Table} {s : Settings} {sts : Array State} {autos : List (Nat × Nat)}
    (hF : Final g s t sts autos) :
    Facts g t (fun st p len => ∃ it ∈ st.items, ItemOk g it ∧ it.prod = p ∧ it.dot = len ∧
      Resolve.isReducing g t.rnLens it = true ∧ Resolve.isAugProd g p = false) := by
  obtain ⟨q1, q2, q3⟩ := autosOf_spec hg hF.autos
  have hI := hF.inv
  refine ⟨?_, ?_, ?_, ?_, ?_, ?_, ?_, q3⟩
  · intro i st' hs it hit
    obtain ⟨st, h1, h2⟩ := hF.fin i st' hs
    rw [(finishState_spec h2).1] at hit
    exact (hI.st i st h1).items it hit
  · intro i st' hs it hit a ha
    obtain ⟨st, h1, h2⟩ := hF.fin i st' hs
    rw [(finishState_spec h2).1] at hit
    obtain ⟨a1, _⟩ := q1 a ha
    refine ⟨?_, ?_⟩
    · intro hia
      obtain ⟨sta, s1, s2, _⟩ := hI.starts _ a1
      simp only at s1
      rw [← hia, h1] at s1
      simp only [Option.some.injEq] at s1
      subst s1
      exact s2 it hit
    · intro hp hd
      have hau : AugProd g it.prod := by rw [hp]; exact auto_augProd hg hF.autos _ a1
      have := hI.augs i st h1 it hit hd hau
      have := auto_unique hg hF.autos _ this _ a1 (by simp [hp])
      simp only [_root_.Prod.mk.injEq] at this
      exact this.1
  · intro i st' hs
    obtain ⟨st, h1, h2⟩ := hF.fin i st' hs
    exact (finishState_spec h2).2.2.2.2.1
  · intro i st' hs a s' hm
    obtain ⟨st, h1, h2⟩ := hF.fin i st' hs
    obtain ⟨ha, hc⟩ := final_cell h2 hm
    have hinit : Action.shift s' ∈ st.actions.getD a [] := by
      rcases hc with hc | ⟨hc, _⟩ | ⟨_, _, _, _, hc⟩
      · exact hc
      · cases hc
      · cases hc
    obtain ⟨t1, t2, t3⟩ := hI.trans i st h1 a s' (.inl ⟨ha, hinit⟩)
    refine ⟨?_, targetOk_intro hF (finishState_spec h2).1 t3⟩
    intro au hau
    exact t2 _ (q1 au hau).1
  · intro i st' hs a p len hm
    obtain ⟨st, h1, h2⟩ := hF.fin i st' hs
    obtain ⟨ha, hc⟩ := final_cell h2 hm
    rcases hc with hc | ⟨hc, _⟩ | ⟨it, i1, r, i2, hc⟩
    · obtain ⟨s', hs'⟩ := (hI.st i st h1).cells a _ hc
      cases hs'
    · cases hc
    · obtain ⟨e1, e2, _, e4⟩ := evOf_red i2
      subst e4
      simp only [Action.reduce.injEq] at hc
      refine ⟨it, by rw [(finishState_spec h2).1]; exact i1, (hI.st i st h1).items it i1, hc.1.symm, hc.2.symm, e1,
        by rw [hc.1]; exact e2⟩
  · intro i st' hs a hm
    obtain ⟨st, h1, h2⟩ := hF.fin i st' hs
    obtain ⟨ha, hc⟩ := final_cell h2 hm
    rcases hc with hc | ⟨_, it, i1, i2⟩ | ⟨_, _, _, _, hc⟩
    · obtain ⟨s', hs'⟩ := (hI.st i st h1).cells a _ hc
      cases hs'
    · obtain ⟨e1, _, e3⟩ := evOf_accept i2
      obtain ⟨e, he, hep⟩ := augProd_auto hg hF.autos e1
      obtain ⟨au, au1, au2, au3⟩ := q2 e he
      obtain ⟨_, pr, p1, p2⟩ := q1 au au1
      refine ⟨au, au1, pr, p1, p2, ?_⟩
      rw [(finishState_spec h2).1]
      have hlen : (Resolve.infoOf g it.prod).len = 1 := by
        unfold Resolve.infoOf
        rw [← hep, ← au3, p1]
        simp [p2]
      refine List.mem_map.mpr ⟨it, i1, ?_⟩
      simp only [core, _root_.Prod.mk.injEq]
      exact ⟨by rw [au3, hep], by rw [e3, hlen]⟩
    · cases hc
  · intro i st' hs j s' hm
    obtain ⟨st, h1, h2⟩ := hF.fin i st' hs
    rw [(finishState_spec h2).2.1] at hm
    obtain ⟨t1, t2, t3⟩ := hI.trans i st h1 (g.nterms + j) s'
      (.inr ⟨by omega, by rw [Nat.add_sub_cancel_left]; exact hm⟩)
    refine ⟨?_, targetOk_intro hF (finishState_spec h2).1 t3⟩
    intro au hau
    exact t2 _ (q1 au hau).1

end Rustemo.Table
