import Rustemo.Proofs.GlrReduce4
import Rustemo.Proofs.GlrPos
/-!
# `create_frontier` (with `find_lookaheads`, `head_for_lookahead`) and `initial_process_frontier`
-/
namespace Rustemo.Glr
open Rustemo

variable {A : Prop}

/-- the heads of a frontier base: on level `F`, and their parent links carry terminal nodes only (they
    were created by the shifter) -/
def BaseOk (g : Gss) (F : Nat) (base : List Nat) : Prop :=
  ∀ h ∈ base, (∃ hd : Head, g.heads[h]? = some hd ∧ hd.frontier = F) ∧
    ∀ (e : Nat) (ed : Edge), g.edges[e]? = some ed → ed.src = h → ∀ n ∈ ed.poss, isTermNode g n

/-- extension that adds no nodes and only edges that start at new heads -/
structure FExt (g g' : Gss) : Prop where
  ext : Ext g g'
  nodes : g'.nodes = g.nodes
  size : g.heads.size ≤ g'.heads.size
  edges : ∀ (e : Nat) (ed : Edge), g'.edges[e]? = some ed → g.edges[e]? = some ed ∨ g.heads.size ≤ ed.src

theorem FExt.refl (g : Gss) : FExt g g := ⟨Ext.refl g, rfl, Nat.le_refl _, fun _ _ h => Or.inl h⟩

theorem FExt.trans {a b c : Gss} (h1 : FExt a b) (h2 : FExt b c) : FExt a c := by
  refine ⟨h1.ext.trans h2.ext, by rw [h2.nodes, h1.nodes], Nat.le_trans h1.size h2.size, ?_⟩
  intro e ed he
  rcases h2.edges e ed he with h | h
  · exact h1.edges e ed h
  · exact Or.inr (Nat.le_trans h1.size h)

theorem BaseOk.fext {g g' : Gss} {F : Nat} {base : List Nat} (hx : FExt g g') (h : BaseOk g F base) :
    BaseOk g' F base := by
  intro hh hm
  obtain ⟨⟨hd, hhd, hf⟩, hterm⟩ := h hh hm
  obtain ⟨hd', hhd', _, hf', _⟩ := hx.ext.heads _ hd hhd
  refine ⟨⟨hd', hhd', by rw [hf', hf]⟩, ?_⟩
  intro e ed he hsrc n hn
  rcases hx.edges e ed he with hold | hnew
  · obtain ⟨tk, sp, ht⟩ := hterm e ed hold hsrc n hn
    exact ⟨tk, sp, by rw [hx.nodes]; exact ht⟩
  · have := lt_of_getElem?_some hhd
    omega

/-! ## `head_for_lookahead` -/

theorem copyEdges_ok {env : Env} {g0 : Gss} (hg0 : GInv env g0) {headIdx newHead : Nat} {hd0 nhd : Head}
    (hhd0 : g0.heads[headIdx]? = some hd0) (hns : nhd.state = hd0.state) (hnf : nhd.frontier = hd0.frontier)
    (hnew : g0.heads.size ≤ newHead) :
    ∀ (eds : List Edge) (g : Gss), GInv env g → FExt g0 g → g.heads[newHead]? = some nhd →
      (∀ ed ∈ eds, ∃ e : Nat, g0.edges[e]? = some ed ∧ ed.src = headIdx ∧ ∀ n ∈ ed.poss, isTermNode g0 n) →
      GInv env (copyEdges newHead eds g) ∧ FExt g0 (copyEdges newHead eds g) ∧
        (copyEdges newHead eds g).heads = g.heads
  | [], g, hg, hx, _, _ => ⟨hg, hx, rfl⟩
  | ed :: rest, g, hg, hx, hnh, heds => by
    simp only [copyEdges]
    obtain ⟨e, he, hsrc, hterm⟩ := heds ed (by simp)
    obtain ⟨hs, hdd, hhs, hhdd, htr, hposs⟩ := (hg0.edges e ed he).ends
    have hne := (hg0.edges e ed he).poss_ne (by simp)
    rw [hsrc, hhd0] at hhs; injection hhs with hhs; subst hhs
    obtain ⟨hdd', hhdd', hdds, _, _⟩ := hx.ext.heads _ hdd hhdd
    have hstep := GInvX.addEdge hg newHead ed.dst ed.poss nhd hdd' hnh hhdd'
      (by rw [hns, hdds]; exact htr)
      (by
        intro n hn
        obtain ⟨nd, hnd, hfit⟩ := hposs n hn
        obtain ⟨tk, sp, ht⟩ := hterm n hn
        refine ⟨⟨tk, sp, by rw [hx.nodes]; exact ht⟩, nd, by rw [hx.nodes]; exact hnd, ?_⟩
        rw [hns, hnf]
        exact NodeFits.ext hx.ext hfit)
    simp only [hne, ↓reduceIte] at hstep
    have hx1 : FExt g0 (g.addEdge newHead ed.dst ed.poss).1 := by
      refine ⟨hx.ext.trans (ext_addEdge _ _ _ _), hx.nodes, hx.size, ?_⟩
      intro e' ed' he'
      rw [addEdge_edges] at he'
      split at he'
      · injection he' with he'; subst he'
        exact Or.inr hnew
      · exact hx.edges e' ed' he'
    obtain ⟨r1, r2, r3⟩ := copyEdges_ok hg0 hhd0 hns hnf hnew rest (g.addEdge newHead ed.dst ed.poss).1 hstep
      hx1 (by simpa using hnh) (fun ed' h' => heds ed' (by simp [h']))
    exact ⟨r1, r2, by rw [r3]; rfl⟩

theorem fext_addHead (g : Gss) (hd : Head) : FExt g (g.addHead hd).1 :=
  ⟨ext_addHead g hd, rfl, by simp, fun _ _ h => Or.inl h⟩

theorem mem_edgesOf {g : Gss} {h : Nat} {ed : Edge} (hm : ed ∈ edgesOf g (g.backedges h)) :
    ∃ e : Nat, g.edges[e]? = some ed ∧ ed.src = h := by
  unfold edgesOf at hm
  rw [List.mem_filterMap] at hm
  obtain ⟨e, he, hed⟩ := hm
  obtain ⟨ed', hed', hsrc⟩ := mem_backedges.mp he
  rw [hed'] at hed; injection hed with hed; subst hed
  exact ⟨e, hed', hsrc⟩

/-- terminal-only parent links of head `h` (what `BaseOk` says of one head) -/
def TermEdges (g : Gss) (h : Nat) : Prop :=
  ∀ (e : Nat) (ed : Edge), g.edges[e]? = some ed → ed.src = h → ∀ n ∈ ed.poss, isTermNode g n

theorem TermEdges.fext {g g' : Gss} {h : Nat} (hx : FExt g g') (hlt : h < g.heads.size) (ht : TermEdges g h) :
    TermEdges g' h := by
  intro e ed he hsrc n hn
  rcases hx.edges e ed he with hold | hnew
  · obtain ⟨tk, sp, h1⟩ := ht e ed hold hsrc n hn
    exact ⟨tk, sp, by rw [hx.nodes]; exact h1⟩
  · omega

theorem headForLookahead_ok {env : Env} {g : Gss} (hg : GInv env g) {headIdx : Nat} {hd : Head}
    (hhd : g.heads[headIdx]? = some hd) (hterm : TermEdges g headIdx) (tk : Tok)
    (htk : posLt hd.pos tk.span.s = false) :
    GInv env (headForLookahead g hd headIdx tk).1 ∧ FExt g (headForLookahead g hd headIdx tk).1 ∧
      (headForLookahead g hd headIdx tk).1.heads[(headForLookahead g hd headIdx tk).2]? = some { hd with tok := some tk } ∧
      ∀ i, i < g.heads.size → (headForLookahead g hd headIdx tk).1.heads[i]? = g.heads[i]? := by
  unfold headForLookahead
  simp only
  have hok := hg.heads _ hd hhd
  have hok' : HeadOk env { hd with tok := some tk } :=
    ⟨hok.range, hok.start, hok.span, fun tk' h => by injection h with h; subst h; exact htk⟩
  have hg1 := hg.addHead { hd with tok := some tk } hok'
  have hnh : (g.addHead { hd with tok := some tk }).1.heads[g.heads.size]? = some { hd with tok := some tk } := by
    rw [addHead_heads, if_pos rfl]
  obtain ⟨r1, r2, r3⟩ := copyEdges_ok hg (headIdx := headIdx) (newHead := g.heads.size) (hd0 := hd)
    (nhd := { hd with tok := some tk }) hhd rfl rfl (Nat.le_refl _) (edgesOf g (g.backedges headIdx))
    (g.addHead { hd with tok := some tk }).1 hg1 (fext_addHead g _) hnh
    (by
      intro ed hm
      obtain ⟨e, he, hsrc⟩ := mem_edgesOf hm
      exact ⟨e, he, hsrc, hterm e ed he hsrc⟩)
  rw [addHead_idx]
  refine ⟨r1, r2, ?_, ?_⟩
  · rw [r3]; exact hnh
  · intro i hi
    rw [r3, addHead_heads]
    have : ¬ i = g.heads.size := by omega
    simp [this]

theorem splitHeads_ok {env : Env} {F : Nat} {headIdx : Nat} {hd : Head} (hF : hd.frontier = F) (position : Pos) :
    ∀ (toks : List Tok) (g : Gss) (fr : Frontier), GInv env g → g.heads[headIdx]? = some hd → TermEdges g headIdx →
      FrontierOk g F fr → (∀ tk ∈ toks, posLt hd.pos tk.span.s = false) →
      GInv env (splitHeads hd headIdx position toks (g, fr)).1 ∧ FExt g (splitHeads hd headIdx position toks (g, fr)).1 ∧
        FrontierOk (splitHeads hd headIdx position toks (g, fr)).1 F (splitHeads hd headIdx position toks (g, fr)).2
  | [], g, fr, hg, _, _, hfr, _ => ⟨hg, FExt.refl g, hfr⟩
  | tk :: rest, g, fr, hg, hhd, hterm, hfr, htoks => by
    simp only [splitHeads]
    obtain ⟨h1, h2, h3, h4⟩ := headForLookahead_ok hg hhd hterm tk (htoks tk (by simp))
    have hhd'' : (headForLookahead g hd headIdx tk).1.heads[headIdx]? = some hd := by
      rw [h4 _ (lt_of_getElem?_some hhd)]; exact hhd
    have hfr' := FrontierOk.insert (k := (position, tk.kind)) (s := hd.state) _ h3 rfl hF rfl (hfr.ext h2.ext)
    obtain ⟨k1, k2, k3⟩ := splitHeads_ok hF position rest (headForLookahead g hd headIdx tk).1
      (frInsert (position, tk.kind) hd.state (headForLookahead g hd headIdx tk).2 fr) h1 hhd''
      (hterm.fext h2 (lt_of_getElem?_some hhd)) hfr' (fun tk' h => htoks tk' (by simp [h]))
    exact ⟨k1, h2.trans k2, k3⟩

theorem fext_setHead (g : Gss) (i : Nat) (old hd : Head) (hold : g.heads[i]? = some old)
    (hs : hd.state = old.state) (hf : hd.frontier = old.frontier)
    (ht : ∀ tk, old.tok = some tk → hd.tok = some tk) : FExt g (g.setHead i hd) :=
  ⟨ext_setHead g i old hd hold hs hf ht, rfl, by simp, fun _ _ h => Or.inl h⟩

theorem layoutBefore_ok (env : Env) (hd : Head) (tk : Tok) (h : posLt hd.pos tk.span.s = false) :
    layoutBefore env hd tk = .ok hd.lay := by
  unfold layoutBefore; simp [h]

/-- one head of the frontier base -/
theorem frontierHead_sat {env : Env} (hl : ¬ A → LayoutSafe env) (pp : Bool) (fuel : Nat) {F : Nat}
    {g : Gss} {fr : Frontier} (hg : GInv env g) (hfr : FrontierOk g F fr) {headIdx : Nat} {hd0 : Head}
    (hhd0 : g.heads[headIdx]? = some hd0) (hF : hd0.frontier = F) (hterm : TermEdges g headIdx) :
    Sat A (fun acc' => GInv env acc'.1 ∧ FExt g acc'.1 ∧ FrontierOk acc'.1 F acc'.2)
      (frontierHead env pp fuel (g, fr) headIdx) := by
  unfold frontierHead
  simp only
  rw [head_sat' _ _ _ hhd0]
  simp only [obind]
  have hok0 := hg.heads _ hd0 hhd0
  split
  · rename_i tk htk
    exact ⟨hg, FExt.refl g, FrontierOk.insert hd0 hhd0 rfl hF (by rw [htk]; rfl) hfr⟩
  · rename_i htk
    have hlook := findLookaheadsCtx_ok env hl pp fuel hd0.toCtx
    generalize findLookaheadsCtx env pp fuel hd0.toCtx = r at hlook
    obtain ⟨cx, o⟩ := r
    obtain ⟨ls, lsp, lpos, ltoks, lsafe⟩ := hlook
    simp only [Head.toCtx] at ls lsp lpos ltoks lsafe ⊢
    -- the head after `find_lookaheads`
    have hspan : posLt cx.pos cx.span.s = false := by
      rw [lsp]
      exact posLe_trans (show posLe hd0.span.s hd0.pos from hok0.span) lpos
    cases o with
    | err e => trivial
    | panic s => exact lsafe
    | fuel => trivial
    | ok toks' =>
      have ltoks' := ltoks toks' rfl
      simp only [obind]
      have hbase : HeadOk env (hd0.withCtx cx) :=
        ⟨by simp only [Head.withCtx]; rw [ls]; exact hok0.range,
         by simp only [Head.withCtx]; rw [ls]; exact hok0.start,
         by simpa only [Head.withCtx] using hspan,
         by intro tk h; simp only [Head.withCtx] at h; rw [htk] at h; simp at h⟩
      cases toks' with
      | nil =>
        simp only
        have hx := fext_setHead g headIdx hd0 (hd0.withCtx cx) hhd0 (by simp [Head.withCtx, ls]) (by simp [Head.withCtx])
          (by intro tk h; rw [htk] at h; simp at h)
        exact ⟨hg.setHead headIdx hd0 _ hhd0 (by simp [Head.withCtx, ls]) (by simp [Head.withCtx])
          (by intro tk h; rw [htk] at h; simp at h) hbase, hx, hfr.ext hx.ext⟩
      | cons tk more =>
        simp only
        have htkpos : ∀ tk' ∈ tk :: more, posLt (hd0.withCtx cx).pos tk'.span.s = false := by
          intro tk' hm
          simp only [Head.withCtx]
          rcases ltoks' tk' hm with h | h
          · rw [h]; exact posLe_refl _
          · rw [h]; exact hspan
        rw [layoutBefore_ok env _ tk (htkpos tk (by simp))]
        simp only [obind]
        generalize hhd' : ({ hd0.withCtx cx with lay := (hd0.withCtx cx).lay, tok := some tk } : Head) = hd'
        have e1 : hd'.state = hd0.state := by rw [← hhd']; simp [Head.withCtx, ls]
        have e2 : hd'.frontier = hd0.frontier := by rw [← hhd']; simp [Head.withCtx]
        have e3 : hd'.pos = (hd0.withCtx cx).pos := by rw [← hhd']
        have e4 : hd'.span = (hd0.withCtx cx).span := by rw [← hhd']
        have e5 : hd'.tok = some tk := by rw [← hhd']
        have hok' : HeadOk env hd' :=
          ⟨by rw [e1]; exact hok0.range, by rw [e1, e2]; exact hok0.start, by rw [e3, e4]; exact hbase.span,
           by intro tk' h; rw [e5] at h; injection h with h; subst h; rw [e3]; exact htkpos tk (by simp)⟩
        have hx := fext_setHead g headIdx hd0 hd' hhd0 e1 e2 (by intro tk' h; rw [htk] at h; simp at h)
        have hg1 := hg.setHead headIdx hd0 hd' hhd0 e1 e2 (by intro tk' h; rw [htk] at h; simp at h) hok'
        have hlt := lt_of_getElem?_some hhd0
        have hhd1 : (g.setHead headIdx hd').heads[headIdx]? = some hd' := by
          rw [setHead_heads]; simp [hlt]
        have hfr1 : FrontierOk (g.setHead headIdx hd') F
            (frInsert ((hd0.withCtx cx).pos, tk.kind) (hd0.withCtx cx).state headIdx fr) :=
          FrontierOk.insert hd' hhd1 (by rw [e1]; simp [Head.withCtx, ls]) (by rw [e2, hF]) (by rw [e5]; rfl)
            (hfr.ext hx.ext)
        have hstate : (hd0.withCtx cx).state = hd'.state := by rw [e1]; simp [Head.withCtx, ls]
        rw [hstate]
        obtain ⟨k1, k2, k3⟩ := splitHeads_ok (env := env) (F := F) (headIdx := headIdx) (hd := hd') (by rw [e2, hF])
          (hd0.withCtx cx).pos more (g.setHead headIdx hd')
          (frInsert ((hd0.withCtx cx).pos, tk.kind) hd'.state headIdx fr) hg1 hhd1 (hterm.fext hx hlt)
          (by rw [← hstate]; exact hfr1) (fun tk' h => by rw [e3]; exact htkpos tk' (by simp [h]))
        exact ⟨k1, hx.trans k2, k3⟩

theorem createFrontier_sat {env : Env} (hl : ¬ A → LayoutSafe env) (pp : Bool) (fuel : Nat) {F : Nat}
    {g : Gss} (hg : GInv env g) {base : List Nat} (hb : BaseOk g F base) :
    Sat A (fun r => GInv env r.1 ∧ FExt g r.1 ∧ FrontierOk r.1 F r.2) (createFrontier env pp fuel g base) := by
  unfold createFrontier
  apply foldO_sat (I := fun r => GInv env r.1 ∧ FExt g r.1 ∧ FrontierOk r.1 F r.2) base (g, [])
    ⟨hg, FExt.refl g, fun _ _ h => by simp at h⟩
  rintro ⟨g1, fr1⟩ h hm ⟨hg1, hx1, hfr1⟩
  obtain ⟨⟨hd, hhd, hF⟩, hterm⟩ := (hb.fext hx1) h hm
  exact (frontierHead_sat hl pp fuel hg1 hfr1 hhd hF hterm).mono
    fun r ⟨k1, k2, k3⟩ => ⟨k1, hx1.trans k2, k3⟩

/-! ## `initial_process_frontier` -/

theorem initialActions_ok {env : Env} (hT : TableOk env) {g : Gss} {F : Nat} {head : Nat} {hd : Head} {tk : Tok}
    (hhd : g.heads[head]? = some hd) (htk : hd.tok = some tk) (hF : hd.frontier = F) :
    ∀ (acts : List Action) (acc : List Reduction × List (Nat × Nat) × List Nat),
      (∀ a ∈ acts, a ∈ env.t.cell hd.state tk.kind) → ListsOk env g F acc.1 acc.2.1 acc.2.2 →
      ListsOk env g F (initialActions g head acts acc).1 (initialActions g head acts acc).2.1
        (initialActions g head acts acc).2.2
  | [], acc, _, h => by simpa [initialActions] using h
  | act :: rest, (q, sh, ac), hm, h => by
    have hrest : ∀ a ∈ rest, a ∈ env.t.cell hd.state tk.kind := fun a ha => hm a (by simp [ha])
    have hact := hm act (by simp)
    have htok : hd.tok.isSome = true := by rw [htk]; rfl
    cases act with
    | reduce p len =>
      obtain ⟨hitem, pr, hpr, hlen, hnul⟩ := hT.s.reduce_item _ _ _ _ hact
      have haug := hT.tot.no_reduce_aug _ _ _ _ hact
      simp only [initialActions]
      split
      · rename_i hz
        apply initialActions_ok hT hhd htk hF rest _ hrest
        refine ⟨?_, h.shifts, h.acc⟩
        intro r hr
        simp only [List.mem_append, List.mem_singleton] at hr
        rcases hr with hr | hr
        · exact h.queue r hr
        · subst hr
          refine ⟨hd, pr, hpr, by simp, by simpa [hz] using hnul, haug, htok, hF, by rw [← hz]; exact hitem, ?_⟩
          exact ⟨hhd, rfl⟩
      · rename_i hz
        apply initialActions_ok hT hhd htk hF rest _ hrest
        refine ⟨?_, h.shifts, h.acc⟩
        intro r hr
        simp only [List.mem_append, List.mem_map] at hr
        rcases hr with hr | ⟨e, he, hr⟩
        · exact h.queue r hr
        · subst hr
          obtain ⟨ed, hed, hsrc⟩ := mem_backedges.mp he
          refine ⟨hd, pr, hpr, hlen, hnul, haug, htok, hF, hitem, ?_⟩
          exact ⟨ed, hed, by rw [hsrc]; exact hhd, Nat.pos_of_ne_zero hz⟩
    | shift s =>
      simp only [initialActions]
      apply initialActions_ok hT hhd htk hF rest _ hrest
      refine ⟨h.queue, ?_, h.acc⟩
      intro x hx
      rcases List.mem_cons.mp hx with hx | hx
      · subst hx; exact ⟨hd, tk, hhd, htk, hF, hact⟩
      · exact h.shifts x hx
    | accept =>
      simp only [initialActions]
      apply initialActions_ok hT hhd htk hF rest _ hrest
      refine ⟨h.queue, h.shifts, ?_⟩
      intro x hx
      simp only [List.mem_append, List.mem_singleton] at hx
      rcases hx with hx | hx
      · exact h.acc x hx
      · subst hx; exact ⟨hd, tk, hhd, htk, hact⟩

theorem initialHead_sat {env : Env} (hT : TableOk env) {g : Gss} {F : Nat} {sub : SubFrontier} (hsub : SubOk g F sub)
    {acc : List Reduction × List (Nat × Nat) × List Nat} (hacc : ListsOk env g F acc.1 acc.2.1 acc.2.2)
    {e : Nat × Nat} (he : e ∈ sub) :
    Sat A (fun r => ListsOk env g F r.1 r.2.1 r.2.2) (initialHead env g acc e) := by
  obtain ⟨hd, hhd, hs, hF, htok⟩ := hsub e.1 e.2 he
  obtain ⟨tk, htk, hkind⟩ := tokKind_ok htok
  unfold initialHead
  rw [head_sat' _ _ _ hhd]
  simp only [obind]
  rw [hkind]
  simp only
  exact initialActions_ok hT hhd htk hF _ acc (by rw [hs]; exact fun a h => h) hacc

/-- every queue is good, and so are the shifts and accepted heads -/
structure InitOk (env : Env) (g : Gss) (F : Nat) (r : List (List Reduction) × List (Nat × Nat) × List Nat) : Prop where
  queues : ∀ q ∈ r.1, ∀ x ∈ q, RedOk env g F x
  shifts : ∀ s ∈ r.2.1, ShiftOk env g F s
  acc : ∀ h ∈ r.2.2, AccOk env g h

theorem initialSub_sat {env : Env} (hT : TableOk env) {g : Gss} {F : Nat}
    {acc : List (List Reduction) × List (Nat × Nat) × List Nat} (hacc : InitOk env g F acc)
    {sf : (Pos × Nat) × SubFrontier} (hsub : SubOk g F sf.2) :
    Sat A (InitOk env g F) (initialSub env g acc sf) := by
  unfold initialSub
  apply Sat.bind (foldO_sat (I := fun r => ListsOk env g F r.1 r.2.1 r.2.2) sf.2 ([], acc.2.1, acc.2.2)
    ⟨fun _ h => by simp at h, hacc.shifts, hacc.acc⟩
    (fun s e he hs => initialHead_sat hT hsub hs he))
  intro r hr
  refine ⟨?_, hr.shifts, hr.acc⟩
  intro q hq x hx
  simp only [List.mem_append, List.mem_singleton] at hq
  rcases hq with hq | hq
  · exact hacc.queues q hq x hx
  · subst hq; exact hr.queue x hx

theorem initialProcess_sat {env : Env} (hT : TableOk env) {st : St} {F : Nat} (hs : StOk env F st)
    {fr : Frontier} (hfr : FrontierOk st.gss F fr) :
    Sat A (fun r => StOk env F r.2 ∧ r.2.gss = st.gss ∧ ∀ q ∈ r.1, ∀ x ∈ q, RedOk env st.gss F x)
      (initialProcess env st fr) := by
  unfold initialProcess
  apply Sat.bind (foldO_sat (I := InitOk env st.gss F) fr ([], st.shifts, st.accepted)
    ⟨fun _ h => by simp at h, hs.shifts, hs.acc⟩
    (fun acc sf hsf hacc => initialSub_sat hT hacc (hfr sf.1 sf.2 hsf)))
  intro r hr
  exact ⟨⟨hs.g, hr.shifts, hr.acc⟩, rfl, hr.queues⟩

end Rustemo.Glr
