import Rustemo.Model.LexTok
import Rustemo.Props.Example
import Rustemo.Proofs.ViableExample
/-! Concrete single-character environments for the non-vacuity `example`s of the byte/token theorems:
the two example grammars with their terminal records (string recognizers `'a'`, … as the real compiler
dumps them) and byte inputs lexed by `charRecog`. -/
namespace Rustemo.Example3

def mkTerm (name : String) (r : Option Recog) : Terminal := ⟨name, 10, .none, r, false, true⟩

/-- `S: 'a' S | EMPTY` with its terminals -/
def g1 : Grammar :=
  { Example.g with terms := #[mkTerm "STOP" none, mkTerm "Ta" (some (.str "a"))] }

/-- `S: 'a' A 'c' | 'b' A 'd'; A: 'x'` with its terminals -/
def g2 : Grammar :=
  { Example2.g with
    terms := #[mkTerm "STOP" none, mkTerm "Ta" (some (.str "a")), mkTerm "Tb" (some (.str "b")),
               mkTerm "Tc" (some (.str "c")), mkTerm "Td" (some (.str "d")), mkTerm "Tx" (some (.str "x"))] }

/-- the default string lexer on `input`, whitespace skipping off -/
def envOf (g : Grammar) (t : Table) (input : List Nat) (skipWs : Bool) : Env :=
  { g := g, t := t, input := input, recog := charRecog g input, skipWs := skipWs }

/-- "axc" -/
def axc : List Nat := [97, 120, 99]
/-- "axd" -/
def axd : List Nat := [97, 120, 100]
/-- "a?c": `?` is no terminal's character -/
def aqc : List Nat := [97, 63, 99]

/-- error outcome as data (for `decide`): byte offset and expected kinds -/
def errOf : Outcome ParseResult → Option (Nat × List Nat)
  | .err (.expected p ks) => some (p.pos, ks)
  | _ => none

end Rustemo.Example3
