import Rustemo.Proofs.TableCalcC2
import Rustemo.Proofs.TableFinish
/-!
# Table construction: `propagate_follows` keeps `InvC`, and what its exit condition means

The last round changed no lookahead set: every state is a fixpoint of the closure (`closureRound … =
(items, false)`) and every recorded transition is saturated (`EdgeStable`).
-/
namespace Rustemo.Table

variable {g : Grammar} {fs : Array (List Nat)}

/-! ## a closure of a state whose cores are closed only grows lookaheads -/

theorem addDemand_grown (d : Nat × List Nat) : ∀ (items : List Item), (d.1, 0) ∈ items.map core →
    Grown items (addDemand d items).1
  | [], h => by simp at h
  | x :: xs, h => by
    unfold addDemand
    by_cases hx : (x.prod == d.1 && x.dot == 0) = true
    · rw [if_pos hx]
      exact .cons ⟨rfl, fun a ha => mem_union.mpr (.inl ha)⟩ (Grown.refl xs)
    · rw [if_neg hx]
      have : (d.1, 0) ∈ xs.map core := by
        rcases List.mem_cons.mp h with h' | h'
        · exfalso; apply hx
          simp only [core, _root_.Prod.mk.injEq] at h'
          simp [← h'.1, ← h'.2]
        · exact h'
      exact .cons ⟨rfl, Sub.refl _⟩ (addDemand_grown d xs this)

theorem itemDemands_mem {it : Item} {dsi : List (Nat × List Nat)} (h : itemDemands g fs it = .ok dsi)
    {d : Nat × List Nat} (hd : d ∈ dsi) :
    ∃ B, g.rhsAt it.prod it.dot = some B ∧ g.nterms ≤ B ∧ d.1 ∈ Canon.prodsOf g B := by
  unfold itemDemands at h
  unfold Grammar.rhsAt
  split at h
  · simp only [Res.ok.injEq] at h; subst h; simp at hd
  · rename_i pr hpr
    rw [hpr]
    split at h
    · simp only [Res.ok.injEq] at h; subst h; simp at hd
    · rename_i B hB
      split at h
      · simp only [Res.ok.injEq] at h; subst h; simp at hd
      · rename_i hnt
        split at h
        · simp at h
        · split at h
          · simp only [Res.ok.injEq] at h
            subst h
            obtain ⟨q, hq, rfl⟩ := List.mem_map.mp hd
            exact ⟨B, hB, by omega, hq⟩
          · simp at h

theorem closure_grown {n : Nat} {items items' : List Item} (h : closure g fs n items = .ok items')
    (hcl : ∀ c ∈ items.map core, ∀ B, g.rhsAt c.1 c.2 = some B → g.nterms ≤ B →
      ∀ q ∈ Canon.prodsOf g B, (q, 0) ∈ items.map core) : Grown items items' := by
  apply closure_induct (g := g) (fs := fs) (Grown items) (fun d => (d.1, 0) ∈ items.map core) _ _ n items items' h
    (Grown.refl _)
  · intro its hP it hit dsi hdsi d hd
    obtain ⟨B, b1, b2, b3⟩ := itemDemands_mem hdsi hd
    have : core it ∈ items.map core := by rw [← hP.cores]; exact List.mem_map.mpr ⟨it, hit, rfl⟩
    exact hcl (core it) this B b1 b2 d.1 b3
  · intro its d hP hQ
    exact hP.trans (addDemand_grown d its (by rw [hP.cores]; exact hQ))

theorem InvC.propagate (hg : GW g) {autos : List (Nat × Nat)} {fuel n : Nat} {sts sts' : Array State}
    (hI : Inv g autos sts) (hC : InvC g sts.size sts.size sts) (h : propagate g fs fuel n sts = .ok sts') :
    InvC g sts'.size sts'.size sts' := by
  have := propagate_induct (g := g) (fs := fs) (fuel := fuel)
    (fun s => Inv g autos s ∧ InvC g s.size s.size s) ?_ ?_ n sts sts' h ⟨hI, hC⟩
  · exact this.1.2
  · intro s i st items hJ hi hc
    have hcl := hJ.2.closed i st hi (lt_size_of_getElem? hi)
    have hgr := closure_grown hc hcl
    refine ⟨hJ.1.closeAt hg hi hc, ?_⟩
    rw [size_setItems]
    exact hJ.2.setItems_grown hi hgr
  · intro s s' i j ch hJ hi he
    obtain ⟨sj, items, h1, h2, h3⟩ := propEdge_grown hi he
    subst h3
    refine ⟨⟨hJ.1.setItems_grown h1 h2, ?_⟩, size_setItems _ _ _⟩
    rw [size_setItems]
    exact hJ.2.setItems_grown h1 h2

/-! ## the exit condition -/

/-- the lookaheads of the source item of a kernel item are among its own -/
def Stable (src : List Item) (tit : Item) : Prop :=
  tit.dot ≠ 0 ∧ ∀ s, src.find? (fun x => x.prod == tit.prod && x.dot == tit.dot - 1) = some s → Sub s.la tit.la

theorem propItem_stable {src : List Item} {tit tit' : Item} (h : propItem src tit = .ok (tit', false)) :
    tit' = tit ∧ Stable src tit := by
  obtain ⟨p1, _, _, _, p5⟩ := propItem_ok h
  refine ⟨p5 rfl, p1, ?_⟩
  intro s hs
  unfold propItem at h
  rw [if_neg p1, hs] at h
  simp only [Res.ok.injEq, _root_.Prod.mk.injEq] at h
  have := union_eq_self_of_not_lt h.2
  intro a ha
  rw [← this]; exact mem_union.mpr (.inr ha)

theorem propItems_unchanged (fixed : Option (List Item)) :
    ∀ (todo done r : List Item) (ch : Bool), propItems fixed done todo ch = .ok (r, false) →
      ch = false ∧ r = done ++ todo ∧
        ∀ tit ∈ todo, isKernel tit = true → Stable (fixed.getD (done ++ todo)) tit
  | [], done, r, ch, h => by
    simp only [propItems, Res.ok.injEq, _root_.Prod.mk.injEq] at h
    exact ⟨h.2, by simp [h.1], by simp⟩
  | it :: todo, done, r, ch, h => by
    unfold propItems at h
    by_cases hk : isKernel it = true
    · rw [if_pos hk] at h
      split at h
      · rename_i it' c hp
        obtain ⟨h1, h2, h3⟩ := propItems_unchanged fixed todo _ r _ h
        simp only [Bool.or_eq_false_iff] at h1
        obtain ⟨hc1, hc2⟩ := h1
        subst hc2
        obtain ⟨e1, e2⟩ := propItem_stable hp
        subst e1
        have hl : done ++ [it'] ++ todo = done ++ it' :: todo := by simp
        rw [hl] at h2 h3
        refine ⟨hc1, h2, ?_⟩
        intro tit ht hkt
        rcases List.mem_cons.mp ht with h' | h'
        · subst h'; exact e2
        · exact h3 tit h' hkt
      · simp at h
      · simp at h
      · simp at h
    · rw [if_neg hk] at h
      obtain ⟨h1, h2, h3⟩ := propItems_unchanged fixed todo _ r _ h
      have hl : done ++ [it] ++ todo = done ++ it :: todo := by simp
      rw [hl] at h2 h3
      refine ⟨h1, h2, ?_⟩
      intro tit ht hkt
      rcases List.mem_cons.mp ht with h' | h'
      · subst h'; exact absurd hkt hk
      · exact h3 tit h' hkt

/-- the transition `i → j` is saturated: every kernel item of `j` has the lookaheads of its source in `i` -/
def EdgeStable (sts : Array State) (i j : Nat) : Prop :=
  ∃ si sj, sts[i]? = some si ∧ sts[j]? = some sj ∧ ∀ tit ∈ sj.items, isKernel tit = true → Stable si.items tit

theorem setItems_same {sts : Array State} {j : Nat} {sj : State} (h : sts[j]? = some sj) :
    setItems sts j sj.items = sts := by
  rw [setItems_eq h]
  exact setIfInBounds_same' h
where
  setIfInBounds_same' {sts : Array State} {j : Nat} {sj : State} (h : sts[j]? = some sj) :
      sts.setIfInBounds j { sj with items := sj.items } = sts := by
    apply Array.ext_getElem?
    intro k
    rw [get_upd h]
    by_cases hjk : j = k
    · rw [if_pos hjk, ← hjk, h]
    · rw [if_neg hjk]

theorem propEdge_unchanged {sts sts' : Array State} {i j : Nat} (hi : i < sts.size)
    (h : propEdge sts i j = .ok (sts', false)) : sts' = sts ∧ EdgeStable sts i j := by
  obtain ⟨si, sj, items, h1, h2, h3, h4⟩ := propEdge_ok hi h
  obtain ⟨_, e2, e3⟩ := propItems_unchanged _ _ _ _ _ h3
  simp only [List.nil_append] at e2 e3
  subst e2
  refine ⟨by rw [h4]; exact setItems_same h2, si, sj, h1, h2, ?_⟩
  intro tit ht hk
  have := e3 tit ht hk
  by_cases hij : i = j
  · rw [if_pos hij] at this
    simp only [Option.getD_none] at this
    rw [hij, h2] at h1
    simp only [Option.some.injEq] at h1
    subst h1; exact this
  · rw [if_neg hij] at this
    exact this

theorem propTargets_unchanged {i : Nat} : ∀ (l : List Nat) (sts sts' : Array State) (ch : Bool), i < sts.size →
    propTargets i l sts ch = .ok (sts', false) → ch = false ∧ sts' = sts ∧ ∀ j ∈ l, EdgeStable sts i j
  | [], sts, sts', ch, _, h => by
    simp only [propTargets, Res.ok.injEq, _root_.Prod.mk.injEq] at h
    exact ⟨h.2, h.1.symm, by simp⟩
  | j :: rest, sts, sts', ch, hi, h => by
    unfold propTargets at h
    split at h
    · rename_i sts1 c he
      -- the size is kept by one edge
      have hsz : sts1.size = sts.size := by
        obtain ⟨sj, items, _, _, e3⟩ := propEdge_grown hi he
        rw [e3, size_setItems]
      obtain ⟨h1, h2, h3⟩ := propTargets_unchanged rest sts1 sts' _ (by omega) h
      simp only [Bool.or_eq_false_iff] at h1
      obtain ⟨hc1, hc2⟩ := h1
      subst hc2
      obtain ⟨e1, e2⟩ := propEdge_unchanged hi he
      subst e1
      refine ⟨hc1, h2, ?_⟩
      intro k hk
      rcases List.mem_cons.mp hk with h' | h'
      · subst h'; exact e2
      · exact h3 k h'
    · simp at h
    · simp at h
    · simp at h

theorem propStates_unchanged : ∀ (l : List Nat) (sts sts' : Array State) (ch : Bool), (∀ i ∈ l, i < sts.size) →
    propStates l sts ch = .ok (sts', false) →
      ch = false ∧ sts' = sts ∧ ∀ i ∈ l, ∀ j ∈ targetsOf (sts.getD i default), EdgeStable sts i j
  | [], sts, sts', ch, _, h => by
    simp only [propStates, Res.ok.injEq, _root_.Prod.mk.injEq] at h
    exact ⟨h.2, h.1.symm, by simp⟩
  | i :: rest, sts, sts', ch, hl, h => by
    unfold propStates at h
    split at h
    · rename_i sts1 c he
      have hi := hl i List.mem_cons_self
      have hsz : sts1.size = sts.size :=
        (propTargets_induct (fun _ => True) (fun s s' j c _ hi' he' => by
          obtain ⟨sj, items, _, _, e3⟩ := propEdge_grown hi' he'
          exact ⟨trivial, by rw [e3, size_setItems]⟩) _ sts sts1 false c hi he trivial).2
      obtain ⟨h1, h2, h3⟩ := propStates_unchanged rest sts1 sts' _
        (fun k hk => by rw [hsz]; exact hl k (List.mem_cons_of_mem _ hk)) h
      simp only [Bool.or_eq_false_iff] at h1
      obtain ⟨hc1, hc2⟩ := h1
      subst hc2
      obtain ⟨_, e2, e3⟩ := propTargets_unchanged _ sts sts1 false hi he
      subst e2
      refine ⟨hc1, h2, ?_⟩
      intro k hk
      rcases List.mem_cons.mp hk with h' | h'
      · subst h'; exact e3
      · exact h3 k h'
    · simp at h
    · simp at h
    · simp at h

/-- the states after the closure refreshes of one round are closure fixpoints -/
theorem refreshStates_fix {fuel : Nat} : ∀ (l : List Nat) (sts sts' : Array State), l.Nodup →
    (∀ i ∈ l, i < sts.size) → refreshStates g fs fuel l sts = .ok sts' →
      (∀ i ∈ l, ∃ st, sts'[i]? = some st ∧ closureRound g fs st.items = .ok (st.items, false)) ∧
      (∀ j, j ∉ l → sts'[j]? = sts[j]?) ∧ sts'.size = sts.size
  | [], sts, sts', _, _, h => by
    simp only [refreshStates, Res.ok.injEq] at h
    subst h; exact ⟨by simp, fun _ _ => rfl, rfl⟩
  | i :: rest, sts, sts', hnd, hl, h => by
    unfold refreshStates at h
    split at h
    · rename_i items hcl
      have hi := hl i List.mem_cons_self
      have hget : sts[i]? = some (sts.getD i default) := by
        rw [Array.getD_eq_getD_getElem?, Array.getElem?_eq_getElem hi]; rfl
      obtain ⟨hni, hnd'⟩ := List.nodup_cons.mp hnd
      obtain ⟨r1, r2, r3⟩ := refreshStates_fix rest (setItems sts i items) sts' hnd'
        (fun k hk => by rw [size_setItems]; exact hl k (List.mem_cons_of_mem _ hk)) h
      refine ⟨?_, ?_, by rw [r3, size_setItems]⟩
      · intro k hk
        rcases List.mem_cons.mp hk with h' | h'
        · subst h'
          refine ⟨{ sts.getD k default with items := items }, ?_, closure_exit _ _ _ hcl⟩
          rw [r2 k hni, getElem?_setItems, if_pos rfl, hget]
          rfl
        · exact r1 k h'
      · intro j hj
        have hji : j ≠ i := fun h' => hj (h' ▸ List.mem_cons_self)
        rw [r2 j (fun h' => hj (List.mem_cons_of_mem _ h')), getElem?_setItems, if_neg (fun h' => hji h'.symm)]
    · simp at h
    · simp at h
    · simp at h

/-- **the exit condition of `propagate_follows`** -/
theorem propagate_exit {fuel : Nat} : ∀ (n : Nat) (sts sts' : Array State), propagate g fs fuel n sts = .ok sts' →
    (∀ i, i < sts'.size → ∃ st, sts'[i]? = some st ∧ closureRound g fs st.items = .ok (st.items, false)) ∧
    (∀ i, i < sts'.size → ∀ j ∈ targetsOf (sts'.getD i default), EdgeStable sts' i j) := by
  intro n
  induction n with
  | zero => intro sts sts' h; simp [propagate] at h
  | succ n ih =>
    intro sts sts' h
    unfold propagate at h
    split at h
    · rename_i sts1 hr
      exact ih sts1 sts' h
    · rename_i sts1 hr
      simp only [Res.ok.injEq] at h
      subst h
      unfold propRound at hr
      obtain ⟨sts2, h1, h2⟩ := Res.bind_ok hr
      obtain ⟨r1, _, r3⟩ := refreshStates_fix (List.range sts.size) sts sts2 List.nodup_range
        (fun i hi => List.mem_range.mp hi) h1
      obtain ⟨_, u2, u3⟩ := propStates_unchanged (List.range sts2.size) sts2 sts1 false
        (fun i hi => List.mem_range.mp hi) h2
      subst u2
      refine ⟨?_, ?_⟩
      · intro i hi
        exact r1 i (List.mem_range.mpr (by omega))
      · intro i hi
        exact u3 i (List.mem_range.mpr hi)
    · simp at h
    · simp at h
    · simp at h

end Rustemo.Table
