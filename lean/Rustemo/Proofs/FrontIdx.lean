import Rustemo.Proofs.FrontGen
/-!
# Production indices: `prods[i].idx = i`, for every AST and every variant

`get_prod_idx` hands out consecutive indices; the user production of an alternative reserves its
index before the helper productions of its sugar are created and is pushed before them.
Also: what reference resolution (`resolve_inline_…`, `resolve_references`) does to a production —
nothing but filling `index` — as the relation `ProdRel`.
-/
namespace Rustemo.Front

/-- the productions of `l` are numbered `start, start+1, …` -/
def IdxSeq (l : List GProd) (start : Nat) : Prop := ∀ i p, l[i]? = some p → p.idx = start + i

theorem IdxSeq.nil (a : Nat) : IdxSeq [] a := by
  intro i p h
  simp at h

theorem IdxSeq.append {l m : List GProd} {a : Nat} (hl : IdxSeq l a) (hm : IdxSeq m (a + l.length)) :
    IdxSeq (l ++ m) a := by
  intro i p h
  by_cases hi : i < l.length
  · rw [List.getElem?_append_left hi] at h
    exact hl i p h
  · have hi' : l.length ≤ i := Nat.le_of_not_lt hi
    rw [List.getElem?_append_right hi'] at h
    have := hm (i - l.length) p h
    omega

theorem IdxSeq.single (p : GProd) : IdxSeq [p] p.idx := by
  intro i q h
  cases i with
  | zero => simp at h; subst h; rfl
  | succ i => simp at h

theorem IdxSeq.pair (p q : GProd) (h : q.idx = p.idx + 1) : IdxSeq [p, q] p.idx := by
  intro i r hr
  match i with
  | 0 => simp at hr; subst hr; rfl
  | 1 => simp at hr; subst hr; exact h
  | i + 2 => simp at hr

/-- state of the production counters while one alternative is processed; `k` is the index reserved
for the alternative's own production -/
def AccIdx (k : Nat) (s : Acc) : Prop :=
  s.1.prods.length = k ∧ IdxSeq s.1.prods 0 ∧ IdxSeq s.2 (k + 1) ∧ s.1.nextProd = k + 1 + s.2.length

theorem createHelper_accIdx {k : Nat} {s : Acc} (name : Name) (ann : Option Name) (r0 r1 : List RAssign)
    (h : AccIdx k s) : AccIdx k (createHelper name ann r0 r1 s) := by
  obtain ⟨h1, h2, h3, h4⟩ := h
  refine ⟨h1, h2, ?_, ?_⟩
  · show IdxSeq (s.2 ++ _) (k + 1)
    apply IdxSeq.append h3
    have e : k + 1 + s.2.length = s.1.nextProd := h4.symm
    rw [e]
    exact IdxSeq.pair _ _ rfl
  · show s.1.nextProd + 2 = k + 1 + (s.2 ++ _).length
    simp
    omega

theorem closed_accIdx (fx : Fixes) (k : Nat) (u : Use) : Closed fx (AccIdx k) u := by
  intro s hs _
  unfold createUse
  cases u.kind <;> exact createHelper_accIdx _ _ _ _ hs

/-- the production counter agrees with the production vector -/
def XIdx (st : XSt) : Prop := st.prods.length = st.nextProd ∧ IdxSeq st.prods 0

theorem altStep_xidx {cx : Ctx} {rule : Rule} {nt j : Nat} {alt : Alt} {st st' : XSt}
    (hx : XIdx st) (h : altStep cx rule nt j alt st = .ok st') : XIdx st' := by
  unfold altStep at h
  simp only at h
  obtain ⟨res, h1, h⟩ := Outcome.bind_eq_ok.mp h
  obtain ⟨_, _, h⟩ := Outcome.bind_eq_ok.mp h
  cases h
  have h0 : AccIdx st.nextProd ({ st with nextProd := st.nextProd + 1 }, []) :=
    ⟨hx.1, hx.2, IdxSeq.nil _, by simp⟩
  have hA := rhsSteps_pres (P := AccIdx st.nextProd) (fun _ _ u _ => closed_accIdx cx.fx _ u) h0 h1
  obtain ⟨a1, a2, a3, a4⟩ := hA
  constructor
  · show (res.2.1.prods ++ [_] ++ res.2.2).length = res.2.1.nextProd
    simp
    omega
  · show IdxSeq (res.2.1.prods ++ [_] ++ res.2.2) 0
    apply IdxSeq.append
    · apply IdxSeq.append a2
      have : (mkProd st.nextProd nt j res.1 (inherit cx.fx (metaOf rule.metas) (metaOf alt.metas))).idx
          = 0 + res.2.1.prods.length := by
        show st.nextProd = _
        omega
      rw [← this]
      exact IdxSeq.single _
    · have : 0 + (res.2.1.prods ++ [mkProd st.nextProd nt j res.1 (inherit cx.fx (metaOf rule.metas) (metaOf alt.metas))]).length
          = st.nextProd + 1 := by
        simp
        omega
      rw [this]
      exact a3

theorem altSteps_xidx {cx : Ctx} {rule : Rule} {nt : Nat} :
    ∀ {alts : List Alt} {j : Nat} {st st' : XSt}, XIdx st → altSteps cx rule nt j alts st = .ok st' → XIdx st'
  | [], _, _, _, hx, h => by
    cases h
    exact hx
  | a :: as, j, st, st', hx, h => by
    unfold altSteps at h
    obtain ⟨st1, h1, h2⟩ := Outcome.bind_eq_ok.mp h
    exact altSteps_xidx (altStep_xidx hx h1) h2

theorem ruleStep_xidx {cx : Ctx} {rule : Rule} {st st' : XSt} (hx : XIdx st)
    (h : ruleStep cx rule st = .ok st') : XIdx st' := by
  rcases ruleStep_ok h with ⟨nt, hf, h⟩ | ⟨hf, h⟩
  · exact altSteps_xidx hx h
  · exact altSteps_xidx (st := { st with nextNt := st.nextNt + 1 }) hx h

theorem ruleSteps_xidx {cx : Ctx} :
    ∀ {rules : List Rule} {st st' : XSt}, XIdx st → ruleSteps cx rules st = .ok st' → XIdx st'
  | [], _, _, hx, h => by
    cases h
    exact hx
  | r :: rs, st, st', hx, h => by
    unfold ruleSteps at h
    obtain ⟨st1, h1, h2⟩ := Outcome.bind_eq_ok.mp h
    exact ruleSteps_xidx (ruleStep_xidx hx h1) h2

theorem createAug_xidx {a b : Name} {st : XSt} (hx : XIdx st) : XIdx (createAug a b st) := by
  constructor
  · show (st.prods ++ [_]).length = st.nextProd + 1
    simp [hx.1]
  · show IdxSeq (st.prods ++ [_]) 0
    apply IdxSeq.append hx.2
    have : 0 + st.prods.length = st.nextProd := by simp [hx.1]
    rw [this]
    exact IdxSeq.single { idx := st.nextProd, nonterminal := st.nextNt, rhs := [resolving b] }

theorem xst0_xidx : XIdx xst0 := ⟨rfl, IdxSeq.nil _⟩

theorem extract_xidx {cx : Ctx} {r0 : Rule} {rules : List Rule} {st : XSt}
    (h : extract cx r0 rules = .ok st) : XIdx st := by
  unfold extract at h
  simp only at h
  refine ruleSteps_xidx ?_ h
  split
  · exact createAug_xidx (createAug_xidx xst0_xidx)
  · exact createAug_xidx xst0_xidx

/-! ## what reference resolution changes -/

/-- pointwise related lists -/
inductive All2 {α β : Type} (R : α → β → Prop) : List α → List β → Prop
  | nil : All2 R [] []
  | cons {a : α} {b : β} {l : List α} {l' : List β} : R a b → All2 R l l' → All2 R (a :: l) (b :: l')

/-- resolution fills `index` and nothing else -/
def RhsRel (a a' : RAssign) : Prop := a'.name = a.name ∧ a'.sym = a.sym ∧ a'.isBool = a.isBool

/-- a production before / after a resolution pass -/
def ProdRel (p p' : GProd) : Prop := ∃ rhs', p' = { p with rhs := rhs' } ∧ All2 RhsRel p.rhs rhs'

theorem RhsRel.refl (a : RAssign) : RhsRel a a := ⟨rfl, rfl, rfl⟩

theorem RhsRel.trans {a b c : RAssign} (h1 : RhsRel a b) (h2 : RhsRel b c) : RhsRel a c :=
  ⟨h2.1.trans h1.1, h2.2.1.trans h1.2.1, h2.2.2.trans h1.2.2⟩

theorem forall₂_trans {α : Type} {R : α → α → Prop} (ht : ∀ a b c, R a b → R b c → R a c) :
    ∀ {l1 l2 l3 : List α}, All2 R l1 l2 → All2 R l2 l3 → All2 R l1 l3
  | [], _, _, h1, h2 => by
    cases h1; cases h2; exact .nil
  | _ :: _, _, _, h1, h2 => by
    cases h1 with
    | cons hab t1 =>
      cases h2 with
      | cons hbc t2 => exact .cons (ht _ _ _ hab hbc) (forall₂_trans ht t1 t2)

theorem ProdRel.trans {p q r : GProd} (h1 : ProdRel p q) (h2 : ProdRel q r) : ProdRel p r := by
  obtain ⟨r1, e1, f1⟩ := h1
  obtain ⟨r2, e2, f2⟩ := h2
  subst e1
  subst e2
  exact ⟨r2, rfl, forall₂_trans (R := RhsRel) (fun _ _ _ h1 h2 => RhsRel.trans h1 h2) f1 f2⟩

theorem resolveInlineRhs_rel {mm : SMap (Name × Nat)} {k : Nat} :
    ∀ {l l' : List RAssign}, resolveInlineRhs mm k l = .ok l' → All2 RhsRel l l'
  | [], l', h => by
    cases h
    exact .nil
  | a :: as, l', h => by
    unfold resolveInlineRhs at h
    simp only at h
    obtain ⟨x, hx, h⟩ := Outcome.bind_eq_ok.mp h
    obtain ⟨xs, hxs, h⟩ := Outcome.bind_eq_ok.mp h
    cases h
    refine .cons ?_ (resolveInlineRhs_rel hxs)
    split at hx
    · split at hx
      · cases hx
        exact ⟨rfl, rfl, rfl⟩
      · cases hx
    · cases hx
      exact RhsRel.refl _

theorem resolveInline_rel {mm : SMap (Name × Nat)} :
    ∀ {ps ps' : List GProd}, resolveInline mm ps = .ok ps' → All2 ProdRel ps ps'
  | [], ps', h => by
    cases h
    exact .nil
  | p :: ps, ps', h => by
    unfold resolveInline at h
    obtain ⟨rhs, h1, h⟩ := Outcome.bind_eq_ok.mp h
    obtain ⟨qs, h2, h⟩ := Outcome.bind_eq_ok.mp h
    cases h
    exact .cons ⟨rhs, rfl, resolveInlineRhs_rel h1⟩ (resolveInline_rel h2)

theorem resolveSym_rel {se : RFlags} {terms : SMap Term} {nts : List NonTerm} {p : GProd} {n : Nat} {a a' : RAssign}
    (h : resolveSym se terms nts p n a = .ok a') : RhsRel a a' ∧ a'.index.isSome := by
  unfold resolveSym at h
  split at h
  · rename_i i hi
    cases h
    exact ⟨RhsRel.refl _, by simp [hi]⟩
  · split at h
    · split at h
      · cases h
      · split at h
        · cases h
        · split at h
          · cases h
            exact ⟨⟨rfl, rfl, rfl⟩, rfl⟩
          · split at h
            · cases h
            · split at h
              · cases h
              · cases h
                exact ⟨⟨rfl, rfl, rfl⟩, rfl⟩
    · split at h
      · cases h
        exact ⟨⟨rfl, rfl, rfl⟩, rfl⟩
      · cases h

theorem resolveRhs_rel {se : RFlags} {terms : SMap Term} {nts : List NonTerm} {p : GProd} {n : Nat} :
    ∀ {l l' : List RAssign}, resolveRhs se terms nts p n l = .ok l' →
      All2 RhsRel l l' ∧ ∀ a, a ∈ l' → a.index.isSome
  | [], l', h => by
    cases h
    exact ⟨.nil, by simp⟩
  | a :: as, l', h => by
    unfold resolveRhs at h
    obtain ⟨x, hx, h⟩ := Outcome.bind_eq_ok.mp h
    obtain ⟨xs, hxs, h⟩ := Outcome.bind_eq_ok.mp h
    cases h
    obtain ⟨r1, i1⟩ := resolveSym_rel hx
    obtain ⟨r2, i2⟩ := resolveRhs_rel hxs
    refine ⟨.cons r1 r2, ?_⟩
    intro b hb
    rcases List.mem_cons.mp hb with rfl | hb
    · exact i1
    · exact i2 b hb

theorem resolveRefs_rel {se : RFlags} {terms : SMap Term} {nts : List NonTerm} :
    ∀ {ps ps' : List GProd}, resolveRefs se terms nts ps = .ok ps' →
      All2 ProdRel ps ps' ∧ ∀ p, p ∈ ps' → ∀ a, a ∈ p.rhs → a.index.isSome
  | [], ps', h => by
    cases h
    exact ⟨.nil, by simp⟩
  | p :: ps, ps', h => by
    unfold resolveRefs at h
    obtain ⟨rhs, h1, h⟩ := Outcome.bind_eq_ok.mp h
    obtain ⟨qs, h2, h⟩ := Outcome.bind_eq_ok.mp h
    cases h
    obtain ⟨r1, i1⟩ := resolveRhs_rel h1
    obtain ⟨r2, i2⟩ := resolveRefs_rel h2
    refine ⟨.cons ⟨rhs, rfl, r1⟩ r2, ?_⟩
    intro q hq
    rcases List.mem_cons.mp hq with rfl | hq
    · exact i1
    · exact i2 q hq

theorem forall₂_length {α β : Type} {R : α → β → Prop} : ∀ {l : List α} {l' : List β}, All2 R l l' → l.length = l'.length
  | [], _, h => by cases h; rfl
  | _ :: _, _, h => by
    cases h with
    | cons _ t => simp [forall₂_length t]

theorem forall₂_get {α β : Type} {R : α → β → Prop} : ∀ {l : List α} {l' : List β}, All2 R l l' →
    ∀ (i : Nat) b, l'[i]? = some b → ∃ a, l[i]? = some a ∧ R a b
  | [], _, h, i, b, hb => by cases h; simp at hb
  | x :: xs, _, h, i, b, hb => by
    cases h with
    | cons hr t =>
      cases i with
      | zero => simp at hb; subst hb; exact ⟨x, rfl, hr⟩
      | succ i => simp at hb; simpa using forall₂_get t i b hb

theorem forall₂_get' {α β : Type} {R : α → β → Prop} : ∀ {l : List α} {l' : List β}, All2 R l l' →
    ∀ (i : Nat) a, l[i]? = some a → ∃ b, l'[i]? = some b ∧ R a b
  | [], _, h, i, a, ha => by simp at ha
  | x :: xs, _, h, i, a, ha => by
    cases h with
    | cons hr t =>
      cases i with
      | zero => simp at ha; subst ha; exact ⟨_, rfl, hr⟩
      | succ i => simp at ha; simpa using forall₂_get' t i a ha

theorem IdxSeq.of_rel {l l' : List GProd} {a : Nat} (hr : All2 ProdRel l l') (h : IdxSeq l a) : IdxSeq l' a := by
  intro i p' hp'
  obtain ⟨p, hp, rhs', e, _⟩ := forall₂_get hr i p' hp'
  subst e
  exact h i p hp

end Rustemo.Front
