import Rustemo.Proofs.GlrCompleteDefs
/-!
# "The same derivation modulo elision": two trees are elisions of ONE full tree

`full.ElisionOf e`: `e` is `full` with, at some nodes, a suffix of children of empty yield removed; productions and
token kinds of what is kept agree (decorations — spans, values, layout — are ignored).  `Tree.SameDerivation t1 t2`:
there is one tree of which both are elisions.  (Finer than `Tree.EqElide`, which identifies any two empty-yield tails:
`S(a, A(B))` and `S(a, A(C))` with `B`, `C` deriving ε are `EqElide` but not the same derivation.)
-/
namespace Rustemo

mutual
def Tree.ElisionOf : Tree → Tree → Prop
  | .leaf a _ _ _, e =>
    match e with
    | .leaf b _ _ _ => a = b
    | .node _ _ _ _ => False
  | .node p _ _ cs, e =>
    match e with
    | .node q _ _ ds => p = q ∧ TreeList.ElisionOf cs ds
    | .leaf _ _ _ _ => False
def TreeList.ElisionOf : TreeList → TreeList → Prop
  | .nil, e => e = .nil
  | .cons t ts, e =>
    match e with
    | .nil => t.yield ++ ts.yield = []
    | .cons t' ts' => Tree.ElisionOf t t' ∧ TreeList.ElisionOf ts ts'
end

def Tree.SameDerivation (t1 t2 : Tree) : Prop := ∃ full : Tree, full.ElisionOf t1 ∧ full.ElisionOf t2

theorem Tree.SameDerivation.symm {t1 t2 : Tree} (h : t1.SameDerivation t2) : t2.SameDerivation t1 := by
  obtain ⟨f, h1, h2⟩ := h; exact ⟨f, h2, h1⟩

mutual
theorem Tree.elisionOf_yield : ∀ (full e : Tree), full.ElisionOf e → e.yield = full.yield
  | .leaf a _ _ _, .leaf b _ _ _, h => by simp only [Tree.ElisionOf] at h; simp [Tree.yield, h]
  | .leaf a _ _ _, .node _ _ _ _, h => by simp [Tree.ElisionOf] at h
  | .node p _ _ cs, .leaf _ _ _ _, h => by simp [Tree.ElisionOf] at h
  | .node p _ _ cs, .node q _ _ ds, h => by
    simp only [Tree.ElisionOf] at h
    simp only [Tree.yield]
    exact TreeList.elisionOf_yield cs ds h.2
theorem TreeList.elisionOf_yield : ∀ (full e : TreeList), full.ElisionOf e → e.yield = full.yield
  | .nil, e, h => by simp only [TreeList.ElisionOf] at h; rw [h]
  | .cons t ts, .nil, h => by
    simp only [TreeList.ElisionOf] at h
    simp [TreeList.yield, h]
  | .cons t ts, .cons t' ts', h => by
    simp only [TreeList.ElisionOf] at h
    simp only [TreeList.yield]
    rw [Tree.elisionOf_yield t t' h.1, TreeList.elisionOf_yield ts ts' h.2]
end

theorem Tree.SameDerivation.yield {t1 t2 : Tree} (h : t1.SameDerivation t2) : t1.yield = t2.yield := by
  obtain ⟨f, h1, h2⟩ := h
  rw [Tree.elisionOf_yield f t1 h1, Tree.elisionOf_yield f t2 h2]

end Rustemo
