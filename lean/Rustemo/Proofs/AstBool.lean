import Rustemo.Model.AstEval
/-!
# C10: `?=` assignments — a content-bearing target keeps a member named by the assignment
-/
namespace Rustemo.Ast

theorem mem_enumFrom_of_mem {α} : ∀ (l : List α) (n : Nat) (x : α), x ∈ l → ∃ i, (i, x) ∈ enumFrom n l
  | [], _, _, h => by cases h
  | a :: as, n, x, h => by
    rcases List.mem_cons.mp h with h | h
    · subst h; exact ⟨n, by simp [enumFrom]⟩
    · obtain ⟨i, hi⟩ := mem_enumFrom_of_mem as (n + 1) x h
      exact ⟨i, by simp [enumFrom, hi]⟩

theorem mem_contentRhs (p : AProd) (r : RSym) (hr : r ∈ p.rhs) (hc : r.content = true) :
    ∃ i, (i, r) ∈ contentRhs p := by
  obtain ⟨i, hi⟩ := mem_enumFrom_of_mem p.rhs 0 r hr
  exact ⟨i, by unfold contentRhs; exact List.mem_filter.mpr ⟨hi, hc⟩⟩

theorem fieldOf_label (tn : List String) (a : Nat × RSym) (l : String) (h : a.2.label = some l) :
    (fieldOf tn a).name = l := by
  unfold fieldOf
  simp [h]

/-- a named (`=` or `?=`) symbol WITH content becomes a member of the choice's struct, under the assignment's name -/
theorem named_content_is_member (nt : String) (ntidx : Nat) (p : AProd) (r : RSym) (l : String)
    (hr : r ∈ p.rhs) (hc : r.content = true) (hl : r.label = some l) :
    l ∈ (mkChoice nt ntidx p).memberNames := by
  obtain ⟨i, hi⟩ := mem_contentRhs p r hr hc
  unfold mkChoice
  simp only
  split
  · rename_i hnil
    rw [hnil] at hi; cases hi
  · rename_i a rest hcons
    rw [hcons] at hi
    split
    · rename_i hcond
      simp only [Bool.and_eq_true, List.isEmpty_iff, Option.isNone_iff_eq_none] at hcond
      obtain ⟨hrest, hnone⟩ := hcond
      rw [hrest] at hi
      simp only [List.mem_singleton] at hi
      rw [← hi] at hnone
      simp only at hnone
      rw [hl] at hnone; cases hnone
    · simp only [Choice.memberNames, List.map_map, List.mem_map, Function.comp]
      exact ⟨(i, r), by rw [hcons]; exact hi, fieldOf_label _ (i, r) l hl⟩

end Rustemo.Ast
