import Rustemo.Proofs.GlrLexDet
/-!
# `LexDet` for single-character terminals WITH whitespace skipping

`Proofs/GlrLexDet.lean` inherits from `CharEnv` (the LR half) the restriction "whitespace skipping off, or nothing to
skip".  Here it is dropped: with `StringLexer::skip` (model `skip`) moving a head from `headPos env i` to the start
`tokStart env i` of token `i`, the GLR run is token-deterministic with the tokens `wsTok env i` — the terminal of the
byte the lexer stops at, STOP when it stops at the end of the input.  The token kinds are `tokensOfWs` (Model/
GlrLexCert.lean), a direct recursion on byte offsets.  Still: no Layout rule, full parse, string lexer.
-/
namespace Rustemo
open Rustemo.Glr

structure CharEnvWs (env : Env) : Prop where
  recog : ∀ k pos, k < env.g.nterms → pos ≤ env.input.length →
    env.recog k pos = charRecog env.g env.input k pos
  custom : env.custom = none

theorem charEnvWsOk_sound (env : Env) (h : charEnvWsOk env = true) : CharEnvWs env := by
  unfold charEnvWsOk at h
  simp only [Bool.and_eq_true, List.all_eq_true, List.mem_range, beq_iff_eq, Option.isNone_iff_eq_none] at h
  obtain ⟨h1, h2⟩ := h
  exact ⟨fun k pos hk hp => h1 k hk pos (by omega), h2⟩

/-- where the lexer stops when started at `p` -/
def lexPos (env : Env) (p : Pos) : Pos :=
  if env.skipWs then
    (if wsPrefixLen (env.input.drop p.pos).length (env.input.drop p.pos) > 0 then
      posAfter ((env.input.drop p.pos).take (wsPrefixLen (env.input.drop p.pos).length (env.input.drop p.pos))) p
     else p)
  else p

theorem lexNext_ws (env : Env) (he : CharEnvWs env) (ctx : Ctx) (expected : List (Nat × Bool)) :
    ∃ ctx', lexNext env ctx expected = (ctx', tokenIter env ctx'.pos expected) ∧ ctx'.pos = lexPos env ctx.pos := by
  unfold lexNext
  rw [he.custom]
  simp only
  cases hs : env.skipWs with
  | false => exact ⟨ctx, by simp, by simp [lexPos, hs]⟩
  | true =>
    simp only [↓reduceIte]
    refine ⟨skip env ctx, rfl, ?_⟩
    unfold skip lexPos
    simp only [hs, ↓reduceIte]
    split <;> rfl

theorem lexPos_pos (env : Env) (p : Pos) : (lexPos env p).pos = p.pos + skipLen env.skipWs env.input p.pos := by
  unfold lexPos skipLen
  cases env.skipWs with
  | false => simp
  | true =>
    simp only [↓reduceIte]
    split
    · simp only [posAfter, List.length_take, List.length_drop]
    · rename_i h
      have : wsPrefixLen (env.input.drop p.pos).length (env.input.drop p.pos) = 0 := by omega
      rw [List.length_drop] at this
      simp [this]

/-- start of token `i` (after the whitespace in front of it) -/
def tokStart (env : Env) : Nat → Pos
  | 0 => lexPos env Pos.start
  | i+1 => lexPos env
      (posAfter (sliceOf env.input ((tokStart env i).pos, tokLen env.input (tokStart env i).pos)) (tokStart env i))

/-- end of token `i - 1` = where the heads of level `i` start -/
def headPos (env : Env) : Nat → Pos
  | 0 => Pos.start
  | i+1 => posAfter (sliceOf env.input ((tokStart env i).pos, tokLen env.input (tokStart env i).pos)) (tokStart env i)

theorem tokStart_eq (env : Env) (i : Nat) : tokStart env i = lexPos env (headPos env i) := by
  cases i <;> rfl

/-- token `i`: the terminal of the byte at `tokStart env i`, STOP at the end of the input -/
def wsTok (env : Env) (i : Nat) : Tok :=
  tokAt env (tokStart env i) (lookahead (toksFrom env.g env.input (tokStart env i).pos))

theorem headPos_succ_pos (env : Env) (i : Nat) :
    (headPos env (i+1)).pos = (tokStart env i).pos + (if (tokStart env i).pos < env.input.length then 1 else 0) := by
  simp only [headPos, posAfter, sliceOf, tokLen, List.length_take, List.length_drop]
  split <;> split <;> omega

theorem tokStart_pos (env : Env) (i : Nat) :
    (tokStart env i).pos = (headPos env i).pos + skipLen env.skipWs env.input (headPos env i).pos := by
  rw [tokStart_eq, lexPos_pos]

theorem skipLen_le (b : Bool) (input : List Nat) (p : Nat) : p + skipLen b input p ≤ max p input.length := by
  unfold skipLen
  split <;> omega

theorem pos_le (env : Env) : ∀ i, (headPos env i).pos ≤ env.input.length ∧ (tokStart env i).pos ≤ env.input.length := by
  intro i
  induction i with
  | zero =>
    have h0 : (headPos env 0).pos = 0 := rfl
    refine ⟨by omega, ?_⟩
    rw [tokStart_pos, h0]
    have := skipLen_le env.skipWs env.input 0
    omega
  | succ i ih =>
    have h1 : (headPos env (i+1)).pos ≤ env.input.length := by
      rw [headPos_succ_pos]
      split <;> omega
    refine ⟨h1, ?_⟩
    rw [tokStart_pos]
    have := skipLen_le env.skipWs env.input (headPos env (i+1)).pos
    omega

theorem headPos_ge (env : Env) : ∀ i, (∀ j, j < i → (tokStart env j).pos < env.input.length) → i ≤ (headPos env i).pos := by
  intro i
  induction i with
  | zero => intro _; exact Nat.zero_le _
  | succ i ih =>
    intro h
    have h1 := ih (fun j hj => h j (by omega))
    have h2 := h i (by omega)
    rw [headPos_succ_pos, tokStart_pos]
    rw [tokStart_pos] at h2
    simp only [h2, ↓reduceIte]
    omega

/-- the number of tokens: the first index at which the lexer stops at the end of the input -/
def tokCount (env : Env) : Nat → Nat → Nat
  | 0, i => i
  | fuel+1, i => if env.input.length ≤ (tokStart env i).pos then i else tokCount env fuel (i+1)

def nToks (env : Env) : Nat := tokCount env env.input.length 0

theorem tokCount_spec (env : Env) : ∀ (fuel i : Nat), (∀ j, j < i → (tokStart env j).pos < env.input.length) →
    tokCount env fuel i ≤ i + fuel ∧
    (∀ j, j < tokCount env fuel i → (tokStart env j).pos < env.input.length) ∧
    (tokCount env fuel i < i + fuel → env.input.length ≤ (tokStart env (tokCount env fuel i)).pos) := by
  intro fuel
  induction fuel with
  | zero =>
    intro i h
    simp only [tokCount]
    exact ⟨by omega, h, fun hh => by omega⟩
  | succ fuel ih =>
    intro i h
    unfold tokCount
    split
    · rename_i hle
      exact ⟨by omega, h, fun _ => hle⟩
    · rename_i hlt
      have h' : ∀ j, j < i + 1 → (tokStart env j).pos < env.input.length := by
        intro j hj
        rcases Nat.lt_or_ge j i with h1 | h1
        · exact h j h1
        · have : j = i := by omega
          subst this; omega
      obtain ⟨k1, k2, k3⟩ := ih (i+1) h'
      exact ⟨by omega, k2, fun hh => k3 (by omega)⟩

theorem nToks_spec (env : Env) :
    nToks env ≤ env.input.length ∧ (∀ j, j < nToks env → (tokStart env j).pos < env.input.length) ∧
    (tokStart env (nToks env)).pos = env.input.length := by
  obtain ⟨k1, k2, k3⟩ := tokCount_spec env env.input.length 0 (fun j hj => by omega)
  unfold nToks
  refine ⟨by omega, k2, ?_⟩
  have hle := (pos_le env (tokCount env env.input.length 0)).2
  rcases Nat.lt_or_ge (tokCount env env.input.length 0) (0 + env.input.length) with h | h
  · have := k3 h; omega
  · have h1 := headPos_ge env _ k2
    have h2 := tokStart_pos env (tokCount env env.input.length 0)
    omega

theorem wsTok_kind (env : Env) (i : Nat) (hi : (tokStart env i).pos < env.input.length) :
    (wsTok env i).kind = charToTerm env.g (env.input.getD (tokStart env i).pos 0) := by
  unfold wsTok tokAt
  simp only [toksFrom_cons hi, lookahead, List.headD_cons]
  congr 1
  simp [List.getD_eq_getElem?_getD, List.getElem?_eq_getElem hi]

theorem tokensFromWs_eq (env : Env) : ∀ (fuel i : Nat), i ≤ nToks env → nToks env - i < fuel →
    tokensFromWs env.g env.skipWs env.input fuel (headPos env i).pos =
      (List.range' i (nToks env - i)).map (fun j => (wsTok env j).kind) := by
  intro fuel
  induction fuel with
  | zero => intro i _ h; omega
  | succ fuel ih =>
    intro i hi hf
    obtain ⟨_, k2, k3⟩ := nToks_spec env
    unfold tokensFromWs
    simp only [← tokStart_pos]
    rcases Nat.lt_or_ge i (nToks env) with hlt | hge
    · have hq := k2 i hlt
      have hnle : ¬ env.input.length ≤ (tokStart env i).pos := by omega
      simp only [hnle, ↓reduceIte]
      have hn : nToks env - i = (nToks env - (i+1)) + 1 := by omega
      rw [hn, List.range'_succ, List.map_cons, wsTok_kind env i hq]
      congr 1
      have hp : (headPos env (i+1)).pos = (tokStart env i).pos + 1 := by
        rw [headPos_succ_pos]; simp [hq]
      rw [← hp]
      exact ih (i+1) (by omega) (by omega)
    · have : i = nToks env := by omega
      subst this
      simp [k3]

theorem wsTok_kinds (env : Env) :
    (List.range (nToks env)).map (fun i => (wsTok env i).kind) = tokensOfWs env.g env.skipWs env.input := by
  have h := tokensFromWs_eq env (env.input.length + 1) 0 (Nat.zero_le _) (by have := (nToks_spec env).1; omega)
  have h0 : (headPos env 0).pos = 0 := rfl
  rw [h0] at h
  unfold tokensOfWs
  rw [h, List.range_eq_range']
  rfl

theorem knownBytes_ws_of_sentence {g : Grammar} {b : Bool} {input : List Nat} (h : Sentence g (tokensOfWs g b input)) :
    knownToks g b input = true := by
  obtain ⟨tr, hv, hy⟩ := h
  unfold knownToks
  rw [List.all_eq_true]
  intro a ha
  rw [← hy] at ha
  simpa using Tree.yield_lt g tr _ hv _ ha

/-- **`LexDet` holds of a byte input with whitespace skipping**: tokens `wsTok env i` for `i < nToks env`, end token
    `wsTok env (nToks env)`; heads of level `i` start at `headPos env i`, `find_lookaheads` moves them to
    `tokStart env i`. -/
theorem lexDet_ws (env : Env) (hc : SingleChar env.g env.t) (he : CharEnvWs env)
    (hk : knownToks env.g env.skipWs env.input = true) (hu : LexUnique env) (fuel : Nat) :
    LexDet env false fuel (nToks env) (wsTok env) (headPos env) (tokStart env) := by
  obtain ⟨k1, k2, k3⟩ := nToks_spec env
  refine ⟨rfl, ?_, ?_, ?_, ?_⟩
  · intro i _
    rfl
  · intro i _ ctx hp _
    obtain ⟨ctx', hlex, hpos⟩ := lexNext_ws env he ctx (env.t.sorted ctx.state)
    have hst : ctx'.pos = tokStart env i := by rw [hpos, hp, tokStart_eq]
    have := findLookaheads_core env he.recog hc hu fuel ctx ctx' hlex (by rw [hst]; exact (pos_le env i).2)
      (lookahead (toksFrom env.g env.input ctx'.pos.pos)) rfl
    rw [hst] at this
    exact this
  · unfold wsTok tokAt
    simp only [toksFrom_nil (Nat.le_of_eq k3.symm), lookahead, List.headD_nil]
  · intro i hi
    have hq := k2 i hi
    have h0 : (wsTok env i).kind ≠ 0 := by
      rw [wsTok_kind env i hq]; exact charToTerm_ne_zero hc _
    have h1 : (wsTok env i).kind < env.g.nterms := by
      unfold knownToks at hk
      rw [List.all_eq_true] at hk
      have hm : (wsTok env i).kind ∈ tokensOfWs env.g env.skipWs env.input := by
        rw [← wsTok_kinds env]
        exact List.mem_map_of_mem (f := fun i => (wsTok env i).kind) (List.mem_range.mpr hi)
      simpa using hk _ hm
    omega

/-- `LexDet` from executable certificates, whitespace allowed -/
theorem lexDet_of_singleChar_ws (env : Env) (hlex : Cert.singleCharLexer env.g env.t = true)
    (henv : charEnvWsOk env = true) (hknown : knownToks env.g env.skipWs env.input = true)
    (huniq : lexUniqueOk env = true) (fuel : Nat) :
    ∃ n tok P L, LexDet env false fuel n tok P L ∧
      (List.range n).map (fun i => (tok i).kind) = tokensOfWs env.g env.skipWs env.input :=
  ⟨nToks env, wsTok env, headPos env, tokStart env,
    lexDet_ws env (Cert.singleCharLexer_sound _ _ hlex) (charEnvWsOk_sound env henv) hknown
      (lexUniqueOk_sound env huniq) fuel, wsTok_kinds env⟩

/-! ## nothing to skip: `tokensOfWs` is `tokensOf` -/

theorem skipLen_zero {b : Bool} {input : List Nat} (h : b = false ∨ noWsBytes input = true) (p : Nat) :
    skipLen b input p = 0 := by
  unfold skipLen
  rcases h with h | h
  · simp [h]
  · split
    · have hz : wsPrefixLen (input.drop p).length (input.drop p) = 0 := by
        cases hl : (input.drop p).length with
        | zero => rfl
        | succ n =>
          unfold wsPrefixLen
          have : wsCharLen (input.drop p) = 0 := by
            apply wsCharLen_zero
            intro x hx
            unfold noWsBytes at h
            rw [List.all_eq_true] at h
            have := h x (List.mem_of_mem_drop hx)
            simpa using this
          simp [this]
      rw [hz]; omega
    · rfl

theorem tokensFromWs_noskip {g : Grammar} {b : Bool} {input : List Nat} (h : b = false ∨ noWsBytes input = true) :
    ∀ (fuel p : Nat), input.length - p < fuel → tokensFromWs g b input fuel p = toksFrom g input p := by
  intro fuel
  induction fuel with
  | zero => intro p hp; omega
  | succ fuel ih =>
    intro p hp
    unfold tokensFromWs
    simp only [skipLen_zero h, Nat.add_zero]
    split
    · rename_i hle
      exact (toksFrom_nil hle).symm
    · rename_i hlt
      have hlt' : p < input.length := by omega
      rw [toksFrom_cons hlt', ih (p+1) (by omega)]
      congr 1
      simp [List.getD_eq_getElem?_getD, List.getElem?_eq_getElem hlt']

theorem tokensOfWs_noskip {g : Grammar} {b : Bool} {input : List Nat} (h : b = false ∨ noWsBytes input = true) :
    tokensOfWs g b input = tokensOf g input := by
  unfold tokensOfWs
  rw [tokensFromWs_noskip h _ _ (by omega), toksFrom_zero]

end Rustemo
