import Rustemo.Model.Forest
/-!
# Forest enumeration is the canonical enumeration

`get i` (index decoding of `Tree::children` / `find_tree_root`) returns the i-th element of `all`
(possibilities in order, children as a lexicographic product) and `none` from `solutions` on, for
every well-formed SPPF: no parent link with zero solutions — exactly the case in which
`Tree::children` would divide by zero.
-/
namespace Rustemo.Forest

theorem flatMap_map_getElem? {α β γ : Type} (A : List α) (B : List β) (f : α → β → γ) (i : Nat)
    (hB : 0 < B.length) (hi : i < A.length * B.length) :
    (A.flatMap (fun a => B.map (f a)))[i]? =
      (match A[i / B.length]?, B[i % B.length]? with
       | some a, some b => some (f a b)
       | _, _ => none) := by
  induction A generalizing i with
  | nil => simp at hi
  | cons a A ih =>
    simp only [List.flatMap_cons]
    by_cases h : i < B.length
    · have hdiv : i / B.length = 0 := Nat.div_eq_of_lt h
      have hmod : i % B.length = i := Nat.mod_eq_of_lt h
      rw [List.getElem?_append_left (by simpa using h)]
      simp [hdiv, hmod, List.getElem?_map]
      cases hb : B[i]? <;> simp
    · have h' : B.length ≤ i := Nat.le_of_not_lt h
      rw [List.getElem?_append_right (by simpa using h')]
      simp only [List.length_map]
      have hi' : i - B.length < A.length * B.length := by
        simp only [List.length_cons] at hi
        rw [Nat.add_mul, Nat.one_mul] at hi
        omega
      rw [ih (i - B.length) hi']
      have hdiv : i / B.length = (i - B.length) / B.length + 1 := by
        conv => lhs; rw [← Nat.sub_add_cancel h']
        rw [Nat.add_div_right _ hB]
      have hmod : i % B.length = (i - B.length) % B.length := by
        conv => lhs; rw [← Nat.sub_add_cancel h']
        rw [Nat.add_mod_right]
      rw [hdiv, hmod]
      simp

mutual
theorem SNode.len_all : ∀ n : SNode, n.all.length = n.solutions
  | .term _ _ => by simp [SNode.all, SNode.solutions]
  | .nonterm _ cs => by simp [SNode.all, SNode.solutions, PList.len_all cs]
  | .empty => by simp [SNode.all, SNode.solutions]
theorem Parent.len_all : ∀ p : Parent, p.all.length = p.solutions
  | .mk ns => by simp [Parent.all, Parent.solutions, NList.len_all ns]
theorem NList.len_all : ∀ ns : NList, ns.all.length = ns.sum
  | .nil => by simp [NList.all, NList.sum]
  | .cons n ns => by simp [NList.all, NList.sum, SNode.len_all n, NList.len_all ns]
theorem PList.len_all : ∀ ps : PList, ps.all.length = ps.prod
  | .nil => by simp [PList.all, PList.prod]
  | .cons p ps => by
    simp only [PList.all, PList.prod, List.length_flatMap, List.length_map]
    rw [← Parent.len_all p, ← PList.len_all ps]
    induction p.all with
    | nil => simp
    | cons a l ih => simp [List.sum_cons, ih, Nat.add_mul, Nat.add_comm]
end

-- Well-formed forest: every parent link has at least one solution.
mutual
def SNode.WF : SNode → Prop
  | .term _ _ => True
  | .nonterm _ cs => cs.WF
  | .empty => True
def Parent.WF : Parent → Prop
  | .mk ns => 0 < ns.sum ∧ ns.WF
def NList.WF : NList → Prop
  | .nil => True
  | .cons n ns => n.WF ∧ ns.WF
def PList.WF : PList → Prop
  | .nil => True
  | .cons p ps => p.WF ∧ ps.WF
end

theorem PList.prod_pos : ∀ ps : PList, ps.WF → 0 < ps.prod
  | .nil, _ => by simp [PList.prod]
  | .cons (.mk ns) ps, h => by
    simp only [PList.WF, Parent.WF] at h
    simp only [PList.prod, Parent.solutions]
    exact Nat.mul_pos h.1.1 (PList.prod_pos ps h.2)

mutual
theorem SNode.get_eq : ∀ (n : SNode) (i : Nat), n.WF → i < n.solutions → n.get i = n.all[i]?
  | .term k s, i, _, hi => by
    simp only [SNode.solutions] at hi
    have : i = 0 := by omega
    subst this; simp [SNode.get, SNode.all]
  | .nonterm p cs, i, hw, hi => by
    simp only [SNode.solutions] at hi
    simp only [SNode.WF] at hw
    simp [SNode.get, SNode.all, PList.get_eq cs i hw hi, List.getElem?_map]
  | .empty, i, _, hi => by simp [SNode.solutions] at hi
theorem Parent.get_eq : ∀ (p : Parent) (i : Nat), p.WF → p.get i = p.all[i]?
  | .mk ns, i, hw => by
    simp only [Parent.WF] at hw
    simp [Parent.get, Parent.all, NList.get_eq ns i hw.2]
theorem NList.get_eq : ∀ (ns : NList) (i : Nat), ns.WF → ns.get i = ns.all[i]?
  | .nil, i, _ => by simp [NList.get, NList.all]
  | .cons n ns, i, hw => by
    simp only [NList.WF] at hw
    simp only [NList.get, NList.all]
    by_cases h : i < n.solutions
    · simp only [h, ↓reduceIte]
      rw [SNode.get_eq n i hw.1 h, List.getElem?_append_left (by rw [SNode.len_all]; exact h)]
    · simp only [h, ↓reduceIte]
      rw [NList.get_eq ns _ hw.2, List.getElem?_append_right (by rw [SNode.len_all]; omega), SNode.len_all]
theorem PList.get_eq : ∀ (ps : PList) (i : Nat), ps.WF → i < ps.prod → ps.get i = ps.all[i]?
  | .nil, i, _, hi => by
    simp only [PList.prod] at hi
    have : i = 0 := by omega
    subst this; simp [PList.get, PList.all]
  | .cons p ps, i, hw, hi => by
    simp only [PList.WF] at hw
    simp only [PList.prod] at hi
    have hpos := PList.prod_pos ps hw.2
    have hmod : i % ps.prod < ps.prod := Nat.mod_lt _ hpos
    simp only [PList.get, PList.all]
    rw [Parent.get_eq p _ hw.1, PList.get_eq ps _ hw.2 hmod]
    rw [flatMap_map_getElem? p.all ps.all (fun t ts => t :: ts) i
          (by rw [PList.len_all]; exact hpos) (by rw [Parent.len_all, PList.len_all]; exact hi)]
    rw [PList.len_all]
    cases p.all[i / ps.prod]? <;> cases ps.all[i % ps.prod]? <;> rfl
end

theorem iterate_eq (f : Forest) (hw : f.roots.WF) :
    ∀ (fuel i : Nat), f.solutions ≤ i + fuel → f.iterate fuel i = f.allTrees.drop i := by
  intro fuel
  induction fuel with
  | zero =>
    intro i h
    simp only [Forest.iterate]
    unfold Forest.allTrees Forest.solutions at *
    rw [List.drop_eq_nil_of_le]
    rw [NList.len_all]; omega
  | succ n ih =>
    intro i h
    simp only [Forest.iterate, Forest.getTree]
    rw [NList.get_eq f.roots i hw]
    unfold Forest.allTrees
    cases hg : f.roots.all[i]? with
    | none =>
      simp only
      rw [List.drop_eq_nil_of_le]
      exact List.getElem?_eq_none_iff.mp hg
    | some t =>
      simp only
      have hlt : i < f.roots.all.length := by
        rcases Nat.lt_or_ge i f.roots.all.length with h' | h'
        · exact h'
        · rw [List.getElem?_eq_none h'] at hg; simp at hg
      rw [ih (i + 1) (by omega)]
      unfold Forest.allTrees
      rw [List.drop_eq_getElem_cons hlt]
      rw [List.getElem?_eq_getElem hlt] at hg
      injection hg with hg
      rw [hg]

end Rustemo.Forest
