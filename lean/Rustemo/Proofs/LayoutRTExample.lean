import Rustemo.Proofs.LayoutRTInsertPath
import Rustemo.Props.ExampleLayout
/-!
# The hand-written recognizers of `Props/ExampleLayout.lean` stay inside their inputs
-/
namespace Rustemo
open Rustemo.ExampleLayout

theorem spaces_le : ∀ (l : List Nat), spaces l ≤ l.length
  | [] => by simp [spaces]
  | b :: r => by
    unfold spaces
    split
    · rename_i r' heq
      injection heq with h1 h2
      subst h2
      have := spaces_le r
      simp only [List.length_cons]
      omega
    · omega

theorem lit_ok (input : List Nat) (pos : Nat) (bytes : List Nat) (l : Nat) (hne : bytes ≠ [])
    (h : lit input pos bytes = some l) : pos + l ≤ input.length := by
  unfold lit at h
  split at h
  · rename_i heq
    injection h with h
    subst h
    have hl := congrArg List.length heq
    simp only [List.length_take, List.length_drop] at hl
    have hpos : 0 < bytes.length := List.length_pos_iff.mpr hne
    omega
  · simp at h

theorem spaces_ok (input : List Nat) (pos : Nat) (h : spaces (input.drop pos) > 0) :
    pos + spaces (input.drop pos) ≤ input.length := by
  have := spaces_le (input.drop pos)
  simp only [List.length_drop] at this
  omega

theorem Ws.recogOk : RecogOk Ws.env := by
  intro k p l h
  show p + l ≤ Ws.input.length
  have h' : Ws.recog k p = some l := h
  unfold Ws.recog at h'
  split at h'
  · split at h'
    · injection h' with h'; omega
    · simp at h'
  · split at h'
    · exact lit_ok _ _ _ _ (by simp) h'
    · split at h'
      · split at h'
        · rename_i hs
          injection h' with h'
          subst h'
          exact spaces_ok _ _ hs
        · simp at h'
      · simp at h'

theorem Ins.recogA_ok (inp : List Nat) (k p l : Nat) (h : Ins.recogA inp k p = some l) :
    p + l ≤ inp.length := by
  unfold Ins.recogA at h
  split at h
  · split at h
    · rename_i h2
      injection h with h; subst h
      have : p < inp.length := by
        rcases Nat.lt_or_ge p inp.length with h | h
        · exact h
        · simp [List.getElem?_eq_none h] at h2
      omega
    · simp at h
  · split at h
    · split at h
      · injection h with h; subst h; omega
      · simp at h
    · simp at h

theorem Ins.recogOk1 : RecogOk Ins.env1 := fun k p l h => Ins.recogA_ok Example.input k p l h
theorem Ins.recogOk2 : RecogOk Ins.env2 := fun k p l h => Ins.recogA_ok Ins.input2 k p l h

/-- what the recognizers answer at the offsets of `Ins.R` -/
theorem Ins.recogA_cases (inp : List Nat) (k p l : Nat) (h : Ins.recogA inp k p = some l) :
    (k = 1 ∧ l = 1 ∧ inp[p]? = some 97) ∨ (k = 0 ∧ l = 0 ∧ p = inp.length) := by
  unfold Ins.recogA at h
  split at h
  · rename_i hk
    split at h
    · rename_i h2; injection h with h; exact Or.inl ⟨hk, h.symm, h2⟩
    · simp at h
  · split at h
    · rename_i hk
      split at h
      · rename_i h2; injection h with h; exact Or.inr ⟨hk, h.symm, h2⟩
      · simp at h
    · simp at h

theorem Ins.aligned : Aligned Ins.env1 Ins.env2 Ins.R := by
  refine ⟨Or.inl ⟨by decide, by decide⟩, ?_, ?_, ?_⟩
  · intro p q hR k
    show Ins.recogA Example.input k p = Ins.recogA Ins.input2 k q
    rcases hR with ⟨rfl, rfl⟩ | ⟨rfl, rfl⟩ | ⟨rfl, rfl⟩ <;>
    · unfold Ins.recogA
      by_cases h1 : k = 1
      · subst h1; decide
      · by_cases h0 : k = 0
        · subst h0; decide
        · simp [h1, h0]
  · intro p q hR k l h
    have h' : Ins.recogA Example.input k p = some l := h
    rcases Ins.recogA_cases _ _ _ _ h' with ⟨_, rfl, h2⟩ | ⟨_, rfl, h2⟩ <;>
    rcases hR with ⟨rfl, rfl⟩ | ⟨rfl, rfl⟩ | ⟨rfl, rfl⟩
    · exact Or.inr (Or.inl ⟨by decide, by decide⟩)
    · exact Or.inr (Or.inr ⟨by decide, by decide⟩)
    · exact absurd h2 (by decide)
    · exact absurd h2 (by decide)
    · exact absurd h2 (by decide)
    · exact Or.inr (Or.inr ⟨by decide, by decide⟩)
  · intro p q hR k l h
    have h' : Ins.recogA Example.input k p = some l := h
    rcases Ins.recogA_cases _ _ _ _ h' with ⟨_, rfl, h2⟩ | ⟨_, rfl, h2⟩ <;>
    rcases hR with ⟨rfl, rfl⟩ | ⟨rfl, rfl⟩ | ⟨rfl, rfl⟩ <;>
    first
      | decide
      | exact absurd h2 (by decide)

/-- token history of an accepted parse -/
def histOf (x : Ctx × Outcome ParseResult) : Option (List Tok) :=
  match x with
  | (_, .ok r) => some r.hist
  | _ => none

theorem histOf_spec (x : Ctx × Outcome ParseResult) (l : List Tok) (h : histOf x = some l) :
    ∃ ctx r, x = (ctx, .ok r) ∧ r.hist = l := by
  unfold histOf at h
  split at h
  · rename_i ctx r
    injection h with h
    exact ⟨ctx, r, rfl, h⟩
  · simp at h

/-- the parse of "a a" shifts `a` at 0 and `a` at 2, and "a  a " is aligned with it along them -/
theorem Ins.pathAligned : ∃ ctx1 r1, parse Ins.env1 false 100 = (ctx1, .ok r1) ∧
    PathAligned Ins.env1 Ins.env2 r1.hist.reverse (postSkip Ins.env1 0) (postSkip Ins.env2 0) := by
  have hh : histOf (parse Ins.env1 false 100) =
      some [⟨1, (2, 1), ⟨⟨2, 1, 2⟩, ⟨3, 1, 3⟩⟩⟩, ⟨1, (0, 1), ⟨⟨0, 1, 0⟩, ⟨1, 1, 1⟩⟩⟩] := by decide +kernel
  obtain ⟨ctx1, r1, hp, hr⟩ := histOf_spec _ _ hh
  refine ⟨ctx1, r1, hp, ?_⟩
  rw [hr]
  have e0 : postSkip Ins.env1 0 = 0 := by decide
  have e0' : postSkip Ins.env2 0 = 0 := by decide
  have e1 : postSkip Ins.env1 (0 + 1) = 2 := by decide
  have e1' : postSkip Ins.env2 (0 + 1) = 3 := by decide
  have e2 : postSkip Ins.env1 (2 + 1) = 3 := by decide
  have e2' : postSkip Ins.env2 (3 + 1) = 5 := by decide
  rw [e0, e0']
  simp only [List.reverse_cons, List.reverse_nil, List.nil_append, List.cons_append, PathAligned]
  rw [e1, e1', e2, e2']
  exact ⟨trivial, Ins.aligned.recog 0 0 (Or.inl ⟨rfl, rfl⟩), by decide, rfl,
    Ins.aligned.recog 2 3 (Or.inr (Or.inl ⟨rfl, rfl⟩)), by decide,
    Ins.aligned.recog 3 5 (Or.inr (Or.inr ⟨rfl, rfl⟩))⟩

end Rustemo
