import Rustemo.Proofs.LexOk
import Rustemo.Props.ExampleLayout
/-!
# The hand-written recognizers of `Props/ExampleLayout.lean` stay inside their inputs
-/
namespace Rustemo
open Rustemo.ExampleLayout

theorem spaces_le : ∀ (l : List Nat), spaces l ≤ l.length
  | [] => by simp [spaces]
  | b :: r => by
    unfold spaces
    split
    · rename_i r' heq
      injection heq with h1 h2
      subst h2
      have := spaces_le r
      simp only [List.length_cons]
      omega
    · omega

theorem lit_ok (input : List Nat) (pos : Nat) (bytes : List Nat) (l : Nat) (hne : bytes ≠ [])
    (h : lit input pos bytes = some l) : pos + l ≤ input.length := by
  unfold lit at h
  split at h
  · rename_i heq
    injection h with h
    subst h
    have hl := congrArg List.length heq
    simp only [List.length_take, List.length_drop] at hl
    have hpos : 0 < bytes.length := List.length_pos_iff.mpr hne
    omega
  · simp at h

theorem spaces_ok (input : List Nat) (pos : Nat) (h : spaces (input.drop pos) > 0) :
    pos + spaces (input.drop pos) ≤ input.length := by
  have := spaces_le (input.drop pos)
  simp only [List.length_drop] at this
  omega

theorem Ws.recogOk : RecogOk Ws.env := by
  intro k p l h
  show p + l ≤ Ws.input.length
  have h' : Ws.recog k p = some l := h
  unfold Ws.recog at h'
  split at h'
  · split at h'
    · injection h' with h'; omega
    · simp at h'
  · split at h'
    · exact lit_ok _ _ _ _ (by simp) h'
    · split at h'
      · split at h'
        · rename_i hs
          injection h' with h'
          subst h'
          exact spaces_ok _ _ hs
        · simp at h'
      · simp at h'

end Rustemo
