import Rustemo.Proofs.CoreComplete
/-!
# The token-level LR parser accepts exactly the sentences (certified deterministic tables)
-/
namespace Rustemo

def Sentence (g : Grammar) (w : List Nat) : Prop := ∃ tr : Tree, tr.Valid g g.startIdx ∧ tr.yield = w

theorem reaches_trun {g : Grammar} {t : Table} {c c' : TCfg} (h : Reaches g t c c') :
    ∀ (n : Nat) (r : TResult), trun g t n c' = r → ∃ m, trun g t m c = r := by
  induction h with
  | refl c => intro n r hr; exact ⟨n, hr⟩
  | more c c1 c2 hs _ ih =>
    intro n r hr
    obtain ⟨m, hm⟩ := ih n r hr
    exact ⟨m + 1, by simp only [trun, hs]; exact hm⟩

/-- **Completeness**: every sentence is accepted, and the tree returned is the (plain) derivation tree. -/
theorem tparse_complete (g : Grammar) (t : Table) (hw : GWF g) (hc : Complete g t)
    (hip : ∀ s p d, t.hasItem s p d → ∃ pr, g.prods[p]? = some pr ∧ d ≤ pr.rhs.length)
    (tx : Tree) (hv : tx.Valid g g.startIdx) :
    ∃ fuel, tparse g t tx.yield fuel = .accept tx.plain := by
  obtain ⟨pr0, hpr0, _, hrhs0⟩ := hw.aug0
  have hX : pr0.rhs[0]? = some g.startIdx := by rw [hrhs0]; rfl
  have hfirst : FirstOf g (pr0.rhs.drop (0+1)) 0 (lookahead []) := by
    refine ⟨.nil, ?_, ?_⟩
    · rw [hrhs0]; simp [TreeList.Valid]
    · simp [TreeList.yield, lookahead]
  obtain ⟨s', sh', hreach, hi'⟩ :=
    push_tree g t hw hc hip tx.plain g.startIdx (Tree.plain_valid g tx _ hv) (Tree.plain_isPlain tx)
      [] [] [] 0 0 0 pr0 (by simpa [topOf] using hc.start) hpr0 hX hfirst
  have hacc := hc.accept s' pr0 hpr0 (by rw [hrhs0]; exact hi'.toItem)
  have hcell := cell_det hc hacc
  have hstep : tstep g t ⟨⟨[(s', tx.plain)], sh'⟩, []⟩ = .accept tx.plain := by
    unfold tstep
    simp only [lookahead, List.headD_nil, topOf, hcell]
    simp [cstep, cstepWith, topOf, hcell]
  have hrun : trun g t 1 ⟨⟨[(s', tx.plain)], sh'⟩, []⟩ = .accept tx.plain := by
    simp [trun, hstep]
  obtain ⟨m, hm⟩ := reaches_trun hreach 1 _ hrun
  refine ⟨m, ?_⟩
  unfold tparse
  rw [← Tree.plain_yield tx]
  simpa using hm

/-! ## Soundness at the token level -/

structure TInv (g : Grammar) (t : Table) (w : List Nat) (c : TCfg) : Prop where
  cinv : CInv g t 0 c.c
  split : c.c.shifted.reverse ++ c.rest = w

theorem tstep_preserves (g : Grammar) (t : Table) (autos : List Auto) (hs : Structural g t autos)
    (au : Auto) (hin : au ∈ autos) (h0 : 0 = au.start) (w : List Nat) (c c' : TCfg)
    (hinv : TInv g t w c) (hstep : tstep g t c = .next c') : TInv g t w c' := by
  unfold tstep at hstep
  simp only at hstep
  split at hstep
  · simp at hstep
  · split at hstep
    · rename_i c1 hcs
      injection hstep with hc'; subst hc'
      exact ⟨cstep_preserves g t autos hs au hin 0 h0 Tree.tok Tree.mk decorators_plain c.c c1 _ hinv.cinv (Or.inr hcs),
        by
          -- a reduce leaves `shifted` alone
          have : c1.shifted = c.c.shifted := by
            unfold cstep cstepWith at hcs
            repeat' split at hcs
            all_goals first | (injection hcs with hcs; subst hcs; rfl) | simp at hcs
          simp only [this]; exact hinv.split⟩
    · rename_i c1 hcs
      split at hstep
      · simp at hstep
      · rename_i a rest' hrest
        injection hstep with hc'; subst hc'
        refine ⟨cstep_preserves g t autos hs au hin 0 h0 Tree.tok Tree.mk decorators_plain c.c c1 _ hinv.cinv (Or.inl hcs), ?_⟩
        have : c1.shifted = a :: c.c.shifted := by
          unfold cstep cstepWith at hcs
          simp only [hrest, lookahead, List.headD_cons] at hcs
          repeat' split at hcs
          all_goals first | (injection hcs with hcs; subst hcs; rfl) | simp at hcs
        simp only [this, List.reverse_cons, List.append_assoc, List.singleton_append]
        have := hinv.split
        rw [hrest] at this
        exact this
    · simp at hstep
    · simp at hstep

theorem trun_sound (g : Grammar) (t : Table) (autos : List Auto) (hs : Structural g t autos)
    (au : Auto) (hin : au ∈ autos) (h0 : 0 = au.start) (hacc : ∀ s a, Action.accept ∈ t.cell s a → a = 0)
    (w : List Nat) (hnz : ∀ x ∈ w, x ≠ 0) :
    ∀ (fuel : Nat) (c : TCfg) (tr : Tree), TInv g t w c → trun g t fuel c = .accept tr →
      tr.Valid g au.sym ∧ tr.yield = w := by
  intro fuel
  induction fuel with
  | zero => intro c tr _ h; simp [trun] at h
  | succ n ih =>
    intro c tr hinv h
    unfold trun at h
    split at h
    · rename_i c' hstep
      exact ih c' tr (tstep_preserves g t autos hs au hin h0 w c c' hinv hstep) h
    · rename_i trx hstep
      injection h with h
      rw [← h]
      unfold tstep at hstep
      simp only at hstep
      split at hstep
      · simp at hstep
      · rename_i hne
        split at hstep
        · simp at hstep
        · split at hstep <;> simp at hstep
        · rename_i tr2 hcs
          injection hstep with hstep; subst hstep
          obtain ⟨hv, hy, _⟩ := cstep_accept_sound g t autos hs au hin 0 h0 Tree.tok Tree.mk c.c _ tr2 hinv.cinv hcs
          refine ⟨hv, ?_⟩
          -- accept only on STOP: the rest of the input is empty
          have hla : lookahead c.rest = 0 := by
            apply hacc (topOf 0 c.c.stack)
            unfold cstep cstepWith at hcs
            split at hcs
            · simp at hcs
            · rename_i act acts hcell
              split at hcs
              · simp at hcs
              · repeat' split at hcs
                all_goals simp at hcs
              · rw [hcell]; simp
          have hrest : c.rest = [] := by
            cases hr : c.rest with
            | nil => rfl
            | cons x xs =>
              exfalso
              rw [hr] at hla
              simp only [lookahead, List.headD_cons] at hla
              have hx : x ∈ w := by rw [← hinv.split, hr]; simp
              exact hnz x hx hla
          have := hinv.split
          rw [hrest, List.append_nil] at this
          rw [hy, this]
        · simp at hstep
    · simp at h
    · simp at h

end Rustemo
