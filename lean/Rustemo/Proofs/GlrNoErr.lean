import Rustemo.Proofs.GlrBasic
/-!
# The only error of the engine is the one `make_error` builds at the end

No phase of a frontier returns `err`: every failure inside is a panic site or fuel.
-/
namespace Rustemo.Glr
open Rustemo

def NoErr {α : Type} (o : Outcome α) : Prop := ∀ e, o ≠ .err e

theorem NoErr.ok {α : Type} (a : α) : NoErr (Outcome.ok a) := fun _ h => by cases h
theorem NoErr.panic {α : Type} (s : String) : NoErr (Outcome.panic s : Outcome α) := fun _ h => by cases h
theorem NoErr.fuel {α : Type} : NoErr (Outcome.fuel : Outcome α) := fun _ h => by cases h

theorem NoErr.bind {α β : Type} {o : Outcome α} {f : α → Outcome β} (h1 : NoErr o) (h2 : ∀ a, NoErr (f a)) :
    NoErr (obind o f) := by
  cases o with
  | ok a => exact h2 a
  | err e => exact absurd rfl (h1 e)
  | panic s => exact NoErr.panic s
  | fuel => exact NoErr.fuel

theorem NoErr.foldO {α σ : Type} {f : σ → α → Outcome σ} (hf : ∀ s a, NoErr (f s a)) :
    ∀ (l : List α) (s : σ), NoErr (foldO f l s)
  | [], s => NoErr.ok s
  | a :: rest, s => by
    simp only [Glr.foldO]
    exact NoErr.bind (hf s a) (fun s' => NoErr.foldO hf rest s')

theorem head_noerr (g : Gss) (h : Nat) : NoErr (g.head h) := by
  unfold Gss.head; split
  · exact NoErr.ok _
  · exact NoErr.panic _

theorem edge_noerr (g : Gss) (e : Nat) : NoErr (g.edge e) := by
  unfold Gss.edge; split
  · exact NoErr.ok _
  · exact NoErr.panic _

theorem node_noerr (g : Gss) (n : Nat) : NoErr (g.node n) := by
  unfold Gss.node; split
  · exact NoErr.ok _
  · exact NoErr.panic _

theorem tokKind_noerr (hd : Head) : NoErr (tokKind hd) := by
  unfold tokKind; split
  · exact NoErr.ok _
  · exact NoErr.panic _

theorem tokOf_noerr (hd : Head) : NoErr (tokOf hd) := by
  unfold tokOf; split
  · exact NoErr.ok _
  · exact NoErr.panic _

theorem afterLayout_noerr (env : Env) (pp : Bool) (ex : List (Nat × Bool)) (cur : Pos) (ctx : Ctx) (r : Outcome ParseResult) :
    NoErr (afterLayout env pp ex cur ctx r).2 := by
  unfold afterLayout
  split
  · split
    · split
      · exact NoErr.ok _
      · exact NoErr.ok _
    · exact NoErr.ok _
  · exact NoErr.ok _
  · exact NoErr.panic _
  · exact NoErr.fuel

theorem findLookaheadsCtx_noerr (env : Env) (pp : Bool) (fuel : Nat) (ctx : Ctx) :
    NoErr (findLookaheadsCtx env pp fuel ctx).2 := by
  unfold findLookaheadsCtx
  simp only
  split
  · exact NoErr.ok _
  · split
    · exact NoErr.ok _
    · exact afterLayout_noerr _ _ _ _ _ _

theorem layoutBefore_noerr (env : Env) (hd : Head) (tk : Tok) : NoErr (layoutBefore env hd tk) := by
  unfold layoutBefore
  split
  · split
    · exact NoErr.ok _
    · exact NoErr.panic _
  · exact NoErr.ok _

theorem frontierHead_noerr (env : Env) (pp : Bool) (fuel : Nat) (acc : Gss × Frontier) (h : Nat) :
    NoErr (frontierHead env pp fuel acc h) := by
  unfold frontierHead
  apply NoErr.bind (head_noerr _ _)
  intro hd
  split
  · exact NoErr.ok _
  · simp only
    apply NoErr.bind (findLookaheadsCtx_noerr _ _ _ _)
    intro toks
    split
    · exact NoErr.ok _
    · exact NoErr.bind (layoutBefore_noerr _ _ _) (fun _ => NoErr.ok _)

theorem createFrontier_noerr (env : Env) (pp : Bool) (fuel : Nat) (g : Gss) (base : List Nat) :
    NoErr (createFrontier env pp fuel g base) :=
  NoErr.foldO (frontierHead_noerr env pp fuel) base _

theorem initialProcess_noerr (env : Env) (st : St) (fr : Frontier) : NoErr (initialProcess env st fr) := by
  unfold initialProcess
  apply NoErr.bind _ (fun _ => NoErr.ok _)
  apply NoErr.foldO
  intro acc sf
  unfold initialSub
  apply NoErr.bind _ (fun _ => NoErr.ok _)
  apply NoErr.foldO
  intro acc' e
  unfold initialHead
  exact NoErr.bind (head_noerr _ _) (fun _ => NoErr.bind (tokKind_noerr _) (fun _ => NoErr.ok _))

theorem firstSpan_noerr (g : Gss) (e : Nat) : NoErr (firstSpan g e) := by
  unfold firstSpan
  apply NoErr.bind (edge_noerr _ _)
  intro ed
  split
  · exact NoErr.panic _
  · exact NoErr.bind (node_noerr _ _) (fun _ => NoErr.ok _)

theorem solutionSpan_noerr (g : Gss) (hd : Head) (ps : List Nat) : NoErr (solutionSpan g hd ps) := by
  unfold solutionSpan
  split
  · exact NoErr.bind (firstSpan_noerr _ _) (fun _ => NoErr.bind (firstSpan_noerr _ _) (fun _ => NoErr.ok _))
  · exact NoErr.ok _

theorem findOrCreateHead_noerr (g : Gss) (sub : SubFrontier) (sh : Head) (s : Nat) :
    NoErr (findOrCreateHead g sub sh s) := by
  unfold findOrCreateHead
  split
  · exact NoErr.ok _
  · split
    · exact NoErr.panic _
    · exact NoErr.ok _

theorem reducePath_noerr (env : Env) (prod startHead : Nat) (rs : RState) (path : Path) :
    NoErr (reducePath env prod startHead rs path) := by
  unfold reducePath
  apply NoErr.bind (head_noerr _ _); intro sh
  apply NoErr.bind (tokKind_noerr _); intro k
  apply NoErr.bind (head_noerr _ _); intro hr
  apply NoErr.bind (by unfold prodLhs; split; exact NoErr.ok _; exact NoErr.panic _); intro lhs
  apply NoErr.bind (by unfold gotoState; split; exact NoErr.ok _; exact NoErr.panic _); intro s'
  simp only
  split
  · exact NoErr.ok _
  · apply NoErr.bind (findOrCreateHead_noerr _ _ _ _); intro r1
    apply NoErr.bind (edge_noerr _ _); intro ed
    split
    · exact NoErr.ok _
    · exact NoErr.bind (solutionSpan_noerr _ _ _) (fun _ => NoErr.ok _)

theorem reduceOne_noerr (env : Env) (rs : RState) (r : Reduction) : NoErr (reduceOne env rs r) := by
  unfold reduceOne
  apply NoErr.bind
  · unfold startHeadOf
    split
    · exact NoErr.bind (edge_noerr _ _) (fun _ => NoErr.ok _)
    · exact NoErr.ok _
  intro sh
  apply NoErr.bind
  · unfold findReductionPaths
    split
    · exact NoErr.ok _
    · exact NoErr.bind (edge_noerr _ _) (fun _ => NoErr.ok _)
  intro paths
  exact NoErr.foldO (reducePath_noerr env _ _) _ _

theorem reducerLoop_noerr (env : Env) : ∀ (fuel : Nat) (rs : RState), NoErr (reducerLoop env fuel rs)
  | 0, _ => NoErr.fuel
  | fuel+1, rs => by
    unfold reducerLoop
    split
    · exact NoErr.ok _
    · exact NoErr.bind (reduceOne_noerr _ _ _) (fun rs' => reducerLoop_noerr env fuel rs')

theorem reduceAll_noerr (env : Env) (fuel : Nat) : ∀ (fr : List ((Pos × Nat) × SubFrontier)) (qs : List (List Reduction))
    (st : St), NoErr (reduceAll env fuel fr qs st)
  | [], _, st => NoErr.ok st
  | sf :: rest, qs, st => by
    unfold reduceAll
    exact NoErr.bind (reducerLoop_noerr _ _ _) (fun rs => reduceAll_noerr env fuel rest _ _)

theorem shifter_noerr (env : Env) (F : Nat) (st : St) : NoErr (shifter env F st) := by
  unfold shifter
  apply NoErr.bind _ (fun _ => NoErr.ok _)
  apply NoErr.foldO
  intro acc sh
  unfold shiftOne
  apply NoErr.bind (head_noerr _ _); intro hd
  apply NoErr.bind (tokOf_noerr _); intro tk
  simp only
  split
  · exact NoErr.bind (head_noerr _ _) (fun _ => NoErr.ok _)
  · exact NoErr.ok _

theorem frontierStep_noerr (env : Env) (pp : Bool) (fuel F : Nat) (st : St) (base : List Nat) :
    NoErr (frontierStep env pp fuel F st base) := by
  unfold frontierStep
  exact NoErr.bind (createFrontier_noerr _ _ _ _ _) (fun _ => NoErr.bind (initialProcess_noerr _ _ _)
    (fun _ => NoErr.bind (reduceAll_noerr _ _ _ _ _) (fun _ => shifter_noerr _ _ _)))

end Rustemo.Glr
