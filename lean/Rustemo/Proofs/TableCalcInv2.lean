import Rustemo.Proofs.TableCalcInv
/-!
# Table construction: `calc_states` establishes the structural invariant `Inv`
-/
namespace Rustemo.Table

variable {g : Grammar} {fs : Array (List Nat)} {tt : String} {rn : Option (Array Nat)}

/-- no item has STOP right of the dot: "Create accept action if possible" never fires -/
theorem acceptInit_id (hg : GW g) {st : State} {items : List Item} {st' : State}
    (h : acceptInit st (perNextSymbol g items) = .ok st') : st' = st := by
  unfold acceptInit at h
  have hno : (perNextSymbol g items).any (fun e => e.1 == 0) = false := by
    apply Bool.eq_false_iff.mpr
    intro hc
    obtain ⟨e, he, h0⟩ := List.any_eq_true.mp hc
    simp only [beq_iff_eq] at h0
    obtain ⟨h1, h2⟩ := perNextSymbol_mem he
    cases hl : e.2 with
    | nil => exact h2 hl
    | cons x xs =>
      have : x ∈ items.filter (nextIs g e.1) := by rw [← h1, hl]; exact List.mem_cons_self
      have hx := nextIs_iff.mp (List.mem_filter.mp this).2
      have := (nextSym_pos hg hx).1
      omega
  rw [hno] at h
  simp only [Bool.false_eq_true, if_false, Res.ok.injEq] at h
  exact h.symm

theorem Inv.stepState (hg : GW g) {autos : List (Nat × Nat)} {fuel cur : Nat} {sts sts' : Array State}
    (hJ : Inv g autos sts) (hc : cur < sts.size) (h : stepState g fs tt rn fuel cur sts = .ok sts') :
    Inv g autos sts' ∧ sts.size ≤ sts'.size := by
  obtain ⟨st, items, st', h1, h2, h3, h4⟩ := stepState_ok hc h
  have hst := hJ.st cur st h1
  have hrel := closure_rel h2 hst.items hst.nodup
  have hid := acceptInit_id hg h3
  subst hid
  have hJ1 : Inv g autos (sts.setIfInBounds cur { st with items := items, maxPrio := maxPrioOf g items }) := by
    apply hJ.update h1
    · exact ⟨hst.asize, hst.gsize, hrel.ok, hrel.nodup, hst.cells⟩
    · rfl
    · rfl
    · exact hrel.mono
    · intro it' hit'
      rcases hrel.back it' hit' with ⟨it0, h', h'', _⟩ | ⟨h', h''⟩
      · exact .inl ⟨it0, h', h''⟩
      · exact .inr ⟨h', h''.not_aug hg⟩
  have hres := linkStates_induct (g := g) (tt := tt) (rn := rn) (cur := cur)
    (fun s => Inv g autos s ∧ ∃ stc, s[cur]? = some stc ∧ stc.items.map core = items.map core)
    (fun e => NewOk g items e.1 e.2)
    (fun s s2 e hJ' hG _ hstep => Inv.linkStep hG hJ'.1 hJ'.2 hstep)
    (newStates g items) _ sts' (fun e he => newOk_of_mem hg hrel.nodup he)
    (by rw [Array.size_setIfInBounds]; exact hc) h4
    ⟨hJ1, _, by rw [get_upd h1, if_pos rfl], rfl⟩
  exact ⟨hres.1.1, by have := hres.2; rw [Array.size_setIfInBounds] at this; exact this⟩

theorem Inv.calcLoop (hg : GW g) {autos : List (Nat × Nat)} {fuel n cur : Nat} {sts sts' : Array State}
    (hJ : Inv g autos sts) (h : calcLoop g fs tt rn fuel n cur sts = .ok sts') : Inv g autos sts' := by
  obtain ⟨_, h1, _⟩ := calcLoop_induct (g := g) (fs := fs) (tt := tt) (rn := rn) (fuel := fuel)
    (fun _ s => Inv g autos s)
    (fun c s s' hJ' hc hs => (Inv.stepState hg hJ' hc hs).1) n cur sts sts' h hJ
  exact h1

theorem Inv.empty (g : Grammar) : Inv g [] #[] :=
  ⟨by intro i st h; simp at h, by intro a h; simp at h, by intro i st h; simp at h, by intro i st h; simp at h⟩

/-- the start state of an automaton -/
theorem Inv.pushStart {autos : List (Nat × Nat)} {sts : Array State} (hJ : Inv g autos sts)
    {sym p : Nat} {pr : Prod} (hp : g.prods[p]? = some pr) :
    Inv g ((sts.size, p) :: autos) (sts.push (freshState g sym [⟨p, 0, [0]⟩])) := by
  have hget : ∀ j, (sts.push (freshState g sym [⟨p, 0, [0]⟩]))[j]? =
      if j = sts.size then some (freshState g sym [⟨p, 0, [0]⟩]) else sts[j]? := fun j => Array.getElem?_push
  refine ⟨?_, ?_, ?_, ?_⟩
  · intro j stj hj
    rw [hget] at hj
    by_cases hjs : j = sts.size
    · rw [if_pos hjs] at hj; simp only [Option.some.injEq] at hj; subst hj
      refine ⟨by simp [freshState], by simp [freshState], ?_, by simp [freshState], ?_⟩
      · intro it hit
        simp only [freshState, List.mem_singleton] at hit
        subst hit
        exact ⟨pr, hp, Nat.zero_le _⟩
      · intro a act hact
        rw [freshState_cell] at hact; simp at hact
    · rw [if_neg hjs] at hj; exact hJ.st j stj hj
  · intro a ha
    rcases List.mem_cons.mp ha with h | h
    · subst h
      refine ⟨_, by rw [hget, if_pos rfl], ?_, ⟨p, 0, [0]⟩, by simp [freshState], rfl, by simp⟩
      intro it hit
      simp only [freshState, List.mem_singleton] at hit
      subst hit; rfl
    · obtain ⟨sta, h1, h2⟩ := hJ.starts a h
      refine ⟨sta, ?_, h2⟩
      rw [hget, if_neg (by have := lt_size_of_getElem? h1; omega)]
      exact h1
  · intro j stj hj it hit hd hau
    rw [hget] at hj
    by_cases hjs : j = sts.size
    · rw [if_pos hjs] at hj; simp only [Option.some.injEq] at hj; subst hj
      simp only [freshState, List.mem_singleton] at hit
      subst hit
      rw [hjs]; exact List.mem_cons_self
    · rw [if_neg hjs] at hj
      exact List.mem_cons_of_mem _ (hJ.augs j stj hj it hit hd hau)
  · intro j stj hj Y s' ht
    rw [hget] at hj
    by_cases hjs : j = sts.size
    · rw [if_pos hjs] at hj; simp only [Option.some.injEq] at hj; subst hj
      exact absurd ht (freshState_noTrans g sym _ Y s')
    · rw [if_neg hjs] at hj
      obtain ⟨t1, t2, t3⟩ := hJ.trans j stj hj Y s' ht
      refine ⟨by rw [Array.size_push]; omega, ?_, ?_⟩
      · intro a ha
        rcases List.mem_cons.mp ha with h | h
        · subst h; simp only; omega
        · exact t2 a h
      · intro st'' hs''
        rw [hget, if_neg (by omega)] at hs''
        exact t3 st'' hs''

theorem Inv.calcStates (hg : GW g) {autos : List (Nat × Nat)} {fuel sym : Nat} {sts sts' : Array State}
    (hJ : Inv g autos sts) (h : calcStates g fs tt rn fuel sym sts = .ok sts') :
    ∃ p, Canon.prodsOf g sym = [p] ∧ Inv g ((sts.size, p) :: autos) sts' := by
  obtain ⟨_, _, p, h1, h2⟩ := calcStates_ok h
  obtain ⟨pr, hp, _⟩ := prodsOf_mem (by rw [h1]; exact List.mem_cons_self : p ∈ Canon.prodsOf g sym)
  exact ⟨p, h1, Inv.calcLoop hg (hJ.pushStart hp) h2⟩

end Rustemo.Table
