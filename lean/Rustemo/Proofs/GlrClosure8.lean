import Rustemo.Proofs.GlrClosure7
/-!
# `reducePath` keeps the uniqueness invariants (`UInv`)
-/
namespace Rustemo.Glr
open Rustemo

/-- same heads, same edges up to their possibilities -/
theorem UInv.of_same {F a : Nat} {g g' : Gss} {sub : SubFrontier} (h : UInv F a g sub) (hh : g'.heads = g.heads)
    (he : ∀ (e : Nat) (ed' : Edge), g'.edges[e]? = some ed' → ∃ ed : Edge, g.edges[e]? = some ed ∧ ed.src = ed'.src ∧ ed.dst = ed'.dst) :
    UInv F a g' sub := by
  constructor
  · intro e e' ed ed' h1 h2 hs hd
    obtain ⟨x, hx, xs, xd⟩ := he e ed h1
    obtain ⟨y, hy, ys, yd⟩ := he e' ed' h2
    exact h.edgeUniq e e' x y hx hy (by rw [xs, ys, hs]) (by rw [xd, yd, hd])
  · exact h.subFun
  · intro e ed hs hd h1 h2 h3 h4 h5
    obtain ⟨x, hx, xs, xd⟩ := he e ed h1
    rw [hh] at h2 h3
    have := h.levelIn e x hs hd hx (by rw [xs]; exact h2) (by rw [xd]; exact h3) h4 h5
    rw [xs, xd] at this
    exact this
  · intro i hd hi; rw [hh] at hi; exact h.noAbove i hd hi
  · intro e ed hs hd h1 h2 h3
    obtain ⟨x, hx, xs, xd⟩ := he e ed h1
    rw [hh] at h2 h3
    exact h.edgeMono e x hs hd hx (by rw [xs]; exact h2) (by rw [xd]; exact h3)
  · intro s i hm
    obtain ⟨hd, tk, h1, h2, h3⟩ := h.subKind s i hm
    exact ⟨hd, tk, by rw [hh]; exact h1, h2, h3⟩

/-- a new head of the sub-frontier (fresh state key) -/
theorem UInv.addHead {F a : Nat} {g : Gss} {sub : SubFrontier} (h : UInv F a g sub) (hsub : SubOk g F sub)
    (nh : Head) (s' : Nat) (hkey : sfGet s' sub = none) (hF : nh.frontier = F) {tk : Tok} (htk : nh.tok = some tk)
    (hk : tk.kind = a) (hsrcs : ∀ (e : Nat) (ed : Edge), g.edges[e]? = some ed → ed.src < g.heads.size ∧ ed.dst < g.heads.size) :
    UInv F a (g.addHead nh).1 (sfInsert s' g.heads.size sub) := by
  have hold : ∀ (i : Nat) (hd : Head), i < g.heads.size → ((g.addHead nh).1.heads[i]? = some hd ↔ g.heads[i]? = some hd) := by
    intro i hd hi
    rw [addHead_heads]
    have : ¬ i = g.heads.size := by omega
    simp [this]
  have hins : ∀ i, InSub sub i → InSub (sfInsert s' g.heads.size sub) i := by
    rintro i ⟨s, hm⟩
    refine ⟨s, mem_sfInsert_of_mem hm ?_⟩
    intro heq
    simp only at heq
    subst heq
    exact sfGet_none hkey i hm
  constructor
  · exact h.edgeUniq
  · intro s i i' h1 h2
    rcases mem_sfInsert h1 with e1 | o1 <;> rcases mem_sfInsert h2 with e2 | o2
    · injection e1 with _ a1; injection e2 with _ a2; rw [a1, a2]
    · injection e1 with a0 _; subst a0; exact absurd o2 (sfGet_none hkey i')
    · injection e2 with a0 _; subst a0; exact absurd o1 (sfGet_none hkey i)
    · exact h.subFun s i i' o1 o2
  · intro e ed hs hd h1 h2 h3 h4 h5
    obtain ⟨k1, k2⟩ := hsrcs e ed h1
    have := h.levelIn e ed hs hd h1 ((hold _ _ k1).mp h2) ((hold _ _ k2).mp h3) h4 h5
    exact ⟨hins _ this.1, hins _ this.2⟩
  · intro i hd hi
    rw [addHead_heads] at hi
    split at hi
    · injection hi with hi; subst hi; omega
    · exact h.noAbove i hd hi
  · intro e ed hs hd h1 h2 h3
    obtain ⟨k1, k2⟩ := hsrcs e ed h1
    exact h.edgeMono e ed hs hd h1 ((hold _ _ k1).mp h2) ((hold _ _ k2).mp h3)
  · intro s i hm
    rcases mem_sfInsert hm with e1 | o1
    · injection e1 with _ a1; subst a1
      exact ⟨nh, tk, by rw [addHead_heads]; simp, htk, hk⟩
    · obtain ⟨hd, tk', k1, k2, k3⟩ := h.subKind s i o1
      have hlt := lt_of_getElem?_some k1
      exact ⟨hd, tk', (hold _ _ hlt).mpr k1, k2, k3⟩

/-- a new edge from a head of the sub-frontier down to a head that is not above it -/
theorem UInv.addEdge {F a : Nat} {g : Gss} {sub : SubFrontier} (h : UInv F a g sub) {hA u0 : Nat} {ha hu0 : Head}
    (hha : g.heads[hA]? = some ha) (hhu : g.heads[u0]? = some hu0) (hFa : ha.frontier = F) (hin : InSub sub hA)
    (hnone : g.edgeBetween hA u0 = none) (hroot : hu0.frontier = F → InSub sub u0) :
    UInv F a (g.addEdge hA u0 []).1 sub := by
  have hcases : ∀ (e : Nat) (ed : Edge), (g.addEdge hA u0 []).1.edges[e]? = some ed →
      g.edges[e]? = some ed ∨ (e = g.edges.size ∧ ed = ⟨hA, u0, []⟩) := by
    intro e ed he
    rw [addEdge_edges] at he
    split at he
    · rename_i heq; injection he with he; exact Or.inr ⟨heq, he.symm⟩
    · exact Or.inl he
  constructor
  · intro e e' ed ed' h1 h2 hs hd
    rcases hcases e ed h1 with o1 | ⟨n1, r1⟩ <;> rcases hcases e' ed' h2 with o2 | ⟨n2, r2⟩
    · exact h.edgeUniq e e' ed ed' o1 o2 hs hd
    · subst r2; exact absurd hd (edgeBetween_none hnone e ed o1 hs)
    · subst r1; exact absurd hd.symm (edgeBetween_none hnone e' ed' o2 hs.symm)
    · rw [n1, n2]
  · exact h.subFun
  · intro e ed hs hd h1 h2 h3 h4 h5
    simp only [addEdge_heads] at h2 h3
    rcases hcases e ed h1 with o1 | ⟨_, r1⟩
    · exact h.levelIn e ed hs hd o1 h2 h3 h4 h5
    · subst r1
      simp only at h2 h3 ⊢
      rw [hhu] at h3; injection h3 with h3; subst h3
      exact ⟨hin, hroot h5⟩
  · intro i hd hi; exact h.noAbove i hd hi
  · intro e ed hs hd h1 h2 h3
    simp only [addEdge_heads] at h2 h3
    rcases hcases e ed h1 with o1 | ⟨_, r1⟩
    · exact h.edgeMono e ed hs hd o1 h2 h3
    · subst r1
      simp only at h2 h3
      rw [hha] at h2; injection h2 with h2; subst h2
      rw [hhu] at h3; injection h3 with h3; subst h3
      have := h.noAbove _ _ hhu
      omega
  · exact h.subKind

end Rustemo.Glr
