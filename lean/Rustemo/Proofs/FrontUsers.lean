import Rustemo.Proofs.FrontHelpers
/-!
# Every alternative becomes exactly one production, in order

For every rule name `n` the entry named `n` lists, in order, one production per alternative of the
rules named `n`; that production is `mkProd` of the alternative's documented symbols and of the
inherited meta-data.  (With exactness of the lists — `FrontExact` — these are all productions of
that nonterminal.)
-/
namespace Rustemo.Front

/-- one processed alternative: its rule, its position in the rule, itself -/
abbrev Done := Rule × Nat × Alt

/-- the view of a right-hand side the property talks about -/
def rhsView (l : List RAssign) : List (Option Name × Option GSym × Bool) :=
  l.map fun a => (a.name, some a.sym, a.isBool)

/-- the symbols of an alternative as the CODE filters them (only the unnamed `EMPTY` is dropped) -/
def codeAltSyms (fx : Fixes) (mm : SMap (Name × Nat)) (a : Alt) : List (Option Name × Option GSym × Bool) :=
  (a.assigns.filter (fun x => !x.isUnnamedEmpty)).map fun x => (x.aname, Doc.refSym fx mm x.symRef, x.isBool)

theorem assignStep_sym {cx : Ctx} {a : Assign} {s : Acc} {res : RAssign × Acc} (h : assignStep cx a s = .ok res) :
    Doc.refSym cx.fx cx.matchesMap a.symRef = some res.1.sym := by
  obtain ⟨d, hd, _, hsym, _⟩ := assignStep_state h
  unfold Doc.refSym
  cases hr : a.symRef.rep with
  | none =>
    have := desugar_none hr hd
    rw [this] at hsym
    exact hsym
  | some o =>
    obtain ⟨x, hb, hop, e⟩ := desugar_some hr hd
    simp only
    unfold Doc.refHelper
    rw [hr, hb]
    simp only
    have hg := (desugarOp_name hop).2
    rw [e] at hsym
    have hsym' : res.1.sym = GSym.name (opName cx.fx x a.symRef.sep o.op) := by
      injection hsym with h'
      exact h'.symm
    rw [hsym']
    cases hop' : o.op with
    | zeroOrMore | oneOrMore | optional => simp [opName]
    | zeroOrMoreGreedy | oneOrMoreGreedy | optionalGreedy =>
      rw [hop'] at hg
      cases hg

theorem rhsSteps_view {cx : Ctx} : ∀ {as : List Assign} {s : Acc} {res : List RAssign × Acc},
    rhsSteps cx as s = .ok res →
      rhsView res.1 = as.map fun x => (x.aname, Doc.refSym cx.fx cx.matchesMap x.symRef, x.isBool)
  | [], _, _, h => by
    cases h
    rfl
  | a :: as, s, res, h => by
    unfold rhsSteps at h
    obtain ⟨r1, h1, h⟩ := Outcome.bind_eq_ok.mp h
    obtain ⟨r2, h2, h⟩ := Outcome.bind_eq_ok.mp h
    cases h
    obtain ⟨_, _, _, _, hn, hb, _⟩ := assignStep_state h1
    unfold rhsView
    simp only [List.map_cons]
    rw [assignStep_sym h1, hn, hb]
    congr 1
    exact rhsSteps_view h2

/-- `p` is the production of the processed alternative `d` for the nonterminal with index `ntIdx` -/
def IsUser (cx : Ctx) (ntIdx : Nat) (d : Done) (p : GProd) : Prop :=
  rhsView p.rhs = codeAltSyms cx.fx cx.matchesMap d.2.2 ∧
  ∃ rhs, p = mkProd p.idx ntIdx d.2.1 rhs (inherit cx.fx (metaOf d.1.metas) (metaOf d.2.2.metas))

def doneOf (n : Name) (done : List Done) : List Done := done.filter (fun d => d.1.name == n)

structure UsersOk (cx : Ctx) (rn : List Name) (done : List Done) (nts : List NonTerm) (prods : List GProd) : Prop where
  lists : ∀ nt, nt ∈ nts → nt.name ∈ rn →
    All2 (fun i d => ∃ p, prods[i]? = some p ∧ p.idx = i ∧ IsUser cx nt.idx d p) nt.prods (doneOf nt.name done)
  present : ∀ d, d ∈ done → d.1.name ∈ ntNames nts

theorem all2_snoc {α β : Type} {R : α → β → Prop} : ∀ {l : List α} {l' : List β} {a : α} {b : β},
    All2 R l l' → R a b → All2 R (l ++ [a]) (l' ++ [b])
  | [], _, _, _, h, r => by
    cases h
    exact .cons r .nil
  | _ :: _, _, _, _, h, r => by
    cases h with
    | cons hr t => exact .cons hr (all2_snoc t r)

theorem all2_imp {α β : Type} {R S : α → β → Prop} (hi : ∀ a b, R a b → S a b) :
    ∀ {l : List α} {l' : List β}, All2 R l l' → All2 S l l'
  | [], _, h => by cases h; exact .nil
  | _ :: _, _, h => by
    cases h with
    | cons hr t => exact .cons (hi _ _ hr) (all2_imp hi t)

theorem closed_users (cx : Ctx) (U : List Use) (rn : List Name) (hU : UsesOk cx.fx U rn) (done : List Done)
    (P0 : List GProd) (v : Use) (hv : v ∈ U) :
    Closed cx.fx (fun s => UsersOk cx rn done s.1.nts P0) v := by
  intro s hs habs
  obtain ⟨ann, r0, r1, e⟩ := createUse_eq cx.fx v s
  rw [e]
  have hnts : (createHelper (v.helper cx.fx) ann r0 r1 s).1.nts =
      s.1.nts ++ [{ idx := s.1.nextNt, name := v.helper cx.fx, annotation := ann,
                    prods := [s.1.nextProd, s.1.nextProd + 1] }] :=
    insertNt_absent (nt := { idx := s.1.nextNt, name := v.helper cx.fx, annotation := ann,
                             prods := [s.1.nextProd, s.1.nextProd + 1] }) habs
  constructor
  · intro nt hnt hn
    rw [hnts] at hnt
    rcases List.mem_append.mp hnt with hm | hm
    · exact hs.lists nt hm hn
    · simp at hm
      subst hm
      exact absurd hn (hU.apart v hv)
  · intro d hd
    rw [hnts]
    unfold ntNames
    rw [List.map_append]
    exact List.mem_append_left _ (hs.present d hd)

theorem doneOf_snoc_same (done : List Done) (d : Done) : doneOf d.1.name (done ++ [d]) = doneOf d.1.name done ++ [d] := by
  unfold doneOf
  rw [List.filter_append]
  simp

theorem doneOf_snoc_other (done : List Done) (d : Done) {n : Name} (h : d.1.name ≠ n) :
    doneOf n (done ++ [d]) = doneOf n done := by
  unfold doneOf
  rw [List.filter_append]
  have : (d.1.name == n) = false := by simpa using h
  simp [this]

theorem getElem?_append_left' {α : Type} {l m : List α} {i : Nat} {x : α} (h : l[i]? = some x) :
    (l ++ m)[i]? = some x := by
  have hi : i < l.length := by
    by_cases hlt : i < l.length
    · exact hlt
    · rw [List.getElem?_eq_none (Nat.le_of_not_lt hlt)] at h
      cases h
  rw [List.getElem?_append_left hi]
  exact h

theorem altStep_users {cx : Ctx} {U : List Use} {rn : List Name} (hU : UsesOk cx.fx U rn)
    {rule : Rule} {ntIdx j : Nat} {alt : Alt} {st st' : XSt} {done : List Done} {pend : Option (Name × Nat)}
    (hrn : rule.name ∈ rn) (hsub : ∀ u, u ∈ altUses cx.matchesMap alt → u ∈ U)
    (hi : NtsInv pend st) (hx : XIdx st) (hpend : PendFor pend st rule.name ntIdx)
    (hu : UsersOk cx rn done st.nts st.prods) (h : altStep cx rule ntIdx j alt st = .ok st') :
    UsersOk cx rn (done ++ [(rule, j, alt)]) st'.nts st'.prods := by
  have hav : AltAvoids cx alt rule.name := fun u huu e => hU.apart u (hsub u huu) (e ▸ hrn)
  obtain ⟨hi', _⟩ := altStep_nts hi hpend hav h
  unfold altStep at h
  simp only at h
  obtain ⟨res, h1, h⟩ := Outcome.bind_eq_ok.mp h
  obtain ⟨_, _, h⟩ := Outcome.bind_eq_ok.mp h
  cases h
  have hsub' : ∀ a, a ∈ alt.assigns.filter (fun a => !a.isUnnamedEmpty) →
      ∀ u, u ∈ a.symRef.uses cx.matchesMap → u ∈ U :=
    fun a ha u huu => hsub u (List.mem_flatMap.mpr ⟨a, ha, huu⟩)
  -- helper creations keep the user lists, the productions so far and the invariant of the map
  have hP := rhsSteps_pres (cx := cx)
    (P := fun s => UsersOk cx rn done s.1.nts st.prods ∧ s.1.prods = st.prods)
    (fun a ha u huu => closed_and cx.fx (closed_users cx U rn hU done st.prods u (hsub' a ha u huu))
      (fun s hs _ => by
        obtain ⟨ann, r0, r1, e⟩ := createUse_eq cx.fx u s
        rw [e]
        exact hs))
    (s := ({ st with nextProd := st.nextProd + 1 }, [])) ⟨hu, rfl⟩ h1
  obtain ⟨hUs, hprods⟩ := hP
  have hI := rhsSteps_pres (cx := cx) (P := fun s => NtsInv pend s.1)
    (fun a ha u huu => closed_nts cx.fx pend u (fun n r e => by
      cases pend with
      | none => cases e
      | some q =>
        cases e
        have : (n, r) = (rule.name, ntIdx) := hpend
        cases this
        exact hav u (List.mem_flatMap.mpr ⟨a, ha, huu⟩)))
    (s := ({ st with nextProd := st.nextProd + 1 }, []))
    ⟨hi.names, hi.idxs, hi.bound, fun nt hnt p hp => Nat.lt_succ_of_lt (hi.prodsB nt hnt p hp), hi.pendOk⟩ h1
  -- the new production
  have hview := rhsSteps_view h1
  let p := mkProd st.nextProd ntIdx j res.1 (inherit cx.fx (metaOf rule.metas) (metaOf alt.metas))
  have hpUser : IsUser cx ntIdx (rule, j, alt) p := ⟨hview, res.1, rfl⟩
  have hpAt : (res.2.1.prods ++ [p] ++ res.2.2)[st.nextProd]? = some p := by
    rw [hprods, List.append_assoc, List.getElem?_append_right (by rw [hx.1]; exact Nat.le_refl _)]
    simp [hx.1]
  have hold : ∀ (i : Nat) q, st.prods[i]? = some q → (res.2.1.prods ++ [p] ++ res.2.2)[i]? = some q := by
    intro i q hq
    rw [hprods, List.append_assoc]
    exact getElem?_append_left' hq
  have hlift : ∀ (nt : NonTerm) (l : List Nat) (ds : List Done),
      All2 (fun i d => ∃ q, st.prods[i]? = some q ∧ q.idx = i ∧ IsUser cx nt.idx d q) l ds →
      All2 (fun i d => ∃ q, (res.2.1.prods ++ [p] ++ res.2.2)[i]? = some q ∧ q.idx = i ∧ IsUser cx nt.idx d q) l ds :=
    fun nt l ds hh => all2_imp (fun i d ⟨q, hq, r⟩ => ⟨q, hold i q hq, r⟩) hh
  constructor
  · intro y hy hyn
    show All2 _ y.prods (doneOf y.name (done ++ [(rule, j, alt)]))
    have hy' : y ∈ (if hasNt res.2.1.nts rule.name = true then pushProd rule.name st.nextProd res.2.1.nts
        else res.2.1.nts ++ [{ idx := ntIdx, name := rule.name, annotation := rule.annotation, prods := [st.nextProd] }]) := hy
    split at hy'
    · rename_i hyes
      obtain ⟨x, hxm, en, ei, _, epr⟩ := mem_pushProd hy'
      by_cases hxn : x.name = rule.name
      · -- the rule's entry
        have hxi : x.idx = ntIdx := by
          cases pend with
          | none =>
            obtain ⟨nt0, hf0, e0⟩ := hpend
            have hF := rhsSteps_pres (cx := cx) (P := fun s => findNt s.1.nts rule.name = some nt0)
              (fun a _ u _ => closed_find cx.fx rule.name nt0 u)
              (s := ({ st with nextProd := st.nextProd + 1 }, [])) hf0 h1
            have := findNt_some hF
            rw [names_inj hI.names hxm this.1 (hxn.trans this.2.symm)]
            exact e0
          | some q =>
            exfalso
            have : q = (rule.name, ntIdx) := hpend
            subst this
            exact hI.pendOk.2.2.1 (hasNt_true.mp hyes)
        have hpr : y.prods = x.prods ++ [st.nextProd] := by
          rcases epr with e | ⟨_, e⟩
          · exfalso
            unfold pushProd at hy'
            obtain ⟨z, hz, ez⟩ := List.mem_map.mp hy'
            have hzx : z = x := by
              apply names_inj hI.names hz hxm
              split at ez
              · rw [← ez] at en
                exact en
              · rw [← ez] at en
                exact en
            subst hzx
            have : (z.name == rule.name) = true := by simpa using hxn
            simp only [this, if_true] at ez
            rw [← ez] at e
            simp at e
          · exact e
        have hyname : y.name = rule.name := en.trans hxn
        rw [hpr, hyname]
        have := doneOf_snoc_same done (rule, j, alt)
        simp only at this
        rw [this]
        apply all2_snoc
        · have hx0 := hUs.lists x hxm (hxn ▸ hrn)
          rw [hxn] at hx0
          rw [ei]
          exact hlift x _ _ hx0
        · exact ⟨p, hpAt, rfl, by rw [ei, hxi]; exact hpUser⟩
      · have hpr : y.prods = x.prods := by
          rcases epr with e | ⟨e', _⟩
          · exact e
          · exact absurd e' hxn
        have hyname : y.name ≠ rule.name := fun e => hxn (en ▸ e)
        rw [hpr, doneOf_snoc_other done (rule, j, alt) (fun e => hyname e.symm), en, ei]
        exact hlift x _ _ (hUs.lists x hxm (en ▸ hyn))
    · rename_i hno
      rcases List.mem_append.mp hy' with hm | hm
      · have hyname : y.name ≠ rule.name := by
          intro e
          have : hasNt res.2.1.nts rule.name = true :=
            hasNt_true.mpr (e ▸ List.mem_map_of_mem (f := (·.name)) hm)
          exact hno this
        rw [doneOf_snoc_other done (rule, j, alt) (fun e => hyname e.symm)]
        exact hlift y _ _ (hUs.lists y hm hyn)
      · simp at hm
        subst hm
        -- a new entry: no alternative of a rule of this name was processed before
        have hnone : doneOf rule.name done = [] := by
          unfold doneOf
          apply List.filter_eq_nil_iff.mpr
          intro d hd hdn
          have := hUs.present d hd
          have hdn' : d.1.name = rule.name := by simpa using hdn
          rw [hdn'] at this
          exact hno (hasNt_true.mpr this)
        have := doneOf_snoc_same done (rule, j, alt)
        simp only at this
        show All2 _ [st.nextProd] (doneOf rule.name (done ++ [(rule, j, alt)]))
        rw [this, hnone]
        exact .cons ⟨p, hpAt, rfl, hpUser⟩ .nil
  · intro d hd
    show d.1.name ∈ ntNames (if hasNt res.2.1.nts rule.name = true then _ else _)
    rcases List.mem_append.mp hd with hd | hd
    · have := hUs.present d hd
      split
      · rw [ntNames_pushProd]
        exact this
      · unfold ntNames at *
        rw [List.map_append]
        exact List.mem_append_left _ this
    · simp at hd
      subst hd
      split
      · rename_i hyes
        rw [ntNames_pushProd]
        exact hasNt_true.mp hyes
      · unfold ntNames
        rw [List.map_append]
        simp

/-- the alternatives of a rule as processed, numbered from `j` -/
def doneAlts (rule : Rule) : Nat → List Alt → List Done
  | _, [] => []
  | j, a :: as => (rule, j, a) :: doneAlts rule (j + 1) as

/-- all alternatives of a rule list, in processing order -/
def allDone (rules : List Rule) : List Done := rules.flatMap fun r => doneAlts r 0 r.alts

theorem altSteps_users {cx : Ctx} {U : List Use} {rn : List Name} (hU : UsesOk cx.fx U rn)
    {rule : Rule} {ntIdx : Nat} (hrn : rule.name ∈ rn) :
    ∀ {alts : List Alt} {j : Nat} {st st' : XSt} {done : List Done} {pend : Option (Name × Nat)},
      (∀ a, a ∈ alts → ∀ u, u ∈ altUses cx.matchesMap a → u ∈ U) →
      NtsInv pend st → XIdx st → PendFor pend st rule.name ntIdx → UsersOk cx rn done st.nts st.prods →
      altSteps cx rule ntIdx j alts st = .ok st' → UsersOk cx rn (done ++ doneAlts rule j alts) st'.nts st'.prods
  | [], _, _, _, _, _, _, _, _, _, hu, h => by
    cases h
    simpa [doneAlts] using hu
  | a :: as, j, st, st', done, pend, hs, hi, hx, hp, hu, h => by
    unfold altSteps at h
    obtain ⟨st1, h1, h2⟩ := Outcome.bind_eq_ok.mp h
    have hav : AltAvoids cx a rule.name := fun u huu e => hU.apart u (hs a (by simp) u huu) (e ▸ hrn)
    obtain ⟨hi1, hp1⟩ := altStep_nts hi hp hav h1
    have hu1 := altStep_users hU hrn (hs a (by simp)) hi hx hp hu h1
    have := altSteps_users hU hrn (fun b hb => hs b (by simp [hb])) hi1 (altStep_xidx hx h1) hp1 hu1 h2
    simpa [doneAlts, List.append_assoc] using this

theorem ruleStep_users {cx : Ctx} {U : List Use} {rn : List Name} (hU : UsesOk cx.fx U rn)
    {rule : Rule} {st st' : XSt} {done : List Done} (hrn : rule.name ∈ rn)
    (hs : ∀ u, u ∈ ruleUses cx.matchesMap rule → u ∈ U)
    (hi : NtsInv none st) (hx : XIdx st) (hu : UsersOk cx rn done st.nts st.prods)
    (h : ruleStep cx rule st = .ok st') : UsersOk cx rn (done ++ doneAlts rule 0 rule.alts) st'.nts st'.prods := by
  have hs' : ∀ a, a ∈ rule.alts → ∀ u, u ∈ altUses cx.matchesMap a → u ∈ U :=
    fun a ha u huu => hs u (List.mem_flatMap.mpr ⟨a, ha, huu⟩)
  rcases ruleStep_ok h with ⟨nt, hf, h⟩ | ⟨hf, h⟩
  · exact altSteps_users hU hrn hs' (pend := none) hi hx ⟨nt, hf, rfl⟩ hu h
  · have hi' : NtsInv (some (rule.name, st.nextNt)) ({ st with nextNt := st.nextNt + 1 } : XSt) := by
      refine ⟨hi.names, hi.idxs, fun nt hnt => Nat.lt_succ_of_lt (hi.bound nt hnt), hi.prodsB, ?_⟩
      refine ⟨?_, Nat.lt_succ_self _, findNt_none hf, ?_⟩
      · show st.nts.length + 1 = st.nextNt + 1
        rw [hi.pendOk]
      · intro hm
        obtain ⟨x, hxm, e⟩ := List.mem_map.mp hm
        have := hi.bound x hxm
        omega
    exact altSteps_users hU hrn hs' (pend := some (rule.name, st.nextNt))
      (st := { st with nextNt := st.nextNt + 1 }) hi' hx rfl hu h

theorem ruleSteps_users {cx : Ctx} {U : List Use} {rn : List Name} (hU : UsesOk cx.fx U rn) :
    ∀ {rules : List Rule} {st st' : XSt} {done : List Done},
      (∀ r, r ∈ rules → r.name ∈ rn ∧ r.alts ≠ []) → (∀ u, u ∈ rulesUses cx.matchesMap rules → u ∈ U) →
      NtsInv none st → XIdx st → UsersOk cx rn done st.nts st.prods →
      ruleSteps cx rules st = .ok st' → UsersOk cx rn (done ++ allDone rules) st'.nts st'.prods
  | [], _, _, _, _, _, _, _, hu, h => by
    cases h
    simpa [allDone] using hu
  | r :: rs, st, st', done, hw, hs, hi, hx, hu, h => by
    unfold ruleSteps at h
    obtain ⟨st1, h1, h2⟩ := Outcome.bind_eq_ok.mp h
    have hsr : ∀ u, u ∈ ruleUses cx.matchesMap r → u ∈ U := fun u huu => hs u (by
      unfold rulesUses
      simp only [List.flatMap_cons, List.mem_append]
      exact Or.inl huu)
    have hrav : RuleAvoids cx r := fun a ha u huu e =>
      hU.apart u (hsr u (List.mem_flatMap.mpr ⟨a, ha, huu⟩)) (e ▸ (hw r (by simp)).1)
    obtain ⟨hi1, _⟩ := ruleStep_nts hi hrav (hw r (by simp)).2 h1
    have hu1 := ruleStep_users hU (hw r (by simp)).1 hsr hi hx hu h1
    have := ruleSteps_users hU (fun x hxm => hw x (by simp [hxm]))
      (fun u huu => hs u (by
        unfold rulesUses at huu ⊢
        simp only [List.flatMap_cons, List.mem_append]
        exact Or.inr huu)) hi1 (ruleStep_xidx hx h1) hu1 h2
    simpa [allDone, List.append_assoc] using this

theorem extract_users {cx : Ctx} {U : List Use} {rn : List Name} (hU : UsesOk cx.fx U rn)
    {r0 : Rule} {rules : List Rule} {st : XSt} (hw : ∀ r, r ∈ rules → r.name ∈ rn ∧ r.alts ≠ [])
    (hs : ∀ u, u ∈ rulesUses cx.matchesMap rules → u ∈ U)
    (hres : ∀ n, n ∈ rn → n ≠ kEMPTY ∧ n ≠ kAUG ∧ n ≠ kAUGL)
    (h : extract cx r0 rules = .ok st) : UsersOk cx rn (allDone rules) st.nts st.prods := by
  unfold extract at h
  simp only at h
  have h1 : NtsInv none (createAug kAUG r0.name xst0) := createAug_nts xst0_nts aug_no_self
  have x1 : XIdx (createAug kAUG r0.name xst0) := createAug_xidx xst0_xidx
  split at h
  · rename_i lr _
    have := ruleSteps_users (done := []) hU hw hs (createAug_nts h1 (aug_no_augl _)) (createAug_xidx x1)
      ⟨by
        intro nt hnt hn
        exfalso
        have hm : nt.name ∈ ntNames (createAug kAUGL lr.name (createAug kAUG r0.name xst0)).nts :=
          List.mem_map_of_mem hnt
        rw [init_names2] at hm
        simp at hm
        have := hres nt.name hn
        rcases hm with e | e | e
        · exact this.1 e
        · exact this.2.1 e
        · exact this.2.2 e, by simp⟩ h
    simpa using this
  · have := ruleSteps_users (done := []) hU hw hs h1 x1
      ⟨by
        intro nt hnt hn
        exfalso
        have hm : nt.name ∈ ntNames (createAug kAUG r0.name xst0).nts := List.mem_map_of_mem hnt
        rw [init_names1] at hm
        simp at hm
        have := hres nt.name hn
        rcases hm with e | e
        · exact this.1 e
        · exact this.2.1 e, by simp⟩ h
    simpa using this

end Rustemo.Front
