import Rustemo.Model.LR
/-!
# `str::position_after`: line/column bookkeeping

`posAfter` is additive over concatenation and, started from the start position, gives exactly
"line = 1 + number of newlines before the offset, column = distance in bytes from the line start".
-/
namespace Rustemo

theorem lastNl_lt : ∀ (l : List Nat) (i : Nat), lastNl l = some i → i < l.length
  | [], i, h => by simp [lastNl] at h
  | b :: rest, i, h => by
    unfold lastNl at h
    split at h
    · rename_i j hj
      have := lastNl_lt rest j hj
      injection h with h; subst h
      simp; omega
    · split at h
      · injection h with h; subst h; simp
      · simp at h

theorem lastNl_append (a b : List Nat) :
    lastNl (a ++ b) = match lastNl b with
      | some i => some (a.length + i)
      | none => lastNl a := by
  induction a with
  | nil => cases h : lastNl b <;> simp [h, lastNl]
  | cons x xs ih =>
    simp only [List.cons_append, lastNl]
    rw [ih]
    cases hb : lastNl b with
    | some i => simp only [List.length_cons, Option.some.injEq]; omega
    | none =>
      simp only

theorem posAfter_nil (p : Pos) : posAfter [] p = p := by
  simp [posAfter, lastNl]

/-- `position_after` is additive: the position after `s ++ u` is the position after `u`
    counted from the position after `s`. -/
theorem posAfter_append (s u : List Nat) (p : Pos) :
    posAfter (s ++ u) p = posAfter u (posAfter s p) := by
  unfold posAfter
  simp only [List.count_append, List.length_append, lastNl_append]
  cases hu : lastNl u with
  | some i =>
    have := lastNl_lt u i hu
    simp only [Pos.mk.injEq]
    refine ⟨by omega, by omega, by omega⟩
  | none =>
    cases hs : lastNl s with
    | some j =>
      have := lastNl_lt s j hs
      simp only [Pos.mk.injEq]
      refine ⟨by omega, by omega, by omega⟩
    | none =>
      simp only [Pos.mk.injEq]
      refine ⟨by omega, by omega, by omega⟩

/-- byte offset of the start of the last line of `s` -/
def lineStart (s : List Nat) : Nat :=
  match lastNl s with
  | some i => i + 1
  | none => 0

/-- the position the property prescribes for byte offset `off` of `input` -/
def Pos.spec (input : List Nat) (off : Nat) : Pos :=
  ⟨off, 1 + (input.take off).count 10, off - lineStart (input.take off)⟩

/-- the position the runtime computes for offset `off`: `position_after` of the prefix -/
def posOf (input : List Nat) (off : Nat) : Pos := posAfter (input.take off) Pos.start

theorem posOf_spec (input : List Nat) (off : Nat) (h : off ≤ input.length) :
    posOf input off = Pos.spec input off := by
  unfold posOf posAfter Pos.spec lineStart Pos.start
  have hl : (input.take off).length = off := by rw [List.length_take]; omega
  cases hs : lastNl (input.take off) with
  | some i => simp only [Pos.mk.injEq, hl]; refine ⟨by omega, trivial, by omega⟩
  | none => simp only [Pos.mk.injEq, hl]; refine ⟨by omega, trivial, by omega⟩

theorem posOf_pos (input : List Nat) (off : Nat) (h : off ≤ input.length) :
    (posOf input off).pos = off := by
  rw [posOf_spec input off h]; rfl

/-- advancing over the slice `[off, off+len)` from the position of `off` gives the position of
    `off+len` -/
theorem posAfter_slice (input : List Nat) (off len : Nat) (h : off + len ≤ input.length) :
    posAfter (sliceOf input (off, len)) (posOf input off) = posOf input (off + len) := by
  unfold posOf sliceOf
  rw [← posAfter_append]
  congr 1
  simp only
  rw [← List.take_add]

end Rustemo
