import Rustemo.Model.Canon
/-!
# Soundness of the cover certificate (C04)

`Cover.verify … rel = true → FaithfulCompression …`: the relation computed by the driver between the
canonical LR(1) automaton and the dumped table contains the pair of start states, is closed under
the transitions of both automata (which leave related states on exactly the same symbols), relates
only states with equal item cores, and every related table state carries, item by item, exactly
the union of the lookaheads of the canonical states it stands for, with cells exactly as items and
lookaheads prescribe.
-/
namespace Rustemo
namespace Cover

/-- The property text of C04 for one table and one relation. -/
structure FaithfulCompression (g : Grammar) (t : Table) (au : Canon.Automaton)
    (rel : List (Nat × Nat)) (s0 : Nat) (rn : Bool) : Prop where
  start : (0, s0) ∈ rel
  /-- related states are left on exactly the same grammar symbols -/
  same_symbols : ∀ q s, (q, s) ∈ rel → canonSymbols au q = tableSymbols g t s
  /-- both transitions exist on each such symbol and lead to related states -/
  closed : ∀ q s X, (q, s) ∈ rel → X ∈ canonSymbols au q →
    ∃ q' s', au.goto q X = some q' ∧ tableTrans g t s X = some s' ∧ (q', s') ∈ rel
  /-- a table state has the item core of every canonical state it stands for -/
  same_core : ∀ q s, (q, s) ∈ rel → ∃ st, t.states[s]? = some st ∧
    coreOf (au.states.getD q []) = tableCore st
  /-- lookaheads of an item = union over the canonical states the table state stands for -/
  lookaheads : ∀ s, s ∈ relStates rel → ∃ st, t.states[s]? = some st ∧ ∀ it ∈ st.items,
    setOf it.la = setOf (((rel.filter (·.2 == s)).map (·.1)).flatMap fun q =>
      lookaheadsOf (au.states.getD q []) it.prod it.dot)
  /-- every cell holds exactly the actions items and lookaheads prescribe (plus right-nulled
      reductions iff `rn`) -/
  cells : ∀ s, s ∈ relStates rel → ∃ st, t.states[s]? = some st ∧ ∀ a, a < g.nterms →
    sameActions (t.cell s a) (expectedCell g t s st a rn) = true

theorem verify_sound (g : Grammar) (t : Table) (au : Canon.Automaton) (rel : List (Nat × Nat))
    (s0 : Nat) (rn : Bool) (h : verify g t au rel s0 rn = true) :
    FaithfulCompression g t au rel s0 rn := by
  unfold verify at h
  simp only [Bool.and_eq_true, List.all_eq_true] at h
  obtain ⟨⟨h1, h2⟩, h3⟩ := h
  have hpair : ∀ q s, (q, s) ∈ rel → pairOk g t au rel q s = true := fun q s hm => h2 (q, s) hm
  refine ⟨by simpa using h1, ?_, ?_, ?_, ?_, ?_⟩
  · intro q s hm
    have := hpair q s hm
    unfold pairOk at this
    simp only [Bool.and_eq_true, beq_iff_eq] at this
    exact this.1.1
  · intro q s X hm hX
    have := hpair q s hm
    unfold pairOk at this
    simp only [Bool.and_eq_true, List.all_eq_true] at this
    have := this.1.2 X hX
    split at this
    · rename_i q' s' hq hs
      exact ⟨q', s', hq, hs, by simpa using this⟩
    · simp at this
  · intro q s hm
    have := hpair q s hm
    unfold pairOk at this
    simp only [Bool.and_eq_true] at this
    have h3' := this.2
    split at h3'
    · rename_i st hst
      exact ⟨st, hst, by simpa using h3'⟩
    · simp at h3'
  · intro s hs
    have := h3 s hs
    unfold stateOk at this
    split at this
    · simp at this
    · rename_i st hst
      simp only [Bool.and_eq_true, List.all_eq_true, beq_iff_eq] at this
      exact ⟨st, hst, this.1⟩
  · intro s hs
    have := h3 s hs
    unfold stateOk at this
    split at this
    · simp at this
    · rename_i st hst
      simp only [Bool.and_eq_true, List.all_eq_true] at this
      refine ⟨st, hst, ?_⟩
      intro a ha
      exact this.2 a (List.mem_range.mpr ha)

end Cover
end Rustemo
