import Rustemo.Proofs.GlrBasic
import Rustemo.Proofs.GlrElide
/-!
# The invariant of the graph structured stack

For every edge `src → dst` of the GSS: both heads exist, the LR automaton has the transition
`state(dst) --X--> state(src)` on the accessing symbol `X` of `state(src)`, and every SPPF possibility packed
on the edge *fits*: a terminal node is the token kind `X` shifted from the level (frontier index) of `dst`;
a nonterminal node is a production of `X` whose children are parent links spelling a prefix of the
right-hand side from `dst` up to the level of `src` and whose missing tail is nullable.  All statements are
local (one level of the graph), hence stable when heads, edges and possibilities are added.
-/
namespace Rustemo.Glr
open Rustemo

/-- the parent links `es` spell `Xs`, starting at head `r` and ending at a head of level `j` -/
def ChildrenOk (t : Table) (g : Gss) : List Nat → List Nat → Nat → Nat → Prop
  | [], Xs, r, j => Xs = [] ∧ ∃ hd, g.heads[r]? = some hd ∧ hd.frontier = j
  | e :: es, Xs, r, j => ∃ ed hs X Xs', g.edges[e]? = some ed ∧ g.heads[ed.src]? = some hs ∧
      Xs = X :: Xs' ∧ ed.dst = r ∧ t.symAt hs.state = X ∧ ChildrenOk t g es Xs' ed.src j

/-- SPPF node `nd` fits on an edge for symbol `X` from head `r` to level `j` -/
def NodeFits (env : Env) (g : Gss) (nd : SNode) (X r j : Nat) : Prop :=
  match nd with
  | .term tk _ => tk.kind = X ∧ X < env.g.nterms ∧ ∃ hd, g.heads[r]? = some hd ∧ hd.frontier + 1 = j
  | .nonterm p _ _ ch => ∃ pr, env.g.prods[p]? = some pr ∧ pr.lhs = X ∧ ch.length ≤ pr.rhs.length ∧
      (∀ Y ∈ pr.rhs.drop ch.length, Nullable env.g Y) ∧
      ChildrenOk env.t g ch (pr.rhs.take ch.length) r j

structure EdgeOk (env : Env) (g : Gss) (ed : Edge) (ne : Prop) : Prop where
  ends : ∃ hs hd, g.heads[ed.src]? = some hs ∧ g.heads[ed.dst]? = some hd ∧
    env.t.trans env.g hd.state (env.t.symAt hs.state) hs.state ∧
    ∀ n ∈ ed.poss, ∃ nd, g.nodes[n]? = some nd ∧ NodeFits env g nd (env.t.symAt hs.state) ed.dst hs.frontier
  poss_ne : ne → ed.poss ≠ []

/-- a head is the start head (state 0, level 0) or sits in a state that starts no automaton; its span and
    its lookahead token do not start behind its position (so `create_frontier` never slices backwards) -/
structure HeadOk (env : Env) (hd : Head) : Prop where
  range : hd.state < env.t.states.size
  start : (hd.state = 0 ∧ hd.frontier = 0) ∨ ∀ au ∈ autosOf env.g env.t, hd.state ≠ au.start
  span : posLt hd.pos hd.span.s = false
  tok : ∀ tk, hd.tok = some tk → posLt hd.pos tk.span.s = false

def isTermNode (g : Gss) (n : Nat) : Prop := ∃ tk sp, g.nodes[n]? = some (.term tk sp)

/-- `x`: an edge that may (momentarily) carry no possibility -/
structure GInvX (env : Env) (g : Gss) (x : Option Nat) : Prop where
  heads : ∀ (h : Nat) (hd : Head), g.heads[h]? = some hd → HeadOk env hd
  edges : ∀ (e : Nat) (ed : Edge), g.edges[e]? = some ed → EdgeOk env g ed (x ≠ some e)
  /-- a nonterminal node is packed on one edge only -/
  uniq : ∀ (e e' : Nat) (ed ed' : Edge) (n : Nat), g.edges[e]? = some ed → g.edges[e']? = some ed' → n ∈ ed.poss → n ∈ ed'.poss →
    ¬ isTermNode g n → e = e'

abbrev GInv (env : Env) (g : Gss) : Prop := GInvX env g none

/-! ## extension -/

structure Ext (g g' : Gss) : Prop where
  heads : ∀ (h : Nat) (hd : Head), g.heads[h]? = some hd → ∃ hd' : Head, g'.heads[h]? = some hd' ∧ hd'.state = hd.state ∧
    hd'.frontier = hd.frontier ∧ (∀ tk, hd.tok = some tk → hd'.tok = some tk)
  edges : ∀ (e : Nat) (ed : Edge), g.edges[e]? = some ed → ∃ ed' : Edge, g'.edges[e]? = some ed' ∧ ed'.src = ed.src ∧ ed'.dst = ed.dst

theorem Ext.refl (g : Gss) : Ext g g :=
  ⟨fun _ hd h => ⟨hd, h, rfl, rfl, fun _ h => h⟩, fun _ ed h => ⟨ed, h, rfl, rfl⟩⟩

theorem Ext.trans {a b c : Gss} (h1 : Ext a b) (h2 : Ext b c) : Ext a c := by
  constructor
  · intro h hd hh
    obtain ⟨hd', hh', hs, hf, ht⟩ := h1.heads h hd hh
    obtain ⟨hd'', hh'', hs', hf', ht'⟩ := h2.heads h hd' hh'
    exact ⟨hd'', hh'', by rw [hs', hs], by rw [hf', hf], fun tk htk => ht' tk (ht tk htk)⟩
  · intro e ed he
    obtain ⟨ed', he', hs, hd⟩ := h1.edges e ed he
    obtain ⟨ed'', he'', hs', hd'⟩ := h2.edges e ed' he'
    exact ⟨ed'', he'', by rw [hs', hs], by rw [hd', hd]⟩

theorem ChildrenOk.ext {t : Table} {g g' : Gss} (hx : Ext g g') :
    ∀ (es Xs : List Nat) (r j : Nat), ChildrenOk t g es Xs r j → ChildrenOk t g' es Xs r j
  | [], Xs, r, j, h => by
    obtain ⟨hXs, hd, hh, hf⟩ := h
    obtain ⟨hd', hh', _, hf', _⟩ := hx.heads r hd hh
    exact ⟨hXs, hd', hh', by rw [hf', hf]⟩
  | e :: es, Xs, r, j, h => by
    obtain ⟨ed, hs, X, Xs', he, hh, hXs, hdst, hsym, hrest⟩ := h
    obtain ⟨ed', he', hsrc', hdst'⟩ := hx.edges e ed he
    obtain ⟨hs', hh', hst', _, _⟩ := hx.heads ed.src hs hh
    refine ⟨ed', hs', X, Xs', he', by rw [hsrc']; exact hh', hXs, by rw [hdst', hdst], by rw [hst', hsym], ?_⟩
    rw [hsrc']
    exact ChildrenOk.ext hx es Xs' ed.src j hrest

theorem NodeFits.ext {env : Env} {g g' : Gss} (hx : Ext g g') {nd : SNode} {X r j : Nat}
    (h : NodeFits env g nd X r j) : NodeFits env g' nd X r j := by
  cases nd with
  | term tk sp =>
    obtain ⟨h1, h2, hd, hh, hf⟩ := h
    obtain ⟨hd', hh', _, hf', _⟩ := hx.heads r hd hh
    exact ⟨h1, h2, hd', hh', by rw [hf', hf]⟩
  | nonterm p sp l ch =>
    obtain ⟨pr, hpr, hl, hlen, hnul, hch⟩ := h
    exact ⟨pr, hpr, hl, hlen, hnul, ChildrenOk.ext hx _ _ _ _ hch⟩

/-- an unchanged edge stays good in an extension that keeps its possibilities' nodes -/
theorem EdgeOk.ext {env : Env} {g g' : Gss} (hx : Ext g g') {ed : Edge} {ne : Prop}
    (hn : ∀ n ∈ ed.poss, ∀ nd, g.nodes[n]? = some nd → g'.nodes[n]? = some nd)
    (h : EdgeOk env g ed ne) : EdgeOk env g' ed ne := by
  obtain ⟨⟨hs, hd, hhs, hhd, htr, hposs⟩, hne⟩ := h
  obtain ⟨hs', hhs', hst, hfr, _⟩ := hx.heads _ hs hhs
  obtain ⟨hd', hhd', hst', _, _⟩ := hx.heads _ hd hhd
  refine ⟨⟨hs', hd', hhs', hhd', by rw [hst, hst']; exact htr, ?_⟩, hne⟩
  intro n hnp
  obtain ⟨nd, hnd, hfit⟩ := hposs n hnp
  exact ⟨nd, hn n hnp nd hnd, by rw [hst, hfr]; exact NodeFits.ext hx hfit⟩

/-- the end level of a chain of children is determined by the chain -/
theorem ChildrenOk.level_unique {t : Table} {g : Gss} :
    ∀ (es Xs Xs' : List Nat) (r j j' : Nat), es ≠ [] → ChildrenOk t g es Xs r j → ChildrenOk t g es Xs' r' j' → j = j'
  | [], _, _, _, _, _, hne, _, _ => absurd rfl hne
  | [e], Xs, Xs', r, j, j', _, h1, h2 => by
    obtain ⟨ed, hs, X, Xr, he, hh, _, _, _, hrest⟩ := h1
    obtain ⟨ed', hs', X', Xr', he', hh', _, _, _, hrest'⟩ := h2
    rw [he] at he'; injection he' with he'; subst he'
    obtain ⟨_, hd, hhd, hf⟩ := hrest
    obtain ⟨_, hd', hhd', hf'⟩ := hrest'
    rw [hhd] at hhd'; injection hhd' with hhd'; subst hhd'
    rw [← hf, ← hf']
  | e :: e2 :: es, Xs, Xs', r, j, j', _, h1, h2 => by
    obtain ⟨ed, hs, X, Xr, he, hh, _, _, _, hrest⟩ := h1
    obtain ⟨ed', hs', X', Xr', he', hh', _, _, _, hrest'⟩ := h2
    rw [he] at he'; injection he' with he'; subst he'
    exact ChildrenOk.level_unique (e2 :: es) Xr Xr' ed.src j j' (by simp) hrest hrest'

end Rustemo.Glr
