import Rustemo.Proofs.GlrNoDup2
/-!
# No duplicates, result level: different indices give different derivations
-/
namespace Rustemo.Glr
open Rustemo

/-- what is needed of the roots: no repetition, all packed on edges from heads of one level `N` (in a state entered
    on the start symbol) down to the start head -/
structure RootsG (env : Env) (r : GlrResult) (N : Nat) : Prop where
  nodup : r.roots.Nodup
  edge : ∀ m ∈ r.roots, ∃ (e : Nat) (ed : Edge) (hs hd : Head), r.gss.edges[e]? = some ed ∧ m ∈ ed.poss ∧
    r.gss.heads[ed.src]? = some hs ∧ r.gss.heads[ed.dst]? = some hd ∧ hd.frontier = 0 ∧ hd.state = 0 ∧
    hs.frontier = N ∧ env.t.symAt hs.state = env.g.startIdx

theorem getTree_nodup {env : Env} {r : GlrResult} {N : Nat} (G : NoDupG env r.gss) (R : RootsG env r N)
    (hc : r.droots.hasCut = false) {i j : Nat} {ti tj : Tree} (hi : r.getTree i = some ti) (hj : r.getTree j = some tj)
    (hsame : Tree.SameDerivation ti tj) : i = j := by
  have hg := G.ginv
  -- no cut below any root
  have hcm : ∀ m ∈ r.roots, (unfoldNode r.gss (r.gss.nodes.size + 1) m).hasCut = false := by
    intro m hm
    unfold GlrResult.droots at hc
    rw [hasCut_listToDN, List.any_map, List.any_eq_false] at hc
    simpa using hc m hm
  -- the decorated forest is well formed
  have hNE : r.droots.NE := by
    unfold GlrResult.droots
    apply listToDN_NE
    intro d hd
    rw [List.mem_map] at hd
    obtain ⟨m', hm', rfl⟩ := hd
    obtain ⟨e, ed, _, _, hed, hmem, _⟩ := R.edge m' hm'
    exact unfold_NE hg _ e ed m' hed hmem
  have hwf := DNList.wfd_of r.droots hc hNE
  -- all trees, pairwise different derivations
  have hall : r.droots.all.Pairwise (fun a b => ¬ Tree.SameDerivation a b) := by
    unfold GlrResult.droots
    rw [all_listToDN, List.map_map, List.pairwise_flatten]
    obtain ⟨ih1, ih2⟩ := U_nodup G (r.gss.nodes.size + 1)
    constructor
    · intro l hl
      rw [List.mem_map] at hl
      obtain ⟨m, hm, rfl⟩ := hl
      obtain ⟨e, ed, _, _, hed, hmem, _⟩ := R.edge m hm
      exact ih1 e ed m hed hmem (hcm m hm)
    · rw [List.pairwise_map]
      apply List.Pairwise.imp_of_mem _ R.nodup
      intro m m' hm hm' hne x hx y hy
      obtain ⟨e, ed, hs, hd, hed, hmem, hhs, hhd, hl0, hs0, hlN, hsy⟩ := R.edge m hm
      obtain ⟨e', ed', hs', hd', hed', hmem', hhs', hhd', hl0', hs0', hlN', hsy'⟩ := R.edge m' hm'
      -- the two edges coincide
      have hdst : ed.dst = ed'.dst := G.hfun _ _ hd hd' hhd hhd' (by rw [hl0, hl0']) (by rw [hs0, hs0'])
      obtain ⟨a1, a2, b1, b2, tr1, _⟩ := (hg.edges e ed hed).ends
      obtain ⟨c1, c2, d1, d2, tr2, _⟩ := (hg.edges e' ed' hed').ends
      rw [hhs] at b1; injection b1 with b1; subst b1
      rw [hhd] at b2; injection b2 with b2; subst b2
      rw [hhs'] at d1; injection d1 with d1; subst d1
      rw [hhd'] at d2; injection d2 with d2; subst d2
      rw [hs0, hsy] at tr1
      rw [hs0', hsy'] at tr2
      have hst : hs.state = hs'.state := G.transDet _ _ _ _ tr1 tr2
      have hsrc : ed.src = ed'.src := G.hfun _ _ hs hs' hhs hhs' (by rw [hlN, hlN']) hst
      have hee : e = e' := G.edgeUniq e e' ed ed' hed hed' hsrc hdst
      subst hee
      rw [hed] at hed'; injection hed' with hed'; subst hed'
      exact ih2 e ed m m' hed hmem hmem' hne (hcm m hm) (hcm m' hm') x hx y hy
  have hlen : ∀ {k : Nat} {t : Tree}, r.getTree k = some t → ∃ hk : k < r.droots.all.length, r.droots.all[k] = t := by
    intro k t hk
    unfold GlrResult.getTree at hk
    rw [DNList.get_eq _ k hwf] at hk
    obtain ⟨h1, h2⟩ := List.getElem?_eq_some_iff.mp hk
    exact ⟨h1, h2⟩
  obtain ⟨hi1, hi2⟩ := hlen hi
  obtain ⟨hj1, hj2⟩ := hlen hj
  rw [List.pairwise_iff_getElem] at hall
  rcases Nat.lt_trichotomy i j with h | h | h
  · exact absurd (by rw [hi2, hj2]; exact hsame) (hall i j hi1 hj1 h)
  · exact h
  · exact absurd (by rw [hi2, hj2]; exact hsame.symm) (hall j i hj1 hi1 h)

end Rustemo.Glr
