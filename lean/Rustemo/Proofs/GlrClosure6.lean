import Rustemo.Proofs.GlrClosure5
/-!
# The fold (`replaceChildren`) as a specification
-/
namespace Rustemo.Glr
open Rustemo

/-- what `replaceChildren` does: nothing, or the children of exactly one node of the list — a possibility of the
    production with a shorter, prefix-comparable children list — become `parents` -/
inductive FoldSpec (g : Gss) (prod : Nat) (parents : List Nat) (ns : List Nat) (g' : Gss) : Prop
  | same : g' = g → (∀ n ∈ ns, ∀ nd, g.nodes[n]? = some nd → extends? prod parents nd = false) →
      FoldSpec g prod parents ns g'
  | one (n0 : Nat) (sp : Span) (l : Option Slice) (C0 : List Nat) : n0 ∈ ns →
      g.nodes[n0]? = some (.nonterm prod sp l C0) → C0.length < parents.length → zipEq parents C0 = true →
      g'.heads = g.heads → g'.edges = g.edges →
      (∀ m, g'.nodes[m]? = if n0 = m then some (.nonterm prod sp l parents) else g.nodes[m]?) →
      FoldSpec g prod parents ns g'

theorem replaceChildren_spec (g : Gss) (prod : Nat) (parents : List Nat) : ∀ (ns : List Nat),
    FoldSpec g prod parents ns (replaceChildren g prod parents ns)
  | [] => .same rfl (by simp)
  | n :: rest => by
    simp only [replaceChildren]
    cases hnd : g.nodes[n]? with
    | none =>
      simp only
      cases replaceChildren_spec g prod parents rest with
      | same h1 h2 =>
        exact .same h1 (by
          intro m hm nd hmn
          rcases List.mem_cons.mp hm with rfl | hm
          · rw [hnd] at hmn; simp at hmn
          · exact h2 m hm nd hmn)
      | one n0 sp l C0 h1 h2 h3 h4 h5 h6 h7 => exact .one n0 sp l C0 (by simp [h1]) h2 h3 h4 h5 h6 h7
    | some nd =>
      simp only
      split
      · rename_i hext
        cases nd with
        | term tk sp => simp [extends?] at hext
        | nonterm p sp l ch =>
          simp only [extends?, Bool.and_eq_true, beq_iff_eq, decide_eq_true_eq] at hext
          obtain ⟨⟨hp, hlen⟩, hz⟩ := hext
          subst hp
          have hlt := lt_of_getElem?_some hnd
          refine .one n sp l ch (by simp) hnd hlen hz rfl rfl ?_
          intro m
          simp only [setChildren, Array.getElem?_setIfInBounds, hlt, ↓reduceIte]
      · rename_i hext
        cases replaceChildren_spec g prod parents rest with
        | same h1 h2 =>
          exact .same h1 (by
            intro m hm nd' hmn
            rcases List.mem_cons.mp hm with rfl | hm
            · rw [hnd] at hmn; injection hmn with hmn; subst hmn; simpa using hext
            · exact h2 m hm nd' hmn)
        | one n0 sp l C0 h1 h2 h3 h4 h5 h6 h7 => exact .one n0 sp l C0 (by simp [h1]) h2 h3 h4 h5 h6 h7

/-- when the new path is "not a new solution", after the fold some possibility of the production has a children
    list that the path is a prefix of -/
theorem fold_covers {g : Gss} {prod : Nat} {Q poss : List Nat} (h : allDiffer g prod Q poss = false)
    (hnt : ∀ n ∈ poss, ∀ (tk : Tok) (sp : Span), g.nodes[n]? ≠ some (.term tk sp)) :
    ∃ n ∈ poss, ∃ (sp : Span) (l : Option Slice) (C : List Nat),
      (replaceChildren g prod Q poss).nodes[n]? = some (.nonterm prod sp l C) ∧ Q <+: C := by
  unfold allDiffer at h
  rw [List.all_eq_false] at h
  obtain ⟨n, hn, hd⟩ := h
  cases hnd : g.nodes[n]? with
  | none => rw [hnd] at hd; simp at hd
  | some nd =>
    rw [hnd] at hd
    simp only [Bool.not_eq_true] at hd
    cases nd with
    | term tk sp => exact absurd hnd (hnt n hn tk sp)
    | nonterm p sp l ch =>
      simp only [differs, Bool.or_eq_false_iff, bne_eq_false_iff_eq, beq_eq_false_iff_ne, ne_eq,
        Bool.not_eq_false'] at hd
      obtain ⟨⟨hp, hlen⟩, hz⟩ := hd
      subst hp
      have hcomp := (zipEq_iff Q ch).mp hz
      cases replaceChildren_spec g p Q poss with
      | same h1 h2 =>
        -- nothing was replaced: the non-differing node is longer
        rw [h1]
        have hnext := h2 n hn _ hnd
        simp only [extends?, beq_self_eq_true, Bool.true_and, Bool.and_eq_false_iff, decide_eq_false_iff_not,
          Nat.not_lt] at hnext
        rcases hnext with h3 | h3
        · refine ⟨n, hn, sp, l, ch, hnd, ?_⟩
          rcases hcomp with h4 | h4
          · exact h4
          · have := h4.length_le; omega
        · rw [hz] at h3; simp at h3
      | one n0 sp0 l0 C0 h1 h2 h3 h4 h5 h6 h7 =>
        by_cases hlong : Q.length < ch.length
        · -- the longer node is untouched
          have hne : n0 ≠ n := by
            intro heq; subst heq
            rw [hnd] at h2; injection h2 with h2; injection h2 with _ _ _ h2; subst h2; omega
          refine ⟨n, hn, sp, l, ch, by rw [h7]; simp [hne, hnd], ?_⟩
          rcases hcomp with h8 | h8
          · exact h8
          · have := h8.length_le; omega
        · exact ⟨n0, h1, sp0, l0, Q, by rw [h7]; simp, List.prefix_refl Q⟩

end Rustemo.Glr
