import Rustemo.Proofs.TableBasic
/-!
# Table construction: `group_per_next_symbol` / `create_new_states`

Every group collects exactly the items with its symbol right of the dot, in item order; keys are strictly
ascending (so every symbol has one successor state).
-/
namespace Rustemo.Table

def KeysSorted (l : List (Nat × List Item)) : Prop := l.Pairwise fun a b => a.1 < b.1

theorem groupIns_spec (X : Nat) (it : Item) (F : Nat → List Item) :
    ∀ (l : List (Nat × List Item)), KeysSorted l → (∀ e ∈ l, e.2 = F e.1) →
      ((∀ e ∈ l, e.1 ≠ X) → F X = []) →
      KeysSorted (groupIns X it l) ∧
      (∀ e ∈ groupIns X it l, e.2 = if e.1 = X then F X ++ [it] else F e.1) ∧
      (∀ Y, (∃ e ∈ groupIns X it l, e.1 = Y) ↔ (Y = X ∨ ∃ e ∈ l, e.1 = Y)) := by
  intro l
  induction l with
  | nil =>
    intro _ _ h3
    refine ⟨by simp [groupIns, KeysSorted], ?_, ?_⟩
    · intro e he
      simp only [groupIns, List.mem_singleton] at he
      subst he
      simp [h3 (by simp)]
    · intro Y
      simp [groupIns, eq_comm]
  | cons e0 rest ih =>
    intro h1 h2 h3
    obtain ⟨Z, l0⟩ := e0
    have hs : KeysSorted rest := (List.pairwise_cons.mp h1).2
    have hlt : ∀ e ∈ rest, Z < e.1 := (List.pairwise_cons.mp h1).1
    unfold groupIns
    by_cases hXZ : X < Z
    · rw [if_pos hXZ]
      have hFX : F X = [] := by
        apply h3
        intro e he
        rcases List.mem_cons.mp he with h | h
        · subst h; simp; omega
        · have := hlt e h; omega
      refine ⟨?_, ?_, ?_⟩
      · apply List.pairwise_cons.mpr
        refine ⟨?_, h1⟩
        intro e he
        rcases List.mem_cons.mp he with h | h
        · subst h; exact hXZ
        · have := hlt e h; simp only; omega
      · intro e he
        rcases List.mem_cons.mp he with h | h
        · subst h; simp [hFX]
        · have hne : e.1 ≠ X := by
            rcases List.mem_cons.mp h with h' | h'
            · subst h'; simp; omega
            · have := hlt e h'; omega
          rw [if_neg hne]
          exact h2 e h
      · intro Y
        constructor
        · rintro ⟨e, he, rfl⟩
          rcases List.mem_cons.mp he with h | h
          · subst h; exact .inl rfl
          · exact .inr ⟨e, h, rfl⟩
        · rintro (h | ⟨e, he, rfl⟩)
          · subst h; exact ⟨(Y, [it]), List.mem_cons_self, rfl⟩
          · exact ⟨e, List.mem_cons_of_mem _ he, rfl⟩
    · rw [if_neg hXZ]
      by_cases hEq : X = Z
      · rw [if_pos hEq]
        subst hEq
        refine ⟨?_, ?_, ?_⟩
        · apply List.pairwise_cons.mpr
          exact ⟨hlt, hs⟩
        · intro e he
          rcases List.mem_cons.mp he with h | h
          · subst h
            simp only [if_true]
            rw [← h2 (X, l0) List.mem_cons_self]
          · have hne : e.1 ≠ X := by have := hlt e h; omega
            rw [if_neg hne]
            exact h2 e (List.mem_cons_of_mem _ h)
        · intro Y
          constructor
          · rintro ⟨e, he, rfl⟩
            rcases List.mem_cons.mp he with h | h
            · subst h; exact .inl rfl
            · exact .inr ⟨e, List.mem_cons_of_mem _ h, rfl⟩
          · rintro (h | ⟨e, he, rfl⟩)
            · subst h; exact ⟨_, List.mem_cons_self, rfl⟩
            · rcases List.mem_cons.mp he with h | h
              · subst h; exact ⟨_, List.mem_cons_self, rfl⟩
              · exact ⟨e, List.mem_cons_of_mem _ h, rfl⟩
      · rw [if_neg hEq]
        have hZX : Z < X := by omega
        have h3' : (∀ e ∈ rest, e.1 ≠ X) → F X = [] := by
          intro hY
          apply h3
          intro e he
          rcases List.mem_cons.mp he with h | h
          · subst h; simp; omega
          · exact hY e h
        obtain ⟨i1, i2, i3⟩ := ih hs (fun e he => h2 e (List.mem_cons_of_mem _ he)) h3'
        refine ⟨?_, ?_, ?_⟩
        · apply List.pairwise_cons.mpr
          refine ⟨?_, i1⟩
          intro e he
          rcases (i3 e.1).mp ⟨e, he, rfl⟩ with h | ⟨e', he', h⟩
          · simp only; omega
          · have := hlt e' he'; simp only; omega
        · intro e he
          rcases List.mem_cons.mp he with h | h
          · subst h
            have : Z ≠ X := by omega
            simp only [if_neg this]
            exact h2 (Z, l0) List.mem_cons_self
          · exact i2 e h
        · intro Y
          constructor
          · rintro ⟨e, he, rfl⟩
            rcases List.mem_cons.mp he with h | h
            · subst h; exact .inr ⟨_, List.mem_cons_self, rfl⟩
            · rcases (i3 e.1).mp ⟨e, h, rfl⟩ with h' | ⟨e', he', h'⟩
              · exact .inl h'
              · exact .inr ⟨e', List.mem_cons_of_mem _ he', h'⟩
          · rintro (h | ⟨e, he, rfl⟩)
            · obtain ⟨e', he', h'⟩ := (i3 Y).mpr (.inl h)
              exact ⟨e', List.mem_cons_of_mem _ he', h'⟩
            · rcases List.mem_cons.mp he with h | h
              · subst h; exact ⟨_, List.mem_cons_self, rfl⟩
              · obtain ⟨e', he', h'⟩ := (i3 e.1).mpr (.inr ⟨e, h, rfl⟩)
                exact ⟨e', List.mem_cons_of_mem _ he', h'⟩

def nextIs (g : Grammar) (X : Nat) (it : Item) : Bool := Resolve.nextSym g it == some X

def GInv (g : Grammar) (pre : List Item) (acc : List (Nat × List Item)) : Prop :=
  KeysSorted acc ∧ (∀ e ∈ acc, e.2 = pre.filter (nextIs g e.1)) ∧
    (∀ Y, (∃ e ∈ acc, e.1 = Y) ↔ pre.filter (nextIs g Y) ≠ [])

theorem groupStep_inv (g : Grammar) (pre : List Item) (acc : List (Nat × List Item)) (it : Item)
    (h : GInv g pre acc) : GInv g (pre ++ [it]) (groupStep g acc it) := by
  obtain ⟨h1, h2, h3⟩ := h
  unfold groupStep
  cases hn : Resolve.nextSym g it with
  | none =>
    have hf : ∀ Y, (pre ++ [it]).filter (nextIs g Y) = pre.filter (nextIs g Y) := by
      intro Y; simp [List.filter_append, nextIs, hn]
    refine ⟨h1, ?_, ?_⟩
    · intro e he; rw [hf]; exact h2 e he
    · intro Y; rw [hf]; exact h3 Y
  | some X =>
    simp only
    have hX : (∀ e ∈ acc, e.1 ≠ X) → pre.filter (nextIs g X) = [] := by
      intro hne
      apply Classical.byContradiction
      intro hc
      obtain ⟨e, he, heq⟩ := (h3 X).mpr hc
      exact hne e he heq
    obtain ⟨g1, g2, g3⟩ := groupIns_spec X it (fun Y => pre.filter (nextIs g Y)) acc h1 h2 hX
    have hfX : (pre ++ [it]).filter (nextIs g X) = pre.filter (nextIs g X) ++ [it] := by
      simp [List.filter_append, nextIs, hn]
    have hfY : ∀ Y, Y ≠ X → (pre ++ [it]).filter (nextIs g Y) = pre.filter (nextIs g Y) := by
      intro Y hY
      have : (some X == some Y) = false := by simp; exact fun h => hY h.symm
      simp [List.filter_append, nextIs, hn, this]
    refine ⟨g1, ?_, ?_⟩
    · intro e he
      have := g2 e he
      by_cases hx : e.1 = X
      · rw [if_pos hx] at this; rw [this, hx, hfX]
      · rw [if_neg hx] at this; rw [this, hfY _ hx]
    · intro Y
      rw [g3 Y]
      by_cases hY : Y = X
      · subst hY; rw [hfX]; simp
      · rw [hfY Y hY, ← h3 Y]; simp [hY]

theorem foldl_groupStep_inv (g : Grammar) : ∀ (rest pre : List Item) (acc : List (Nat × List Item)),
    GInv g pre acc → GInv g (pre ++ rest) (rest.foldl (groupStep g) acc)
  | [], pre, acc, h => by simpa using h
  | it :: rest, pre, acc, h => by
    have := foldl_groupStep_inv g rest (pre ++ [it]) _ (groupStep_inv g pre acc it h)
    simpa using this

theorem perNextSymbol_inv (g : Grammar) (items : List Item) : GInv g items (perNextSymbol g items) := by
  have := foldl_groupStep_inv g items [] [] ⟨List.Pairwise.nil, by simp, by simp⟩
  simpa [perNextSymbol] using this

/-- every group is the list of the items with its key right of the dot, and is not empty -/
theorem perNextSymbol_mem {g : Grammar} {items : List Item} {e : Nat × List Item}
    (h : e ∈ perNextSymbol g items) : e.2 = items.filter (nextIs g e.1) ∧ e.2 ≠ [] := by
  obtain ⟨_, h2, h3⟩ := perNextSymbol_inv g items
  refine ⟨h2 e h, ?_⟩
  rw [h2 e h]
  exact (h3 e.1).mp ⟨e, h, rfl⟩

/-- every item with a symbol right of the dot is in the group of that symbol -/
theorem perNextSymbol_complete {g : Grammar} {items : List Item} {it : Item} {X : Nat}
    (hit : it ∈ items) (hn : Resolve.nextSym g it = some X) :
    ∃ e ∈ perNextSymbol g items, e.1 = X ∧ it ∈ e.2 := by
  obtain ⟨_, h2, h3⟩ := perNextSymbol_inv g items
  have hne : items.filter (nextIs g X) ≠ [] := by
    intro hc
    have : it ∈ items.filter (nextIs g X) := List.mem_filter.mpr ⟨hit, by simp [nextIs, hn]⟩
    rw [hc] at this; simp at this
  obtain ⟨e, he, hx⟩ := (h3 X).mpr hne
  refine ⟨e, he, hx, ?_⟩
  rw [h2 e he, hx]
  exact List.mem_filter.mpr ⟨hit, by simp [nextIs, hn]⟩

theorem perNextSymbol_sorted (g : Grammar) (items : List Item) : KeysSorted (perNextSymbol g items) :=
  (perNextSymbol_inv g items).1

end Rustemo.Table
