import Rustemo.Proofs.GenArrays
/-!
# C08 — the per-state-functions layout answers every query as the table
-/
namespace Rustemo
namespace Gen

/-- the arms of a state's action function, and what an arm comes from -/
theorem mem_actionArms {g : Grammar} {t : Table} {st : State} {arm : String × List AExpr}
    (h : arm ∈ (actionFn g t st).arms) :
    ∃ i, ∃ (hi : i < st.actions.size), st.actions[i] ≠ [] ∧ arm = actionArm g t (st.actions[i], i) := by
  simp only [actionFn] at h
  obtain ⟨ci, hci, rfl⟩ := List.mem_map.mp h
  obtain ⟨hz, hne⟩ := List.mem_filter.mp hci
  have hz' := List.mem_zipIdx_iff_getElem?.mp hz
  rw [Array.getElem?_toList] at hz'
  obtain ⟨hi, heq⟩ := Array.getElem?_eq_some_iff.mp hz'
  refine ⟨ci.2, hi, ?_, ?_⟩
  · rw [heq]
    intro he
    simp [cellNonEmpty, he] at hne
  · rw [heq]

theorem actionArm_mem {g : Grammar} {t : Table} {st : State} {i : Nat} (hi : i < st.actions.size)
    (hne : st.actions[i] ≠ []) : actionArm g t (st.actions[i], i) ∈ (actionFn g t st).arms := by
  simp only [actionFn]
  apply List.mem_map_of_mem
  apply List.mem_filter.mpr
  constructor
  · apply List.mem_zipIdx_iff_getElem?.mpr
    simp [Array.getElem?_eq_getElem hi]
  · cases hc : st.actions[i] with
    | nil => exact absurd hc hne
    | cons _ _ => simp [cellNonEmpty]

theorem functions_actions {g : Grammar} {t : Table} (w : WFP g t) {s a : Nat}
    (hs : s < t.states.size) (ha : a < g.nterms) :
    (functionsCore g t).actionsQ (enums g t) s a = .ok ((t.cell s a).map (encode g)) := by
  have hst : t.states[s]? = some t.states[s] := Array.getElem?_eq_getElem hs
  have ok := w.state hst
  have ha' : a < (t.states[s]).actions.size := by rw [ok.aw]; exact ha
  have h1 : (functionsCore g t).actionFns[s]? = some (actionFn g t t.states[s]) := by
    simp [functionsCore, List.getElem?_map, hst]
  -- every pattern resolves
  have hres : (actionFn g t t.states[s]).arms.any (armUnresolved (enums g t).tokens) = false := by
    apply List.any_eq_false.mpr
    intro arm harm
    obtain ⟨i, hi, _, rfl⟩ := mem_actionArms harm
    have hi' : i < g.nterms := by rw [← ok.aw]; exact hi
    simp [armUnresolved, actionArm, resolve_token w hi']
  -- an arm matches the token iff it is the arm of cell `a`
  have hmatch : ∀ arm ∈ (actionFn g t t.states[s]).arms,
      armMatches (enums g t).tokens a arm = true →
        arm = actionArm g t ((t.states[s]).actions[a], a) := by
    intro arm harm hm
    obtain ⟨i, hi, _, rfl⟩ := mem_actionArms harm
    have hi' : i < g.nterms := by rw [← ok.aw]; exact hi
    have : i = a := by simpa [armMatches, actionArm, resolve_token w hi'] using hm
    subst this
    rfl
  unfold FnCode.actionsQ
  rw [h1]
  simp only [hres]
  rw [cell_eq hst ha']
  by_cases hne : (t.states[s]).actions[a] = []
  · -- empty cell: no arm, the catch-all answers
    have hnone : (actionFn g t t.states[s]).arms.find? (armMatches (enums g t).tokens a) = none := by
      apply List.find?_eq_none.mpr
      intro arm harm hm
      have := hmatch arm harm hm
      subst this
      obtain ⟨i, hi, hne', heq⟩ := mem_actionArms harm
      have : i = a := by
        have := congrArg Prod.fst heq
        have hi' : i < g.nterms := by rw [← ok.aw]; exact hi
        have h3 := resolve_token w hi' (t := t)
        have h4 := resolve_token w ha (t := t)
        simp only [actionArm] at this
        rw [← this] at h3
        rw [h4] at h3
        exact (Option.some.inj h3).symm
      subst this
      exact hne' hne
    have hcatch : (actionFn g t t.states[s]).catchAll = true := by
      simp only [actionFn, decide_eq_true_eq, List.length_map]
      have hlt : (List.filter cellNonEmpty (t.states[s]).actions.toList.zipIdx).length
          < ((t.states[s]).actions.toList.zipIdx).length := by
        apply List.length_filter_lt_length_iff_exists.mpr
        refine ⟨((t.states[s]).actions[a], a), ?_, ?_⟩
        · apply List.mem_zipIdx_iff_getElem?.mpr
          simp [Array.getElem?_eq_getElem ha']
        · simp [cellNonEmpty, hne]
      have h5 : (t.states[s]).actions.toList.length = g.nterms := by
        rw [Array.length_toList]; exact ok.aw
      rw [List.length_zipIdx, h5] at hlt
      exact hlt
    rw [hnone]
    simp [hcatch, hne]
  · have hfind : (actionFn g t t.states[s]).arms.find? (armMatches (enums g t).tokens a)
        = some (actionArm g t ((t.states[s]).actions[a], a)) := by
      apply find?_eq_some_of_unique
      · exact actionArm_mem ha' hne
      · simp [armMatches, actionArm, resolve_token w ha]
      · exact hmatch
    have hcell : ∀ x ∈ (t.states[s]).actions[a], actOk g t x = true :=
      ok.acts _ (by simp [Array.mem_toList_iff])
    rw [hfind]
    simp only [actionArm]
    rw [evalCell_fnCell w hcell]
    simp

/-! ## goto -/

theorem mem_gotoArms {g : Grammar} {t : Table} {st : State} {arm : String × String}
    (h : arm ∈ (st.gotos.toList.zipIdx.filter gotoIsSome).map (gotoArm g t)) :
    ∃ i, ∃ (hi : i < st.gotos.size), ∃ s', st.gotos[i] = some s' ∧ arm = (ntName g i, stateIdent g t s') := by
  obtain ⟨gi, hgi, rfl⟩ := List.mem_map.mp h
  obtain ⟨hz, hsome⟩ := List.mem_filter.mp hgi
  have hz' := List.mem_zipIdx_iff_getElem?.mp hz
  rw [Array.getElem?_toList] at hz'
  obtain ⟨hi, heq⟩ := Array.getElem?_eq_some_iff.mp hz'
  cases hx : gi.1 with
  | none => simp [gotoIsSome, hx] at hsome
  | some s' =>
    refine ⟨gi.2, hi, s', ?_, ?_⟩
    · rw [heq, hx]
    · simp [gotoArm, hx]

theorem gotoArm_mem {g : Grammar} {t : Table} {st : State} {i s' : Nat} (hi : i < st.gotos.size)
    (hx : st.gotos[i] = some s') :
    (ntName g i, stateIdent g t s') ∈ (st.gotos.toList.zipIdx.filter gotoIsSome).map (gotoArm g t) := by
  apply List.mem_map.mpr
  refine ⟨(some s', i), ?_, by simp [gotoArm]⟩
  apply List.mem_filter.mpr
  constructor
  · apply List.mem_zipIdx_iff_getElem?.mpr
    simp [Array.getElem?_eq_getElem hi, hx]
  · simp [gotoIsSome]

theorem functions_goto {g : Grammar} {t : Table} (w : WFP g t) {s n : Nat}
    (hs : s < t.states.size) (hn : n < g.nnonterms) :
    gotoSpec t s n ((functionsCore g t).gotoQ (enums g t) s n) := by
  have hst : t.states[s]? = some t.states[s] := Array.getElem?_eq_getElem hs
  have ok := w.state hst
  have hn' : n < (t.states[s]).gotos.size := by rw [ok.gw]; exact hn
  have h1 : (functionsCore g t).gotoFns[s]? = some (gotoFn g t t.states[s]) := by
    simp [functionsCore, List.getElem?_map, hst]
  unfold gotoSpec FnCode.gotoQ
  rw [h1, gotoNt_eq hst hn']
  by_cases hany : (t.states[s]).gotos.toList.any (·.isSome) = true
  · -- the state has a goto function
    have hfn : gotoFn g t t.states[s] =
        some { arms := ((t.states[s]).gotos.toList.zipIdx.filter gotoIsSome).map (gotoArm g t) } := by
      simp [gotoFn, hany]
    rw [hfn]
    simp only
    have hres : (((t.states[s]).gotos.toList.zipIdx.filter gotoIsSome).map (gotoArm g t)).any
        (armUnresolved (enums g t).nonterms) = false := by
      apply List.any_eq_false.mpr
      intro arm harm
      obtain ⟨i, hi, s', _, rfl⟩ := mem_gotoArms harm
      have hi' : i < g.nnonterms := by rw [← ok.gw]; exact hi
      simp [armUnresolved, resolve_nonterm w hi']
    simp only [hres]
    have hmatch : ∀ arm ∈ ((t.states[s]).gotos.toList.zipIdx.filter gotoIsSome).map (gotoArm g t),
        armMatches (enums g t).nonterms n arm = true →
          ∃ s', (t.states[s]).gotos[n] = some s' ∧ arm = (ntName g n, stateIdent g t s') := by
      intro arm harm hm
      obtain ⟨i, hi, s', hx, rfl⟩ := mem_gotoArms harm
      have hi' : i < g.nnonterms := by rw [← ok.gw]; exact hi
      have : i = n := by simpa [armMatches, resolve_nonterm w hi'] using hm
      subst this
      exact ⟨s', hx, rfl⟩
    cases hx : (t.states[s]).gotos[n] with
    | none =>
      have hnone : (((t.states[s]).gotos.toList.zipIdx.filter gotoIsSome).map (gotoArm g t)).find?
          (armMatches (enums g t).nonterms n) = none := by
        apply List.find?_eq_none.mpr
        intro arm harm hm
        obtain ⟨s', hs', _⟩ := hmatch arm harm hm
        rw [hx] at hs'
        cases hs'
      rw [hnone]
      simp [Res.isPanic]
    | some s' =>
      have hg : gotoOk t (t.states[s]).gotos[n] = true := ok.gotos _ (by simp [Array.mem_toList_iff])
      have hs' : s' < t.states.size := by simpa [gotoOk, hx] using hg
      have hfind : (((t.states[s]).gotos.toList.zipIdx.filter gotoIsSome).map (gotoArm g t)).find?
          (armMatches (enums g t).nonterms n) = some (ntName g n, stateIdent g t s') := by
        apply find?_eq_some_of_unique
        · exact gotoArm_mem hn' hx
        · simp [armMatches, resolve_nonterm w hn]
        · intro arm harm hm
          obtain ⟨s'', hs'', rfl⟩ := hmatch arm harm hm
          rw [hx] at hs''
          rw [Option.some.inj hs'']
      rw [hfind]
      simp [resolve_state w hs']
  · -- `goto_invalid`
    have hfn : gotoFn g t t.states[s] = none := by simp [gotoFn, hany]
    have hx : (t.states[s]).gotos[n] = none := by
      cases hx : (t.states[s]).gotos[n] with
      | none => rfl
      | some s' =>
        exfalso
        apply hany
        apply List.any_eq_true.mpr
        exact ⟨some s', by rw [← hx]; simp [Array.mem_toList_iff], rfl⟩
    rw [hfn, hx]
    simp [Res.isPanic]

theorem functions_expected {g : Grammar} {t : Table} (w : WFP g t) {s : Nat} (hs : s < t.states.size) :
    (functionsCore g t).expectedQ (enums g t) s = .ok (t.sorted s) := by
  unfold FnCode.expectedQ
  exact expectedOf_rows w hs

end Gen
end Rustemo
