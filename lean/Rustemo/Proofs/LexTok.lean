import Rustemo.Model.LexTok
import Rustemo.Model.Core
import Rustemo.Proofs.CertSound
/-!
# The string lexer on single-character terminals = the token-level lexing rule

Soundness of `Cert.singleCharLexer` (`SingleChar`) and the lexing lemma `nt_spec`: in a state `s` at
byte offset `pos`, `nextTokenMain` offers exactly the terminal whose character is the next byte (STOP
at the end of the input) if that terminal has a non-empty cell in `s`, and otherwise reports the error
"expected (terminals with a non-empty cell in `s`)" at `pos` — which is `tstep`'s lookup of the cell of
the next token.
-/
namespace Rustemo

structure SingleChar (g : Grammar) (t : Table) : Prop where
  noLayout : t.layoutState = none
  nterms_pos : 1 ≤ g.nterms
  byte : ∀ k, k < g.nterms → k ≠ 0 → ∃ b, g.termByte k = some b
  distinct : ∀ k j, k < g.nterms → j < g.nterms → k ≠ 0 → j ≠ 0 → g.termByte k = g.termByte j → k = j
  cells_lt : ∀ s a, g.nterms ≤ a → t.cell s a = []
  sorted_ne : ∀ s, s < t.states.size → t.sorted s ≠ []
  sorted_cell : ∀ s a, a ∈ (t.sorted s).map (·.1) ↔ t.cell s a ≠ []
  noShiftStop : ∀ s s', Action.shift s' ∉ t.cell s 0
  start_range : 0 < t.states.size
  shift_range : ∀ s a s', Action.shift s' ∈ t.cell s a → s' < t.states.size
  goto_range : ∀ s A s', t.goto g s A = some s' → s' < t.states.size

theorem cell_ne_nil_lt {t : Table} {s a : Nat} (h : t.cell s a ≠ []) : s < t.states.size := by
  unfold Table.cell at h
  split at h
  · rename_i st hst
    rcases Nat.lt_or_ge s t.states.size with h' | h'
    · exact h'
    · rw [Array.getElem?_eq_none h'] at hst; simp at hst
  · exact absurd rfl h

theorem Cert.singleCharLexer_sound (g : Grammar) (t : Table) (h : Cert.singleCharLexer g t = true) :
    SingleChar g t := by
  unfold Cert.singleCharLexer at h
  simp only [Bool.and_eq_true, decide_eq_true_eq] at h
  obtain ⟨⟨⟨⟨⟨⟨⟨hL, hN⟩, hB⟩, hD⟩, hS⟩, hStop⟩, hR0⟩, hR⟩ := h
  rw [List.all_eq_true] at hB hD
  have hstate : ∀ (s : Nat) (st : State), t.states[s]? = some st →
      st.actions.size ≤ g.nterms ∧ st.sorted ≠ [] ∧ st.sortedIsCells = true := by
    intro s st hst
    have := forStates_spec hS hst
    simp only [Bool.and_eq_true, decide_eq_true_eq, Bool.not_eq_true', List.isEmpty_eq_false_iff] at this
    exact ⟨this.1.1, this.1.2, this.2⟩
  refine ⟨by simpa using hL, hN, ?_, ?_, ?_, ?_, ?_, ?_, hR0, ?_, ?_⟩
  · intro k hk hk0
    have := hB k (List.mem_range.mpr hk)
    simp only [Bool.or_eq_true, beq_iff_eq, hk0, false_or] at this
    exact Option.isSome_iff_exists.mp this
  · intro k j hk hj hk0 hj0 he
    have := hD k (List.mem_range.mpr hk)
    rw [List.all_eq_true] at this
    have := this j (List.mem_range.mpr hj)
    simp only [Bool.or_eq_true, beq_iff_eq, hk0, hj0, false_or, bne_iff_ne, ne_eq] at this
    rcases this with h1 | h1
    · exact h1
    · exact absurd he h1
  · intro s a ha
    unfold Table.cell
    split
    · rename_i st hst
      have hsz := (hstate s st hst).1
      simp [Array.getD_eq_getD_getElem?, Array.getElem?_eq_none (show st.actions.size ≤ a by omega)]
    · rfl
  · intro s hs
    have hst : t.states[s]? = some t.states[s] := Array.getElem?_eq_getElem hs
    unfold Table.sorted
    rw [hst]
    exact (hstate s _ hst).2.1
  · intro s a
    unfold Table.sorted Table.cell
    split
    · rename_i st hst
      have hc := (hstate s st hst).2.2
      unfold State.sortedIsCells at hc
      simp only [Bool.and_eq_true, List.all_eq_true, Bool.not_eq_true', List.isEmpty_eq_false_iff,
        Bool.or_eq_true, List.isEmpty_iff, List.contains_iff_mem] at hc
      obtain ⟨h1, h2⟩ := hc
      constructor
      · intro hm
        rw [List.mem_map] at hm
        obtain ⟨e, he, rfl⟩ := hm
        exact h1 e he
      · intro hne
        rcases Nat.lt_or_ge a st.actions.size with h' | h'
        · rcases h2 a (List.mem_range.mpr h') with h3 | h3
          · exact absurd h3 hne
          · exact h3
        · simp [Array.getD_eq_getD_getElem?, Array.getElem?_eq_none h'] at hne
    · simp
  · intro s s' hm
    obtain ⟨st, hst, hm'⟩ := mem_cell hm
    have := forStates_spec hStop hst
    rw [List.all_eq_true] at this
    have := this _ hm'
    simp at this
  · intro s a s' hm
    obtain ⟨st, hst, hm'⟩ := mem_cell hm
    have := forStates_spec hR hst
    simp only [Bool.and_eq_true] at this
    have := forCells_spec this.1 hm'
    simpa using this
  · intro s A s' hm
    obtain ⟨_, st, hst, hm'⟩ := goto_spec hm
    have := forStates_spec hR hst
    simp only [Bool.and_eq_true] at this
    have := forGotos_spec this.2 hm'
    simpa using this

/-! ## bytes and tokens -/

theorem charToTerm_spec (g : Grammar) (b : Nat) :
    (charToTerm g b = g.nterms ∧ ∀ k, k < g.nterms → g.isCharOf b k = false) ∨
    (charToTerm g b < g.nterms ∧ g.isCharOf b (charToTerm g b) = true) := by
  unfold charToTerm
  cases hf : (List.range g.nterms).find? (g.isCharOf b) with
  | none =>
    left
    refine ⟨rfl, ?_⟩
    intro k hk
    rw [List.find?_eq_none] at hf
    simpa using hf k (List.mem_range.mpr hk)
  | some k =>
    right
    have h1 := List.find?_some hf
    have h2 := List.mem_of_find?_eq_some hf
    exact ⟨List.mem_range.mp h2, h1⟩

theorem charToTerm_ne_zero {g : Grammar} {t : Table} (hc : SingleChar g t) (b : Nat) : charToTerm g b ≠ 0 := by
  rcases charToTerm_spec g b with ⟨h, _⟩ | ⟨_, h⟩
  · have := hc.nterms_pos; omega
  · unfold Grammar.isCharOf at h
    simp only [Bool.and_eq_true, bne_iff_ne, ne_eq] at h
    exact h.1

theorem charToTerm_eq_iff {g : Grammar} {t : Table} (hc : SingleChar g t) (b k : Nat) (hk : k < g.nterms)
    (hk0 : k ≠ 0) : charToTerm g b = k ↔ g.termByte k = some b := by
  constructor
  · intro h
    rcases charToTerm_spec g b with ⟨h1, _⟩ | ⟨_, h1⟩
    · omega
    · rw [h] at h1
      unfold Grammar.isCharOf at h1
      simp only [Bool.and_eq_true, beq_iff_eq] at h1
      exact h1.2
  · intro h
    rcases charToTerm_spec g b with ⟨_, h1⟩ | ⟨h0, h1⟩
    · have := h1 k hk
      unfold Grammar.isCharOf at this
      simp [hk0, h] at this
    · unfold Grammar.isCharOf at h1
      simp only [Bool.and_eq_true, bne_iff_ne, ne_eq, beq_iff_eq] at h1
      exact hc.distinct _ _ h0 hk h1.1 hk0 (by rw [h1.2, h])

/-- tokens of the input from byte offset `pos` on -/
def toksFrom (g : Grammar) (input : List Nat) (pos : Nat) : List Nat :=
  (input.drop pos).map (charToTerm g)

/-- length of the token at `pos`: STOP is empty, every other token is one byte -/
def tokLen (input : List Nat) (pos : Nat) : Nat := if input.length ≤ pos then 0 else 1

theorem toksFrom_nil {g : Grammar} {input : List Nat} {pos : Nat} (h : input.length ≤ pos) :
    toksFrom g input pos = [] := by
  unfold toksFrom; rw [List.drop_eq_nil_of_le h]; rfl

theorem toksFrom_cons {g : Grammar} {input : List Nat} {pos : Nat} (h : pos < input.length) :
    toksFrom g input pos = charToTerm g input[pos] :: toksFrom g input (pos + 1) := by
  unfold toksFrom
  rw [List.drop_eq_getElem_cons h]
  rfl

theorem toksFrom_length (g : Grammar) (input : List Nat) (pos : Nat) :
    (toksFrom g input pos).length = input.length - pos := by
  simp [toksFrom]

/-- a recognizer matches at `pos` iff its terminal is the next token; the length is `tokLen` -/
theorem charRecog_spec {g : Grammar} {t : Table} (hc : SingleChar g t) (input : List Nat) (pos k : Nat)
    (hk : k < g.nterms) :
    (k = lookahead (toksFrom g input pos) → charRecog g input k pos = some (tokLen input pos)) ∧
    (k ≠ lookahead (toksFrom g input pos) → charRecog g input k pos = none) := by
  rcases Nat.lt_or_ge pos input.length with hp | hp
  · rw [toksFrom_cons hp]
    simp only [lookahead, List.headD_cons]
    have hget : input[pos]? = some input[pos] := List.getElem?_eq_getElem hp
    have hnle : ¬ input.length ≤ pos := by omega
    by_cases hk0 : k = 0
    · subst hk0
      refine ⟨fun h => absurd h.symm (charToTerm_ne_zero hc _), fun _ => ?_⟩
      simp [charRecog, hnle]
    · obtain ⟨b, hb⟩ := hc.byte k hk hk0
      have hiff := charToTerm_eq_iff hc input[pos] k hk hk0
      constructor
      · intro h
        have := hiff.mp h.symm
        rw [hb] at this
        injection this with this
        simp [charRecog, hk0, hb, hget, this, tokLen, hnle]
      · intro h
        have hne : b ≠ input[pos] := by
          intro he; apply h; rw [he] at hb; exact (hiff.mpr hb).symm
        simp only [charRecog, hk0, ↓reduceIte, hb, hget, Option.some.injEq]
        rw [if_neg (fun he => hne he.symm)]
  · rw [toksFrom_nil hp]
    simp only [lookahead, List.headD_nil]
    by_cases hk0 : k = 0
    · subst hk0
      exact ⟨fun _ => by simp [charRecog, hp, tokLen], fun h => absurd rfl h⟩
    · refine ⟨fun h => absurd h hk0, fun _ => ?_⟩
      obtain ⟨b, hb⟩ := hc.byte k hk hk0
      have : input[pos]? = none := List.getElem?_eq_none hp
      simp [charRecog, hk0, hb, this]

/-! ## the token iterator -/

/-- the token the lexer builds for kind `a` at `pos` -/
def tokAt (env : Env) (pos : Pos) (a : Nat) : Tok :=
  ⟨a, (pos.pos, tokLen env.input pos.pos),
    ⟨pos, posAfter (sliceOf env.input (pos.pos, tokLen env.input pos.pos)) pos⟩⟩

theorem iter_all_eq (env : Env) (pos : Pos) (a : Nat) :
    ∀ (L : List (Nat × Bool)) (matched : Bool),
      (∀ e ∈ L, ∀ l, env.recog e.1 pos.pos = some l → e.1 = a ∧ l = tokLen env.input pos.pos) →
      ∀ x ∈ tokenIterAux env pos matched L, x = tokAt env pos a := by
  intro L
  induction L with
  | nil => intro m _ x hx; simp [tokenIterAux] at hx
  | cons e rest ih =>
    intro m hm x hx
    obtain ⟨k, fin⟩ := e
    have hm' : ∀ e ∈ rest, ∀ l, env.recog e.1 pos.pos = some l → e.1 = a ∧ l = tokLen env.input pos.pos :=
      fun e he => hm e (List.mem_cons_of_mem _ he)
    unfold tokenIterAux at hx
    split at hx
    · rename_i l hl
      obtain ⟨hk, rfl⟩ := hm (k, fin) List.mem_cons_self l hl
      simp only at hk
      subst hk
      simp only [List.mem_cons] at hx
      rcases hx with hx | hx
      · rw [hx]; rfl
      · split at hx
        · simp at hx
        · exact ih true hm' x hx
    · split at hx
      · simp at hx
      · exact ih m hm' x hx

theorem iter_nil (env : Env) (pos : Pos) :
    ∀ (L : List (Nat × Bool)) (matched : Bool), (∀ e ∈ L, env.recog e.1 pos.pos = none) →
      tokenIterAux env pos matched L = [] := by
  intro L
  induction L with
  | nil => intro m _; simp [tokenIterAux]
  | cons e rest ih =>
    intro m h
    obtain ⟨k, fin⟩ := e
    unfold tokenIterAux
    have hk : env.recog k pos.pos = none := h (k, fin) List.mem_cons_self
    simp only [hk]
    split
    · rfl
    · exact ih m (fun e he => h e (List.mem_cons_of_mem _ he))

theorem iter_ne_nil (env : Env) (pos : Pos) :
    ∀ (L : List (Nat × Bool)), (∃ e ∈ L, env.recog e.1 pos.pos ≠ none) →
      tokenIterAux env pos false L ≠ [] := by
  intro L
  induction L with
  | nil => intro ⟨e, he, _⟩; simp at he
  | cons e rest ih =>
    intro ⟨e', he', hne⟩
    obtain ⟨k, fin⟩ := e
    unfold tokenIterAux
    cases hk : env.recog k pos.pos with
    | some l => simp
    | none =>
      simp only [Bool.and_false, Bool.false_eq_true, ↓reduceIte]
      apply ih
      simp only [List.mem_cons] at he'
      rcases he' with rfl | he'
      · exact absurd hk hne
      · exact ⟨e', he', hne⟩

theorem maxLen_all_eq (l : Nat) : ∀ (toks : List Tok) (m : Nat), (∀ x ∈ toks, x.val.2 = l) →
    toks.foldl (fun m t => max m t.val.2) m = if toks = [] then m else max m l := by
  intro toks
  induction toks with
  | nil => intro m _; simp
  | cons x rest ih =>
    intro m h
    simp only [List.foldl_cons]
    rw [ih _ (fun y hy => h y (List.mem_cons_of_mem _ hy)), h x List.mem_cons_self]
    by_cases hr : rest = []
    · simp [hr]
    · simp only [hr, ↓reduceIte, reduceCtorEq]
      omega

theorem pickToken_all_eq (longest : Bool) (tk : Tok) (toks : List Tok) (hne : toks ≠ [])
    (h : ∀ x ∈ toks, x = tk) : pickToken longest toks = some tk := by
  cases toks with
  | nil => exact absurd rfl hne
  | cons x rest =>
    have hx : x = tk := h x List.mem_cons_self
    subst hx
    unfold pickToken
    cases longest with
    | false => simp
    | true =>
      have hml : maxLen (x :: rest) = x.val.2 := by
        unfold maxLen
        rw [maxLen_all_eq x.val.2 _ 0 (fun y hy => by rw [h y hy])]
        simp
      simp [hml]

/-! ## `nextTokenMain` -/

/-- the environments the simulation is about: the default string lexer with the recognizers of a
    single-character grammar (on every terminal and every offset up to the end of the input — all the
    lexer ever asks for); whitespace skipping off, or on with nothing to skip.
    `charEnvOk` (Model/LexTok.lean) decides it for a recognizer matrix. -/
structure CharEnv (env : Env) : Prop where
  recog : ∀ k pos, k < env.g.nterms → pos ≤ env.input.length →
    env.recog k pos = charRecog env.g env.input k pos
  custom : env.custom = none
  skip : env.skipWs = false ∨ noWsBytes env.input = true

theorem charEnvOk_sound (env : Env) (h : charEnvOk env = true) : CharEnv env := by
  unfold charEnvOk at h
  simp only [Bool.and_eq_true, List.all_eq_true, List.mem_range, beq_iff_eq, Bool.or_eq_true,
    Bool.not_eq_true', Option.isNone_iff_eq_none] at h
  obtain ⟨⟨h1, h2⟩, h3⟩ := h
  exact ⟨fun k pos hk hp => h1 k hk pos (by omega), h2, h3⟩

theorem wsCharLen_zero (bs : List Nat) (h : ∀ b ∈ bs, wsStart b = false) : wsCharLen bs = 0 := by
  cases bs with
  | nil => rfl
  | cons b rest =>
    have hb := h b List.mem_cons_self
    unfold wsStart at hb
    simp only [Bool.or_eq_false_iff, Bool.and_eq_false_iff, decide_eq_false_iff_not, beq_eq_false_iff_ne,
      ne_eq] at hb
    obtain ⟨⟨⟨⟨⟨h1, h2⟩, h3⟩, h4⟩, h5⟩, h6⟩ := hb
    unfold wsCharLen
    have : ¬ ((9 ≤ b ∧ b ≤ 13) ∨ b = 32) := by
      intro hh
      rcases hh with ⟨ha, hb⟩ | hh
      · rcases h1 with h1 | h1
        · exact h1 ha
        · exact h1 hb
      · exact h2 hh
    simp [this, h3, h4, h5, h6]

theorem skip_noWs (env : Env) (h : noWsBytes env.input = true) (ctx : Ctx) :
    skip env ctx = { ctx with lay := none } := by
  unfold skip
  have hz : wsPrefixLen (env.input.drop ctx.pos.pos).length (env.input.drop ctx.pos.pos) = 0 := by
    cases hl : (env.input.drop ctx.pos.pos).length with
    | zero => rfl
    | succ n =>
      unfold wsPrefixLen
      have : wsCharLen (env.input.drop ctx.pos.pos) = 0 := by
        apply wsCharLen_zero
        intro b hb
        unfold noWsBytes at h
        rw [List.all_eq_true] at h
        have := h b (List.mem_of_mem_drop hb)
        simpa using this
      simp [this]
  rw [List.length_drop] at hz
  simp [hz]

theorem lexNext_spec (env : Env) (he : CharEnv env) (ctx : Ctx) (expected : List (Nat × Bool)) :
    ∃ ctx', lexNext env ctx expected = (ctx', tokenIter env ctx.pos expected) ∧
      ctx'.pos = ctx.pos ∧ ctx'.state = ctx.state ∧ ctx'.span = ctx.span := by
  unfold lexNext
  rw [he.custom]
  simp only
  cases hs : env.skipWs with
  | false => exact ⟨ctx, by simp, rfl, rfl, rfl⟩
  | true =>
    rcases he.skip with h | h
    · rw [hs] at h; simp at h
    · simp only [↓reduceIte, skip_noWs env h ctx]
      exact ⟨_, rfl, rfl, rfl, rfl⟩

/-- **The lexing lemma.**  In state `ctx.state` at byte offset `ctx.pos.pos` the lexer offers the next
    token of the input iff that token has a non-empty cell; else it reports the expected set at the
    same position. -/
theorem nt_spec (env : Env) (he : CharEnv env) (hc : SingleChar env.g env.t) (fuel : Nat) (ctx : Ctx)
    (hle : ctx.pos.pos ≤ env.input.length)
    (a : Nat) (ha : a = lookahead (toksFrom env.g env.input ctx.pos.pos)) :
    (env.t.cell ctx.state a ≠ [] →
      ∃ ctx', nextTokenMain env false fuel ctx = (ctx', .ok (tokAt env ctx.pos a)) ∧
        ctx'.pos = ctx.pos ∧ ctx'.state = ctx.state ∧ ctx'.span = ctx.span) ∧
    (env.t.cell ctx.state a = [] → ctx.state < env.t.states.size →
      ∃ ctx', nextTokenMain env false fuel ctx =
        (ctx', .err (.expected ctx.pos ((env.t.sorted ctx.state).map (·.1))))) := by
  have hspec : ∀ k, k < env.g.nterms →
      (k = a → charRecog env.g env.input k ctx.pos.pos = some (tokLen env.input ctx.pos.pos)) ∧
      (k ≠ a → charRecog env.g env.input k ctx.pos.pos = none) := by
    intro k hk; rw [ha]; exact charRecog_spec hc env.input ctx.pos.pos k hk
  obtain ⟨ctx', hlex, hpos, hstate, hspan⟩ := lexNext_spec env he ctx (env.t.sorted ctx.state)
  -- expected terminals are terminals
  have hlt : ∀ e ∈ env.t.sorted ctx.state, e.1 < env.g.nterms := by
    intro e hmem
    have : e.1 ∈ (env.t.sorted ctx.state).map (·.1) := List.mem_map_of_mem hmem
    have hne := (hc.sorted_cell _ _).mp this
    rcases Nat.lt_or_ge e.1 env.g.nterms with h | h
    · exact h
    · exact absurd (hc.cells_lt _ _ h) hne
  have hm : ∀ e ∈ env.t.sorted ctx.state, ∀ l, env.recog e.1 ctx.pos.pos = some l →
      e.1 = a ∧ l = tokLen env.input ctx.pos.pos := by
    intro e hmem l hkl
    rw [he.recog _ _ (hlt e hmem) hle] at hkl
    obtain ⟨h1, h2⟩ := hspec e.1 (hlt e hmem)
    by_cases hka : e.1 = a
    · have := h1 hka; rw [this] at hkl; injection hkl with hkl; exact ⟨hka, hkl.symm⟩
    · have := h2 hka; rw [this] at hkl; simp at hkl
  have hall := iter_all_eq env ctx.pos a (env.t.sorted ctx.state) false hm
  unfold nextTokenMain
  rw [hlex]
  simp only
  constructor
  · intro hcell
    have hmem := (hc.sorted_cell _ _).mpr hcell
    rw [List.mem_map] at hmem
    obtain ⟨e, hmem, hea⟩ := hmem
    have hne : tokenIter env ctx.pos (env.t.sorted ctx.state) ≠ [] := by
      apply iter_ne_nil
      refine ⟨e, hmem, ?_⟩
      rw [he.recog _ _ (hlt e hmem) hle, (hspec e.1 (hlt e hmem)).1 hea]
      simp
    rw [pickToken_all_eq env.longest _ _ hne hall]
    exact ⟨ctx', rfl, hpos, hstate, hspan⟩
  · intro hcell hrange
    have hnil : tokenIter env ctx.pos (env.t.sorted ctx.state) = [] := by
      apply iter_nil
      intro e hmem
      have hne : e.1 ≠ a := by
        intro hea
        have : a ∈ (env.t.sorted ctx.state).map (·.1) := hea ▸ List.mem_map_of_mem hmem
        exact (hc.sorted_cell _ _).mp this hcell
      rw [he.recog _ _ (hlt e hmem) hle]
      exact (hspec e.1 (hlt e hmem)).2 hne
    rw [hnil]
    simp only [pickToken, List.filter_nil, List.head?_nil, ite_self, hc.noLayout]
    unfold noToken
    simp only [Bool.false_and, Bool.false_eq_true, ↓reduceIte, hstate, hpos]
    have hs := hc.sorted_ne _ hrange
    split
    · rename_i hnil'
      rw [List.map_eq_nil_iff] at hnil'
      exact absurd hnil' hs
    · exact ⟨ctx', rfl⟩

end Rustemo
