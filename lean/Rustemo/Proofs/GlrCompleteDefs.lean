import Rustemo.Proofs.GlrClosure16
/-!
# Definitions for the completeness statement of the GLR engine
-/
namespace Rustemo

/- `t1.EqElide t2`: the two trees are equal up to decorations and up to trailing children of EMPTY yield at any
   node on either side (their normal forms `elide_max` of tools/props/c03.py coincide). -/
mutual
def Tree.EqElide : Tree → Tree → Prop
  | .leaf a _ _ _, t2 =>
    match t2 with
    | .leaf b _ _ _ => a = b
    | .node _ _ _ _ => False
  | .node p _ _ cs, t2 =>
    match t2 with
    | .leaf _ _ _ _ => False
    | .node q _ _ ds => p = q ∧ TreeList.EqElide cs ds
def TreeList.EqElide : TreeList → TreeList → Prop
  | .nil, ds => ds.yield = []
  | .cons c cs, ds =>
    (c.yield ++ cs.yield = [] ∧ ds.yield = []) ∨
    (match ds with
     | .nil => False
     | .cons d ds' => Tree.EqElide c d ∧ TreeList.EqElide cs ds')
end

namespace Glr

/-- **The lexer hypothesis of the completeness statement**: on this input the lexer is deterministic and
    context aware at the token level.  There are `n` tokens `tok 0 … tok (n-1)` and an end token `tok n` of kind
    STOP; a head of level `i` starts at position `P i`; finding its lookaheads moves it to `L i` (whitespace /
    layout skipped) and offers exactly `tok i` if its state has an action on that kind, and nothing otherwise;
    shifting `tok i` from `L i` leads to `P (i+1)`.  (For C01 the same assumption — "the string lexer on distinct
    single-character terminals offers a token iff the state has an action" — is validated three-way, not proved.) -/
structure LexDet (env : Env) (pp : Bool) (fuel n : Nat) (tok : Nat → Tok) (P L : Nat → Pos) : Prop where
  p0 : P 0 = Pos.start
  step : ∀ i, i < n → P (i+1) = posAfter (sliceOf env.input (tok i).val) (L i)
  look : ∀ i, i ≤ n → ∀ ctx : Ctx, ctx.pos = P i → ctx.state < env.t.states.size →
    (findLookaheadsCtx env pp fuel ctx).1.pos = L i ∧
    (findLookaheadsCtx env pp fuel ctx).2 =
      .ok (if (env.t.cell ctx.state (tok i).kind).isEmpty then [] else [tok i])
  stop : (tok n).kind = 0
  terms : ∀ i, i < n → 0 < (tok i).kind ∧ (tok i).kind < env.g.nterms

end Glr
end Rustemo
