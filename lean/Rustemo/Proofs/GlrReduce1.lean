import Rustemo.Proofs.GlrState
/-!
# Pieces of the reducer: registering actions, head / edge lookup or creation, spans, the fold
-/
namespace Rustemo.Glr
open Rustemo

variable {A : Prop}

/-- the three work lists are good with respect to a graph -/
structure ListsOk (env : Env) (g : Gss) (F : Nat) (q : List Reduction) (sh : List (Nat × Nat)) (ac : List Nat) : Prop where
  queue : ∀ r ∈ q, RedOk env g F r
  shifts : ∀ s ∈ sh, ShiftOk env g F s
  acc : ∀ h ∈ ac, AccOk env g h

theorem ListsOk.ext {env : Env} {g g' : Gss} {F : Nat} {q : List Reduction} {sh : List (Nat × Nat)} {ac : List Nat}
    (hx : Ext g g') (h : ListsOk env g F q sh ac) : ListsOk env g' F q sh ac :=
  ⟨fun r hr => (h.queue r hr).ext hx, fun s hs => (h.shifts s hs).ext hx, fun a ha => (h.acc a ha).ext hx⟩

theorem registerActions_ok {env : Env} (hT : TableOk env) {g : Gss} {F : Nat} {head edge : Nat} {hc ec : Bool}
    {hd : Head} {ed : Edge} {kind : Nat}
    (hhd : g.heads[head]? = some hd) (htok : hd.tok.isSome = true) (hF : hd.frontier = F)
    (hkind : hc = true → ∃ tk, hd.tok = some tk ∧ tk.kind = kind)
    (hed : g.edges[edge]? = some ed) (hsrc : ed.src = head) :
    ∀ (acts : List Action) (acc : List Reduction × List (Nat × Nat) × List Nat),
      (∀ a ∈ acts, a ∈ env.t.cell hd.state kind) → ListsOk env g F acc.1 acc.2.1 acc.2.2 →
      ListsOk env g F (registerActions head edge hc ec acts acc).1 (registerActions head edge hc ec acts acc).2.1
        (registerActions head edge hc ec acts acc).2.2
  | [], acc, _, h => by simpa [registerActions] using h
  | act :: rest, (q, sh, ac), hm, h => by
    have hrest : ∀ a ∈ rest, a ∈ env.t.cell hd.state kind := fun a ha => hm a (by simp [ha])
    have hact := hm act (by simp)
    cases act with
    | reduce p len =>
      simp only [registerActions]
      split
      · apply registerActions_ok hT hhd htok hF hkind hed hsrc rest _ hrest
        refine ⟨?_, h.shifts, h.acc⟩
        intro r hr
        simp only [List.mem_append, List.mem_singleton] at hr
        rcases hr with hr | hr
        · exact h.queue r hr
        · subst hr
          obtain ⟨hitem, pr, hpr, hlen, hnul⟩ := hT.s.reduce_item _ _ _ _ hact
          refine ⟨hd, pr, hpr, hlen, hnul, hT.tot.no_reduce_aug _ _ _ _ hact, htok, hF, hitem, ?_⟩
          by_cases hl : len > 0
          · have hs : (if len > 0 then RStart.edge edge else RStart.node head) = .edge edge := if_pos hl
            show match (if len > 0 then RStart.edge edge else RStart.node head) with
              | .edge e => ∃ ed : Edge, g.edges[e]? = some ed ∧ g.heads[ed.src]? = some hd ∧ 0 < len
              | .node n => g.heads[n]? = some hd ∧ len = 0
            rw [hs]
            exact ⟨ed, hed, by rw [hsrc]; exact hhd, hl⟩
          · have hs : (if len > 0 then RStart.edge edge else RStart.node head) = .node head := if_neg hl
            show match (if len > 0 then RStart.edge edge else RStart.node head) with
              | .edge e => ∃ ed : Edge, g.edges[e]? = some ed ∧ g.heads[ed.src]? = some hd ∧ 0 < len
              | .node n => g.heads[n]? = some hd ∧ len = 0
            rw [hs]
            exact ⟨hhd, by omega⟩
      · exact registerActions_ok hT hhd htok hF hkind hed hsrc rest _ hrest h
    | shift s =>
      simp only [registerActions]
      apply registerActions_ok hT hhd htok hF hkind hed hsrc rest _ hrest
      refine ⟨h.queue, ?_, h.acc⟩
      intro x hx
      split at hx
      · rename_i hcc
        rcases List.mem_cons.mp hx with hx | hx
        · subst hx
          obtain ⟨tk, htk, hk⟩ := hkind hcc
          exact ⟨hd, tk, hhd, htk, hF, by rw [hk]; exact hact⟩
        · exact h.shifts x hx
      · exact h.shifts x hx
    | accept =>
      simp only [registerActions]
      apply registerActions_ok hT hhd htok hF hkind hed hsrc rest _ hrest
      refine ⟨h.queue, h.shifts, ?_⟩
      intro x hx
      split at hx
      · rename_i hcc
        simp only [List.mem_append, List.mem_singleton] at hx
        rcases hx with hx | hx
        · exact h.acc x hx
        · subst hx
          obtain ⟨tk, htk, hk⟩ := hkind hcc
          exact ⟨hd, tk, hhd, htk, by rw [hk]; exact hact⟩
      · exact h.acc x hx

/-! ## `findOrCreateHead` -/

theorem findOrCreateHead_sat {env : Env} {g : Gss} {x : Option Nat} {F : Nat} {sub : SubFrontier} (hg : GInvX env g x) (hsub : SubOk g F sub)
    (shead : Head) (htok : shead.tok.isSome = true) (hF : shead.frontier = F) (nextState : Nat)
    (hok : HeadOk env { shead with state := nextState }) :
    Sat A (fun r => GInvX env r.1 x ∧ Ext g r.1 ∧ SubOk r.1 F r.2.1 ∧ r.1.edges = g.edges ∧ r.1.nodes = g.nodes ∧
        (∃ hd : Head, r.1.heads[r.2.2.1]? = some hd ∧ hd.state = nextState ∧ hd.frontier = F ∧ hd.tok.isSome = true ∧
          (r.2.2.2 = true → hd.tok = shead.tok ∧ r.2.2.1 = g.heads.size)) ∧
        (r.2.2.2 = false → r.1 = g))
      (findOrCreateHead g sub shead nextState) := by
  unfold findOrCreateHead
  split
  · rename_i h hget
    obtain ⟨hd, hhd, hs, hf, ht⟩ := hsub _ _ (sfGet_mem hget)
    exact ⟨hg, Ext.refl g, hsub, rfl, rfl, ⟨hd, hhd, hs, hf, ht, by simp⟩, fun _ => rfl⟩
  · split
    · rename_i hn; rw [hn] at htok; simp at htok
    · rename_i tk htk
      have hx := ext_addHead g { shead with state := nextState }
      have hnew : (g.addHead { shead with state := nextState }).1.heads[g.heads.size]? = some { shead with state := nextState } := by
        rw [addHead_heads, if_pos rfl]
      refine ⟨hg.addHead _ hok, hx, ?_, rfl, rfl, ⟨_, hnew, rfl, hF, htok, fun _ => ⟨rfl, rfl⟩⟩, by simp⟩
      exact SubOk.insert (hsub.ext hx) _ hnew rfl hF htok

/-! ## spans never index out of range -/

theorem firstSpan_sat {env : Env} {g : Gss} {x : Option Nat} (hg : GInvX env g x) (e : Nat) (ed : Edge)
    (he : g.edges[e]? = some ed) (hx : x ≠ some e) : Sat A (fun _ => True) (firstSpan g e) := by
  unfold firstSpan
  rw [edge_sat' g e ed he]
  simp only [obind]
  have hok := hg.edges e ed he
  have hne := hok.poss_ne hx
  obtain ⟨_, _, _, _, _, hposs⟩ := hok.ends
  cases hp : ed.poss with
  | nil => exact absurd hp hne
  | cons n rest =>
    simp only
    obtain ⟨nd, hnd, _⟩ := hposs n (by rw [hp]; simp)
    rw [node_sat' g n nd hnd]
    trivial

theorem childrenOk_mem {t : Table} {g : Gss} : ∀ {es Xs : List Nat} {r j : Nat}, ChildrenOk t g es Xs r j →
    ∀ e ∈ es, ∃ ed : Edge, g.edges[e]? = some ed
  | [], _, _, _, _, e, he => by simp at he
  | e0 :: es, Xs, r, j, h, e, he => by
    obtain ⟨ed, hs, X, Xs', hed, _, _, _, _, hrest⟩ := h
    rcases List.mem_cons.mp he with rfl | he
    · exact ⟨ed, hed⟩
    · exact childrenOk_mem hrest e he

theorem solutionSpan_sat {env : Env} {g : Gss} {x : Option Nat} (hg : GInvX env g x) (rootHead : Head) (parents : List Nat)
    (hp : ∀ e ∈ parents, (∃ ed : Edge, g.edges[e]? = some ed) ∧ x ≠ some e) :
    Sat A (fun _ => True) (solutionSpan g rootHead parents) := by
  unfold solutionSpan
  split
  · rename_i first last hf hl
    have hfm : first ∈ parents := List.mem_of_head? hf
    have hlm : last ∈ parents := List.mem_of_getLast? hl
    obtain ⟨⟨ed1, he1⟩, hx1⟩ := hp first hfm
    obtain ⟨⟨ed2, he2⟩, hx2⟩ := hp last hlm
    exact Sat.bind (firstSpan_sat hg first ed1 he1 hx1) fun s1 _ =>
      Sat.bind (firstSpan_sat hg last ed2 he2 hx2) fun s2 _ => trivial
  · trivial

end Rustemo.Glr
