import Rustemo.Proofs.GlrCompleteDefs
import Rustemo.Proofs.GlrExample
/-!
# Non-vacuity of the lexer hypothesis `LexDet`: it holds of the example grammar on the input `aa`

(`S: 'a' S A | EMPTY; A: 'a' | EMPTY`, string lexer, no Layout rule, full parse.)
-/
namespace Rustemo.Glr.Example
open Rustemo Rustemo.Glr

/-- without a Layout rule and with the string lexer, full parse: what `find_lookaheads` offers depends on the state
    and the position of the head only -/
theorem findLookaheadsCtx_indep (env : Env) (hl : env.t.layoutState = none) (hc : env.custom = none) (fuel : Nat)
    (ctx : Ctx) :
    (findLookaheadsCtx env false fuel ctx).1.pos = (findLookaheadsCtx env false fuel ⟨ctx.state, ctx.pos, default, none⟩).1.pos ∧
    (findLookaheadsCtx env false fuel ctx).2 = (findLookaheadsCtx env false fuel ⟨ctx.state, ctx.pos, default, none⟩).2 := by
  unfold findLookaheadsCtx
  simp only [hl, lexNext, hc, stopOrNone, Bool.false_and, Bool.false_eq_true, ↓reduceIte]
  cases hs : env.skipWs with
  | false =>
    simp only [Bool.false_eq_true, ↓reduceIte]
    split <;> simp
  | true =>
    simp only [↓reduceIte, skip]
    split
    · simp only
      split <;> simp
    · simp only
      split <;> simp

def pos (i : Nat) : Pos := ⟨i, 1, i⟩

/-- the tokens of `aa`: `a`, `a`, STOP -/
def tok (i : Nat) : Tok :=
  if i < 2 then ⟨1, (i, 1), ⟨pos i, pos (i + 1)⟩⟩ else ⟨0, (2, 0), ⟨pos 2, pos 2⟩⟩

/-- the `look` clause of `LexDet` as a Boolean check for one level and one state -/
def lookB (i s : Nat) : Bool :=
  let r := findLookaheadsCtx (env 2) false 9 ⟨s, pos i, default, none⟩
  r.1.pos == pos i &&
  (match r.2 with
   | .ok l => l == (if ((env 2).t.cell s (tok i).kind).isEmpty then [] else [tok i])
   | _ => false)

theorem lookB_all : ∀ i, i ≤ 2 → ∀ s, s < 6 → lookB i s = true := by decide +kernel

/-- **`LexDet` holds** of the example on `aa` -/
theorem lexDet_aa : LexDet (env 2) false 9 2 tok pos pos := by
  refine ⟨rfl, ?_, ?_, rfl, ?_⟩
  · intro i hi
    have : i = 0 ∨ i = 1 := by omega
    rcases this with rfl | rfl <;> decide
  · intro i hi ctx hp hs
    obtain ⟨h1, h2⟩ := findLookaheadsCtx_indep (env 2) rfl rfl 9 ctx
    rw [h1, h2, hp]
    have hb := lookB_all i hi ctx.state hs
    unfold lookB at hb
    simp only [Bool.and_eq_true, beq_iff_eq] at hb
    obtain ⟨hb1, hb2⟩ := hb
    refine ⟨hb1, ?_⟩
    split at hb2
    · rename_i l hl
      rw [hl]
      simp only [beq_iff_eq] at hb2
      rw [hb2]
    · simp at hb2
  · intro i hi
    have : i = 0 ∨ i = 1 := by omega
    rcases this with rfl | rfl <;> decide

end Rustemo.Glr.Example
