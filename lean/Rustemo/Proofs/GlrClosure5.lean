import Rustemo.Proofs.GlrClosure4
/-!
# Helper lemmas for the closure invariant: sorted map lookups, registered reductions, the fold
-/
namespace Rustemo.Glr
open Rustemo

/-! ## `sfGet` / `sfInsert` -/

theorem sfGet_none {s : Nat} {sub : SubFrontier} (h : sfGet s sub = none) : ∀ hd, (s, hd) ∉ sub := by
  intro hd hm
  unfold sfGet at h
  cases hf : sub.find? (fun e => e.1 == s) with
  | none =>
    rw [List.find?_eq_none] at hf
    have := hf (s, hd) hm
    simp at this
  | some e => rw [hf] at h; simp at h

theorem sfGet_of_mem {s h : Nat} {sub : SubFrontier} (hf : ∀ (s h h' : Nat), (s, h) ∈ sub → (s, h') ∈ sub → h = h')
    (hm : (s, h) ∈ sub) : sfGet s sub = some h := by
  cases hg : sfGet s sub with
  | none => exact absurd hm (sfGet_none hg h)
  | some h' => rw [hf s h h' hm (sfGet_mem hg)]

theorem mem_sfInsert_self (s h : Nat) : ∀ (sub : SubFrontier), (s, h) ∈ sfInsert s h sub
  | [] => by simp [sfInsert]
  | (s', h') :: rest => by
    simp only [sfInsert]
    split
    · simp
    · split
      · simp
      · exact List.mem_cons_of_mem _ (mem_sfInsert_self s h rest)

theorem mem_sfInsert_of_mem {s h : Nat} : ∀ {sub : SubFrontier} {x : Nat × Nat}, x ∈ sub → x.1 ≠ s →
    x ∈ sfInsert s h sub
  | [], x, hx, _ => by simp at hx
  | (s', h') :: rest, x, hx, hne => by
    simp only [sfInsert]
    split
    · exact List.mem_cons_of_mem _ hx
    · split
      · rename_i heq
        rcases List.mem_cons.mp hx with h1 | h1
        · subst h1; exact absurd heq.symm hne
        · exact List.mem_cons_of_mem _ h1
      · rcases List.mem_cons.mp hx with h1 | h1
        · subst h1; exact List.mem_cons_self
        · exact List.mem_cons_of_mem _ (mem_sfInsert_of_mem h1 hne)

/-! ## what `registerActions` adds -/

theorem registerActions_queue_mono (head edge : Nat) (hc ec : Bool) : ∀ (acts : List Action)
    (acc : List Reduction × List (Nat × Nat) × List Nat), ∀ r ∈ acc.1, r ∈ (registerActions head edge hc ec acts acc).1
  | [], acc, r, hr => by simpa [registerActions] using hr
  | act :: rest, (q, sh, ac), r, hr => by
    cases act with
    | reduce p len =>
      simp only [registerActions]
      split
      · exact registerActions_queue_mono head edge hc ec rest _ r (by simp [hr])
      · exact registerActions_queue_mono head edge hc ec rest _ r hr
    | shift s => simp only [registerActions]; exact registerActions_queue_mono head edge hc ec rest _ r hr
    | accept => simp only [registerActions]; exact registerActions_queue_mono head edge hc ec rest _ r hr

theorem registerActions_mem (head edge : Nat) (hc ec : Bool) {p len : Nat} : ∀ (acts : List Action)
    (acc : List Reduction × List (Nat × Nat) × List Nat), Action.reduce p len ∈ acts →
    ((ec = true ∧ 0 < len) ∨ hc = true) →
    ∃ r ∈ (registerActions head edge hc ec acts acc).1, r.prod = p ∧ r.len = len ∧
      r.start = (if len > 0 then RStart.edge edge else RStart.node head)
  | [], _, hm, _ => by simp at hm
  | act :: rest, (q, sh, ac), hm, hcond => by
    rcases List.mem_cons.mp hm with heq | hrest
    · subst heq
      simp only [registerActions]
      have hc' : ((ec && decide (len > 0)) || hc) = true := by
        rcases hcond with ⟨h1, h2⟩ | h1
        · simp [h1, h2]
        · simp [h1]
      simp only [hc', ↓reduceIte]
      exact ⟨⟨if len > 0 then RStart.edge edge else RStart.node head, p, len⟩,
        registerActions_queue_mono head edge hc ec rest _ _ (by simp), rfl, rfl, rfl⟩
    · cases act with
      | reduce p' len' =>
        simp only [registerActions]
        split
        · exact registerActions_mem head edge hc ec rest _ hrest hcond
        · exact registerActions_mem head edge hc ec rest _ hrest hcond
      | shift s => simp only [registerActions]; exact registerActions_mem head edge hc ec rest _ hrest hcond
      | accept => simp only [registerActions]; exact registerActions_mem head edge hc ec rest _ hrest hcond

/-! ## chains determine their end; chains over old edges live in the old graph -/

theorem ChainEnd.end_unique {t : Table} {g : Gss} : ∀ {P Xs Xs' : List Nat} {u v v' : Nat},
    ChainEnd t g P Xs u v → ChainEnd t g P Xs' u v' → v = v'
  | [], _, _, _, _, _, h1, h2 => by rw [← h1.2, ← h2.2]
  | _ :: _, _, _, _, _, _, h1, h2 => by
    obtain ⟨ed, _, _, _, he, _, _, _, _, hr⟩ := h1
    obtain ⟨ed', _, _, _, he', _, _, _, _, hr'⟩ := h2
    rw [he] at he'; injection he' with he'; subst he'
    exact ChainEnd.end_unique hr hr'

/-- a chain in `g'` whose edges and their source heads are the same in `g` is a chain in `g` -/
theorem ChainEnd.transfer {t : Table} {g g' : Gss} : ∀ {P Xs : List Nat} {u v : Nat},
    (∀ e ∈ P, g.edges[e]? = g'.edges[e]?) →
    (∀ e ∈ P, ∀ ed : Edge, g'.edges[e]? = some ed → g.heads[ed.src]? = g'.heads[ed.src]?) →
    ChainEnd t g' P Xs u v → ChainEnd t g P Xs u v
  | [], _, _, _, _, _, h => h
  | e :: es, _, _, _, hE, hH, h => by
    obtain ⟨ed, hs, X, Xs', he, hhs, hXs, hdst, hsym, hr⟩ := h
    refine ⟨ed, hs, X, Xs', by rw [hE e (by simp)]; exact he, by rw [hH e (by simp) ed he]; exact hhs, hXs, hdst, hsym, ?_⟩
    exact ChainEnd.transfer (fun e' h' => hE e' (by simp [h'])) (fun e' h' => hH e' (by simp [h'])) hr

/-- the heads of a chain: root, and the source of every edge -/
theorem ChainEnd.end_cases {t : Table} {g : Gss} : ∀ {P Xs : List Nat} {u v : Nat}, ChainEnd t g P Xs u v →
    (P = [] ∧ v = u) ∨ ∃ e ∈ P, ∃ ed : Edge, g.edges[e]? = some ed ∧ ed.src = v
  | [], _, _, _, h => Or.inl ⟨rfl, h.2.symm⟩
  | e :: es, _, _, _, h => by
    obtain ⟨ed, hs, X, Xs', he, hhs, hXs, hdst, hsym, hr⟩ := h
    rcases ChainEnd.end_cases hr with ⟨hnil, hv⟩ | ⟨e', he', ed', hed', hsrc'⟩
    · exact Or.inr ⟨e, by simp, ed, he, hv.symm⟩
    · exact Or.inr ⟨e', by simp [he'], ed', hed', hsrc'⟩

theorem ChainEnd.root_cases {t : Table} {g : Gss} : ∀ {P Xs : List Nat} {u v : Nat}, ChainEnd t g P Xs u v →
    P = [] ∨ ∃ e ∈ P, ∃ ed : Edge, g.edges[e]? = some ed ∧ ed.dst = u
  | [], _, _, _, _ => Or.inl rfl
  | e :: es, _, _, _, h => by
    obtain ⟨ed, hs, X, Xs', he, hhs, hXs, hdst, hsym, hr⟩ := h
    exact Or.inr ⟨e, by simp, ed, he, hdst⟩

end Rustemo.Glr
