import Rustemo.Model.Front.Doc
/-!
# `SMap` (BTreeMap) laws and the meta-data inheritance laws
-/
namespace Rustemo.Front

namespace SMap
variable {α : Type}

@[simp] theorem get?_nil (k : Name) : SMap.get? ([] : SMap α) k = none := rfl

theorem get?_cons (k' : Name) (v : α) (m : SMap α) (k : Name) :
    SMap.get? ((k', v) :: m) k = if k' = k then some v else SMap.get? m k := rfl

theorem get?_insert_self (k : Name) (v : α) : ∀ m : SMap α, (SMap.insert k v m).get? k = some v
  | [] => by simp [SMap.insert, get?_cons]
  | (k', v') :: m => by
    unfold SMap.insert
    by_cases h1 : k = k'
    · simp [h1, get?_cons]
    · by_cases h2 : Name.lt k k' = true
      · simp [h1, h2, get?_cons]
      · have h3 : ¬ k' = k := fun e => h1 e.symm
        simp [h1, h2, get?_cons, h3, get?_insert_self k v m]

theorem get?_insert_ne {k j : Name} (v : α) (h : k ≠ j) : ∀ m : SMap α, (SMap.insert k v m).get? j = m.get? j
  | [] => by simp [SMap.insert, get?_cons, h]
  | (k', v') :: m => by
    unfold SMap.insert
    by_cases h1 : k = k'
    · subst h1
      simp [get?_cons, h]
    · by_cases h2 : Name.lt k k' = true
      · simp [h1, h2, get?_cons, h]
      · simp [h1, h2, get?_cons, get?_insert_ne v h m]

theorem get?_insert (k j : Name) (v : α) (m : SMap α) :
    (SMap.insert k v m).get? j = if k = j then some v else m.get? j := by
  by_cases h : k = j
  · subst h; simp [get?_insert_self]
  · simp [h, get?_insert_ne v h]

theorem contains_eq (m : SMap α) (k : Name) : m.contains k = (m.get? k).isSome := rfl

theorem contains_insert (k j : Name) (v : α) (m : SMap α) :
    (SMap.insert k v m).contains j = (decide (k = j) || m.contains j) := by
  simp only [contains_eq, get?_insert]
  by_cases h : k = j <;> simp [h]

theorem get?_erase_ne {k j : Name} (h : k ≠ j) : ∀ m : SMap α, (m.erase k).get? j = m.get? j
  | [] => rfl
  | (k', v') :: m => by
    unfold SMap.erase
    by_cases h1 : k' = k
    · subst h1
      simp [get?_cons, h]
    · simp [h1, get?_cons, get?_erase_ne h m]

theorem mem_of_get? {k : Name} {v : α} : ∀ {m : SMap α}, m.get? k = some v → (k, v) ∈ m
  | [], h => by simp at h
  | (k', v') :: m, h => by
    rw [get?_cons] at h
    by_cases h1 : k' = k
    · simp only [h1, if_true] at h
      cases h
      simp [h1]
    · simp only [h1, if_false] at h
      exact List.mem_cons_of_mem _ (mem_of_get? h)

theorem get?_none_iff {k : Name} : ∀ {m : SMap α}, m.get? k = none ↔ k ∉ m.keys
  | [] => by simp [SMap.keys]
  | (k', v') :: m => by
    rw [get?_cons]
    by_cases h1 : k' = k
    · simp [h1, SMap.keys]
    · have ih := get?_none_iff (k := k) (m := m)
      simp only [h1, if_false, SMap.keys, List.map_cons, List.mem_cons] at ih ⊢
      rw [ih]
      constructor
      · rintro h (e | e)
        · exact h1 e.symm
        · exact h e
      · intro h e
        exact h (Or.inr e)

theorem mem_insert {k : Name} {v : α} {a : Name × α} : ∀ {m : SMap α}, a ∈ SMap.insert k v m → a = (k, v) ∨ a ∈ m
  | [], h => by
    simp [SMap.insert] at h
    exact Or.inl h
  | (k', v') :: m, h => by
    unfold SMap.insert at h
    by_cases h1 : k = k'
    · simp only [h1, if_true] at h
      rcases List.mem_cons.mp h with h | h
      · exact Or.inl (by rw [h, h1])
      · exact Or.inr (List.mem_cons_of_mem _ h)
    · simp only [h1, if_false] at h
      by_cases h2 : Name.lt k k' = true
      · simp only [h2, if_true] at h
        rcases List.mem_cons.mp h with h | h
        · exact Or.inl h
        · exact Or.inr h
      · simp only [h2] at h
        rcases List.mem_cons.mp h with h | h
        · exact Or.inr (by rw [h]; simp)
        · rcases mem_insert h with h | h
          · exact Or.inl h
          · exact Or.inr (List.mem_cons_of_mem _ h)

theorem insert_absent {k : Name} {v : α} : ∀ {m : SMap α}, k ∉ m.keys →
    (SMap.insert k v m).length = m.length + 1 ∧ (∀ a, a ∈ m → a ∈ SMap.insert k v m) ∧ (k, v) ∈ SMap.insert k v m
  | [], _ => by simp [SMap.insert]
  | (k', v') :: m, h => by
    have h1 : k ≠ k' := by
      intro e
      exact h (by simp [SMap.keys, e])
    have h' : k ∉ SMap.keys m := by
      intro e
      exact h (by simp only [SMap.keys, List.map_cons, List.mem_cons]; exact Or.inr e)
    unfold SMap.insert
    simp only [h1, if_false]
    by_cases h2 : Name.lt k k' = true
    · simp only [h2, if_true]
      refine ⟨by simp, ?_, by simp⟩
      intro a ha
      exact List.mem_cons_of_mem _ ha
    · simp only [h2]
      obtain ⟨i1, i2, i3⟩ := insert_absent (v := v) h'
      refine ⟨by simp [i1], ?_, List.mem_cons_of_mem _ i3⟩
      intro a ha
      rcases List.mem_cons.mp ha with ha | ha
      · rw [ha]; simp
      · exact List.mem_cons_of_mem _ (i2 a ha)

theorem keys_insert {k j : Name} {v : α} {m : SMap α} : j ∈ (SMap.insert k v m).keys ↔ j = k ∨ j ∈ m.keys := by
  have e1 := get?_none_iff (k := j) (m := SMap.insert k v m)
  have e2 := get?_none_iff (k := j) (m := m)
  rw [get?_insert] at e1
  by_cases h : k = j
  · subst h
    simp only [if_true] at e1
    constructor
    · intro _; exact Or.inl rfl
    · intro _
      by_cases hm : k ∈ (SMap.insert k v m).keys
      · exact hm
      · exact absurd (e1.mpr hm) (by simp)
  · simp only [h, if_false] at e1
    constructor
    · intro hj
      right
      by_cases hm : j ∈ m.keys
      · exact hm
      · exact absurd hj (e1.mp (e2.mpr hm))
    · rintro (e | hj)
      · exact absurd e.symm h
      · by_cases hm : j ∈ (SMap.insert k v m).keys
        · exact hm
        · exact absurd hj (e2.mp (e1.mpr hm))

end SMap

/-! ## inheritance -/

/-- the step of `inherit` -/
def inheritStep (fx : Fixes) (altMeta : Meta) (m : Meta) (kv : Name × ConstVal) : Meta :=
  if m.contains kv.1 then m
  else if fx.assocOne && isAssocKey kv.1 && (altMeta.contains kLeft || altMeta.contains kRight) then m
  else m.insert kv.1 kv.2

theorem inherit_eq (fx : Fixes) (rm am : Meta) : inherit fx rm am = rm.foldl (inheritStep fx am) am := rfl

/-- keys the repaired inheritance never copies from the rule -/
def blocked (fx : Fixes) (am : Meta) (k : Name) : Bool :=
  fx.assocOne && isAssocKey k && (am.contains kLeft || am.contains kRight)

theorem inheritStep_get? (fx : Fixes) (am m : Meta) (kv : Name × ConstVal) (k : Name) :
    (inheritStep fx am m kv).get? k =
      match m.get? k with
      | some v => some v
      | none => if kv.1 = k then (if blocked fx am k then none else some kv.2) else none := by
  unfold inheritStep
  cases hm : m.get? k with
  | some v =>
    show _ = some v
    split
    · exact hm
    · split
      · exact hm
      · rename_i hc _
        have hne : kv.1 ≠ k := by
          intro e
          rw [e, SMap.contains_eq, hm] at hc
          simp at hc
        rw [SMap.get?_insert_ne _ hne]
        exact hm
  | none =>
    show _ = if kv.1 = k then (if blocked fx am k then none else some kv.2) else none
    by_cases hk : kv.1 = k
    · have hc : m.contains kv.1 = false := by
        rw [hk, SMap.contains_eq, hm]; rfl
      rw [if_pos hk]
      simp only [hc, Bool.false_eq_true, if_false]
      have hb : (fx.assocOne && isAssocKey kv.1 && (am.contains kLeft || am.contains kRight)) = blocked fx am k := by
        rw [hk]; rfl
      rw [hb]
      split
      · exact hm
      · rw [← hk, SMap.get?_insert_self]
    · rw [if_neg hk]
      split
      · exact hm
      · split
        · exact hm
        · rw [SMap.get?_insert_ne _ hk]
          exact hm

theorem foldl_inherit_get? (fx : Fixes) (am : Meta) (k : Name) :
    ∀ (rm m : Meta), SMap.get? (rm.foldl (inheritStep fx am) m) k =
      match m.get? k with
      | some v => some v
      | none => if blocked fx am k then none else rm.get? k
  | [], m => by
    simp only [List.foldl_nil]
    cases m.get? k with
    | some v => rfl
    | none =>
      show none = if blocked fx am k = true then none else SMap.get? [] k
      split <;> rfl
  | (k', v') :: rm, m => by
    simp only [List.foldl_cons]
    rw [foldl_inherit_get? fx am k rm, inheritStep_get?]
    cases hm : m.get? k with
    | some v => rfl
    | none =>
      show (match (if k' = k then (if blocked fx am k = true then none else some v') else none) with
        | some v => some v
        | none => if blocked fx am k = true then none else SMap.get? rm k) =
        if blocked fx am k = true then none else SMap.get? ((k', v') :: rm) k
      rw [SMap.get?_cons]
      by_cases hk : k' = k
      · rw [if_pos hk, if_pos hk]
        by_cases hb : blocked fx am k = true
        · rw [if_pos hb, if_pos hb]
        · rw [if_neg hb, if_neg hb]
      · rw [if_neg hk, if_neg hk]

/-- per-key law of rule → production inheritance, for every variant -/
theorem inherit_get? (fx : Fixes) (rm am : Meta) (k : Name) :
    (inherit fx rm am).get? k =
      match am.get? k with
      | some v => some v
      | none => if blocked fx am k then none else rm.get? k := by
  rw [inherit_eq, foldl_inherit_get?]

/-- current code: exactly the documented per-key inheritance -/
theorem inherit_get?_current (fx : Fixes) (h : fx.assocOne = false) (rm am : Meta) (k : Name) :
    (inherit fx rm am).get? k = Doc.inheritKey rm am k := by
  rw [inherit_get?]
  unfold Doc.inheritKey
  cases am.get? k <;> simp [blocked, h]

theorem inherit_contains (fx : Fixes) (rm am : Meta) (k : Name) :
    (inherit fx rm am).contains k = (am.contains k || (!blocked fx am k && rm.contains k)) := by
  simp only [SMap.contains_eq, inherit_get?]
  cases am.get? k <;> cases blocked fx am k <;> simp

theorem kLeft_ne_kRight : kLeft ≠ kRight := by decide

/-- repaired variant: the associativity of a production is the documented one, for all meta-data -/
theorem assoc_inherit_fixed (fx : Fixes) (h : fx.assocOne = true) (rm am : Meta) :
    assocOfMeta (inherit fx rm am) = docAssoc rm am := by
  unfold docAssoc assocOfMeta
  simp only [inherit_contains, blocked, h, isAssocKey]
  have e1 : (kLeft == kLeft) = true := by decide
  have e2 : (kRight == kRight) = true := by decide
  have e3 : (kRight == kLeft) = false := by decide
  have e4 : (kLeft == kRight) = false := by decide
  simp only [e1, e2, e3, e4]
  cases am.contains kLeft <;> cases am.contains kRight <;> cases rm.contains kLeft <;> cases rm.contains kRight <;> simp

/-- syntactic form of the F2 class: the production says `left` (only) and the rule says `right` -/
def assocClash (rm am : Meta) : Bool := am.contains kLeft && !am.contains kRight && rm.contains kRight

/-- current code: the associativity is the documented one exactly when the F2 class is avoided -/
theorem assoc_inherit_current (fx : Fixes) (h : fx.assocOne = false) (rm am : Meta) :
    assocOfMeta (inherit fx rm am) = docAssoc rm am ↔ assocClash rm am = false := by
  unfold docAssoc assocOfMeta assocClash
  simp only [inherit_contains, blocked, h]
  cases am.contains kLeft <;> cases am.contains kRight <;> cases rm.contains kLeft <;> cases rm.contains kRight <;> simp

end Rustemo.Front
