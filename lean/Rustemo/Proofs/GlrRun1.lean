import Rustemo.Proofs.GlrCompleteDefs
/-!
# Global shape invariants of the GSS through all phases (`GU`)
-/
namespace Rustemo.Glr
open Rustemo

/-- one edge per pair of heads, edges never go up, no head above the current level -/
structure GU (F : Nat) (g : Gss) : Prop where
  edgeUniq : ∀ (e e' : Nat) (ed ed' : Edge), g.edges[e]? = some ed → g.edges[e']? = some ed' →
    ed.src = ed'.src → ed.dst = ed'.dst → e = e'
  edgeMono : ∀ (e : Nat) (ed : Edge) (hs hd : Head), g.edges[e]? = some ed → g.heads[ed.src]? = some hs →
    g.heads[ed.dst]? = some hd → hd.frontier ≤ hs.frontier
  noAbove : ∀ (h : Nat) (hd : Head), g.heads[h]? = some hd → hd.frontier ≤ F

theorem UInv.toGU {F a : Nat} {g : Gss} {sub : SubFrontier} (h : UInv F a g sub) : GU F g :=
  ⟨h.edgeUniq, h.edgeMono, h.noAbove⟩

theorem GU.mono {F F' : Nat} {g : Gss} (h : GU F g) (hle : F ≤ F') : GU F' g :=
  ⟨h.edgeUniq, h.edgeMono, fun i hd hi => Nat.le_trans (h.noAbove i hd hi) hle⟩

/-- heads changed in place keeping their level, edges and everything else untouched -/
theorem GU.setHead {F : Nat} {g : Gss} (h : GU F g) (i : Nat) (old hd : Head) (hold : g.heads[i]? = some old)
    (hf : hd.frontier = old.frontier) : GU F (g.setHead i hd) := by
  have hlt := lt_of_getElem?_some hold
  have hfr : ∀ (j : Nat) (x : Head), (g.setHead i hd).heads[j]? = some x →
      ∃ y : Head, g.heads[j]? = some y ∧ y.frontier = x.frontier := by
    intro j x hj
    rw [setHead_heads] at hj
    by_cases hij : i = j
    · subst hij
      simp only [hlt, ↓reduceIte] at hj
      injection hj with hj; subst hj
      exact ⟨old, hold, hf.symm⟩
    · simp only [hij, ↓reduceIte] at hj
      exact ⟨x, hj, rfl⟩
  constructor
  · exact h.edgeUniq
  · intro e ed hs hd' he h1 h2
    obtain ⟨y1, k1, f1⟩ := hfr _ _ h1
    obtain ⟨y2, k2, f2⟩ := hfr _ _ h2
    have := h.edgeMono e ed y1 y2 he k1 k2
    omega
  · intro j x hj
    obtain ⟨y, k, f⟩ := hfr _ _ hj
    have := h.noAbove j y k
    omega

theorem GU.addHead {F : Nat} {g : Gss} (h : GU F g) (nh : Head) (hF : nh.frontier ≤ F)
    (hsrcs : ∀ (e : Nat) (ed : Edge), g.edges[e]? = some ed → ed.src < g.heads.size ∧ ed.dst < g.heads.size) :
    GU F (g.addHead nh).1 := by
  have hold : ∀ (i : Nat) (hd : Head), i < g.heads.size → ((g.addHead nh).1.heads[i]? = some hd ↔ g.heads[i]? = some hd) := by
    intro i hd hi
    rw [addHead_heads]
    have : ¬ i = g.heads.size := by omega
    simp [this]
  constructor
  · exact h.edgeUniq
  · intro e ed hs hd he h1 h2
    obtain ⟨k1, k2⟩ := hsrcs e ed he
    exact h.edgeMono e ed hs hd he ((hold _ _ k1).mp h1) ((hold _ _ k2).mp h2)
  · intro i hd hi
    rw [addHead_heads] at hi
    split at hi
    · injection hi with hi; subst hi; exact hF
    · exact h.noAbove i hd hi

/-- a new edge between existing heads that are not yet connected, not going up -/
theorem GU.addEdge {F : Nat} {g : Gss} (h : GU F g) {s d : Nat} {hs hd : Head} (ps : List Nat)
    (hhs : g.heads[s]? = some hs) (hhd : g.heads[d]? = some hd) (hmono : hd.frontier ≤ hs.frontier)
    (hnone : ∀ (e : Nat) (ed : Edge), g.edges[e]? = some ed → ed.src = s → ed.dst ≠ d) :
    GU F (g.addEdge s d ps).1 := by
  have hcases : ∀ (e : Nat) (ed : Edge), (g.addEdge s d ps).1.edges[e]? = some ed →
      g.edges[e]? = some ed ∨ (e = g.edges.size ∧ ed = ⟨s, d, ps⟩) := by
    intro e ed he
    rw [addEdge_edges] at he
    split at he
    · rename_i heq; injection he with he; exact Or.inr ⟨heq, he.symm⟩
    · exact Or.inl he
  constructor
  · intro e e' ed ed' h1 h2 hs' hd'
    rcases hcases e ed h1 with o1 | ⟨n1, r1⟩ <;> rcases hcases e' ed' h2 with o2 | ⟨n2, r2⟩
    · exact h.edgeUniq e e' ed ed' o1 o2 hs' hd'
    · subst r2; exact absurd hd' (hnone e ed o1 hs')
    · subst r1; exact absurd hd'.symm (hnone e' ed' o2 hs'.symm)
    · rw [n1, n2]
  · intro e ed a b he h1 h2
    simp only [addEdge_heads] at h1 h2
    rcases hcases e ed he with o1 | ⟨_, r1⟩
    · exact h.edgeMono e ed a b o1 h1 h2
    · subst r1
      simp only at h1 h2
      rw [hhs] at h1; injection h1 with h1; subst h1
      rw [hhd] at h2; injection h2 with h2; subst h2
      exact hmono
  · intro i x hi; exact h.noAbove i x hi

/-- only possibilities / nodes change -/
theorem GU.of_same {F : Nat} {g g' : Gss} (h : GU F g) (hh : g'.heads = g.heads)
    (he : ∀ (e : Nat) (ed' : Edge), g'.edges[e]? = some ed' → ∃ ed : Edge, g.edges[e]? = some ed ∧ ed.src = ed'.src ∧ ed.dst = ed'.dst) :
    GU F g' := by
  constructor
  · intro e e' ed ed' h1 h2 hs hd
    obtain ⟨x, hx, xs, xd⟩ := he e ed h1
    obtain ⟨y, hy, ys, yd⟩ := he e' ed' h2
    exact h.edgeUniq e e' x y hx hy (by rw [xs, ys, hs]) (by rw [xd, yd, hd])
  · intro e ed hs hd h1 h2 h3
    obtain ⟨x, hx, xs, xd⟩ := he e ed h1
    rw [hh] at h2 h3
    exact h.edgeMono e x hs hd hx (by rw [xs]; exact h2) (by rw [xd]; exact h3)
  · intro i hd hi; rw [hh] at hi; exact h.noAbove i hd hi

theorem ginv_srcs {env : Env} {g : Gss} {x : Option Nat} (hg : GInvX env g x) :
    ∀ (e : Nat) (ed : Edge), g.edges[e]? = some ed → ed.src < g.heads.size ∧ ed.dst < g.heads.size := by
  intro e ed he
  obtain ⟨hs, hd, hhs, hhd, _⟩ := (hg.edges e ed he).ends
  exact ⟨lt_of_getElem?_some hhs, lt_of_getElem?_some hhd⟩

end Rustemo.Glr
