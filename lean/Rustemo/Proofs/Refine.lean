import Rustemo.Model.LR
import Rustemo.Proofs.CoreSound
/-!
# The byte-level LR model refines the LR core

Erasing positions, spans, layout and the context from a configuration of `LR.step` gives a
configuration of `cstepWith`; one iteration of the real loop is one core action with the lookahead
kind the lexer delivered, whatever lexer (`nt`) is used.
-/
namespace Rustemo

def absStack (c : Cfg) : List (Nat × Tree) := (c.stack.map (·.state)).zip c.res

def Cfg.abs (c : Cfg) : CCfg := ⟨absStack c, c.hist.map (·.kind)⟩

/-- shape invariant of the byte-level configuration -/
structure FInv (start : Nat) (c : Cfg) : Prop where
  len : c.stack.length = c.res.length + 1
  bottom : c.stack.getLast?.map (·.state) = some start

theorem liftTok_next {hist : List Tok} {stack : List StackItem} {res : List Tree} {slice : Option Slice}
    {r : Ctx × Outcome Tok} {k : Option (Option Slice × Nat)} {c' : Cfg}
    (h : liftTok hist stack res slice r k = .next c') :
    c'.stack = stack ∧ c'.res = res ∧ c'.hist = hist ∧ c'.slice = slice := by
  unfold liftTok at h
  split at h
  · injection h with h; subst h; exact ⟨rfl, rfl, rfl, rfl⟩
  all_goals simp at h

theorem liftTok_not_done {hist : List Tok} {stack : List StackItem} {res : List Tree} {slice : Option Slice}
    {r : Ctx × Outcome Tok} {k : Option (Option Slice × Nat)} {ctx : Ctx} {pr : ParseResult} :
    liftTok hist stack res slice r k ≠ .done ctx pr := by
  unfold liftTok
  split <;> simp

theorem topState_abs {start : Nat} {stack : List StackItem} {res : List Tree}
    (hlen : stack.length = res.length + 1)
    (hbot : stack.getLast?.map (·.state) = some start) :
    topState stack = some (topOf start ((stack.map (·.state)).zip res)) := by
  cases stack with
  | nil => simp at hlen
  | cons x rest =>
    cases res with
    | nil =>
      have : rest = [] := by
        cases rest with
        | nil => rfl
        | cons _ _ => simp at hlen
      subst this
      simp at hbot
      simp [topState, topOf, hbot]
    | cons r rs => simp [topState, topOf]

theorem getLast?_drop {α} (l : List α) (n : Nat) (h : n < l.length) :
    (l.drop n).getLast? = l.getLast? := by
  induction n generalizing l with
  | zero => simp
  | succ n ih =>
    cases l with
    | nil => simp at h
    | cons x xs =>
      simp only [List.drop_succ_cons]
      have hx : n < xs.length := by simpa using h
      rw [ih xs hx]
      cases xs with
      | nil => simp at hx
      | cons y ys => simp [List.getLast?_cons_cons]

theorem getLast?_cons_of_ne_nil {α} (x : α) (l : List α) (h : l ≠ []) :
    (x :: l).getLast? = l.getLast? := by
  cases l with
  | nil => exact absurd rfl h
  | cons y ys => simp [List.getLast?_cons_cons]

theorem zip_map_snd_take (ss : List Nat) (rs : List Tree) (n : Nat) (h : rs.length ≤ ss.length) :
    ((ss.zip rs).take n).map (·.2) = rs.take n := by
  rw [List.zip, List.take_zipWith, ← List.zip, List.map_snd_zip]
  simp only [List.length_take]
  omega

/-- one iteration of the real loop is one core action -/
theorem step_refines (env : Env) (nt : Ctx → Ctx × Outcome Tok) (start : Nat) (c c' : Cfg)
    (hinv : FInv start c) (hstep : step env nt c = .next c') :
    FInv start c' ∧ ∃ leafOf nodeOf, Decorators leafOf nodeOf ∧
      (cstepWith env.g env.t start leafOf nodeOf c.abs c.tok.kind = .shift c'.abs ∨
       cstepWith env.g env.t start leafOf nodeOf c.abs c.tok.kind = .reduce c'.abs) := by
  have htop := topState_abs hinv.len hinv.bottom
  unfold step at hstep
  rw [htop] at hstep
  simp only at hstep
  split at hstep
  · simp at hstep
  · rename_i act acts hcell
    split at hstep
    · -- shift
      rename_i s'
      obtain ⟨hst, hres, hhist, _⟩ := liftTok_next hstep
      refine ⟨⟨by simp [hst, hres, hinv.len], ?_⟩, ?_⟩
      · rw [hst, getLast?_cons_of_ne_nil]
        · exact hinv.bottom
        · intro h; have := hinv.len; simp [h] at this
      · refine ⟨fun a => Tree.leaf a c.tok.span c.tok.val c.ctx.lay,
          fun p cs => Tree.mk p cs, ⟨fun _ => ⟨_, _, _, rfl⟩, fun _ _ => ⟨_, _, rfl⟩⟩, ?_⟩
        · left
          unfold cstepWith
          simp only [Cfg.abs, absStack]
          rw [hcell]
          simp [hst, hres, hhist, absStack]
    · -- reduce
      rename_i p len
      split at hstep
      · simp at hstep
      · rename_i hlen
        split at hstep
        · simp at hstep
        · rename_i fromState hfrom
          split at hstep
          · simp at hstep
          · rename_i pr hpr
            split at hstep
            · simp at hstep
            · rename_i s' hgoto
              split at hstep
              · simp at hstep
              · rename_i hrlen
                obtain ⟨hst, hres, hhist, _⟩ := liftTok_next hstep
                have hdrop_ne : c.stack.drop len ≠ [] := by
                  intro h; rw [h] at hfrom; simp [topState] at hfrom
                have hlt : len < c.stack.length := by
                  rcases Nat.lt_or_ge len c.stack.length with h | h
                  · exact h
                  · exact absurd (List.drop_eq_nil_of_le h) hdrop_ne
                have hlen2 : (c.stack.drop len).length = (c.res.drop len).length + 1 := by
                  simp only [List.length_drop]; have := hinv.len; omega
                have hbot2 : (c.stack.drop len).getLast?.map (·.state) = some start := by
                  rw [getLast?_drop _ _ hlt]; exact hinv.bottom
                have htop2 := topState_abs hlen2 hbot2
                rw [hfrom] at htop2
                injection htop2 with htop2
                refine ⟨⟨by simp [hst, hres, hlen2], ?_⟩, ?_⟩
                · rw [hst, getLast?_cons_of_ne_nil _ _ hdrop_ne]; exact hbot2
                · refine ⟨Tree.tok, fun p cs => Tree.node p
                      (reduceSpan (c.stack.take len) c.ctx.span)
                      (childrenLay cs) (TreeList.ofList cs),
                    ⟨fun _ => ⟨_, _, _, rfl⟩, fun _ _ => ⟨_, _, rfl⟩⟩, ?_⟩
                  right
                  unfold cstepWith
                  simp only [Cfg.abs]
                  have hcell' : env.t.cell (topOf start (absStack c)) c.tok.kind = Action.reduce p len :: acts := hcell
                  rw [hcell']
                  simp only
                  have habslen : ¬ (absStack c).length < len := by
                    simp only [absStack, List.length_zip, List.length_map]
                    have := hinv.len; omega
                  simp only [habslen, ↓reduceIte, hpr]
                  have hdropabs : (absStack c).drop len =
                      ((c.stack.drop len).map (·.state)).zip (c.res.drop len) := by
                    simp [absStack, List.zip, List.drop_zipWith, List.map_drop]
                  rw [hdropabs, ← htop2, hgoto]
                  simp only
                  have hch : List.map (fun x => x.snd) (List.take len (absStack c)).reverse
                      = (c.res.take len).reverse := by
                    rw [List.map_reverse]
                    congr 1
                    unfold absStack
                    rw [zip_map_snd_take]
                    simp only [List.length_map]; have := hinv.len; omega
                  rw [hch]
                  simp [absStack, hst, hres, hhist]
    · -- accept
      split at hstep <;> simp at hstep

end Rustemo
