import Rustemo.Proofs.FrontStart
/-!
# With `stopRefErr` no production of a built grammar references `STOP` by name (repo commit 3da879f)
-/
namespace Rustemo.Front

/-- names `resolve_references` refuses in the variant `se` -/
def Banned (se : RFlags) (n : Name) : Prop :=
  (se.reserved = true ∧ (n = kAUG ∨ n = kAUGL)) ∨ (se.stop = true ∧ n = kSTOP)

theorem resolveSym_banned {se : RFlags} {terms : SMap Term} {nts : List NonTerm} {p : GProd} {k : Nat}
    {a x : RAssign} {n : Name} (hb : Banned se n) (hi : a.index = none) (hs : a.sym = .name n)
    (hx : resolveSym se terms nts p k a = .ok x) : False := by
  unfold resolveSym at hx
  rw [hi, hs] at hx
  simp only at hx
  rcases hb with ⟨h1, h2⟩ | ⟨h1, h2⟩
  · have : (se.reserved && (n == kAUG || n == kAUGL)) = true := by
      rw [h1]
      rcases h2 with rfl | rfl <;> decide
    rw [if_pos this] at hx
    cases hx
  · split at hx
    · cases hx
    · have : (se.stop && n == kSTOP) = true := by
        rw [h1, h2]
        decide
      rw [if_pos this] at hx
      cases hx

theorem resolveRhs_noName {se : RFlags} {terms : SMap Term} {nts : List NonTerm} {p : GProd} {k : Nat} {n : Name}
    (hb : Banned se n) : ∀ {l l' : List RAssign}, resolveRhs se terms nts p k l = .ok l' →
      ∀ a, a ∈ l → a.index = none → a.sym ≠ .name n
  | [], _, _, a, ha => by simp at ha
  | b :: bs, l', h, a, ha => by
    unfold resolveRhs at h
    obtain ⟨x, hx, h⟩ := Outcome.bind_eq_ok.mp h
    obtain ⟨xs, hxs, h⟩ := Outcome.bind_eq_ok.mp h
    rcases List.mem_cons.mp ha with rfl | ha
    · intro hi hs
      exact resolveSym_banned hb hi hs hx
    · exact resolveRhs_noName hb hxs a ha

theorem resolveRefs_noName {se : RFlags} {terms : SMap Term} {nts : List NonTerm} {n : Name} (hb : Banned se n) :
    ∀ {ps ps' : List GProd}, resolveRefs se terms nts ps = .ok ps' →
      ∀ p, p ∈ ps → ∀ a, a ∈ p.rhs → a.index = none → a.sym ≠ .name n
  | [], _, _, p, hp => by simp at hp
  | q :: qs, ps', h, p, hp => by
    unfold resolveRefs at h
    obtain ⟨rhs, h1, h⟩ := Outcome.bind_eq_ok.mp h
    obtain ⟨rs, h2, h⟩ := Outcome.bind_eq_ok.mp h
    rcases List.mem_cons.mp hp with rfl | hp
    · exact resolveRhs_noName hb h1
    · exact resolveRefs_noName hb h2 p hp

theorem resolveInline_spec {mm : SMap (Name × Nat)} :
    ∀ {ps ps' : List GProd}, resolveInline mm ps = .ok ps' →
      All2 (fun p p' => All2 (fun a a' => a'.sym = a.sym ∧ (∀ n, a.sym = .name n → a'.index = a.index)) p.rhs p'.rhs) ps ps'
  | [], _, h => by
    cases h
    exact .nil
  | p :: ps, ps', h => by
    unfold resolveInline at h
    obtain ⟨rhs, h1, h⟩ := Outcome.bind_eq_ok.mp h
    obtain ⟨qs, h2, h⟩ := Outcome.bind_eq_ok.mp h
    cases h
    exact .cons (all2_imp (fun a a' r => ⟨r.2.1, r.2.2.2.1⟩) (resolveInlineRhs_spec h1)) (resolveInline_spec h2)

/-- no production of a built grammar references a name the variant refuses (no hypothesis on the file) -/
theorem build_noName {fx : Fixes} {f : File} {g : Grammar} {n : Name} (hb : Banned fx.rflags n)
    (h : build fx f = .ok g) : ∀ p, p ∈ g.prods → ∀ a, a ∈ p.rhs → a.sym ≠ .name n := by
  obtain ⟨ph⟩ := build_phases h
  have hp2 : g.prods = ph.ps2 := by
    obtain ⟨_, _, _, _, e0⟩ := assemble_ok ph.hg0
    obtain ⟨m, e⟩ := markReachable_ok ph.hg
    have e1 : g.prods = ph.g0.prods := (congrArg Grammar.prods e : _)
    have e2 : ph.g0.prods = ph.ps2 := (congrArg Grammar.prods e0 : _)
    rw [e1, e2]
  have hnone : AllNone ph.xs.1.prods := by
    rcases rulePhase_ok ph.hxs with ⟨_, hx⟩ | ⟨r0, rs, _, hext, _⟩
    · rw [hx]
      intro p hp
      simp at hp
    · exact extract_allNone hext
  have h2 := ph.h2
  intro p' hp' a' ha' hs
  rw [hp2] at hp'
  obtain ⟨p1, hp1, rhs', e, rr⟩ := all2_mem' (resolveRefs_rel h2).1 p' hp'
  subst e
  obtain ⟨a1, ha1, r1⟩ := all2_mem' rr a' ha'
  obtain ⟨p0, hp0, r0⟩ := all2_mem' (resolveInline_spec ph.h1) p1 hp1
  obtain ⟨a0, ha0, r00⟩ := all2_mem' r0 a1 ha1
  have hs1 : a1.sym = .name n := by rw [← r1.2.1]; exact hs
  have hi1 : a1.index = none := by
    rw [r00.2 n (r00.1 ▸ hs1)]
    exact hnone p0 hp0 a0 ha0
  exact resolveRefs_noName hb h2 p1 hp1 a1 ha1 hi1 hs1

/-- no production of a grammar built by a variant with `stopRefErr` references `STOP` by name -/
theorem build_noStop {fx : Fixes} {f : File} {g : Grammar} (hf : fx.stopRefErr = true) (h : build fx f = .ok g) :
    ∀ p, p ∈ g.prods → ∀ a, a ∈ p.rhs → a.sym ≠ .name kSTOP :=
  build_noName (Or.inr ⟨hf, rfl⟩) h

/-- no production of a grammar built by a variant with `reservedRefErr` references `AUG` or `AUGL` -/
theorem build_noAug {fx : Fixes} {f : File} {g : Grammar} (hf : fx.reservedRefErr = true) (h : build fx f = .ok g) :
    ∀ p, p ∈ g.prods → ∀ a, a ∈ p.rhs → a.sym ≠ .name kAUG ∧ a.sym ≠ .name kAUGL :=
  fun p hp a ha => ⟨build_noName (Or.inl ⟨hf, Or.inl rfl⟩) h p hp a ha,
                    build_noName (Or.inl ⟨hf, Or.inr rfl⟩) h p hp a ha⟩

end Rustemo.Front
