import Rustemo.Proofs.CompleteCert
/-!
# Completeness of the token-level LR parser (JPL style)

If the top state holds `[p: α.Xβ, a]`, the remaining input is `yield(tx) ++ rest` and the first token
of `rest$` is in FIRST(βa), then the parser reaches the configuration with `(goto, tx)` pushed and
`rest` remaining — by mutual structural recursion on the derivation tree, using closure-, transition-
and reduce-completeness of the certificate plus determinism to know the table entry *is* the needed
action, with rustemo's "lex against the expected set of the current state" rule.
-/
namespace Rustemo

/-! ## plain (undecorated) trees: what the token-level parser builds -/

mutual
def Tree.IsPlain : Tree → Prop
  | .leaf _ sp v l => sp = default ∧ v = (0, 0) ∧ l = none
  | .node _ sp l cs => sp = default ∧ l = none ∧ TreeList.IsPlain cs
def TreeList.IsPlain : TreeList → Prop
  | .nil => True
  | .cons t ts => Tree.IsPlain t ∧ TreeList.IsPlain ts
end

mutual
def Tree.plain : Tree → Tree
  | .leaf a _ _ _ => .leaf a default (0, 0) none
  | .node p _ _ cs => .node p default none (TreeList.plain cs)
def TreeList.plain : TreeList → TreeList
  | .nil => .nil
  | .cons t ts => .cons (Tree.plain t) (TreeList.plain ts)
end

mutual
theorem Tree.plain_isPlain : ∀ t : Tree, t.plain.IsPlain
  | .leaf _ _ _ _ => ⟨rfl, rfl, rfl⟩
  | .node _ _ _ cs => ⟨rfl, rfl, TreeList.plain_isPlain cs⟩
theorem TreeList.plain_isPlain : ∀ ts : TreeList, ts.plain.IsPlain
  | .nil => trivial
  | .cons t ts => ⟨Tree.plain_isPlain t, TreeList.plain_isPlain ts⟩
end

mutual
theorem Tree.plain_yield : ∀ t : Tree, t.plain.yield = t.yield
  | .leaf _ _ _ _ => rfl
  | .node _ _ _ cs => by simp [Tree.plain, Tree.yield, TreeList.plain_yield cs]
theorem TreeList.plain_yield : ∀ ts : TreeList, ts.plain.yield = ts.yield
  | .nil => rfl
  | .cons t ts => by simp [TreeList.plain, TreeList.yield, Tree.plain_yield t, TreeList.plain_yield ts]
end

mutual
theorem Tree.plain_valid (g : Grammar) : ∀ (t : Tree) (X : Nat), t.Valid g X → t.plain.Valid g X
  | .leaf _ _ _ _, _, h => h
  | .node _ _ _ cs, _, ⟨pr, hpr, hl, hcs⟩ => ⟨pr, hpr, hl, TreeList.plain_valid g cs pr.rhs hcs⟩
theorem TreeList.plain_valid (g : Grammar) : ∀ (ts : TreeList) (Xs : List Nat), ts.Valid g Xs → ts.plain.Valid g Xs
  | .nil, _, h => h
  | .cons t ts, _, ⟨X, Xs', he, hv, hvs⟩ => ⟨X, Xs', he, Tree.plain_valid g t X hv, TreeList.plain_valid g ts Xs' hvs⟩
end

theorem TreeList.ofList_toList (cs : TreeList) : TreeList.ofList cs.toList = cs := by
  induction cs using TreeList.rec (motive_1 := fun _ => True) with
  | leaf => trivial
  | node => trivial
  | nil => rfl
  | cons t ts _ ih => simp [TreeList.toList, TreeList.ofList, ih]

/-! ## reachability of token-level configurations -/

inductive Reaches (g : Grammar) (t : Table) : TCfg → TCfg → Prop
  | refl (c) : Reaches g t c c
  | more (c c' c'') : tstep g t c = .next c' → Reaches g t c' c'' → Reaches g t c c''

theorem Reaches.trans {g : Grammar} {t : Table} {a b c : TCfg} (h1 : Reaches g t a b)
    (h2 : Reaches g t b c) : Reaches g t a c := by
  induction h1 with
  | refl => exact h2
  | more c c' c'' hs _ ih => exact .more c c' _ hs (ih h2)

theorem Reaches.single {g : Grammar} {t : Table} {a b : TCfg} (h : tstep g t a = .next b) :
    Reaches g t a b := .more a b b h (.refl b)

theorem cell_det {t : Table} {g : Grammar} (hc : Complete g t) {s a : Nat} {act : Action}
    (h : act ∈ t.cell s a) : t.cell s a = [act] := by
  have hl := hc.det s a
  match hcell : t.cell s a, h, hl with
  | [x], h, _ => simp at h; simp [h]
  | [], h, _ => simp at h
  | _ :: _ :: _, _, hl => simp at hl

theorem tstep_shift (g : Grammar) (t : Table) (stack : List (Nat × Tree)) (sh : List Nat) (a : Nat)
    (rest : List Nat) (s' : Nat) (hcell : t.cell (topOf 0 stack) a = [Action.shift s']) :
    tstep g t ⟨⟨stack, sh⟩, a :: rest⟩ = .next ⟨⟨(s', Tree.tok a) :: stack, a :: sh⟩, rest⟩ := by
  unfold tstep
  simp only [lookahead, List.headD_cons, hcell]
  simp [cstep, cstepWith, hcell]

theorem tstep_reduce (g : Grammar) (t : Table) (stack : List (Nat × Tree)) (sh : List Nat)
    (rest : List Nat) (p len : Nat) (pr : Prod) (s' : Nat)
    (hcell : t.cell (topOf 0 stack) (lookahead rest) = [Action.reduce p len])
    (hlen : len ≤ stack.length) (hpr : g.prods[p]? = some pr)
    (hgoto : t.goto g (topOf 0 (stack.drop len)) pr.lhs = some s') :
    tstep g t ⟨⟨stack, sh⟩, rest⟩ =
      .next ⟨⟨(s', Tree.mk p ((stack.take len).reverse.map (·.2))) :: stack.drop len, sh⟩, rest⟩ := by
  unfold tstep
  simp only [hcell]
  have : ¬ stack.length < len := by omega
  simp [cstep, cstepWith, hcell, this, hpr, hgoto]

def pushAll (states : List Nat) (trees : List Tree) (st : List (Nat × Tree)) : List (Nat × Tree) :=
  (states.zip trees).reverse ++ st

theorem valid_length (g : Grammar) : ∀ (cs : TreeList) (Xs : List Nat), cs.Valid g Xs →
    cs.toList.length = Xs.length
  | .nil, Xs, h => by simp [TreeList.Valid] at h; simp [TreeList.toList, h]
  | .cons c cs', Xs, h => by
    obtain ⟨Y, Xs', rfl, _, hv⟩ := h
    simp [TreeList.toList, valid_length g cs' Xs' hv]

theorem zip_rev_snd (states : List Nat) (trees : List Tree) (h : states.length = trees.length) :
    ((states.zip trees).reverse).reverse.map (·.2) = trees := by
  simp [List.map_snd_zip, h]

mutual
theorem push_tree (g : Grammar) (t : Table) (hw : GWF g) (hc : Complete g t)
    (hip : ∀ s p d, t.hasItem s p d → ∃ pr, g.prods[p]? = some pr ∧ d ≤ pr.rhs.length) :
    ∀ (tx : Tree) (X : Nat), tx.Valid g X → tx.IsPlain →
      ∀ (stack : List (Nat × Tree)) (sh : List Nat) (rest : List Nat) (p d a : Nat) (pr : Prod),
      t.hasItemLA (topOf 0 stack) p d a → g.prods[p]? = some pr → pr.rhs[d]? = some X →
      FirstOf g (pr.rhs.drop (d+1)) a (lookahead rest) →
      ∃ s' sh', Reaches g t ⟨⟨stack, sh⟩, tx.yield ++ rest⟩ ⟨⟨(s', tx) :: stack, sh'⟩, rest⟩ ∧
            t.hasItemLA s' p (d+1) a
  | .leaf b sp v l, X, hv, hpl, stack, sh, rest, p, d, a, pr, hi, hpr, hX, hfirst => by
    obtain ⟨rfl, hterm⟩ := hv
    obtain ⟨rfl, rfl, rfl⟩ := hpl
    obtain ⟨s', htr, hi'⟩ := hc.trans _ p d a pr b hi hpr hX
    refine ⟨s', b :: sh, ?_, hi'⟩
    unfold Table.trans at htr
    simp only [hterm, ↓reduceIte] at htr
    apply Reaches.single
    have hcell := cell_det hc htr
    simp only [Tree.yield, List.cons_append, List.nil_append]
    exact tstep_shift g t stack sh b rest s' hcell
  | .node q sp l cs, X, hv, hpl, stack, sh, rest, p, d, a, pr, hi, hpr, hX, hfirst => by
    obtain ⟨qr, hqr, hlhs, hcs⟩ := hv
    obtain ⟨rfl, rfl, hcpl⟩ := hpl
    have hXnt : g.nterms ≤ X := hlhs ▸ hw.lhs_nonterm q qr hqr
    have hi0 := hc.closure _ p d a pr X hi hpr hX hXnt q qr hqr hlhs (lookahead rest) hfirst
    obtain ⟨states, sh1, hlen, hreach, hend⟩ :=
      push_list g t hw hc hip cs qr.rhs hcs hcpl stack sh rest q 0 (lookahead rest) qr hi0 hqr (by simp) rfl
    obtain ⟨s', htr, hi'⟩ := hc.trans _ p d a pr X hi hpr hX
    refine ⟨s', sh1, ?_, hi'⟩
    simp only [Tree.yield]
    refine hreach.trans (Reaches.single ?_)
    -- the reduce step
    have hq0 : q ≠ 0 := by
      intro h0; subst h0
      obtain ⟨pr0, hpr0, hl0, _⟩ := hw.aug0
      have : qr = pr0 := by rw [hqr] at hpr0; exact Option.some.inj hpr0
      subst this
      have hmem : X ∈ pr.rhs := List.mem_of_getElem? hX
      exact hw.aug_not_rhs p pr hpr (by rw [← hl0, hlhs]; exact hmem)
    have hred := hc.reduce _ q (lookahead rest) qr hqr hend hq0
    have hcell := cell_det hc hred
    have hvl := valid_length g cs qr.rhs hcs
    unfold Table.trans at htr
    have hnlt : ¬ X < g.nterms := by omega
    simp only [hnlt, ↓reduceIte] at htr
    have hlen' : qr.rhs.length ≤ (pushAll states cs.toList stack).length := by
      simp [pushAll, hlen, hvl]
    have htake : (pushAll states cs.toList stack).take qr.rhs.length = (states.zip cs.toList).reverse := by
      unfold pushAll
      rw [List.take_append_of_le_length (by simp [hlen, hvl])]
      rw [List.take_of_length_le (by simp [hlen, hvl])]
    have hdrop : (pushAll states cs.toList stack).drop qr.rhs.length = stack := by
      unfold pushAll
      rw [List.drop_append_of_le_length (by simp [hlen, hvl])]
      rw [List.drop_of_length_le (by simp [hlen, hvl])]
      simp
    have hstep := tstep_reduce g t (pushAll states cs.toList stack) sh1 rest q qr.rhs.length qr s'
      hcell hlen' hqr (by rw [hdrop, hlhs]; exact htr)
    rw [hstep, htake, hdrop, zip_rev_snd states cs.toList hlen]
    simp [Tree.mk, TreeList.ofList_toList]
theorem push_list (g : Grammar) (t : Table) (hw : GWF g) (hc : Complete g t)
    (hip : ∀ s p d, t.hasItem s p d → ∃ pr, g.prods[p]? = some pr ∧ d ≤ pr.rhs.length) :
    ∀ (cs : TreeList) (Xs : List Nat), cs.Valid g Xs → cs.IsPlain →
      ∀ (stack : List (Nat × Tree)) (sh : List Nat) (rest : List Nat) (q d a : Nat) (qr : Prod),
      t.hasItemLA (topOf 0 stack) q d a → g.prods[q]? = some qr → qr.rhs.drop d = Xs →
      lookahead rest = a →
      ∃ states sh', states.length = cs.toList.length ∧
        Reaches g t ⟨⟨stack, sh⟩, cs.yield ++ rest⟩ ⟨⟨pushAll states cs.toList stack, sh'⟩, rest⟩ ∧
        t.hasItemLA (topOf 0 (pushAll states cs.toList stack)) q qr.rhs.length a
  | .nil, Xs, hv, _, stack, sh, rest, q, d, a, qr, hi, hqr, hdrop, hla => by
    simp only [TreeList.Valid] at hv
    subst hv
    refine ⟨[], sh, by simp [TreeList.toList], ?_, ?_⟩
    · simp only [TreeList.yield, List.nil_append, pushAll, TreeList.toList, List.zip_nil_right,
        List.reverse_nil]
      exact .refl _
    · -- d = |rhs|
      have hd : qr.rhs.length ≤ d := List.drop_eq_nil_iff.mp hdrop
      obtain ⟨st, h1, it, h2, h3, h4, h5⟩ := hi
      -- items never have the dot beyond the production (not needed: use drop = [] only)
      obtain ⟨pr', hpr', hle⟩ := hip _ q d ⟨st, h1, it, h2, h3, h4⟩
      have : pr' = qr := by rw [hqr] at hpr'; exact (Option.some.inj hpr').symm
      subst this
      have hde : d = pr'.rhs.length := by omega
      subst hde
      have hres : t.hasItemLA (topOf 0 stack) q pr'.rhs.length a := ⟨st, h1, it, h2, h3, h4, h5⟩
      simp only [pushAll, TreeList.toList, List.zip_nil_right, List.reverse_nil, List.nil_append]
      exact hres
  | .cons c cs', Xs, hv, hpl, stack, sh, rest, q, d, a, qr, hi, hqr, hdrop, hla => by
    obtain ⟨Y, Xs', rfl, hvc, hvcs⟩ := hv
    obtain ⟨hcp, hcsp⟩ := hpl
    have hY : qr.rhs[d]? = some Y := by
      have := congrArg List.head? hdrop
      simpa [List.head?_drop] using this
    have hdrop' : qr.rhs.drop (d+1) = Xs' := by
      have := congrArg List.tail hdrop
      simpa [List.tail_drop] using this
    have hfirst : FirstOf g (qr.rhs.drop (d+1)) a (lookahead (cs'.yield ++ rest)) := by
      refine ⟨cs', hdrop' ▸ hvcs, ?_⟩
      cases hy : cs'.yield with
      | nil => simp [lookahead, ← hla]
      | cons y ys => simp [lookahead]
    obtain ⟨s1, sh1, hr1, hi1⟩ :=
      push_tree g t hw hc hip c Y hvc hcp stack sh (cs'.yield ++ rest) q d a qr hi hqr hY hfirst
    obtain ⟨states, sh2, hlen, hr2, hend⟩ :=
      push_list g t hw hc hip cs' Xs' hvcs hcsp ((s1, c) :: stack) sh1 rest q (d+1) a qr
        (by simpa [topOf] using hi1) hqr hdrop' hla
    refine ⟨s1 :: states, sh2, by simp [TreeList.toList, hlen], ?_, ?_⟩
    · simp only [TreeList.yield, List.append_assoc]
      refine hr1.trans ?_
      have : pushAll (s1 :: states) (TreeList.cons c cs').toList stack
           = pushAll states cs'.toList ((s1, c) :: stack) := by
        simp [pushAll, TreeList.toList]
      rw [this]; exact hr2
    · have : pushAll (s1 :: states) (TreeList.cons c cs').toList stack
           = pushAll states cs'.toList ((s1, c) :: stack) := by
        simp [pushAll, TreeList.toList]
      rw [this]; exact hend
end

end Rustemo
