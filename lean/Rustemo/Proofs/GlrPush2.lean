import Rustemo.Proofs.GlrPush1
/-!
# The forward induction over a derivation tree on the finished GSS (JPL's `push_tree` / `push_list`)
-/
namespace Rustemo.Glr
open Rustemo

structure AllDone (env : Env) (g : Gss) (tok : Nat → Tok) (n : Nat) (subs : Nat → SubFrontier) : Prop where
  hT : TableOk env
  hC : CompleteRN env.g env.t
  hW : GWF env.g
  hg : GInv env g
  done : ∀ k, k ≤ n → LevelDone env g tok k (subs k)

mutual
theorem push_tree_gss {env : Env} {g : Gss} {tok : Nat → Tok} {n : Nat} {subs : Nat → SubFrontier}
    (A : AllDone env g tok n subs) :
    ∀ (T : Tree) (X : Nat), T.Valid env.g X → ∀ (i j : Nat), i ≤ j → j ≤ n → T.yield = kindsOf tok i j →
      ∀ (s u q d b : Nat) (pr : Prod), (s, u) ∈ subs i → env.t.hasItemLA s q d b → env.g.prods[q]? = some pr →
        pr.rhs[d]? = some X → FirstOf env.g (pr.rhs.drop (d+1)) b (tok j).kind →
        (env.g.isAug q = true → b = 0 ∧ d + 1 = pr.rhs.length) →
        ∃ (s' v e : Nat) (ed : Edge) (m k : Nat) (tr : Tree), env.t.trans env.g s X s' ∧ (s', v) ∈ subs j ∧
          env.t.hasItemLA s' q (d+1) b ∧ g.edges[e]? = some ed ∧ ed.src = v ∧ ed.dst = u ∧ m ∈ ed.poss ∧
          InU g k m tr ∧ Tree.EqElide T tr
  | .leaf a sp val l, X, hv, i, j, hij, hjn, hy, s, u, q, d, b, pr, hsu, hi, hpr, hX, hfirst, haug => by
    obtain ⟨rfl, hterm⟩ := hv
    -- one token: j = i + 1 and a = kind i
    have hlen : j - i = 1 := by
      have := congrArg List.length hy
      simpa [Tree.yield, kindsOf_length] using this.symm
    have hj : j = i + 1 := by omega
    subst hj
    have ha : a = (tok i).kind := by
      have := kindsOf_head (tok := tok) (i := i) (j := i + 1) (by omega) _ rfl
      rw [← hy] at this
      simpa [Tree.yield] using this
    subst ha
    obtain ⟨s', htr, hi'⟩ := A.hC.trans _ q d b pr _ hi hpr hX
    have hsh : Action.shift s' ∈ env.t.cell s (tok i).kind := by
      unfold Table.trans at htr; simpa [hterm] using htr
    obtain ⟨v, hv, e, ed, nn, spn, k1, k2, k3, k4, k5, k6, k7, k8⟩ := (A.done i (by omega)).shifted s u s' hsu hsh
    -- the shifted head is alive on the next token
    have hlive : env.t.cell s' (tok (i+1)).kind ≠ [] := by
      obtain ⟨ts, hts, hh⟩ := hfirst
      exact live_list A.hC A.hW ts _ hts s' q (d+1) b pr _ hi' hpr rfl
        (fun h => by obtain ⟨h1, h2⟩ := haug h; exact ⟨h1, h2⟩) hh
    have hin := (A.done (i+1) hjn).alive v hv k1 k3 (by rw [k2]; exact hlive)
    rw [k2] at hin
    refine ⟨s', v, e, ed, nn, 1, .leaf (tok i).kind (tok i).span (tok i).val none, htr, hin, hi', k4, k5, k6, k7,
      inU_term k8, ?_⟩
    simp [Tree.EqElide]
  | .node p sp l cs, X, hv, i, j, hij, hjn, hy, s, u, q, d, b, pr, hsu, hi, hpr, hX, hfirst, haug => by
    obtain ⟨pr', hpr', hlhs, hcs⟩ := hv
    have hXnt : env.g.nterms ≤ X := hlhs ▸ A.hW.lhs_nonterm p pr' hpr'
    have hi0 := A.hC.closure _ q d b pr X hi hpr hX hXnt p pr' hpr' hlhs (tok j).kind hfirst
    have hpaug : env.g.isAug p = false :=
      A.hC.rhs_not_aug q p pr pr' hpr hpr' (by rw [hlhs]; exact List.mem_of_getElem? hX)
    -- push the children
    obtain ⟨P, trs, sv, v, hpush, hsv, hiv⟩ := push_list_gss A cs pr'.rhs hcs i j hij hjn (by simpa [Tree.yield] using hy)
      s u p 0 pr' hsu hi0 hpr' (by simp) hpaug
    obtain ⟨hPl, htl⟩ := hpush.lengths
    -- the goto state and its liveness
    obtain ⟨s', htr, hi'⟩ := A.hC.trans _ q d b pr X hi hpr hX
    have hgoto : env.t.goto env.g s pr'.lhs = some s' := by
      unfold Table.trans at htr
      have : ¬ X < env.g.nterms := by omega
      simp only [this, ↓reduceIte] at htr
      rw [hlhs]; exact htr
    have hlive : env.t.cell s' (tok j).kind ≠ [] := by
      obtain ⟨ts, hts, hh⟩ := hfirst
      exact live_list A.hC A.hW ts _ hts s' q (d+1) b pr _ hi' hpr rfl
        (fun h => by obtain ⟨h1, h2⟩ := haug h; exact ⟨h1, h2⟩) hh
    obtain ⟨hu, hhu, hus, huF⟩ := (A.done i (by omega)).subOk s u hsu
    -- the full chain is a K-chain of level j
    have hchain := hpush.chain
    have hk : KChain env j (tok j).kind g (subs j) u p pr' P s' := by
      refine ⟨⟨hu, hhu, by rw [hus]; exact hi0, by rw [hus]; exact hgoto⟩, hpr', hpaug, by omega,
        ⟨v, by rw [hPl]; simpa using hchain, ⟨sv, hsv⟩⟩, ?_, hlive⟩
      -- nullable tail from every level-j head on
      intro c hc w hw hcw hhw hF Y hY
      have hnull := hpush.rest_nullable hcs c w hw _ hc hcw hhw hF (by
        intro hz; subst hz
        have : u = w := hcw.2
        subst this
        rw [hhu] at hhw; injection hhw with hhw; subst hhw
        have : i = j := by omega
        subst this
        have := hy; simpa [Tree.yield, kindsOf_self] using this)
      exact hnull Y hY
    -- the closure of level j covers the chain
    obtain ⟨hA, e, ed, nC, spn, ln, C, c1, c2, c3, c4, c5, c6, c7⟩ := (A.done j hjn).closed u p pr' P s' hk
    simp only at c1 c2 c6
    -- the covering children list is a prefix of the (full) chain and ends on level j
    obtain ⟨ha, hd', hha, _, _, hposs⟩ := (A.hg.edges e ed c2).ends
    obtain ⟨nd, hnd, hfit⟩ := hposs nC c5
    rw [c6] at hnd; injection hnd with hnd; subst hnd
    obtain ⟨prC, hprC, _, hClen, _, hCch⟩ := hfit
    rw [hpr'] at hprC; injection hprC with hprC; subst hprC
    have hCP : C <+: P := by
      rcases c7 with h | h
      · exact h
      · have h1 := h.length_le
        have h2 : P.length = C.length := by omega
        rw [h.eq_of_length h2]
        exact List.prefix_refl C
    have hCeq : P.take C.length = C := by
      obtain ⟨t, ht⟩ := hCP; rw [← ht]; simp
    obtain ⟨w, hw, hcw, hhw, hwF⟩ := ChildrenOk.toChain hCch
    obtain ⟨hAhd, hhAhd, _, hAF⟩ := (A.done j hjn).subOk s' hA (sfGet_mem c1)
    rw [c3, hhAhd] at hha; injection hha with hha; subst hha
    obtain ⟨heq, hall⟩ := hpush.cut C.length w hw _ (hCP.length_le) (by rw [hCeq, ← c4]; exact hcw) hhw
      (by rw [hwF, hAF]) (by
        intro hz
        have hCnil : C = [] := List.eq_nil_of_length_eq_zero hz
        subst hCnil
        have : u = w := by rw [← c4]; exact hcw.2
        subst this
        rw [hhu] at hhw; injection hhw with hhw; subst hhw
        have : i = j := by omega
        subst this
        have := hy; simpa [Tree.yield, kindsOf_self] using this)
    rw [hCeq] at hall
    obtain ⟨K, hK⟩ := all2_uniform hall
    refine ⟨s', hA, e, ed, nC, K + 1, .node p spn none (TreeList.ofList (trs.take C.length)), htr, sfGet_mem c1, hi',
      c2, c3, c4, c5, inU_nonterm c6 hK, ?_⟩
    simp only [Tree.EqElide]
    exact ⟨trivial, heq⟩
theorem push_list_gss {env : Env} {g : Gss} {tok : Nat → Tok} {n : Nat} {subs : Nat → SubFrontier}
    (A : AllDone env g tok n subs) :
    ∀ (cs : TreeList) (Xs : List Nat), cs.Valid env.g Xs → ∀ (i j : Nat), i ≤ j → j ≤ n →
      cs.yield = kindsOf tok i j → ∀ (s u p d : Nat) (pr : Prod), (s, u) ∈ subs i →
        env.t.hasItemLA s p d (tok j).kind → env.g.prods[p]? = some pr → pr.rhs.drop d = Xs →
        env.g.isAug p = false →
        ∃ (P : List Nat) (trs : List Tree) (sv v : Nat), Pushed env g j cs Xs u P trs v ∧ (sv, v) ∈ subs j ∧
          env.t.hasItemLA sv p (d + Xs.length) (tok j).kind
  | .nil, Xs, hv, i, j, hij, hjn, hy, s, u, p, d, pr, hsu, hi, hpr, hdrop, haug => by
    simp only [TreeList.Valid] at hv
    subst hv
    have : i = j := by
      have := congrArg List.length hy
      simp [TreeList.yield, kindsOf_length] at this
      omega
    subst this
    exact ⟨[], [], s, u, ⟨rfl, rfl, rfl, rfl⟩, hsu, by simpa using hi⟩
  | .cons c cs, Xs, hv, i, j, hij, hjn, hy, s, u, p, d, pr, hsu, hi, hpr, hdrop, haug => by
    obtain ⟨Y, Xs', rfl, hvc, hvcs⟩ := hv
    simp only [TreeList.yield] at hy
    obtain ⟨i', h1, h2, hy1, hy2⟩ := kindsOf_split hij hy
    have hY : pr.rhs[d]? = some Y := by
      have := congrArg List.head? hdrop
      simpa [List.head?_drop] using this
    have hdrop' : pr.rhs.drop (d+1) = Xs' := by
      have := congrArg List.tail hdrop
      simpa [List.tail_drop] using this
    have hfirst : FirstOf env.g (pr.rhs.drop (d+1)) (tok j).kind (tok i').kind := by
      refine ⟨cs, hdrop' ▸ hvcs, ?_⟩
      rw [hy2]
      exact kindsOf_head h2 _ rfl
    obtain ⟨s1, v1, e, ed, m, k, tr, htr, hin1, hi1, he, hsrc, hdst, hm, hinu, heq⟩ :=
      push_tree_gss A c Y hvc i i' h1 (by omega) hy1 s u p d (tok j).kind pr hsu hi hpr hY hfirst
        (fun h => by rw [haug] at h; simp at h)
    obtain ⟨P', trs', sv, v, hpush, hsv, hiv⟩ :=
      push_list_gss A cs Xs' hvcs i' j h2 hjn hy2 s1 v1 p (d+1) pr hin1 hi1 hpr hdrop' haug
    obtain ⟨hv1, hhv1, hv1s, hv1F⟩ := (A.done i' (by omega)).subOk s1 v1 hin1
    refine ⟨e :: P', tr :: trs', sv, v, ?_, hsv, by
      simp only [List.length_cons]
      rw [show d + (Xs'.length + 1) = d + 1 + Xs'.length by omega]; exact hiv⟩
    refine ⟨Y, Xs', e, P', tr, trs', ed, hv1, m, k, rfl, rfl, rfl, he, by rw [hsrc]; exact hhv1, hdst, ?_, hm, hinu, heq, ?_,
      by rw [hsrc]; exact hpush⟩
    · rw [hv1s]; exact A.hT.sym _ _ _ htr
    · intro hF
      have : i' = j := by omega
      subst this
      rw [hy2, kindsOf_self]
end

end Rustemo.Glr
