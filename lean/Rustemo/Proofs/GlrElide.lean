import Rustemo.Proofs.GlrCert
/-!
# Derivation trees modulo elision of right-nulled tails

The RNGLR engine reduces by `A → α β` as soon as `α` is on the stack when every symbol of `β` derives the
empty string; the node it builds has children for `α` only.  `Tree.ValidElided g tr X` says exactly that of
every node of `tr` (compare `tools/treeparse.py::valid_elided`): the children derive a prefix of the
production's right-hand side and the missing tail is nullable.  `complete_elided`: such a tree is a full
derivation tree of the same symbol with the same yield from which sub-trees with empty yield were cut at the
right end of some nodes (`ElidedFrom`), so it stands for a derivation of the same token string.
-/
namespace Rustemo

mutual
def Tree.ValidElided (g : Grammar) : Tree → Nat → Prop
  | .leaf a _ _ _, X => a = X ∧ a < g.nterms
  | .node p _ _ cs, X => ∃ pr, g.prods[p]? = some pr ∧ pr.lhs = X ∧ TreeList.ValidElided g cs pr.rhs
def TreeList.ValidElided (g : Grammar) : TreeList → List Nat → Prop
  | .nil, Xs => ∀ X ∈ Xs, Nullable g X
  | .cons t ts, Xs => ∃ X Xs', Xs = X :: Xs' ∧ Tree.ValidElided g t X ∧ TreeList.ValidElided g ts Xs'
end

/- `full.ElidedFrom tr`: `tr` is `full` with, at some nodes, a suffix of children of empty yield removed;
   everything that is kept is kept unchanged (production, span, layout, leaves). -/
mutual
def Tree.ElidedFrom : Tree → Tree → Prop
  | .leaf a sp v l, e => e = .leaf a sp v l
  | .node p sp l cs, e =>
    match e with
    | .node p' sp' l' cs' => p = p' ∧ sp = sp' ∧ l = l' ∧ TreeList.ElidedFrom cs cs'
    | .leaf _ _ _ _ => False
def TreeList.ElidedFrom : TreeList → TreeList → Prop
  | .nil, e => e = .nil
  | .cons t ts, e =>
    match e with
    | .nil => t.yield ++ ts.yield = []
    | .cons t' ts' => Tree.ElidedFrom t t' ∧ TreeList.ElidedFrom ts ts'
end

theorem TreeList.elidedFrom_nil : ∀ (full : TreeList), full.yield = [] → full.ElidedFrom .nil
  | .nil, _ => by simp [TreeList.ElidedFrom]
  | .cons t ts, h => by simpa [TreeList.ElidedFrom, TreeList.yield] using h

/- a full derivation tree is valid modulo elision (nothing elided) -/
mutual
theorem Tree.valid_validElided (g : Grammar) : ∀ (t : Tree) (X : Nat), t.Valid g X → t.ValidElided g X
  | .leaf a sp v l, X, h => by simpa [Tree.Valid, Tree.ValidElided] using h
  | .node p sp l cs, X, h => by
    simp only [Tree.Valid] at h
    obtain ⟨pr, hpr, hl, hcs⟩ := h
    simp only [Tree.ValidElided]
    exact ⟨pr, hpr, hl, TreeList.valid_validElided g cs _ hcs⟩
theorem TreeList.valid_validElided (g : Grammar) : ∀ (ts : TreeList) (Xs : List Nat), ts.Valid g Xs → ts.ValidElided g Xs
  | .nil, Xs, h => by
    simp only [TreeList.Valid] at h
    subst h
    simp [TreeList.ValidElided]
  | .cons t ts, Xs, h => by
    simp only [TreeList.Valid] at h
    obtain ⟨X, Xs', rfl, ht, hts⟩ := h
    simp only [TreeList.ValidElided]
    exact ⟨X, Xs', rfl, Tree.valid_validElided g t _ ht, TreeList.valid_validElided g ts _ hts⟩
end

/- **Completion.** A tree valid modulo elision is the elision of a full derivation tree of the same symbol
    with the same yield. -/
mutual
theorem Tree.complete_elided (g : Grammar) : ∀ (tr : Tree) (X : Nat), tr.ValidElided g X →
      ∃ full : Tree, full.Valid g X ∧ full.yield = tr.yield ∧ full.ElidedFrom tr
  | .leaf a sp v l, X, h =>
    ⟨.leaf a sp v l, by simpa [Tree.Valid, Tree.ValidElided] using h, rfl, by simp [Tree.ElidedFrom]⟩
  | .node p sp l cs, X, h => by
    simp only [Tree.ValidElided] at h
    obtain ⟨pr, hpr, hl, hcs⟩ := h
    obtain ⟨full, hv, hy, he⟩ := TreeList.complete_elided g cs _ hcs
    refine ⟨.node p sp l full, ?_, by simp [Tree.yield, hy], by simp [Tree.ElidedFrom, he]⟩
    simp only [Tree.Valid]
    exact ⟨pr, hpr, hl, hv⟩
theorem TreeList.complete_elided (g : Grammar) : ∀ (cs : TreeList) (Xs : List Nat), cs.ValidElided g Xs →
      ∃ full : TreeList, full.Valid g Xs ∧ full.yield = cs.yield ∧ full.ElidedFrom cs
  | .nil, Xs, h => by
    simp only [TreeList.ValidElided] at h
    obtain ⟨cs, hcs, hy⟩ := validList_nil_yield g Xs h
    exact ⟨cs, hcs, by simp [TreeList.yield, hy], TreeList.elidedFrom_nil cs hy⟩
  | .cons t ts, Xs, h => by
    simp only [TreeList.ValidElided] at h
    obtain ⟨X, Xs', rfl, ht, hts⟩ := h
    obtain ⟨ft, hvt, hyt, het⟩ := Tree.complete_elided g t _ ht
    obtain ⟨fts, hvts, hyts, hets⟩ := TreeList.complete_elided g ts _ hts
    refine ⟨.cons ft fts, ?_, by simp [TreeList.yield, hyt, hyts], by simp [TreeList.ElidedFrom, het, hets]⟩
    simp only [TreeList.Valid]
    exact ⟨X, Xs', rfl, hvt, hvts⟩
end

/- tokens at the leaves, left to right (kinds: `Tree.yield`) -/
mutual
def Tree.leafToks : Tree → List (Nat × Slice)
  | .leaf a _ v _ => [(a, v)]
  | .node _ _ _ cs => cs.leafToks
def TreeList.leafToks : TreeList → List (Nat × Slice)
  | .nil => []
  | .cons t ts => t.leafToks ++ ts.leafToks
end

end Rustemo
