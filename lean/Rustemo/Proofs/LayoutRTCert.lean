import Rustemo.Model.LayoutCert
import Rustemo.Proofs.CertSound
/-!
# Soundness of the executable parts of `LayoutCert`

`closed` ⇒ the state set contains state 0 and is closed under shift and goto; the per-offset
conditions as propositions.
-/
namespace Rustemo
open LayoutCert

/-- `ms` contains the start state of the main automaton and is closed under its transitions -/
structure Closed (g : Grammar) (t : Table) (ms : List Nat) : Prop where
  start : 0 ∈ ms
  shift : ∀ s ∈ ms, ∀ a s', Action.shift s' ∈ t.cell s a → s' ∈ ms
  goto : ∀ s ∈ ms, ∀ A s', t.goto g s A = some s' → s' ∈ ms

theorem mem_succs_shift {t : Table} {s a s' : Nat} (h : Action.shift s' ∈ t.cell s a) :
    s' ∈ succs t s := by
  obtain ⟨st, hst, hm⟩ := mem_cell h
  unfold succs
  rw [hst]
  simp only [List.mem_append, List.mem_flatMap, List.mem_filterMap]
  left
  have hlt : a < st.actions.size := by
    rcases Nat.lt_or_ge a st.actions.size with h' | h'
    · exact h'
    · exfalso
      have : st.actions.getD a [] = [] := by simp [Array.getD]; omega
      rw [this] at hm; simp at hm
  refine ⟨st.actions[a], by simp, Action.shift s', ?_, rfl⟩
  have : st.actions.getD a [] = st.actions[a] := by simp [Array.getD, hlt]
  rw [← this]; exact hm

theorem mem_succs_goto {t : Table} {g : Grammar} {s A s' : Nat} (h : t.goto g s A = some s') :
    s' ∈ succs t s := by
  obtain ⟨_, st, hst, hm⟩ := goto_spec h
  unfold succs
  rw [hst]
  simp only [List.mem_append, List.mem_filterMap]
  right
  have hlt : A - g.nterms < st.gotos.size := by
    rcases Nat.lt_or_ge (A - g.nterms) st.gotos.size with h' | h'
    · exact h'
    · exfalso
      have : st.gotos.getD (A - g.nterms) none = none := by simp [Array.getD]; omega
      rw [this] at hm; simp at hm
  refine ⟨some s', ?_, rfl⟩
  have : st.gotos.getD (A - g.nterms) none = st.gotos[A - g.nterms] := by simp [Array.getD, hlt]
  rw [this] at hm
  rw [← hm]; simp

theorem closed_sound (g : Grammar) (t : Table) (ms : List Nat) (h : closed t ms = true) :
    Closed g t ms := by
  unfold closed at h
  simp only [Bool.and_eq_true, List.all_eq_true, List.contains_iff_mem] at h
  obtain ⟨h0, hcl⟩ := h
  exact ⟨h0, fun s hs a s' hm => hcl s hs s' (mem_succs_shift hm),
    fun s hs A s' hm => hcl s hs s' (mem_succs_goto hm)⟩

theorem mem_offsets (env : Env) (p : Nat) (h : p ≤ env.input.length) : p ∈ offsets env := by
  unfold offsets; simp; omega

/-- the three per-offset conditions, as propositions over every offset of the input -/
structure Conds (env : Env) (ls fuel : Nat) (ms : List Nat) : Prop where
  notToken : ∀ p ≤ env.input.length, ∀ s ∈ ms,
      (pickToken env.longest (tokenIter env (posAt env.input p) (env.t.sorted s))).isSome = true →
      consumes env ls fuel p = false
  idempotent : ∀ p ≤ env.input.length, ∀ q, scan env ls fuel p = .ok q → consumes env ls fuel q = false
  failStays : ∀ p ≤ env.input.length, ∀ q, scan env ls fuel p = .fail q → q = p

theorem consumes_ok_self (env : Env) (ls fuel p : Nat) (h : scan env ls fuel p = .ok p) :
    consumes env ls fuel p = false := by
  unfold consumes; rw [h]; simp

theorem consumes_false_ok (env : Env) (ls fuel p q : Nat) (h : scan env ls fuel p = .ok q)
    (hc : consumes env ls fuel p = false) : q = p := by
  unfold consumes at hc; rw [h] at hc; simpa using hc

theorem consumes_fail (env : Env) (ls fuel p q : Nat) (h : scan env ls fuel p = .fail q) :
    consumes env ls fuel p = false := by
  unfold consumes; rw [h]

theorem conds_sound (env : Env) (ls fuel : Nat)
    (h1 : LayoutCert.notToken env ls fuel = true) (h2 : LayoutCert.idempotent env ls fuel = true)
    (h3 : LayoutCert.failStays env ls fuel = true) : Conds env ls fuel (mainStates env.t) := by
  unfold LayoutCert.notToken at h1
  unfold LayoutCert.idempotent at h2
  unfold LayoutCert.failStays at h3
  rw [List.all_eq_true] at h1 h2 h3
  refine ⟨?_, ?_, ?_⟩
  · intro p hp s hs htok
    have := h1 p (mem_offsets env p hp)
    unfold notTokenAt at this
    cases hcs : consumes env ls fuel p with
    | false => rfl
    | true =>
      exfalso
      rw [hcs] at this
      have hta : tokenAt env (mainStates env.t) p = true := by
        unfold tokenAt
        rw [List.any_eq_true]
        exact ⟨s, hs, htok⟩
      rw [hta] at this
      simp at this
  · intro p hp q hq
    have := h2 p (mem_offsets env p hp)
    unfold idempotentAt at this
    rw [hq] at this
    by_cases hqp : q = p
    · subst hqp; exact consumes_ok_self env ls fuel q hq
    · cases hcs : consumes env ls fuel q with
      | false => rfl
      | true =>
        simp only at this
        rw [hcs] at this
        simp [hqp] at this
  · intro p hp q hq
    have := h3 p (mem_offsets env p hp)
    unfold failStaysAt at this
    rw [hq] at this
    simpa using this

theorem autoOk_sound (g : Grammar) (t : Table) (ls : Nat) (h : autoOk g t ls = true) :
    ∃ au ∈ autosOf g t, ls = au.start ∧ g.nterms ≤ au.sym := by
  unfold autoOk at h
  rw [List.any_eq_true] at h
  obtain ⟨au, hin, hau⟩ := h
  simp only [Bool.and_eq_true, beq_iff_eq, decide_eq_true_eq] at hau
  exact ⟨au, hin, hau.1.symm, hau.2⟩

end Rustemo
