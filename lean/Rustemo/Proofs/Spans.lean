import Rustemo.Proofs.Pos
import Rustemo.Proofs.Refine
/-!
# Spans of the trees built by the LR parser model

Invariant `SInv`: every position the parser keeps is `posOf input offset`, every tree on the result
stack satisfies `Tree.SpanOk` (token value = the input slice at its span; nonterminal span = start of
first child … end of last child; empty nonterminal zero-width), and the span stored with each stack
entry is the span of the corresponding tree.  Preserved by every step, for any "next token"
function that returns well-positioned tokens (`NtOk`).
-/
namespace Rustemo

def PosOk (input : List Nat) (p : Pos) : Prop := p = posOf input p.pos ∧ p.pos ≤ input.length

def Tree.span : Tree → Span
  | .leaf _ sp _ _ => sp
  | .node _ sp _ _ => sp

/-- span of a nonterminal node w.r.t. its children -/
def NodeSpan (sp : Span) (cs : List Tree) : Prop :=
  (∀ f l, cs.head? = some f → cs.getLast? = some l → sp.s = f.span.s ∧ sp.e = l.span.e) ∧
  (cs = [] → sp.s = sp.e)

mutual
def Tree.SpanOk (input : List Nat) : Tree → Prop
  | .leaf _ sp v _ => PosOk input sp.s ∧ PosOk input sp.e ∧ sp.s.pos = v.1 ∧ sp.e.pos = v.1 + v.2
  | .node _ sp _ cs => PosOk input sp.s ∧ PosOk input sp.e ∧ TreeList.SpanOk input cs ∧ NodeSpan sp cs.toList
def TreeList.SpanOk (input : List Nat) : TreeList → Prop
  | .nil => True
  | .cons t ts => Tree.SpanOk input t ∧ TreeList.SpanOk input ts
end

theorem Tree.SpanOk.pos {input : List Nat} : ∀ {t : Tree}, t.SpanOk input →
    PosOk input t.span.s ∧ PosOk input t.span.e
  | .leaf _ _ _ _, h => ⟨h.1, h.2.1⟩
  | .node _ _ _ _, h => ⟨h.1, h.2.1⟩

theorem spanOk_ofList (input : List Nat) (l : List Tree) (h : ∀ t ∈ l, t.SpanOk input) :
    (TreeList.ofList l).SpanOk input := by
  induction l with
  | nil => simp [TreeList.ofList, TreeList.SpanOk]
  | cons t ts ih =>
    simp only [TreeList.ofList, TreeList.SpanOk]
    exact ⟨h t (by simp), ih (fun x hx => h x (by simp [hx]))⟩

@[simp] theorem toList_ofList (l : List Tree) : (TreeList.ofList l).toList = l := by
  induction l with
  | nil => rfl
  | cons t ts ih => simp [TreeList.ofList, TreeList.toList, ih]

def CtxOk (input : List Nat) (ctx : Ctx) : Prop :=
  PosOk input ctx.pos ∧ PosOk input ctx.span.s ∧ PosOk input ctx.span.e

/-- a token delivered at the context's position, inside the input, with its span computed from it;
    the zero-width STOP of partial parsing carries the context span instead and is never shifted -/
def TokOk (input : List Nat) (ctx : Ctx) (tk : Tok) : Prop :=
  tk.kind = 0 ∨ (tk.val.1 = ctx.pos.pos ∧ tk.val.1 + tk.val.2 ≤ input.length ∧
    tk.span = ⟨ctx.pos, posOf input (tk.val.1 + tk.val.2)⟩)

def NtOk (input : List Nat) (nt : Ctx → Ctx × Outcome Tok) : Prop :=
  ∀ ctx ctx' o, CtxOk input ctx → nt ctx = (ctx', o) →
    CtxOk input ctx' ∧ ∀ tk, o = .ok tk → TokOk input ctx' tk

def NoShiftStop (t : Table) : Prop := ∀ s s', Action.shift s' ∉ t.cell s 0

structure SInv (input : List Nat) (c : Cfg) : Prop where
  len : c.stack.length = c.res.length + 1
  ctx : CtxOk input c.ctx
  trees : ∀ t ∈ c.res, t.SpanOk input
  align : (c.stack.take c.res.length).map (·.span) = c.res.map Tree.span
  tok : TokOk input c.ctx c.tok

theorem liftTok_next_ctx {hist : List Tok} {stack : List StackItem} {res : List Tree}
    {slice : Option Slice} {r : Ctx × Outcome Tok} {k : Option (Option Slice × Nat)} {c' : Cfg}
    (h : liftTok hist stack res slice r k = .next c') :
    ∃ ctx1 tk, r = (ctx1, .ok tk) ∧ c'.tok = tk ∧ c'.ctx.pos = ctx1.pos ∧ c'.ctx.span = ctx1.span ∧
      c'.ctx.state = ctx1.state := by
  unfold liftTok at h
  split at h
  · rename_i ctx1 tk
    injection h with h; subst h
    refine ⟨ctx1, tk, rfl, rfl, ?_⟩
    cases k <;> simp
  all_goals simp at h

theorem ctxOk_of_eq {input : List Nat} {a b : Ctx} (hp : a.pos = b.pos) (hs : a.span = b.span)
    (h : CtxOk input b) : CtxOk input a := by
  unfold CtxOk at *; rw [hp, hs]; exact h

theorem tokOk_of_eq {input : List Nat} {a b : Ctx} {tk : Tok} (hp : a.pos = b.pos)
    (h : TokOk input b tk) : TokOk input a tk := by
  unfold TokOk at *; rw [hp]; exact h

theorem map_span_take {stack : List StackItem} {res : List Tree} {n : Nat}
    (h : (stack.take res.length).map (·.span) = res.map Tree.span) (hn : n ≤ res.length) :
    (stack.take n).map (·.span) = (res.take n).map Tree.span := by
  have := congrArg (List.take n) h
  rw [← List.map_take, ← List.map_take, List.take_take, Nat.min_eq_left hn] at this
  exact this

theorem map_span_drop {stack : List StackItem} {res : List Tree} {n : Nat}
    (h : (stack.take res.length).map (·.span) = res.map Tree.span) (hn : n ≤ res.length) :
    ((stack.drop n).take (res.drop n).length).map (·.span) = (res.drop n).map Tree.span := by
  have := congrArg (List.drop n) h
  rw [← List.map_drop, ← List.map_drop, List.drop_take] at this
  simpa [List.length_drop] using this

/-- one iteration of the parser loop preserves the span invariant -/
theorem step_spans (env : Env) (nt : Ctx → Ctx × Outcome Tok) (c c' : Cfg)
    (hnt : NtOk env.input nt) (hns : NoShiftStop env.t)
    (hinv : SInv env.input c) (hstep : step env nt c = .next c') : SInv env.input c' := by
  unfold step at hstep
  simp only at hstep
  split at hstep
  · simp at hstep
  · rename_i state hstate
    split at hstep
    · simp at hstep
    · rename_i act acts hcell
      split at hstep
      · -- shift
        rename_i s'
        obtain ⟨hst, hres, _, _⟩ := liftTok_next hstep
        obtain ⟨ctx1, tk, hr, htk, hpos, hspan, _⟩ := liftTok_next_ctx hstep
        have hk : c.tok.kind ≠ 0 := by
          intro h0
          apply hns state s'
          rw [← h0, hcell]; simp
        obtain ⟨hv1, hv2, hsp⟩ : c.tok.val.1 = c.ctx.pos.pos ∧ c.tok.val.1 + c.tok.val.2 ≤ env.input.length ∧
            c.tok.span = ⟨c.ctx.pos, posOf env.input (c.tok.val.1 + c.tok.val.2)⟩ := by
          rcases hinv.tok with h | h
          · exact absurd h hk
          · exact h
        obtain ⟨hcp, hcs, hce⟩ := hinv.ctx
        have hnew : posAfter (sliceOf env.input c.tok.val) c.ctx.pos =
            posOf env.input (c.tok.val.1 + c.tok.val.2) := by
          have : c.tok.val = (c.tok.val.1, c.tok.val.2) := rfl
          rw [this, hcp.1, ← hv1]
          exact posAfter_slice env.input _ _ hv2
        have hnewOk : PosOk env.input (posOf env.input (c.tok.val.1 + c.tok.val.2)) := by
          have := posOf_pos env.input _ hv2
          exact ⟨by rw [this], by rw [this]; exact hv2⟩
        have hctx0 : CtxOk env.input
            { c.ctx with span := ⟨c.ctx.pos, posAfter (sliceOf env.input c.tok.val) c.ctx.pos⟩,
                         pos := posAfter (sliceOf env.input c.tok.val) c.ctx.pos,
                         state := s', lay := none } := by
          unfold CtxOk; simp only [hnew]; exact ⟨hnewOk, hcp, hnewOk⟩
        obtain ⟨hc1, ht1'⟩ := hnt _ ctx1 _ hctx0 hr
        have ht1 := ht1' tk rfl
        refine ⟨by simp [hst, hres, hinv.len], ctxOk_of_eq hpos hspan hc1, ?_, ?_, ?_⟩
        · intro t ht
          rw [hres] at ht
          rcases List.mem_cons.mp ht with h | h
          · subst h
            simp only [Tree.SpanOk, hsp]
            refine ⟨hcp, hnewOk, hv1.symm, ?_⟩
            exact posOf_pos env.input _ hv2
          · exact hinv.trees t h
        · rw [hst, hres]
          simp only [List.length_cons, List.take_succ_cons, List.map_cons, hinv.align, Tree.span, hsp, hnew]
        · rw [htk]; exact tokOk_of_eq hpos ht1
      · -- reduce
        rename_i p len
        split at hstep
        · simp at hstep
        · rename_i hlen
          split at hstep
          · simp at hstep
          · rename_i fromState hfrom
            split at hstep
            · simp at hstep
            · rename_i pr hpr
              split at hstep
              · simp at hstep
              · rename_i s'' hgoto
                split at hstep
                · simp at hstep
                · rename_i hrlen
                  obtain ⟨hst, hres, _, _⟩ := liftTok_next hstep
                  obtain ⟨ctx1, tk, hr, htk, hpos, hspan, _⟩ := liftTok_next_ctx hstep
                  have hle : len ≤ c.res.length := by omega
                  obtain ⟨hcp, hcs, hce⟩ := hinv.ctx
                  have hctx0 : CtxOk env.input { c.ctx with span := c.ctx.span, state := s'' } :=
                    ⟨hcp, hcs, hce⟩
                  obtain ⟨hc1, ht1'⟩ := hnt _ ctx1 _ hctx0 hr
                  have ht1 := ht1' tk rfl
                  have hrem := map_span_take hinv.align hle
                  -- the reduction span
                  have hspanOk : PosOk env.input (reduceSpan (c.stack.take len) c.ctx.span).s ∧
                      PosOk env.input (reduceSpan (c.stack.take len) c.ctx.span).e ∧
                      NodeSpan (reduceSpan (c.stack.take len) c.ctx.span) (c.res.take len).reverse := by
                    unfold reduceSpan NodeSpan
                    cases hrl : (c.stack.take len).getLast? with
                    | none =>
                      have hnil : c.stack.take len = [] := List.getLast?_eq_none_iff.mp hrl
                      have hrnil : c.res.take len = [] := by
                        have := congrArg List.length hrem
                        simp only [hnil, List.map_nil, List.length_nil, List.length_map] at this
                        exact List.eq_nil_of_length_eq_zero this.symm
                      simp only [hrnil, List.reverse_nil, List.head?_nil]
                      exact ⟨hce, hce, by intro f l h; simp at h, by simp⟩
                    | some first =>
                      cases hrh : (c.stack.take len).head? with
                      | none =>
                        have : c.stack.take len = [] := List.head?_eq_none_iff.mp hrh
                        rw [this] at hrl; simp at hrl
                      | some last =>
                        simp only
                        -- corresponding trees
                        have h1 : ((c.res.take len).map Tree.span).getLast? = some first.span := by
                          rw [← hrem, List.getLast?_map, hrl]; rfl
                        have h2 : ((c.res.take len).map Tree.span).head? = some last.span := by
                          rw [← hrem, List.head?_map, hrh]; rfl
                        rw [List.getLast?_map] at h1
                        rw [List.head?_map] at h2
                        cases hgl : (c.res.take len).getLast? with
                        | none => rw [hgl] at h1; simp at h1
                        | some tf =>
                          cases hhd : (c.res.take len).head? with
                          | none => rw [hhd] at h2; simp at h2
                          | some tl =>
                            rw [hgl] at h1; rw [hhd] at h2
                            simp only [Option.map_some, Option.some.injEq] at h1 h2
                            have htf : tf ∈ c.res := List.mem_of_mem_take (List.mem_of_getLast? hgl)
                            have htl : tl ∈ c.res := List.mem_of_mem_take (List.mem_of_head? hhd)
                            refine ⟨?_, ?_, ?_, ?_⟩
                            · rw [← h1]; exact (hinv.trees tf htf).pos.1
                            · rw [← h2]; exact (hinv.trees tl htl).pos.2
                            · intro f l hf hl
                              rw [List.head?_reverse, hgl] at hf
                              rw [List.getLast?_reverse, hhd] at hl
                              injection hf with hf; injection hl with hl
                              subst hf hl
                              exact ⟨by rw [h1], by rw [h2]⟩
                            · intro hnil
                              have : c.res.take len = [] := by simpa using hnil
                              rw [this] at hgl; simp at hgl
                  obtain ⟨hsS, hsE, hnode⟩ := hspanOk
                  refine ⟨by have := hinv.len; simp [hst, hres]; omega, ctxOk_of_eq hpos hspan hc1, ?_, ?_, ?_⟩
                  · intro t ht
                    rw [hres] at ht
                    rcases List.mem_cons.mp ht with h | h
                    · subst h
                      simp only [Tree.SpanOk, toList_ofList]
                      refine ⟨hsS, hsE, ?_, hnode⟩
                      apply spanOk_ofList
                      intro x hx
                      exact hinv.trees x (List.mem_of_mem_take (List.mem_reverse.mp hx))
                    · exact hinv.trees t (List.mem_of_mem_drop h)
                  · rw [hst, hres]
                    simp only [List.length_cons, List.take_succ_cons, List.map_cons, Tree.span]
                    rw [map_span_drop hinv.align hle]
                  · rw [htk]; exact tokOk_of_eq hpos ht1
      · -- accept
        split at hstep <;> simp at hstep


/-! ## The context the loop hands back, and the tree it returns -/

theorem liftTok_stop_ctx {hist : List Tok} {stack : List StackItem} {res : List Tree}
    {slice : Option Slice} {r : Ctx × Outcome Tok} {k : Option (Option Slice × Nat)} {ctx : Ctx}
    {o : Outcome ParseResult} (h : liftTok hist stack res slice r k = .stop ctx o) :
    ∃ o', r = (ctx, o') := by
  unfold liftTok at h
  split at h
  · simp at h
  all_goals (injection h with h1 _; subst h1; exact ⟨_, rfl⟩)

theorem step_stop_ctx (env : Env) (nt : Ctx → Ctx × Outcome Tok) (c : Cfg) (ctx : Ctx)
    (o : Outcome ParseResult) (hnt : NtOk env.input nt) (hns : NoShiftStop env.t)
    (hinv : SInv env.input c) (h : step env nt c = .stop ctx o) : CtxOk env.input ctx := by
  have hp : ∀ (m : Outcome ParseResult), StepOut.stop c.ctx m = StepOut.stop ctx o → CtxOk env.input ctx := by
    intro m h; injection h with h1 _; rw [← h1]; exact hinv.ctx
  obtain ⟨hcp, hcs, hce⟩ := hinv.ctx
  unfold step at h
  simp only at h
  split at h
  · exact hp _ h
  · rename_i state hstate
    split at h
    · exact hp _ h
    · rename_i act acts hcell
      split at h
      · rename_i s'
        obtain ⟨o', hr⟩ := liftTok_stop_ctx h
        have hk : c.tok.kind ≠ 0 := by
          intro h0; apply hns state s'; rw [← h0, hcell]; simp
        obtain ⟨hv1, hv2, hsp⟩ : c.tok.val.1 = c.ctx.pos.pos ∧ c.tok.val.1 + c.tok.val.2 ≤ env.input.length ∧
            c.tok.span = ⟨c.ctx.pos, posOf env.input (c.tok.val.1 + c.tok.val.2)⟩ := by
          rcases hinv.tok with h | h
          · exact absurd h hk
          · exact h
        have hnew : posAfter (sliceOf env.input c.tok.val) c.ctx.pos =
            posOf env.input (c.tok.val.1 + c.tok.val.2) := by
          have : c.tok.val = (c.tok.val.1, c.tok.val.2) := rfl
          rw [this, hcp.1, ← hv1]
          exact posAfter_slice env.input _ _ hv2
        have hnewOk : PosOk env.input (posOf env.input (c.tok.val.1 + c.tok.val.2)) := by
          have := posOf_pos env.input _ hv2
          exact ⟨by rw [this], by rw [this]; exact hv2⟩
        refine (hnt _ ctx _ ?_ hr).1
        unfold CtxOk; simp only [hnew]; exact ⟨hnewOk, hcp, hnewOk⟩
      · split at h
        · exact hp _ h
        · split at h
          · exact hp _ h
          · split at h
            · exact hp _ h
            · split at h
              · exact hp _ h
              · split at h
                · exact hp _ h
                · obtain ⟨o', hr⟩ := liftTok_stop_ctx h
                  refine (hnt _ ctx _ ?_ hr).1
                  exact ⟨hcp, hcs, hce⟩
      · split at h
        · exact hp _ h
        · simp at h

theorem step_done_spans (env : Env) (nt : Ctx → Ctx × Outcome Tok) (c : Cfg) (ctx : Ctx)
    (r : ParseResult) (hinv : SInv env.input c) (h : step env nt c = .done ctx r) :
    CtxOk env.input ctx ∧ r.tree.SpanOk env.input := by
  unfold step at h
  simp only at h
  split at h
  · simp at h
  · split at h
    · simp at h
    · split at h
      · exact absurd h liftTok_not_done
      · split at h
        · simp at h
        · split at h
          · simp at h
          · split at h
            · simp at h
            · split at h
              · simp at h
              · split at h
                · simp at h
                · exact absurd h liftTok_not_done
      · split at h
        · simp at h
        · rename_i tr rest hres
          injection h with h1 h2
          subst h1 h2
          exact ⟨hinv.ctx, hinv.trees tr (by rw [hres]; simp)⟩

theorem liftTok_stop_not_ok' {hist : List Tok} {stack : List StackItem} {res : List Tree}
    {slice : Option Slice} {r : Ctx × Outcome Tok} {k : Option (Option Slice × Nat)} {ctx : Ctx}
    {o : Outcome ParseResult} (h : liftTok hist stack res slice r k = .stop ctx o) :
    ∀ pr, o ≠ .ok pr := by
  unfold liftTok at h
  split at h
  · simp at h
  all_goals (injection h with _ h2; subst h2; intro pr; simp)

theorem step_stop_not_ok' (env : Env) (nt : Ctx → Ctx × Outcome Tok) (c : Cfg) (ctx : Ctx)
    (o : Outcome ParseResult) (h : step env nt c = .stop ctx o) : ∀ pr, o ≠ .ok pr := by
  have hp : ∀ (cx : Ctx) (m : Outcome ParseResult), (∀ pr, m ≠ .ok pr) →
      StepOut.stop cx m = StepOut.stop ctx o → ∀ pr, o ≠ .ok pr := by
    intro cx m hm h; injection h with _ h2; subst h2; exact hm
  unfold step at h
  simp only at h
  split at h
  · exact hp _ _ (by simp) h
  · split at h
    · exact hp _ _ (by simp) h
    · split at h
      · exact liftTok_stop_not_ok' h
      · split at h
        · exact hp _ _ (by simp) h
        · split at h
          · exact hp _ _ (by simp) h
          · split at h
            · exact hp _ _ (by simp) h
            · split at h
              · exact hp _ _ (by simp) h
              · split at h
                · exact hp _ _ (by simp) h
                · exact liftTok_stop_not_ok' h
      · split at h
        · exact hp _ _ (by simp) h
        · simp at h

theorem runLoop_spans (env : Env) (nt : Ctx → Ctx × Outcome Tok)
    (hnt : NtOk env.input nt) (hns : NoShiftStop env.t) :
    ∀ (fuel : Nat) (c : Cfg) (ctx : Ctx) (o : Outcome ParseResult),
      SInv env.input c → runLoop env nt fuel c = (ctx, o) →
      CtxOk env.input ctx ∧ ∀ r, o = .ok r → r.tree.SpanOk env.input := by
  intro fuel
  induction fuel with
  | zero =>
    intro c ctx o hinv h
    simp only [runLoop] at h
    injection h with h1 h2
    subst h1 h2
    exact ⟨hinv.ctx, by intro r hr; simp at hr⟩
  | succ n ih =>
    intro c ctx o hinv h
    unfold runLoop at h
    split at h
    · rename_i c' hstep
      exact ih c' ctx o (step_spans env nt c c' hnt hns hinv hstep) h
    · rename_i ctx' r' hstep
      injection h with h1 h2
      subst h1 h2
      obtain ⟨hc, ht⟩ := step_done_spans env nt c ctx' r' hinv hstep
      exact ⟨hc, by intro r hr; injection hr with hr; subst hr; exact ht⟩
    · rename_i ctx' o' hstep
      injection h with h1 h2
      subst h1 h2
      refine ⟨step_stop_ctx env nt c ctx' o' hnt hns hinv hstep, ?_⟩
      intro r hr
      exact absurd hr (step_stop_not_ok' env nt c ctx' o' hstep r)

theorem parseWith_spans (env : Env) (nt : Ctx → Ctx × Outcome Tok)
    (hnt : NtOk env.input nt) (hns : NoShiftStop env.t) (start : Nat) (ctx0 : Ctx) (fuel : Nat)
    (ctx : Ctx) (o : Outcome ParseResult) (h0 : CtxOk env.input ctx0)
    (h : parseWith env nt start ctx0 fuel = (ctx, o)) :
    CtxOk env.input ctx ∧ ∀ r, o = .ok r → r.tree.SpanOk env.input := by
  unfold parseWith at h
  simp only at h
  split at h
  · rename_i ctx1 tk hnt1
    obtain ⟨hc1, ht1⟩ := hnt _ _ _ h0 hnt1
    refine runLoop_spans env nt hnt hns fuel _ ctx o ?_ h
    exact ⟨by simp, hc1, by simp, by simp, ht1 tk rfl⟩
  all_goals
    rename_i ctx1 _ hnt1
    injection h with h1 h2
    subst h1 h2
    exact ⟨(hnt _ _ _ h0 hnt1).1, by intro r hr; simp at hr⟩

end Rustemo
