import Rustemo.Proofs.AstShapes
import Rustemo.Proofs.AstSkel
import Rustemo.Proofs.AstDfs
import Rustemo.Proofs.AstStack
import Rustemo.Proofs.AstBool
/-!
# Concrete instances used by Props/C10.lean and Props/C11.lean (non-vacuity, counterexamples)
-/
namespace Rustemo.Ast

def cs (n : String) (l : Option String := none) : RSym := { name := n, isTerm := true, content := true, label := l }
def kw (n : String) : RSym := { name := n, isTerm := true, content := false, label := none }
def ns (n : String) (l : Option String := none) : RSym := { name := n, isTerm := false, content := true, label := l }

/-- `S: KA L R; @vec L: L Num | Num; @vec R: Id R | Id;` (witness of F7) -/
def gVec (rn : Bool) : AGrammar :=
  { loc := false, rn := rn, start := "S",
    terms := [⟨"KA", false, true⟩, ⟨"Num", true, true⟩, ⟨"Id", true, true⟩],
    nts := [⟨"S", true, false⟩, ⟨"L", true, true⟩, ⟨"R", true, true⟩],
    prods := [ ⟨"S", none, 3, [kw "KA", ns "L", ns "R"]⟩,
               ⟨"L", none, 2, [ns "L", cs "Num"]⟩, ⟨"L", none, 1, [cs "Num"]⟩,
               ⟨"R", none, 2, [cs "Id", ns "R"]⟩, ⟨"R", none, 1, [cs "Id"]⟩ ] }

/-- only the left-recursive part -/
def gVecL : AGrammar :=
  { loc := false, rn := false, start := "S",
    terms := [⟨"KA", false, true⟩, ⟨"Num", true, true⟩],
    nts := [⟨"S", true, false⟩, ⟨"L", true, true⟩],
    prods := [ ⟨"S", none, 2, [kw "KA", ns "L"]⟩,
               ⟨"L", none, 2, [ns "L", cs "Num"]⟩, ⟨"L", none, 1, [cs "Num"]⟩ ] }

def typesOf (fx : Fixes) (g : AGrammar) : List SymType := (symbolTypes fx g).getD []

/-- types / shapes / skeleton of /repo as it is now, and of the code before the repairs -/
abbrev typesNow (g : AGrammar) : List SymType := typesOf .repo g
abbrev typesWas (g : AGrammar) : List SymType := typesOf .asWas g
abbrev shapesNow (g : AGrammar) : Shapes := shapesFor .repo g (typesNow g)
abbrev shapesWas (g : AGrammar) : Shapes := shapesFor .asWas g (typesWas g)
abbrev skelNow (g : AGrammar) : Skel := skeleton .repo g (typesNow g)
abbrev skelWas (g : AGrammar) : Skel := skeleton .asWas g (typesWas g)

/-- parse tree of `KA 1 2 a b` -/
def tVec : PTree :=
  .node 0 [.leaf 1 "KA", .node 1 [.node 2 [.leaf 2 "1"], .leaf 2 "2"], .node 3 [.leaf 3 "a", .node 4 [.leaf 3 "b"]]]

/-- parse tree of `KA 1 2 3` -/
def tVecL : PTree :=
  .node 0 [.leaf 1 "KA", .node 1 [.node 1 [.node 2 [.leaf 2 "1"], .leaf 2 "2"], .leaf 2 "3"]]

/-- `S: Num A; A: B T; B: Num | EMPTY; T: Id | EMPTY;` (witness of F12), right-nulled lengths of GLR -/
def gTail (rn : Bool) : AGrammar :=
  { loc := false, rn := rn, start := "S",
    terms := [⟨"Num", true, true⟩, ⟨"Id", true, true⟩],
    nts := [⟨"S", true, false⟩, ⟨"A", true, false⟩, ⟨"B", true, false⟩, ⟨"T", true, false⟩],
    prods := [ ⟨"S", none, if rn then 1 else 2, [cs "Num", ns "A"]⟩,
               ⟨"A", none, if rn then 0 else 2, [ns "B", ns "T"]⟩,
               ⟨"B", none, 1, [cs "Num"]⟩, ⟨"B", none, 0, []⟩,
               ⟨"T", none, 1, [cs "Id"]⟩, ⟨"T", none, 0, []⟩ ] }

/-- `S: Num A; A: Id | EMPTY;` : the right-nulled tail IS an Option -/
def gOptTail (rn : Bool) : AGrammar :=
  { loc := false, rn := rn, start := "S",
    terms := [⟨"Num", true, true⟩, ⟨"Id", true, true⟩],
    nts := [⟨"S", true, false⟩, ⟨"A", true, false⟩],
    prods := [ ⟨"S", none, if rn then 1 else 2, [cs "Num", ns "A"]⟩,
               ⟨"A", none, 1, [cs "Id"]⟩, ⟨"A", none, 0, []⟩ ] }

/-- GLR tree of `7` for `gOptTail`: `A` is right-nulled (the S node has ONE child) -/
def tNulled : PTree := .node 0 [.leaf 1 "7"]

/-- `E: left=E KA right=E {Add} | KB A KB; A: E | Num;` recursive types -/
def gRec : AGrammar :=
  { loc := false, rn := false, start := "E",
    terms := [⟨"KA", false, true⟩, ⟨"KB", false, true⟩, ⟨"Num", true, true⟩],
    nts := [⟨"E", true, false⟩, ⟨"A", true, false⟩],
    prods := [ ⟨"E", some "Add", 3, [ns "E" (some "left"), kw "KA", ns "E" (some "right")]⟩,
               ⟨"E", none, 3, [kw "KB", ns "A", kw "KB"]⟩,
               ⟨"A", none, 1, [ns "E"]⟩, ⟨"A", none, 1, [cs "Num"]⟩ ] }

/-- F13: `A` + kind `BP1` and `AB` + `P1` both give the ProdKind `ABP1` -/
def gClash : AGrammar :=
  { loc := false, rn := false, start := "S",
    terms := [⟨"Num", true, true⟩, ⟨"Id", true, true⟩],
    nts := [⟨"S", true, false⟩, ⟨"A", true, false⟩, ⟨"AB", true, false⟩],
    prods := [ ⟨"S", none, 2, [ns "A", ns "AB"]⟩,
               ⟨"A", some "BP1", 2, [cs "Num", cs "Num"]⟩, ⟨"A", none, 1, [cs "Id"]⟩,
               ⟨"AB", none, 2, [cs "Num", cs "Id"]⟩, ⟨"AB", none, 2, [cs "Id", cs "Id"]⟩ ] }

/-- `S: KA V; @vec V: V Num | myItem=Num;` — the single-element alternative has a camelCase name -/
def gVecLabel : AGrammar :=
  { loc := false, rn := false, start := "S",
    terms := [⟨"KA", false, true⟩, ⟨"Num", true, true⟩],
    nts := [⟨"S", true, false⟩, ⟨"V", true, true⟩],
    prods := [ ⟨"S", none, 2, [kw "KA", ns "V"]⟩,
               ⟨"V", none, 2, [ns "V", cs "Num"]⟩, ⟨"V", none, 1, [cs "Num" (some "myItem")]⟩ ] }

/-- `S: KA V; @vec V: V Num | W | Num; W: KB W | Id;` — `@vec` accepted although `W` is another type -/
def gVecAlt : AGrammar :=
  { loc := false, rn := false, start := "S",
    terms := [⟨"KA", false, true⟩, ⟨"KB", false, true⟩, ⟨"Num", true, true⟩, ⟨"Id", true, true⟩],
    nts := [⟨"S", true, false⟩, ⟨"V", true, true⟩, ⟨"W", true, false⟩],
    prods := [ ⟨"S", none, 2, [kw "KA", ns "V"]⟩,
               ⟨"V", none, 2, [ns "V", cs "Num"]⟩, ⟨"V", none, 1, [ns "W"]⟩, ⟨"V", none, 1, [cs "Num"]⟩,
               ⟨"W", none, 2, [kw "KB", ns "W"]⟩, ⟨"W", none, 1, [cs "Id"]⟩ ] }

def rNeg : RSym := { name := "KA", isTerm := true, content := false, label := some "neg", isBool := true }
def pNeg : AProd := ⟨"A", none, 2, [rNeg, cs "Num" (some "n")]⟩

/-- `S: A+; A: neg?=KA n=Num | KB pos?=Id m=Num;` (the sugar written out): `?=` on a keyword and on a regex terminal -/
def gBool : AGrammar :=
  { loc := false, rn := false, start := "S",
    terms := [⟨"KA", false, true⟩, ⟨"KB", false, true⟩, ⟨"Num", true, true⟩, ⟨"Id", true, true⟩],
    nts := [⟨"S", true, false⟩, ⟨"A1", true, true⟩, ⟨"A", true, false⟩],
    prods := [ ⟨"S", none, 1, [ns "A1"]⟩,
               ⟨"A1", none, 2, [ns "A1", ns "A"]⟩, ⟨"A1", none, 1, [ns "A"]⟩,
               pNeg,
               ⟨"A", none, 3, [kw "KB", { name := "Id", isTerm := true, content := true, label := some "pos", isBool := true },
                               cs "Num" (some "m")]⟩ ] }

/-- parse tree of `KA 1 KB x 3` -/
def tBool : PTree :=
  .node 0 [.node 1 [.node 2 [.node 3 [.leaf 1 "KA", .leaf 3 "1"]], .node 4 [.leaf 2 "KB", .leaf 4 "x", .leaf 3 "3"]]]

/-- `S: C Num; C: Id Id | KA;` with `builder_loc_info` — the rule name `C` met the header alias `Context as C` -/
def gRuleC : AGrammar :=
  { loc := true, rn := false, start := "S",
    terms := [⟨"KA", false, true⟩, ⟨"Num", true, true⟩, ⟨"Id", true, true⟩],
    nts := [⟨"S", true, false⟩, ⟨"C", true, false⟩],
    prods := [ ⟨"S", none, 2, [ns "C", cs "Num"]⟩,
               ⟨"C", none, 2, [cs "Id", cs "Id"]⟩, ⟨"C", none, 1, [kw "KA"]⟩ ] }

/-- `S: KA B; B: y=Num x=A; A: B | EMPTY;` under GLR: `type A = Option<Box<B>>`, `A` right-nulled in `B` -/
def gOptBox : AGrammar :=
  { loc := false, rn := true, start := "S",
    terms := [⟨"KA", false, true⟩, ⟨"Num", true, true⟩],
    nts := [⟨"S", true, false⟩, ⟨"B", true, false⟩, ⟨"A", true, false⟩],
    prods := [ ⟨"S", none, 2, [kw "KA", ns "B"]⟩,
               ⟨"B", none, 1, [cs "Num" (some "y"), ns "A" (some "x")]⟩,
               ⟨"A", none, 1, [ns "B"]⟩, ⟨"A", none, 0, []⟩ ] }

end Rustemo.Ast
