import Rustemo.Proofs.GlrBasic
import Rustemo.Proofs.NoPanic
/-!
# Positions only move forward: the lexer, the layout parser, `find_lookaheads`

Needed for one panic site only: `create_frontier` slices the input from the head position to the start of
the first lookahead token when that start lies *behind* the position (parser.rs:288-293); tokens of the
lexers start at the position, and the partial-parse STOP token carries the span of the head, which never
starts behind the head's position.
-/
namespace Rustemo.Glr
open Rustemo

variable {A : Prop}

/-- `a ≤ b` in the derived order of `Position` -/
def posLe (a b : Pos) : Prop := posLt b a = false

theorem posLe_iff (a b : Pos) : posLe a b ↔
    ¬ (b.pos < a.pos ∨ (b.pos = a.pos ∧ (b.line < a.line ∨ (b.line = a.line ∧ b.col < a.col)))) := by
  unfold posLe posLt
  simp only [Bool.or_eq_false_iff, Bool.and_eq_false_iff, decide_eq_false_iff_not, beq_eq_false_iff_ne, ne_eq,
    not_or, not_and, Nat.not_lt]
  constructor
  · rintro ⟨h1, h2⟩
    refine ⟨by omega, ?_⟩
    intro hp
    rcases h2 with h2 | ⟨h2, h3⟩
    · exact absurd hp h2
    · refine ⟨by omega, ?_⟩
      intro hl
      rcases h3 with h3 | h3
      · exact absurd hl h3
      · omega
  · rintro ⟨h1, h2⟩
    refine ⟨by omega, ?_⟩
    by_cases hp : b.pos = a.pos
    · right
      obtain ⟨h3, h4⟩ := h2 hp
      refine ⟨by omega, ?_⟩
      by_cases hl : b.line = a.line
      · right; exact h4 hl
      · left; exact hl
    · left; exact hp

theorem posLe_refl (a : Pos) : posLe a a := by rw [posLe_iff]; omega

theorem posLe_trans {a b c : Pos} (h1 : posLe a b) (h2 : posLe b c) : posLe a c := by
  rw [posLe_iff] at *; omega

theorem posAfter_le (bs : List Nat) (p : Pos) : posLe p (posAfter bs p) := by
  cases bs with
  | nil => rw [posAfter_nil]; exact posLe_refl p
  | cons b rest =>
    rw [posLe_iff]
    simp only [posAfter, List.length_cons]
    omega

theorem skip_facts (env : Env) (ctx : Ctx) :
    (skip env ctx).span = ctx.span ∧ posLe ctx.pos (skip env ctx).pos := by
  unfold skip
  simp only
  split
  · exact ⟨rfl, posAfter_le _ _⟩
  · exact ⟨rfl, posLe_refl _⟩

theorem tokenIterAux_span (env : Env) (pos : Pos) : ∀ (l : List (Nat × Bool)) (m : Bool),
    ∀ tk ∈ tokenIterAux env pos m l, tk.span.s = pos
  | [], _, tk, h => by simp [tokenIterAux] at h
  | (k, fin) :: rest, m, tk, h => by
    simp only [tokenIterAux] at h
    split at h
    · rcases List.mem_cons.mp h with h | h
      · subst h; rfl
      · split at h
        · simp at h
        · exact tokenIterAux_span env pos rest true tk h
    · split at h
      · simp at h
      · exact tokenIterAux_span env pos rest m tk h

theorem customTokens_span (env : Env) (mode seed : Nat) (pos : Pos) :
    ∀ tk ∈ customTokens env mode seed pos, tk.span.s = pos := by
  intro tk h
  unfold customTokens at h
  split at h
  · simp only [List.mem_singleton] at h; subst h; rfl
  · split at h
    · split at h
      · simp only [List.mem_singleton] at h; subst h; rfl
      · simp at h
    · simp only [List.mem_singleton] at h; subst h; rfl

theorem lexNext_facts (env : Env) (ctx : Ctx) (exp : List (Nat × Bool)) :
    (lexNext env ctx exp).1.span = ctx.span ∧ posLe ctx.pos (lexNext env ctx exp).1.pos ∧
    ∀ tk ∈ (lexNext env ctx exp).2, tk.span.s = (lexNext env ctx exp).1.pos := by
  unfold lexNext
  split
  · exact ⟨rfl, posLe_refl _, customTokens_span env _ _ _⟩
  · simp only
    split
    · exact ⟨(skip_facts env ctx).1, (skip_facts env ctx).2, tokenIterAux_span env _ _ _⟩
    · exact ⟨rfl, posLe_refl _, tokenIterAux_span env _ _ _⟩

/-! ## the LR loop (layout parser) never moves the position backwards -/

def NtMono (nt : Ctx → Ctx × Outcome Tok) : Prop := ∀ ctx, posLe ctx.pos (nt ctx).1.pos

def stepCtxPos : StepOut → Pos
  | .next c => c.ctx.pos
  | .done ctx _ => ctx.pos
  | .stop ctx _ => ctx.pos

theorem liftTok_ctxPos (hist : List Tok) (stack : List StackItem) (res : List Tree) (slice : Option Slice)
    (r : Ctx × Outcome Tok) (k : Option (Option Slice × Nat)) : stepCtxPos (liftTok hist stack res slice r k) = r.1.pos := by
  unfold liftTok
  split
  · simp only [stepCtxPos]; split <;> rfl
  · rfl
  · rfl
  · rfl

theorem step_pos (env : Env) (nt : Ctx → Ctx × Outcome Tok) (hnt : NtMono nt) (c : Cfg) :
    posLe c.ctx.pos (stepCtxPos (step env nt c)) := by
  unfold step
  repeat' (first | split | (dsimp only; split))
  all_goals first
    | exact posLe_refl _
    | (rw [liftTok_ctxPos]; exact posLe_trans (posAfter_le _ _) (hnt _))
    | (rw [liftTok_ctxPos]; exact hnt _)
    | (dsimp only; rw [liftTok_ctxPos]; exact posLe_trans (posAfter_le _ _) (hnt _))
    | (dsimp only; rw [liftTok_ctxPos]; exact hnt _)

theorem runLoop_pos (env : Env) (nt : Ctx → Ctx × Outcome Tok) (hnt : NtMono nt) :
    ∀ (fuel : Nat) (c : Cfg), posLe c.ctx.pos (runLoop env nt fuel c).1.pos
  | 0, c => posLe_refl _
  | fuel+1, c => by
    have hs := step_pos env nt hnt c
    unfold runLoop
    split
    · rename_i c' hc; rw [hc] at hs
      exact posLe_trans hs (runLoop_pos env nt hnt fuel c')
    · rename_i ctx r hc; rw [hc] at hs; exact hs
    · rename_i ctx o hc; rw [hc] at hs; exact hs

theorem parseWith_pos (env : Env) (nt : Ctx → Ctx × Outcome Tok) (hnt : NtMono nt) (start : Nat) (ctx : Ctx)
    (fuel : Nat) : posLe ctx.pos (parseWith env nt start ctx fuel).1.pos := by
  have h0 := hnt ctx
  unfold parseWith
  simp only
  split
  · rename_i ctx' tk heq
    rw [heq] at h0
    exact posLe_trans h0 (runLoop_pos env nt hnt fuel _)
  · rename_i ctx' e heq; rw [heq] at h0; exact h0
  · rename_i ctx' s heq; rw [heq] at h0; exact h0
  · rename_i ctx' heq; rw [heq] at h0; exact h0

theorem ntMono_base (env : Env) (pp : Bool) : NtMono (nextTokenBase env pp) := by
  intro ctx
  unfold nextTokenBase
  have h := (lexNext_facts env ctx (env.t.sorted ctx.state)).2.1
  generalize lexNext env ctx (env.t.sorted ctx.state) = lx at h
  obtain ⟨ctx1, toks⟩ := lx
  simp only at h ⊢
  split
  · exact h
  · unfold noToken
    simp only
    split
    · exact h
    · split <;> exact h

theorem layoutParse_pos (env : Env) (ls : Nat) (ctx : Ctx) (fuel : Nat) :
    posLe ctx.pos (layoutParse env ls ctx fuel).1.pos := by
  unfold layoutParse
  exact parseWith_pos env _ (ntMono_base env true) ls { ctx with state := ls } fuel

/-! ## `find_lookaheads` -/

/-- the layout parser of the table never panics (an assumption of the GLR no-panic theorem that is discharged
    from `Cert.lr` by the LR theorem for tables without right-nulled entries, and is void without a Layout rule) -/
def LayoutSafe (env : Env) : Prop :=
  ∀ ls, env.t.layoutState = some ls → ∀ ctx fuel, NotPanic (layoutParse env ls ctx fuel).2

theorem keepToks_sub (l g : Bool) (toks : List Tok) : ∀ tk ∈ keepToks l g toks, tk ∈ toks := by
  intro tk h
  unfold keepToks at h
  simp only at h
  split at h
  · have := List.mem_of_mem_take h
    split at this
    · exact (List.mem_filter.mp this).1
    · exact this
  · split at h
    · exact (List.mem_filter.mp h).1
    · exact h

theorem stopOrNone_span (pp : Bool) (exp : List (Nat × Bool)) (ctx : Ctx) :
    ∀ tk ∈ stopOrNone pp exp ctx, tk.span = ctx.span := by
  intro tk h
  unfold stopOrNone at h
  split at h
  · simp only [List.mem_singleton] at h; subst h; rfl
  · simp at h

/-- what `find_lookaheads` does to the head: state and span kept, position not moved backwards, every token
    starts at the new position or is the STOP token carrying the span -/
structure LookOk (A : Prop) (ctx : Ctx) (r : Ctx × Outcome (List Tok)) : Prop where
  state : r.1.state = ctx.state
  span : r.1.span = ctx.span
  pos : posLe ctx.pos r.1.pos
  toks : ∀ toks, r.2 = .ok toks → ∀ tk ∈ toks, tk.span.s = r.1.pos ∨ tk.span = r.1.span
  safe : Sat A (fun _ => True) r.2

theorem lexKeep_ok (env : Env) (pp : Bool) (exp : List (Nat × Bool)) (ctx : Ctx) :
    (lexKeep env pp exp ctx).1.state = ctx.state ∧ (lexKeep env pp exp ctx).1.span = ctx.span ∧
    posLe ctx.pos (lexKeep env pp exp ctx).1.pos ∧
    ∀ tk ∈ (lexKeep env pp exp ctx).2, tk.span.s = (lexKeep env pp exp ctx).1.pos ∨ tk.span = (lexKeep env pp exp ctx).1.span := by
  have hs := lexNext_state env ctx exp
  obtain ⟨h1, h2, h3⟩ := lexNext_facts env ctx exp
  unfold lexKeep
  simp only
  split
  · exact ⟨hs, h1, h2, fun tk h => Or.inr (stopOrNone_span _ _ _ tk h)⟩
  · exact ⟨hs, h1, h2, fun tk h => Or.inl (h3 tk (keepToks_sub _ _ _ tk h))⟩

theorem findLookaheadsCtx_ok (env : Env) (hl : ¬ A → LayoutSafe env) (pp : Bool) (fuel : Nat) (ctx : Ctx) :
    LookOk A ctx (findLookaheadsCtx env pp fuel ctx) := by
  have hs := lexNext_state env ctx (env.t.sorted ctx.state)
  obtain ⟨h1, h2, h3⟩ := lexNext_facts env ctx (env.t.sorted ctx.state)
  unfold findLookaheadsCtx
  simp only
  generalize lexNext env ctx (env.t.sorted ctx.state) = lx at hs h1 h2 h3 ⊢
  obtain ⟨c1, toks1⟩ := lx
  simp only at hs h1 h2 h3 ⊢
  split
  · exact ⟨hs, h1, h2, fun toks ht tk htk => by
      injection ht with ht; subst ht
      exact Or.inl (h3 tk (keepToks_sub _ _ _ tk htk)), trivial⟩
  · split
    · exact ⟨hs, h1, h2, fun toks ht tk htk => by
        injection ht with ht; subst ht
        exact Or.inr (stopOrNone_span _ _ _ tk htk), trivial⟩
    · rename_i ls hls
      have hsafe : ¬ A → NotPanic (layoutParse env ls c1 fuel).2 := fun hA => hl hA ls hls c1 fuel
      have hpos := layoutParse_pos env ls c1 fuel
      generalize layoutParse env ls c1 fuel = lp at hsafe hpos
      obtain ⟨cx, r⟩ := lp
      simp only at hsafe hpos ⊢
      have hpos' : posLe ctx.pos cx.pos := posLe_trans h2 hpos
      generalize hcy : ({ cx with state := c1.state, span := c1.span } : Ctx) = cy
      have hy1 : cy.state = ctx.state := by rw [← hcy]; exact hs
      have hy2 : cy.span = ctx.span := by rw [← hcy]; exact h1
      have hy3 : posLe ctx.pos cy.pos := by rw [← hcy]; exact hpos'
      have hstop : LookOk A ctx ({ cy with pos := c1.pos },
          Outcome.ok (stopOrNone pp (env.t.sorted ctx.state) { cy with pos := c1.pos })) :=
        ⟨hy1, hy2, h2, fun toks ht tk htk => by
          injection ht with ht; subst ht
          exact Or.inr (stopOrNone_span _ _ _ tk htk), trivial⟩
      unfold afterLayout
      split
      · split
        · split
          · rename_i off len _ _
            obtain ⟨k1, k2, k3, k4⟩ := lexKeep_ok env pp (env.t.sorted ctx.state) { cy with lay := some (off, len) }
            exact ⟨by rw [k1]; exact hy1, by rw [k2]; exact hy2, posLe_trans hy3 k3,
              fun toks ht tk htk => by injection ht with ht; subst ht; exact k4 tk htk, trivial⟩
          · exact hstop
        · exact hstop
      · exact hstop
      · refine ⟨hy1, hy2, hy3, fun toks ht => by simp at ht, ?_⟩
        show A
        by_cases hA : A
        · exact hA
        · exact absurd (hsafe hA) (by simp [NotPanic])
      · exact ⟨hy1, hy2, hy3, fun toks ht => by simp at ht, trivial⟩

end Rustemo.Glr
