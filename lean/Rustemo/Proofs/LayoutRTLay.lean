import Rustemo.Proofs.LayoutRT
import Rustemo.Proofs.LayoutRTWs
/-!
# The stored layout is layout (C14, part B)

`Tree.AllLay P t`: every layout slice stored in `t` (at a leaf, or copied to a nonterminal node from
its first child) satisfies `P`.  It is an invariant of the parser loop for every `next_token` that,
called right after a shift (no layout ahead, span ending at the position), only ever records a layout
that satisfies `P` (`NtP`).

* default whitespace skipping: `P s = WsBytes (input slice s)` — whole whitespace characters only;
* Layout rule: `P s = LayoutSentences env lsym s.1 (s.1+s.2)` — the slice is a concatenation of one
  or more `LaySentence`s: ranges tiled by adjacent recognizer matches whose kinds are the yield of a
  derivation tree of the Layout symbol.  (One sentence per run of the layout parser; a second run
  happens only when the lexer is re-run after a reduce, and its layout is merged: `mergeLay`.)
-/
namespace Rustemo

mutual
def Tree.AllLay (P : Slice → Prop) : Tree → Prop
  | .leaf _ _ _ l => ∀ s, l = some s → P s
  | .node _ _ l cs => (∀ s, l = some s → P s) ∧ TreeList.AllLay P cs
def TreeList.AllLay (P : Slice → Prop) : TreeList → Prop
  | .nil => True
  | .cons t ts => Tree.AllLay P t ∧ TreeList.AllLay P ts
end

theorem allLay_ofList (P : Slice → Prop) (l : List Tree) (h : ∀ t ∈ l, t.AllLay P) :
    (TreeList.ofList l).AllLay P := by
  induction l with
  | nil => simp [TreeList.ofList, TreeList.AllLay]
  | cons t ts ih =>
    simp only [TreeList.ofList, TreeList.AllLay]
    exact ⟨h t (by simp), ih (fun x hx => h x (by simp [hx]))⟩

theorem firstLay_allLay (P : Slice → Prop) : ∀ (t : Tree), t.AllLay P → ∀ s, firstLay t = some s → P s
  | .leaf _ _ _ _, h => h
  | .node _ _ _ _, h => h.1

/-- `next_token` called right after a shift records only layouts that satisfy `P` -/
def NtP (P : Slice → Prop) (nt : Ctx → Ctx × Outcome Tok) : Prop :=
  ∀ ctx ctx' tk, ctx.lay = none → ctx.span.e.pos = ctx.pos.pos → nt ctx = (ctx', .ok tk) →
    ∀ s, ctx'.lay = some s → P s

/-- re-lexing after a reduce from configuration `c`: the merged layout satisfies `P` -/
def RelexP (P : Slice → Prop) (nt : Ctx → Ctx × Outcome Tok) (c : Cfg) : Prop :=
  ∀ s' ctx1 tk, nt (reduceCtx c s') = (ctx1, .ok tk) →
    ∀ s, mergeLay c.ctx.lay c.ctx.pos.pos ctx1.pos.pos = some s → P s

structure PInv (P : Slice → Prop) (c : Cfg) : Prop where
  trees : ∀ t ∈ c.res, t.AllLay P
  ahead : ∀ s, c.ctx.lay = some s → P s

theorem step_pinv (env : Env) (P : Slice → Prop) (nt : Ctx → Ctx × Outcome Tok) (c c' : Cfg)
    (hnt : NtP P nt) (hrelex : RelexP P nt c) (hinv : PInv P c) (hstep : step env nt c = .next c') :
    PInv P c' := by
  cases step_next_inv env nt c c' hstep with
  | shift state s' acts ctx1 tk htop hcell hnt1 hc' =>
    subst hc'
    refine ⟨?_, hnt _ ctx1 tk rfl rfl hnt1⟩
    intro t ht
    rcases List.mem_cons.mp ht with h | h
    · subst h
      simp only [shiftLeaf, Tree.AllLay]
      exact hinv.ahead
    · exact hinv.trees t h
  | reduce state p len fromState s' pr acts ctx1 tk htop hcell hlen hfrom hpr hgoto hrlen hnt1 hc' =>
    subst hc'
    refine ⟨?_, hrelex s' ctx1 tk hnt1⟩
    intro t ht
    rcases List.mem_cons.mp ht with h | h
    · subst h
      simp only [reduceNode, Tree.AllLay]
      have hch : ∀ x ∈ (c.res.take len).reverse, x.AllLay P := by
        intro x hx
        exact hinv.trees x (List.mem_of_mem_take (List.mem_reverse.mp hx))
      refine ⟨?_, allLay_ofList P _ hch⟩
      intro s hs
      unfold childrenLay at hs
      split at hs
      · rename_i ch hhead
        exact firstLay_allLay P ch (hch ch (List.mem_of_head? hhead)) s hs
      · simp at hs
    · exact hinv.trees t (List.mem_of_mem_drop h)

/-- `J` is an auxiliary invariant of the loop from which the re-lex clause follows -/
theorem runLoop_pinv (env : Env) (P : Slice → Prop) (nt : Ctx → Ctx × Outcome Tok) (hnt : NtP P nt)
    (J : Cfg → Prop) (hJ : ∀ c c', J c → step env nt c = .next c' → J c')
    (hrelex : ∀ c, J c → (∀ s, c.ctx.lay = some s → P s) → RelexP P nt c) :
    ∀ (fuel : Nat) (c : Cfg) (ctx : Ctx) (r : ParseResult), J c → PInv P c →
      runLoop env nt fuel c = (ctx, .ok r) →
      r.tree.AllLay P ∧ ∀ s, ctx.lay = some s → P s := by
  intro fuel
  induction fuel with
  | zero => intro c ctx r _ _ h; simp [runLoop] at h
  | succ n ih =>
    intro c ctx r hj hinv h
    unfold runLoop at h
    split at h
    · rename_i c' hstep
      exact ih c' ctx r (hJ c c' hj hstep)
        (step_pinv env P nt c c' hnt (hrelex c hj hinv.ahead) hinv hstep) h
    · rename_i ctx' r' hstep
      injection h with h1 h2
      injection h2 with h2
      subst h1 h2
      obtain ⟨_, _, rest, _, _, hctx, hres, _, _⟩ := step_done_inv env nt c ctx' r' hstep
      refine ⟨hinv.trees _ (by rw [hres]; simp), ?_⟩
      rw [hctx]; exact hinv.ahead
    · rename_i ctx' o hstep
      injection h with _ h2
      subst h2
      exact absurd rfl (step_stop_not_ok env nt c ctx' _ hstep r)

/-! ## Default whitespace skipping -/

/-- the stored slice is a string of whole whitespace characters -/
def WsSlice (input : List Nat) (s : Slice) : Prop := WsBytes (sliceOf input s)

theorem ntP_ws (env : Env) (hc : env.custom = none) (hl : env.t.layoutState = none) (pp : Bool)
    (fuel : Nat) : NtP (WsSlice env.input) (nextTokenMain env pp fuel) := by
  intro ctx ctx' tk hlay _ hn s hs
  rw [nextTokenMain_eq_base env hl] at hn
  have hl' := (lexNext_lay env hc ctx (env.t.sorted ctx.state)).2.1
  -- the context returned is the one the lexer produced
  have hctx' : ctx' = (lexNext env ctx (env.t.sorted ctx.state)).1 := by
    unfold nextTokenBase at hn
    generalize lexNext env ctx (env.t.sorted ctx.state) = lx at hn
    obtain ⟨ctx1, toks⟩ := lx
    simp only at hn ⊢
    split at hn
    · injection hn with h1 _; exact h1.symm
    · unfold noToken at hn
      simp only at hn
      split at hn
      · injection hn with h1 _; exact h1.symm
      · split at hn <;> (injection hn with h1 _; exact h1.symm)
  rw [← hctx'] at hl'
  rw [hl'] at hs
  cases hsk : env.skipWs with
  | false => rw [hsk] at hs; simp [hlay] at hs
  | true =>
    rw [hsk] at hs
    simp only [↓reduceIte] at hs
    split at hs
    · injection hs with hs
      subst hs
      unfold WsSlice sliceOf
      simp only
      exact wsPrefix_wsBytes _ _
    · simp at hs

/-- **(B i)** default whitespace skipping: every stored layout is whitespace.  (Re-lexing after a
    reduce never moves here — `Stable` of `Roundtrip.lean` — so the merged layout is the old one.) -/
theorem parse_layout_is_ws (env : Env) (hc : env.custom = none) (hl : env.t.layoutState = none)
    (hr : RecogOk env) (hns : NoShiftStop env.t)
    (pp : Bool) (fuel : Nat) (ctx : Ctx) (r : ParseResult) (h : parse env pp fuel = (ctx, .ok r)) :
    r.tree.AllLay (WsSlice env.input) ∧ ∀ s, ctx.lay = some s → WsSlice env.input s := by
  have hntl : NtLay env (nextTokenMain env pp fuel) := by
    intro ctx ctx' o hn
    rw [nextTokenMain_eq_base env hl] at hn
    exact ntLay_base env hc hr pp ctx ctx' o hn
  have hntp := ntP_ws env hc hl pp fuel
  unfold parse parseWith at h
  simp only at h
  split at h
  · rename_i ctx1 tk hnt1
    obtain ⟨hpos1, hlay1, hst1, htok1⟩ := hntl _ ctx1 _ hnt1
    refine runLoop_pinv env _ _ hntp
      (fun c => c.stack.length = c.res.length + 1 ∧ RInv env c)
      (fun c c' hj hstep => ?_) (fun c hj hah => ?_) fuel _ ctx r ⟨by simp, ?_⟩
      ⟨by simp, hntp _ ctx1 tk rfl rfl hnt1⟩ h
    · -- the auxiliary invariant is preserved
      refine ⟨?_, step_roundtrip env _ c c' hntl hns hj.1 hj.2 hstep⟩
      cases step_next_inv env _ c c' hstep with
      | shift state s' acts ctx1 tk htop hcell hnt1 hc' => subst hc'; simp [hj.1]
      | reduce state p len fromState s' pr acts ctx1 tk htop hcell hlen hfrom hpr hgoto hrlen hnt1 hc' =>
        subst hc'; simp; omega
    · -- re-lexing does not move
      intro s' ctx1 tk hnt1 s hs
      obtain ⟨hpos1, _, _, _⟩ := hntl _ ctx1 _ hnt1
      have hn0 : wsN env (reduceCtx c s') = 0 := by
        unfold wsN
        exact stable_n_zero env c.ctx hj.2.stable
      have hp : ctx1.pos.pos = c.ctx.pos.pos := by rw [hpos1, hn0]; rfl
      rw [hp, mergeLay_same] at hs
      exact hah s hs
    · -- the invariant holds initially
      refine ⟨by simp [flatRes, endOf], by simp [endOf], ?_, htok1 tk rfl, hst1⟩
      unfold LayOk
      simp only [endOf]
      rw [hlay1]
      unfold layAfter
      have hp0 : ({} : Ctx).pos.pos = 0 := rfl
      have hps : Pos.start.pos = 0 := rfl
      rw [hp0] at hpos1
      cases hsk : env.skipWs with
      | false =>
        have hn0 : wsN env {} = 0 := by unfold wsN; simp [hsk]
        simp only [Bool.false_eq_true, ↓reduceIte]
        show (match (none : Option Slice) with
          | some (o, l) => o = 0 ∧ o + l = ctx1.pos.pos
          | none => ctx1.pos.pos = 0)
        simp only
        omega
      | true =>
        simp only [↓reduceIte]
        by_cases hn : wsN env {} > 0
        · simp only [hn, ↓reduceIte]
          exact ⟨hp0, by omega⟩
        · simp only [hn, ↓reduceIte]
          omega
  all_goals (injection h with _ h2; simp at h2)

/-! ## Layout rule -/

/-- `[a, b)` is tiled by adjacent recognizer matches (`toks`, most recent first) whose kinds are the
    yield of a derivation tree of the symbol `lsym` -/
def LaySentence (env : Env) (lsym : Nat) (a b : Nat) : Prop :=
  ∃ (tr : Tree) (toks : List Tok), tr.Valid env.g lsym ∧ tr.yield = (toks.map (·.kind)).reverse ∧
    HChain env toks a b

/-- `[a, b)` is a concatenation of one or more sentences -/
inductive LayoutSentences (env : Env) (lsym : Nat) : Nat → Nat → Prop where
  | one (a b : Nat) : LaySentence env lsym a b → LayoutSentences env lsym a b
  | app (a m b : Nat) : LayoutSentences env lsym a m → LaySentence env lsym m b → LayoutSentences env lsym a b

/-- the stored slice is a concatenation of sentences of `lsym` -/
def LaySlice (env : Env) (lsym : Nat) (s : Slice) : Prop := LayoutSentences env lsym s.1 (s.1 + s.2)

/-- token history of the layout sub-parse: a chain of adjacent matches from the start offset, from ANY
    starting context (unlike `LInv` this does not look at spans) -/
structure HInv (env : Env) (P0 : Nat) (c : Cfg) : Prop where
  hist : HChain env c.hist P0 c.ctx.pos.pos
  tok : TokRec env c.ctx c.tok

theorem step_hinv (env : Env) (hc : env.custom = none) (hsk : env.skipWs = false) (hr : RecogOk env)
    (hns : NoShiftStop env.t) (P0 : Nat) (c c' : Cfg) (hinv : HInv env P0 c)
    (hstep : step env (nextTokenBase env true) c = .next c') : HInv env P0 c' := by
  cases step_next_inv env _ c c' hstep with
  | shift state s' acts ctx1 tk htop hcell hnt1 hc' =>
    have hk : c.tok.kind ≠ 0 := by
      intro h0; apply hns state s'; rw [← h0, hcell]; simp
    obtain ⟨hv1, hrec⟩ : c.tok.val.1 = c.ctx.pos.pos ∧ env.recog c.tok.kind c.tok.val.1 = some c.tok.val.2 := by
      rcases hinv.tok with h | h
      · exact absurd h hk
      · exact h
    have hv2 := hr _ _ _ hrec
    have hctx1 := ntBase_ctx env hc hsk true _ _ _ hnt1
    subst hctx1
    have hnp : (shiftCtx env c s').pos.pos = c.ctx.pos.pos + c.tok.val.2 := by
      show (posAfter (sliceOf env.input c.tok.val) c.ctx.pos).pos = _
      rw [posAfter_pos]
      have : c.tok.val = (c.tok.val.1, c.tok.val.2) := rfl
      rw [this, sliceOf_length _ _ _ hv2]
    subst hc'
    refine ⟨⟨by rw [hnp, hv1], hrec, ?_⟩, ntBase_tokRec env hc hsk _ _ tk hnt1⟩
    rw [hv1]; exact hinv.hist
  | reduce state p len fromState s' pr acts ctx1 tk htop hcell hlen hfrom hpr hgoto hrlen hnt1 hc' =>
    have hctx1 := ntBase_ctx env hc hsk true _ _ _ hnt1
    subst hctx1
    subst hc'
    exact ⟨hinv.hist, ntBase_tokRec env hc hsk (reduceCtx c s') _ tk hnt1⟩

theorem runLoop_hinv (env : Env) (hc : env.custom = none) (hsk : env.skipWs = false) (hr : RecogOk env)
    (hns : NoShiftStop env.t) (P0 : Nat) :
    ∀ (fuel : Nat) (c : Cfg) (ctx : Ctx) (r : ParseResult), HInv env P0 c →
      runLoop env (nextTokenBase env true) fuel c = (ctx, .ok r) → HChain env r.hist P0 ctx.pos.pos := by
  intro fuel
  induction fuel with
  | zero => intro c ctx r _ h; simp [runLoop] at h
  | succ n ih =>
    intro c ctx r hinv h
    unfold runLoop at h
    split at h
    · rename_i c' hstep
      exact ih c' ctx r (step_hinv env hc hsk hr hns P0 c c' hinv hstep) h
    · rename_i ctx' r' hstep
      injection h with h1 h2
      injection h2 with h2
      subst h1 h2
      obtain ⟨_, _, _, _, _, hctx, _, _, hhist⟩ := step_done_inv env _ c ctx' r' hstep
      rw [hctx, hhist]; exact hinv.hist
    · rename_i ctx' o hstep
      injection h with _ h2
      subst h2
      exact absurd rfl (step_stop_not_ok env _ c ctx' _ hstep r)

/-- **Whatever an accepted layout parse consumed is a sentence of the Layout symbol** (from any
    starting context) -/
theorem layoutParse_sentence (env : Env) (hc : env.custom = none) (hsk : env.skipWs = false)
    (hr : RecogOk env) (hns : NoShiftStop env.t) (autos : List Auto)
    (hs : Structural env.g env.t autos) (au : Auto) (hin : au ∈ autos) (ls : Nat)
    (hstart : ls = au.start) (ctx : Ctx) (fuel : Nat) (cx : Ctx) (pr : ParseResult)
    (h : layoutParse env ls ctx fuel = (cx, .ok pr)) :
    LaySentence env au.sym ctx.pos.pos cx.pos.pos := by
  obtain ⟨hv, hy⟩ := parseWith_sound env _ autos hs au hin ls hstart _ fuel cx pr h
  refine ⟨pr.tree, pr.hist, hv, hy, ?_⟩
  unfold layoutParse parseWith at h
  simp only at h
  split at h
  · rename_i ctx1 tk hnt1
    have hctx1 := ntBase_ctx env hc hsk true _ _ _ hnt1
    subst hctx1
    exact runLoop_hinv env hc hsk hr hns ctx.pos.pos fuel _ cx pr
      ⟨by simp [HChain], ntBase_tokRec env hc hsk _ _ tk hnt1⟩ h
  all_goals (injection h with _ h2; simp at h2)

/-- what `nextTokenMain` of a Layout table does to the position: nothing, or it skips one sentence -/
theorem ntMain_skips_sentence (env : Env) (hc : env.custom = none) (hsk : env.skipWs = false)
    (hr : RecogOk env) (hns : NoShiftStop env.t) (ls : Nat) (hl : env.t.layoutState = some ls)
    (hs : Structural env.g env.t (autosOf env.g env.t)) (au : Auto) (hin : au ∈ autosOf env.g env.t)
    (hstart : ls = au.start) (pp : Bool) (fuel : Nat) (ctx ctx' : Ctx) (tk : Tok)
    (hn : nextTokenMain env pp fuel ctx = (ctx', .ok tk)) :
    ctx'.pos.pos = ctx.pos.pos ∨ LaySentence env au.sym ctx.pos.pos ctx'.pos.pos := by
  unfold nextTokenMain lexNext at hn
  rw [hc, hsk] at hn
  simp only [Bool.false_eq_true, ↓reduceIte] at hn
  split at hn
  · injection hn with h1 _
    rw [← h1]; exact Or.inl rfl
  · rw [hl] at hn
    simp only at hn
    generalize hlp : layoutParse env ls ctx fuel = lp at hn
    obtain ⟨cx, r⟩ := lp
    simp only at hn
    have hback : ∀ (c0 : Ctx), c0.pos = ctx.pos → noToken env pp c0 = (ctx', .ok tk) →
        ctx'.pos.pos = ctx.pos.pos ∨ LaySentence env au.sym ctx.pos.pos ctx'.pos.pos := by
      intro c0 hp0 hn0
      obtain ⟨hctx', _⟩ := noToken_inv env pp _ _ _ hn0
      subst hctx'
      exact Or.inl (by rw [hp0])
    split at hn
    · rename_i pr
      split at hn
      · split at hn
        · have hctx' := ntBase_ctx env hc hsk pp _ _ _ hn
          subst hctx'
          exact Or.inr (layoutParse_sentence env hc hsk hr hns _ hs au hin ls hstart ctx fuel cx pr hlp)
        · exact hback { cx with state := ctx.state, span := ctx.span, pos := ctx.pos } rfl hn
      · exact hback { cx with state := ctx.state, span := ctx.span, pos := ctx.pos } rfl hn
    · exact hback { cx with state := ctx.state, span := ctx.span, pos := ctx.pos } rfl hn
    · injection hn with _ h2; simp at h2
    · injection hn with _ h2; simp at h2

theorem ntP_layout (env : Env) (hc : env.custom = none) (hsk : env.skipWs = false) (hr : RecogOk env)
    (hns : NoShiftStop env.t) (ls : Nat) (hl : env.t.layoutState = some ls)
    (hs : Structural env.g env.t (autosOf env.g env.t)) (au : Auto) (hin : au ∈ autosOf env.g env.t)
    (hstart : ls = au.start) (hsym : env.g.nterms ≤ au.sym) (pp : Bool) (fuel : Nat) :
    NtP (LaySlice env au.sym) (nextTokenMain env pp fuel) := by
  intro ctx ctx' tk hlay hE hn s hs'
  -- the layout ahead afterwards is exactly what was skipped …
  obtain ⟨_, hmono, hlo⟩ := ntG_main env hc hsk hr hns ls hl hs au hin hstart hsym fuel pp ctx ctx' tk hn
  have hlayok := hlo hlay hE
  unfold LayOk at hlayok
  rw [hs'] at hlayok
  obtain ⟨o, l⟩ := s
  simp only at hlayok
  obtain ⟨ho, hol⟩ := hlayok
  -- … and what was skipped is nothing or one sentence
  rcases ntMain_skips_sentence env hc hsk hr hns ls hl hs au hin hstart pp fuel ctx ctx' tk hn with h | h
  · -- nothing skipped, yet a layout is recorded: it is empty; impossible unless it is a sentence anyway
    exfalso
    -- a recorded layout comes only from the branch that skipped a non-empty slice
    unfold nextTokenMain lexNext at hn
    rw [hc, hsk] at hn
    simp only [Bool.false_eq_true, ↓reduceIte] at hn
    split at hn
    · injection hn with h1 _
      rw [← h1, hlay] at hs'; simp at hs'
    · rw [hl] at hn
      simp only at hn
      generalize hlp : layoutParse env ls ctx fuel = lp at hn
      obtain ⟨cx, r⟩ := lp
      have hcl := layoutParse_lay_none env hc hsk ls ctx fuel cx r hlay hlp
      simp only at hn
      have hback : ∀ (c0 : Ctx), c0.lay = cx.lay → noToken env pp c0 = (ctx', .ok tk) → False := by
        intro c0 hl0 hn0
        obtain ⟨hctx', _⟩ := noToken_inv env pp _ _ _ hn0
        subst hctx'
        rw [hl0, hcl] at hs'; simp at hs'
      split at hn
      · split at hn
        · rename_i off len hslice
          split at hn
          · rename_i hlen
            have hctx' := ntBase_ctx env hc hsk pp _ _ _ hn
            subst hctx'
            simp only at hs' h hol
            injection hs' with hs'
            injection hs' with h1 h2
            omega
          · exact hback { cx with state := ctx.state, span := ctx.span, pos := ctx.pos } rfl hn
        · exact hback { cx with state := ctx.state, span := ctx.span, pos := ctx.pos } rfl hn
      · exact hback { cx with state := ctx.state, span := ctx.span, pos := ctx.pos } rfl hn
      · injection hn with _ h2; simp at h2
      · injection hn with _ h2; simp at h2
  · refine .one _ _ ?_
    simp only
    subst ho
    rw [hol]
    exact h

/-- re-lexing after a reduce: the merged layout is the old concatenation, or it gets one more sentence -/
theorem relexP_layout (env : Env) (hc : env.custom = none) (hsk : env.skipWs = false) (hr : RecogOk env)
    (hns : NoShiftStop env.t) (ls : Nat) (hl : env.t.layoutState = some ls)
    (hs : Structural env.g env.t (autosOf env.g env.t)) (au : Auto) (hin : au ∈ autosOf env.g env.t)
    (hstart : ls = au.start) (hsym : env.g.nterms ≤ au.sym) (pp : Bool) (fuel : Nat) (c : Cfg)
    (hg : GInv env c) (hah : ∀ s, c.ctx.lay = some s → LaySlice env au.sym s) :
    RelexP (LaySlice env au.sym) (nextTokenMain env pp fuel) c := by
  intro s' ctx1 tk hnt1 s hs'
  obtain ⟨_, hmono, _⟩ := ntG_main env hc hsk hr hns ls hl hs au hin hstart hsym fuel pp _ ctx1 tk hnt1
  have hmono' : c.ctx.pos.pos ≤ ctx1.pos.pos := hmono
  have hE := layOk_le hg.lay
  by_cases hgt : ctx1.pos.pos > c.ctx.pos.pos
  · -- more layout skipped: one more sentence
    have hsent : LaySentence env au.sym c.ctx.pos.pos ctx1.pos.pos := by
      rcases ntMain_skips_sentence env hc hsk hr hns ls hl hs au hin hstart pp fuel _ ctx1 tk hnt1 with h | h
      · have : ctx1.pos.pos = c.ctx.pos.pos := h
        omega
      · exact h
    unfold mergeLay at hs'
    rw [if_pos hgt] at hs'
    injection hs' with hs'
    subst hs'
    unfold LaySlice
    simp only
    have hlay := hg.lay
    unfold LayOk at hlay
    cases hcl : c.ctx.lay with
    | none =>
      rw [hcl] at hlay
      simp only at hlay
      simp only [layLen, Nat.sub_zero]
      have : c.ctx.pos.pos + (ctx1.pos.pos - c.ctx.pos.pos) = ctx1.pos.pos := by omega
      rw [this]
      exact .one _ _ hsent
    | some ol =>
      obtain ⟨o, l⟩ := ol
      rw [hcl] at hlay
      simp only at hlay
      obtain ⟨ho, hol⟩ := hlay
      simp only [layLen]
      have h1 : c.ctx.pos.pos - l = o := by omega
      have h2 : o + (ctx1.pos.pos - o) = ctx1.pos.pos := by omega
      rw [h1, h2]
      have hold := hah (o, l) hcl
      unfold LaySlice at hold
      simp only at hold
      rw [hol] at hold
      exact .app _ _ _ hold hsent
  · unfold mergeLay at hs'
    rw [if_neg hgt] at hs'
    exact hah s hs'

/-- **(B ii)** Layout rule: every stored layout is a concatenation of sentences of the Layout symbol,
    each tiled by adjacent tokens -/
theorem parse_layout_is_sentence (env : Env) (hc : env.custom = none) (hsk : env.skipWs = false)
    (hr : RecogOk env) (hns : NoShiftStop env.t) (ls : Nat) (hl : env.t.layoutState = some ls)
    (hs : Structural env.g env.t (autosOf env.g env.t)) (hau : LayoutCert.autoOk env.g env.t ls = true)
    (pp : Bool) (fuel : Nat) (ctx : Ctx) (r : ParseResult) (h : parse env pp fuel = (ctx, .ok r)) :
    ∃ au ∈ autosOf env.g env.t, au.start = ls ∧ env.g.nterms ≤ au.sym ∧
      r.tree.AllLay (LaySlice env au.sym) ∧ ∀ s, ctx.lay = some s → LaySlice env au.sym s := by
  obtain ⟨au, hin, hstart, hsym⟩ := autoOk_sound env.g env.t ls hau
  refine ⟨au, hin, hstart.symm, hsym, ?_⟩
  have hntg := ntG_main env hc hsk hr hns ls hl hs au hin hstart hsym fuel pp
  have hntp := ntP_layout env hc hsk hr hns ls hl hs au hin hstart hsym pp fuel
  unfold parse parseWith at h
  simp only at h
  split at h
  · rename_i ctx1 tk hnt1
    obtain ⟨htok1, _, hlay1⟩ := hntg _ ctx1 tk hnt1
    have hlay := hlay1 rfl rfl
    refine runLoop_pinv env _ _ hntp (GInv env)
      (fun c c' hj hstep => step_ginv env _ c c' hntg hns hj hstep)
      (fun c hj hah => relexP_layout env hc hsk hr hns ls hl hs au hin hstart hsym pp fuel c hj hah)
      fuel _ ctx r ?_ ⟨by simp, hntp _ ctx1 tk rfl rfl hnt1⟩ h
    refine ⟨by simp [flatRes, endOf], ?_, htok1⟩
    simp only [endOf]; exact hlay
  all_goals (injection h with _ h2; simp at h2)

end Rustemo
