import Rustemo.Proofs.LayoutRT
import Rustemo.Proofs.LayoutRTWs
/-!
# The stored layout is layout (C14, part B)

`Tree.AllLay P t`: every layout slice stored in `t` (at a leaf, or copied to a nonterminal node from
its first child) satisfies `P`.  It is an invariant of the parser loop for every `next_token` that,
called right after a shift (no layout ahead, span ending at the position), only ever records a layout
that satisfies `P` (`NtP`).

* default whitespace skipping: `P s = WsBytes (input slice s)` — whole whitespace characters only;
* Layout rule: `P s = LayoutSentence env lsym s` — the slice is tiled by adjacent recognizer matches
  whose kinds are the yield of a derivation tree of the Layout symbol.
-/
namespace Rustemo

mutual
def Tree.AllLay (P : Slice → Prop) : Tree → Prop
  | .leaf _ _ _ l => ∀ s, l = some s → P s
  | .node _ _ l cs => (∀ s, l = some s → P s) ∧ TreeList.AllLay P cs
def TreeList.AllLay (P : Slice → Prop) : TreeList → Prop
  | .nil => True
  | .cons t ts => Tree.AllLay P t ∧ TreeList.AllLay P ts
end

theorem allLay_ofList (P : Slice → Prop) (l : List Tree) (h : ∀ t ∈ l, t.AllLay P) :
    (TreeList.ofList l).AllLay P := by
  induction l with
  | nil => simp [TreeList.ofList, TreeList.AllLay]
  | cons t ts ih =>
    simp only [TreeList.ofList, TreeList.AllLay]
    exact ⟨h t (by simp), ih (fun x hx => h x (by simp [hx]))⟩

theorem firstLay_allLay (P : Slice → Prop) : ∀ (t : Tree), t.AllLay P → ∀ s, firstLay t = some s → P s
  | .leaf _ _ _ _, h => h
  | .node _ _ _ _, h => h.1

/-- `next_token` called right after a shift records only layouts that satisfy `P` -/
def NtP (P : Slice → Prop) (nt : Ctx → Ctx × Outcome Tok) : Prop :=
  ∀ ctx ctx' tk, ctx.lay = none → ctx.span.e.pos = ctx.pos.pos → nt ctx = (ctx', .ok tk) →
    ∀ s, ctx'.lay = some s → P s

structure PInv (P : Slice → Prop) (c : Cfg) : Prop where
  trees : ∀ t ∈ c.res, t.AllLay P
  ahead : ∀ s, c.ctx.lay = some s → P s

theorem step_pinv (env : Env) (P : Slice → Prop) (nt : Ctx → Ctx × Outcome Tok) (c c' : Cfg)
    (hnt : NtP P nt) (hinv : PInv P c) (hstep : step env nt c = .next c') : PInv P c' := by
  cases step_next_inv env nt c c' hstep with
  | shift state s' acts ctx1 tk htop hcell hnt1 hc' =>
    subst hc'
    refine ⟨?_, hnt _ ctx1 tk rfl rfl hnt1⟩
    intro t ht
    rcases List.mem_cons.mp ht with h | h
    · subst h
      simp only [shiftLeaf, Tree.AllLay]
      exact hinv.ahead
    · exact hinv.trees t h
  | reduce state p len fromState s' pr acts ctx1 tk htop hcell hlen hfrom hpr hgoto hrlen hnt1 hc' =>
    subst hc'
    refine ⟨?_, hinv.ahead⟩
    intro t ht
    rcases List.mem_cons.mp ht with h | h
    · subst h
      simp only [reduceNode, Tree.AllLay]
      have hch : ∀ x ∈ (c.res.take len).reverse, x.AllLay P := by
        intro x hx
        exact hinv.trees x (List.mem_of_mem_take (List.mem_reverse.mp hx))
      refine ⟨?_, allLay_ofList P _ hch⟩
      intro s hs
      unfold childrenLay at hs
      split at hs
      · rename_i ch hhead
        exact firstLay_allLay P ch (hch ch (List.mem_of_head? hhead)) s hs
      · simp at hs
    · exact hinv.trees t (List.mem_of_mem_drop h)

theorem runLoop_pinv (env : Env) (P : Slice → Prop) (nt : Ctx → Ctx × Outcome Tok) (hnt : NtP P nt) :
    ∀ (fuel : Nat) (c : Cfg) (ctx : Ctx) (r : ParseResult), PInv P c →
      runLoop env nt fuel c = (ctx, .ok r) →
      r.tree.AllLay P ∧ ∀ s, ctx.lay = some s → P s := by
  intro fuel
  induction fuel with
  | zero => intro c ctx r _ h; simp [runLoop] at h
  | succ n ih =>
    intro c ctx r hinv h
    unfold runLoop at h
    split at h
    · rename_i c' hstep
      exact ih c' ctx r (step_pinv env P nt c c' hnt hinv hstep) h
    · rename_i ctx' r' hstep
      injection h with h1 h2
      injection h2 with h2
      subst h1 h2
      obtain ⟨_, _, rest, _, _, hctx, hres, _, _⟩ := step_done_inv env nt c ctx' r' hstep
      refine ⟨hinv.trees _ (by rw [hres]; simp), ?_⟩
      rw [hctx]; exact hinv.ahead
    · rename_i ctx' o hstep
      injection h with _ h2
      subst h2
      exact absurd rfl (step_stop_not_ok env nt c ctx' _ hstep r)

theorem parse_pinv (env : Env) (P : Slice → Prop) (pp : Bool) (fuel : Nat)
    (hnt : NtP P (nextTokenMain env pp fuel)) (ctx : Ctx) (r : ParseResult)
    (h : parse env pp fuel = (ctx, .ok r)) :
    r.tree.AllLay P ∧ ∀ s, ctx.lay = some s → P s := by
  unfold parse parseWith at h
  simp only at h
  split at h
  · rename_i ctx1 tk hnt1
    refine runLoop_pinv env P _ hnt fuel _ ctx r ⟨by simp, ?_⟩ h
    exact hnt _ ctx1 tk rfl rfl hnt1
  all_goals (injection h with _ h2; simp at h2)

/-! ## Default whitespace skipping -/

/-- the stored slice is a string of whole whitespace characters -/
def WsSlice (input : List Nat) (s : Slice) : Prop := WsBytes (sliceOf input s)

theorem ntP_ws (env : Env) (hc : env.custom = none) (hl : env.t.layoutState = none) (pp : Bool)
    (fuel : Nat) : NtP (WsSlice env.input) (nextTokenMain env pp fuel) := by
  intro ctx ctx' tk hlay _ hn s hs
  rw [nextTokenMain_eq_base env hl] at hn
  have hl' := (lexNext_lay env hc ctx (env.t.sorted ctx.state)).2.1
  -- the context returned is the one the lexer produced
  have hctx' : ctx' = (lexNext env ctx (env.t.sorted ctx.state)).1 := by
    unfold nextTokenBase at hn
    generalize lexNext env ctx (env.t.sorted ctx.state) = lx at hn
    obtain ⟨ctx1, toks⟩ := lx
    simp only at hn ⊢
    split at hn
    · injection hn with h1 _; exact h1.symm
    · unfold noToken at hn
      simp only at hn
      split at hn
      · injection hn with h1 _; exact h1.symm
      · split at hn <;> (injection hn with h1 _; exact h1.symm)
  rw [← hctx'] at hl'
  rw [hl'] at hs
  cases hsk : env.skipWs with
  | false => rw [hsk] at hs; simp [hlay] at hs
  | true =>
    rw [hsk] at hs
    simp only [↓reduceIte] at hs
    split at hs
    · injection hs with hs
      subst hs
      unfold WsSlice sliceOf
      simp only
      exact wsPrefix_wsBytes _ _
    · simp at hs

/-- **(B i)** default whitespace skipping: every stored layout is whitespace -/
theorem parse_layout_is_ws (env : Env) (hc : env.custom = none) (hl : env.t.layoutState = none)
    (pp : Bool) (fuel : Nat) (ctx : Ctx) (r : ParseResult) (h : parse env pp fuel = (ctx, .ok r)) :
    r.tree.AllLay (WsSlice env.input) ∧ ∀ s, ctx.lay = some s → WsSlice env.input s :=
  parse_pinv env _ pp fuel (ntP_ws env hc hl pp fuel) ctx r h

/-! ## Layout rule -/

/-- the slice is tiled by adjacent recognizer matches (`toks`, most recent first) whose kinds are the
    yield of a derivation tree of the symbol `lsym` -/
def LayoutSentence (env : Env) (lsym : Nat) (s : Slice) : Prop :=
  ∃ (tr : Tree) (toks : List Tok), tr.Valid env.g lsym ∧ tr.yield = (toks.map (·.kind)).reverse ∧
    HChain env toks s.1 (s.1 + s.2)

theorem ntP_layout (env : Env) (hc : env.custom = none) (hsk : env.skipWs = false) (hr : RecogOk env)
    (hns : NoShiftStop env.t) (ls : Nat) (hl : env.t.layoutState = some ls)
    (hs : Structural env.g env.t (autosOf env.g env.t)) (au : Auto) (hin : au ∈ autosOf env.g env.t)
    (hstart : ls = au.start) (hsym : env.g.nterms ≤ au.sym) (pp : Bool) (fuel : Nat) :
    NtP (LayoutSentence env au.sym) (nextTokenMain env pp fuel) := by
  intro ctx ctx' tk hlay hE hn s hs'
  unfold nextTokenMain lexNext at hn
  rw [hc, hsk] at hn
  simp only [Bool.false_eq_true, ↓reduceIte] at hn
  split at hn
  · injection hn with h1 _
    rw [← h1, hlay] at hs'; simp at hs'
  · rw [hl] at hn
    simp only at hn
    generalize hlp : layoutParse env ls ctx fuel = lp at hn
    obtain ⟨cx, r⟩ := lp
    have hcl := layoutParse_lay_none env hc hsk ls ctx fuel cx r hlay hlp
    simp only at hn
    split at hn
    · rename_i pr
      split at hn
      · rename_i off len hslice
        split at hn
        · have hctx' := ntBase_ctx env hc hsk pp _ _ _ hn
          subst hctx'
          simp only at hs'
          injection hs' with hs'
          subst hs'
          obtain ⟨hsl, hle, hch, hv, hy⟩ := layoutParse_slice env hc hsk hr hns _ hs au hin ls hstart hsym
            ctx hE fuel cx pr hlp
          rw [hslice] at hsl
          injection hsl with hsl
          injection hsl with ho hlen'
          subst ho hlen'
          refine ⟨pr.tree, pr.hist, hv, hy, ?_⟩
          simp only
          have : ctx.pos.pos + (cx.pos.pos - ctx.pos.pos) = cx.pos.pos := by omega
          rw [this]; exact hch
        · obtain ⟨hctx', _⟩ := noToken_inv env pp _ _ _ hn
          subst hctx'
          simp only [hcl] at hs'
          simp at hs'
      · obtain ⟨hctx', _⟩ := noToken_inv env pp _ _ _ hn
        subst hctx'
        simp only [hcl] at hs'
        simp at hs'
    · obtain ⟨hctx', _⟩ := noToken_inv env pp _ _ _ hn
      subst hctx'
      simp only [hcl] at hs'
      simp at hs'
    · injection hn with _ h2; simp at h2
    · injection hn with _ h2; simp at h2

/-- **(B ii)** Layout rule: every stored layout is a sentence of the Layout symbol, tiled by
    adjacent tokens -/
theorem parse_layout_is_sentence (env : Env) (hc : env.custom = none) (hsk : env.skipWs = false)
    (hr : RecogOk env) (hns : NoShiftStop env.t) (ls : Nat) (hl : env.t.layoutState = some ls)
    (hs : Structural env.g env.t (autosOf env.g env.t)) (hau : LayoutCert.autoOk env.g env.t ls = true)
    (pp : Bool) (fuel : Nat) (ctx : Ctx) (r : ParseResult) (h : parse env pp fuel = (ctx, .ok r)) :
    ∃ au ∈ autosOf env.g env.t, au.start = ls ∧ env.g.nterms ≤ au.sym ∧
      r.tree.AllLay (LayoutSentence env au.sym) ∧ ∀ s, ctx.lay = some s → LayoutSentence env au.sym s := by
  obtain ⟨au, hin, hstart, hsym⟩ := autoOk_sound env.g env.t ls hau
  exact ⟨au, hin, hstart.symm, hsym,
    parse_pinv env _ pp fuel (ntP_layout env hc hsk hr hns ls hl hs au hin hstart hsym pp fuel) ctx r h⟩

end Rustemo
