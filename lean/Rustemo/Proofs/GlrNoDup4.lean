import Rustemo.Proofs.GlrNoDup3
import Rustemo.Proofs.GlrRun11
import Rustemo.Model.GlrNoDupCert
/-!
# No duplicates under `LexDet`, from three facts about possibility lists
-/
namespace Rustemo.Glr
open Rustemo

/-- what is NOT established by the run invariant (see notes/Glr.md): the possibility lists are duplicate free -/
structure PossFacts (g : Gss) : Prop where
  possNodup : ∀ (e : Nat) (ed : Edge), g.edges[e]? = some ed → ed.poss.Nodup
  termOne : ∀ (e : Nat) (ed : Edge) (n n' : Nat) (tk tk' : Tok) (sp sp' : Span), g.edges[e]? = some ed → n ∈ ed.poss →
    n' ∈ ed.poss → g.nodes[n]? = some (.term tk sp) → g.nodes[n']? = some (.term tk' sp') → n = n'
  possDistinct : ∀ (e : Nat) (ed : Edge) (n n' p : Nat) (sp sp' : Span) (l l' : Option Slice) (C C' : List Nat),
    g.edges[e]? = some ed → n ∈ ed.poss → n' ∈ ed.poss → n ≠ n' → g.nodes[n]? = some (.nonterm p sp l C) →
    g.nodes[n']? = some (.nonterm p sp' l' C') → ¬ (C <+: C' ∨ C' <+: C)

/-- the roots of a `Final` state hang on edges from level `n` down to the start head -/
theorem final_root_edges {env : Env} (hT : TableOk env) (hC : CompleteRN env.g env.t)
    {pp : Bool} {fuel n : Nat} {tok : Nat → Tok} {P L : Nat → Pos} (hL : LexDet env pp fuel n tok P L)
    {F : Nat} {st : St} {subs : Nat → SubFrontier} (RI : RunInv env tok P F st [] subs) (hF : F ≤ n + 1) :
    ∀ m ∈ forestRoots st.gss st.accepted, ∃ (e : Nat) (ed : Edge) (hs hd : Head), st.gss.edges[e]? = some ed ∧ m ∈ ed.poss ∧
      st.gss.heads[ed.src]? = some hs ∧ st.gss.heads[ed.dst]? = some hd ∧ hd.frontier = 0 ∧ hd.state = 0 ∧
      hs.frontier = n ∧ env.t.symAt hs.state = env.g.startIdx := by
  intro m hm
  have hg := RI.sok.g
  unfold forestRoots at hm
  simp only [List.mem_flatMap] at hm
  obtain ⟨v, hv, e, he, hm⟩ := hm
  obtain ⟨ed, hed, hsrc⟩ := mem_backedges.mp he
  rw [possOf_eq hed] at hm
  have hacc := RI.sok.acc v hv
  obtain ⟨hs, hd0, hhs, hhd, hl0, hsy, hs0⟩ := accepted_edge hT hg hacc hed hsrc
  obtain ⟨hda, tka, hhda, htka, hact⟩ := hacc
  have hhs' := hhs
  rw [hsrc, hhda] at hhs'; injection hhs' with hhs'; subst hhs'
  have hk0 : tka.kind = 0 := hC.acceptStop _ _ hact
  have hlt : hda.frontier < F := by
    rcases Nat.lt_or_ge hda.frontier F with hlt | hge
    · exact hlt
    · have := RI.gu.noAbove v hda hhda
      have heq : hda.frontier = F := by omega
      have := RI.blevel v hda hhda heq
      simp at this
  have htk := RI.toks v hda hhda hlt tka htka
  have hlv : hda.frontier = n := by
    rcases Nat.lt_or_ge hda.frontier n with h1 | h1
    · have := (hL.terms hda.frontier h1).1
      rw [← htk, hk0] at this
      omega
    · omega
  exact ⟨e, ed, hda, hd0, hed, hm, hhs, hhd, hl0, hs0, hlv, hsy⟩

/-- **No duplicates under `LexDet`, from the possibility facts**: if on every edge of the result graph the
    possibility list has no repetition, at most one terminal node, and no two non-terminal possibilities of one
    production with prefix-comparable children lists, and the root list has no repetition, then two different indices
    never give the same derivation. -/
theorem parse_nodup {env : Env} (hT : TableOk env) (hC : CompleteRN env.g env.t) (hW : GWF env.g)
    {pp : Bool} {fuel n : Nat} {tok : Nat → Tok} {P L : Nat → Pos} (hL : LexDet env pp fuel n tok P L)
    {r : GlrResult} (ho : parse env pp fuel = .ok r) (hp : PossFacts r.gss) (hroots : r.roots.Nodup)
    (hc : r.droots.hasCut = false) {i j : Nat} {ti tj : Tree} (hi : r.getTree i = some ti) (hj : r.getTree j = some tj)
    (hsame : Tree.SameDerivation ti tj) : i = j := by
  rcases parse_final hT hC hW hL with h1 | ⟨s, h1⟩ | h1
  · rw [h1] at ho; cases ho
  · rw [h1] at ho; cases ho
  · obtain ⟨F, st, lastBase, subs, RI, hF, hoe⟩ := h1
    rw [ho] at hoe
    have hr : r = ⟨st.gss, forestRoots st.gss st.accepted⟩ := by
      split at hoe
      · injection hoe
      · exact absurd hoe.symm (makeError_not_ok _ _ _ _)
    subst hr
    have G : NoDupG env st.gss :=
      ⟨RI.sok.g, RI.gu.edgeUniq, RI.hfun, hp.possNodup, hp.termOne, hp.possDistinct, fun _ _ _ _ h1 h2 => hC.trans_det h1 h2⟩
    have R : RootsG env ⟨st.gss, forestRoots st.gss st.accepted⟩ n := ⟨hroots, final_root_edges hT hC hL RI hF⟩
    exact getTree_nodup G R hc hi hj hsame

end Rustemo.Glr

namespace Rustemo.Glr
open Rustemo

theorem possFactsB_sound (g : Gss) (h : possFactsB g = true) : PossFacts g := by
  unfold possFactsB at h
  rw [List.all_eq_true] at h
  have hed : ∀ (e : Nat) (ed : Edge), g.edges[e]? = some ed → ed ∈ g.edges.toList := by
    intro e ed he
    rw [Array.mem_toList_iff]
    exact Array.mem_of_getElem? he
  have hpair : ∀ (e : Nat) (ed : Edge) (n n' : Nat), g.edges[e]? = some ed → n ∈ ed.poss → n' ∈ ed.poss → n ≠ n' →
      (match g.nodes[n]?, g.nodes[n']? with
       | some (.term _ _), some (.term _ _) => false
       | some (.nonterm p _ _ C), some (.nonterm p' _ _ C') => p != p' || !(zipEq C C')
       | _, _ => true) = true := by
    intro e ed n n' he hn hn' hne
    have := h ed (hed e ed he)
    simp only [Bool.and_eq_true, List.all_eq_true] at this
    have := this.2 n hn n' hn'
    simp only [Bool.or_eq_true, beq_iff_eq] at this
    rcases this with k | k
    · exact absurd k hne
    · exact k
  refine ⟨?_, ?_, ?_⟩
  · intro e ed he
    have := h ed (hed e ed he)
    simp only [Bool.and_eq_true, decide_eq_true_eq] at this
    exact this.1
  · intro e ed n n' tk tk' sp sp' he hn hn' hnd hnd'
    rcases Nat.decEq n n' with hne | heq
    · have := hpair e ed n n' he hn hn' hne
      rw [hnd, hnd'] at this
      simp at this
    · exact heq
  · intro e ed n n' p sp sp' l l' C C' he hn hn' hne hnd hnd' hcmp
    have := hpair e ed n n' he hn hn' hne
    rw [hnd, hnd'] at this
    simp only [bne_self_eq_false, Bool.false_or, Bool.not_eq_true'] at this
    have hz := (zipEq_iff C C').mpr hcmp
    rw [hz] at this
    exact absurd this (by simp)

/-- for the non-vacuity examples: the hypotheses of `parse_nodup` that are not established by the run invariant -/
def nodupHypsB (o : Outcome GlrResult) : Bool :=
  match o with
  | .ok r => possFactsB r.gss && decide r.roots.Nodup && !r.droots.hasCut
  | _ => false

end Rustemo.Glr
