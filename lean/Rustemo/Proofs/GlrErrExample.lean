import Rustemo.Proofs.GlrExampleLex
import Rustemo.Proofs.GlrExampleNul
import Rustemo.Model.CertViable
/-!
# Non-vacuity for the error theorems (C12, GLR half): a run that ends in an error

The real LALR_RN table of `S: Ta A; A: B | C; B: EMPTY; C: EMPTY` (Proofs/GlrExampleNul.lean; the language is `{a}`)
on the input `aa`: the second `a` is the first offending token.
-/
namespace Rustemo.Glr.ExampleErr
open Rustemo Rustemo.Glr

/-- the input `aa` -/
def env : Env := { g := ExampleNul.g, t := ExampleNul.t, input := [97, 97], recog := Example.recogA 2 }

def lookB (i s : Nat) : Bool :=
  let r := findLookaheadsCtx env false 9 ⟨s, Example.pos i, default, none⟩
  r.1.pos == Example.pos i &&
  (match r.2 with
   | .ok l => l == (if (env.t.cell s (Example.tok i).kind).isEmpty then [] else [Example.tok i])
   | _ => false)

theorem lookB_all : ∀ i, i ≤ 2 → ∀ s, s < 6 → lookB i s = true := by decide +kernel

/-- `LexDet` holds of the run on `aa` (tokens `a`, `a`, STOP) -/
theorem lexDet_aa : LexDet env false 9 2 Example.tok Example.pos Example.pos := by
  refine ⟨rfl, ?_, ?_, rfl, ?_⟩
  · intro i hi
    have : i = 0 ∨ i = 1 := by omega
    rcases this with rfl | rfl <;> decide
  · intro i hi ctx hp hs
    obtain ⟨h1, h2⟩ := Example.findLookaheadsCtx_indep env rfl rfl 9 ctx
    rw [h1, h2, hp]
    have hb := lookB_all i hi ctx.state hs
    unfold lookB at hb
    simp only [Bool.and_eq_true, beq_iff_eq] at hb
    obtain ⟨hb1, hb2⟩ := hb
    refine ⟨hb1, ?_⟩
    split at hb2
    · rename_i l hl
      rw [hl]
      simp only [beq_iff_eq] at hb2
      rw [hb2]
    · simp at hb2
  · intro i hi
    have : i = 0 ∨ i = 1 := by omega
    rcases this with rfl | rfl <;> decide

/-- the outcome as a comparable value -/
def errOf (o : Outcome GlrResult) : Option (Nat × Nat × Nat × List Nat) :=
  match o with
  | .err (.expected p ks) => some (p.pos, p.line, p.col, ks)
  | _ => none

end Rustemo.Glr.ExampleErr
