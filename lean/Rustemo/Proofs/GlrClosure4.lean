import Rustemo.Proofs.GlrClosure3
/-!
# What `reducePath` does, as equations (inversion of the `obind` chain)
-/
namespace Rustemo.Glr
open Rustemo

theorem obind_eq_ok {α β : Type} {o : Outcome α} {f : α → Outcome β} {b : β} (h : obind o f = .ok b) :
    ∃ a, o = .ok a ∧ f a = .ok b := by
  cases o with
  | ok a => exact ⟨a, rfl, h⟩
  | err e => simp [obind] at h
  | panic s => simp [obind] at h
  | fuel => simp [obind] at h

theorem head_eq_ok {g : Gss} {h : Nat} {hd : Head} (hh : g.head h = .ok hd) : g.heads[h]? = some hd := by
  unfold Gss.head at hh
  split at hh
  · injection hh with hh; subst hh; assumption
  · simp at hh

theorem edge_eq_ok {g : Gss} {e : Nat} {ed : Edge} (hh : g.edge e = .ok ed) : g.edges[e]? = some ed := by
  unfold Gss.edge at hh
  split at hh
  · injection hh with hh; subst hh; assumption
  · simp at hh

theorem tokKind_eq_ok {hd : Head} {k : Nat} (h : tokKind hd = .ok k) : ∃ tk, hd.tok = some tk ∧ tk.kind = k := by
  unfold tokKind at h
  split at h
  · rename_i tk htk; injection h with h; exact ⟨tk, htk, h⟩
  · simp at h

/-- the two ways `findOrCreateHead` succeeds -/
theorem findOrCreateHead_inv {g : Gss} {sub : SubFrontier} {shead : Head} {s' : Nat}
    {r : Gss × SubFrontier × Nat × Bool} (h : findOrCreateHead g sub shead s' = .ok r) :
    (sfGet s' sub = some r.2.2.1 ∧ r = (g, sub, r.2.2.1, false)) ∨
    (sfGet s' sub = none ∧ r = ((g.addHead { shead with state := s' }).1, sfInsert s' g.heads.size sub, g.heads.size, true)) := by
  unfold findOrCreateHead at h
  split at h
  · rename_i hA hget
    injection h with h; subst h
    exact Or.inl ⟨hget, rfl⟩
  · rename_i hget
    split at h
    · simp at h
    · injection h with h; subst h
      exact Or.inr ⟨by simpa using hget, rfl⟩

/-- the data of a successful `reducePath` -/
structure RPData (env : Env) (prod startHead : Nat) (rs : RState) (path : Path) where
  sh : Head
  tk : Tok
  hr : Head
  pr : Prod
  s' : Nat

structure RPFacts (env : Env) (prod startHead : Nat) (rs : RState) (path : Path) (d : RPData env prod startHead rs path) : Prop where
  hsh : rs.gss.heads[startHead]? = some d.sh
  htk : d.sh.tok = some d.tk
  hhr : rs.gss.heads[path.root]? = some d.hr
  hpr : env.g.prods[prod]? = some d.pr
  hgoto : env.t.goto env.g d.hr.state d.pr.lhs = some d.s'

/-- the state after a new solution was registered -/
def rpNew (env : Env) (rs : RState) (prod : Nat) (path : Path) (hr : Head) (s' kind : Nat) (g1 : Gss)
    (sub1 : SubFrontier) (hA : Nat) (hc : Bool) (span : Span) : RState :=
  let E := findOrCreateEdge g1 hA path.root
  let reg := registerActions hA E.2.1 hc E.2.2 (env.t.cell s' kind) (rs.queue, rs.shifts, rs.accepted)
  { gss := (E.1.addNode (.nonterm prod span hr.lay path.parents)).1.pushPoss E.2.1 E.1.nodes.size,
    queue := reg.1, shifts := reg.2.1, accepted := reg.2.2, sub := sub1 }

/-- the three outcomes -/
inductive RPCase (env : Env) (prod startHead : Nat) (rs : RState) (path : Path) (d : RPData env prod startHead rs path)
    (rs' : RState) : Prop
  | skip : env.t.cell d.s' d.tk.kind = [] → rs' = rs → RPCase env prod startHead rs path d rs'
  | fold (g1 : Gss) (sub1 : SubFrontier) (hA : Nat) (hc : Bool) (ed : Edge) :
      env.t.cell d.s' d.tk.kind ≠ [] →
      findOrCreateHead rs.gss rs.sub d.sh d.s' = .ok (g1, sub1, hA, hc) →
      (findOrCreateEdge g1 hA path.root).1.edges[(findOrCreateEdge g1 hA path.root).2.1]? = some ed →
      (hc || (findOrCreateEdge g1 hA path.root).2.2 ||
        allDiffer (findOrCreateEdge g1 hA path.root).1 prod path.parents ed.poss) = false →
      rs' = { rs with gss := replaceChildren (findOrCreateEdge g1 hA path.root).1 prod path.parents ed.poss, sub := sub1 } →
      RPCase env prod startHead rs path d rs'
  | new (g1 : Gss) (sub1 : SubFrontier) (hA : Nat) (hc : Bool) (ed : Edge) (span : Span) :
      env.t.cell d.s' d.tk.kind ≠ [] →
      findOrCreateHead rs.gss rs.sub d.sh d.s' = .ok (g1, sub1, hA, hc) →
      (findOrCreateEdge g1 hA path.root).1.edges[(findOrCreateEdge g1 hA path.root).2.1]? = some ed →
      (hc || (findOrCreateEdge g1 hA path.root).2.2 ||
        allDiffer (findOrCreateEdge g1 hA path.root).1 prod path.parents ed.poss) = true →
      rs' = rpNew env rs prod path d.hr d.s' d.tk.kind g1 sub1 hA hc span →
      RPCase env prod startHead rs path d rs'

theorem reducePath_inv {env : Env} {prod startHead : Nat} {rs rs' : RState} {path : Path}
    (h0 : reducePath env prod startHead rs path = .ok rs') :
    ∃ d : RPData env prod startHead rs path, RPFacts env prod startHead rs path d ∧ RPCase env prod startHead rs path d rs' := by
  unfold reducePath at h0
  obtain ⟨sh, h1, ha⟩ := obind_eq_ok h0
  clear h0
  obtain ⟨k, h2, hb⟩ := obind_eq_ok ha
  obtain ⟨hr, h3, hc⟩ := obind_eq_ok hb
  obtain ⟨lhs, h4, hd⟩ := obind_eq_ok hc
  obtain ⟨s', h5, h⟩ := obind_eq_ok hd
  clear ha hb hc hd
  obtain ⟨tk, htk, hk⟩ := tokKind_eq_ok h2
  subst hk
  have hpr : ∃ pr, env.g.prods[prod]? = some pr ∧ pr.lhs = lhs := by
    unfold prodLhs at h4
    split at h4
    · rename_i pr hpr; injection h4 with h4; exact ⟨pr, hpr, h4⟩
    · simp at h4
  obtain ⟨pr, hpr, hl⟩ := hpr
  subst hl
  have hgoto : env.t.goto env.g hr.state pr.lhs = some s' := by
    unfold gotoState at h5
    split at h5
    · rename_i x hx; injection h5 with h5; subst h5; exact hx
    · simp at h5
  refine ⟨⟨sh, tk, hr, pr, s'⟩, ⟨head_eq_ok h1, htk, head_eq_ok h3, hpr, hgoto⟩, ?_⟩
  simp only at h
  split at h
  · rename_i hempty
    injection h with h
    exact RPCase.skip (by simpa using hempty) h.symm
  · rename_i hne
    have hne' : env.t.cell s' tk.kind ≠ [] := by simpa using hne
    obtain ⟨r1, hf, h⟩ := obind_eq_ok h
    obtain ⟨g1, sub1, hA, hc⟩ := r1
    simp only at h
    obtain ⟨ed, hed, h⟩ := obind_eq_ok h
    have hed' := edge_eq_ok hed
    split at h
    · rename_i hnew
      injection h with h
      exact RPCase.fold g1 sub1 hA hc ed hne' hf hed' (by simpa using hnew) h.symm
    · rename_i hnew
      obtain ⟨span, _, h⟩ := obind_eq_ok h
      injection h with h
      have hnew' : (hc || (findOrCreateEdge g1 hA path.root).2.2 ||
          allDiffer (findOrCreateEdge g1 hA path.root).1 prod path.parents ed.poss) = true := by
        cases hx : (hc || (findOrCreateEdge g1 hA path.root).2.2 ||
          allDiffer (findOrCreateEdge g1 hA path.root).1 prod path.parents ed.poss) with
        | true => rfl
        | false => rw [hx] at hnew; simp at hnew
      exact RPCase.new g1 sub1 hA hc ed span hne' hf hed' hnew' h.symm

end Rustemo.Glr
