import Rustemo.Proofs.FrontStart
/-!
# The hypotheses of the theorems are the finding classes of `Wf.lean`

`Clean` / `Safe` follow from the decidable class predicates the driver reports (`front class`) being
false; so "the case is in no class" is exactly "the theorems apply to the case".
-/
namespace Rustemo.Front

theorem uses_inj_of_sepClash {fx : Fixes} {f : File} (h : f.sepClash fx = false) :
    ∀ u v, u ∈ f.uses fx → v ∈ f.uses fx → u.helper fx = v.helper fx → u = v := by
  intro u v hu hv e
  unfold File.sepClash at h
  by_cases huv : u = v
  · exact huv
  · exfalso
    have : ((f.uses fx).any fun u => (f.uses fx).any fun v => u.helper fx == v.helper fx && u != v) = true := by
      apply List.any_eq_true.mpr
      refine ⟨u, hu, ?_⟩
      apply List.any_eq_true.mpr
      refine ⟨v, hv, ?_⟩
      simp [e, huv]
    rw [this] at h
    cases h

theorem apart_of_helperCapture {fx : Fixes} {f : File} (h : f.helperCapture fx = false) :
    ∀ u, u ∈ f.uses fx → u.helper fx ∉ ruleNamesOf f ∧ u.helper fx ∉ kSTOP :: termNamesOf f := by
  intro u hu
  unfold File.helperCapture at h
  have hm : u.helper fx ∈ f.helperNames fx := by
    unfold File.helperNames
    exact List.mem_map_of_mem hu
  have := List.any_eq_false.mp h (u.helper fx) hm
  simp only [Bool.or_eq_true, not_or, Bool.not_eq_true] at this
  constructor
  · intro hc
    have : (ruleNamesOf f).contains (u.helper fx) = true := by simpa using hc
    simp_all
  · intro hc
    have : (kSTOP :: termNamesOf f).contains (u.helper fx) = true := by simpa using hc
    simp_all

theorem dupT_of_class {fx : Fixes} {f : File} (h : (!fx.dupNameErr && f.dupTerminal) = false) :
    fx.dupNameErr = true ∨ f.dupTerminal = false := by
  cases hf : fx.dupNameErr with
  | true => exact Or.inl rfl
  | false =>
    rw [hf] at h
    exact Or.inr (by simpa using h)

/-- a file in none of the classes `emptyAlts`, `dupTerminal`, `sepClash`, `helperCapture`,
`reservedRule` (as the driver reports them for the variant) is `Clean` -/
theorem clean_of_classes {fx : Fixes} {f : File}
    (h1 : (f.ruleList.any fun r => r.alts.isEmpty) = false) (h2 : (!fx.dupNameErr && f.dupTerminal) = false)
    (h3 : f.sepClash fx = false) (h4 : (!fx.helperClashErr && f.helperCapture fx) = false)
    (h5 : (!fx.reservedErr && f.reservedRule) = false) :
    Clean fx f := by
  refine ⟨?_, dupT_of_class h2, uses_inj_of_sepClash h3, ?_, ?_⟩
  · intro r hr e
    have := List.any_eq_false.mp h1 r hr
    rw [e] at this
    simp at this
  · cases hf : fx.helperClashErr with
    | true => exact Or.inl rfl
    | false =>
      rw [hf] at h4
      exact Or.inr (apart_of_helperCapture (by simpa using h4))
  · cases hf : fx.reservedErr with
    | true => exact Or.inl rfl
    | false =>
      rw [hf] at h5
      right
      have h5' : f.reservedRule = false := by simpa using h5
      intro n hn
      unfold File.reservedRule at h5'
      have := List.any_eq_false.mp h5' n hn
      simp only [List.contains_cons, List.contains_nil, Bool.or_false, Bool.or_eq_true, beq_iff_eq, not_or] at this
      exact ⟨this.1, this.2.1, this.2.2⟩

theorem refSafe_of_classes {fx : Fixes} {f : File}
    (hg : (!fx.groupErr && f.allRefs.any SymRef.isGroup) = false)
    (hy : (!fx.greedyErr && f.allRefs.any SymRef.isGreedy) = false)
    (hm : (!fx.modifiersErr && f.allRefs.any SymRef.badModifiers) = false) :
    ∀ r, r ∈ f.ruleList → RuleSafe fx r := by
  intro r hr alt halt a ha
  have hmem : a.symRef ∈ f.allRefs := by
    unfold File.allRefs File.allAssigns File.allAlts
    apply List.mem_map.mpr
    exact ⟨a, List.mem_flatMap.mpr ⟨alt, List.mem_flatMap.mpr ⟨r, hr, halt⟩, ha⟩, rfl⟩
  refine ⟨?_, ?_, ?_⟩
  · cases hf : fx.groupErr with
    | true => exact Or.inl rfl
    | false =>
      right
      rw [hf] at hg
      simp only [Bool.not_false, Bool.true_and] at hg
      exact List.any_eq_false.mp hg _ hmem |> fun h => by simpa using h
  · cases hf : fx.greedyErr with
    | true => exact Or.inl rfl
    | false =>
      right
      rw [hf] at hy
      simp only [Bool.not_false, Bool.true_and] at hy
      exact List.any_eq_false.mp hy _ hmem |> fun h => by simpa using h
  · cases hf : fx.modifiersErr with
    | true => exact Or.inl rfl
    | false =>
      right
      rw [hf] at hm
      simp only [Bool.not_false, Bool.true_and] at hm
      exact List.any_eq_false.mp hm _ hmem |> fun h => by simpa using h

/-- a file in none of the classes `bigInt`, `noRules`, `emptyRules`, `emptyAlts`, `group`, `greedy`,
`modifiers`, `dupTerminal`, `helperCapture` is `Safe` -/
theorem safe_of_classes {fx : Fixes} {f : File}
    (h0 : (!fx.intErr && f.big u32Max) = false) (h1 : (!fx.noRulesErr && f.rules.isNone) = false)
    (h2 : (f.rules == some []) = false) (h3 : (f.ruleList.any fun r => r.alts.isEmpty) = false)
    (hg : (!fx.groupErr && f.allRefs.any SymRef.isGroup) = false)
    (hy : (!fx.greedyErr && f.allRefs.any SymRef.isGreedy) = false)
    (hm : (!fx.modifiersErr && f.allRefs.any SymRef.badModifiers) = false)
    (h4 : (!fx.dupNameErr && f.dupTerminal) = false) (h5 : (!fx.helperClashErr && f.selfHelper fx) = false) :
    Safe fx f := by
  have h5' : fx.helperClashErr = true ∨ f.selfHelper fx = false := by
    cases hf : fx.helperClashErr with
    | true => exact Or.inl rfl
    | false =>
      rw [hf] at h5
      exact Or.inr (by simpa using h5)
  refine ⟨?_, ?_, ?_, refSafe_of_classes hg hy hm, ?_, dupT_of_class h4, h5'⟩
  · cases hb : f.big u32Max with
    | false => exact Or.inr rfl
    | true =>
      left
      rw [hb] at h0
      simpa using h0
  · intro e
    rw [e] at h2
    simp at h2
  · cases hf : fx.noRulesErr with
    | true => exact Or.inl rfl
    | false =>
      right
      intro e
      rw [hf, e] at h1
      simp at h1
  · intro r hr e
    have := List.any_eq_false.mp h3 r hr
    rw [e] at this
    simp at this

end Rustemo.Front
