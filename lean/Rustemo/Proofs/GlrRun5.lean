import Rustemo.Proofs.GlrRun4
/-!
# The reducer of a fresh sub-frontier starts in a state that satisfies the closure invariant
-/
namespace Rustemo.Glr
open Rustemo

theorem ChainEnd.lastEdge {t : Table} {g : Gss} : ∀ {P Xs : List Nat} {u v : Nat}, ChainEnd t g P Xs u v → P ≠ [] →
    ∃ (e : Nat) (ed : Edge), P[P.length - 1]? = some e ∧ g.edges[e]? = some ed ∧ ed.src = v
  | [], _, _, _, _, hne => absurd rfl hne
  | e :: es, _, _, _, h, _ => by
    obtain ⟨ed, hs, X, Xs', he, hhs, hXs, hdst, hsym, hr⟩ := h
    cases es with
    | nil =>
      have := hr.2
      exact ⟨e, ed, by simp, he, this⟩
    | cons e2 es2 =>
      obtain ⟨e', ed', h1, h2, h3⟩ := ChainEnd.lastEdge hr (by simp)
      refine ⟨e', ed', ?_, h2, h3⟩
      simp only [List.length_cons, Nat.add_sub_cancel] at h1 ⊢
      rw [List.getElem?_cons_succ]
      exact h1

/-- what `initialActions` records for one head -/
structure IASpec (g : Gss) (head : Nat) (acts : List Action) (acc r : List Reduction × List (Nat × Nat) × List Nat) :
    Prop where
  q_mono : ∀ x ∈ acc.1, x ∈ r.1
  s_mono : ∀ x ∈ acc.2.1, x ∈ r.2.1
  a_mono : ∀ x ∈ acc.2.2, x ∈ r.2.2
  red0 : ∀ p, Action.reduce p 0 ∈ acts → (⟨.node head, p, 0⟩ : Reduction) ∈ r.1
  red : ∀ p len, Action.reduce p len ∈ acts → 0 < len → ∀ e ∈ g.backedges head, (⟨.edge e, p, len⟩ : Reduction) ∈ r.1
  shift : ∀ s, Action.shift s ∈ acts → (head, s) ∈ r.2.1
  accept : Action.accept ∈ acts → head ∈ r.2.2
  q_inv : ∀ x ∈ r.1, x ∈ acc.1 ∨ x.start = .node head ∨ ∃ e ∈ g.backedges head, x.start = .edge e

theorem initialActions_spec (g : Gss) (head : Nat) : ∀ (acts : List Action)
    (acc : List Reduction × List (Nat × Nat) × List Nat), IASpec g head acts acc (initialActions g head acts acc)
  | [], acc => by
    simp only [initialActions]
    exact ⟨fun _ h => h, fun _ h => h, fun _ h => h, fun _ h => by simp at h, fun _ _ h => by simp at h,
      fun _ h => by simp at h, fun h => by simp at h, fun _ h => Or.inl h⟩
  | act :: rest, (q, sh, ac) => by
    cases act with
    | reduce p len =>
      simp only [initialActions]
      split
      · rename_i hl
        subst hl
        have ih := initialActions_spec g head rest (q ++ [⟨.node head, p, 0⟩], sh, ac)
        refine ⟨fun x hx => ih.q_mono x (by simp [hx]), ih.s_mono, ih.a_mono, ?_, ?_, ?_, ?_, ?_⟩
        · intro p' hp'
          rcases List.mem_cons.mp hp' with heq | hr
          · injection heq with h1 _; subst h1; exact ih.q_mono _ (by simp)
          · exact ih.red0 p' hr
        · intro p' len' hp' hl' e he
          rcases List.mem_cons.mp hp' with heq | hr
          · injection heq with _ h2; omega
          · exact ih.red p' len' hr hl' e he
        · intro s hs
          rcases List.mem_cons.mp hs with heq | hr
          · cases heq
          · exact ih.shift s hr
        · intro ha
          rcases List.mem_cons.mp ha with heq | hr
          · cases heq
          · exact ih.accept hr
        · intro x hx
          rcases ih.q_inv x hx with h | h | h
          · simp only [List.mem_append, List.mem_singleton] at h
            rcases h with h | h
            · exact Or.inl h
            · subst h; exact Or.inr (Or.inl rfl)
          · exact Or.inr (Or.inl h)
          · exact Or.inr (Or.inr h)
      · rename_i hl
        have ih := initialActions_spec g head rest (q ++ (g.backedges head).map (fun e => ⟨.edge e, p, len⟩), sh, ac)
        refine ⟨fun x hx => ih.q_mono x (by simp [hx]), ih.s_mono, ih.a_mono, ?_, ?_, ?_, ?_, ?_⟩
        · intro p' hp'
          rcases List.mem_cons.mp hp' with heq | hr
          · injection heq with _ h2; exact absurd h2.symm hl
          · exact ih.red0 p' hr
        · intro p' len' hp' hl' e he
          rcases List.mem_cons.mp hp' with heq | hr
          · injection heq with h1 h2; subst h1; subst h2
            apply ih.q_mono
            simp only [List.mem_append, List.mem_map]
            exact Or.inr ⟨e, he, rfl⟩
          · exact ih.red p' len' hr hl' e he
        · intro s hs
          rcases List.mem_cons.mp hs with heq | hr
          · cases heq
          · exact ih.shift s hr
        · intro ha
          rcases List.mem_cons.mp ha with heq | hr
          · cases heq
          · exact ih.accept hr
        · intro x hx
          rcases ih.q_inv x hx with h | h | h
          · simp only [List.mem_append, List.mem_map] at h
            rcases h with h | ⟨e, he, rfl⟩
            · exact Or.inl h
            · exact Or.inr (Or.inr ⟨e, he, rfl⟩)
          · exact Or.inr (Or.inl h)
          · exact Or.inr (Or.inr h)
    | shift s0 =>
      simp only [initialActions]
      have ih := initialActions_spec g head rest (q, (head, s0) :: sh, ac)
      refine ⟨ih.q_mono, fun x hx => ih.s_mono x (by simp [hx]), ih.a_mono, ?_, ?_, ?_, ?_, ih.q_inv⟩
      · intro p' hp'
        rcases List.mem_cons.mp hp' with heq | hr
        · cases heq
        · exact ih.red0 p' hr
      · intro p' len' hp' hl' e he
        rcases List.mem_cons.mp hp' with heq | hr
        · cases heq
        · exact ih.red p' len' hr hl' e he
      · intro s hs
        rcases List.mem_cons.mp hs with heq | hr
        · injection heq with h1; subst h1; exact ih.s_mono _ (by simp)
        · exact ih.shift s hr
      · intro ha
        rcases List.mem_cons.mp ha with heq | hr
        · cases heq
        · exact ih.accept hr
    | accept =>
      simp only [initialActions]
      have ih := initialActions_spec g head rest (q, sh, ac ++ [head])
      refine ⟨ih.q_mono, ih.s_mono, fun x hx => ih.a_mono x (by simp [hx]), ?_, ?_, ?_, ?_, ih.q_inv⟩
      · intro p' hp'
        rcases List.mem_cons.mp hp' with heq | hr
        · cases heq
        · exact ih.red0 p' hr
      · intro p' len' hp' hl' e he
        rcases List.mem_cons.mp hp' with heq | hr
        · cases heq
        · exact ih.red p' len' hr hl' e he
      · intro s hs
        rcases List.mem_cons.mp hs with heq | hr
        · cases heq
        · exact ih.shift s hr
      · intro _
        exact ih.a_mono _ (by simp)

/-- what the fold of `initialHead` over (a part of) a sub-frontier of lookahead kind `a` records -/
structure IFSpec (env : Env) (g : Gss) (a : Nat) (l : SubFrontier) (acc r : List Reduction × List (Nat × Nat) × List Nat) :
    Prop where
  q_mono : ∀ x ∈ acc.1, x ∈ r.1
  s_mono : ∀ x ∈ acc.2.1, x ∈ r.2.1
  a_mono : ∀ x ∈ acc.2.2, x ∈ r.2.2
  red0 : ∀ s h p, (s, h) ∈ l → Action.reduce p 0 ∈ env.t.cell s a → (⟨.node h, p, 0⟩ : Reduction) ∈ r.1
  red : ∀ s h p len, (s, h) ∈ l → Action.reduce p len ∈ env.t.cell s a → 0 < len →
    ∀ e ∈ g.backedges h, (⟨.edge e, p, len⟩ : Reduction) ∈ r.1
  shift : ∀ s h s', (s, h) ∈ l → Action.shift s' ∈ env.t.cell s a → (h, s') ∈ r.2.1
  accept : ∀ s h, (s, h) ∈ l → Action.accept ∈ env.t.cell s a → h ∈ r.2.2
  q_inv : ∀ x ∈ r.1, x ∈ acc.1 ∨ ∃ s h, (s, h) ∈ l ∧ (x.start = .node h ∨ ∃ e ∈ g.backedges h, x.start = .edge e)

theorem initialFold_spec {env : Env} {g : Gss} {a : Nat} : ∀ (l : SubFrontier)
    (acc r : List Reduction × List (Nat × Nat) × List Nat),
    (∀ s h, (s, h) ∈ l → ∃ (hd : Head) (tk : Tok), g.heads[h]? = some hd ∧ hd.tok = some tk ∧ tk.kind = a) →
    foldO (initialHead env g) l acc = .ok r → IFSpec env g a l acc r
  | [], acc, r, _, h => by
    simp only [foldO] at h
    injection h with h; subst h
    exact ⟨fun _ h => h, fun _ h => h, fun _ h => h, fun _ _ _ h => by simp at h, fun _ _ _ _ h => by simp at h,
      fun _ _ _ h => by simp at h, fun _ _ h => by simp at h, fun _ h => Or.inl h⟩
  | (s0, h0) :: rest, acc, r, hk, h => by
    simp only [foldO] at h
    obtain ⟨acc1, h1, h2⟩ := obind_eq_ok h
    obtain ⟨hd, tk, hhd, htk, hka⟩ := hk s0 h0 (by simp)
    have hacc1 : acc1 = initialActions g h0 (env.t.cell s0 a) acc := by
      unfold initialHead at h1
      simp only [head_sat' _ _ _ hhd, obind, tokKind, htk, hka] at h1
      injection h1 with h1; exact h1.symm
    have sp := initialActions_spec g h0 (env.t.cell s0 a) acc
    rw [← hacc1] at sp
    have ih := initialFold_spec rest acc1 r (fun s h hm => hk s h (by simp [hm])) h2
    refine ⟨fun x hx => ih.q_mono x (sp.q_mono x hx), fun x hx => ih.s_mono x (sp.s_mono x hx),
      fun x hx => ih.a_mono x (sp.a_mono x hx), ?_, ?_, ?_, ?_, ?_⟩
    · intro s h p hm hact
      rcases List.mem_cons.mp hm with heq | hr
      · injection heq with e1 e2; subst e1; subst e2; exact ih.q_mono _ (sp.red0 p hact)
      · exact ih.red0 s h p hr hact
    · intro s h p len hm hact hl e he
      rcases List.mem_cons.mp hm with heq | hr
      · injection heq with e1 e2; subst e1; subst e2; exact ih.q_mono _ (sp.red p len hact hl e he)
      · exact ih.red s h p len hr hact hl e he
    · intro s h s' hm hact
      rcases List.mem_cons.mp hm with heq | hr
      · injection heq with e1 e2; subst e1; subst e2; exact ih.s_mono _ (sp.shift s' hact)
      · exact ih.shift s h s' hr hact
    · intro s h hm hact
      rcases List.mem_cons.mp hm with heq | hr
      · injection heq with e1 e2; subst e1; subst e2; exact ih.a_mono _ (sp.accept hact)
      · exact ih.accept s h hr hact
    · intro x hx
      rcases ih.q_inv x hx with h | ⟨s, h', hm, hh⟩
      · rcases sp.q_inv x h with k | k | k
        · exact Or.inl k
        · exact Or.inr ⟨s0, h0, by simp, Or.inl k⟩
        · exact Or.inr ⟨s0, h0, by simp, Or.inr k⟩
      · exact Or.inr ⟨s, h', by simp [hm], hh⟩

/-- **the closure invariant holds at the start**: a sub-frontier whose heads carry the lookahead and have no edge
    inside the level yet, with the queue that `initial_process_frontier` builds -/
theorem start_closure {env : Env} (hC : CompleteRN env.g env.t) {F a : Nat} {g : Gss} {sub : SubFrontier}
    (hg : GInv env g) (hu : UInv F a g sub) (hsub : SubOk g F sub)
    {acc r : List Reduction × List (Nat × Nat) × List Nat} (hsp : IFSpec env g a sub acc r)
    (hacc : acc.1 = []) :
    QSub ⟨g, r.1, r.2.1, r.2.2, sub⟩ ∧ RCInv env F a ⟨g, r.1, r.2.1, r.2.2, sub⟩ := by
  constructor
  · intro x hx
    rcases hsp.q_inv x hx with h | ⟨s, h, hm, hh⟩
    · rw [hacc] at h; simp at h
    · refine ⟨h, ?_, ⟨s, hm⟩⟩
      unfold startHeadOf
      rcases hh with hh | ⟨e, he, hh⟩
      · rw [hh]
      · rw [hh]
        obtain ⟨ed, hed, hsrc⟩ := mem_backedges.mp he
        simp only [edge_sat' _ _ _ hed, obind, hsrc]
  · intro u p pr P s' hk
    right; left
    obtain ⟨v, hch, sv, hin⟩ := hk.chain
    obtain ⟨hv, hhv, hvs, hvF, _⟩ := hsub sv v hin
    obtain ⟨hu', hhu, hitem, _⟩ := hk.root
    have hit : env.t.hasItemLA hv.state p (0 + P.length) a :=
      chain_items hC hg hk.prod 0 hch (by simp) hhu hhv hitem
    have hnul : ∀ Y ∈ pr.rhs.drop P.length, Nullable env.g Y :=
      hk.nullOk P.length (Nat.le_refl _) v hv (by simpa using hch) hhv hvF
    have hact : Action.reduce p P.length ∈ env.t.cell sv a := by
      have := hC.reduceRN hv.state p P.length a pr hk.prod (by simpa using hit) hk.notAug hnul
      rw [hvs] at this; exact this
    cases hP : P with
    | nil =>
      subst hP
      have huv : u = v := hch.2
      refine ⟨⟨.node v, p, 0⟩, hsp.red0 sv v p hin (by simpa using hact), rfl, Nat.le_refl _, ?_⟩
      exact ⟨rfl, huv.symm⟩
    | cons e0 es =>
      obtain ⟨e, ed, h1, h2, h3⟩ := ChainEnd.lastEdge hch (by rw [hP]; simp)
      have hpos : 0 < P.length := by rw [hP]; simp
      have hmem : e ∈ g.backedges v := mem_backedges.mpr ⟨ed, h2, h3⟩
      rw [← hP]
      exact ⟨⟨.edge e, p, P.length⟩, hsp.red sv v p P.length hin hact hpos e hmem, rfl, Nat.le_refl _, hpos, h1⟩

end Rustemo.Glr
