import Rustemo.Proofs.GlrCompleteDefs
import Rustemo.Proofs.CoreComplete
/-!
# `EqElide`: an elision of a tree is equal to it modulo elision; decorations do not matter
-/
namespace Rustemo

mutual
theorem Tree.eqElide_of_elidedFrom : ∀ (full e : Tree), full.ElidedFrom e → Tree.EqElide full e
  | .leaf a sp v l, e, h => by
    simp only [Tree.ElidedFrom] at h
    subst h
    simp [Tree.EqElide]
  | .node p sp l cs, .leaf _ _ _ _, h => by simp [Tree.ElidedFrom] at h
  | .node p sp l cs, .node p' sp' l' cs', h => by
    simp only [Tree.ElidedFrom] at h
    simp only [Tree.EqElide]
    exact ⟨h.1, TreeList.eqElide_of_elidedFrom cs cs' h.2.2.2⟩
theorem TreeList.eqElide_of_elidedFrom : ∀ (full e : TreeList), full.ElidedFrom e → TreeList.EqElide full e
  | .nil, e, h => by
    simp only [TreeList.ElidedFrom] at h
    subst h
    simp [TreeList.EqElide, TreeList.yield]
  | .cons t ts, .nil, h => by
    simp only [TreeList.ElidedFrom] at h
    simp only [TreeList.EqElide]
    exact Or.inl ⟨h, by simp [TreeList.yield]⟩
  | .cons t ts, .cons t' ts', h => by
    simp only [TreeList.ElidedFrom] at h
    simp only [TreeList.EqElide]
    exact Or.inr ⟨Tree.eqElide_of_elidedFrom t t' h.1, TreeList.eqElide_of_elidedFrom ts ts' h.2⟩
end

mutual
theorem Tree.eqElide_plain : ∀ (t u : Tree), Tree.EqElide t u → Tree.EqElide t.plain u
  | .leaf a sp v l, u, h => by
    simp only [Tree.plain]
    cases u with
    | leaf b _ _ _ => simpa [Tree.EqElide] using h
    | node _ _ _ _ => simp [Tree.EqElide] at h
  | .node p sp l cs, u, h => by
    simp only [Tree.plain]
    cases u with
    | leaf _ _ _ _ => simp [Tree.EqElide] at h
    | node q _ _ ds =>
      simp only [Tree.EqElide] at h ⊢
      exact ⟨h.1, TreeList.eqElide_plain cs ds h.2⟩
theorem TreeList.eqElide_plain : ∀ (ts us : TreeList), TreeList.EqElide ts us → TreeList.EqElide ts.plain us
  | .nil, us, h => by
    simp only [TreeList.plain]
    simpa [TreeList.EqElide] using h
  | .cons c cs, us, h => by
    simp only [TreeList.plain]
    simp only [TreeList.EqElide] at h ⊢
    rcases h with ⟨h1, h2⟩ | h
    · exact Or.inl ⟨by rw [Tree.plain_yield, TreeList.plain_yield]; exact h1, h2⟩
    · cases us with
      | nil => exact absurd h id
      | cons d ds =>
        simp only at h
        exact Or.inr ⟨Tree.eqElide_plain c d h.1, TreeList.eqElide_plain cs ds h.2⟩
end

end Rustemo
