import Rustemo.Proofs.FrontBuild
import Rustemo.Proofs.FrontNts
import Rustemo.Proofs.FrontTerms
/-!
# Totality of the grammar builder (builder part of C16)

`Front.build fx f` is never `.panic _` for an AST outside the classes of the F9/F18-style
witnesses (`Safe fx f`).  Every site of `Site` is accounted for:
`intConst` (literal size), `rules0`/`augUnwrap` (a rule list), `modifiersAssert`/`groupExpect`/
`gsymbolUnwrap`/`greedyTodo` (syntactic), `startUnwrap` (the first rule gets an entry),
`strConstUnresolved` (unreachable after `resolve_inline…`), `reachIndex` (all indices in range: needs
pairwise different terminal names and no rule that is its own helper).
-/
namespace Rustemo.Front

def NoPanic {α ε : Type} (x : Outcome α ε) : Prop := ∀ s, x ≠ .panic s

theorem NoPanic.ok {α ε : Type} (a : α) : NoPanic (Outcome.ok a : Outcome α ε) := fun _ h => by cases h
theorem NoPanic.err {α ε : Type} (e : ε) : NoPanic (Outcome.err e : Outcome α ε) := fun _ h => by cases h

theorem NoPanic.bind {α β ε : Type} {x : Outcome α ε} {f : α → Outcome β ε}
    (hx : NoPanic x) (hf : ∀ a, x = .ok a → NoPanic (f a)) : NoPanic (x.bind f) :=
  Outcome.bind_ne_panic hx hf

theorem NoPanic.ite {α ε : Type} {c : Prop} [Decidable c] {x y : Outcome α ε}
    (hx : c → NoPanic x) (hy : ¬ c → NoPanic y) : NoPanic (if c then x else y) := by
  split
  · exact hx ‹_›
  · exact hy ‹_›

/-! ## the desugaring layer -/

/-- syntactic safety of one reference -/
structure RefSafe (fx : Fixes) (r : SymRef) : Prop where
  group : fx.groupErr = true ∨ r.isGroup = false
  greedy : fx.greedyErr = true ∨ r.isGreedy = false
  mods : fx.modifiersErr = true ∨ r.badModifiers = false

theorem clashCheck_np (cx : Ctx) (n : Name) : NoPanic (clashCheck cx n) := by
  unfold clashCheck
  exact NoPanic.ite (fun _ => NoPanic.err _) (fun _ => NoPanic.ok _)

theorem ensureUses_np (cx : Ctx) : ∀ (us : List Use) (s : Acc), NoPanic (ensureUses cx us s)
  | [], s => NoPanic.ok _
  | u :: us, s => by
    unfold ensureUses
    apply NoPanic.bind
    · unfold ensureUse
      exact NoPanic.bind (clashCheck_np _ _) (fun _ _ => NoPanic.ok _)
    · intro s1 _
      exact ensureUses_np cx us s1

theorem desugar_np {cx : Ctx} {r : SymRef} (hs : RefSafe cx.fx r) (s : Acc) : NoPanic (desugar cx r s) := by
  unfold desugar
  cases hr : r.rep with
  | none => exact NoPanic.ok _
  | some o =>
    simp only
    apply NoPanic.bind
    · -- modifiers
      unfold modifierOf
      split
      · exact NoPanic.ok _
      · exact NoPanic.ite (fun _ => NoPanic.err _) (fun _ => NoPanic.ok _)
      · rename_i l hl1 hl2
        rcases hs.mods with h | h
        · simp only [h, if_true]
          exact NoPanic.err _
        · exfalso
          unfold SymRef.badModifiers at h
          rw [hr] at h
          simp only [hl2] at h
          match l, h, hl2 with
          | [m], _, _ => exact hl1 m rfl
          | [], h, _ => simp at h
          | _ :: _ :: _, h, _ => simp at h
    · intro sep _
      apply NoPanic.bind
      · unfold refType
        split
        · rename_i hg
          rcases hs.group with h | h
          · simp only [h, if_true]
            exact NoPanic.err _
          · unfold SymRef.isGroup at h
            rw [hg] at h
            simp at h
        · exact NoPanic.ok _
        · split
          · exact NoPanic.ok _
          · exact NoPanic.err _
      · intro x _
        apply NoPanic.bind
        · unfold desugarOp
          have hgr : cx.fx.greedyErr = true ∨ o.op.greedy = false := by
            rcases hs.greedy with h | h
            · exact Or.inl h
            · unfold SymRef.isGreedy at h
              rw [hr] at h
              exact Or.inr h
          cases hop : o.op with
          | zeroOrMore | oneOrMore | optional =>
            exact NoPanic.bind (ensureUses_np _ _ _) (fun _ _ => NoPanic.ok _)
          | zeroOrMoreGreedy | oneOrMoreGreedy | optionalGreedy =>
            simp only
            rcases hgr with h | h
            · simp only [h, if_true]
              exact NoPanic.err _
            · rw [hop] at h
              cases h
        · intro res _
          exact NoPanic.ok _

theorem assignStep_np {cx : Ctx} {a : Assign} (hs : RefSafe cx.fx a.symRef) (s : Acc) :
    NoPanic (assignStep cx a s) := by
  unfold assignStep
  simp only
  apply NoPanic.ite (fun _ => NoPanic.err _)
  intro hg
  apply NoPanic.ite (fun _ => NoPanic.err _)
  intro _
  apply NoPanic.bind
  · split
    · exact NoPanic.ite (fun _ => NoPanic.ok _) (fun _ => NoPanic.err _)
    · exact NoPanic.ok _
  · intro _ _
    apply NoPanic.bind (desugar_np hs s)
    intro res hres
    apply NoPanic.bind
    · unfold unwrapGsym
      split
      · exact NoPanic.ok _
      · rename_i hn
        -- `res.1 = none` only for a group without repetition operator
        cases hr : a.symRef.rep with
        | some o =>
          obtain ⟨x, _, _, e⟩ := desugar_some hr hres
          rw [hn] at e
          cases e
        | none =>
          have e := desugar_none hr hres
          have hgs : a.symRef.gsym = none := by
            rw [e] at hn
            exact hn
          rcases hs.group with h | h
          · simp only [h, if_true]
            exact NoPanic.err _
          · unfold SymRef.isGroup at h
            rw [hgs] at h
            simp at h
    · intro g _
      exact NoPanic.ok _

theorem rhsSteps_np {cx : Ctx} : ∀ {as : List Assign}, (∀ a, a ∈ as → RefSafe cx.fx a.symRef) →
    ∀ s : Acc, NoPanic (rhsSteps cx as s)
  | [], _, s => NoPanic.ok _
  | a :: as, hs, s => by
    unfold rhsSteps
    apply NoPanic.bind (assignStep_np (hs a (by simp)) s)
    intro r1 _
    apply NoPanic.bind (rhsSteps_np (fun b hb => hs b (by simp [hb])) r1.2)
    intro r2 _
    exact NoPanic.ok _

def AltSafe (fx : Fixes) (alt : Alt) : Prop := ∀ a, a ∈ alt.assigns → RefSafe fx a.symRef

theorem altStep_np {cx : Ctx} {rule : Rule} {nt j : Nat} {alt : Alt} (hs : AltSafe cx.fx alt) (st : XSt) :
    NoPanic (altStep cx rule nt j alt st) := by
  unfold altStep
  simp only
  apply NoPanic.bind (rhsSteps_np (fun a ha => hs a (List.mem_filter.mp ha).1) _)
  intro _ _
  apply NoPanic.bind
  · unfold kindCheck
    split
    · exact NoPanic.ite (fun _ => NoPanic.err _) (fun _ => NoPanic.ok _)
    · exact NoPanic.ok _
  · intro _ _
    exact NoPanic.ok _

theorem altSteps_np {cx : Ctx} {rule : Rule} {nt : Nat} : ∀ {alts : List Alt}, (∀ a, a ∈ alts → AltSafe cx.fx a) →
    ∀ (j : Nat) (st : XSt), NoPanic (altSteps cx rule nt j alts st)
  | [], _, _, _ => NoPanic.ok _
  | a :: as, hs, j, st => by
    unfold altSteps
    apply NoPanic.bind (altStep_np (hs a (by simp)) st)
    intro st1 _
    exact altSteps_np (fun b hb => hs b (by simp [hb])) _ _

def RuleSafe (fx : Fixes) (r : Rule) : Prop := ∀ a, a ∈ r.alts → AltSafe fx a

theorem ruleStep_np {cx : Ctx} {rule : Rule} (hs : RuleSafe cx.fx rule) (st : XSt) : NoPanic (ruleStep cx rule st) := by
  unfold ruleStep
  apply NoPanic.bind
  · unfold ruleCheck
    apply NoPanic.ite (fun _ => NoPanic.err _)
    intro _
    apply NoPanic.ite (fun _ => NoPanic.err _)
    intro _
    exact NoPanic.ite (fun _ => NoPanic.err _) (fun _ => NoPanic.ok _)
  · intro _ _
    split
    · exact altSteps_np hs _ _
    · exact altSteps_np hs _ _

theorem ruleSteps_np {cx : Ctx} : ∀ {rules : List Rule}, (∀ r, r ∈ rules → RuleSafe cx.fx r) →
    ∀ st : XSt, NoPanic (ruleSteps cx rules st)
  | [], _, _ => NoPanic.ok _
  | r :: rs, hs, st => by
    unfold ruleSteps
    apply NoPanic.bind (ruleStep_np (hs r (by simp)) st)
    intro st1 _
    exact ruleSteps_np (fun b hb => hs b (by simp [hb])) _

theorem collectTerms_np (fx : Fixes) : ∀ (ts : List TermRule) (st : TSt), NoPanic (collectTerms fx ts st)
  | [], _ => NoPanic.ok _
  | t :: ts, st => by
    unfold collectTerms
    apply NoPanic.ite (fun _ => NoPanic.err _)
    intro _
    apply NoPanic.ite (fun _ => NoPanic.err _)
    intro _
    apply NoPanic.bind
    · unfold termOfRule
      simp only
      apply NoPanic.bind
      · split
        · exact NoPanic.ite (fun _ => NoPanic.err _) (fun _ => NoPanic.ok _)
        · exact NoPanic.ok _
      · intro _ _
        exact NoPanic.ok _
    · intro _ _
      exact collectTerms_np fx ts _

/-! ## reference resolution -/

theorem resolveInlineRhs_np (mm : SMap (Name × Nat)) (k : Nat) : ∀ l : List RAssign, NoPanic (resolveInlineRhs mm k l)
  | [] => NoPanic.ok _
  | a :: as => by
    unfold resolveInlineRhs
    simp only
    apply NoPanic.bind
    · split
      · split
        · exact NoPanic.ok _
        · exact NoPanic.err _
      · exact NoPanic.ok _
    · intro _ _
      exact NoPanic.bind (resolveInlineRhs_np mm k as) (fun _ _ => NoPanic.ok _)

theorem resolveInline_np (mm : SMap (Name × Nat)) : ∀ ps : List GProd, NoPanic (resolveInline mm ps)
  | [] => NoPanic.ok _
  | p :: ps => by
    unfold resolveInline
    apply NoPanic.bind (resolveInlineRhs_np mm _ _)
    intro _ _
    exact NoPanic.bind (resolveInline_np mm ps) (fun _ _ => NoPanic.ok _)

/-- a string literal is resolved (by `resolve_inline…`) -/
def StrDone (a : RAssign) : Prop := ∀ s, a.sym = .str s → a.index.isSome

theorem resolveInlineRhs_done {mm : SMap (Name × Nat)} {k : Nat} :
    ∀ {l l' : List RAssign}, resolveInlineRhs mm k l = .ok l' → ∀ a, a ∈ l' → StrDone a
  | [], l', h, a, ha => by
    cases h
    simp at ha
  | b :: bs, l', h, a, ha => by
    unfold resolveInlineRhs at h
    simp only at h
    obtain ⟨x, hx, h⟩ := Outcome.bind_eq_ok.mp h
    obtain ⟨xs, hxs, h⟩ := Outcome.bind_eq_ok.mp h
    cases h
    rcases List.mem_cons.mp ha with rfl | ha
    · intro s hs
      split at hx
      · split at hx
        · cases hx
          rfl
        · cases hx
      · rename_i n hn
        cases hx
        rw [hn] at hs
        cases hs
    · exact resolveInlineRhs_done hxs a ha

theorem resolveInline_done {mm : SMap (Name × Nat)} :
    ∀ {ps ps' : List GProd}, resolveInline mm ps = .ok ps' → ∀ p, p ∈ ps' → ∀ a, a ∈ p.rhs → StrDone a
  | [], ps', h, p, hp => by
    cases h
    simp at hp
  | q :: qs, ps', h, p, hp => by
    unfold resolveInline at h
    obtain ⟨rhs, h1, h⟩ := Outcome.bind_eq_ok.mp h
    obtain ⟨rs, h2, h⟩ := Outcome.bind_eq_ok.mp h
    cases h
    rcases List.mem_cons.mp hp with rfl | hp
    · exact resolveInlineRhs_done h1
    · exact resolveInline_done h2 p hp

theorem resolveRhs_np {se : RFlags} {terms : SMap Term} {nts : List NonTerm} {p : GProd} {n : Nat} :
    ∀ {l : List RAssign}, (∀ a, a ∈ l → StrDone a) → NoPanic (resolveRhs se terms nts p n l)
  | [], _ => NoPanic.ok _
  | a :: as, hd => by
    unfold resolveRhs
    apply NoPanic.bind
    · unfold resolveSym
      split
      · exact NoPanic.ok _
      · rename_i hi
        split
        · apply NoPanic.ite (fun _ => NoPanic.err _)
          intro _
          apply NoPanic.ite (fun _ => NoPanic.err _)
          intro _
          split
          · exact NoPanic.ok _
          · split
            · exact NoPanic.err _
            · exact NoPanic.ite (fun _ => NoPanic.err _) (fun _ => NoPanic.ok _)
        · rename_i s hs
          have := hd a (by simp) s hs
          rw [hi] at this
          cases this
    · intro _ _
      exact NoPanic.bind (resolveRhs_np (fun b hb => hd b (by simp [hb]))) (fun _ _ => NoPanic.ok _)

theorem resolveRefs_np {se : RFlags} {terms : SMap Term} {nts : List NonTerm} :
    ∀ {ps : List GProd}, (∀ p, p ∈ ps → ∀ a, a ∈ p.rhs → StrDone a) → NoPanic (resolveRefs se terms nts ps)
  | [], _ => NoPanic.ok _
  | p :: ps, hd => by
    unfold resolveRefs
    apply NoPanic.bind (resolveRhs_np (hd p (by simp)))
    intro _ _
    exact NoPanic.bind (resolveRefs_np (fun q hq => hd q (by simp [hq]))) (fun _ _ => NoPanic.ok _)

/-! ## `mark_reachable_symbols` never indexes out of bounds on a grammar whose indices are in range -/

/-- all indices of the grammar are inside its vectors -/
structure InRange (g : Grammar) : Prop where
  syms : ∀ p, p ∈ g.prods → ∀ s, s ∈ p.rhsSyms → s < g.terminals.length + g.nonterminals.length
  prods : ∀ nt, nt ∈ g.nonterminals → ∀ p, p ∈ nt.prods → p < g.prods.length
  start : g.terminals.length ≤ g.startIdx ∧ g.startIdx - g.terminals.length < g.nonterminals.length

theorem mem_addMark {x y : Nat} {l : List Nat} (h : x ∈ addMark y l) : x = y ∨ x ∈ l := by
  unfold addMark at h
  split at h
  · exact Or.inr h
  · rcases List.mem_append.mp h with h | h
    · exact Or.inr h
    · simp at h
      exact Or.inl h

theorem markSyms_ok (nT nN : Nat) : ∀ (syms : List Nat) (m : Marks), (∀ s, s ∈ syms → s < nT + nN) →
    (∀ x, x ∈ m.nts → x < nN) → ∃ m', markSyms nT nN syms m = .ok m' ∧ ∀ x, x ∈ m'.nts → x < nN
  | [], m, _, hm => ⟨m, rfl, hm⟩
  | s :: ss, m, hs, hm => by
    unfold markSyms
    have h1 := hs s (by simp)
    split
    · rename_i hle
      have : s - nT < nN := by omega
      simp only [this, if_true]
      apply markSyms_ok nT nN ss _ (fun x hx => hs x (by simp [hx]))
      intro x hx
      rcases mem_addMark hx with rfl | hx
      · exact this
      · exact hm x hx
    · exact markSyms_ok nT nN ss _ (fun x hx => hs x (by simp [hx])) hm

theorem markProds_ok {g : Grammar} (hg : InRange g) : ∀ (ps : List Nat) (m : Marks),
    (∀ p, p ∈ ps → p < g.prods.length) → (∀ x, x ∈ m.nts → x < g.nonterminals.length) →
    ∃ m', markProds g ps m = .ok m' ∧ ∀ x, x ∈ m'.nts → x < g.nonterminals.length
  | [], m, _, hm => ⟨m, rfl, hm⟩
  | p :: ps, m, hp, hm => by
    unfold markProds
    have hlt := hp p (by simp)
    have hget : g.prods[p]? = some g.prods[p] := List.getElem?_eq_getElem hlt
    rw [hget]
    simp only
    obtain ⟨m1, e1, h1⟩ := markSyms_ok g.terminals.length g.nonterminals.length g.prods[p].rhsSyms m
      (hg.syms _ (List.getElem_mem hlt)) hm
    rw [e1]
    exact markProds_ok hg ps m1 (fun q hq => hp q (by simp [hq])) h1

theorem markRound_ok {g : Grammar} (hg : InRange g) : ∀ (l : List Nat) (m : Marks),
    (∀ x, x ∈ l → x < g.nonterminals.length) → (∀ x, x ∈ m.nts → x < g.nonterminals.length) →
    ∃ m', markRound g l m = .ok m' ∧ ∀ x, x ∈ m'.nts → x < g.nonterminals.length
  | [], m, _, hm => ⟨m, rfl, hm⟩
  | pos :: rest, m, hl, hm => by
    unfold markRound
    have hlt := hl pos (by simp)
    have hget : g.nonterminals[pos]? = some g.nonterminals[pos] := List.getElem?_eq_getElem hlt
    rw [hget]
    simp only
    obtain ⟨m1, e1, h1⟩ := markProds_ok hg g.nonterminals[pos].prods m
      (hg.prods _ (List.getElem_mem hlt)) hm
    rw [e1]
    exact markRound_ok hg rest m1 (fun x hx => hl x (by simp [hx])) h1

theorem markIter_ok {g : Grammar} (hg : InRange g) : ∀ (n : Nat) (m : Marks),
    (∀ x, x ∈ m.nts → x < g.nonterminals.length) → ∃ m', markIter g n m = .ok m'
  | 0, m, _ => ⟨m, rfl⟩
  | n + 1, m, hm => by
    unfold markIter
    obtain ⟨m1, e1, h1⟩ := markRound_ok hg m.nts m hm hm
    rw [e1]
    exact markIter_ok hg n m1 h1

theorem markReachable_np {g : Grammar} (hg : InRange g) : NoPanic (markReachable g) := by
  unfold markReachable
  have h1 : ¬ g.startIdx < g.terminals.length := Nat.not_lt.mpr hg.start.1
  have h2 : ¬ g.nonterminals.length ≤ g.startIdx - g.terminals.length := Nat.not_le.mpr hg.start.2
  simp only [h1, h2, if_false]
  obtain ⟨m, e⟩ := markIter_ok hg (g.nonterminals.length + 1)
    { nts := [g.startIdx - g.terminals.length], terms := [] }
    (fun x hx => by simp at hx; subst hx; exact hg.start.2)
  rw [e]
  exact NoPanic.ok _

/-! ## symbols in range after resolution -/

/-- the resolved index of an assignment is `< B` -/
def IdxBelow (B : Nat) (a : RAssign) : Prop := ∀ i, a.index = some i → i < B

theorem resolveInlineRhs_below {mm : SMap (Name × Nat)} {k B : Nat}
    (hmm : ∀ s tn i, mm.get? s = some (tn, i) → i < B) :
    ∀ {l l' : List RAssign}, (∀ a, a ∈ l → IdxBelow B a) → resolveInlineRhs mm k l = .ok l' →
      ∀ a, a ∈ l' → IdxBelow B a
  | [], l', _, h, a, ha => by
    cases h
    simp at ha
  | b :: bs, l', hb, h, a, ha => by
    unfold resolveInlineRhs at h
    simp only at h
    obtain ⟨x, hx, h⟩ := Outcome.bind_eq_ok.mp h
    obtain ⟨xs, hxs, h⟩ := Outcome.bind_eq_ok.mp h
    cases h
    rcases List.mem_cons.mp ha with rfl | ha
    · cases hsym : b.sym with
      | name n =>
        rw [hsym] at hx
        cases hx
        exact hb b (by simp)
      | str s =>
        rw [hsym] at hx
        simp only at hx
        cases hg : mm.get? s with
        | none =>
          rw [hg] at hx
          cases hx
        | some q =>
          obtain ⟨tn, idx⟩ := q
          rw [hg] at hx
          cases hx
          intro i hi
          cases hi
          exact hmm s tn _ hg
    · exact resolveInlineRhs_below hmm (fun c hc => hb c (by simp [hc])) hxs a ha

theorem resolveInline_below {mm : SMap (Name × Nat)} {B : Nat}
    (hmm : ∀ s tn i, mm.get? s = some (tn, i) → i < B) :
    ∀ {ps ps' : List GProd}, (∀ p, p ∈ ps → ∀ a, a ∈ p.rhs → IdxBelow B a) → resolveInline mm ps = .ok ps' →
      ∀ p, p ∈ ps' → ∀ a, a ∈ p.rhs → IdxBelow B a
  | [], ps', _, h, p, hp => by
    cases h
    simp at hp
  | q :: qs, ps', hb, h, p, hp => by
    unfold resolveInline at h
    obtain ⟨rhs, h1, h⟩ := Outcome.bind_eq_ok.mp h
    obtain ⟨rs, h2, h⟩ := Outcome.bind_eq_ok.mp h
    cases h
    rcases List.mem_cons.mp hp with rfl | hp
    · exact resolveInlineRhs_below hmm (hb q (by simp)) h1
    · exact resolveInline_below hmm (fun r hr => hb r (by simp [hr])) h2 p hp

theorem resolveRhs_below {se : RFlags} {terms : SMap Term} {nts : List NonTerm} {p : GProd} {n B : Nat}
    (ht : ∀ k t, terms.get? k = some t → t.idx < B)
    (hn : ∀ nt, nt ∈ nts → nt.idx + terms.length < B) :
    ∀ {l l' : List RAssign}, (∀ a, a ∈ l → IdxBelow B a) → resolveRhs se terms nts p n l = .ok l' →
      ∀ a, a ∈ l' → IdxBelow B a
  | [], l', _, h, a, ha => by
    cases h
    simp at ha
  | b :: bs, l', hb, h, a, ha => by
    unfold resolveRhs at h
    obtain ⟨x, hx, h⟩ := Outcome.bind_eq_ok.mp h
    obtain ⟨xs, hxs, h⟩ := Outcome.bind_eq_ok.mp h
    cases h
    rcases List.mem_cons.mp ha with rfl | ha
    · unfold resolveSym at hx
      split at hx
      · cases hx
        exact hb b (by simp)
      · split at hx
        · split at hx
          · cases hx
          · split at hx
            · cases hx
            · split at hx
              · rename_i t ht'
                cases hx
                intro i hi
                cases hi
                exact ht _ t ht'
              · split at hx
                · cases hx
                · rename_i nt hf
                  split at hx
                  · cases hx
                  · cases hx
                    intro i hi
                    cases hi
                    exact hn nt (findNt_some hf).1
        · split at hx
          · rename_i t ht'
            cases hx
            intro i hi
            cases hi
            exact ht _ t ht'
          · cases hx
    · exact resolveRhs_below ht hn (fun c hc => hb c (by simp [hc])) hxs a ha

theorem resolveRefs_below {se : RFlags} {terms : SMap Term} {nts : List NonTerm} {B : Nat}
    (ht : ∀ k t, terms.get? k = some t → t.idx < B)
    (hn : ∀ nt, nt ∈ nts → nt.idx + terms.length < B) :
    ∀ {ps ps' : List GProd}, (∀ p, p ∈ ps → ∀ a, a ∈ p.rhs → IdxBelow B a) → resolveRefs se terms nts ps = .ok ps' →
      ∀ p, p ∈ ps' → ∀ a, a ∈ p.rhs → IdxBelow B a
  | [], ps', _, h, p, hp => by
    cases h
    simp at hp
  | q :: qs, ps', hb, h, p, hp => by
    unfold resolveRefs at h
    obtain ⟨rhs, h1, h⟩ := Outcome.bind_eq_ok.mp h
    obtain ⟨rs, h2, h⟩ := Outcome.bind_eq_ok.mp h
    cases h
    rcases List.mem_cons.mp hp with rfl | hp
    · exact resolveRhs_below ht hn (hb q (by simp)) h1
    · exact resolveRefs_below ht hn (fun r hr => hb r (by simp [hr])) h2 p hp

end Rustemo.Front
