import Rustemo.Proofs.Spans
/-!
# The string lexer delivers well-positioned tokens

`NtOk` for `nextTokenBase` and `nextTokenMain` (whitespace skipping, `TokenIterator`, longest-match
filter, layout parser, partial-parse STOP), for any recognizers that stay inside the input.
-/
namespace Rustemo

/-- recognizers never report a match that runs past the end of the input -/
def RecogOk (env : Env) : Prop := ∀ k p l, env.recog k p = some l → p + l ≤ env.input.length

theorem wsCharLen_le (bs : List Nat) : wsCharLen bs ≤ bs.length := by
  unfold wsCharLen
  repeat' split
  all_goals simp <;> omega

theorem wsPrefixLen_le : ∀ (fuel : Nat) (bs : List Nat), wsPrefixLen fuel bs ≤ bs.length
  | 0, _ => by simp [wsPrefixLen]
  | fuel+1, bs => by
    unfold wsPrefixLen
    simp only
    split
    · omega
    · have h1 := wsCharLen_le bs
      have h2 := wsPrefixLen_le fuel (bs.drop (wsCharLen bs))
      simp only [List.length_drop] at h2
      omega

theorem posOk_advance {input : List Nat} {p : Pos} (hp : PosOk input p) {n : Nat}
    (hn : p.pos + n ≤ input.length) :
    posAfter (sliceOf input (p.pos, n)) p = posOf input (p.pos + n) ∧
    PosOk input (posOf input (p.pos + n)) := by
  have h1 : posAfter (sliceOf input (p.pos, n)) p = posOf input (p.pos + n) := by
    have := posAfter_slice input p.pos n hn
    rw [← hp.1] at this
    exact this
  have h2 := posOf_pos input _ hn
  exact ⟨h1, by rw [PosOk, h2]; exact ⟨rfl, hn⟩⟩

theorem skip_ctxOk (env : Env) (ctx : Ctx) (h : CtxOk env.input ctx) : CtxOk env.input (skip env ctx) := by
  unfold skip
  simp only
  split
  · obtain ⟨hp, hs, he⟩ := h
    have hle := wsPrefixLen_le (env.input.drop ctx.pos.pos).length (env.input.drop ctx.pos.pos)
    simp only [List.length_drop] at hle
    have hn : ctx.pos.pos + wsPrefixLen (env.input.length - ctx.pos.pos) (env.input.drop ctx.pos.pos)
        ≤ env.input.length := by have := hp.2; omega
    obtain ⟨h1, h2⟩ := posOk_advance hp hn
    refine ⟨?_, hs, he⟩
    simp only [List.length_drop]
    have : (env.input.drop ctx.pos.pos).take
        (wsPrefixLen (env.input.length - ctx.pos.pos) (env.input.drop ctx.pos.pos)) =
        sliceOf env.input (ctx.pos.pos, wsPrefixLen (env.input.length - ctx.pos.pos) (env.input.drop ctx.pos.pos)) := rfl
    rw [this, h1]
    exact h2
  · exact h

/-- a token produced by the lexer at position `pos` -/
def TokAt (input : List Nat) (pos : Pos) (tk : Tok) : Prop :=
  tk.val.1 = pos.pos ∧ tk.val.1 + tk.val.2 ≤ input.length ∧
    tk.span = ⟨pos, posOf input (tk.val.1 + tk.val.2)⟩

theorem tokenIterAux_tokAt (env : Env) (hr : RecogOk env) (pos : Pos) (hp : PosOk env.input pos) :
    ∀ (exp : List (Nat × Bool)) (matched : Bool) (tk : Tok),
      tk ∈ tokenIterAux env pos matched exp → TokAt env.input pos tk
  | [], m, tk, h => by simp [tokenIterAux] at h
  | (k, fin) :: rest, m, tk, h => by
    unfold tokenIterAux at h
    split at h
    · rename_i l hl
      have hle := hr k pos.pos l hl
      rcases List.mem_cons.mp h with h | h
      · subst h
        refine ⟨rfl, hle, ?_⟩
        simp only
        rw [(posOk_advance hp hle).1]
      · split at h
        · simp at h
        · exact tokenIterAux_tokAt env hr pos hp rest true tk h
    · split at h
      · simp at h
      · exact tokenIterAux_tokAt env hr pos hp rest m tk h

theorem tokenIter_tokAt (env : Env) (hr : RecogOk env) (pos : Pos) (hp : PosOk env.input pos)
    (exp : List (Nat × Bool)) (tk : Tok) (h : tk ∈ tokenIter env pos exp) : TokAt env.input pos tk :=
  tokenIterAux_tokAt env hr pos hp exp false tk h

theorem pickToken_mem {longest : Bool} {toks : List Tok} {tk : Tok}
    (h : pickToken longest toks = some tk) : tk ∈ toks := by
  unfold pickToken at h
  split at h
  · exact (List.mem_filter.mp (List.mem_of_head? h)).1
  · exact List.mem_of_head? h

theorem lexNext_ok (env : Env) (hc : env.custom = none) (hr : RecogOk env) (ctx : Ctx)
    (exp : List (Nat × Bool)) (h : CtxOk env.input ctx) :
    CtxOk env.input (lexNext env ctx exp).1 ∧
    ∀ tk ∈ (lexNext env ctx exp).2, TokAt env.input (lexNext env ctx exp).1.pos tk := by
  unfold lexNext
  rw [hc]
  simp only
  split
  · have h' := skip_ctxOk env ctx h
    exact ⟨h', tokenIter_tokAt env hr _ h'.1 exp⟩
  · exact ⟨h, tokenIter_tokAt env hr _ h.1 exp⟩

theorem noToken_ok (env : Env) (pp : Bool) (ctx ctx' : Ctx) (o : Outcome Tok)
    (h : CtxOk env.input ctx) (hn : noToken env pp ctx = (ctx', o)) :
    CtxOk env.input ctx' ∧ ∀ tk, o = .ok tk → TokOk env.input ctx' tk := by
  unfold noToken at hn
  simp only at hn
  split at hn
  · injection hn with h1 h2
    subst h1 h2
    exact ⟨h, by intro tk htk; injection htk with htk; subst htk; exact Or.inl rfl⟩
  · split at hn <;>
    · injection hn with h1 h2
      subst h1 h2
      exact ⟨h, by intro tk htk; simp at htk⟩

theorem ntOk_base (env : Env) (hc : env.custom = none) (hr : RecogOk env) (pp : Bool) :
    NtOk env.input (nextTokenBase env pp) := by
  intro ctx ctx' o hctx hn
  unfold nextTokenBase at hn
  obtain ⟨hc1, ht1⟩ := lexNext_ok env hc hr ctx (env.t.sorted ctx.state) hctx
  generalize lexNext env ctx (env.t.sorted ctx.state) = lx at hn hc1 ht1
  obtain ⟨ctx1, toks⟩ := lx
  simp only at hn hc1 ht1
  split at hn
  · rename_i tk hpick
    injection hn with h1 h2
    subst h1 h2
    refine ⟨hc1, ?_⟩
    intro tk' htk'
    injection htk' with htk'
    subst htk'
    exact Or.inr (ht1 tk (pickToken_mem hpick))
  · exact noToken_ok env pp ctx1 ctx' o hc1 hn

theorem ntOk_main (env : Env) (hc : env.custom = none) (hr : RecogOk env) (hns : NoShiftStop env.t)
    (pp : Bool) (fuel : Nat) : NtOk env.input (nextTokenMain env pp fuel) := by
  intro ctx ctx' o hctx hn
  unfold nextTokenMain at hn
  obtain ⟨hc1, ht1⟩ := lexNext_ok env hc hr ctx (env.t.sorted ctx.state) hctx
  generalize lexNext env ctx (env.t.sorted ctx.state) = lx at hn hc1 ht1
  obtain ⟨ctx1, toks⟩ := lx
  simp only at hn hc1 ht1
  split at hn
  · rename_i tk hpick
    injection hn with h1 h2
    subst h1 h2
    refine ⟨hc1, ?_⟩
    intro tk' htk'
    injection htk' with htk'
    subst htk'
    exact Or.inr (ht1 tk (pickToken_mem hpick))
  · split at hn
    · exact noToken_ok env pp ctx1 ctx' o hc1 hn
    · rename_i ls hls
      -- the layout parser hands back a well-positioned context
      have hlay : ∀ cx r, layoutParse env ls ctx1 fuel = (cx, r) → CtxOk env.input cx := by
        intro cx r hl
        unfold layoutParse at hl
        refine (parseWith_spans env _ (ntOk_base env hc hr true) hns ls _ fuel cx r ?_ hl).1
        exact hc1
      generalize hlp : layoutParse env ls ctx1 fuel = lp at hn
      obtain ⟨cx, r⟩ := lp
      have hcx := hlay cx r hlp
      simp only at hn
      have hcx' : ∀ (l : Option Slice),
          CtxOk env.input { cx with state := ctx1.state, span := ctx1.span, lay := l } := by
        intro l; exact ⟨hcx.1, hc1.2.1, hc1.2.2⟩
      have hcx'' : CtxOk env.input { cx with state := ctx1.state, span := ctx1.span } :=
        ⟨hcx.1, hc1.2.1, hc1.2.2⟩
      -- no layout found: the position is put back
      have hback : CtxOk env.input { cx with state := ctx1.state, span := ctx1.span, pos := ctx1.pos } :=
        ⟨hc1.1, hc1.2.1, hc1.2.2⟩
      split at hn
      · split at hn
        · split at hn
          · exact ntOk_base env hc hr pp _ ctx' o (hcx' _) hn
          · exact noToken_ok env pp _ ctx' o hback hn
        · exact noToken_ok env pp _ ctx' o hback hn
      · exact noToken_ok env pp _ ctx' o hback hn
      · injection hn with h1 h2
        subst h1 h2
        exact ⟨hcx'', by intro tk htk; simp at htk⟩
      · injection hn with h1 h2
        subst h1 h2
        exact ⟨hcx'', by intro tk htk; simp at htk⟩

/-- every tree returned by the LR parser model satisfies the span specification -/
theorem parse_spans (env : Env) (hc : env.custom = none) (hr : RecogOk env) (hns : NoShiftStop env.t)
    (pp : Bool) (fuel : Nat) (ctx : Ctx) (r : ParseResult)
    (h : parse env pp fuel = (ctx, .ok r)) : r.tree.SpanOk env.input := by
  unfold parse at h
  have h0 : CtxOk env.input ({} : Ctx) := by
    have hs : PosOk env.input Pos.start := by
      unfold PosOk posOf Pos.start; simp [posAfter, lastNl]
    exact ⟨hs, hs, hs⟩
  exact (parseWith_spans env _ (ntOk_main env hc hr hns pp fuel) hns 0 {} fuel ctx _ h0 h).2 r rfl

end Rustemo
