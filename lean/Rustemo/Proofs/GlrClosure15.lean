import Rustemo.Proofs.GlrClosure14
/-!
# The reducer loop keeps the closure invariant; at its end every chain is covered
-/
namespace Rustemo.Glr
open Rustemo

/-- every queued reduction starts at a head of the sub-frontier -/
def QSub (rs : RState) : Prop :=
  ∀ r ∈ rs.queue, ∃ h, startHeadOf rs.gss r = .ok h ∧ InSub rs.sub h

theorem registerActions_mem_inv (head edge : Nat) (hc ec : Bool) : ∀ (acts : List Action)
    (acc : List Reduction × List (Nat × Nat) × List Nat), ∀ r ∈ (registerActions head edge hc ec acts acc).1,
    r ∈ acc.1 ∨ r.start = .edge edge ∨ r.start = .node head
  | [], acc, r, hr => by simp only [registerActions] at hr; exact Or.inl hr
  | act :: rest, (q, sh, ac), r, hr => by
    cases act with
    | reduce p len =>
      simp only [registerActions] at hr
      split at hr
      · rcases registerActions_mem_inv head edge hc ec rest _ r hr with h | h
        · simp only [List.mem_append, List.mem_singleton] at h
          rcases h with h | h
          · exact Or.inl h
          · right
            subst h
            simp only
            split
            · exact Or.inl rfl
            · exact Or.inr rfl
        · exact Or.inr h
      · exact registerActions_mem_inv head edge hc ec rest _ r hr
    | shift s =>
      simp only [registerActions] at hr
      have := registerActions_mem_inv head edge hc ec rest _ r hr
      simpa using this
    | accept =>
      simp only [registerActions] at hr
      have := registerActions_mem_inv head edge hc ec rest _ r hr
      simpa using this

theorem startHeadOf_ext {g g' : Gss} (hx : Ext g g') {r : Reduction} {h : Nat} (hs : startHeadOf g r = .ok h) :
    startHeadOf g' r = .ok h := by
  unfold startHeadOf at hs ⊢
  cases hst : r.start with
  | edge e =>
    rw [hst] at hs
    simp only at hs ⊢
    obtain ⟨ed, hed, hs⟩ := obind_eq_ok hs
    injection hs with hs
    obtain ⟨ed', hed', hsrc, _⟩ := hx.edges e ed (edge_eq_ok hed)
    rw [edge_sat' _ _ _ hed']
    simp only [obind]
    rw [hsrc, hs]
  | node n => rw [hst] at hs; exact hs

/-- what one `reducePath` guarantees for the next one -/
structure StepOut (env : Env) (F a : Nat) (rs rs' : RState) (p0 len0 : Nat) (rest : List Path) : Prop where
  inv : RInv env F rs'
  ext : Ext rs.gss rs'.gss
  heads : ∀ (i : Nat) (hd : Head), rs.gss.heads[i]? = some hd → rs'.gss.heads[i]? = some hd
  sub : ∀ x ∈ rs.sub, x ∈ rs'.sub
  u : UInv F a rs'.gss rs'.sub
  rc : RCInvR env F a rs' (Rem p0 len0 rest)
  qsub : QSub rs'

theorem reducePath_closure {env : Env} (hT : TableOk env) (hC : CompleteRN env.g env.t) (hW : GWF env.g) {F a : Nat}
    {rs rs' : RState} (hI : RInv env F rs) (hU : UInv F a rs.gss rs.sub)
    {p0 len0 : Nat} {pr0 : Prod} {startHead : Nat} {sh : Head} {tk : Tok} {q : Path}
    (pc : PathCtx env F a rs p0 len0 pr0 startHead sh tk q) (hpok : PathOk env rs.gss p0 len0 pr0 F 0 q)
    (hnul : ∀ Y ∈ pr0.rhs.drop len0, Nullable env.g Y) (haug : env.g.isAug p0 = false)
    {rest : List Path} (hinv : RCInvR env F a rs (Rem p0 len0 (q :: rest))) (hqs : QSub rs)
    (h : reducePath env p0 startHead rs q = .ok rs') : StepOut env F a rs rs' p0 len0 rest := by
  have hsat := reducePath_sat (A := True) hT hI pc.hpr0 pc.hlen0 hnul haug pc.hsh (by rw [pc.htk]; rfl) pc.hshF hpok
  rw [h] at hsat
  obtain ⟨hI', hx⟩ := hsat
  obtain ⟨d, hf, hcase⟩ := reducePath_inv h
  -- identify the data
  have e1 : d.sh = sh := by have := hf.hsh; rw [pc.hsh] at this; injection this with this; exact this.symm
  have e2 : d.tk = tk := by have := hf.htk; rw [e1, pc.htk] at this; injection this with this; exact this.symm
  have e3 : d.pr = pr0 := by have := hf.hpr; rw [pc.hpr0] at this; injection this with this; exact this.symm
  have hhr := hf.hhr
  have hgoto := hf.hgoto
  rw [e3] at hgoto
  cases hcase with
  | skip hempty heq =>
    subst heq
    rw [e2] at hempty
    exact ⟨hI', hx, fun _ _ h => h, fun _ h => h, hU, closure_skip pc hinv hhr hgoto hempty, hqs⟩
  | fold g1 sub1 hA hc ed hne hfh hed hnew heq =>
    rw [e1] at hfh
    simp only [Bool.or_eq_false_iff] at hnew
    obtain ⟨⟨hcf, hecf⟩, hdiff⟩ := hnew
    obtain ⟨_, _, _, hold1, _⟩ := grow_head hfh q.root
    obtain ⟨k1, k2, k3⟩ := hold1 hcf
    subst k1; subst k2
    obtain ⟨_, _, _, hold2, _⟩ := grow_edge rs hA q.root
    obtain ⟨m1, m2⟩ := hold2 hecf
    rw [m1] at hed hdiff heq
    obtain ⟨ed0, n1, n2, n3⟩ := edgeBetween_some m2
    rw [hed] at n1; injection n1 with n1; subst n1
    have hrs' : rs' = { rs with gss := replaceChildren rs.gss p0 q.parents ed.poss } := by rw [heq]
    obtain ⟨hU', hrc⟩ := closure_fold hT hC hW hI hU pc hinv hhr hgoto k3 hed n2 n3 hdiff hrs' hI'
    refine ⟨hI', hx, ?_, ?_, hU', hrc, ?_⟩
    · intro i hd hi
      rw [hrs']
      simp only
      cases replaceChildren_spec rs.gss p0 q.parents ed.poss with
      | same h1 _ => rw [h1]; exact hi
      | one _ _ _ _ _ _ _ _ h5 _ _ => rw [h5]; exact hi
    · intro x hx'; rw [hrs']; exact hx'
    · intro r hr
      have hr0 : r ∈ rs.queue := by rw [hrs'] at hr; exact hr
      obtain ⟨h0, hs0, hin0⟩ := hqs r hr0
      exact ⟨h0, startHeadOf_ext hx hs0, by rw [hrs']; exact hin0⟩
  | new g1 sub1 hA hc ed span hne hfh hed hnew heq =>
    rw [e1] at hfh
    rw [e2] at heq
    obtain ⟨hU', hrc⟩ := closure_new hT hC hI hU pc hinv hhr hgoto hfh hed span heq hI'
    obtain ⟨gr1, _⟩ := grow_head hfh q.root
    refine ⟨hI', hx, ?_, ?_, hU', hrc, ?_⟩
    · intro i hd hi
      have h1 := gr1.heads_old i hd hi
      simp only at h1
      rw [heq]
      show ((((findOrCreateEdge g1 hA q.root).1.addNode _).1.pushPoss _ _).heads)[i]? = some hd
      rw [pushPoss_heads, addNode_heads]
      obtain ⟨_, hh2, _⟩ := grow_edge { rs with gss := g1, sub := sub1 } hA q.root
      simp only at hh2
      rw [hh2]; exact h1
    · intro x hx'
      have := gr1.sub_old x hx'
      rw [heq]; exact this
    · -- queued reductions: the old ones, and the ones just registered at the head `hA` / its new edge
      have hsub' : rs'.sub = sub1 := by rw [heq]; rfl
      obtain ⟨_, _, _, hold1, hnew1⟩ := grow_head hfh q.root
      have hget1 : InSub sub1 hA := by
        cases hcb : hc with
        | false => obtain ⟨_, k2, k3⟩ := hold1 hcb; rw [k2]; exact ⟨_, sfGet_mem k3⟩
        | true => obtain ⟨_, k2, _, k4⟩ := hnew1 hcb; rw [k4, k2]; exact ⟨_, mem_sfInsert_self _ _ _⟩
      intro r hr
      have hr' : r ∈ (registerActions hA (findOrCreateEdge g1 hA q.root).2.1 hc (findOrCreateEdge g1 hA q.root).2.2
          (env.t.cell d.s' tk.kind) (rs.queue, rs.shifts, rs.accepted)).1 := by rw [heq] at hr; exact hr
      rcases registerActions_mem_inv _ _ _ _ _ _ r hr' with h0 | h0 | h0
      · obtain ⟨h1, hs1, hin1⟩ := hqs r h0
        refine ⟨h1, startHeadOf_ext hx hs1, ?_⟩
        obtain ⟨s, hm⟩ := hin1
        rw [hsub']
        exact ⟨s, gr1.sub_old _ hm⟩
      · refine ⟨hA, ?_, by rw [hsub']; exact hget1⟩
        unfold startHeadOf
        rw [h0]
        simp only
        -- the edge in the final graph
        have hed' : rs'.gss.edges[(findOrCreateEdge g1 hA q.root).2.1]? =
            some { ed with poss := ed.poss ++ [(findOrCreateEdge g1 hA q.root).1.nodes.size] } := by
          rw [heq]
          show ((((findOrCreateEdge g1 hA q.root).1.addNode _).1.pushPoss _ _).edges)[_]? = _
          rw [pushPoss_edges _ _ _ ed (by simpa using hed)]; simp
        rw [edge_sat' _ _ _ hed']
        simp only [obind]
        -- its source is `hA`
        obtain ⟨_, _, _, hold2, hnew2⟩ := grow_edge { rs with gss := g1, sub := sub1 } hA q.root
        simp only at hold2 hnew2
        cases hec : (findOrCreateEdge g1 hA q.root).2.2 with
        | false =>
          obtain ⟨k1, k2⟩ := hold2 hec
          obtain ⟨ed0, k3, k4, _⟩ := edgeBetween_some k2
          rw [k1] at hed; rw [hed] at k3; injection k3 with k3; subst k3
          rw [k4]
        | true =>
          obtain ⟨_, k2, k3⟩ := hnew2 hec
          rw [k3, k2, addEdge_edges, if_pos rfl] at hed
          injection hed with hed; subst hed
          rfl
      · refine ⟨hA, ?_, by rw [hsub']; exact hget1⟩
        unfold startHeadOf
        rw [h0]

end Rustemo.Glr
