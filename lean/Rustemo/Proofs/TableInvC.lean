import Rustemo.Proofs.TableCalcInv2
/-!
# Table construction: the completeness side of the invariant

`InvC g lo hi sts`: every state has at most one SHIFT per cell, each justified by an item (`StC`); the
states below `lo` have been taken from the queue: their item cores are closed (`ClosedC`) and every item
with a symbol right of the dot has its transition, whose target holds the advanced item (`TransC`); the
states from `hi` on have no ACTION / GOTO entry yet (`Untouched`).
-/
namespace Rustemo.Table

structure StC (g : Grammar) (st : State) : Prop where
  cellsound : ∀ a s', Action.shift s' ∈ st.actions.getD a [] →
    ∃ c ∈ st.items.map core, g.rhsAt c.1 c.2 = some a
  cell1 : ∀ a, (st.actions.getD a []).length ≤ 1
  aug0 : ∀ it ∈ st.items, it.prod = 0 → 0 ∈ it.la

def ClosedC (g : Grammar) (st : State) : Prop :=
  ∀ c ∈ st.items.map core, ∀ B, g.rhsAt c.1 c.2 = some B → g.nterms ≤ B →
    ∀ q ∈ Canon.prodsOf g B, (q, 0) ∈ st.items.map core

def TransC (g : Grammar) (sts : Array State) (st : State) : Prop :=
  ∀ c ∈ st.items.map core, ∀ X, g.rhsAt c.1 c.2 = some X →
    ∃ s', HasTrans g st X s' ∧ ∃ st', sts[s']? = some st' ∧ (c.1, c.2 + 1) ∈ st'.items.map core

def Untouched (st : State) : Prop :=
  (∀ a, st.actions.getD a [] = []) ∧ (∀ j, st.gotos.getD j none = none)

structure InvC (g : Grammar) (lo hi : Nat) (sts : Array State) : Prop where
  st : ∀ (i : Nat) (st : State), sts[i]? = some st → StC g st
  closed : ∀ (i : Nat) (st : State), sts[i]? = some st → i < lo → ClosedC g st
  trans : ∀ (i : Nat) (st : State), sts[i]? = some st → i < lo → TransC g sts st
  fresh : ∀ (i : Nat) (st : State), sts[i]? = some st → hi ≤ i → Untouched st

variable {g : Grammar}

/-- replacing a state by one with the same entries and at least the same cores -/
theorem InvC.update {lo hi : Nat} {sts : Array State} (h : InvC g lo hi sts) {i : Nat} {st st' : State}
    (hi' : sts[i]? = some st) (ha : st'.actions = st.actions) (hgo : st'.gotos = st.gotos)
    (hsub : ∀ c ∈ st.items.map core, c ∈ st'.items.map core) (hst : StC g st')
    (hproc : i < lo → ClosedC g st' ∧ ∀ c ∈ st'.items.map core, c ∈ st.items.map core) :
    InvC g lo hi (sts.setIfInBounds i st') := by
  refine ⟨?_, ?_, ?_, ?_⟩
  · intro j stj hj
    rw [get_upd hi'] at hj
    by_cases hij : i = j
    · rw [if_pos hij] at hj; simp only [Option.some.injEq] at hj; subst hj; exact hst
    · rw [if_neg hij] at hj; exact h.st j stj hj
  · intro j stj hj hlo
    rw [get_upd hi'] at hj
    by_cases hij : i = j
    · rw [if_pos hij] at hj; simp only [Option.some.injEq] at hj; subst hj
      exact (hproc (by omega)).1
    · rw [if_neg hij] at hj; exact h.closed j stj hj hlo
  · intro j stj hj hlo c hc X hX
    rw [get_upd hi'] at hj
    -- the old version of the source
    have hold : ∃ old, sts[j]? = some old ∧ c ∈ old.items.map core ∧
        ∀ s', HasTrans g old X s' → HasTrans g stj X s' := by
      by_cases hij : i = j
      · rw [if_pos hij] at hj; simp only [Option.some.injEq] at hj; subst hj
        refine ⟨st, by rw [← hij]; exact hi', (hproc (by omega)).2 c hc, ?_⟩
        intro s' ht
        unfold HasTrans at ht ⊢
        rw [ha, hgo]; exact ht
      · rw [if_neg hij] at hj
        exact ⟨stj, hj, hc, fun _ ht => ht⟩
    obtain ⟨old, o1, o2, o3⟩ := hold
    obtain ⟨s', t1, st'', t2, t3⟩ := h.trans j old o1 hlo c o2 X hX
    refine ⟨s', o3 s' t1, ?_⟩
    by_cases his : i = s'
    · refine ⟨st', by rw [get_upd hi', if_pos his], ?_⟩
      rw [← his, hi'] at t2
      simp only [Option.some.injEq] at t2
      subst t2
      exact hsub _ t3
    · exact ⟨st'', by rw [get_upd hi', if_neg his]; exact t2, t3⟩
  · intro j stj hj hhi
    rw [get_upd hi'] at hj
    by_cases hij : i = j
    · rw [if_pos hij] at hj; simp only [Option.some.injEq] at hj; subst hj
      obtain ⟨u1, u2⟩ := h.fresh i st hi' (by omega)
      exact ⟨by rw [ha]; exact u1, by rw [hgo]; exact u2⟩
    · rw [if_neg hij] at hj; exact h.fresh j stj hj hhi

/-- lookaheads grew, nothing else changed -/
theorem InvC.setItems_grown {lo hi : Nat} {sts : Array State} (h : InvC g lo hi sts) {i : Nat} {st : State}
    (hi' : sts[i]? = some st) {items : List Item} (hgr : Grown st.items items) :
    InvC g lo hi (setItems sts i items) := by
  rw [setItems_eq hi']
  have hst := h.st i st hi'
  have hc : items.map core = st.items.map core := hgr.cores
  apply h.update (st' := { st with items := items }) hi' rfl rfl
  · intro c hc'; show c ∈ items.map core; rw [hc]; exact hc'
  · refine ⟨?_, hst.cell1, ?_⟩
    · intro a s' hs
      obtain ⟨c, c1, c2⟩ := hst.cellsound a s' hs
      exact ⟨c, by show c ∈ items.map core; rw [hc]; exact c1, c2⟩
    · intro it hit hp
      obtain ⟨it0, b1, b2, b3⟩ := hgr.back it hit
      simp only [core, _root_.Prod.mk.injEq] at b2
      exact b3 0 (hst.aug0 it0 b1 (by rw [b2.1]; exact hp))
  · intro hlo
    refine ⟨?_, fun c hc' => by rw [← hc]; exact hc'⟩
    have := h.closed i st hi' hlo
    unfold ClosedC at this ⊢
    show ∀ c ∈ items.map core, _
    rw [hc]
    exact this

end Rustemo.Table

namespace Rustemo.Table

variable {g : Grammar}

theorem stateEq_new_cores {old new : List Item} (h : stateEq old new = true) (hnew : ∀ n ∈ new, n.dot ≠ 0) :
    ∀ n ∈ new, core n ∈ old.map core := by
  intro n hn
  unfold stateEq at h
  have h1 := coresEq_map h
  have h2 : new.filter isKernel = new := List.filter_eq_self.mpr fun n hn => isKernel_of_dot (hnew n hn)
  rw [h2] at h1
  have : core n ∈ (old.filter isKernel).map core := by rw [h1]; exact List.mem_map.mpr ⟨n, hn, rfl⟩
  obtain ⟨it, i1, i2⟩ := List.mem_map.mp this
  exact List.mem_map.mpr ⟨it, (List.mem_filter.mp i1).1, i2⟩

theorem addTrans_keeps {st st' : State} {X tgt : Nat} (h : addTrans g st X tgt = .ok st') {Y s' : Nat}
    (ht : HasTrans g st Y s') (hne : Y ≠ X) : HasTrans g st' Y s' := by
  obtain ⟨_, _, _, _, h5, h6⟩ := addTrans_ok h
  rcases ht with ⟨hY, hm⟩ | ⟨hY, hm⟩
  · left
    refine ⟨hY, ?_⟩
    rw [h5, if_neg (fun hc => hne hc.2)]
    exact hm
  · right
    refine ⟨hY, ?_⟩
    rw [h6, if_neg (fun hc => hne (by omega))]
    exact hm

theorem addTrans_new {st st' : State} {X tgt : Nat} (h : addTrans g st X tgt = .ok st') : HasTrans g st' X tgt := by
  obtain ⟨_, _, _, _, h5, h6⟩ := addTrans_ok h
  by_cases hX : X < g.nterms
  · left
    refine ⟨hX, ?_⟩
    rw [h5, if_pos ⟨hX, rfl⟩]
    exact List.mem_append.mpr (.inr List.mem_cons_self)
  · right
    refine ⟨by omega, ?_⟩
    rw [h6, if_pos ⟨by omega, rfl⟩]

theorem InvC.push {lo hi : Nat} {sts : Array State} (h : InvC g lo hi sts) (_hlo : lo ≤ sts.size) (_hhi : hi ≤ sts.size)
    {X : Nat} {items : List Item} (haug : ∀ it ∈ items, it.prod = 0 → 0 ∈ it.la) :
    InvC g lo hi (sts.push (freshState g X items)) := by
  have hget : ∀ j, (sts.push (freshState g X items))[j]? =
      if j = sts.size then some (freshState g X items) else sts[j]? := fun j => Array.getElem?_push
  refine ⟨?_, ?_, ?_, ?_⟩
  · intro j stj hj
    rw [hget] at hj
    by_cases hjs : j = sts.size
    · rw [if_pos hjs] at hj; simp only [Option.some.injEq] at hj; subst hj
      refine ⟨?_, ?_, haug⟩
      · intro a s' hs; rw [freshState_cell] at hs; simp at hs
      · intro a; rw [freshState_cell]; simp
    · rw [if_neg hjs] at hj; exact h.st j stj hj
  · intro j stj hj hjl
    rw [hget, if_neg (by omega)] at hj
    exact h.closed j stj hj hjl
  · intro j stj hj hjl c hc Y hY
    rw [hget, if_neg (by omega)] at hj
    obtain ⟨s', t1, st'', t2, t3⟩ := h.trans j stj hj hjl c hc Y hY
    refine ⟨s', t1, st'', ?_, t3⟩
    rw [hget, if_neg (by have := lt_size_of_getElem? t2; omega)]
    exact t2
  · intro j stj hj hjh
    rw [hget] at hj
    by_cases hjs : j = sts.size
    · rw [if_pos hjs] at hj; simp only [Option.some.injEq] at hj; subst hj
      exact ⟨freshState_cell g X items, freshState_goto g X items⟩
    · rw [if_neg hjs] at hj; exact h.fresh j stj hj hjh

/-- a new entry of the state being processed (`lo ≤ cur < hi`) -/
theorem InvC.link {lo hi : Nat} {sts : Array State} (h : InvC g lo hi sts) {cur : Nat} (h1 : lo ≤ cur) (h2 : cur < hi)
    {stc stc' : State} (hc : sts[cur]? = some stc) (hitems : stc'.items = stc.items) (hst : StC g stc') :
    InvC g lo hi (sts.setIfInBounds cur stc') := by
  refine ⟨?_, ?_, ?_, ?_⟩
  · intro j stj hj
    rw [get_upd hc] at hj
    by_cases hij : cur = j
    · rw [if_pos hij] at hj; simp only [Option.some.injEq] at hj; subst hj; exact hst
    · rw [if_neg hij] at hj; exact h.st j stj hj
  · intro j stj hj hjl
    rw [get_upd hc, if_neg (by omega)] at hj
    exact h.closed j stj hj hjl
  · intro j stj hj hjl c hcc Y hY
    rw [get_upd hc, if_neg (by omega)] at hj
    obtain ⟨s', t1, st'', t2, t3⟩ := h.trans j stj hj hjl c hcc Y hY
    refine ⟨s', t1, ?_⟩
    by_cases hcs : cur = s'
    · refine ⟨stc', by rw [get_upd hc, if_pos hcs], ?_⟩
      rw [← hcs, hc] at t2
      simp only [Option.some.injEq] at t2
      subst t2
      rw [hitems]; exact t3
    · exact ⟨st'', by rw [get_upd hc, if_neg hcs]; exact t2, t3⟩
  · intro j stj hj hjh
    rw [get_upd hc, if_neg (by omega)] at hj
    exact h.fresh j stj hj hjh

end Rustemo.Table
