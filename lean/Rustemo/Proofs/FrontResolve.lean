import Rustemo.Proofs.FrontConsist
import Rustemo.Proofs.FrontHelpers
/-!
# What a reference resolves to, and which symbol of the built grammar that is
-/
namespace Rustemo.Front

/-- `resolve_references` on a name: a terminal of that name first, else the nonterminal -/
def resName (terms : SMap Term) (nts : List NonTerm) (n : Name) : Option Nat :=
  match terms.get? n with
  | some t => some t.idx
  | none => (findNt nts n).map (fun nt => nt.idx + terms.length)

/-- relation between an assignment before and after both resolution passes -/
def ResOk (mm : SMap (Name × Nat)) (terms : SMap Term) (nts : List NonTerm) (a a' : RAssign) : Prop :=
  a'.name = a.name ∧ a'.sym = a.sym ∧ a'.isBool = a.isBool ∧
  (a.index = none →
    (∀ n, a.sym = .name n → a'.index.isSome ∧ a'.index = resName terms nts n) ∧
    (∀ s, a.sym = .str s → ∃ tn i, mm.get? s = some (tn, i) ∧ a'.index = some i))

theorem resolveInlineRhs_spec {mm : SMap (Name × Nat)} {k : Nat} :
    ∀ {l l' : List RAssign}, resolveInlineRhs mm k l = .ok l' →
      All2 (fun a a' => a'.name = a.name ∧ a'.sym = a.sym ∧ a'.isBool = a.isBool ∧
        (∀ n, a.sym = .name n → a'.index = a.index) ∧
        (∀ s, a.sym = .str s → ∃ tn i, mm.get? s = some (tn, i) ∧ a'.index = some i)) l l'
  | [], l', h => by
    cases h
    exact .nil
  | b :: bs, l', h => by
    unfold resolveInlineRhs at h
    simp only at h
    obtain ⟨x, hx, h⟩ := Outcome.bind_eq_ok.mp h
    obtain ⟨xs, hxs, h⟩ := Outcome.bind_eq_ok.mp h
    cases h
    refine .cons ?_ (resolveInlineRhs_spec hxs)
    split at hx
    · rename_i s hsym
      split at hx
      · rename_i tn idx hg
        cases hx
        refine ⟨rfl, rfl, rfl, ?_, ?_⟩
        · intro n hn
          rw [hsym] at hn
          cases hn
        · intro s' hs'
          rw [hsym] at hs'
          cases hs'
          exact ⟨tn, idx, hg, rfl⟩
      · cases hx
    · rename_i n hsym
      cases hx
      refine ⟨rfl, rfl, rfl, fun _ _ => rfl, ?_⟩
      intro s hs
      rw [hsym] at hs
      cases hs

theorem resolveSym_spec {se : RFlags} {terms : SMap Term} {nts : List NonTerm} {p : GProd} {len : Nat} {b x : RAssign}
    (hx : resolveSym se terms nts p len b = .ok x) :
    x.name = b.name ∧ x.sym = b.sym ∧ x.isBool = b.isBool ∧
      (∀ i, b.index = some i → x.index = some i) ∧
      (b.index = none → ∀ n, b.sym = .name n → x.index.isSome ∧ x.index = resName terms nts n) := by
  unfold resolveSym at hx
  split at hx
  · rename_i i hi
    cases hx
    refine ⟨rfl, rfl, rfl, ?_, ?_⟩
    · intro j hj
      exact hj
    · intro hn
      rw [hi] at hn
      cases hn
  · rename_i hi
    split at hx
    · rename_i n hsym
      split at hx
      · cases hx
      · split at hx
        · cases hx
        · split at hx
          · rename_i t ht
            cases hx
            refine ⟨rfl, rfl, rfl, ?_, ?_⟩
            · intro j hj
              rw [hi] at hj
              cases hj
            · intro _ n' hn'
              rw [hsym] at hn'
              cases hn'
              exact ⟨rfl, by simp [resName, ht]⟩
          · rename_i ht
            split at hx
            · cases hx
            · rename_i nt hf
              split at hx
              · cases hx
              · cases hx
                refine ⟨rfl, rfl, rfl, ?_, ?_⟩
                · intro j hj
                  rw [hi] at hj
                  cases hj
                · intro _ n' hn'
                  rw [hsym] at hn'
                  cases hn'
                  exact ⟨rfl, by simp [resName, ht, hf]⟩
    · rename_i s hsym
      split at hx
      · cases hx
        refine ⟨rfl, rfl, rfl, ?_, ?_⟩
        · intro j hj
          rw [hi] at hj
          cases hj
        · intro _ n hn
          rw [hsym] at hn
          cases hn
      · cases hx

theorem resolveRhs_spec {se : RFlags} {terms : SMap Term} {nts : List NonTerm} {p : GProd} {len : Nat} :
    ∀ {l l' : List RAssign}, resolveRhs se terms nts p len l = .ok l' →
      All2 (fun a a' => a'.name = a.name ∧ a'.sym = a.sym ∧ a'.isBool = a.isBool ∧
        (∀ i, a.index = some i → a'.index = some i) ∧
        (a.index = none → ∀ n, a.sym = .name n → a'.index.isSome ∧ a'.index = resName terms nts n)) l l'
  | [], l', h => by
    cases h
    exact .nil
  | b :: bs, l', h => by
    unfold resolveRhs at h
    obtain ⟨x, hx, h⟩ := Outcome.bind_eq_ok.mp h
    obtain ⟨xs, hxs, h⟩ := Outcome.bind_eq_ok.mp h
    cases h
    exact .cons (resolveSym_spec hx) (resolveRhs_spec hxs)

theorem all2_comp {α : Type} {R S T : α → α → Prop} (hc : ∀ a b c, R a b → S b c → T a c) :
    ∀ {l1 l2 l3 : List α}, All2 R l1 l2 → All2 S l2 l3 → All2 T l1 l3
  | [], _, _, h1, h2 => by
    cases h1; cases h2; exact .nil
  | _ :: _, _, _, h1, h2 => by
    cases h1 with
    | cons hab t1 =>
      cases h2 with
      | cons hbc t2 => exact .cons (hc _ _ _ hab hbc) (all2_comp hc t1 t2)

/-- a production before / after resolution -/
def ProdRes (mm : SMap (Name × Nat)) (terms : SMap Term) (nts : List NonTerm) (p p' : GProd) : Prop :=
  ∃ rhs', p' = { p with rhs := rhs' } ∧ All2 (ResOk mm terms nts) p.rhs rhs'

theorem resolve_spec {se : RFlags} {mm : SMap (Name × Nat)} {terms : SMap Term} {nts : List NonTerm} :
    ∀ {ps ps1 ps2 : List GProd}, resolveInline mm ps = .ok ps1 → resolveRefs se terms nts ps1 = .ok ps2 →
      All2 (ProdRes mm terms nts) ps ps2
  | [], ps1, ps2, h1, h2 => by
    cases h1
    cases h2
    exact .nil
  | p :: ps, ps1, ps2, h1, h2 => by
    unfold resolveInline at h1
    obtain ⟨rhs1, e1, h1⟩ := Outcome.bind_eq_ok.mp h1
    obtain ⟨qs1, e1', h1⟩ := Outcome.bind_eq_ok.mp h1
    cases h1
    unfold resolveRefs at h2
    obtain ⟨rhs2, e2, h2⟩ := Outcome.bind_eq_ok.mp h2
    obtain ⟨qs2, e2', h2⟩ := Outcome.bind_eq_ok.mp h2
    cases h2
    refine .cons ⟨rhs2, rfl, ?_⟩ (resolve_spec e1' e2')
    refine all2_comp ?_ (resolveInlineRhs_spec e1) (resolveRhs_spec e2)
    intro a b c hab hbc
    obtain ⟨a1, a2, a3, a4, a5⟩ := hab
    obtain ⟨b1, b2, b3, b4, b5⟩ := hbc
    refine ⟨b1.trans a1, b2.trans a2, b3.trans a3, ?_⟩
    intro hnone
    constructor
    · intro n hn
      have hbn : b.index = none := by rw [a4 n hn]; exact hnone
      exact b5 hbn n (a2 ▸ hn)
    · intro s hs
      obtain ⟨tn, i, hg, hi⟩ := a5 s hs
      exact ⟨tn, i, hg, b4 i hi⟩

/-! ## symbols of the built grammar by name -/

/-- symbol `s` of `g` is a terminal or a nonterminal named `n` -/
def IsSym (g : Grammar) (n : Name) (s : Nat) : Prop :=
  (s < g.nT ∧ ∃ t, g.terminals[s]? = some t ∧ t.name = n) ∨
  (g.nT ≤ s ∧ ∃ nt, g.nonterminals[s - g.nT]? = some nt ∧ nt.name = n)

theorem setReachNts_get' (m : List Nat) : ∀ (i : Nat) (l : List NonTerm) (k : Nat) (x : NonTerm),
    l[k]? = some x → (setReachNts m i l)[k]? = some { x with reachable := m.contains (i + k) }
  | _, [], k, x, h => by simp at h
  | i, y :: ys, k, x, h => by
    unfold setReachNts
    cases k with
    | zero =>
      simp at h
      subst h
      simp
    | succ k =>
      simp at h
      have := setReachNts_get' m (i + 1) ys k x h
      simp only [List.getElem?_cons_succ]
      rw [this]
      have : i + 1 + k = i + (k + 1) := by omega
      rw [this]

theorem setReachTerms_get' (m : List Nat) : ∀ (i : Nat) (l : List Term) (k : Nat) (x : Term),
    l[k]? = some x → (setReachTerms m i l)[k]? = some { x with reachable := m.contains (i + k) }
  | _, [], k, x, h => by simp at h
  | i, y :: ys, k, x, h => by
    unfold setReachTerms
    cases k with
    | zero =>
      simp at h
      subst h
      simp
    | succ k =>
      simp at h
      have := setReachTerms_get' m (i + 1) ys k x h
      simp only [List.getElem?_cons_succ]
      rw [this]
      have : i + 1 + k = i + (k + 1) := by omega
      rw [this]

theorem Facts.nT_eq {fx : Fixes} {f : File} {g : Grammar} (F : Facts fx f g) : g.nT = F.ts.terms.length := by
  unfold Grammar.nT
  rw [F.terms, length_setReachTerms]
  unfold sortTerms
  rw [length_sortByKey]
  unfold SMap.values
  rw [List.length_map]

/-- an entry of the nonterminal map sits at position `idx` of the nonterminal vector -/
theorem Facts.nt_at {fx : Fixes} {f : File} {g : Grammar} (F : Facts fx f g) {nt : NonTerm} (h : nt ∈ F.st.nts) :
    ∃ y, g.nonterminals[nt.idx]? = some y ∧ y.name = nt.name ∧ y.prods = nt.prods ∧
      y.annotation = nt.annotation ∧ y.idx = nt.idx := by
  have hm : nt ∈ sortNts F.st.nts := by
    unfold sortNts
    rw [mem_sortByKey]
    exact h
  obtain ⟨j, hj⟩ := List.getElem?_of_mem hm
  have hpos := sortNts_pos F.ninv j nt hj
  subst hpos
  rw [F.nonterms]
  exact ⟨_, setReachNts_get' _ _ _ _ _ hj, rfl, rfl, rfl, rfl⟩

theorem Facts.term_at {fx : Fixes} {f : File} {g : Grammar} (F : Facts fx f g) {k : Name} {t : Term}
    (h : F.ts.terms.get? k = some t) :
    ∃ y, g.terminals[t.idx]? = some y ∧ y.name = k ∧ y.recog = t.recog ∧ y.idx = t.idx ∧ t.idx < g.nT := by
  have hmem := SMap.mem_of_get? h
  have hm : t ∈ sortTerms F.ts.terms.values := by
    unfold sortTerms
    rw [mem_sortByKey]
    unfold SMap.values
    exact List.mem_map.mpr ⟨(k, t), hmem, rfl⟩
  obtain ⟨j, hj⟩ := List.getElem?_of_mem hm
  have hpos := sortTerms_pos F.tinv j t hj
  subst hpos
  rw [F.terms]
  refine ⟨_, setReachTerms_get' _ _ _ _ _ hj, F.tinv.named _ hmem, rfl, rfl, ?_⟩
  rw [F.nT_eq]
  exact (terms_get? F.tinv h).1

/-- what a name resolves to is a symbol of that name -/
theorem Facts.resName_isSym {fx : Fixes} {f : File} {g : Grammar} (F : Facts fx f g) {n : Name} {s : Nat}
    (h : resName F.ts.terms F.st.nts n = some s) : IsSym g n s := by
  unfold resName at h
  cases ht : F.ts.terms.get? n with
  | some t =>
    rw [ht] at h
    cases h
    obtain ⟨y, hy, hn, _, _, hlt⟩ := F.term_at ht
    exact Or.inl ⟨hlt, y, hy, hn⟩
  | none =>
    rw [ht] at h
    cases hf : findNt F.st.nts n with
    | none =>
      rw [hf] at h
      cases h
    | some nt =>
      rw [hf] at h
      simp only [Option.map_some] at h
      cases h
      obtain ⟨hm, hname⟩ := findNt_some hf
      obtain ⟨y, hy, hn, _⟩ := F.nt_at hm
      refine Or.inr ⟨by rw [F.nT_eq]; omega, y, ?_, hn.trans hname⟩
      rw [F.nT_eq]
      have : nt.idx + F.ts.terms.length - F.ts.terms.length = nt.idx := by omega
      rw [this]
      exact hy

end Rustemo.Front
